import Dashu.Props.C13
import Dashu.Model.Forms.Float
/-
  C15 ↔ C13 link: the `Ordering::Greater` branch of `Context::repr_rem` (float/src/div.rs) forms the two candidate remainders in
  the ring of `ConstDivisor::new(|rhs|)`: `scaling = B^shift` (`(UBig::ONE << shift).into_ring` for B = 2,
  `UBig::from_word(B).into_ring(..).pow(shift)` otherwise), `r = |lhs|.into_ring * scaling`, `r1 = r.residue()`,
  `r2 = (-r).residue()`.  `Model/Forms/Float.remSignif` (what `drive_forms` executes) takes these at their specification
  `% |rhs|`.  Here the ring computation is written on C13's mirrored model (`Ring.new`, `reduceInt`, `Elem.pow`, `Elem.mul`,
  `Elem.neg`, `Elem.residue`) and proved — by C13's theorems, imported — to return exactly the two numbers `remSignif` uses.
-/
namespace Dashu.Props.C15LinkRem
open Dashu Dashu.Model Dashu.Model.NT Dashu.Model.Float Dashu.Model.Forms

/-- the ring part of `Context::repr_rem`, `Ordering::Greater` branch, on C13's model: `(r1, r2)` or the panic of
    `ConstDivisor::new(0)` -/
def ringRemainders (W B a b shift : Nat) : Except PanicKind (Nat × Nat) :=
  match Ring.new W 0 b with
  | .error k => .error k
  | .ok r =>
    let scaling := if B = 2 then reduceInt W r (((1 <<< shift : Nat)) : Int) else (reduceInt W r (B : Int)).pow W shift
    match (reduceInt W r (a : Int)).mul W scaling with
    | .error k => .error k
    | .ok e => .ok (e.residue, e.neg.residue)

theorem elem_eta (r : Ring) (e : Elem) (h : e.ring = r) : e = ⟨r, e.raw⟩ := by
  cases e; cases h; rfl

theorem residue_lt (r : Ring) (x : Nat) (h : Valid r x) : (⟨r, x⟩ : Elem).residue < r.m := by
  obtain ⟨v, hv, rfl⟩ := h
  rw [residue_of_raw]; exact hv

theorem neg_residue (m n e : Nat) (hn : n < m) (he : e < m) (h : (n + e) % m = 0) : n = (m - e) % m := by
  obtain ⟨k, hk⟩ := Nat.dvd_of_mod_eq_zero h
  have hk2 : k < 2 := by
    by_contra hc
    have : m * 2 ≤ m * k := Nat.mul_le_mul_left m (by omega)
    omega
  have hk01 : k = 0 ∨ k = 1 := by omega
  rcases hk01 with rfl | rfl
  · have : n = 0 ∧ e = 0 := by omega
    rw [this.1, this.2, Nat.sub_zero, Nat.mod_self]
  · rw [Nat.mod_eq_of_lt] <;> omega

theorem ringRemainders_zero (W B a shift : Nat) : ringRemainders W B a 0 shift = .error .divideByZero := by
  unfold ringRemainders; simp [Ring.new]

/-- **the ring computation returns the two specification remainders** (every word size, base, operand, shift) -/
theorem ringRemainders_spec (W B a b shift : Nat) (hW : 0 < W) (hb : b ≠ 0) :
    ringRemainders W B a b shift = .ok ((a * B ^ shift) % b, (b - (a * B ^ shift) % b) % b) := by
  obtain ⟨r, hr, hm, -, hwf⟩ := (Dashu.Props.C13.new_spec W 0 b hW).2 hb
  unfold ringRemainders
  rw [hr]
  simp only []
  -- the dividend
  obtain ⟨hxv, hxr, -, -, hxring⟩ := Dashu.Props.C13.reduce_spec W r hwf (a : Int)
  -- the scaling factor
  have hs : ∃ s : Elem, (if B = 2 then reduceInt W r (((1 <<< shift : Nat)) : Int) else (reduceInt W r (B : Int)).pow W shift) = s ∧
      s.ring = r ∧ Valid r s.raw ∧ s.residue = (B ^ shift) % r.m := by
    by_cases hB : B = 2
    · obtain ⟨hv, hres, -, -, hring⟩ := Dashu.Props.C13.reduce_spec W r hwf (((1 <<< shift : Nat)) : Int)
      refine ⟨_, rfl, ?_, ?_, ?_⟩ <;> simp only [hB, if_true]
      · exact hring
      · exact hv
      · rw [Nat.one_shiftLeft] at hres ⊢
        exact_mod_cast hres
    · obtain ⟨hv, hres⟩ := Dashu.Props.C13.hom_pow W r hwf (B : Int) shift
      have hring := (Dashu.Props.C13.reduce_spec W r hwf (B : Int)).2.2.2.2
      refine ⟨_, rfl, ?_, ?_, ?_⟩ <;> simp only [hB, if_false]
      · exact hring
      · exact hv
      · exact_mod_cast hres
  obtain ⟨s, hse, hsring, hsv, hsres⟩ := hs
  rw [hse, elem_eta r _ hxring, elem_eta r s hsring]
  obtain ⟨e, hmul, hering, hev, heres⟩ := (Dashu.Props.C13.ops_closed W r hwf _ _ hxv hsv).2.2.1
  rw [hmul]
  simp only []
  have hx' : (⟨r, (reduceInt W r (a : Int)).raw⟩ : Elem).residue = a % r.m := by
    rw [← elem_eta r _ hxring]; exact_mod_cast hxr
  have hs' : (⟨r, s.raw⟩ : Elem).residue = (B ^ shift) % r.m := by
    rw [← elem_eta r s hsring]; exact hsres
  have he1 : e.residue = (a * B ^ shift) % b := by
    rw [heres, hx', hs', hm, ← Nat.mul_mod]
  have hneg := (Dashu.Props.C13.ops_closed W r hwf _ _ hev hev).2.2.2.1
  rw [← elem_eta r e hering] at hneg
  have helt : e.residue < r.m := by
    rw [elem_eta r e hering]; exact residue_lt r _ hev
  have hnlt : e.neg.residue < r.m := by
    have := residue_lt r _ hneg.1
    have h2 : (⟨r, e.neg.raw⟩ : Elem) = e.neg := by
      rw [← elem_eta r e.neg (by simp [Elem.neg, hering])]
    rw [h2] at this; exact this
  have he2 : e.neg.residue = (b - (a * B ^ shift) % b) % b := by
    rw [← he1, ← hm]; exact neg_residue _ _ _ hnlt helt hneg.2
  rw [he1] at *
  rw [he2]

/-- **link**: in the `Ordering::Greater` branch `remSignif` (executed by the driver) chooses between exactly the two
    residues the ring computation of C13's model returns -/
theorem remSignif_greater_is_ring (W B : Nat) (lhs rhs : FRepr) (hW : 0 < W) (hb : rhs.signif ≠ 0) (hgt : lhs.exp > rhs.exp) :
    ∃ r1 r2 : Nat,
      ringRemainders W B lhs.signif.natAbs rhs.signif.natAbs (lhs.exp - rhs.exp).toNat = .ok (r1, r2) ∧
      remSignif B lhs rhs =
        (if r1 < r2 then (if lhs.signif < 0 then -1 else 1) * (r1 : Int) else -(if lhs.signif < 0 then -1 else 1) * (r2 : Int)) := by
  refine ⟨_, _, ringRemainders_spec W B _ _ _ hW (by omega), ?_⟩
  unfold remSignif
  have hne : ¬ lhs.exp = rhs.exp := by omega
  simp only [hne, if_false, hgt, if_true]

/-- a zero divisor: `ConstDivisor::new` panics (`reprRem` answers DivideByZero before anything else) -/
theorem ring_zero_divisor (W B a shift : Nat) : ringRemainders W B a 0 shift = .error .divideByZero :=
  ringRemainders_zero W B a shift

-- non-vacuity: 12345·10^3 mod 7 through a single-word ring, and a two-word modulus in base 2
example : ringRemainders 64 10 12345 7 3 = .ok (12345000 % 7, (7 - 12345000 % 7) % 7) :=
  ringRemainders_spec 64 10 12345 7 3 (by decide) (by decide)
example : remSignif 10 ⟨12345, 3⟩ ⟨7, 0⟩ = 3 := by decide

end Dashu.Props.C15LinkRem
