import Dashu.Props.C18
import Dashu.Gen.ErrorBounds
/-
  C18, Tie A: the part of the hand model of `RBig::simplest_from_float` that mirrors the CODE
  (`Quirks.code`: what float/src/round.rs `ErrorBounds` returns today, defects included) is proved
  equal to the decision tables REGENERATED from the source on every run
  (`Dashu.Gen.ErrorBounds`, vlib/extract_errorbounds.py).  A change of any `impl ErrorBounds for
  mode::X`, of the half-ulp formula `(B + 1) / 2`, or of the body of `simplest_from_float` changes
  the regenerated text and breaks a theorem of this file (or the extraction fails closed) — in
  particular when proposed_fixes/fbig-error-bounds.diff is applied, which is the moment to switch the
  corresponding `Quirks` off in `Driver/Ratio.lean activeQuirks`.
-/
namespace Dashu.Props.C18Gen
open Dashu Dashu.Model Dashu.Model.Ratio Dashu.Gen.ErrorBounds

/-- the regenerated `error_bounds` of a mode -/
def genBounds : RMode → Bool → Bool → Bool → Bool → Width × Width × Bool × Bool
  | .zero => error_bounds_Zero
  | .away => error_bounds_Away
  | .up => error_bounds_Up
  | .down => error_bounds_Down
  | .halfAway => error_bounds_HalfAway
  | .halfEven => error_bounds_HalfEven

/-- a width in the model's unit `b^(e−1)/2`, where `f.ulp() = b^e` and
    `half_ulp = half_ulp_signif b · b^(e−1)` -/
def widthUnits (b : Nat) : Width → Int
  | .zero => 0
  | .ulp => 2 * b
  | .halfUlp => 2 * (half_ulp_signif b : Nat)

/-- the leaf mentions `f.ulp()` (directly or through `half_ulp`): it was evaluated on the way -/
def usesUlp (t : Width × Width × Bool × Bool) : Bool :=
  decide (t.1 ≠ .zero) || decide (t.2.1 ≠ .zero)

/-- the interval of MAGNITUDES `[|f| − lo, |f| + hi]` that the signed interval `[f − L, f + R]` is:
    for a negative float the two sides (and their inclusion flags) swap -/
def magnitudeSet (b : Nat) (c : Int) (neg : Bool) (t : Width × Width × Bool × Bool) :
    Int × Int × Bool × Bool :=
  if neg then (c - widthUnits b t.2.1, c + widthUnits b t.1, t.2.2.2, t.2.2.1)
  else (c - widthUnits b t.1, c + widthUnits b t.2.1, t.2.2.1, t.2.2.2)

/-- the regenerated half-ulp significand is `⌈B/2⌉` (proved by `omega`, so that an equivalent way of
    writing the formula in the source — `(1 + B) / 2`, `B / 2 + B % 2` — still checks) -/
theorem half_ulp_signif_eq (b : Nat) : half_ulp_signif b = (b + 1) / 2 := by
  unfold half_ulp_signif; omega

/-- **the code's rounding set is the regenerated `error_bounds`** (every mode, base, precision,
    sign, significand, parity; finite non-zero float of limited precision): the table
    `roundingSet Quirks.code` the driver uses to reproduce the code is `[f − L, f + R]` with
    `(L, R, incl_L, incl_R)` read from float/src/round.rs, in units of `b^(e−1)/2`. -/
theorem code_rounding_set_is_error_bounds (mode : RMode) (b p : Nat) (neg : Bool) (S : Nat)
    (odd : Bool) :
    roundingSet Quirks.code mode b p neg S odd =
      magnitudeSet b (2 * b * S) neg (genBounds mode false false neg odd) := by
  cases mode <;> cases neg <;>
    simp [roundingSet, Quirks.code, magnitudeSet, genBounds, widthUnits, half_ulp_signif_eq,
      error_bounds_Zero, error_bounds_Away, error_bounds_Up, error_bounds_Down,
      error_bounds_HalfAway, error_bounds_HalfEven]

/-- the regenerated tables at unlimited precision (`prec0`), non-zero float: `Zero`, `HalfAway`,
    `HalfEven` return `(0, 0, true, true)` as the trait documents; `Away`, `Up`, `Down` evaluate
    `f.ulp()`, which panics (a defect of those `impl`s against the trait documentation; since round 6
    not reachable through `simplest_from_float`, see `entry_is_skeleton`) -/
theorem error_bounds_unlimited (mode : RMode) (neg odd : Bool) :
    (usesUlp (genBounds mode true false neg odd) = true ↔
      (mode = .away ∨ mode = .up ∨ mode = .down)) ∧
    (usesUlp (genBounds mode true false neg odd) = false →
      genBounds mode true false neg odd = (.zero, .zero, true, true)) := by
  cases mode <;> cases neg <;>
    simp [usesUlp, genBounds, error_bounds_Zero, error_bounds_Away, error_bounds_Up,
      error_bounds_Down, error_bounds_HalfAway, error_bounds_HalfEven]

/-- **the early returns of `simplest_from_float`** (regenerated skeleton): infinite ⇒ `None`,
    zero ⇒ `Some(ZERO)`, unlimited precision ⇒ the exact value `Self::try_from(f.clone())` (the reduced
    fraction of `signif · b^exp`) WITHOUT asking `R::error_bounds` — so neither the `f.ulp()` panic of
    `ErrorBounds for Away/Up/Down` (`error_bounds_unlimited`) nor the rounding of `f ± 0` to
    `Context::max(0, 0 + 1)` digits can be reached —, otherwise the interval path.  If the early
    return for `f.precision() == 0` disappears from the source the regenerated skeleton has no path 3
    and this theorem stops checking. -/
theorem entry_is_skeleton (k : Quirks) (simpler : Q → Q → Bool) (mode : RMode) (b : Nat)
    (signif exp : Int) (p : Nat) :
    rbigSimplestFromFloat k simpler mode b signif exp p =
      match simplest_from_float_path (fbigIsInfinite signif exp) (signif == 0 && exp == 0)
          (p == 0) with
      | 0 => .ok (some none)
      | 1 => .ok (some (some Q.zero))
      | 3 => (reduce (scaleQ signif b exp)).map (fun r => some (some r))
      | _ => (simplestFromFBig k simpler mode b signif exp p).map (Option.map some) := by
  unfold rbigSimplestFromFloat simplest_from_float_path fbigIsInfinite
  by_cases hs : signif = 0
  · subst hs
    by_cases he : exp = 0
    · subst he; simp [simplestFromFBig, Except.map]
    · simp [he]
  · by_cases hp : p = 0
    · subst hp
      have h1 : (signif == 0) = false := by simp [hs]
      have h0 : simplestFromFBig k simpler mode b signif exp 0 =
          (reduce (scaleQ signif b exp)).map some := by
        unfold simplestFromFBig
        simp only [if_neg hs, if_true]
      rw [h0]
      simp only [h1, Bool.false_and, Bool.false_eq_true, if_false, beq_self_eq_true, if_true]
      cases reduce (scaleQ signif b exp) <;> rfl
    · simp [hs, hp]

/-- **the regenerated skeleton returns the exact value at unlimited precision** (path 3, for a finite
    non-zero float), and that is what the model does there for every mode and every switch setting.
    The first conjunct is false for a `simplest_from_float` without the early return
    `if f.precision() == 0 { return Some(Self::try_from(f.clone()).unwrap()) }` (the /repo HEAD 164990d
    text, whose result at precision 0 was the float rounded to one digit, or a panic). -/
theorem unlimited_path_is_exact (k : Quirks) (simpler : Q → Q → Bool) (mode : RMode) (b : Nat)
    (signif exp : Int) (hs : signif ≠ 0) :
    simplest_from_float_path false false true = 3 ∧
    rbigSimplestFromFloat k simpler mode b signif exp 0 =
      (reduce (scaleQ signif b exp)).map (fun r => some (some r)) := by
  refine ⟨rfl, ?_⟩
  have h := entry_is_skeleton k simpler mode b signif exp 0
  have h1 : (signif == 0) = false := by simp [hs]
  have hinf : fbigIsInfinite signif exp = false := by simp [fbigIsInfinite, hs]
  rw [h, hinf, h1]
  rfl

-- ------------------------------------------------------------------ error_bounds called directly (op `eb.bounds`)

/-- a width in units of `b^(e−1)/2` as an exact value (what the driver prints after `reduce`) -/
def widthQ (b : Nat) (e : Int) (w : Int) : Q :=
  ⟨(scaleQ w b (e - 1)).num, (scaleQ w b (e - 1)).den * 2⟩

/-- **`error_bounds` as driven (`errorBoundsFBig`, code side) IS the regenerated table**, limited
    precision, every mode / base / float: `L` and `R` are the widths the table of float/src/round.rs
    names (`ZERO`, `f.ulp()`, `half_ulp`), the flags are the table's flags — for positive AND negative
    floats (the magnitude orientation of `roundingSet` is undone exactly). -/
theorem error_bounds_model_is_tables (mode : RMode) (b : Nat) (signif exp : Int) (p : Nat)
    (hp : p ≠ 0) (hn : ¬ digitsB b (signif.natAbs + 1) signif.natAbs > p) :
    errorBoundsFBig Quirks.code true mode b signif exp p =
      (let t := genBounds mode false false (decide (signif < 0)) (decide (signif.natAbs % 2 = 1))
       let e : Int := exp - (p - digitsB b (signif.natAbs + 1) signif.natAbs : Nat)
       .ok (some (widthQ b e (widthUnits b t.1), widthQ b e (widthUnits b t.2.1), t.2.2.1, t.2.2.2))) := by
  unfold errorBoundsFBig
  simp only [if_neg hp, if_neg hn, code_rounding_set_is_error_bounds, magnitudeSet, widthQ]
  by_cases hneg : signif < 0
  · simp only [hneg, decide_true, if_true, sub_sub_cancel, add_sub_cancel_left]
  · simp only [hneg, decide_false, Bool.false_eq_true, if_false, sub_sub_cancel, add_sub_cancel_left]

/-- … and at unlimited precision: a panic iff the regenerated table evaluates `f.ulp()`
    (`Away`, `Up`, `Down`: recorded finding), else `(ZERO, ZERO, true, true)`; the REQUIRED result is
    `(ZERO, ZERO, true, true)` for every mode, as the trait documents. -/
theorem error_bounds_model_unlimited (mode : RMode) (b : Nat) (signif exp : Int) (odd : Bool) :
    errorBoundsFBig Quirks.code true mode b signif exp 0 =
      (if usesUlp (genBounds mode true false (decide (signif < 0)) odd) then
        .error .unlimitedPrecision
      else .ok (some (Q.zero, Q.zero, true, true))) ∧
    errorBoundsFBig Quirks.none false mode b signif exp 0 = .ok (some (Q.zero, Q.zero, true, true)) := by
  unfold errorBoundsFBig
  simp only [if_true, true_and, Bool.false_eq_true, false_and, if_false, and_true]
  have h := (error_bounds_unlimited mode (decide (signif < 0)) odd).1
  by_cases hm : mode = .away ∨ mode = .up ∨ mode = .down
  · rw [if_pos hm, if_pos (h.2 hm)]
  · rw [if_neg hm, if_neg (fun hu => hm (h.1 hu))]

-- non-vacuity: HalfAway, base 3, the float −1 at precision 2 (the `eb.bounds` witness of corpus/C18)
example : ¬ digitsB 3 (1 + 1) 1 > 2 ∧
    errorBoundsFBig Quirks.code true .halfAway 3 (-1) 0 2 = .ok (some (⟨4, 18⟩, ⟨4, 18⟩, false, true)) ∧
    errorBoundsFBig Quirks.none false .halfAway 3 (-1) 0 2 = .ok (some (⟨3, 18⟩, ⟨1, 18⟩, false, true)) := by
  decide

/-- **the end-point selection** of the model (`pickSimplest`) is the regenerated one: left first,
    then right, each only if included and simpler -/
theorem pick_is_skeleton (simpler : Q → Q → Bool) (lo hi : Q) (inclLo inclHi : Bool) :
    pickSimplest simpler lo hi inclLo inclHi =
      (do match ← simplestIn lo hi with
          | none => pure none
          | some s => pure (some (simplest_from_float_pick simpler lo hi s inclLo inclHi))) := by
  unfold pickSimplest simplest_from_float_pick
  cases hsi : simplestIn lo hi with
  | error e => rfl
  | ok o =>
    cases o with
    | none => rfl
    | some s =>
      simp only [bind, Except.bind, pure, Except.pure]
      cases inclLo <;> cases inclHi <;> cases h1 : simpler lo s <;> simp [h1]

-- ------------------------------------------------------------------ impl_simplest_from_float! (f32 / f64)

open Dashu.Gen.SimplestFromFloat in
/-- **the rounding interval of `simplest_from_f32/f64` is the regenerated one** (every mantissa
    width `mb`, least exponent, magnitude, exponent): `roundingInterval` — about which
    `Props/C18Link.rounding_set_is_preimage` proves that it is the exact preimage of the float — is
    `(center − below, center + above) << shift` over `1 << den_shift` with the numbers read from the
    macro body in rational/src/simplify.rs (`MANTISSA_DIGITS = mb + 1`). -/
theorem rounding_interval_is_macro (mb : Nat) (minExp : Int) (m : Nat) (exp : Int) :
    roundingInterval mb minExp m exp =
      (⟨(center m - below (mb + 1) minExp m exp) * 2 ^ (shifts exp).1, 2 ^ (shifts exp).2⟩,
       ⟨(center m + above) * 2 ^ (shifts exp).1, 2 ^ (shifts exp).2⟩) := by
  unfold roundingInterval below center above shifts
  by_cases h : exp ≥ 2
  · have h' : exp - 2 ≥ 0 := by omega
    simp only [h, h', if_true, Nat.add_sub_cancel, pow_zero]
    by_cases hc : m = 2 ^ mb ∧ exp > minExp
    · simp only [hc, and_self, if_true]; refine Prod.ext ?_ ?_ <;> (simp only; congr 1; push_cast; ring)
    · simp only [hc, if_false]; refine Prod.ext ?_ ?_ <;> (simp only; congr 1; ring)
  · have h' : ¬ exp - 2 ≥ 0 := by omega
    have e : (-(exp - 2)).toNat = (2 - exp).toNat := by congr 1; ring
    simp only [h, h', if_false, Nat.add_sub_cancel, pow_zero, mul_one, e]
    by_cases hc : m = 2 ^ mb ∧ exp > minExp
    · simp only [hc, and_self, if_true]; refine Prod.ext ?_ ?_ <;> (simp only; congr 1; push_cast; ring)
    · simp only [hc, if_false]; refine Prod.ext ?_ ?_ <;> (simp only; congr 1; ring)

open Dashu.Gen.SimplestFromFloat in
/-- the least exponents of the two formats: `min_exp` of the macro with the constants of
    `f32` (`MIN_EXP = −125`, `MANTISSA_DIGITS = 24`) and `f64` (`−1021`, `53`) is the `1 − bias − mb`
    the model passes to `roundingInterval` -/
theorem min_exp_f32_f64 :
    min_exp (-125) 24 = 1 - (2 ^ (8 - 1) - 1) - (23 : Nat) ∧
    min_exp (-1021) 53 = 1 - (2 ^ (11 - 1) - 1) - (52 : Nat) := by decide

open Dashu.Gen.SimplestFromFloat in
/-- the parity test: the macro looks at the last bit of `to_bits()`, the model at the parity of the
    decoded mantissa — the same for every format with at least one explicit mantissa bit -/
theorem ends_allowed_is_mantissa_parity (eb mb bits : Nat) (hmb : 1 ≤ mb) (man exp : Int)
    (h : floatDecode eb mb bits = some (man, exp)) :
    ends_allowed bits = decide (man.natAbs % 2 = 0) := by
  unfold floatDecode at h
  simp only at h
  split at h
  · exact absurd h (by simp)
  · have h2 : (2 : Nat) ∣ 2 ^ mb := dvd_pow_self 2 (by omega)
    have hpar : bits % 2 ^ mb % 2 = bits % 2 := Nat.mod_mod_of_dvd bits h2
    have hpow : 2 ^ mb % 2 = 0 := by obtain ⟨k, hk⟩ := h2; omega
    have hgoal : ∀ m : Nat, (m = bits % 2 ^ mb ∨ m = bits % 2 ^ mb + 2 ^ mb) →
        ends_allowed bits = decide (m % 2 = 0) := by
      intro m hm
      unfold ends_allowed
      have : m % 2 = bits % 2 := by rcases hm with rfl | rfl <;> omega
      rw [this]
      by_cases hb : bits % 2 = 0 <;> simp [hb]
    simp only [Option.some.injEq, Prod.mk.injEq] at h
    obtain ⟨hm, _⟩ := h
    split at hm <;> split at hm <;> (subst hm; simp only [Int.natAbs_neg, Int.natAbs_natCast]) <;>
      first
        | exact hgoal _ (Or.inl rfl)
        | exact hgoal _ (Or.inr rfl)

-- non-vacuity: the tables at a concrete point, and what the model makes of them
example : error_bounds_Away true false false false = (.ulp, .zero, false, true) ∧
    error_bounds_HalfEven false false true true = (.halfUlp, .halfUlp, true, true) ∧
    widthUnits 3 .halfUlp = 4 ∧ half_ulp_signif 10 = 5 ∧
    roundingSet Quirks.code .halfAway 3 1 false 1 true = (2, 10, true, false) := by decide

end Dashu.Props.C18Gen
