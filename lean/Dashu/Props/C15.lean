import Dashu.Props.GenInt
/-
  C15 — All forms of an operator give the same answer.

  How forms are decided here.  (1) The four ownership forms and the `*_assign` forms of every
  IBig/UBig operator are stamped out by `helper_macros.rs` from ONE body per operation (the sign
  tables regenerated into `Dashu/Gen/Glue.lean`); `Props/GenInt.lean` proves each body equal to the
  mathematical operation, so all of them equal the same value.  (2) The primitive-operand forms are
  `big.op(Big::from(prim)).try_into().unwrap()`: they agree with the big-operand form exactly when
  the result fits the primitive output type; the theorems below settle for which operations that
  is guaranteed (and exhibit the inputs where it is not — those are findings about the code).
  (3) That the implementation really has no other forms, and that each form computes what its body
  says, is the correspondence run over the table generated from the macro-expanded crate
  (`vlib/forms.py`: 1720 impls of dashu-int, every one called on every case; since round 3 also the
  212 impls of dashu-ratio and the 606 impls of dashu-float (at two (mode, base) instantiations, with the
  `Context::op` method form at `Context::max` precision added by name) — since round 5 the driver computes
  their common VALUE with the mirrored models of C03/C04 (`Driver/FormsMore.lean`, `Model/Forms/Float.lean`; theorems in
  `Props/C15Values`, `Props/C15GenEuclid`, `Props/C15Link`)).  (4) The trait-method forms `div_rem`,
  `div_rem_euclid` are proved equal to the pair of operator forms.
-/
namespace Dashu.Props.C15

/-- the primitive-form wrapper: `…try_into().unwrap()` — the big result is returned if it fits the
    output range `[lo, hi]`, otherwise the call panics (modelled as `none`) -/
def primForm (lo hi : Int) (r : Int) : Option Int := if lo ≤ r ∧ r ≤ hi then some r else none

/-- `UBig % uN` (and `UBig.div_rem(uN)`'s remainder): the remainder always fits `uN`, so the
    primitive forms agree with the `UBig % UBig` form for every operand. -/
theorem ubig_rem_unsigned_fits (a p hi : Int) (ha : 0 ≤ a) (hp : 0 < p) (hhi : p ≤ hi) :
    primForm 0 hi (Int.tmod a p) = some (Int.tmod a p) := by
  have h1 : 0 ≤ Int.tmod a p := Int.tmod_nonneg p ha
  have h2 : Int.tmod a p < p := Int.tmod_lt_of_pos a hp
  unfold primForm
  rw [if_pos ⟨h1, by omega⟩]

/-- `IBig % iN` with `p` in the signed range `[-2^k, 2^k - 1]`: the remainder fits `iN`. -/
theorem ibig_rem_signed_fits (a p : Int) (k : Nat) (hp0 : p ≠ 0)
    (hlo : -(2 ^ k : Int) ≤ p) (hhi : p ≤ 2 ^ k - 1) :
    primForm (-(2 ^ k : Int)) (2 ^ k - 1) (Int.tmod a p) = some (Int.tmod a p) := by
  unfold primForm
  rcases lt_or_gt_of_ne hp0 with hneg | hpos
  · have e : Int.tmod a p = Int.tmod a (-p) := by rw [Int.tmod_neg]
    have h1 := Int.tmod_lt_of_pos a (by omega : 0 < -p)
    have h2 := Int.lt_tmod_of_pos a (by omega : 0 < -p)
    rw [← e] at h1 h2
    rw [if_pos ⟨by omega, by omega⟩]
  · have h1 := Int.tmod_lt_of_pos a hpos
    have h2 := Int.lt_tmod_of_pos a hpos
    rw [if_pos ⟨by omega, by omega⟩]

/-- FINDING (C15/C16): `IBig % uN` does NOT always fit: the truncated remainder takes the sign of
    the dividend, so a negative dividend makes the primitive forms panic on `unwrap()` while
    `IBig % IBig` returns the (negative) remainder. -/
theorem ibig_rem_unsigned_counterexample :
    primForm 0 255 (Int.tmod (-7) 3) = none ∧ Int.tmod (-7) 3 = -1 := by decide

/-- `uN / UBig` fits `uN` (the quotient is at most the dividend) -/
theorem unsigned_div_ubig_fits (p b hi : Int) (hp : 0 ≤ p) (hhi : p ≤ hi) (hb : 0 < b) :
    primForm 0 hi (Int.tdiv p b) = some (Int.tdiv p b) := by
  have e : Int.tdiv p b = p / b := Int.tdiv_eq_ediv_of_nonneg hp
  have h1 : 0 ≤ p / b := Int.ediv_nonneg hp (by omega)
  have h2 : p / b ≤ p := Int.ediv_le_self b hp
  unfold primForm
  rw [e, if_pos ⟨h1, by omega⟩]

/-- FINDING (C15/C16): `iN / IBig` can leave the range: `(-128i8) / IBig(-1) = 128`. -/
theorem signed_div_ibig_counterexample :
    primForm (-128) 127 (Int.tdiv (-128) (-1)) = none ∧ Int.tdiv (-128) (-1) = 128 := by decide

/-- the ownership/assign forms of the IBig ring operators share one regenerated body each, so they
    all equal the same `Int` value (restated from `GenInt` for the record of this property) -/
theorem ibig_ring_forms_agree (s0 s1 : Dashu.Sign) (m0 m1 : Int) (h0 : 0 ≤ m0) (h1 : 0 ≤ m1) :
    Dashu.Gen.impl_ibig_add s0 m0 s1 m1 = s0.apply m0 + s1.apply m1 ∧
    Dashu.Gen.impl_ibig_sub s0 m0 s1 m1 = s0.apply m0 - s1.apply m1 ∧
    Dashu.Gen.impl_ibig_mul s0 m0 s1 m1 = s0.apply m0 * s1.apply m1 :=
  ⟨GenInt.ibig_add_exact s0 s1 m0 m1 h0 h1, GenInt.ibig_sub_exact s0 s1 m0 m1 h0 h1,
   GenInt.ibig_mul_exact s0 s1 m0 m1 h0 h1⟩

open Dashu.Gen

/-- trait-method form vs operator forms: `a.div_rem(b)` on IBig returns exactly the pair
    (`a / b`, `a % b`) of the operator bodies -/
theorem ibig_divrem_is_div_and_rem (s0 s1 : Dashu.Sign) (m0 m1 : Int) (h0 : 0 ≤ m0) (h1 : 0 < m1) :
    impl_ibig_divrem s0 m0 s1 m1 = (impl_ibig_div s0 m0 s1 m1, impl_ibig_rem s0 m0 s1 m1) := by
  rw [GenInt.ibig_divrem_exact s0 s1 m0 m1 h0 h1, GenInt.ibig_div_exact s0 s1 m0 m1 h0 h1,
    GenInt.ibig_rem_exact s0 s1 m0 m1 h0 h1]

/-- `a.div_rem_euclid(b)` = (`a.div_euclid(b)`, `a.rem_euclid(b)`) -/
theorem ibig_divrem_euclid_is_div_and_rem (s0 s1 : Dashu.Sign) (m0 m1 : Int) (h0 : 0 ≤ m0) (h1 : 0 < m1) :
    impl_ibig_divrem_euclid s0 m0 s1 m1
      = (impl_ibig_div_euclid s0 m0 s1 m1, impl_ibig_rem_euclid s0 m0 s1 m1) := by
  rw [GenInt.ibig_divrem_euclid_exact s0 s1 m0 m1 h0 h1, GenInt.ibig_div_euclid_exact s0 s1 m0 m1 h0 h1,
    GenInt.ibig_rem_euclid_exact s0 s1 m0 m1 h0 h1]

/-- the mixed form `UBig.div_rem(IBig)`: its remainder is `UBig % IBig`, and both are what the
    IBig forms give on the converted left operand -/
theorem ubig_ibig_forms_agree (s1 : Dashu.Sign) (m0 m1 : Int) (h0 : 0 ≤ m0) (h1 : 0 < m1) :
    (impl_ubig_ibig_divrem .Positive m0 s1 m1).2 = impl_ubig_ibig_rem .Positive m0 s1 m1 ∧
    impl_ubig_ibig_divrem .Positive m0 s1 m1 = impl_ibig_divrem .Positive m0 s1 m1 ∧
    impl_ubig_ibig_rem .Positive m0 s1 m1 = impl_ibig_rem .Positive m0 s1 m1 := by
  rw [GenInt.ubig_ibig_divrem_exact s1 m0 m1 h0 h1, GenInt.ubig_ibig_rem_exact s1 m0 m1 h0 h1,
    GenInt.ibig_divrem_exact .Positive s1 m0 m1 h0 h1, GenInt.ibig_rem_exact .Positive s1 m0 m1 h0 h1]
  simp [Dashu.Sign.apply]

/-- `iN / IBig` fits `iN` for every operand pair except `iN::MIN / -1` -/
theorem signed_div_ibig_fits (p b : Int) (k : Nat) (hlo : -(2 ^ k : Int) ≤ p) (hhi : p ≤ 2 ^ k - 1)
    (hb : b ≠ 0) (hne : ¬ (p = -(2 ^ k : Int) ∧ b = -1)) :
    primForm (-(2 ^ k : Int)) (2 ^ k - 1) (Int.tdiv p b) = some (Int.tdiv p b) := by
  unfold primForm
  have hq : (Int.tdiv p b).natAbs = p.natAbs / b.natAbs := Int.natAbs_tdiv p b
  have hb1 : 1 ≤ b.natAbs := by omega
  have hle : p.natAbs / b.natAbs ≤ p.natAbs := Nat.div_le_self _ _
  have hK : (0 : Int) < 2 ^ k := by positivity
  by_cases hb2 : 2 ≤ b.natAbs
  · have hlt : p.natAbs / b.natAbs < p.natAbs ∨ p.natAbs = 0 := by
      rcases Nat.eq_zero_or_pos p.natAbs with h | h
      · exact Or.inr h
      · exact Or.inl (Nat.div_lt_self h hb2)
    rw [if_pos ⟨by omega, by omega⟩]
  · have hb' : b = 1 ∨ b = -1 := by omega
    rcases hb' with rfl | rfl
    · rw [Int.tdiv_one]; rw [if_pos ⟨hlo, hhi⟩]
    · have : Int.tdiv p (-1) = -p := by rw [Int.tdiv_neg, Int.tdiv_one]
      rw [this]
      have : p ≠ -(2 ^ k : Int) := fun h => hne ⟨h, rfl⟩
      rw [if_pos ⟨by omega, by omega⟩]

/-- FINDING (C15): `uN / IBig` with a negative divisor leaves the unsigned range -/
theorem unsigned_div_negative_ibig_counterexample :
    primForm 0 255 (Int.tdiv 8 (-8)) = none ∧ Int.tdiv 8 (-8) = -1 := by decide

-- non-vacuity: every hypothesis set above is satisfiable on a non-trivial value
example : primForm 0 255 (Int.tmod 1000 7) = some 6 := ubig_rem_unsigned_fits 1000 7 255 (by decide) (by decide) (by decide)
example : primForm (-128) 127 (Int.tmod (-1000) (-128)) = some (-104) :=
  ibig_rem_signed_fits (-1000) (-128) 7 (by decide) (by decide) (by decide)
example : primForm 0 255 (Int.tdiv 200 7) = some 28 := unsigned_div_ubig_fits 200 7 255 (by decide) (by decide) (by decide)
example : primForm (-128) 127 (Int.tdiv (-128) 1) = some (-128) :=
  signed_div_ibig_fits (-128) 1 7 (by decide) (by decide) (by decide) (by decide)
example : primForm (-128) 127 (Int.tdiv (-127) (-1)) = some 127 :=
  signed_div_ibig_fits (-127) (-1) 7 (by decide) (by decide) (by decide) (by decide)
example : impl_ibig_add .Negative 5 .Positive 3 = -2 ∧ impl_ibig_sub .Negative 5 .Positive 3 = -8 ∧
    impl_ibig_mul .Negative 5 .Positive 3 = -15 :=
  ibig_ring_forms_agree .Negative .Positive 5 3 (by decide) (by decide)
example : impl_ibig_divrem .Negative 7 .Positive 3 = (-2, -1) := by
  rw [ibig_divrem_is_div_and_rem .Negative .Positive 7 3 (by decide) (by decide)]; decide
example : impl_ibig_divrem_euclid .Negative 7 .Positive 3 = (-3, 2) := by
  rw [ibig_divrem_euclid_is_div_and_rem .Negative .Positive 7 3 (by decide) (by decide)]; decide
example : (impl_ubig_ibig_divrem .Positive 7 .Negative 3).2 = impl_ubig_ibig_rem .Positive 7 .Negative 3 :=
  (ubig_ibig_forms_agree .Negative 7 3 (by decide) (by decide)).1

/-
  C15, round 7 — the primitive-operand forms `big.op(Big::from(prim)).try_into().unwrap()`: EXACT failing-input classes.
  Until now the three "does not fit" clauses had only a counterexample (`ibig_rem_unsigned_counterexample`,
  `unsigned_div_negative_ibig_counterexample`, `signed_div_ibig_counterexample` at k = 7).  The theorems below decide, for
  every operand pair, whether the primitive form returns the big-operand form's value or panics; the `if` conditions are
  literally the `py` predicates of the two recorded integer findings of this property (known_findings.jsonl, C15 lines
  "impl Rem<uN>… for IBig" and "impl Div<IBig> for iN/uN").
-/

/-- `IBig % uN` / `IBig.div_rem(uN)` / `div_rem_assign(uN)` (divisor `0 < p ≤ uN::MAX = hi`), every dividend: the primitive
    forms panic exactly for a NEGATIVE dividend with a non-zero remainder, and return `IBig % IBig` otherwise
    (finding predicate: `I(3) < 0 and 0 < I(4) and abs(I(3)) % I(4) != 0`) -/
theorem ibig_rem_unsigned_exact (a p hi : Int) (hp : 0 < p) (hhi : p ≤ hi) :
    primForm 0 hi (Int.tmod a p) = if a < 0 ∧ (-a) % p ≠ 0 then none else some (Int.tmod a p) := by
  unfold primForm
  by_cases ha : a < 0
  · have e : Int.tmod a p = -((-a) % p) := by
      have h1 : Int.tmod (-(-a)) p = -(Int.tmod (-a) p) := Int.neg_tmod (-a) p
      rw [Int.neg_neg] at h1
      rw [h1, Int.tmod_eq_emod_of_nonneg (by omega : 0 ≤ -a)]
    have h0 : 0 ≤ (-a) % p := Int.emod_nonneg _ (by omega)
    have h2 : (-a) % p < p := Int.emod_lt_of_pos _ hp
    rw [e]
    generalize (-a) % p = r at h0 h2 ⊢
    by_cases hr : r = 0
    · subst hr
      rw [if_pos ⟨by omega, by omega⟩, if_neg (by simp)]
    · rw [if_neg (by omega), if_pos ⟨ha, hr⟩]
  · have h1 : 0 ≤ Int.tmod a p := Int.tmod_nonneg p (by omega)
    have h2 : Int.tmod a p < p := Int.tmod_lt_of_pos a hp
    rw [if_pos ⟨h1, by omega⟩, if_neg (fun h => ha h.1)]

/-- `uN / IBig` (dividend `0 ≤ p ≤ uN::MAX = hi`, output type `uN`), every non-zero divisor: the primitive form panics exactly
    when the quotient is negative, i.e. for a negative divisor of magnitude at most the dividend, and returns `IBig / IBig` otherwise
    (finding predicate, unsigned part: `0 <= I(3) and I(4) < 0 and I(3) >= -I(4)`) -/
theorem unsigned_div_ibig_exact (p b hi : Int) (hp : 0 ≤ p) (hhi : p ≤ hi) (hb : b ≠ 0) :
    primForm 0 hi (Int.tdiv p b) = if b < 0 ∧ -b ≤ p then none else some (Int.tdiv p b) := by
  by_cases hneg : b < 0
  · have e : Int.tdiv p b = -(p / (-b)) := by
      have h1 : Int.tdiv p (-(-b)) = -(Int.tdiv p (-b)) := Int.tdiv_neg p (-b)
      rw [Int.neg_neg] at h1
      rw [h1, Int.tdiv_eq_ediv_of_nonneg hp]
    have hq0 : 0 ≤ p / (-b) := Int.ediv_nonneg hp (by omega)
    have hq1 : p / (-b) ≤ p := Int.ediv_le_self _ hp
    unfold primForm
    rw [e]
    by_cases hle : -b ≤ p
    · have hq : 1 ≤ p / (-b) := Int.le_ediv_of_mul_le (by omega) (by omega)
      rw [if_neg (by omega), if_pos ⟨hneg, hle⟩]
    · have hq : p / (-b) = 0 := Int.ediv_eq_zero_of_lt hp (by omega)
      rw [hq]
      rw [if_pos ⟨by omega, by omega⟩, if_neg (fun h => hle h.2)]
  · rw [unsigned_div_ubig_fits p b hi hp hhi (by omega), if_neg (fun h => hneg h.1)]

/-- `iN / IBig` (dividend in `[-2^k, 2^k-1]`, output type `iN`), every non-zero divisor: the primitive form panics exactly
    for `iN::MIN / -1` and returns `IBig / IBig` otherwise (finding predicate, signed part: `I(4) == -1 and I(3) == -2^(N-1)`) -/
theorem signed_div_ibig_exact (p b : Int) (k : Nat) (hlo : -(2 ^ k : Int) ≤ p) (hhi : p ≤ 2 ^ k - 1) (hb : b ≠ 0) :
    primForm (-(2 ^ k : Int)) (2 ^ k - 1) (Int.tdiv p b)
      = if p = -(2 ^ k : Int) ∧ b = -1 then none else some (Int.tdiv p b) := by
  by_cases h : p = -(2 ^ k : Int) ∧ b = -1
  · rw [if_pos h]
    obtain ⟨rfl, rfl⟩ := h
    have : Int.tdiv (-(2 ^ k : Int)) (-1) = 2 ^ k := by rw [Int.tdiv_neg, Int.tdiv_one, Int.neg_neg]
    unfold primForm
    rw [this, if_neg (by omega)]
  · rw [if_neg h, signed_div_ibig_fits p b k hlo hhi hb h]

-- non-vacuity: both sides of every `if`, on non-trivial operands
example : primForm 0 255 (Int.tmod (-1000) 7) = none := by
  rw [ibig_rem_unsigned_exact (-1000) 7 255 (by decide) (by decide)]; decide
example : primForm 0 255 (Int.tmod (-1001) 7) = some 0 := by
  rw [ibig_rem_unsigned_exact (-1001) 7 255 (by decide) (by decide)]; decide
example : primForm 0 255 (Int.tdiv 200 (-7)) = none := by
  rw [unsigned_div_ibig_exact 200 (-7) 255 (by decide) (by decide) (by decide)]; decide
example : primForm 0 255 (Int.tdiv 200 (-201)) = some 0 := by
  rw [unsigned_div_ibig_exact 200 (-201) 255 (by decide) (by decide) (by decide)]; decide
example : primForm (-(2 ^ 63 : Int)) (2 ^ 63 - 1) (Int.tdiv (-(2 ^ 63 : Int)) (-1)) = none := by
  rw [signed_div_ibig_exact (-(2 ^ 63 : Int)) (-1) 63 (by decide) (by decide) (by decide)]; decide
example : primForm (-(2 ^ 63 : Int)) (2 ^ 63 - 1) (Int.tdiv (-(2 ^ 63 : Int)) 3) = some (-3074457345618258602) := by
  rw [signed_div_ibig_exact (-(2 ^ 63 : Int)) 3 63 (by decide) (by decide) (by decide)]; decide

end Dashu.Props.C15
