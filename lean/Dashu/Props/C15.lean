import Dashu.Props.GenInt
/-
  C15 — All forms of an operator give the same answer.

  How forms are decided here.  (1) The four ownership forms and the `*_assign` forms of every
  IBig/UBig operator are stamped out by `helper_macros.rs` from ONE body per operation (the sign
  tables regenerated into `Dashu/Gen/Glue.lean`); `Props/GenInt.lean` proves each body equal to the
  mathematical operation, so all of them equal the same value.  (2) The primitive-operand forms are
  `big.op(Big::from(prim)).try_into().unwrap()`: they agree with the big-operand form exactly when
  the result fits the primitive output type; the theorems below settle for which operations that
  is guaranteed (and exhibit the inputs where it is not — those are findings about the code).
  (3) That the implementation really has no other forms, and that each form computes what its body
  says, is the correspondence run over the table generated from the macro-expanded crate
  (`vlib/forms.py`: 1720 impls of dashu-int, every one called on every case).
-/
namespace Dashu.Props.C15

/-- the primitive-form wrapper: `…try_into().unwrap()` — the big result is returned if it fits the
    output range `[lo, hi]`, otherwise the call panics (modelled as `none`) -/
def primForm (lo hi : Int) (r : Int) : Option Int := if lo ≤ r ∧ r ≤ hi then some r else none

/-- `UBig % uN` (and `UBig.div_rem(uN)`'s remainder): the remainder always fits `uN`, so the
    primitive forms agree with the `UBig % UBig` form for every operand. -/
theorem ubig_rem_unsigned_fits (a p hi : Int) (ha : 0 ≤ a) (hp : 0 < p) (hhi : p ≤ hi) :
    primForm 0 hi (Int.tmod a p) = some (Int.tmod a p) := by
  have h1 : 0 ≤ Int.tmod a p := Int.tmod_nonneg p ha
  have h2 : Int.tmod a p < p := Int.tmod_lt_of_pos a hp
  unfold primForm
  rw [if_pos ⟨h1, by omega⟩]

/-- `IBig % iN` with `p` in the signed range `[-2^k, 2^k - 1]`: the remainder fits `iN`. -/
theorem ibig_rem_signed_fits (a p : Int) (k : Nat) (hp0 : p ≠ 0)
    (hlo : -(2 ^ k : Int) ≤ p) (hhi : p ≤ 2 ^ k - 1) :
    primForm (-(2 ^ k : Int)) (2 ^ k - 1) (Int.tmod a p) = some (Int.tmod a p) := by
  unfold primForm
  rcases lt_or_gt_of_ne hp0 with hneg | hpos
  · have e : Int.tmod a p = Int.tmod a (-p) := by rw [Int.tmod_neg]
    have h1 := Int.tmod_lt_of_pos a (by omega : 0 < -p)
    have h2 := Int.lt_tmod_of_pos a (by omega : 0 < -p)
    rw [← e] at h1 h2
    rw [if_pos ⟨by omega, by omega⟩]
  · have h1 := Int.tmod_lt_of_pos a hpos
    have h2 := Int.lt_tmod_of_pos a hpos
    rw [if_pos ⟨by omega, by omega⟩]

/-- FINDING (C15/C16): `IBig % uN` does NOT always fit: the truncated remainder takes the sign of
    the dividend, so a negative dividend makes the primitive forms panic on `unwrap()` while
    `IBig % IBig` returns the (negative) remainder. -/
theorem ibig_rem_unsigned_counterexample :
    primForm 0 255 (Int.tmod (-7) 3) = none ∧ Int.tmod (-7) 3 = -1 := by decide

/-- `uN / UBig` fits `uN` (the quotient is at most the dividend) -/
theorem unsigned_div_ubig_fits (p b hi : Int) (hp : 0 ≤ p) (hhi : p ≤ hi) (hb : 0 < b) :
    primForm 0 hi (Int.tdiv p b) = some (Int.tdiv p b) := by
  have e : Int.tdiv p b = p / b := Int.tdiv_eq_ediv_of_nonneg hp
  have h1 : 0 ≤ p / b := Int.ediv_nonneg hp (by omega)
  have h2 : p / b ≤ p := Int.ediv_le_self b hp
  unfold primForm
  rw [e, if_pos ⟨h1, by omega⟩]

/-- FINDING (C15/C16): `iN / IBig` can leave the range: `(-128i8) / IBig(-1) = 128`. -/
theorem signed_div_ibig_counterexample :
    primForm (-128) 127 (Int.tdiv (-128) (-1)) = none ∧ Int.tdiv (-128) (-1) = 128 := by decide

/-- the ownership/assign forms of the IBig ring operators share one regenerated body each, so they
    all equal the same `Int` value (restated from `GenInt` for the record of this property) -/
theorem ibig_ring_forms_agree (s0 s1 : Dashu.Sign) (m0 m1 : Int) (h0 : 0 ≤ m0) (h1 : 0 ≤ m1) :
    Dashu.Gen.impl_ibig_add s0 m0 s1 m1 = s0.apply m0 + s1.apply m1 ∧
    Dashu.Gen.impl_ibig_sub s0 m0 s1 m1 = s0.apply m0 - s1.apply m1 ∧
    Dashu.Gen.impl_ibig_mul s0 m0 s1 m1 = s0.apply m0 * s1.apply m1 :=
  ⟨GenInt.ibig_add_exact s0 s1 m0 m1 h0 h1, GenInt.ibig_sub_exact s0 s1 m0 m1 h0 h1,
   GenInt.ibig_mul_exact s0 s1 m0 m1 h0 h1⟩

end Dashu.Props.C15
