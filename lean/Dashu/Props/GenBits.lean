import Dashu.Gen.Glue
import Dashu.Proofs.Int.Bits
/-
  Tie A theorems for C09: the sign tables of the IBig bit operators, AS REGENERATED from /repo's
  source on this run (`Dashu/Gen/Glue.lean`: `impl_ibig_bitand/_bitor/_bitxor` of
  integer/src/bits.rs), composed with the magnitude kernels of `GluePrelude` taken at their
  specification, equal the two's-complement specification `specAnd/specOr/specXor` of
  `Dashu/Model/Int/Bits.lean` (which `Props/C09.lean` characterises bit by bit).
  A changed arm, swapped operand, dropped `sub_one` or missing `!` in the Rust macros changes the
  generated text and these theorems stop checking.  The hand-written tables `ibigAnd/ibigOr/ibigXor`
  of the model are proved equal to the same specification in `Props/C09.lean`, so generated text,
  hand model and specification agree.
-/
namespace Dashu.Props.GenBits
open Dashu Dashu.Gen Dashu.GluePrelude Dashu.Model

theorem and_xor_eq_natAndNot (a b : Nat) : a &&& (a ^^^ b) = natAndNot a b := by
  apply Nat.eq_of_testBit_eq; intro i
  rw [Nat.testBit_and, Nat.testBit_xor, testBit_natAndNot]
  cases a.testBit i <;> cases b.testBit i <;> rfl

/-- closes a leaf whose two sides differ at most in the order of the operands of `&&&`, `|||`, `^^^`
    (the magnitude kernels are commutative: the source may write `a.bitand(b)` or `b.bitand(a)`) -/
syntax "bclose" : tactic
macro_rules
  | `(tactic| bclose) => `(tactic| first | done | rfl |
      (simp only [Nat.land_comm, Nat.lor_comm, Nat.xor_comm]; done) |
      (simp only [Nat.land_comm, Nat.lor_comm, Nat.xor_comm]; rfl) |
      (simp only [Nat.land_comm, Nat.lor_comm, Nat.xor_comm, natAndNot]; done))

theorem toNat_pred (b : Nat) : ((b : Int) - 1).toNat = b - 1 := by omega

/-- `IBig & IBig` as generated from the source -/
theorem gen_ibig_bitand (s0 s1 : Sign) (m0 m1 : Int) (h0 : 0 ≤ m0) (h1 : 0 ≤ m1)
    (hn0 : s0 = .Negative → 0 < m0) (hn1 : s1 = .Negative → 0 < m1) :
    impl_ibig_bitand s0 m0 s1 m1 = specAnd (s0.apply m0) (s1.apply m1) := by
  obtain ⟨a, rfl⟩ : ∃ a : Nat, m0 = a := ⟨m0.toNat, by omega⟩
  obtain ⟨b, rfl⟩ : ∃ b : Nat, m1 = b := ⟨m1.toNat, by omega⟩
  cases s0 <;> cases s1 <;>
    simp only [impl_ibig_bitand, mkIBig, bitand, and_not, into_typed, sub_one, bitor, not_,
      HasNot.not_, Sign.apply, Int.toNat_natCast, toNat_pred, Int.ofNat_eq_natCast]
  · rw [specAnd_pp]
    all_goals bclose
  · have hb : b ≠ 0 := by have := hn1 rfl; omega
    rw [specAnd_pn a b hb, and_xor_eq_natAndNot]
    all_goals bclose
  · have ha : a ≠ 0 := by have := hn0 rfl; omega
    rw [specAnd_np a b ha, and_xor_eq_natAndNot]
    all_goals bclose
  · have ha : a ≠ 0 := by have := hn0 rfl; omega
    have hb : b ≠ 0 := by have := hn1 rfl; omega
    rw [specAnd_nn a b ha hb]
    all_goals bclose

/-- `IBig | IBig` as generated from the source -/
theorem gen_ibig_bitor (s0 s1 : Sign) (m0 m1 : Int) (h0 : 0 ≤ m0) (h1 : 0 ≤ m1)
    (hn0 : s0 = .Negative → 0 < m0) (hn1 : s1 = .Negative → 0 < m1) :
    impl_ibig_bitor s0 m0 s1 m1 = specOr (s0.apply m0) (s1.apply m1) := by
  obtain ⟨a, rfl⟩ : ∃ a : Nat, m0 = a := ⟨m0.toNat, by omega⟩
  obtain ⟨b, rfl⟩ : ∃ b : Nat, m1 = b := ⟨m1.toNat, by omega⟩
  cases s0 <;> cases s1 <;>
    simp only [impl_ibig_bitor, mkIBig, bitand, and_not, into_typed, sub_one, bitor, not_,
      HasNot.not_, Sign.apply, Int.toNat_natCast, toNat_pred, Int.ofNat_eq_natCast]
  · rw [specOr_pp]
    all_goals bclose
  · have hb : b ≠ 0 := by have := hn1 rfl; omega
    rw [specOr_pn a b hb, and_xor_eq_natAndNot]
    all_goals bclose
  · have ha : a ≠ 0 := by have := hn0 rfl; omega
    rw [specOr_np a b ha, and_xor_eq_natAndNot]
    all_goals bclose
  · have ha : a ≠ 0 := by have := hn0 rfl; omega
    have hb : b ≠ 0 := by have := hn1 rfl; omega
    rw [specOr_nn a b ha hb]
    all_goals bclose

/-- `IBig ^ IBig` as generated from the source -/
theorem gen_ibig_bitxor (s0 s1 : Sign) (m0 m1 : Int) (h0 : 0 ≤ m0) (h1 : 0 ≤ m1)
    (hn0 : s0 = .Negative → 0 < m0) (hn1 : s1 = .Negative → 0 < m1) :
    impl_ibig_bitxor s0 m0 s1 m1 = specXor (s0.apply m0) (s1.apply m1) := by
  obtain ⟨a, rfl⟩ : ∃ a : Nat, m0 = a := ⟨m0.toNat, by omega⟩
  obtain ⟨b, rfl⟩ : ∃ b : Nat, m1 = b := ⟨m1.toNat, by omega⟩
  cases s0 <;> cases s1 <;>
    simp only [impl_ibig_bitxor, mkIBig, bitxor, into_typed, sub_one, not_,
      HasNot.not_, Sign.apply, Int.toNat_natCast, toNat_pred, Int.ofNat_eq_natCast]
  · rw [specXor_pp]
    all_goals bclose
  · have hb : b ≠ 0 := by have := hn1 rfl; omega
    rw [specXor_pn a b hb]
    all_goals bclose
  · have ha : a ≠ 0 := by have := hn0 rfl; omega
    rw [specXor_np a b ha]
    all_goals bclose
  · have ha : a ≠ 0 := by have := hn0 rfl; omega
    have hb : b ≠ 0 := by have := hn1 rfl; omega
    rw [specXor_nn a b ha hb]
    all_goals bclose

/-- consequently the generated tables satisfy the relational two's-complement statement -/
theorem gen_ibig_bitand_bits (s0 s1 : Sign) (m0 m1 : Int) (h0 : 0 ≤ m0) (h1 : 0 ≤ m1)
    (hn0 : s0 = .Negative → 0 < m0) (hn1 : s1 = .Negative → 0 < m1) (i : Nat) :
    Int.testBit (impl_ibig_bitand s0 m0 s1 m1) i
      = (Int.testBit (s0.apply m0) i && Int.testBit (s1.apply m1) i) := by
  rw [gen_ibig_bitand s0 s1 m0 m1 h0 h1 hn0 hn1, specAnd_eq_land, Int.testBit_land]

theorem gen_ibig_bitor_bits (s0 s1 : Sign) (m0 m1 : Int) (h0 : 0 ≤ m0) (h1 : 0 ≤ m1)
    (hn0 : s0 = .Negative → 0 < m0) (hn1 : s1 = .Negative → 0 < m1) (i : Nat) :
    Int.testBit (impl_ibig_bitor s0 m0 s1 m1) i
      = (Int.testBit (s0.apply m0) i || Int.testBit (s1.apply m1) i) := by
  rw [gen_ibig_bitor s0 s1 m0 m1 h0 h1 hn0 hn1, specOr_eq_lor, Int.testBit_lor]

theorem gen_ibig_bitxor_bits (s0 s1 : Sign) (m0 m1 : Int) (h0 : 0 ≤ m0) (h1 : 0 ≤ m1)
    (hn0 : s0 = .Negative → 0 < m0) (hn1 : s1 = .Negative → 0 < m1) (i : Nat) :
    Int.testBit (impl_ibig_bitxor s0 m0 s1 m1) i
      = (Int.testBit (s0.apply m0) i ^^ Int.testBit (s1.apply m1) i) := by
  rw [gen_ibig_bitxor s0 s1 m0 m1 h0 h1 hn0 hn1, specXor_eq_xor, Int.testBit_lxor]

end Dashu.Props.GenBits
