import Dashu.Props.C02Plumbing
import Dashu.Props.C15
import Dashu.Proofs.Int.Ops
/-
  C02 ↔ C15 link: the primitive-operand forms of integer/src/div_ops.rs
  (`impl_binop_with_primitive!(impl Rem<$t> for UBig|IBig, rem -> $t)`, `impl_divrem_with_primitive!`,
  `impl_div_by_primitive!`) are, textually,

      self.rem(<Big>::from(rhs)).try_into().unwrap()            // Big % prim  -> prim
      let (q, r) = self.div_rem(<Big>::from(rhs)); (q, r.try_into().unwrap())
      <Big>::from(self).div(rhs).try_into().unwrap()            // prim / Big  -> prim

  i.e. the big-operand route that C02 proves (`remRepr` / `divRemRepr` / `divRepr`, `ibigRem` / `ibigDivRem` /
  `ibigDiv` of Model/Int/Div.lean — the functions `drive_div` executes) followed by the checked conversion that
  C15 describes (`Props/C15.primForm lo hi`: `some r` if the result fits the primitive's range, `none` = the
  `unwrap()` panic).  C15 states its "fits" theorems on `Int.tdiv / Int.tmod`; here the composition is written on
  the C02 MODEL and proved, by C02's dispatch theorems and C15's range theorems (both imported), to return the
  documented quotient / remainder without a conversion failure — and, for the two form classes C15 records as
  findings, to fail the conversion although the big-operand form returns the right value.
-/
namespace Dashu.Props.C02PrimLink
open Dashu Dashu.Model Dashu.Model.Div Dashu.Props.C02 Dashu.Props.C15

-- ------------------------------------------------------------------ the forms, on the C02 model

/-- `UBig % uN` (`-> uN`): `self.rem(UBig::from(rhs)).try_into().unwrap()`; `hi = uN::MAX` -/
def ubigRemPrim (W : Nat) (hi : Int) (a : TRepr) (p : Nat) : Except PanicKind (Option Int) := do
  let r ← remRepr W a (ofNat W p)
  pure (primForm 0 hi (r.value W : Int))

/-- `UBig.div_rem(uN)` (`-> (UBig, uN)`) -/
def ubigDivRemPrim (W : Nat) (hi : Int) (a : TRepr) (p : Nat) : Except PanicKind (TRepr × Option Int) := do
  let (q, r) ← divRemRepr W a (ofNat W p)
  pure (q, primForm 0 hi (r.value W : Int))

/-- `uN / UBig` (`-> uN`): `UBig::from(self).div(rhs).try_into().unwrap()` -/
def primDivUbig (W : Nat) (hi : Int) (p : Nat) (b : TRepr) : Except PanicKind (Option Int) := do
  let q ← divRepr W (ofNat W p) b
  pure (primForm 0 hi (q.value W : Int))

/-- `IBig % prim` (`-> prim`, `prim` with range `[lo, hi]`) -/
def ibigRemPrim (W : Nat) (lo hi : Int) (a : SRepr) (p : Int) : Except PanicKind (Option Int) := do
  let r ← ibigRem W a (SRepr.ofInt W p)
  pure (primForm lo hi (r.value W))

/-- `IBig.div_rem(prim)` (`-> (IBig, prim)`) -/
def ibigDivRemPrim (W : Nat) (lo hi : Int) (a : SRepr) (p : Int) : Except PanicKind (SRepr × Option Int) := do
  let (q, r) ← ibigDivRem W a (SRepr.ofInt W p)
  pure (q, primForm lo hi (r.value W))

/-- `prim / IBig` (`-> prim`) -/
def primDivIbig (W : Nat) (lo hi : Int) (p : Int) (b : SRepr) : Except PanicKind (Option Int) := do
  let q ← ibigDiv W (SRepr.ofInt W p) b
  pure (primForm lo hi (q.value W))

-- ------------------------------------------------------------------ composition = big-operand value, then primForm

/-- `IBig % prim`, any primitive range: the documented panic for `prim = 0`, otherwise exactly C15's `primForm` of the
    truncated remainder that C02 proves for `IBig % IBig` -/
theorem ibig_rem_prim_eq (W : Nat) (hW4 : 4 ≤ W) (lo hi : Int) (a : SRepr) (p : Int) (ha : a.WF W) :
    (p = 0 → ibigRemPrim W lo hi a p = .error .divideByZero) ∧
    (p ≠ 0 → ibigRemPrim W lo hi a p = .ok (primForm lo hi (Int.tmod (a.value W) p))) := by
  have hW : 1 ≤ W := by omega
  have ⟨d0, d1⟩ := ibig_rem_exact W hW hW4 a (SRepr.ofInt W p) ha (SRepr.ofInt_wf W hW p)
  rw [SRepr.ofInt_value W hW p] at d0 d1
  constructor
  · intro h0; simp only [ibigRemPrim, d0 h0, bind, Except.bind]
  · intro hne
    obtain ⟨r, e, -, -, hr⟩ := d1 hne
    simp only [ibigRemPrim, e, bind, Except.bind, pure, Except.pure, hr]

/-- `IBig.div_rem(prim)` -/
theorem ibig_divrem_prim_eq (W : Nat) (hW4 : 4 ≤ W) (lo hi : Int) (a : SRepr) (p : Int) (ha : a.WF W) :
    (p = 0 → ibigDivRemPrim W lo hi a p = .error .divideByZero) ∧
    (p ≠ 0 → ∃ q, ibigDivRemPrim W lo hi a p = .ok (q, primForm lo hi (Int.tmod (a.value W) p)) ∧
      q.WF W ∧ q.value W = Int.tdiv (a.value W) p) := by
  have hW : 1 ≤ W := by omega
  have ⟨d0, d1⟩ := ibig_div_rem_exact W hW hW4 a (SRepr.ofInt W p) ha (SRepr.ofInt_wf W hW p)
  rw [SRepr.ofInt_value W hW p] at d0 d1
  constructor
  · intro h0; simp only [ibigDivRemPrim, d0 h0, bind, Except.bind]
  · intro hne
    obtain ⟨q, r, e, hwq, -, -, hq, hr⟩ := d1 hne
    refine ⟨q, ?_, hwq, hq⟩
    simp only [ibigDivRemPrim, e, bind, Except.bind, pure, Except.pure, hr]

/-- `prim / IBig`, any primitive range -/
theorem prim_div_ibig_eq (W : Nat) (hW4 : 4 ≤ W) (lo hi : Int) (p : Int) (b : SRepr) (hb : b.WF W) :
    (b.value W = 0 → primDivIbig W lo hi p b = .error .divideByZero) ∧
    (b.value W ≠ 0 → primDivIbig W lo hi p b = .ok (primForm lo hi (Int.tdiv p (b.value W)))) := by
  have hW : 1 ≤ W := by omega
  have ⟨d0, d1⟩ := ibig_div_exact W hW hW4 (SRepr.ofInt W p) b (SRepr.ofInt_wf W hW p) hb
  rw [SRepr.ofInt_value W hW p] at d1
  constructor
  · intro h0; simp only [primDivIbig, d0 h0, bind, Except.bind]
  · intro hne
    obtain ⟨q, e, -, -, hq⟩ := d1 hne
    simp only [primDivIbig, e, bind, Except.bind, pure, Except.pure, hq]

-- ------------------------------------------------------------------ the forms whose conversion never fails

/-- **`UBig % uN`**: for every canonical dividend and every `0 < p ≤ uN::MAX` the primitive form returns the
    remainder `a mod p` (no conversion panic); `p = 0` is the documented panic. -/
theorem ubig_rem_prim_exact (W : Nat) (hW4 : 4 ≤ W) (hi : Int) (a : TRepr) (p : Nat) (ha : a.Canon W)
    (hhi : (p : Int) ≤ hi) :
    (p = 0 → ubigRemPrim W hi a p = .error .divideByZero) ∧
    (p ≠ 0 → ubigRemPrim W hi a p = .ok (some ((a.value W % p : Nat) : Int))) := by
  have hW : 1 ≤ W := by omega
  have ⟨d0, d1⟩ := remRepr_spec W hW hW4 a (ofNat W p) ha (ofNat_canon W hW p)
  rw [ofNat_value W hW p] at d0 d1
  constructor
  · intro h0; simp only [ubigRemPrim, d0 h0, bind, Except.bind]
  · intro hne
    obtain ⟨r, e, hr, -⟩ := d1 hne
    have hf := ubig_rem_unsigned_fits (a.value W : Int) (p : Int) hi (Int.natCast_nonneg _) (by omega) hhi
    rw [Int.tmod_eq_emod_of_nonneg (Int.natCast_nonneg _), ← Int.natCast_emod] at hf
    simp only [ubigRemPrim, e, bind, Except.bind, pure, Except.pure, hr, hf]

/-- **`UBig.div_rem(uN)`** -/
theorem ubig_divrem_prim_exact (W : Nat) (hW4 : 4 ≤ W) (hi : Int) (a : TRepr) (p : Nat) (ha : a.Canon W)
    (hhi : (p : Int) ≤ hi) :
    (p = 0 → ubigDivRemPrim W hi a p = .error .divideByZero) ∧
    (p ≠ 0 → ∃ q, ubigDivRemPrim W hi a p = .ok (q, some ((a.value W % p : Nat) : Int)) ∧
      q.Canon W ∧ q.value W = a.value W / p) := by
  have hW : 1 ≤ W := by omega
  have ⟨d0, d1⟩ := divRemRepr_spec W hW hW4 a (ofNat W p) ha (ofNat_canon W hW p)
  rw [ofNat_value W hW p] at d0 d1
  constructor
  · intro h0; simp only [ubigDivRemPrim, d0 h0, bind, Except.bind]
  · intro hne
    obtain ⟨q, r, e, hq, hr, hcq, -⟩ := d1 hne
    have hf := ubig_rem_unsigned_fits (a.value W : Int) (p : Int) hi (Int.natCast_nonneg _) (by omega) hhi
    rw [Int.tmod_eq_emod_of_nonneg (Int.natCast_nonneg _), ← Int.natCast_emod] at hf
    refine ⟨q, ?_, hcq, hq⟩
    simp only [ubigDivRemPrim, e, bind, Except.bind, pure, Except.pure, hr, hf]

/-- **`uN / UBig`**: the quotient fits `uN` for every `p ≤ uN::MAX` and every canonical non-zero divisor -/
theorem prim_div_ubig_exact (W : Nat) (hW4 : 4 ≤ W) (hi : Int) (p : Nat) (b : TRepr) (hb : b.Canon W)
    (hhi : (p : Int) ≤ hi) :
    (b.value W = 0 → primDivUbig W hi p b = .error .divideByZero) ∧
    (b.value W ≠ 0 → primDivUbig W hi p b = .ok (some ((p / b.value W : Nat) : Int))) := by
  have hW : 1 ≤ W := by omega
  have ⟨d0, d1⟩ := divRepr_spec W hW hW4 (ofNat W p) b (ofNat_canon W hW p) hb
  rw [ofNat_value W hW p] at d1
  constructor
  · intro h0; simp only [primDivUbig, d0 h0, bind, Except.bind]
  · intro hne
    obtain ⟨q, e, hq, -⟩ := d1 hne
    have hf := unsigned_div_ubig_fits (p : Int) (b.value W : Int) hi (Int.natCast_nonneg _) hhi (by omega)
    rw [Int.tdiv_eq_ediv_of_nonneg (Int.natCast_nonneg _), ← Int.natCast_ediv] at hf
    simp only [primDivUbig, e, bind, Except.bind, pure, Except.pure, hq, hf]

/-- **`IBig % iN`**, `p ≠ 0` in the signed range `[-2^k, 2^k - 1]`: the truncated remainder, no conversion panic -/
theorem ibig_rem_signed_prim_exact (W : Nat) (hW4 : 4 ≤ W) (k : Nat) (a : SRepr) (p : Int) (ha : a.WF W)
    (hp0 : p ≠ 0) (hlo : -(2 ^ k : Int) ≤ p) (hhi : p ≤ 2 ^ k - 1) :
    ibigRemPrim W (-(2 ^ k : Int)) (2 ^ k - 1) a p = .ok (some (Int.tmod (a.value W) p)) := by
  rw [(ibig_rem_prim_eq W hW4 _ _ a p ha).2 hp0, ibig_rem_signed_fits (a.value W) p k hp0 hlo hhi]

/-- **`IBig.div_rem(iN)`** -/
theorem ibig_divrem_signed_prim_exact (W : Nat) (hW4 : 4 ≤ W) (k : Nat) (a : SRepr) (p : Int) (ha : a.WF W)
    (hp0 : p ≠ 0) (hlo : -(2 ^ k : Int) ≤ p) (hhi : p ≤ 2 ^ k - 1) :
    ∃ q, ibigDivRemPrim W (-(2 ^ k : Int)) (2 ^ k - 1) a p = .ok (q, some (Int.tmod (a.value W) p)) ∧
      q.WF W ∧ q.value W = Int.tdiv (a.value W) p := by
  obtain ⟨q, e, hw, hq⟩ := (ibig_divrem_prim_eq W hW4 (-(2 ^ k : Int)) (2 ^ k - 1) a p ha).2 hp0
  rw [ibig_rem_signed_fits (a.value W) p k hp0 hlo hhi] at e
  exact ⟨q, e, hw, hq⟩

/-- **`IBig % uN` with a non-negative dividend**: the remainder fits `uN` -/
theorem ibig_rem_unsigned_prim_exact (W : Nat) (hW4 : 4 ≤ W) (hi : Int) (a : SRepr) (p : Int) (ha : a.WF W)
    (h0 : 0 ≤ a.value W) (hp : 0 < p) (hhi : p ≤ hi) :
    ibigRemPrim W 0 hi a p = .ok (some (Int.tmod (a.value W) p)) := by
  rw [(ibig_rem_prim_eq W hW4 _ _ a p ha).2 (by omega), ubig_rem_unsigned_fits (a.value W) p hi h0 hp hhi]

/-- **`iN / IBig`**: the quotient fits `iN` for every operand pair except `iN::MIN / -1` -/
theorem signed_prim_div_ibig_exact (W : Nat) (hW4 : 4 ≤ W) (k : Nat) (p : Int) (b : SRepr) (hb : b.WF W)
    (hlo : -(2 ^ k : Int) ≤ p) (hhi : p ≤ 2 ^ k - 1) (hb0 : b.value W ≠ 0)
    (hne : ¬ (p = -(2 ^ k : Int) ∧ b.value W = -1)) :
    primDivIbig W (-(2 ^ k : Int)) (2 ^ k - 1) p b = .ok (some (Int.tdiv p (b.value W))) := by
  rw [(prim_div_ibig_eq W hW4 _ _ p b hb).2 hb0, signed_div_ibig_fits p (b.value W) k hlo hhi hb0 hne]

-- ------------------------------------------------------------------ the form classes recorded as findings under C15

/-- FINDING class (C15/C16), on the C02 model: `IBig % u8` with dividend −7 and divisor 3 — the big-operand route returns
    the right remainder −1 (C02), the conversion to `u8` fails (`none` = `unwrap()` panic), at every word size -/
theorem ibig_rem_unsigned_prim_counterexample (W : Nat) (hW4 : 4 ≤ W) :
    ibigRemPrim W 0 255 (SRepr.ofInt W (-7)) 3 = .ok none := by
  have hW : 1 ≤ W := by omega
  rw [(ibig_rem_prim_eq W hW4 0 255 _ 3 (SRepr.ofInt_wf W hW _)).2 (by decide), SRepr.ofInt_value W hW]
  exact congrArg _ ibig_rem_unsigned_counterexample.1

/-- FINDING class (C15/C16): `i8::MIN / IBig(-1)` — quotient 128 is right, does not fit `i8` -/
theorem signed_prim_div_ibig_counterexample (W : Nat) (hW4 : 4 ≤ W) :
    primDivIbig W (-128) 127 (-128) (SRepr.ofInt W (-1)) = .ok none := by
  have hW : 1 ≤ W := by omega
  rw [(prim_div_ibig_eq W hW4 (-128) 127 (-128) _ (SRepr.ofInt_wf W hW _)).2
    (by rw [SRepr.ofInt_value W hW]; decide), SRepr.ofInt_value W hW]
  exact congrArg _ signed_div_ibig_counterexample.1

-- ------------------------------------------------------------------ non-vacuity (W = 64, heap operands)

-- UBig % u64 with a 3-word dividend and p = u64::MAX; u64 / UBig with a two-word divisor (quotient 0) and a one-word one
example : (TRepr.large [1, 2, 3]).Canon 64 ∧ ((2 ^ 64 - 1 : Nat) : Int) ≤ 2 ^ 64 - 1 ∧
    ubigRemPrim 64 (2 ^ 64 - 1) (.large [1, 2, 3]) (2 ^ 64 - 1) = .ok (some 6) ∧
    primDivUbig 64 (2 ^ 64 - 1) (2 ^ 64 - 1) (.small 10) = .ok (some 1844674407370955161) := by
  refine ⟨by decide, by decide, by decide, by decide⟩

-- IBig % i8 with a negative 3-word dividend and p = i8::MIN; i8 / IBig away from MIN / -1
example : (⟨true, .large [1, 2, 3]⟩ : SRepr).WF 64 ∧ (-128 : Int) ≠ 0 ∧ -(2 ^ 7 : Int) ≤ -128 ∧ (-128 : Int) ≤ 2 ^ 7 - 1 ∧
    ibigRemPrim 64 (-(2 ^ 7 : Int)) (2 ^ 7 - 1) ⟨true, .large [1, 2, 3]⟩ (-128) = .ok (some (-1)) ∧
    primDivIbig 64 (-(2 ^ 7 : Int)) (2 ^ 7 - 1) (-128) ⟨true, .small 3⟩ = .ok (some 42) := by
  refine ⟨⟨by decide, by decide⟩, by decide, by decide, by decide, by decide, by decide⟩

end Dashu.Props.C02PrimLink
