import Dashu.Gen.Glue
import Mathlib.Tactic.Ring
import Mathlib.Tactic.Linarith
/-
  Tie A theorems: the sign tables of the IBig operator glue, AS REGENERATED from /repo's source on
  this run (`Dashu/Gen/Glue.lean`), composed with magnitude kernels taken at their specification,
  equal the mathematical operation on `Int`.  Used by C01 (+ − ·) and C02 (/ % div_rem, Euclidean).
  A changed arm, swapped operand or wrong sign in the Rust macros changes the generated text and
  these theorems stop checking.
-/
namespace Dashu.Props.GenInt
open Dashu Dashu.Gen Dashu.GluePrelude

theorem with_sign_nonneg (r : Int) (s : Sign) (h : 0 ≤ r) : with_sign r s = s.apply r := by
  unfold with_sign
  have : (Int.ofNat r.natAbs) = r := by simp [Int.natAbs_of_nonneg h]
  rw [this]

@[simp] theorem sign_mul_pp : (Sign.Positive * Sign.Positive) = Sign.Positive := rfl
@[simp] theorem sign_mul_pn : (Sign.Positive * Sign.Negative) = Sign.Negative := rfl
@[simp] theorem sign_mul_np : (Sign.Negative * Sign.Positive) = Sign.Negative := rfl
@[simp] theorem sign_mul_nn : (Sign.Negative * Sign.Negative) = Sign.Positive := rfl
@[simp] theorem sign_neg_p : (-Sign.Positive) = Sign.Negative := rfl
@[simp] theorem sign_neg_n : (-Sign.Negative) = Sign.Positive := rfl

/-- C01: `IBig + IBig` (and the mixed UBig/IBig forms, which pass `Positive`) -/
theorem ibig_add_exact (s0 s1 : Sign) (m0 m1 : Int) (h0 : 0 ≤ m0) (h1 : 0 ≤ m1) :
    impl_ibig_add s0 m0 s1 m1 = s0.apply m0 + s1.apply m1 := by
  have h : 0 ≤ m0 + m1 := by omega
  cases s0 <;> cases s1 <;>
    simp [impl_ibig_add, mkIBig, add, sub_signed, with_sign_nonneg _ _ h, Sign.apply] <;> omega

/-- C01: `IBig - IBig` -/
theorem ibig_sub_exact (s0 s1 : Sign) (m0 m1 : Int) (h0 : 0 ≤ m0) (h1 : 0 ≤ m1) :
    impl_ibig_sub s0 m0 s1 m1 = s0.apply m0 - s1.apply m1 := by
  have h : 0 ≤ m0 + m1 := by omega
  cases s0 <;> cases s1 <;>
    simp [impl_ibig_sub, mkIBig, add, sub_signed, with_sign_nonneg _ _ h, Sign.apply] <;> omega

/-- C01: `IBig * IBig` -/
theorem ibig_mul_exact (s0 s1 : Sign) (m0 m1 : Int) (h0 : 0 ≤ m0) (h1 : 0 ≤ m1) :
    impl_ibig_mul s0 m0 s1 m1 = s0.apply m0 * s1.apply m1 := by
  have h : 0 ≤ m0 * m1 := Int.mul_nonneg h0 h1
  cases s0 <;> cases s1 <;>
    simp [impl_ibig_mul, mkIBig, mul, mul_, with_sign_nonneg _ _ h, Sign.apply]

-- ---------------------------------------------------------------- division family (C02)

theorem div_nonneg' {a b : Int} (ha : 0 ≤ a) (hb : 0 ≤ b) : 0 ≤ a / b := Int.ediv_nonneg ha hb
theorem mod_nonneg' {a b : Int} (ha : 0 ≤ a) (hb : 0 < b) : 0 ≤ a % b := Int.emod_nonneg a (by omega)

/-- C02: `IBig / IBig` truncates toward zero -/
theorem ibig_div_exact (s0 s1 : Sign) (m0 m1 : Int) (h0 : 0 ≤ m0) (h1 : 0 < m1) :
    impl_ibig_div s0 m0 s1 m1 = Int.tdiv (s0.apply m0) (s1.apply m1) := by
  have hq : 0 ≤ m0 / m1 := div_nonneg' h0 (by omega)
  have e : Int.tdiv m0 m1 = m0 / m1 := Int.tdiv_eq_ediv_of_nonneg h0
  cases s0 <;> cases s1 <;>
    simp [impl_ibig_div, mkIBig, div_, mul_, with_sign_nonneg _ _ hq, Sign.apply, Int.tdiv_neg, Int.neg_tdiv, e]

/-- C02: `IBig % IBig` takes the sign of the dividend -/
theorem ibig_rem_exact (s0 s1 : Sign) (m0 m1 : Int) (h0 : 0 ≤ m0) (h1 : 0 < m1) :
    impl_ibig_rem s0 m0 s1 m1 = Int.tmod (s0.apply m0) (s1.apply m1) := by
  have hr : 0 ≤ m0 % m1 := mod_nonneg' h0 h1
  have e : Int.tmod m0 m1 = m0 % m1 := Int.tmod_eq_emod_of_nonneg h0
  cases s0 <;> cases s1 <;>
    simp [impl_ibig_rem, mkIBig, rem_, with_sign_nonneg _ _ hr, Sign.apply, Int.tmod_neg, Int.neg_tmod, e]

/-- C02: `div_rem` on IBig = (truncated quotient, remainder with the dividend's sign) -/
theorem ibig_divrem_exact (s0 s1 : Sign) (m0 m1 : Int) (h0 : 0 ≤ m0) (h1 : 0 < m1) :
    impl_ibig_divrem s0 m0 s1 m1
      = (Int.tdiv (s0.apply m0) (s1.apply m1), Int.tmod (s0.apply m0) (s1.apply m1)) := by
  have hq : 0 ≤ m0 / m1 := div_nonneg' h0 (by omega)
  have hr : 0 ≤ m0 % m1 := mod_nonneg' h0 h1
  have e : Int.tdiv m0 m1 = m0 / m1 := Int.tdiv_eq_ediv_of_nonneg h0
  have e' : Int.tmod m0 m1 = m0 % m1 := Int.tmod_eq_emod_of_nonneg h0
  cases s0 <;> cases s1 <;>
    simp [impl_ibig_divrem, mkIBig, div_rem, mul_, with_sign_nonneg _ _ hq, with_sign_nonneg _ _ hr,
      Sign.apply, Int.tdiv_neg, Int.neg_tdiv, Int.tmod_neg, Int.neg_tmod, e, e']

/-- floor division of a negated dividend, from the non-negative quotient and remainder -/
theorem neg_ediv_emod (m0 m1 : Int) (h1 : 0 < m1) :
    (-m0) / m1 = (if m0 % m1 = 0 then -(m0 / m1) else -(m0 / m1 + 1)) ∧
    (-m0) % m1 = (if m0 % m1 = 0 then 0 else m1 - m0 % m1) := by
  have hd := Int.emod_add_mul_ediv m0 m1
  have hr0 := Int.emod_nonneg m0 (by omega : m1 ≠ 0)
  have hr1 := Int.emod_lt_of_pos m0 h1
  by_cases hz : m0 % m1 = 0
  · simp only [hz, if_true]
    apply (Int.ediv_emod_unique h1).mpr
    refine ⟨?_, by omega, h1⟩
    rw [hz] at hd; linarith
  · simp only [hz, if_false]
    apply (Int.ediv_emod_unique h1).mpr
    refine ⟨?_, by omega, by omega⟩
    have : m1 * -(m0 / m1 + 1) = -(m1 * (m0 / m1)) - m1 := by ring
    rw [this]; linarith

theorem ediv_neg' (a b : Int) : a / (-b) = -(a / b) := Int.ediv_neg a b
theorem emod_neg' (a b : Int) : a % (-b) = a % b := Int.emod_neg a b

/-- C02: `div_euclid` on IBig = Euclidean (floor-for-positive-divisor) quotient.
    (The case analysis is on the signs and on `m0 % m1 = 0`, then `simp` evaluates whatever `if` / `match` the
    regenerated text uses for the remainder test — in either polarity and arm order.) -/
theorem ibig_div_euclid_exact (s0 s1 : Sign) (m0 m1 : Int) (h0 : 0 ≤ m0) (h1 : 0 < m1) :
    impl_ibig_div_euclid s0 m0 s1 m1 = (s0.apply m0) / (s1.apply m1) := by
  have hq : 0 ≤ m0 / m1 := div_nonneg' h0 (by omega)
  have hq1 : 0 ≤ m0 / m1 + 1 := by omega
  have ⟨hn, _⟩ := neg_ediv_emod m0 m1 h1
  cases s0 <;> cases s1 <;> by_cases hz : m0 % m1 = 0 <;>
    simp [impl_ibig_div_euclid, mkIBig, div_rem, mul_, is_zero, add_one, into_typed, not_, HasNot.not_, Sign.apply,
      ediv_neg', hn, hz, with_sign_nonneg _ _ hq, with_sign_nonneg _ _ hq1]

/-- C02: `rem_euclid` on IBig = Euclidean remainder, in `[0, |b|)` -/
theorem ibig_rem_euclid_exact (s0 s1 : Sign) (m0 m1 : Int) (h0 : 0 ≤ m0) (h1 : 0 < m1) :
    impl_ibig_rem_euclid s0 m0 s1 m1 = (s0.apply m0) % (s1.apply m1) := by
  have ⟨_, hn⟩ := neg_ediv_emod m0 m1 h1
  cases s0 <;> cases s1 <;> by_cases hz : m0 % m1 = 0 <;>
    simp [impl_ibig_rem_euclid, mkUBig, rem_, sub_, is_zero, as_ref, into_typed, not_, HasNot.not_, Sign.apply,
      emod_neg', hn, hz]

/-- C02: `div_rem_euclid` on IBig -/
theorem ibig_divrem_euclid_exact (s0 s1 : Sign) (m0 m1 : Int) (h0 : 0 ≤ m0) (h1 : 0 < m1) :
    impl_ibig_divrem_euclid s0 m0 s1 m1
      = ((s0.apply m0) / (s1.apply m1), (s0.apply m0) % (s1.apply m1)) := by
  have hq : 0 ≤ m0 / m1 := div_nonneg' h0 (by omega)
  have hq1 : 0 ≤ m0 / m1 + 1 := by omega
  have ⟨hn, hn'⟩ := neg_ediv_emod m0 m1 h1
  cases s0 <;> cases s1 <;> by_cases hz : m0 % m1 = 0 <;>
    simp [impl_ibig_divrem_euclid, mkIBig, mkUBig, div_rem, sub_, not_, HasNot.not_, neg_, is_zero,
      add_one, as_ref, into_typed, Sign.apply, ediv_neg', emod_neg', hn, hn', hz, with_sign_nonneg _ _ hq,
      with_sign_nonneg _ _ hq1]

/-- C02: `UBig % IBig` and `UBig.div_rem(IBig)` (lhs sign is `Positive`) -/
theorem ubig_ibig_rem_exact (s1 : Sign) (m0 m1 : Int) (h0 : 0 ≤ m0) (h1 : 0 < m1) :
    impl_ubig_ibig_rem .Positive m0 s1 m1 = Int.tmod m0 (s1.apply m1) := by
  have e' : Int.tmod m0 m1 = m0 % m1 := Int.tmod_eq_emod_of_nonneg h0
  cases s1 <;> simp [impl_ubig_ibig_rem, mkUBig, rem_, Sign.apply, Int.tmod_neg, e']

theorem ubig_ibig_divrem_exact (s1 : Sign) (m0 m1 : Int) (h0 : 0 ≤ m0) (h1 : 0 < m1) :
    impl_ubig_ibig_divrem .Positive m0 s1 m1
      = (Int.tdiv m0 (s1.apply m1), Int.tmod m0 (s1.apply m1)) := by
  have hq : 0 ≤ m0 / m1 := div_nonneg' h0 (by omega)
  have e : Int.tdiv m0 m1 = m0 / m1 := Int.tdiv_eq_ediv_of_nonneg h0
  have e' : Int.tmod m0 m1 = m0 % m1 := Int.tmod_eq_emod_of_nonneg h0
  cases s1 <;>
    simp [impl_ubig_ibig_divrem, mkIBig, mkUBig, div_rem, with_sign_nonneg _ _ hq, Sign.apply,
      Int.tdiv_neg, Int.tmod_neg, e, e']

-- non-vacuity: the hypotheses are met by ordinary operands and the tables are not constant
example : impl_ibig_divrem_euclid .Negative 7 .Positive 3 = (-3, 2) := by decide
example : impl_ibig_divrem .Negative 7 .Negative 3 = (2, -1) := by decide

end Dashu.Props.GenInt
