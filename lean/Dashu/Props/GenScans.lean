import Dashu.Gen.BitScans
import Dashu.Proofs.Int.Bits
import Dashu.Props.GenMath
/-
  C09, Tie A: the word scans of `integer/src/bits.rs` as REGENERATED text (`Dashu/Gen/BitScans.lean`: the scan loops,
  CHECKED slice accesses, the all-ones early exit, the index arithmetic and `as usize` casts over checked machine
  integers) are EQUAL to the hand mirrors `tzLarge`, `toScanFixed`, `tzLargeShiftedByOne` of `Model/Int/Bits.lean`
  that the C09 driver executes — including WHEN they panic (`none` ⇔ the mirror's index panic).
-/
namespace Dashu.Props.GenScans
open Dashu.Model Dashu Dashu.GluePrelude Dashu.Gen.BitScans

/-- `Except` result seen as "value or panic" -/
def okOf {α} : Except PanicKind α → Option α
  | .ok a => some a
  | .error _ => none

theorem tzAux_zero (f : Nat) : tzAux f 0 = f := by
  induction f with
  | zero => rfl
  | succ f ih => simp [tzAux, ih]

theorem trailing_zeros_eq (bits x : Nat) : trailing_zeros bits x = tzWord bits x := by
  have h : ∀ b y, trailing_zeros b y = tzAux b y := by
    intro b
    induction b with
    | zero => intro y; rfl
    | succ b ih => intro y; simp [trailing_zeros, tzAux, ih]
  unfold tzWord
  by_cases hx : x = 0
  · subst hx; rw [if_pos rfl, h, tzAux_zero]
  · rw [if_neg hx, h]

theorem trailing_ones_eq (bits x : Nat) : trailing_ones bits x = toWord bits x := by
  induction bits generalizing x with
  | zero => rfl
  | succ b ih => simp [trailing_ones, toWord, ih]

theorem tzAux_le (f n : Nat) : tzAux f n ≤ f := by
  induction f generalizing n with
  | zero => simp [tzAux]
  | succ f ih =>
    unfold tzAux
    split
    · omega
    · have := ih (n / 2); omega

theorem tzWord_le (bits n : Nat) : tzWord bits n ≤ bits := by
  unfold tzWord; split
  · omega
  · exact tzAux_le bits n

theorem toWord_le (f n : Nat) : toWord f n ≤ f := by
  induction f generalizing n with
  | zero => simp [toWord]
  | succ f ih =>
    unfold toWord
    split
    · omega
    · have := ih (n / 2); omega

theorem scan_zero (ws : List Nat) (c : Nat) : scan ws c 0 = (ws.takeWhile (· == c)).length := by
  simp [scan]

theorem scan_one (w : Nat) (ws : List Nat) (c : Nat) : scan (w :: ws) c 1 = 1 + (ws.takeWhile (· == c)).length := by
  simp [scan]

theorem takeWhile_len_le (ws : List Nat) (c : Nat) : (ws.takeWhile (· == c)).length ≤ ws.length := by
  induction ws with
  | nil => simp
  | cons w ws ih => simp only [List.takeWhile]; split <;> simp <;> omega

/-- the scan of zero words meets the recursion of `tzLarge`: either every word is zero (index panic on both sides)
    or the first non-zero word is found at the scanned index -/
theorem tz_scan (W : Nat) (ws : List Nat) :
    (tzLarge W ws = .error oob ∧ ws[(ws.takeWhile (· == 0)).length]? = none) ∨
    (∃ w, ws[(ws.takeWhile (· == 0)).length]? = some w ∧
      tzLarge W ws = .ok ((ws.takeWhile (· == 0)).length * W + tzWord W w)) := by
  induction ws with
  | nil => left; exact ⟨rfl, rfl⟩
  | cons a as ih =>
    by_cases ha : a = 0
    · subst ha
      have e : ((0 :: as).takeWhile (· == 0)).length = (as.takeWhile (· == 0)).length + 1 := by simp [List.takeWhile]
      rw [e]
      rcases ih with ⟨h1, h2⟩ | ⟨w, h1, h2⟩
      · left; refine ⟨?_, by simpa using h2⟩
        simp [tzLarge, h1, Except.map]
      · right; refine ⟨w, by simpa using h1, ?_⟩
        simp only [tzLarge, h2, Except.map, ne_eq, not_true_eq_false, if_false]
        congr 1
        rw [Nat.add_mul]; omega
    · right
      have hb : (a == 0) = false := by simp [ha]
      have e : ((a :: as).takeWhile (· == 0)).length = 0 := by simp [List.takeWhile, hb]
      rw [e]
      exact ⟨a, rfl, by simp [tzLarge, ha]⟩

/-- **`trailing_zeros_large` as regenerated = the hand mirror `tzLarge`**, panic included (`none` ⇔ index out of
    bounds: every word zero), for every slice whose bit count fits `usize` -/
theorem gen_trailing_zeros_large (W U : Nat) (ws : List Nat) (hU : (ws.length + 1) * W < 2 ^ U) :
    trailing_zeros_large W U ws = okOf (tzLarge W ws) := by
  have hlen := takeWhile_len_le ws 0
  unfold trailing_zeros_large
  rw [scan_zero]
  rcases tz_scan W ws with ⟨h1, h2⟩ | ⟨w, h1, h2⟩
  · simp [index, h1, h2, okOf]
  · have ht := tzWord_le W w
    have hb : (ws.takeWhile (· == 0)).length * W + tzWord W w < 2 ^ U := by
      have : (ws.takeWhile (· == 0)).length * W ≤ ws.length * W := Nat.mul_le_mul_right _ hlen
      rw [Nat.add_mul] at hU; omega
    have hb1 : (ws.takeWhile (· == 0)).length * W < 2 ^ U := by omega
    have hb2 : tzWord W w < 2 ^ U := by omega
    simp [index, h1, h2, okOf, MachInt.cast, MachInt.mul, MachInt.add, trailing_zeros_eq, Nat.mod_eq_of_lt hb2, hb, hb1]

/-- the scan of all-ones words meets the recursion of `toScanFixed` -/
theorem to_scan (W : Nat) (ws : List Nat) :
    ((ws.takeWhile (· == 2 ^ W - 1)).length = ws.length ∧ toScanFixed W ws = ws.length * W) ∨
    ((ws.takeWhile (· == 2 ^ W - 1)).length ≠ ws.length ∧
      ∃ w, ws[(ws.takeWhile (· == 2 ^ W - 1)).length]? = some w ∧
        toScanFixed W ws = (ws.takeWhile (· == 2 ^ W - 1)).length * W + toWord W w) := by
  induction ws with
  | nil => left; exact ⟨rfl, by simp [toScanFixed]⟩
  | cons a as ih =>
    by_cases ha : a = 2 ^ W - 1
    · have e : ((a :: as).takeWhile (· == 2 ^ W - 1)).length = (as.takeWhile (· == 2 ^ W - 1)).length + 1 := by
        simp [List.takeWhile, ha]
      rw [e]
      rcases ih with ⟨h1, h2⟩ | ⟨h0, w, h1, h2⟩
      · left; refine ⟨by simp [h1], ?_⟩
        simp only [toScanFixed, ha, ne_eq, not_true_eq_false, if_false, h2, List.length_cons]
        rw [Nat.add_mul]; omega
      · right; refine ⟨by simpa using h0, w, by simpa using h1, ?_⟩
        simp only [toScanFixed, ha, ne_eq, not_true_eq_false, if_false, h2]
        rw [Nat.add_mul]; omega
    · right
      have hb : (a == 2 ^ W - 1) = false := by simp [ha]
      have e : ((a :: as).takeWhile (· == 2 ^ W - 1)).length = 0 := by simp [List.takeWhile, hb]
      rw [e]
      exact ⟨by simp, a, rfl, by simp [toScanFixed, ha]⟩

/-- **`trailing_ones_large` as regenerated (as the code is now) never panics and = the hand mirror `toScanFixed`**:
    the all-ones early exit is read from the source -/
theorem gen_trailing_ones_large (W U : Nat) (ws : List Nat) (hU : (ws.length + 1) * W < 2 ^ U) :
    trailing_ones_large W U ws = some (toScanFixed W ws) := by
  have hlen := takeWhile_len_le ws (2 ^ W - 1)
  unfold trailing_ones_large
  rw [scan_zero]
  simp only [MachInt.maxVal]
  rw [Nat.add_mul] at hU
  rcases to_scan W ws with ⟨h1, h2⟩ | ⟨h0, w, h1, h2⟩
  · have hb : ws.length * W < 2 ^ U := by omega
    simp [h1, h2, MachInt.mul, hb]
  · have ht := toWord_le W w
    have : (ws.takeWhile (· == 2 ^ W - 1)).length * W ≤ ws.length * W := Nat.mul_le_mul_right _ hlen
    have hb : (ws.takeWhile (· == 2 ^ W - 1)).length * W + toWord W w < 2 ^ U := by omega
    have hb1 : (ws.takeWhile (· == 2 ^ W - 1)).length * W < 2 ^ U := by omega
    have hb2 : toWord W w < 2 ^ U := by omega
    simp [h0, index, h1, h2, MachInt.cast, MachInt.mul, MachInt.add, trailing_ones_eq, Nat.mod_eq_of_lt hb2, hb, hb1]

/-- **`trailing_zeros_large_shifted_by_one` as regenerated = the hand mirror `tzLargeShiftedByOne`**, panic included,
    on a non-empty slice (`debug_assert!(words.len() >= 2)`), `WORD_BITS ≥ 2` -/
theorem gen_trailing_zeros_large_shifted_by_one (W U : Nat) (w0 : Nat) (rest : List Nat) (hW : 2 ≤ W)
    (hU : (rest.length + 2) * W < 2 ^ U) :
    trailing_zeros_large_shifted_by_one W U (w0 :: rest) = okOf (tzLargeShiftedByOne W (w0 :: rest)) := by
  have hlen := takeWhile_len_le rest 0
  have hzb := tzWord_le W (w0 / 2)
  have hWU : W < 2 ^ U := by
    have : 1 * W ≤ (rest.length + 2) * W := Nat.mul_le_mul_right _ (by omega)
    omega
  have hzb2 : tzWord W (w0 / 2) < 2 ^ U := by omega
  unfold trailing_zeros_large_shifted_by_one tzLargeShiftedByOne
  rw [scan_one]
  have h1W : (1 : Nat) < W := by omega
  have h1W' : 1 ≤ W := by omega
  simp only [index, List.getElem?_cons_zero, MachInt.shr, h1W, if_true, MachInt.cast, trailing_zeros_eq,
    Nat.mod_eq_of_lt hzb2, MachInt.sub, h1W', List.getD_cons_zero, Nat.pow_one, List.drop_succ_cons, List.drop_zero,
    bind, Option.bind, pure]
  by_cases hz : tzWord W (w0 / 2) < W - 1
  · simp [hz, okOf]
  · have e1 : (1 + (rest.takeWhile (· == 0)).length) = (rest.takeWhile (· == 0)).length + 1 := by omega
    simp only [hz, decide_false, if_false, e1, List.getElem?_cons_succ, Bool.false_eq_true]
    rw [Nat.add_mul] at hU
    have hm : (rest.takeWhile (· == 0)).length * W ≤ rest.length * W := Nat.mul_le_mul_right _ hlen
    rcases tz_scan W rest with ⟨h1, h2⟩ | ⟨w, h1, h2⟩
    · simp [h1, h2, okOf, Except.map]
    · have ht := tzWord_le W w
      have hb2 : tzWord W w < 2 ^ U := by omega
      have g2 : (rest.takeWhile (· == 0)).length * W < 2 ^ U := by omega
      have g3 : (rest.takeWhile (· == 0)).length * W + tzWord W w < 2 ^ U := by omega
      have g4 : (rest.takeWhile (· == 0)).length * W + tzWord W w + tzWord W (w0 / 2) < 2 ^ U := by omega
      have g5 : 1 ≤ (rest.takeWhile (· == 0)).length * W + tzWord W w + tzWord W (w0 / 2) := by omega
      simp [h1, h2, okOf, Except.map, MachInt.mul, MachInt.add, Nat.mod_eq_of_lt hb2, g2, g3, g4, g5]

/-- on an empty slice `words[0]` is out of bounds -/
theorem gen_trailing_zeros_large_shifted_by_one_empty (W U : Nat) :
    trailing_zeros_large_shifted_by_one W U [] = none := rfl

/-- **`are_slice_low_bits_nonzero` as regenerated = the hand mirror `areSliceLowBitsNonzero`** (the floor correction of
    `IBig >> n` on a heap magnitude): the `n_words >= len` exit, the scan of the whole words below, the CHECKED access of
    `words[n_words]` (in bounds on this branch) and the mask `ones_word(n % WORD_BITS)`; every slice, every `n` -/
theorem gen_are_slice_low_bits_nonzero (W U n : Nat) (ws : List Nat) (hW : 1 ≤ W) (h32 : W ≤ 2 ^ 32) :
    are_slice_low_bits_nonzero W U ws n = some (areSliceLowBitsNonzero W ws n) := by
  have hW0 : W ≠ 0 := by omega
  have hm : n % W < W := Nat.mod_lt n (by omega)
  have e32 : (2 : Nat) ^ 32 = 4294967296 := by decide
  have hc32 : n % W % 4294967296 = n % W := Nat.mod_eq_of_lt (by omega)
  unfold are_slice_low_bits_nonzero areSliceLowBitsNonzero
  simp only [MachInt.div, hW0, if_false, bind, Option.bind, pure]
  by_cases hc : n / W ≥ ws.length
  · simp [hc]
  · have hlt : n / W < ws.length := by omega
    have hidx : ws[n / W]? = some (ws.getD (n / W) 0) := by
      rw [List.getD_eq_getElem?_getD, List.getElem?_eq_getElem hlt]; rfl
    by_cases ha : (ws.take (n / W)).any (· != 0) = true
    · simp [hc, MachInt.rem, MachInt.cast, hW0, ha]
    · have ha' : (ws.take (n / W)).any (· != 0) = false := by simpa using ha
      simp only [hc, decide_false, if_false, MachInt.rem, hW0, MachInt.cast, hc32, ha', Bool.false_eq_true, index, hidx,
        (Props.GenMath.gen_ones_word W (n % W) (Nat.le_of_lt hm)).1, Bool.false_or]

-- non-vacuity: a 4-word slice with two low zero words / two low all-ones words / `1` followed by a zero word
example : trailing_zeros_large 64 64 [0, 0, 2 ^ 63, 5] = some 191 ∧ tzLarge 64 [0, 0, 2 ^ 63, 5] = .ok 191 ∧
    trailing_ones_large 64 64 [2 ^ 64 - 1, 2 ^ 64 - 1, 7, 1] = some 131 ∧
    trailing_ones_large 64 64 [2 ^ 64 - 1, 2 ^ 64 - 1, 2 ^ 64 - 1] = some 192 ∧
    trailing_zeros_large_shifted_by_one 64 64 [1, 0, 4] = some 129 ∧ tzLargeShiftedByOne 64 [1, 0, 4] = .ok 129 ∧
    trailing_zeros_large 64 64 [0, 0, 0] = none := by
  refine ⟨by decide, by decide, by decide, by decide, by decide, by decide, by decide⟩

-- `are_slice_low_bits_nonzero`: only a low word set / only a bit inside the cut word / nothing below the cut / cut beyond the slice
example : are_slice_low_bits_nonzero 64 64 [1, 0, 0, 8] 130 = some true ∧ are_slice_low_bits_nonzero 64 64 [0, 0, 2, 8] 130 = some true ∧
    are_slice_low_bits_nonzero 64 64 [0, 0, 4, 8] 130 = some false ∧ are_slice_low_bits_nonzero 64 64 [0, 0, 0] (2 ^ 64 - 1) = some true := by
  refine ⟨by decide, by decide, by decide, by decide⟩

end Dashu.Props.GenScans
