import Dashu.Gen.BitScans
import Dashu.Proofs.Int.Bits
import Dashu.Props.GenMath
import Dashu.Props.GenBitsSmall
/-
  C09, Tie A: the word scans of `integer/src/bits.rs` as REGENERATED text (`Dashu/Gen/BitScans.lean`: the scan loops,
  CHECKED slice accesses, the all-ones early exit, the index arithmetic and `as usize` casts over checked machine
  integers) are EQUAL to the hand mirrors `tzLarge`, `toScanFixed`, `tzLargeShiftedByOne` of `Model/Int/Bits.lean`
  that the C09 driver executes — including WHEN they panic (`none` ⇔ the mirror's index panic).
-/
namespace Dashu.Props.GenScans
open Dashu.Model Dashu Dashu.GluePrelude Dashu.Gen.BitScans

/-- `Except` result seen as "value or panic" -/
def okOf {α} : Except PanicKind α → Option α
  | .ok a => some a
  | .error _ => none

theorem tzAux_zero (f : Nat) : tzAux f 0 = f := by
  induction f with
  | zero => rfl
  | succ f ih => simp [tzAux, ih]

theorem trailing_zeros_eq (bits x : Nat) : trailing_zeros bits x = tzWord bits x := by
  have h : ∀ b y, trailing_zeros b y = tzAux b y := by
    intro b
    induction b with
    | zero => intro y; rfl
    | succ b ih => intro y; simp [trailing_zeros, tzAux, ih]
  unfold tzWord
  by_cases hx : x = 0
  · subst hx; rw [if_pos rfl, h, tzAux_zero]
  · rw [if_neg hx, h]

theorem trailing_ones_eq (bits x : Nat) : trailing_ones bits x = toWord bits x := by
  induction bits generalizing x with
  | zero => rfl
  | succ b ih => simp [trailing_ones, toWord, ih]

theorem tzAux_le (f n : Nat) : tzAux f n ≤ f := by
  induction f generalizing n with
  | zero => simp [tzAux]
  | succ f ih =>
    unfold tzAux
    split
    · omega
    · have := ih (n / 2); omega

theorem tzWord_le (bits n : Nat) : tzWord bits n ≤ bits := by
  unfold tzWord; split
  · omega
  · exact tzAux_le bits n

theorem toWord_le (f n : Nat) : toWord f n ≤ f := by
  induction f generalizing n with
  | zero => simp [toWord]
  | succ f ih =>
    unfold toWord
    split
    · omega
    · have := ih (n / 2); omega

theorem scan_zero (ws : List Nat) (c : Nat) : scan ws c 0 = (ws.takeWhile (· == c)).length := by
  simp [scan]

theorem scan_one (w : Nat) (ws : List Nat) (c : Nat) : scan (w :: ws) c 1 = 1 + (ws.takeWhile (· == c)).length := by
  simp [scan]

theorem takeWhile_len_le (ws : List Nat) (c : Nat) : (ws.takeWhile (· == c)).length ≤ ws.length := by
  induction ws with
  | nil => simp
  | cons w ws ih => simp only [List.takeWhile]; split <;> simp <;> omega

/-- the scan of zero words meets the recursion of `tzLarge`: either every word is zero (index panic on both sides)
    or the first non-zero word is found at the scanned index -/
theorem tz_scan (W : Nat) (ws : List Nat) :
    (tzLarge W ws = .error oob ∧ ws[(ws.takeWhile (· == 0)).length]? = none) ∨
    (∃ w, ws[(ws.takeWhile (· == 0)).length]? = some w ∧
      tzLarge W ws = .ok ((ws.takeWhile (· == 0)).length * W + tzWord W w)) := by
  induction ws with
  | nil => left; exact ⟨rfl, rfl⟩
  | cons a as ih =>
    by_cases ha : a = 0
    · subst ha
      have e : ((0 :: as).takeWhile (· == 0)).length = (as.takeWhile (· == 0)).length + 1 := by simp [List.takeWhile]
      rw [e]
      rcases ih with ⟨h1, h2⟩ | ⟨w, h1, h2⟩
      · left; refine ⟨?_, by simpa using h2⟩
        simp [tzLarge, h1, Except.map]
      · right; refine ⟨w, by simpa using h1, ?_⟩
        simp only [tzLarge, h2, Except.map, ne_eq, not_true_eq_false, if_false]
        congr 1
        rw [Nat.add_mul]; omega
    · right
      have hb : (a == 0) = false := by simp [ha]
      have e : ((a :: as).takeWhile (· == 0)).length = 0 := by simp [List.takeWhile, hb]
      rw [e]
      exact ⟨a, rfl, by simp [tzLarge, ha]⟩

/-- **`trailing_zeros_large` as regenerated = the hand mirror `tzLarge`**, panic included (`none` ⇔ index out of
    bounds: every word zero), for every slice whose bit count fits `usize` -/
theorem gen_trailing_zeros_large (W U : Nat) (ws : List Nat) (hU : (ws.length + 1) * W < 2 ^ U) :
    trailing_zeros_large W U ws = okOf (tzLarge W ws) := by
  have hlen := takeWhile_len_le ws 0
  unfold trailing_zeros_large
  rw [scan_zero]
  rcases tz_scan W ws with ⟨h1, h2⟩ | ⟨w, h1, h2⟩
  · simp [index, h1, h2, okOf]
  · have ht := tzWord_le W w
    have hb : (ws.takeWhile (· == 0)).length * W + tzWord W w < 2 ^ U := by
      have : (ws.takeWhile (· == 0)).length * W ≤ ws.length * W := Nat.mul_le_mul_right _ hlen
      rw [Nat.add_mul] at hU; omega
    have hb1 : (ws.takeWhile (· == 0)).length * W < 2 ^ U := by omega
    have hb2 : tzWord W w < 2 ^ U := by omega
    simp [index, h1, h2, okOf, MachInt.cast, MachInt.mul, MachInt.add, trailing_zeros_eq, Nat.mod_eq_of_lt hb2, hb, hb1]

/-- the scan of all-ones words meets the recursion of `toScanFixed` -/
theorem to_scan (W : Nat) (ws : List Nat) :
    ((ws.takeWhile (· == 2 ^ W - 1)).length = ws.length ∧ toScanFixed W ws = ws.length * W) ∨
    ((ws.takeWhile (· == 2 ^ W - 1)).length ≠ ws.length ∧
      ∃ w, ws[(ws.takeWhile (· == 2 ^ W - 1)).length]? = some w ∧
        toScanFixed W ws = (ws.takeWhile (· == 2 ^ W - 1)).length * W + toWord W w) := by
  induction ws with
  | nil => left; exact ⟨rfl, by simp [toScanFixed]⟩
  | cons a as ih =>
    by_cases ha : a = 2 ^ W - 1
    · have e : ((a :: as).takeWhile (· == 2 ^ W - 1)).length = (as.takeWhile (· == 2 ^ W - 1)).length + 1 := by
        simp [List.takeWhile, ha]
      rw [e]
      rcases ih with ⟨h1, h2⟩ | ⟨h0, w, h1, h2⟩
      · left; refine ⟨by simp [h1], ?_⟩
        simp only [toScanFixed, ha, ne_eq, not_true_eq_false, if_false, h2, List.length_cons]
        rw [Nat.add_mul]; omega
      · right; refine ⟨by simpa using h0, w, by simpa using h1, ?_⟩
        simp only [toScanFixed, ha, ne_eq, not_true_eq_false, if_false, h2]
        rw [Nat.add_mul]; omega
    · right
      have hb : (a == 2 ^ W - 1) = false := by simp [ha]
      have e : ((a :: as).takeWhile (· == 2 ^ W - 1)).length = 0 := by simp [List.takeWhile, hb]
      rw [e]
      exact ⟨by simp, a, rfl, by simp [toScanFixed, ha]⟩

/-- **`trailing_ones_large` as regenerated (as the code is now) never panics and = the hand mirror `toScanFixed`**:
    the all-ones early exit is read from the source -/
theorem gen_trailing_ones_large (W U : Nat) (ws : List Nat) (hU : (ws.length + 1) * W < 2 ^ U) :
    trailing_ones_large W U ws = some (toScanFixed W ws) := by
  have hlen := takeWhile_len_le ws (2 ^ W - 1)
  unfold trailing_ones_large
  rw [scan_zero]
  simp only [MachInt.maxVal]
  rw [Nat.add_mul] at hU
  rcases to_scan W ws with ⟨h1, h2⟩ | ⟨h0, w, h1, h2⟩
  · have hb : ws.length * W < 2 ^ U := by omega
    simp [h1, h2, MachInt.mul, hb]
  · have ht := toWord_le W w
    have : (ws.takeWhile (· == 2 ^ W - 1)).length * W ≤ ws.length * W := Nat.mul_le_mul_right _ hlen
    have hb : (ws.takeWhile (· == 2 ^ W - 1)).length * W + toWord W w < 2 ^ U := by omega
    have hb1 : (ws.takeWhile (· == 2 ^ W - 1)).length * W < 2 ^ U := by omega
    have hb2 : toWord W w < 2 ^ U := by omega
    simp [h0, index, h1, h2, MachInt.cast, MachInt.mul, MachInt.add, trailing_ones_eq, Nat.mod_eq_of_lt hb2, hb, hb1]

/-- **`trailing_zeros_large_shifted_by_one` as regenerated = the hand mirror `tzLargeShiftedByOne`**, panic included,
    on a non-empty slice (`debug_assert!(words.len() >= 2)`), `WORD_BITS ≥ 2` -/
theorem gen_trailing_zeros_large_shifted_by_one (W U : Nat) (w0 : Nat) (rest : List Nat) (hW : 2 ≤ W)
    (hU : (rest.length + 2) * W < 2 ^ U) :
    trailing_zeros_large_shifted_by_one W U (w0 :: rest) = okOf (tzLargeShiftedByOne W (w0 :: rest)) := by
  have hlen := takeWhile_len_le rest 0
  have hzb := tzWord_le W (w0 / 2)
  have hWU : W < 2 ^ U := by
    have : 1 * W ≤ (rest.length + 2) * W := Nat.mul_le_mul_right _ (by omega)
    omega
  have hzb2 : tzWord W (w0 / 2) < 2 ^ U := by omega
  unfold trailing_zeros_large_shifted_by_one tzLargeShiftedByOne
  rw [scan_one]
  have h1W : (1 : Nat) < W := by omega
  have h1W' : 1 ≤ W := by omega
  simp only [index, List.getElem?_cons_zero, MachInt.shr, h1W, if_true, MachInt.cast, trailing_zeros_eq,
    Nat.mod_eq_of_lt hzb2, MachInt.sub, h1W', List.getD_cons_zero, Nat.pow_one, List.drop_succ_cons, List.drop_zero,
    bind, Option.bind, pure]
  by_cases hz : tzWord W (w0 / 2) < W - 1
  · simp [hz, okOf]
  · have e1 : (1 + (rest.takeWhile (· == 0)).length) = (rest.takeWhile (· == 0)).length + 1 := by omega
    simp only [hz, decide_false, if_false, e1, List.getElem?_cons_succ, Bool.false_eq_true]
    rw [Nat.add_mul] at hU
    have hm : (rest.takeWhile (· == 0)).length * W ≤ rest.length * W := Nat.mul_le_mul_right _ hlen
    rcases tz_scan W rest with ⟨h1, h2⟩ | ⟨w, h1, h2⟩
    · simp [h1, h2, okOf, Except.map]
    · have ht := tzWord_le W w
      have hb2 : tzWord W w < 2 ^ U := by omega
      have g2 : (rest.takeWhile (· == 0)).length * W < 2 ^ U := by omega
      have g3 : (rest.takeWhile (· == 0)).length * W + tzWord W w < 2 ^ U := by omega
      have g4 : (rest.takeWhile (· == 0)).length * W + tzWord W w + tzWord W (w0 / 2) < 2 ^ U := by omega
      have g5 : 1 ≤ (rest.takeWhile (· == 0)).length * W + tzWord W w + tzWord W (w0 / 2) := by omega
      simp [h1, h2, okOf, Except.map, MachInt.mul, MachInt.add, Nat.mod_eq_of_lt hb2, g2, g3, g4, g5]

/-- on an empty slice `words[0]` is out of bounds -/
theorem gen_trailing_zeros_large_shifted_by_one_empty (W U : Nat) :
    trailing_zeros_large_shifted_by_one W U [] = none := rfl

/-- **`are_slice_low_bits_nonzero` as regenerated = the hand mirror `areSliceLowBitsNonzero`** (the floor correction of
    `IBig >> n` on a heap magnitude): the `n_words >= len` exit, the scan of the whole words below, the CHECKED access of
    `words[n_words]` (in bounds on this branch) and the mask `ones_word(n % WORD_BITS)`; every slice, every `n` -/
theorem gen_are_slice_low_bits_nonzero (W U n : Nat) (ws : List Nat) (hW : 1 ≤ W) (h32 : W ≤ 2 ^ 32) :
    are_slice_low_bits_nonzero W U ws n = some (areSliceLowBitsNonzero W ws n) := by
  have hW0 : W ≠ 0 := by omega
  have hm : n % W < W := Nat.mod_lt n (by omega)
  have e32 : (2 : Nat) ^ 32 = 4294967296 := by decide
  have hc32 : n % W % 4294967296 = n % W := Nat.mod_eq_of_lt (by omega)
  unfold are_slice_low_bits_nonzero areSliceLowBitsNonzero
  simp only [MachInt.div, hW0, if_false, bind, Option.bind, pure]
  by_cases hc : n / W ≥ ws.length
  · simp [hc]
  · have hlt : n / W < ws.length := by omega
    have hidx : ws[n / W]? = some (ws.getD (n / W) 0) := by
      rw [List.getD_eq_getElem?_getD, List.getElem?_eq_getElem hlt]; rfl
    by_cases ha : (ws.take (n / W)).any (· != 0) = true
    · simp [hc, MachInt.rem, MachInt.cast, hW0, ha]
    · have ha' : (ws.take (n / W)).any (· != 0) = false := by simpa using ha
      simp only [hc, decide_false, if_false, MachInt.rem, hW0, MachInt.cast, hc32, ha', Bool.false_eq_true, index, hidx,
        (Props.GenMath.gen_ones_word W (n % W) (Nat.le_of_lt hm)).1, Bool.false_or]

-- non-vacuity: a 4-word slice with two low zero words / two low all-ones words / `1` followed by a zero word
example : trailing_zeros_large 64 64 [0, 0, 2 ^ 63, 5] = some 191 ∧ tzLarge 64 [0, 0, 2 ^ 63, 5] = .ok 191 ∧
    trailing_ones_large 64 64 [2 ^ 64 - 1, 2 ^ 64 - 1, 7, 1] = some 131 ∧
    trailing_ones_large 64 64 [2 ^ 64 - 1, 2 ^ 64 - 1, 2 ^ 64 - 1] = some 192 ∧
    trailing_zeros_large_shifted_by_one 64 64 [1, 0, 4] = some 129 ∧ tzLargeShiftedByOne 64 [1, 0, 4] = .ok 129 ∧
    trailing_zeros_large 64 64 [0, 0, 0] = none := by
  refine ⟨by decide, by decide, by decide, by decide, by decide, by decide, by decide⟩

-- `are_slice_low_bits_nonzero`: only a low word set / only a bit inside the cut word / nothing below the cut / cut beyond the slice
example : are_slice_low_bits_nonzero 64 64 [1, 0, 0, 8] 130 = some true ∧ are_slice_low_bits_nonzero 64 64 [0, 0, 2, 8] 130 = some true ∧
    are_slice_low_bits_nonzero 64 64 [0, 0, 4, 8] 130 = some false ∧ are_slice_low_bits_nonzero 64 64 [0, 0, 0] (2 ^ 64 - 1) = some true := by
  refine ⟨by decide, by decide, by decide, by decide⟩

/-- **`TypedReprRef::bit`, arm `RefLarge`** (`idx < len && words[idx] & 1 << (n % W) != 0`: the slice access only under its
    guard, checked) = the heap arm of the hand model's `TRepr.bit`; every slice, every `n` -/
theorem gen_bit_large (W U n : Nat) (ws : List Nat) (hW : 1 ≤ W) :
    bit_large W U ws n = some ((TRepr.large ws).bit W n) := by
  have hW0 : W ≠ 0 := by omega
  have hm : n % W < W := Nat.mod_lt n (by omega)
  have hp : 1 * 2 ^ (n % W) % 2 ^ W = 2 ^ (n % W) := by
    rw [Nat.one_mul]; exact Nat.mod_eq_of_lt (Nat.pow_lt_pow_right (by decide) hm)
  unfold bit_large TRepr.bit
  simp only [MachInt.div, hW0, if_false, bind, Option.bind, pure]
  by_cases hc : n / W < ws.length
  · have hidx : ws[n / W]? = some (ws.getD (n / W) 0) := by
      rw [List.getD_eq_getElem?_getD, List.getElem?_eq_getElem hc]; rfl
    simp only [hc, decide_true, if_true, index, hidx, MachInt.rem, hW0, if_false, MachInt.shl, hm, hp,
      Props.GenBitsSmall.and_two_pow_ne_zero, Bool.true_and]
  · simp [hc]

/-- **`TypedReprRef::bit_len`, arm `RefLarge`** (`len * WORD_BITS - last.leading_zeros()`) = the heap arm of `TRepr.bitLen`,
    on a non-empty slice whose bit count fits `usize` -/
theorem gen_bit_len_large (W U : Nat) (ws : List Nat) (hne : ws ≠ []) (hU : ws.length * W < 2 ^ U) :
    bit_len_large W U ws = some ((TRepr.large ws).bitLen W) := by
  have hlen : 1 ≤ ws.length := by
    cases ws with
    | nil => exact absurd rfl hne
    | cons a as => simp
  have hWle : W ≤ ws.length * W := Nat.le_mul_of_pos_left W hlen
  have hlast : ws.getLast? = some (ws.getLastD 0) := by
    rw [List.getLastD_eq_getLast?]
    cases h : ws.getLast? with
    | none => exact absurd (List.getLast?_eq_none_iff.1 h) hne
    | some a => rfl
  have hlz : W - bitLenNat (ws.getLastD 0) < 2 ^ U := by omega
  have hsub : W - bitLenNat (ws.getLastD 0) ≤ ws.length * W := by omega
  unfold bit_len_large TRepr.bitLen
  simp only [MachInt.mul, hU, if_true, hlast, bind, Option.bind, pure, MachInt.sub, MachInt.cast, MachInt.leading_zeros,
    Props.GenMath.bitLength_eq, Nat.mod_eq_of_lt hlz, hsub]

example : bit_large 64 64 [1, 2, 3] 65 = some true ∧ bit_large 64 64 [1, 2, 3] 64 = some false ∧
    bit_large 64 64 [1, 2, 3] (2 ^ 64 - 1) = some false ∧ bit_len_large 64 64 [1, 2, 3] = some 130 ∧ bit_len_large 64 64 [] = none := by
  refine ⟨by decide, by decide, by decide, by decide, by decide⟩

theorem count_ones_eq (bits x : Nat) : count_ones bits x = popWord bits x := by
  induction bits generalizing x with
  | zero => rfl
  | succ b ih => simp [count_ones, popWord, ih]

theorem popWord_le (bits x : Nat) : popWord bits x ≤ bits := by
  induction bits generalizing x with
  | zero => simp [popWord]
  | succ b ih =>
    have := ih (x / 2)
    have h2 : x % 2 < 2 := Nat.mod_lt _ (by decide)
    simp only [popWord]; omega

/-- a sum of per-word counts bounded by `W` each does not overflow when `len * W` fits -/
theorem sum_checked_eq (U W : Nat) (f : Nat → Nat) (hf : ∀ w, f w ≤ W) (ws : List Nat) (hU : ws.length * W < 2 ^ U) :
    sum_checked U f ws = some ((ws.map f).sum) ∧ (ws.map f).sum ≤ ws.length * W := by
  induction ws with
  | nil => exact ⟨rfl, by simp⟩
  | cons a as ih =>
    have hlen : (a :: as).length * W = as.length * W + W := by simp [Nat.add_mul]
    have ⟨e, hb⟩ := ih (by omega)
    have hfa := hf a
    have hlt : f a + (as.map f).sum < 2 ^ U := by omega
    refine ⟨?_, ?_⟩
    · simp [sum_checked, e, MachInt.add, hlt]
    · simp only [List.map_cons, List.sum_cons]; omega

/-- **`TypedReprRef::count_ones`, arm `RefLarge`** (checked `usize` sum of the per-word counts) = the heap arm of `TRepr.countOnes` -/
theorem gen_count_ones_large (W U : Nat) (ws : List Nat) (hU : ws.length * W < 2 ^ U) :
    count_ones_large W U ws = some ((TRepr.large ws).countOnes W) := by
  have h := (sum_checked_eq U W (count_ones W) (fun w => by rw [count_ones_eq]; exact popWord_le W w) ws hU).1
  have e : count_ones W = popWord W := funext (count_ones_eq W)
  rw [e] at h
  simp [count_ones_large, TRepr.countOnes, h, e]

/-- **`TypedReprRef::count_zeros`, arm `RefLarge`** (always `Some`: zero bits of all words minus the leading zeros of the top
    word) = the heap arm of `TRepr.countZeros`, on a non-empty slice — PARTIAL: unless the checked subtraction underflows.
    The FULL statement (the left disjunct alone, for a slice of words) is `gen_count_zeros_large` below: popcount(top) ≤ bit_len(top),
    hence the zero bits of all words ≥ the leading zeros of the top word and the subtraction never underflows. -/
theorem gen_count_zeros_large_partial (W U : Nat) (ws : List Nat) (hne : ws ≠ []) (hU : ws.length * W < 2 ^ U) :
    (count_zeros_large W U ws).map some = some ((TRepr.large ws).countZeros W) ∨
    -- the subtraction of the leading zeros would underflow only if the top word had more zero bits than all words together
    (ws.map (fun w => W - popWord W w)).sum < W - bitLenNat (ws.getLastD 0) := by
  have hlen : 1 ≤ ws.length := by
    cases ws with
    | nil => exact absurd rfl hne
    | cons a as => simp
  have hWle : W ≤ ws.length * W := Nat.le_mul_of_pos_left W hlen
  have hlast : ws.getLast? = some (ws.getLastD 0) := by
    rw [List.getLastD_eq_getLast?]
    cases h : ws.getLast? with
    | none => exact absurd (List.getLast?_eq_none_iff.1 h) hne
    | some a => rfl
  have hs := (sum_checked_eq U W (count_zeros W) (fun w => by unfold count_zeros; omega) ws hU).1
  have e : count_zeros W = fun w => W - popWord W w := funext (fun w => by unfold count_zeros; rw [count_ones_eq])
  have hlz : W - bitLenNat (ws.getLastD 0) < 2 ^ U := by omega
  by_cases hsub : W - bitLenNat (ws.getLastD 0) ≤ (ws.map (fun w => W - popWord W w)).sum
  · left
    unfold count_zeros_large TRepr.countZeros
    rw [e] at hs
    simp only [e, hs, hlast, bind, Option.bind, pure, MachInt.sub, MachInt.cast, MachInt.leading_zeros,
      Props.GenMath.bitLength_eq, Nat.mod_eq_of_lt hlz, hsub, if_true, Option.map]
  · right; omega

theorem is_power_of_two_eq (x : Nat) : is_power_of_two x = isPow2Nat x := rfl

/-- **`TypedReprRef::is_power_of_two`, arm `RefLarge`** (`words[..len-1]` all zero `&&` the top word a power of two; `len - 1`
    checked) = the heap arm of `TRepr.isPow2`, on a non-empty slice -/
theorem gen_is_power_of_two_large (W U : Nat) (ws : List Nat) (hne : ws ≠ []) :
    is_power_of_two_large W U ws = some ((TRepr.large ws).isPow2 W) := by
  have hlen : 1 ≤ ws.length := by
    cases ws with
    | nil => exact absurd rfl hne
    | cons a as => simp
  have hlast : ws.getLast? = some (ws.getLastD 0) := by
    rw [List.getLastD_eq_getLast?]
    cases h : ws.getLast? with
    | none => exact absurd (List.getLast?_eq_none_iff.1 h) hne
    | some a => rfl
  have hle : ws.length - 1 ≤ ws.length := by omega
  have hd : ws.take (ws.length - 1) = ws.dropLast := by rw [List.dropLast_eq_take]
  unfold is_power_of_two_large TRepr.isPow2
  simp only [MachInt.sub, hlen, if_true, hle, hd, hlast, bind, Option.bind, pure, is_power_of_two_eq]
  cases ws.dropLast.all (· == 0) <;> simp

example : count_ones_large 64 64 [3, 0, 2 ^ 64 - 1] = some 66 ∧ count_zeros_large 64 64 [3, 0, 5] = some (62 + 64 + 1) ∧
    is_power_of_two_large 64 64 [0, 0, 4] = some true ∧ is_power_of_two_large 64 64 [0, 0, 6] = some false ∧
    is_power_of_two_large 64 64 [1, 0, 4] = some false ∧ is_power_of_two_large 64 64 [] = none := by
  refine ⟨by decide, by decide, by decide, by decide, by decide, by decide⟩

theorem last_le_sum (f : Nat → Nat) (ws : List Nat) (hne : ws ≠ []) : f (ws.getLastD 0) ≤ (ws.map f).sum := by
  induction ws with
  | nil => exact absurd rfl hne
  | cons a as ih =>
    cases as with
    | nil => simp [List.getLastD]
    | cons b t =>
      have h := ih (by simp)
      have e : (a :: b :: t).getLastD 0 = (b :: t).getLastD 0 := by simp [List.getLastD]
      rw [e]
      simp only [List.map_cons, List.sum_cons] at h ⊢
      omega

/-- **`TypedReprRef::count_zeros`, arm `RefLarge`, FULL**: on a non-empty slice of words the checked subtraction never underflows
    (popcount of the top word ≤ its bit length) and the regenerated arm = the heap arm of `TRepr.countZeros` -/
theorem gen_count_zeros_large (W U : Nat) (ws : List Nat) (hne : ws ≠ []) (hw : IsWords W ws) (hU : ws.length * W < 2 ^ U) :
    (count_zeros_large W U ws).map some = some ((TRepr.large ws).countZeros W) := by
  rcases gen_count_zeros_large_partial W U ws hne hU with h | h
  · exact h
  · exfalso
    have hmem : ws.getLastD 0 ∈ ws := by
      rw [List.getLastD_eq_getLast?]
      cases hl : ws.getLast? with
      | none => exact absurd (List.getLast?_eq_none_iff.1 hl) hne
      | some a => exact List.mem_of_getLast? hl
    have hlt : ws.getLastD 0 < 2 ^ W := hw _ hmem
    have h1 := last_le_sum (fun w => W - popWord W w) ws hne
    have h2 : popWord W (ws.getLastD 0) ≤ bitLenNat (ws.getLastD 0) := by
      rw [popWord_eq_popNat W _ hlt]; exact popNat_le_bitLen _
    omega

-- ---------------------------------------------------------------- round 6: `TypedReprRef::trailing_ones_neg`, arm `RefLarge`

/-- the scan result is at most the bit length of the slice -/
theorem tzLarge_le (W : Nat) (ws : List Nat) (t : Nat) (h : tzLarge W ws = .ok t) : t ≤ ws.length * W := by
  induction ws generalizing t with
  | nil => simp [tzLarge] at h
  | cons w ws ih =>
    unfold tzLarge at h
    by_cases hw : w ≠ 0
    · rw [if_pos hw] at h
      injection h with h
      have := tzWord_le W w
      have e : (w :: ws).length * W = ws.length * W + W := by simp [Nat.succ_mul]
      omega
    · rw [if_neg hw] at h
      cases h' : tzLarge W ws with
      | error e => rw [h'] at h; simp [Except.map] at h
      | ok t' =>
        rw [h'] at h
        simp only [Except.map] at h
        injection h with h
        have := ih t' h'
        have e : (w :: ws).length * W = ws.length * W + W := by simp [Nat.succ_mul]
        omega

/-- the shifted scan result + 1 is at most the bit length of the slice (so the `+ 1` of `trailing_ones_neg` cannot overflow) -/
theorem tzLargeShiftedByOne_succ_le (W : Nat) (hW : 2 ≤ W) (w0 : Nat) (rest : List Nat) (t : Nat)
    (h : tzLargeShiftedByOne W (w0 :: rest) = .ok t) : t + 1 ≤ (rest.length + 1) * W := by
  unfold tzLargeShiftedByOne at h
  simp only [List.getD_cons_zero, List.drop_succ_cons, List.drop_zero] at h
  have hz := tzWord_le W (w0 / 2)
  have e : (rest.length + 1) * W = rest.length * W + W := by simp [Nat.succ_mul]
  by_cases hb : tzWord W (w0 / 2) < W - 1
  · rw [if_pos hb] at h
    injection h with h
    omega
  · rw [if_neg hb] at h
    cases h' : tzLarge W rest with
    | error e => rw [h'] at h; simp [Except.map] at h
    | ok t' =>
      rw [h'] at h
      simp only [Except.map] at h
      injection h with h
      have := tzLarge_le W rest t' h'
      omega

/-- **`TypedReprRef::trailing_ones_neg`, arm `RefLarge`** (trailing ones of `-x` for a heap magnitude: `IBig::trailing_ones` of a
    negative value) as regenerated = the heap arm of the hand model's `TRepr.trailingOnesNeg`, panic included: the CHECKED
    `words[0]`, the parity test, the regenerated shifted scan, and the `+ 1`, which never overflows -/
theorem gen_trailing_ones_neg_large (W U : Nat) (w0 : Nat) (rest : List Nat) (hW : 2 ≤ W)
    (hU : (rest.length + 2) * W < 2 ^ U) :
    (trailing_ones_neg_large W U (w0 :: rest)).map some = okOf ((TRepr.large (w0 :: rest)).trailingOnesNeg W) := by
  unfold trailing_ones_neg_large TRepr.trailingOnesNeg
  have hidx : index (w0 :: rest) 0 = some w0 := rfl
  have hpar : ((w0 &&& 1) == 0) = decide (w0 % 2 = 0) := by
    rw [Nat.and_one_is_mod]; by_cases h : w0 % 2 = 0 <;> simp [h]
  simp only [hidx, bind, Option.bind, hpar, List.getD_cons_zero]
  by_cases h0 : w0 % 2 = 0
  · simp [h0, okOf, pure]
  · simp only [h0, decide_false, Bool.false_eq_true, if_false]
    rw [gen_trailing_zeros_large_shifted_by_one W U w0 rest hW hU]
    cases h' : tzLargeShiftedByOne W (w0 :: rest) with
    | error e => simp [okOf, Except.map]
    | ok t =>
      have hb := tzLargeShiftedByOne_succ_le W hW w0 rest t h'
      have e : (rest.length + 2) * W = (rest.length + 1) * W + W := by
        rw [show rest.length + 2 = (rest.length + 1) + 1 from rfl, Nat.succ_mul]
      have hlt : t + 1 < 2 ^ U := by omega
      simp [okOf, Except.map, MachInt.add, hlt, pure]

/-- on an empty slice `words[0]` is out of bounds -/
theorem gen_trailing_ones_neg_large_empty (W U : Nat) : trailing_ones_neg_large W U [] = none := rfl

-- non-vacuity (64-bit words): even low word; odd low word with the scan ending inside word 0; scan running into word 2
example : trailing_ones_neg_large 64 64 [6, 0, 1] = some 0 ∧ trailing_ones_neg_large 64 64 [5, 0, 1] = some 2 ∧
    trailing_ones_neg_large 64 64 [1, 0, 8] = some 131 := by
  refine ⟨by decide, by decide, by decide⟩

end Dashu.Props.GenScans
