import Dashu.Proofs.Conv.ToFloatAlloc
import Dashu.Gen.ConvToFloat
/-
  C06 (round 8) — link theorem: the up-front allocation refusal of `Repr::to_float` (`AllocTooMuch` at digit shifts
  ≥ 2^64 − 64, until now transcribed in the driver) derived from the guarded kernels of the integer side
  (`Model/Int/PowGuard.lean`: `TRepr.shlChecked`, `ubigPowGuarded` — what the integer driver executes for `<<`'s
  allocation check and `u.pow`).  A separate file: importing `PowGuard` into `Props/C06.lean` would make `bitLen`
  ambiguous there (`Model.bitLen` / `Conv.bitLen`).  Audited from `Audit/C06.lean`.
-/
namespace Dashu.Props.C06
open Dashu.Model Dashu.Model.Conv

/-- `Repr::to_float` scales the stored numerator by `&numerator << shift` (`B == 2`) or `&numerator * base.pow(shift)`
    (`B != 2`, `base = UBig::from_word(B)`), `shift` = the regenerated `to_float_shift`.  The driver answers `AllocTooMuch`
    up front when `shift ≥ 2^64 − 64` (was: transcribed).  DERIVED here from the guarded kernels, 64-bit words:
    (1) `B = 2`: EVERY non-zero numerator representation: `TypedRepr << shift` is refused by `Buffer::allocate`;
    (2) every other driven base (3, 10, 16): `UBig::pow(base, shift)` is refused (16: checked `exp * 4`; 10: result buffer of
        `5.pow`; 3: result buffer of `3.pow`) — before the numerator is looked at;
    (3) the threshold is sharp: for the numerator 1, `1 << n` is NOT refused for `128 ≤ n < 2^64 − 64`
        (there the driver does not answer: FRONTIER "2^22 < shift < 2^64 − 64 not driven"). -/
theorem rbig_to_float_alloc_refusal_derived (nd dd p : Nat)
    (hsh : 2 ^ 64 - 64 ≤ Dashu.Gen.ConvToFloat.to_float_shift nd dd p) :
    (∀ r : TRepr, r ≠ .small 0 →
      r.shlChecked 64 (Dashu.Gen.ConvToFloat.to_float_shift nd dd p) = .error .allocTooMuch) ∧
    (∀ B : Nat, B = 3 ∨ B = 10 ∨ B = 16 →
      ubigPowGuarded 64 (.small B) (Dashu.Gen.ConvToFloat.to_float_shift nd dd p) = .error .allocTooMuch) ∧
    (∀ n : Nat, 128 ≤ n → n < 2 ^ 64 - 64 → (TRepr.small 1).shlChecked 64 n = .ok ((TRepr.small 1).shl 64 n)) :=
  ⟨fun r hr => shl_refused r hr _ hsh,
   fun B hB => by
     rcases hB with h | h | h <;> subst h
     · exact pow_refused_3 _ hsh
     · exact pow_refused_10 _ hsh
     · exact pow_refused_16 _ hsh,
   shl_one_not_refused⟩

-- non-vacuity: a saturated digit sum (precision usize::MAX), the exact threshold (precision 2^64 − 65, one denominator
-- digit), a non-zero heap numerator
example : 2 ^ 64 - 64 ≤ Dashu.Gen.ConvToFloat.to_float_shift 3 2 (2 ^ 64 - 1) ∧
    Dashu.Gen.ConvToFloat.to_float_shift 0 1 (2 ^ 64 - 65) = 2 ^ 64 - 64 ∧
    (TRepr.large [0, 0, 1]) ≠ TRepr.small 0 := by decide +kernel

end Dashu.Props.C06
