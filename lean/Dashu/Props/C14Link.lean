import Dashu.Props.C14
import Dashu.Props.C05
import Dashu.Model.Cross.IntOrd
/-
  C14 ↔ C05: `Ord for UBig / IBig` (and the `AbsOrd` / `AbsEq` impls of integer/src/cmp.rs) inside the
  cross-type comparison tables.  `Model/Cross/Ord.lean` writes those comparisons as `compare` on the
  values; here each of them is proved equal — for every word size — to C05's mirrored
  `integer/src/cmp.rs` (`cmp_same_len`, `cmp_in_place`, `Ord for TypedReprRef`, `Ord for IBig`) run
  on the canonical representations (`Model/Cross/IntOrd.lean`, what the driver executes), by composing
  with C05's proved `ubig_cmp` / `ibig_cmp`.  Kept apart from `Props/C14.lean` because it imports
  another group's proofs.
-/
namespace Dashu.Props.C14Link
open Dashu.Model Dashu.Model.Cross

-- ------------------------------------------------------------------ the kernels

/-- `Ord for UBig` (mirrored, on the canonical representation) is `compare` on the values -/
theorem ubig_ord_mirrored (W : Nat) (hW : 1 ≤ W) (a b : Nat) : ubigOrdW W a b = compare a b := by
  unfold ubigOrdW
  rw [Dashu.Props.C05.ubig_cmp W _ _ (ofNat_canon W hW a) (ofNat_canon W hW b), ofNat_value W hW,
    ofNat_value W hW]

/-- `Ord for IBig` (mirrored) is `compare` on the values -/
theorem ibig_ord_mirrored (W : Nat) (hW : 1 ≤ W) (a b : Int) : ibigOrdW W a b = compare a b := by
  unfold ibigOrdW
  rw [Dashu.Props.C05.ibig_cmp W _ _ (sOfInt_spec W hW a).1 (sOfInt_spec W hW b).1,
    (sOfInt_spec W hW a).2, (sOfInt_spec W hW b).2]

/-- for ANY canonical representations (not only the ones the driver builds): the `compare` of the
    cross model is what the mirrored `Ord for IBig` returns on them -/
theorem ibig_ord_any_repr (W : Nat) (a b : SRepr) (ha : SCanon W a) (hb : SCanon W b) :
    compare (a.value W) (b.value W) = a.cmp b := (Dashu.Props.C05.ibig_cmp W a b ha hb).symm
theorem ubig_ord_any_repr (W : Nat) (a b : TRepr) (ha : a.Canon W) (hb : b.Canon W) :
    compare (a.value W) (b.value W) = a.cmp b := (Dashu.Props.C05.ubig_cmp W a b ha hb).symm

theorem sOfInt_mag (W : Nat) (a : Int) : (sOfInt W a).mag = ofNat W a.natAbs := rfl
theorem sOfInt_neg (W : Nat) (a : Int) : (sOfInt W a).neg = decide (a < 0) := rfl

/-- `AbsOrd` of integer/src/cmp.rs (all four impls) is `compare` on the magnitudes -/
theorem int_abs_ord_mirrored (W : Nat) (hW : 1 ≤ W) (a b : Int) :
    intAbsOrdW W a b = compare a.natAbs b.natAbs := by
  unfold intAbsOrdW
  rw [sOfInt_mag, sOfInt_mag]
  exact ubig_ord_mirrored W hW _ _

/-- `AbsEq` of integer/src/cmp.rs (slice equality) decides equality of the magnitudes -/
theorem int_abs_eq_mirrored (W : Nat) (hW : 1 ≤ W) (a b : Int) :
    intAbsEqW W a b = (a.natAbs == b.natAbs) := by
  unfold intAbsEqW
  rw [sOfInt_mag, sOfInt_mag]
  have h := SRepr.beq_iff W ⟨false, ofNat W a.natAbs⟩ ⟨false, ofNat W b.natAbs⟩
    ⟨ofNat_canon W hW _, by simp⟩ ⟨ofNat_canon W hW _, by simp⟩
  simp only [SRepr.beq, SRepr.value, ofNat_value W hW, beq_self_eq_true, Bool.true_and,
    Bool.false_eq_true, if_false] at h
  by_cases hab : a.natAbs = b.natAbs
  · rw [hab]; simp
  · have : ((ofNat W a.natAbs).words W == (ofNat W b.natAbs).words W) = false := by
      cases hc : ((ofNat W a.natAbs).words W == (ofNat W b.natAbs).words W) with
      | false => rfl
      | true => exact absurd (by have := h.1 hc; omega) hab
    rw [this]; simp [hab]

theorem ubig_cmp_ibig_mirrored (W : Nat) (hW : 1 ≤ W) (x : Nat) (y : Int) :
    ubigCmpIbigW W x y = ubigCmpIbig x y := by
  unfold ubigCmpIbigW ubigCmpIbig
  simp only [sOfInt_neg, sOfInt_mag]
  by_cases h : y < 0
  · simp [h, Sign.ofInt]
  · simp only [h, decide_false, Bool.false_eq_true, if_false, Sign.ofInt]
    exact ubig_ord_mirrored W hW _ _

theorem ibig_cmp_ubig_mirrored (W : Nat) (hW : 1 ≤ W) (x : Int) (y : Nat) :
    ibigCmpUbigW W x y = ibigCmpUbig x y := by
  unfold ibigCmpUbigW ibigCmpUbig
  simp only [sOfInt_neg, sOfInt_mag]
  by_cases h : x < 0
  · simp [h, Sign.ofInt]
  · simp only [h, decide_false, Bool.false_eq_true, if_false, Sign.ofInt]
    exact ubig_ord_mirrored W hW _ _

-- ------------------------------------------------------------------ the tables the driver runs

theorem numPartialCmpKW_eq (W : Nat) (hW : 1 ≤ W) (o : Oracle) (x y : Kind) :
    numPartialCmpKW W o x y = numPartialCmpK o x y := by
  cases x <;> cases y <;>
    simp [numPartialCmpKW, numPartialCmpK, ubig_ord_mirrored W hW, ibig_ord_mirrored W hW,
      ubig_cmp_ibig_mirrored W hW, ibig_cmp_ubig_mirrored W hW]

/-- what the driver executes for `num_partial_cmp` (integer pairs through the mirrored word-level
    `cmp`) IS the model of `Props/C14` -/
theorem num_partial_cmp_mirrored (W : Nat) (hW : 1 ≤ W) (o : Oracle) (x y : Num) :
    numPartialCmpW W o x y = numPartialCmp o x y := by
  unfold numPartialCmpW numPartialCmp
  rw [numPartialCmpKW_eq W hW]

theorem num_eq_mirrored (W : Nat) (hW : 1 ≤ W) (o : Oracle) (x y : Num) :
    numEqW W o x y = numEq o x y := by
  unfold numEqW numEq
  simp only [num_partial_cmp_mirrored W hW]
  cases x.kind <;> cases y.kind <;> rfl

theorem absCmpKW_eq (W : Nat) (hW : 1 ≤ W) (o : Oracle) (x y : Kind) :
    absCmpKW W o x y = absCmpK o x y := by
  cases x <;> cases y <;> simp [absCmpKW, absCmpK, int_abs_ord_mirrored W hW]

theorem abs_cmp_mirrored (W : Nat) (hW : 1 ≤ W) (o : Oracle) (x y : Num) :
    absCmpW W o x y = absCmp o x y := by
  unfold absCmpW absCmp
  rw [absCmpKW_eq W hW]

theorem ord_cmp_mirrored (W : Nat) (hW : 1 ≤ W) (o : Oracle) (x y : Num) :
    ordCmpW W o x y = ordCmp o x y := by
  cases x <;> cases y <;> simp [ordCmpW, ordCmp, ubig_ord_mirrored W hW, ibig_ord_mirrored W hW]

-- ------------------------------------------------------------------ the property clauses over the word-level code

/-- NumOrd over the whole table with the integer comparisons run by the mirrored `integer/src/cmp.rs`
    (no big-integer `Ord` used at its value): the order of the exact values, for every word size -/
theorem num_ord_exact_words (W : Nat) (hW : 1 ≤ W) {o : Oracle} (ho : o.Sound) (x y : Num)
    (wx : x.WF) (wy : y.WF) {r : Option Ordering} (h : numPartialCmpW W o x y = some r) :
    r = XVal.cmp x.value y.value :=
  Dashu.Props.C14.num_ord_exact ho x y wx wy (by rw [← num_partial_cmp_mirrored W hW]; exact h)

theorem abs_ord_exact_words (W : Nat) (hW : 1 ≤ W) {o : Oracle} (ho : o.Sound) (x y : Num)
    (wx : x.WF) (wy : y.WF) (px : x.PrecOK) (py : y.PrecOK) {r : Ordering}
    (h : absCmpW W o x y = some r) : some r = XVal.absCmp x.value y.value :=
  Dashu.Props.C14.abs_ord_exact ho x y wx wy px py (by rw [← abs_cmp_mirrored W hW]; exact h)

theorem ord_exact_words (W : Nat) (hW : 1 ≤ W) {o : Oracle} (ho : o.Sound) (x y : Num)
    (wx : x.WF) (wy : y.WF) (px : x.PrecOK) (py : y.PrecOK) {r : Ordering}
    (h : ordCmpW W o x y = some r) : some r = XVal.cmp x.value y.value :=
  Dashu.Props.C14.ord_exact ho x y wx wy px py (by rw [← ord_cmp_mirrored W hW]; exact h)

/-- every exact step of the float / rational comparison code ends in `Ord for IBig` (or `abs_cmp`) of
    two big integers `l`, `r` built by shifts and products; the model writes `compare l r` /
    `absCmpInt l r`: that IS the mirrored word-level comparison of C05 on their representations -/
theorem exact_step_is_mirrored_cmp (W : Nat) (hW : 1 ≤ W) (l r : Int) :
    compare l r = ibigOrdW W l r ∧ absCmpInt l r = intAbsOrdW W l r :=
  ⟨(ibig_ord_mirrored W hW l r).symm, (int_abs_ord_mirrored W hW l r).symm⟩

-- ------------------------------------------------------------------ non-vacuity

/-- 2^128 (heap, 3 words) against 2^128 - 1 (inline): the `RefLarge > RefSmall` shortcut; two heap
    values differing in the lowest word; signs -/
example : ubigOrdW 64 (2 ^ 128) (2 ^ 128 - 1) = .gt ∧ ubigOrdW 64 (2 ^ 130 + 5) (2 ^ 130 + 7) = .lt ∧
    ibigOrdW 64 (-(2 ^ 130) - 5) (-(2 ^ 130) - 7) = .gt ∧ intAbsOrdW 64 (-(2 ^ 64) - 5) (2 ^ 65 + 3) = .lt := by
  decide +kernel
example : numPartialCmpW 64 Oracle.coarse (.ubig (2 ^ 130 + 5)) (.ibig (2 ^ 130 + 7)) = some (some .lt) := by
  decide +kernel
example : (some .lt : Option Ordering) = XVal.cmp (Num.ubig (2 ^ 130 + 5)).value (Num.ibig (2 ^ 130 + 7)).value :=
  num_ord_exact_words 64 (by decide) Dashu.Props.C14.coarse_sound (.ubig (2 ^ 130 + 5)) (.ibig (2 ^ 130 + 7))
    trivial trivial (by decide +kernel)

end Dashu.Props.C14Link
