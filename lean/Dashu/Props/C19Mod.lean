import Dashu.Props.C13
/-
  C19 clause (1), word size — modular arithmetic (link to C13's homomorphism theorems, by import).

  A `ConstDivisor` for the same modulus `m` is a different object in a 64-bit-word and in a 32-bit-word
  build (single / double / multi-word ring kind, normalisation shift `k`, pre-shifted raw values all
  depend on `W`), but everything observable — `residue()` of reduce, `+ − · neg dbl sqr pow`, whether
  `inv` answers — is the same number, because C13 pins each of them to `Int` arithmetic modulo `m`.
-/
namespace Dashu.Props.C19
open Dashu.Model Dashu.Model.NT

private theorem nat_eq_of_cast {x y : Nat} {t : Int} (hx : (x : Int) = t) (hy : (y : Int) = t) : x = y :=
  Int.ofNat.inj (hx.trans hy.symm)

/-- `ConstDivisor::new(0)` panics in both builds -/
theorem word_size_independent_modular_new_zero (W₁ W₂ id₁ id₂ : Nat) (h₁ : 0 < W₁) (h₂ : 0 < W₂) :
    Ring.new W₁ id₁ 0 = .error .divideByZero ∧ Ring.new W₂ id₂ 0 = .error .divideByZero :=
  ⟨(C13.new_spec W₁ id₁ 0 h₁).1 rfl, (C13.new_spec W₂ id₂ 0 h₂).1 rfl⟩

/-- the rings two builds construct for one modulus `m ≠ 0` give the same residues for reduce, `+ − ·`, `neg`, `dbl`,
    `sqr`, `pow` (every exponent), and `inv` answers in one build iff it answers in the other -/
theorem word_size_independent_modular (W₁ W₂ id₁ id₂ m : Nat) (h₁ : 0 < W₁) (h₂ : 0 < W₂) (hm : m ≠ 0) :
    ∃ r₁ r₂, Ring.new W₁ id₁ m = .ok r₁ ∧ Ring.new W₂ id₂ m = .ok r₂ ∧ ∀ (a b : Int) (e : Nat),
      (reduceInt W₁ r₁ a).residue = (reduceInt W₂ r₂ a).residue ∧
      (∃ e₁ e₂, (reduceInt W₁ r₁ a).add (reduceInt W₁ r₁ b) = .ok e₁ ∧
                (reduceInt W₂ r₂ a).add (reduceInt W₂ r₂ b) = .ok e₂ ∧ e₁.residue = e₂.residue) ∧
      (∃ e₁ e₂, (reduceInt W₁ r₁ a).sub (reduceInt W₁ r₁ b) = .ok e₁ ∧
                (reduceInt W₂ r₂ a).sub (reduceInt W₂ r₂ b) = .ok e₂ ∧ e₁.residue = e₂.residue) ∧
      (∃ e₁ e₂, (reduceInt W₁ r₁ a).mul W₁ (reduceInt W₁ r₁ b) = .ok e₁ ∧
                (reduceInt W₂ r₂ a).mul W₂ (reduceInt W₂ r₂ b) = .ok e₂ ∧ e₁.residue = e₂.residue) ∧
      (reduceInt W₁ r₁ a).neg.residue = (reduceInt W₂ r₂ a).neg.residue ∧
      (reduceInt W₁ r₁ a).dbl.residue = (reduceInt W₂ r₂ a).dbl.residue ∧
      ((reduceInt W₁ r₁ a).sqr W₁).residue = ((reduceInt W₂ r₂ a).sqr W₂).residue ∧
      ((reduceInt W₁ r₁ a).pow W₁ e).residue = ((reduceInt W₂ r₂ a).pow W₂ e).residue ∧
      ((reduceInt W₁ r₁ a).inv.isSome ↔ (reduceInt W₂ r₂ a).inv.isSome) := by
  obtain ⟨r₁, n₁, m₁, -, wf₁⟩ := (C13.new_spec W₁ id₁ m h₁).2 hm
  obtain ⟨r₂, n₂, m₂, -, wf₂⟩ := (C13.new_spec W₂ id₂ m h₂).2 hm
  refine ⟨r₁, r₂, n₁, n₂, fun a b e => ⟨?_, ?_, ?_, ?_, ?_, ?_, ?_, ?_, ?_⟩⟩
  · have p := (C13.reduce_spec W₁ r₁ wf₁ a).2.1
    have q := (C13.reduce_spec W₂ r₂ wf₂ a).2.1
    rw [m₁] at p; rw [m₂] at q
    exact nat_eq_of_cast p q
  · obtain ⟨e₁, p, -, p'⟩ := C13.hom_add W₁ r₁ wf₁ a b
    obtain ⟨e₂, q, -, q'⟩ := C13.hom_add W₂ r₂ wf₂ a b
    rw [m₁] at p'; rw [m₂] at q'
    exact ⟨e₁, e₂, p, q, nat_eq_of_cast p' q'⟩
  · obtain ⟨e₁, p, -, p'⟩ := C13.hom_sub W₁ r₁ wf₁ a b
    obtain ⟨e₂, q, -, q'⟩ := C13.hom_sub W₂ r₂ wf₂ a b
    rw [m₁] at p'; rw [m₂] at q'
    exact ⟨e₁, e₂, p, q, nat_eq_of_cast p' q'⟩
  · obtain ⟨e₁, p, -, p'⟩ := C13.hom_mul W₁ r₁ wf₁ a b
    obtain ⟨e₂, q, -, q'⟩ := C13.hom_mul W₂ r₂ wf₂ a b
    rw [m₁] at p'; rw [m₂] at q'
    exact ⟨e₁, e₂, p, q, nat_eq_of_cast p' q'⟩
  · have p := (C13.hom_neg W₁ r₁ wf₁ a).2
    have q := (C13.hom_neg W₂ r₂ wf₂ a).2
    rw [m₁] at p; rw [m₂] at q
    exact nat_eq_of_cast p q
  · have p := (C13.hom_dbl W₁ r₁ wf₁ a).2
    have q := (C13.hom_dbl W₂ r₂ wf₂ a).2
    rw [m₁] at p; rw [m₂] at q
    exact nat_eq_of_cast p q
  · have p := (C13.hom_sqr W₁ r₁ wf₁ a).2
    have q := (C13.hom_sqr W₂ r₂ wf₂ a).2
    rw [m₁] at p; rw [m₂] at q
    exact nat_eq_of_cast p q
  · have p := (C13.hom_pow W₁ r₁ wf₁ a e).2
    have q := (C13.hom_pow W₂ r₂ wf₂ a e).2
    rw [m₁] at p; rw [m₂] at q
    exact nat_eq_of_cast p q
  · have p := (C13.inv_spec W₁ r₁ wf₁ a).1
    have q := (C13.inv_spec W₂ r₂ wf₂ a).1
    rw [m₁] at p; rw [m₂] at q
    exact p.trans q.symm

/-- non-vacuity: one 3-word (W = 64) / 6-word (W = 32) modulus; the two rings differ, the residues agree -/
example : ∃ r₁ r₂, Ring.new 64 0 (2 ^ 190 + 7) = .ok r₁ ∧ Ring.new 32 0 (2 ^ 190 + 7) = .ok r₂ ∧ r₁ ≠ r₂ ∧
    ((reduceInt 64 r₁ 3).pow 64 21).residue = ((reduceInt 32 r₂ 3).pow 32 21).residue :=
  ⟨_, _, rfl, rfl, by decide +kernel, by decide +kernel⟩

/-- … and a modulus that is a single word in one build and a double word in the other -/
example : ∃ r₁ r₂, Ring.new 64 0 (2 ^ 40 + 15) = .ok r₁ ∧ Ring.new 32 0 (2 ^ 40 + 15) = .ok r₂ ∧
    r₁.kind = .single ∧ r₂.kind = .double :=
  ⟨_, _, rfl, rfl, by decide +kernel, by decide +kernel⟩

end Dashu.Props.C19
