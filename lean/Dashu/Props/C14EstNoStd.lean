import Dashu.Props.C14
import Dashu.Proofs.Cross.EstNoStd
/-
  C14 — the enclosure hypothesis `Oracle.Sound` (the only assumption of every `Props/C14` theorem about the
  f32 estimators) PROVED for the no_std table path of the integer and rational estimators
  (`Model/Cross/EstNoStd.lean`: base/src/math/log.rs no_std impls, integer/src/log.rs
  `log2_bounds_large`, rational/src/repr.rs `log2_bounds`).

  * No assumption about libm: the table part is builder-nt's `log2_fp8_sound`, `log2_wide_sound`,
    `log2_u8_sound` (all inputs), the literal for 3 is checked by `decide +kernel` on 13-Mbit powers.
  * The three binary32 operations are parameters; what is assumed about them is `F32.Ax` (IEEE-754 facts,
    listed there), satisfiable (`exact_arithmetic_meets_ax`).
  * What is NOT covered: the std path (libm `log2f`), and `Repr<B>::log2_bounds` of the float crate, whose
    bounds are computed in `f64` and cast to `f32` before the outward step: that needs a grid-level model
    of binary32/binary64 (double rounding), not the relative-error facts used here.
  Kept apart from `Props/C14.lean` because it imports another group's proofs (builder-nt).
-/
namespace Dashu.Props.C14EstNoStd
open Dashu.Model.Cross Dashu.Model.Cross.EstNoStd

/-- `u8` (table on `i^4` / `i^2`, literal for 3, exact powers of two) -/
theorem u8_encloses {F : F32} (hF : F.Ax) (i : Nat) (hi : i < 256) : Encl (i : ℝ) (u8NoStd F i) :=
  u8NoStd_sound hF i hi

/-- `u16 … u128`, `usize` (no_std): top-16-bit table estimate plus the shift, stepped outward — every `x` -/
theorem prim_encloses {F : F32} (hF : F.Ax) (x : Nat) : Encl (x : ℝ) (primNoStd F x) :=
  primNoStd_sound hF x

/-- integer/src/log.rs `log2_bounds_large`: every value of at least three words (`W ≥ 32`) -/
theorem large_encloses {F : F32} (hF : F.Ax) (W x : Nat) (hW : 32 ≤ W) (hx : 2 ^ (2 * W) ≤ x) :
    Encl (x : ℝ) (largeNoStd F W x) :=
  largeNoStd_sound hF W x hW hx

/-- `UBig::log2_bounds` / `IBig::log2_bounds` (no_std): the `nat` field of the enclosure hypothesis -/
theorem nat_encloses {F : F32} (hF : F.Ax) (W : Nat) (hW : 32 ≤ W) (x : Nat) :
    Encl (x : ℝ) (natNoStd F W x) :=
  natNoStd_sound hF W hW x

/-- rational `Repr::log2_bounds` (no_std): the `rat` field of the enclosure hypothesis -/
theorem rat_encloses {F : F32} (hF : F.Ax) (W : Nat) (hW : 32 ≤ W) (n : Int) (d : Nat) (hd : 0 < d) :
    Encl (ratMag n d) (ratNoStd F W n d) :=
  ratNoStd_sound hF W hW n d hd

/-- the hypothesis of every `Props/C14` theorem, with the integer and rational estimators discharged -/
theorem oracle_sound_of_float_part {F : F32} (hF : F.Ax) (W : Nat) (hW : 32 ≤ W)
    (flt : Nat → Int → Int → EB × EB) (dub : Nat → Int → Nat)
    (hflt : ∀ (B : Nat) (s e : Int), 2 ≤ B → Encl (fltMag B s e) (flt B s e))
    (hdub : ∀ (B : Nat) (s : Int), 2 ≤ B → s.natAbs < B ^ dub B s) :
    ({ nat := natNoStd F W, flt := flt, rat := ratNoStd F W, digitsUb := dub } : Oracle).Sound :=
  noStd_oracle_sound hF W hW flt dub hflt hdub

/-- `F32.Ax` is satisfiable (exact arithmetic) … -/
theorem exact_arithmetic_meets_ax : F32.exact.Ax := exact_ax

/-- … and the executable instance the driver runs as its third oracle is sound, hence every
    `Props/C14` theorem applies to the lines it prints -/
theorem table_oracle_sound (W : Nat) (hW : 32 ≤ W) : (noStdExactOracle W).Sound :=
  noStdExactOracle_sound W hW

/-- NumOrd with the table path deciding the filter = the order of the exact values -/
theorem num_ord_exact_table_path (W : Nat) (hW : 32 ≤ W) (x y : Num) (wx : x.WF) (wy : y.WF)
    {r : Option Ordering} (h : numPartialCmp (noStdExactOracle W) x y = some r) :
    r = XVal.cmp x.value y.value :=
  Dashu.Props.C14.num_ord_exact (table_oracle_sound W hW) x y wx wy h

/-- the multiplicative widening of `log2_bounds_large` is needed and sufficient only from 32-bit words on:
    with 16-bit words `2^32 + 2^16 − 1` (top double word `2^16`, an exact power of two) has
    `log₂ > 32·(1 + 2^-22)·(1 + 2^-24)^3` — the hypothesis `32 ≤ W` is not an artefact -/
example : (2 : ℚ) ^ 32 * (1 + 1 / 2 ^ 17) < 2 ^ 32 + 2 ^ 16 - 1 := by norm_num

/-- non-vacuity: a three-word value and its shape -/
example : (2 : Nat) ^ (2 * 64) ≤ 2 ^ 130 + 12345 ∧ wordLen 64 (2 ^ 130 + 12345) = 3 := by decide +kernel

end Dashu.Props.C14EstNoStd
