import Dashu.Proofs.Serde.NumW
import Dashu.Proofs.Serde.Num
/-
  C19 clause (3), word level: "serialized forms … are identical across word sizes".

  `Model/Serde/NumW.lean` mirrors the binary arms of the serde impls of dashu-int / dashu-ratio /
  dashu-float with the word size `W` of the build as a parameter — the payload is C07's word-level
  `words_to_le_bytes::<false>` on `as_words()`, decoding is `from_le_bytes` of that word size, `RBig`'s
  `reduce` runs C12's mirrored gcd and C02's mirrored division.  These are the definitions the driver
  executes for the ops `sd.* pc` / `de.* pc` at W = 64 and W = 32.  The theorems say that for EVERY
  word size that is a multiple of 8 they are the `W`-free encoders / decoders of `Model/Serde/Num.lean`
  (about which `Props/C19.lean` proves round trip and canonicity): hence any two builds write the
  same bytes for the same number and read the same number from the same bytes — for all six types.
-/
namespace Dashu.Props.C19
open Dashu.Model Dashu.Model.Serde

/-- UBig / IBig / RBig / Relaxed / Repr<B> / FBig<R,B>: the bytes written by a build with `W`-bit words
    are the `W`-free encoding of the value -/
theorem binary_encoders_word_size_free (W : Nat) (h8 : 8 ∣ W) (hW : 8 ≤ W) :
    (∀ n : Nat, encUW W n = encU n) ∧ (∀ z : Int, encIW W z = encI z) ∧
    (∀ q : QVal, encQW W q = encQ q) ∧ (∀ v : FVal, encRW W v = encR v) ∧ (∀ v : FPVal, encFW W v = encF v) :=
  ⟨encUW_eq W h8 hW, encIW_eq W h8 hW, encQW_eq W h8 hW, encRW_eq W h8 hW, encFW_eq W h8 hW⟩

/-- … and what a build with `W`-bit words reads from ARBITRARY bytes (value, rest of the stream, or
    error) is what the `W`-free decoder reads: in particular `RBig`'s `reduce` over the mirrored Lehmer
    gcd and the mirrored multi-word division returns the fraction in lowest terms -/
theorem binary_decoders_word_size_free (W : Nat) (h8 : 8 ∣ W) (hW : 8 ≤ W) (s : Bytes) :
    decUW W s = decU s ∧ decIW W s = decI s ∧ decQW W s = decQ s ∧ decXW W s = decX s ∧
    (∀ B : Nat, decRW W B s = decR B s) ∧ (∀ B : Nat, decFW W B s = decF B s) :=
  ⟨decUW_eq W h8 hW s, decIW_eq W h8 hW s, decQW_eq W h8 hW s, decXW_eq W h8 hW s,
   fun B => decRW_eq W B h8 hW s, fun B => decFW_eq W B h8 hW s⟩

/-- the statement of the property text: two builds (any two word sizes that are multiples of 8, e.g. 64
    and 32) write identical byte forms of RBig and FBig values, and decode identically -/
theorem rbig_fbig_binary_word_size_independent (W₁ W₂ : Nat) (h₁ : 8 ∣ W₁) (h₂ : 8 ∣ W₂) (l₁ : 8 ≤ W₁) (l₂ : 8 ≤ W₂) :
    (∀ q : QVal, encQW W₁ q = encQW W₂ q) ∧ (∀ v : FVal, encRW W₁ v = encRW W₂ v) ∧
    (∀ v : FPVal, encFW W₁ v = encFW W₂ v) ∧
    (∀ s : Bytes, decQW W₁ s = decQW W₂ s ∧ decXW W₁ s = decXW W₂ s) ∧
    (∀ (B : Nat) (s : Bytes), decRW W₁ B s = decRW W₂ B s ∧ decFW W₁ B s = decFW W₂ B s) := by
  refine ⟨fun q => ?_, fun v => ?_, fun v => ?_, fun s => ⟨?_, ?_⟩, fun B s => ⟨?_, ?_⟩⟩
  · rw [encQW_eq W₁ h₁ l₁, encQW_eq W₂ h₂ l₂]
  · rw [encRW_eq W₁ h₁ l₁, encRW_eq W₂ h₂ l₂]
  · rw [encFW_eq W₁ h₁ l₁, encFW_eq W₂ h₂ l₂]
  · rw [decQW_eq W₁ h₁ l₁, decQW_eq W₂ h₂ l₂]
  · rw [decXW_eq W₁ h₁ l₁, decXW_eq W₂ h₂ l₂]
  · rw [decRW_eq W₁ B h₁ l₁, decRW_eq W₂ B h₂ l₂]
  · rw [decFW_eq W₁ B h₁ l₁, decFW_eq W₂ B h₂ l₂]

/-- the hypotheses are met by the two word sizes the builds use, on a non-trivial value: −6/4 is stored
    reduced as −3/2; numerator payload `03` (odd length ⇒ negative), denominator payload `02` -/
example : (8 ∣ 64 ∧ 8 ∣ 32 ∧ 8 ≤ 64 ∧ 8 ≤ 32) ∧
    encQW 64 ⟨-3, 2⟩ = [1, 3, 1, 2] ∧ encQW 32 ⟨-3, 2⟩ = [1, 3, 1, 2] ∧
    decQW 64 [1, 6, 1, 4] = some (⟨-3, 2⟩, []) ∧ decQW 32 [1, 6, 1, 4] = some (⟨-3, 2⟩, []) := by
  have h3 : leBytes 3 = [3] := by simp [leBytes]
  have h2 : leBytes 2 = [2] := by simp [leBytes]
  have e : encQ ⟨-3, 2⟩ = [1, 3, 1, 2] := by
    simp [encQ, encI, encU, ibigPayload, h3, h2, pcBytes, varintEnc]
  refine ⟨by decide, ?_, ?_, ?_, ?_⟩
  · rw [encQW_eq 64 (by decide) (by decide), e]
  · rw [encQW_eq 32 (by decide) (by decide), e]
  · rw [decQW_eq 64 (by decide) (by decide)]; decide
  · rw [decQW_eq 32 (by decide) (by decide)]; decide

/-- word-level round trip: a build with `W₂`-bit words reads back exactly the reduced fraction that a build
    with `W₁`-bit words wrote (composition with `rbig_binary_round_trip`) -/
theorem rbig_binary_cross_word_size_round_trip (W₁ W₂ : Nat) (h₁ : 8 ∣ W₁) (h₂ : 8 ∣ W₂) (l₁ : 8 ≤ W₁) (l₂ : 8 ≤ W₂)
    (q : QVal) (rest : Bytes) (hq : QReduced q)
    (hn : (ibigPayload q.num).length < 2 ^ 64) (hd : (leBytes q.den).length < 2 ^ 64) :
    decQW W₂ (encQW W₁ q ++ rest) = some (q, rest) := by
  rw [decQW_eq W₂ h₂ l₂, encQW_eq W₁ h₁ l₁]; exact decQ_encQ q rest hq hn hd

/-- … and the same for `FBig<R,B>` (representation and precision) -/
theorem fbig_binary_cross_word_size_round_trip (W₁ W₂ B : Nat) (h₁ : 8 ∣ W₁) (h₂ : 8 ∣ W₂) (l₁ : 8 ≤ W₁) (l₂ : 8 ≤ W₂)
    (v : FPVal) (rest : Bytes) (hv : FPCanon B v)
    (h1 : (ibigPayload v.signif).length < 2 ^ 64) (hp : v.prec < 2 ^ 64) :
    decFW W₂ B (encFW W₁ v ++ rest) = some (v, rest) := by
  rw [decFW_eq W₂ B h₂ l₂, encFW_eq W₁ h₁ l₁]; exact decF_encF B v rest hv h1 hp

example : FPCanon 10 ⟨-1234, -2, 7⟩ ∧ (ibigPayload (-1234)).length < 2 ^ 64 := by
  have h : leBytes 1234 = [210, 4] := by simp [leBytes]
  have hd : ndigits 10 (-1234) = 4 := by simp [ndigits, Dashu.Model.Text.digits, Dashu.Model.Text.digitsAux]
  refine ⟨⟨⟨by decide, by decide, by decide⟩, Or.inr (by show ndigits 10 (-1234) ≤ 7; omega)⟩, ?_⟩
  simp [ibigPayload, h]

end Dashu.Props.C19
