import Dashu.Proofs.Trans.CertFloat
import Dashu.Props.C11
/-
  C11 — certificates for operands whose exponent is too large to write the value down as a rational
  (`powf` of a tiny or huge base such as `(1.5·2^-1048576)^0.75`, `ln` of such a number): the operand stays a
  float `sig·B^ex`, `log (sig·B^ex) = log sig + ex·log B` is enclosed without forming `B^ex`.
  Same conclusion `Ok` as the certificate theorems of `Props/C11.lean`.
-/
namespace Dashu.Props.C11Float
open Dashu.Model.Trans Dashu.Props.C11

theorem checkedPowfFloatScaled_sound (B : ℕ) (hB : 0 < B) (sig ex : ℤ) (hs : 0 < sig) (y : ℚ) (rsig e : ℤ) (p : ℕ)
    (exact : Bool) (fuel n0 : ℕ) :
    ((certPowfFloatScaled B sig ex y rsig e p exact fuel n0).1 = .certified →
        Ok B rsig e p exact (((sig : ℝ) * (B : ℝ) ^ ex) ^ (y : ℝ))) ∧
    ((certPowfFloatScaled B sig ex y rsig e p exact fuel n0).1 = .violation →
        ¬ Ok B rsig e p exact (((sig : ℝ) * (B : ℝ) ^ ex) ^ (y : ℝ))) := by
  have hB' : (0 : ℝ) < (B : ℝ) := by exact_mod_cast hB
  have hs' : (0 : ℝ) < (sig : ℝ) := by exact_mod_cast hs
  have hx : (0 : ℝ) < (sig : ℝ) * (B : ℝ) ^ ex := mul_pos hs' (zpow_pos hB' ex)
  unfold certPowfFloatScaled
  split_ifs with hbig
  · refine ⟨(by intro h; cases h), fun _ hw => ?_⟩
    have hv := tooBig_violation _ _
      (subLogs_sound B hB _ _ (scaleRat_sound y _ _ (lnFloatEncl_encloses B hB sig ex hs (64 + magBits y + 3))) e 64)
      _ _ exact hbig
    rw [exp_sub_int_mul_log B hB, mul_comm, ← Real.rpow_def_of_pos hx] at hv
    exact hv (scaled_of_within B hB rsig e p exact _ hw)
  · obtain ⟨h1, h2⟩ := refine_sound (powfFloatScaledEncl B sig ex y e) (rsig : ℚ) (ulpScaled B rsig p) exact _
      (powfFloatScaledEncl_encloses B hB sig ex hs y e) fuel n0
    exact ⟨fun h => within_of_scaled B hB rsig e p exact _ (h1 h),
      fun h hw => h2 h (scaled_of_within B hB rsig e p exact _ hw)⟩

theorem checkedLnFloat_sound (B : ℕ) (hB : 0 < B) (sig ex : ℤ) (hs : 0 < sig) (rsig e : ℤ) (p : ℕ) (exact : Bool)
    (fuel n0 : ℕ) :
    ((certLnFloat B sig ex rsig e p exact fuel n0).1 = .certified →
        Ok B rsig e p exact (Real.log ((sig : ℝ) * (B : ℝ) ^ ex))) ∧
    ((certLnFloat B sig ex rsig e p exact fuel n0).1 = .violation →
        ¬ Ok B rsig e p exact (Real.log ((sig : ℝ) * (B : ℝ) ^ ex))) :=
  refine_sound _ _ _ _ _ (lnFloatEncl_encloses B hB sig ex hs) fuel n0

/-! non-vacuity: `ln (3·10^1000) = 2303.6837…`; 6 digits: `230368·10⁻²` is certified, `230370·10⁻²` refuted -/
example : (certLnFloat 10 3 1000 230368 (-2) 6 false 9 40).1 = .certified := by decide +kernel
example : (certLnFloat 10 3 1000 230370 (-2) 6 false 9 40).1 = .violation := by decide +kernel

end Dashu.Props.C11Float
