import Dashu.Gen.MathHelpers
import Dashu.Proofs.Int.Bits
/-
  C09, Tie A over `integer/src/math.rs`.  The definitions of `Dashu.Gen.MathHelpers` are REGENERATED from
  the Rust text on every run (`vlib/extract.py`, `gen_math_helpers`), over checked machine-integer
  operations (`none` = the Rust operation overflows).  Each theorem says: on the stated domain no
  operation of the body overflows, the result is the specification, and it is the definition the
  hand-written bit model (`Dashu/Model/Int/Bits.lean`) uses in its place.
-/
namespace Dashu.Props.GenMath
open Dashu.Model Dashu.GluePrelude Dashu.Gen.MathHelpers

theorem bitLength_eq (x : Nat) : MachInt.bitLength x = bitLenNat x := rfl

/-- `math::bit_len(x) = BITS − leading_zeros(x)` never underflows and is the bit length:
    `0` for `0`, otherwise the `k` with `2^(k-1) ≤ x < 2^k`. -/
theorem gen_bit_len (bits x : Nat) (hx : x < 2 ^ bits) :
    bit_len bits x = some (bitLenNat x) ∧ x < 2 ^ bitLenNat x ∧ (x ≠ 0 → 2 ^ (bitLenNat x - 1) ≤ x) := by
  have hle := bitLenNat_le x bits hx
  refine ⟨?_, (bitLenNat_spec x).1, (bitLenNat_spec x).2⟩
  have hlz : MachInt.leading_zeros bits x = bits - bitLenNat x := rfl
  have h1 : MachInt.leading_zeros bits x ≤ bits := by rw [hlz]; exact Nat.sub_le _ _
  simp only [bit_len, MachInt.sub, if_pos h1, bind, Option.bind, pure]
  rw [hlz]; congr 1; omega

/-- `math::ceil_log2(x)`, `x ≠ 0`: no underflow in `x − 1`, and the result `k` is the least with `x ≤ 2^k`. -/
theorem gen_ceil_log2 (bits x : Nat) (hx : x < 2 ^ bits) (h0 : x ≠ 0) :
    ceil_log2 bits x = some (bitLenNat (x - 1)) ∧ x ≤ 2 ^ bitLenNat (x - 1) ∧
    (bitLenNat (x - 1) ≠ 0 → 2 ^ (bitLenNat (x - 1) - 1) < x) := by
  have hx1 : x - 1 < 2 ^ bits := by omega
  have hs := bitLenNat_spec (x - 1)
  refine ⟨?_, by omega, fun hk => ?_⟩
  · have h1 : 1 ≤ x := by omega
    simp only [ceil_log2, MachInt.sub, bind, Option.bind, if_pos h1, (gen_bit_len bits (x - 1) hx1).1, pure]
  · have : x - 1 ≠ 0 := by
      intro h; apply hk; rw [h]; rfl
    have := hs.2 this
    omega

theorem ceilDiv_pos_eq (a b : Nat) (ha : a ≠ 0) : ceilDiv a b = (a - 1) / b + 1 := by
  unfold ceilDiv; rw [if_neg ha]

/-- the hand model's `ceilDiv` is the ceiling of `a / b` -/
theorem ceilDiv_spec (a b : Nat) (hb : 0 < b) :
    ceilDiv a b = (a + b - 1) / b ∧ (∀ q, ceilDiv a b ≤ q ↔ a ≤ q * b) := by
  by_cases ha : a = 0
  · subst ha
    refine ⟨?_, fun q => ?_⟩
    · unfold ceilDiv; simp only [if_true]
      rw [Nat.zero_add]; exact (Nat.div_eq_of_lt (by omega)).symm
    · unfold ceilDiv; simp
  · rw [ceilDiv_pos_eq a b ha]
    refine ⟨?_, fun q => ?_⟩
    · have : a + b - 1 = (a - 1) + b := by omega
      rw [this, Nat.add_div_right _ hb]
    · have h := Nat.div_lt_iff_lt_mul (x := a - 1) (y := q) hb
      constructor
      · intro hq
        have : (a - 1) / b < q := by omega
        have := h.1 this
        omega
      · intro hq
        have : a - 1 < q * b := by omega
        have := h.2 this
        omega

theorem ceilDiv_le_self (a b : Nat) (hb : 0 < b) : ceilDiv a b ≤ a := by
  rw [(ceilDiv_spec a b hb).2 a]
  exact Nat.le_mul_of_pos_right a hb

/-- **`math::ceil_div(a, b)`** (`b ≠ 0`): for EVERY `a` of the type — in particular `a` within `b − 1` of the type
    maximum — no operation of the body overflows, and the result is `⌈a / b⌉`, the value the hand model's
    `ceilDiv` computes.  (The "textbook" body `(a + (b − 1)) / b` does not satisfy this statement.) -/
theorem gen_ceil_div (bits a b : Nat) (ha : a < 2 ^ bits) (hb : 0 < b) :
    ceil_div bits a b = some (ceilDiv a b) := by
  by_cases h0 : a = 0
  · subst h0; simp [ceil_div, ceilDiv]
  · have hle := ceilDiv_le_self a b hb
    rw [ceilDiv_pos_eq a b h0] at hle ⊢
    have hbeq : (a == 0) = false := by simp [h0]
    -- written so that a commuted `+` or `1 + …` in the source keeps the proof: each checked operation's side condition is
    -- discharged by `omega` whatever its syntactic form
    simp only [ceil_div, hbeq, MachInt.sub, MachInt.div, MachInt.add, bind, Option.bind, pure, Bool.false_eq_true, if_false]
    rw [if_pos (by omega)]; simp only []
    rw [if_neg (by omega)]; simp only []
    rw [if_pos (by omega)]
    all_goals (first | rfl | (congr 1; omega))

/-- `math::ceil_div_usize`: the `const fn` twin, proved from its own regenerated text -/
theorem gen_ceil_div_usize (U a b : Nat) (ha : a < 2 ^ U) (hb : 0 < b) :
    ceil_div_usize U a b = some (ceilDiv a b) := by
  by_cases h0 : a = 0
  · subst h0; simp [ceil_div_usize, ceilDiv]
  · have hle := ceilDiv_le_self a b hb
    rw [ceilDiv_pos_eq a b h0] at hle ⊢
    have hbeq : (a == 0) = false := by simp [h0]
    -- written so that a commuted `+` or `1 + …` in the source keeps the proof: each checked operation's side condition is
    -- discharged by `omega` whatever its syntactic form
    simp only [ceil_div_usize, hbeq, MachInt.sub, MachInt.div, MachInt.add, bind, Option.bind, pure, Bool.false_eq_true, if_false]
    rw [if_pos (by omega)]; simp only []
    rw [if_neg (by omega)]; simp only []
    rw [if_pos (by omega)]
    all_goals (first | rfl | (congr 1; omega))

/-- `math::round_up(a, b)`: the least multiple of `b` that is `≥ a`, and it overflows exactly when that multiple
    does not fit the type (only the final multiplication can overflow). -/
theorem gen_round_up (bits a b : Nat) (ha : a < 2 ^ bits) (hb : 0 < b) :
    round_up bits a b = (if ceilDiv a b * b < 2 ^ bits then some (ceilDiv a b * b) else none) ∧
    a ≤ ceilDiv a b * b ∧ ceilDiv a b * b < a + b ∧ (∀ m, a ≤ m * b → ceilDiv a b * b ≤ m * b) := by
  have hs := ceilDiv_spec a b hb
  refine ⟨?_, (hs.2 _).1 (Nat.le_refl _), ?_, fun m hm => Nat.mul_le_mul_right b ((hs.2 m).2 hm)⟩
  · simp only [round_up, gen_ceil_div bits a b ha hb, MachInt.mul, bind, Option.bind, pure]
  · by_cases h0 : a = 0
    · subst h0; simp [ceilDiv]; exact hb
    · rw [ceilDiv_pos_eq a b h0, Nat.add_mul, Nat.one_mul]
      have := Nat.div_mul_le_self (a - 1) b
      omega

/-- `math::round_up_usize` (it sizes the `DigitWriter` buffer at compile time) -/
theorem gen_round_up_usize (U a b : Nat) (ha : a < 2 ^ U) (hb : 0 < b) :
    round_up_usize U a b = (if ceilDiv a b * b < 2 ^ U then some (ceilDiv a b * b) else none) := by
  simp only [round_up_usize, gen_ceil_div_usize U a b ha hb, MachInt.mul, bind, Option.bind]

/-- all-ones shifted down: `(2^w − 1) >> (w − n) = 2^n − 1` -/
theorem maxVal_shr (w n : Nat) (hn : n ≤ w) : (2 ^ w - 1) / 2 ^ (w - n) = 2 ^ n - 1 := by
  have hw : 2 ^ w = 2 ^ n * 2 ^ (w - n) := by rw [← Nat.pow_add]; congr 1; omega
  have hp : 0 < 2 ^ (w - n) := Nat.two_pow_pos _
  have hq : 0 < 2 ^ n := Nat.two_pow_pos _
  obtain ⟨q, hq'⟩ : ∃ q, 2 ^ n = q + 1 := ⟨2 ^ n - 1, by omega⟩
  rw [hw, hq', Nat.add_sub_cancel]
  apply Nat.div_eq_of_lt_le
  · rw [Nat.add_mul, Nat.one_mul]; omega
  · rw [Nat.add_mul, Nat.one_mul]; omega

/-- **`math::ones_word(n)`**, `n ≤ WORD_BITS`: neither `BIT_SIZE − n` nor the shift overflows (the `n == 0` arm is what
    keeps the shift amount below the width) and the result is `2^n − 1`: exactly bits `0..n−1` set.  It is the `onesN`
    of the hand model. -/
theorem gen_ones_word (W n : Nat) (hn : n ≤ W) :
    ones_word W n = some (onesN n) ∧ (∀ i, (onesN n).testBit i = decide (i < n)) := by
  refine ⟨?_, fun i => by unfold onesN; exact Nat.testBit_two_pow_sub_one n i⟩
  by_cases h0 : n = 0
  · subst h0; simp [ones_word, onesN]
  · have hbeq : (n == 0) = false := by simp [h0]
    have hlt : W - n < W := by omega
    simp only [ones_word, hbeq, MachInt.sub, MachInt.shr, MachInt.maxVal, bind, Option.bind, if_pos hn, if_pos hlt,
      pure, Bool.false_eq_true, if_false, maxVal_shr W n hn, onesN]

/-- **`math::ones_dword(n)`**, `n ≤ DWORD_BITS` -/
theorem gen_ones_dword (W n : Nat) (hn : n ≤ 2 * W) :
    ones_dword W n = some (onesN n) := by
  by_cases h0 : n = 0
  · subst h0; simp [ones_dword, onesN]
  · have hbeq : (n == 0) = false := by simp [h0]
    have hlt : 2 * W - n < 2 * W := by omega
    simp only [ones_dword, hbeq, MachInt.sub, MachInt.shr, MachInt.maxVal, bind, Option.bind, if_pos hn, if_pos hlt,
      pure, Bool.false_eq_true, if_false, maxVal_shr (2 * W) n hn, onesN]

/-- outside the domain the shift amount underflows: `ones_word(WORD_BITS + 1)` is an overflow (which is why the callers
    clamp or reduce the count first: `n.min(DWORD_BITS)`, `n % WORD_BITS`) -/
theorem gen_ones_word_out_of_domain (W n : Nat) (hn : W < n) : ones_word W n = none := by
  have hbeq : (n == 0) = false := by simp; omega
  have : ¬ n ≤ W := by omega
  simp [ones_word, hbeq, MachInt.sub, this]

/-- **`math::shl_dword(dw, s)`**, `s ≤ WORD_BITS`: no shift overflows and the three words are those of the hand model's
    `mathShlDword`, i.e. `n0 + 2^W·n1 + 2^(2W)·n2 = dw · 2^s` with every word in range. -/
theorem gen_shl_dword (W dw s : Nat) (hW : 1 ≤ W) (hd : dw < 2 ^ (2 * W)) (hs : s ≤ W) :
    shl_dword W dw s = some (mathShlDword W dw s) := by
  have hs2 : s < 2 * W := by omega
  have hpw : (2 : Nat) ^ (2 * W) = 2 ^ W * 2 ^ W := by rw [← Nat.pow_add]; congr 1; omega
  have h2s : (2 : Nat) ^ s ≤ 2 ^ W := Nat.pow_le_pow_right (by decide) hs
  have hlo : dw % 2 ^ W < 2 ^ W := Nat.mod_lt _ (Nat.two_pow_pos W)
  have hhi : dw / 2 ^ W < 2 ^ W := by
    apply Nat.div_lt_of_lt_mul; rw [← hpw]; exact hd
  have m1 : dw % 2 ^ W * 2 ^ s < 2 ^ (2 * W) := by
    rw [hpw]; exact Nat.mul_lt_mul_of_lt_of_le hlo h2s (Nat.two_pow_pos W)
  have m2 : dw / 2 ^ W * 2 ^ s < 2 ^ (2 * W) := by
    rw [hpw]; exact Nat.mul_lt_mul_of_lt_of_le hhi h2s (Nat.two_pow_pos W)
  simp only [shl_dword, MachInt.shl, MachInt.split_dword, bind, Option.bind, if_pos hs2, pure,
    Nat.mod_eq_of_lt m1, Nat.mod_eq_of_lt m2, mathShlDword]

/-- **`math::shr_word(w, s)`**, `s ≤ WORD_BITS`: `(w >> s, the s bits shifted out, left-aligned in a word)` — the step of
    `shift::shr_in_place_with_carry` as the hand model's `shrBits` performs it. -/
theorem gen_shr_word (W w s : Nat) (hW : 1 ≤ W) (hs : s ≤ W) :
    shr_word W w s = some (w / 2 ^ s, w % 2 ^ s * 2 ^ (W - s)) := by
  have hs2 : s < 2 * W := by omega
  have hw : (2 : Nat) ^ W = 2 ^ s * 2 ^ (W - s) := by rw [← Nat.pow_add]; congr 1; omega
  have hp : 0 < 2 ^ (W - s) := Nat.two_pow_pos _
  have e1 : (0 + 2 ^ W * w) / 2 ^ s = w * 2 ^ (W - s) := by
    rw [Nat.zero_add, hw, Nat.mul_assoc, Nat.mul_div_cancel_left _ (Nat.two_pow_pos s), Nat.mul_comm]
  simp only [shr_word, MachInt.shr, MachInt.double_word, MachInt.split_dword, bind, Option.bind, if_pos hs2, pure, e1]
  congr 1
  rw [hw]
  refine Prod.ext ?_ ?_
  · exact Nat.mul_div_mul_right w (2 ^ s) hp
  · exact Nat.mul_mod_mul_right (2 ^ (W - s)) w (2 ^ s)

/-- the word step of the hand model's `shrBits` (`shift::shr_in_place_with_carry`) IS the regenerated `shr_word` -/
theorem shrBits_step_is_shr_word (W s a : Nat) (as : List Nat) (hW : 1 ≤ W) (hs : s ≤ W) :
    ∃ nw nc, shr_word W a s = some (nw, nc) ∧
      shrBits W s (a :: as) = ((nw ||| (shrBits W s as).2) :: (shrBits W s as).1, nc) :=
  ⟨_, _, gen_shr_word W a s hW hs, rfl⟩

-- non-vacuity / the overflow the theorem excludes: at the type maximum the real body is fine, and the operations are
-- genuinely checked (an addition that leaves the type is `none`)
example : ceil_div 64 (2 ^ 64 - 1) 64 = some (2 ^ 58) ∧ ceil_div_usize 64 (2 ^ 64 - 63) 64 = some (2 ^ 58) ∧
    MachInt.add 64 (2 ^ 64 - 1) 63 = none ∧ ones_word 64 64 = some (2 ^ 64 - 1) ∧ ones_word 64 0 = some 0 ∧
    ones_dword 64 128 = some (2 ^ 128 - 1) ∧ bit_len 64 (2 ^ 63) = some 64 ∧ round_up 64 (2 ^ 64 - 1) 64 = none ∧
    round_up 64 65 64 = some 128 ∧ shr_word 64 (2 ^ 63 + 5) 3 = some (2 ^ 60, 5 * 2 ^ 61) ∧
    shl_dword 64 (2 ^ 128 - 1) 64 = some (0, 2 ^ 64 - 1, 2 ^ 64 - 1) := by
  refine ⟨by decide, by decide, by decide, by decide, by decide, by decide, by decide, by decide, by decide, by decide,
    by decide⟩

end Dashu.Props.GenMath
