import Dashu.Gen.FormsGlue
import Dashu.Props.GenBits
import Dashu.Props.C09
/-
  C09, the clause "mixed UBig/IBig forms give the same value as converting both operands to IBig first" for `|` and `^`
  (`&` is `Props/C09.mixed_and`), over REGENERATED text end to end: the eight forwarding bodies
  `forward_ubig_ibig_binop_to_repr!` / `forward_ibig_ubig_binop_to_repr!` of integer/src/helper_macros.rs
  (`Dashu/Gen/FormsGlue.lean`: the `UBig` operand enters the core with `Sign::Positive` and its magnitude, the `IBig` operand
  with its sign and magnitude, in this order) composed with the regenerated sign tables `impl_ibig_bitor` /
  `impl_ibig_bitxor` of integer/src/bits.rs (`Dashu/Gen/Glue.lean`, `Props/GenBits`), equal the two's-complement OR / XOR of
  the two VALUES.  Second theorem: the same for the hand model the driver executes (`ibigOr W ⟨false, a⟩ b`, …).
-/
namespace Dashu.Props.GenBitsMixed
open Dashu Dashu.Gen Dashu.Model

/-- value domain for the regenerated forwarding bodies -/
inductive MV where
  | sgn (s : Sign) | mag (m : Int) | ubig (n : Nat) | ibig (z : Int) | ill

/-- `UBig::into_repr` / `UBig::repr` -/
def reprOf : MV → MV
  | .ubig n => .mag n | _ => .ill
/-- `IBig::into_sign_repr` / `as_sign_repr` -/
def signReprOf : MV → MV × MV
  | .ibig z => (.sgn (if z < 0 then .Negative else .Positive), .mag z.natAbs) | _ => (.ill, .ill)
/-- the `$impl!` core: a regenerated sign table on (sign, magnitude) pairs -/
def coreOf (f : Sign → Int → Sign → Int → Int) : MV → MV → MV → MV → Option Int
  | .sgn a, .mag m, .sgn b, .mag k => some (f a m b k) | _, _, _, _ => none

theorem apply_sign (z : Int) : (if z < 0 then Sign.Negative else Sign.Positive).apply (z.natAbs : Int) = z := by
  by_cases h : z < 0
  · simp only [h, if_true, Sign.apply]; omega
  · simp only [h, if_false, Sign.apply]; omega

theorem core_or (n : Nat) (z : Int) :
    impl_ibig_bitor .Positive n (if z < 0 then .Negative else .Positive) z.natAbs = specOr n z ∧
    impl_ibig_bitor (if z < 0 then .Negative else .Positive) z.natAbs .Positive n = specOr z n := by
  have hz : (if z < 0 then Sign.Negative else Sign.Positive) = .Negative → (0 : Int) < z.natAbs := by
    intro h; by_cases hn : z < 0
    · omega
    · simp [hn] at h
  refine ⟨?_, ?_⟩
  · have := Props.GenBits.gen_ibig_bitor .Positive (if z < 0 then .Negative else .Positive) n z.natAbs (by omega) (by omega)
      (by intro h; cases h) hz
    rw [this, apply_sign]; rfl
  · have := Props.GenBits.gen_ibig_bitor (if z < 0 then .Negative else .Positive) .Positive z.natAbs n (by omega) (by omega)
      hz (by intro h; cases h)
    rw [this, apply_sign]; rfl

theorem core_xor (n : Nat) (z : Int) :
    impl_ibig_bitxor .Positive n (if z < 0 then .Negative else .Positive) z.natAbs = specXor n z ∧
    impl_ibig_bitxor (if z < 0 then .Negative else .Positive) z.natAbs .Positive n = specXor z n := by
  have hz : (if z < 0 then Sign.Negative else Sign.Positive) = .Negative → (0 : Int) < z.natAbs := by
    intro h; by_cases hn : z < 0
    · omega
    · simp [hn] at h
  refine ⟨?_, ?_⟩
  · have := Props.GenBits.gen_ibig_bitxor .Positive (if z < 0 then .Negative else .Positive) n z.natAbs (by omega) (by omega)
      (by intro h; cases h) hz
    rw [this, apply_sign]; rfl
  · have := Props.GenBits.gen_ibig_bitxor (if z < 0 then .Negative else .Positive) .Positive z.natAbs n (by omega) (by omega)
      hz (by intro h; cases h)
    rw [this, apply_sign]; rfl

/-- **`UBig | IBig`, `IBig | UBig`, `UBig ^ IBig`, `IBig ^ UBig` (value/reference forms, 16 impls), regenerated forwarding
    bodies ∘ regenerated sign tables = OR / XOR of the two values** -/
theorem gen_mixed_or_xor (n : Nat) (z : Int) :
    let P := MV.sgn .Positive
    let O := coreOf impl_ibig_bitor
    let X := coreOf impl_ibig_bitxor
    (i_forward_ubig_ibig_binop_to_repr_r1_val_val P reprOf signReprOf O (.ubig n) (.ibig z) = some (specOr n z) ∧
     i_forward_ubig_ibig_binop_to_repr_r1_val_ref P reprOf signReprOf O (.ubig n) (.ibig z) = some (specOr n z) ∧
     i_forward_ubig_ibig_binop_to_repr_r1_ref_val P reprOf signReprOf O (.ubig n) (.ibig z) = some (specOr n z) ∧
     i_forward_ubig_ibig_binop_to_repr_r1_ref_ref P reprOf signReprOf O (.ubig n) (.ibig z) = some (specOr n z)) ∧
    (i_forward_ibig_ubig_binop_to_repr_r1_val_val signReprOf P reprOf O (.ibig z) (.ubig n) = some (specOr z n) ∧
     i_forward_ibig_ubig_binop_to_repr_r1_val_ref signReprOf P reprOf O (.ibig z) (.ubig n) = some (specOr z n) ∧
     i_forward_ibig_ubig_binop_to_repr_r1_ref_val signReprOf P reprOf O (.ibig z) (.ubig n) = some (specOr z n) ∧
     i_forward_ibig_ubig_binop_to_repr_r1_ref_ref signReprOf P reprOf O (.ibig z) (.ubig n) = some (specOr z n)) ∧
    (i_forward_ubig_ibig_binop_to_repr_r1_val_val P reprOf signReprOf X (.ubig n) (.ibig z) = some (specXor n z) ∧
     i_forward_ubig_ibig_binop_to_repr_r1_val_ref P reprOf signReprOf X (.ubig n) (.ibig z) = some (specXor n z) ∧
     i_forward_ubig_ibig_binop_to_repr_r1_ref_val P reprOf signReprOf X (.ubig n) (.ibig z) = some (specXor n z) ∧
     i_forward_ubig_ibig_binop_to_repr_r1_ref_ref P reprOf signReprOf X (.ubig n) (.ibig z) = some (specXor n z)) ∧
    (i_forward_ibig_ubig_binop_to_repr_r1_val_val signReprOf P reprOf X (.ibig z) (.ubig n) = some (specXor z n) ∧
     i_forward_ibig_ubig_binop_to_repr_r1_val_ref signReprOf P reprOf X (.ibig z) (.ubig n) = some (specXor z n) ∧
     i_forward_ibig_ubig_binop_to_repr_r1_ref_val signReprOf P reprOf X (.ibig z) (.ubig n) = some (specXor z n) ∧
     i_forward_ibig_ubig_binop_to_repr_r1_ref_ref signReprOf P reprOf X (.ibig z) (.ubig n) = some (specXor z n)) := by
  have ho := core_or n z
  have hx := core_xor n z
  simp only [i_forward_ubig_ibig_binop_to_repr_r1_val_val, i_forward_ubig_ibig_binop_to_repr_r1_val_ref,
    i_forward_ubig_ibig_binop_to_repr_r1_ref_val, i_forward_ubig_ibig_binop_to_repr_r1_ref_ref,
    i_forward_ibig_ubig_binop_to_repr_r1_val_val, i_forward_ibig_ubig_binop_to_repr_r1_val_ref,
    i_forward_ibig_ubig_binop_to_repr_r1_ref_val, i_forward_ibig_ubig_binop_to_repr_r1_ref_ref,
    reprOf, signReprOf, coreOf, ho.1, ho.2, hx.1, hx.2, and_self]

/-- a canonical `UBig` magnitude with `Sign::Positive` is a canonical `IBig` of the same value -/
theorem ubig_as_ibig (W : Nat) (a : TRepr) (ha : a.Canon W) :
    SCanon W ⟨false, a⟩ ∧ SRepr.value W ⟨false, a⟩ = (a.value W : Int) :=
  ⟨⟨ha, by intro h; cases h⟩, by simp [SRepr.value]⟩

/-- **the hand model the driver executes for `ui.or / iu.or / ui.xor / iu.xor`** (the IBig sign tables with the UBig operand
    entered as `(Positive, magnitude)`): value = OR / XOR of the two values, result canonical -/
theorem mixed_or_xor (W : Nat) (hW : 1 ≤ W) (a : TRepr) (b : SRepr) (ha : a.Canon W) (hb : SCanon W b) :
    ((ibigOr W ⟨false, a⟩ b).value W = specOr (a.value W) (b.value W) ∧ SCanon W (ibigOr W ⟨false, a⟩ b)) ∧
    ((ibigOr W b ⟨false, a⟩).value W = specOr (b.value W) (a.value W) ∧ SCanon W (ibigOr W b ⟨false, a⟩)) ∧
    ((ibigXor W ⟨false, a⟩ b).value W = specXor (a.value W) (b.value W) ∧ SCanon W (ibigXor W ⟨false, a⟩ b)) ∧
    ((ibigXor W b ⟨false, a⟩).value W = specXor (b.value W) (a.value W) ∧ SCanon W (ibigXor W b ⟨false, a⟩)) := by
  have ⟨hc, hv⟩ := ubig_as_ibig W a ha
  refine ⟨⟨?_, (Props.C09.ibig_or W hW _ _ hc hb).2⟩, ⟨?_, (Props.C09.ibig_or W hW _ _ hb hc).2⟩,
    ⟨?_, (Props.C09.ibig_xor W hW _ _ hc hb).2⟩, ⟨?_, (Props.C09.ibig_xor W hW _ _ hb hc).2⟩⟩
  · rw [Props.C09.ibig_or_value W hW _ _ hc hb, hv]
  · rw [Props.C09.ibig_or_value W hW _ _ hb hc, hv]
  · rw [Props.C09.ibig_xor_value W hW _ _ hc hb, hv]
  · rw [Props.C09.ibig_xor_value W hW _ _ hb hc, hv]

-- non-vacuity: a 3-word UBig with a negative 3-word IBig: 2^130 | −(2^130 + 2) = −2 = 2^130 ^ −(2^130 + 2); 2^130 ^ −5 = −(2^130 + 5)
example : (TRepr.large [0, 0, 4]).Canon 64 ∧ SCanon 64 ⟨true, .large [2, 0, 4]⟩ ∧
    (ibigOr 64 ⟨false, .large [0, 0, 4]⟩ ⟨true, .large [2, 0, 4]⟩).value 64 = -2 ∧
    (ibigXor 64 ⟨true, .large [2, 0, 4]⟩ ⟨false, .large [0, 0, 4]⟩).value 64 = -2 ∧
    (ibigXor 64 ⟨false, .large [0, 0, 4]⟩ ⟨true, .small 5⟩).value 64 = -(2 ^ 130 + 5) := by
  refine ⟨by decide, by decide, by decide, by decide, by decide⟩

end Dashu.Props.GenBitsMixed
