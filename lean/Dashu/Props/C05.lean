import Dashu.Proofs.Int.Cmp
import Dashu.Proofs.Int.Hist
import Dashu.Proofs.Int.HistX
import Dashu.Proofs.Int.FloatFit
import Dashu.Proofs.Int.FloatProducers
import Dashu.Proofs.Int.FloatHist
/-
  C05 — Equality, ordering and hashing follow the mathematical value in every type.

  Integers (this section): for canonical operands (`TRepr.Canon`/`SCanon`: ≤ 2 words inline, heap
  values ≥ 3 words without leading zero word, zero non-negative) `cmp` is the order of the values,
  the canonical form of a value is unique, hence `==` (slice comparison), the hash feed and
  `cmp == Equal` all coincide with equality of values.  Producer theorems (every constructor and
  operation yields canonical form) are collected in `producers_canonical`.  `cmp_wrong_without_canon`
  shows the hypothesis is needed: the 2-word heap value that `UBig::ones(128)` built before fix
  283f2ad compares `Greater` than the equal inline value although `==` holds.

  Floats: `repr_cmp_same_base` = order of the values under the invariant `digits ≤ precision`
  (counterexample without it), `normalize` canonical, `==` ⇔ `cmp = Equal`.
  Rationals: `repr_cmp`/`repr_eq` = cross multiplication for non-reduced fractions; structural
  `RBig ==` on reduced ones.
-/
namespace Dashu.Props.C05
open Dashu.Model

-- ================================================================== integers

/-- `UBig::cmp` = order of the values -/
theorem ubig_cmp (W : Nat) (a b : TRepr) (ha : a.Canon W) (hb : b.Canon W) :
    a.cmp b = compare (a.value W) (b.value W) :=
  TRepr.cmp_spec W a b ha hb

/-- `IBig::cmp` = order of the values -/
theorem ibig_cmp (W : Nat) (a b : SRepr) (ha : SCanon W a) (hb : SCanon W b) :
    a.cmp b = compare (a.value W) (b.value W) :=
  SRepr.cmp_spec W a b ha hb

/-- the canonical representation of a value is unique (magnitudes and signed values) -/
theorem canonical_form_unique (W : Nat) (a b : SRepr) (ha : SCanon W a) (hb : SCanon W b)
    (hv : a.value W = b.value W) : a = b :=
  SRepr.canon_unique W a b ha hb hv

/-- `==` holds exactly when the values are equal -/
theorem eq_iff_value_eq (W : Nat) (a b : SRepr) (ha : SCanon W a) (hb : SCanon W b) :
    a.beq W b = true ↔ a.value W = b.value W :=
  SRepr.beq_iff W a b ha hb

/-- `cmp` returns `Equal` exactly when `==` holds -/
theorem cmp_equal_iff_eq (W : Nat) (a b : SRepr) (ha : SCanon W a) (hb : SCanon W b) :
    a.cmp b = .eq ↔ a.beq W b = true :=
  SRepr.cmp_eq_iff W a b ha hb

/-- equal values feed the same (sign, length, words) sequence to the `Hasher` — and the byte stream
    derived from it — and different values feed different sequences -/
theorem hash_follows_value (W : Nat) (a b : SRepr) (ha : SCanon W a) (hb : SCanon W b) :
    (a.value W = b.value W → a.hashFeed W = b.hashFeed W ∧
        (a.hashFeed W).bytes W = (b.hashFeed W).bytes W) ∧
    (a.hashFeed W = b.hashFeed W → a.value W = b.value W) := by
  refine ⟨fun h => ?_, (SRepr.hashFeed_iff W a b ha hb).mp⟩
  have := (SRepr.hashFeed_iff W a b ha hb).mpr h
  exact ⟨this, by rw [this]⟩

/-- the order is total and antisymmetric on values: swapping the operands swaps the result -/
theorem cmp_swap (W : Nat) (a b : SRepr) (ha : SCanon W a) (hb : SCanon W b) :
    b.cmp a = (a.cmp b).swap := by
  rw [SRepr.cmp_spec W a b ha hb, SRepr.cmp_spec W b a hb ha]
  rcases Int.lt_trichotomy (a.value W) (b.value W) with h | h | h
  · rw [Int.compare_eq_lt.mpr h, Int.compare_eq_gt.mpr h]; rfl
  · rw [h, Int.compare_eq_eq.mpr rfl]; rfl
  · rw [Int.compare_eq_gt.mpr h, Int.compare_eq_lt.mpr h]; rfl

/-- Without `Canon` the shortcut `RefSmall < RefLarge` is wrong: the 2-word HEAP value `[MAX, MAX]`
    (what `UBig::ones(128)` produced before fix 283f2ad) has the same value, the same `as_sign_slice`
    (so `==` is true and the hash feed is equal) as the inline `2^128 - 1`, but `cmp` says `Greater`. -/
theorem cmp_wrong_without_canon :
    let bad : SRepr := ⟨false, .large [2 ^ 64 - 1, 2 ^ 64 - 1]⟩
    let good : SRepr := ⟨false, .small (2 ^ 128 - 1)⟩
    ¬ SCanon 64 bad ∧ SCanon 64 good ∧ bad.value 64 = good.value 64 ∧
    bad.beq 64 good = true ∧ bad.hashFeed 64 = good.hashFeed 64 ∧
    bad.cmp good = .gt ∧ good.cmp bad = .lt ∧
    bad.mag = reprOnes 64 false 128 ∧ good.mag = reprOnes 64 true 128 := by
  refine ⟨by decide, by decide, by decide, by decide, by decide, by decide, by decide, by decide, by decide⟩

/-- Producers: the constructors and operations of the dispatch layer modelled in this tree return
    canonical form for canonical operands (so the hypotheses of the theorems above are met by every
    value the library hands out): `from_buffer` (any buffer), `UBig::from` words via `ofNat`,
    `ones`, `& | ^ and_not`, `add_one/sub_one`, `<<`, `>>`, `clear_high_bits`, `split_bits`.
    (The ring operations `+ - *` are in `Proofs/Int/Repr.lean`/C01; capacity policy is C17.) -/
theorem producers_canonical (W : Nat) (hW : 1 ≤ W) (a b : TRepr) (ha : a.Canon W) (hb : b.Canon W)
    (ws : List Nat) (hws : IsWords W ws) (n x : Nat) :
    (fromBuffer W ws).Canon W ∧ (ofNat W x).Canon W ∧ (reprOnes W true n).Canon W ∧
    (a.bitand W b).Canon W ∧ (a.bitor W b).Canon W ∧ (a.bitxor W b).Canon W ∧ (a.andNot W b).Canon W ∧
    (magAddOne W a).Canon W ∧ (a.value W ≠ 0 → (magSubOne W a).Canon W) ∧
    (a.shl W n).Canon W ∧ (a.shr W n false).Canon W ∧ (a.shr W n true).Canon W ∧
    (a.clearHighBits W n).Canon W ∧ (a.splitBits W n).1.Canon W ∧ (a.splitBits W n).2.Canon W :=
  ⟨fromBuffer_canon W ws hws, ofNat_canon W hW x, reprOnes_canon_fixed W hW n,
   (TRepr.bitand_spec W a b ha hb).2, (TRepr.bitor_spec W a b ha hb).2, (TRepr.bitxor_spec W a b ha hb).2,
   (TRepr.andNot_spec W a b ha hb).2, (magAddOne_spec W hW a ha).2, fun h => (magSubOne_spec W a ha h).2,
   (TRepr.shl_spec W hW a n ha).2, (TRepr.shr_spec W hW a n false ha).2, (TRepr.shr_spec W hW a n true ha).2,
   (TRepr.clearHighBits_spec W hW a n ha).2, (TRepr.splitBits_spec W hW a n ha).1.2,
   (TRepr.splitBits_spec W hW a n ha).2.2⟩

/-- signed producers: the IBig bit operators, `!`, `<<` keep `SCanon` (in particular never a negative zero) -/
theorem signed_producers_canonical (W : Nat) (hW : 1 ≤ W) (a b : SRepr) (ha : SCanon W a) (hb : SCanon W b)
    (n : Nat) (x : Int) :
    SCanon W (ibigAnd W a b) ∧ SCanon W (ibigOr W a b) ∧ SCanon W (ibigXor W a b) ∧ SCanon W (ibigNot W a) ∧
    SCanon W (ibigShl W a n) ∧ SCanon W (sOfInt W x) :=
  ⟨(ibigAnd_spec W hW a b ha hb).2, (ibigOr_spec W hW a b ha hb).2, (ibigXor_spec W hW a b ha hb).2,
   (ibigNot_spec W hW a ha).2, withSign_wf W _ _ (TRepr.shl_spec W hW a.mag n ha.1).2,
   ⟨ofNat_canon W hW _, fun h => by
      have hx : x < 0 := by simpa [sOfInt] using h
      show (ofNat W x.natAbs).value W ≠ 0
      rw [ofNat_value W hW]; omega⟩⟩

-- ================================================================== histories: "whichever constructor or operation produced the values"

/-- **history theorem (canonical form).**  Run ANY finite program of library operations —
    constructors (`const`; `fromWords`: ANY raw word buffer through `from_buffer` + sign, which is how
    `from_words`, the chunk decoders and `from_parts` build their result;
    `fromUnsigned`/`fromSigned`: `From<uN>`/`From<iN>`; `fromStr`: `from_str_radix` on ANY text through the
    mirrored parser; `from(Signed)Le/BeBytes`: the byte decoders on ANY byte string), `clone`, `neg`, `abs`, `!`,
    `sqr`, `pow`, `<<`, `>>`, `+`, `-`, `*`, `/`, `%`, `div_euclid`, `rem_euclid`, `&`, `|`, `^`, `ones`, `gcd`,
    `sqrt`, `nth_root`, the byte round trips `from_*_bytes(to_*_bytes(x))`, and the `UBig`-only `set_bit`,
    `clear_bit`, `clear_high_bits`, `split_bits` (both halves), `next_power_of_two` — over a register file of
    canonical values, feeding results back as operands: every register ever produced (also those produced
    before a panic) is canonical.  (The per-operation facts are the theorems of C01/C02/C07/C09/C12 about the
    same executable model; `clone_from` on the ledger model is C17.) -/
theorem history_canonical (W : Nat) (hW : 4 ≤ W) (ops : List HOpX) (hok : ∀ op ∈ ops, op.Ok W)
    (env : List SRepr) (henv : ∀ r ∈ env, SCanon W r) :
    ∀ r ∈ (hrunX W ops env).1, SCanon W r :=
  (hrunX_sound W hW ops hok env henv).1

/-- **history theorem (values).**  The program computes exactly what the same program computes on
    mathematical integers (`hrunSpecX`: `+ - *`, truncating `/ %`, Euclidean `div_euclid/rem_euclid`, two's-complement
    `& | ^ !`, `·2^n`, floor `/2^n`, `^`, `Int.gcd`, `Nat.sqrt`, the floor `n`-th root truncated toward zero, the
    grammar `parseRadixSpec`, the positional value of byte strings), stops at the same instruction, and panics
    only where the value-level program does (division by zero; `pow` whose result cannot be allocated;
    `gcd(0,0)`; zeroth root; even root of a negative). -/
theorem history_values (W : Nat) (hW : 4 ≤ W) (ops : List HOpX) (hok : ∀ op ∈ ops, op.Ok W)
    (env : List SRepr) (henv : ∀ r ∈ env, SCanon W r) :
    hrunSpecX W ops (env.map (·.value W)) = ((hrunX W ops env).1.map (·.value W), (hrunX W ops env).2) :=
  (hrunX_sound W hW ops hok env henv).2

/-- **C05 for histories.**  For any two values ever produced by such a program — by whatever
    sequence of operations — `==` holds exactly when the values are equal, `cmp` is the order of the
    values (and `Equal` exactly when `==`), and the hash feeds are equal exactly when the values are. -/
theorem history_eq_cmp_hash (W : Nat) (hW : 4 ≤ W) (ops : List HOpX) (hok : ∀ op ∈ ops, op.Ok W)
    (env : List SRepr) (henv : ∀ r ∈ env, SCanon W r) (a b : SRepr)
    (ha : a ∈ (hrunX W ops env).1) (hb : b ∈ (hrunX W ops env).1) :
    (a.beq W b = true ↔ a.value W = b.value W) ∧
    a.cmp b = compare (a.value W) (b.value W) ∧
    (a.cmp b = .eq ↔ a.beq W b = true) ∧
    (a.hashFeed W = b.hashFeed W ↔ a.value W = b.value W) ∧
    (a.value W = b.value W → a = b) := by
  have ca := history_canonical W hW ops hok env henv a ha
  have cb := history_canonical W hW ops hok env henv b hb
  exact ⟨SRepr.beq_iff W a b ca cb, SRepr.cmp_spec W a b ca cb, SRepr.cmp_eq_iff W a b ca cb,
    SRepr.hashFeed_iff W a b ca cb, SRepr.canon_unique W a b ca cb⟩

-- non-vacuity of `HOp.Ok`: a raw buffer with leading zero words, a primitive at the edge of its range
example : (∀ op ∈ [HOp.fromWords true [5, 0, 7, 0, 0], .fromSigned 8 (-128), .fromUnsigned (2 ^ 100),
      .setBit 2 200, .clearBit 3 200, .splitHi 3 64, .nextPow2 5], op.Ok 64) ∧
    (hrun 64 [.fromWords true [5, 0, 7, 0, 0], .fromSigned 8 (-128), .fromUnsigned (2 ^ 100),
      .setBit 2 200, .clearBit 3 200, .splitHi 3 64, .nextPow2 5] []).1
      = [⟨true, .large [5, 0, 7]⟩, ⟨true, .small 128⟩, ⟨false, .small (2 ^ 100)⟩,
         ⟨false, .large [0, 2 ^ 36, 0, 256]⟩, ⟨false, .small (2 ^ 100)⟩, ⟨false, .large [2 ^ 36, 0, 256]⟩,
         ⟨false, .large [0, 0, 512]⟩] := by
  refine ⟨?_, by decide⟩
  intro op hop
  simp only [List.mem_cons, List.mem_nil_iff, or_false] at hop
  rcases hop with rfl | rfl | rfl | rfl | rfl | rfl | rfl <;> simp [HOp.Ok] <;> decide

-- non-vacuity: x·y/y, (x<<70)>>70 and x+y−y rebuild the register-0 value 2^64+5 by three routes
-- that cross the inline/heap boundary; all copies are the identical representation
example : (hrun 64 [.mul 0 1, .div 2 1, .shl 0 70, .shr 4 70 false, .add 0 1 0, .sub 6 1 0]
    [⟨false, .small (2 ^ 64 + 5)⟩, ⟨true, .small (2 ^ 100)⟩]).1.map (·.value 64)
    = [2 ^ 64 + 5, -(2 ^ 100), -((2 ^ 64 + 5) * 2 ^ 100), 2 ^ 64 + 5, (2 ^ 64 + 5) * 2 ^ 70, 2 ^ 64 + 5,
       2 ^ 64 + 5 - 2 ^ 100, 2 ^ 64 + 5] := by decide

-- non-vacuity of the extended instruction set (`HOpX.Ok 64` holds: 64 is even, a multiple of 8, 36 < 2^64, the
-- bytes are bytes): the value 2^64 = 0x1_0000000000000000 built by the parser (radix 16, with an underscore), by
-- the little-endian and the two's-complement big-endian byte decoders (9 bytes), through a byte round trip, as
-- gcd(2^64·3, 2^64·5), as sqrt(2^128 + 1) and as the cube root of 2^192 + 7 — seven registers, one
-- representation (the 2-word INLINE value)
example : (∀ op ∈ [HOpX.fromStr false 16 [49, 95, 48, 48, 48, 48, 48, 48, 48, 48, 48, 48, 48, 48, 48, 48, 48, 48],
      .fromLeBytes [0, 0, 0, 0, 0, 0, 0, 0, 1, 0, 0], .fromSignedBeBytes [0, 1, 0, 0, 0, 0, 0, 0, 0, 0],
      .viaLeBytes 0, .base (.const (2 ^ 64 * 3)), .base (.const (-(2 ^ 64 * 5))), .gcd 4 5,
      .base (.const (2 ^ 128 + 1)), .sqrt 7, .base (.const (2 ^ 192 + 7)), .nthRoot 9 3], op.Ok 64) ∧
    (hrunX 64 [HOpX.fromStr false 16 [49, 95, 48, 48, 48, 48, 48, 48, 48, 48, 48, 48, 48, 48, 48, 48, 48, 48],
      .fromLeBytes [0, 0, 0, 0, 0, 0, 0, 0, 1, 0, 0], .fromSignedBeBytes [0, 1, 0, 0, 0, 0, 0, 0, 0, 0],
      .viaLeBytes 0, .base (.const (2 ^ 64 * 3)), .base (.const (-(2 ^ 64 * 5))), .gcd 4 5,
      .base (.const (2 ^ 128 + 1)), .sqrt 7, .base (.const (2 ^ 192 + 7)), .nthRoot 9 3] []).1.map
        (fun r => decide (r = ⟨false, .small (2 ^ 64)⟩))
      = [true, true, true, true, false, false, true, false, true, false, true] := by
  refine ⟨?_, by decide +kernel⟩
  intro op hop
  simp only [List.mem_cons, List.mem_nil_iff, or_false] at hop
  rcases hop with rfl | rfl | rfl | rfl | rfl | rfl | rfl | rfl | rfl | rfl | rfl <;>
    simp [HOpX.Ok, HOp.Ok]

-- ================================================================== floats

/-- `FBig::cmp / partial_cmp` (`repr_cmp_same_base`) is the total order of the values
    `signif · B^exp` with the infinities at the two ends — for operands of ANY precision and any
    rounding mode (the rounding mode does not occur in the function), PROVIDED every operand with a
    limited precision `p` has at most `p + 1` significant digits (`|signif| < B^(p+1)`), and for every
    digit estimator `digitsUb` that is an upper bound (the code's `digits_ub` f32 estimate enters
    only through this hypothesis).  `p + 1`, not `p`: sums of opposite signs and quotients legitimately
    carry one extra digit (`repr_round_sum`: "we don't shrink the extra digit"; e.g. `1230 - 1 = 1229`
    at precision 3 — see `float_results_fit`), and the strict `>` in the shortcut tolerates exactly that. -/
theorem float_cmp (B : Nat) (hB : 2 ≤ B) (digitsUb : Int → Nat)
    (hub : ∀ s : Int, s.natAbs < B ^ digitsUb s)
    (lhs rhs : FRepr) (prec : Option (Nat × Nat))
    (hprec : ∀ lp rp, prec = some (lp, rp) →
      (lp ≠ 0 → lhs.signif.natAbs < B ^ (min lp cmpIsizeMax + 1)) ∧
      (rp ≠ 0 → rhs.signif.natAbs < B ^ (min rp cmpIsizeMax + 1))) :
    reprCmpSameBase B digitsUb lhs rhs prec = specFCmp B lhs rhs :=
  reprCmpSameBase_spec B hB digitsUb hub lhs rhs prec hprec

/-- the same with the digit bound in its pre-clamp form (`precision + 1`) for precisions `≤ isize::MAX` — every
    precision for which a significand of that many digits can exist in memory.  (Before /repo ee43486 the code computed
    `exponent + precision as isize` unclamped and overflowed; the theorem then was about a model that assumed no overflow.) -/
theorem float_cmp_of_small_precision (B : Nat) (hB : 2 ≤ B) (digitsUb : Int → Nat)
    (hub : ∀ s : Int, s.natAbs < B ^ digitsUb s)
    (lhs rhs : FRepr) (lp rp : Nat) (hlp : lp ≤ cmpIsizeMax) (hrp : rp ≤ cmpIsizeMax)
    (hl : lp ≠ 0 → lhs.signif.natAbs < B ^ (lp + 1)) (hr : rp ≠ 0 → rhs.signif.natAbs < B ^ (rp + 1)) :
    reprCmpSameBase B digitsUb lhs rhs (some (lp, rp)) = specFCmp B lhs rhs := by
  apply float_cmp B hB digitsUb hub
  intro lp' rp' h
  cases h
  exact ⟨fun h => fits_min_of_le B _ _ hlp (hl h), fun h => fits_min_of_le B _ _ hrp (hr h)⟩

-- non-vacuity of the clamped form ABOVE the clamp: `x.with_precision(usize::MAX)` (the witness of the repaired defect,
-- corpus/C05/float_cmp_exponent_overflow.case): precision 2^64−1 is clamped to 2^63−1, the hypothesis holds (1229 has 4
-- digits), the comparison is that of the values — `Equal` against itself, `Less` against 1·10^4
example : (min (2 ^ 64 - 1) cmpIsizeMax = 2 ^ 63 - 1) ∧ ((1229 : Int).natAbs < 10 ^ (min (2 ^ 64 - 1) cmpIsizeMax + 1)) ∧
    reprCmpSameBase 10 (fun _ => 4) ⟨1229, 0⟩ ⟨1229, 0⟩ (some (2 ^ 64 - 1, 2 ^ 64 - 1)) = .eq ∧
    reprCmpSameBase 10 (fun _ => 4) ⟨1229, 0⟩ ⟨1, 4⟩ (some (2 ^ 64 - 1, 3)) = .lt := by
  refine ⟨by decide, ?_, by decide, by decide⟩
  exact Nat.lt_of_lt_of_le (by decide : (1229 : Int).natAbs < 10 ^ 4) (Nat.pow_le_pow_right (by decide) (by decide))

/- The statement without any hypothesis on the digits is false (`float_cmp_needs_precision_bound`);
   `Context::convert_base` used to hand out such values (fix 02e179b). -/

/-- the hypothesis is needed and sharp: with `p + 2` digits the shortcut is wrong — `9999` at
    precision 2 is ordered BELOW `2·10^3`; and the value `824633720832` with precision 3 (what
    `with_base::<10>()` returned for the binary float `3·2^38` before fix 02e179b) BELOW `2·10^6`.
    With `p + 1` digits (`999` at precision 2 against `1·10^3`) the shortcut is still right. -/
theorem float_cmp_needs_precision_bound :
    reprCmpSameBase 10 (fun s => digitsNat 10 s.natAbs) ⟨9999, 0⟩ ⟨2, 3⟩ (some (2, 1)) = .lt ∧
    specFCmp 10 ⟨9999, 0⟩ ⟨2, 3⟩ = .gt ∧
    reprCmpSameBase 10 (fun s => digitsNat 10 s.natAbs) ⟨824633720832, 0⟩ ⟨2, 6⟩ (some (3, 1)) = .lt ∧
    specFCmp 10 ⟨824633720832, 0⟩ ⟨2, 6⟩ = .gt ∧
    reprCmpSameBase 10 (fun s => digitsNat 10 s.natAbs) ⟨999, 0⟩ ⟨1, 3⟩ (some (2, 1)) = .lt ∧
    specFCmp 10 ⟨999, 0⟩ ⟨1, 3⟩ = .lt := by
  refine ⟨by decide, by decide, by decide, by decide, by decide, by decide⟩

/-- **The invariant the float operations actually guarantee is `digits ≤ precision + 1`**, not
    `≤ precision`: every modelled producer of C03 (`Context::repr_round` = `with_precision`,
    `mul/sqr/cubic`: at most `p` digits (`sqrt` likewise: `Float.ctxSqrt_digits_le` in C03's modules); `add/sub`: `p + 1` — the spare digit only when the
    signs differ —; `repr_div` for a dividend that fits `rhs.digits + p`: `p + 1`) returns a value that
    fits with one spare digit, for operands of ANY length (so also for operands that are themselves
    `p+1`-digit results: the invariant is preserved along chains of operations).
    [digit-length lemmas: builder-float's `Proofs/Float/Closing.lean`] -/
theorem float_results_fit (B : Nat) (hB : 2 ≤ B) (m : Float.Mode) (c : Float.Coarse) (dub : Int → Nat)
    (p : Nat) (hp : 1 ≤ p) (x y : Dashu.Model.Float.FRepr) (rs : Int) (hrs : rs = 1 ∨ rs = -1)
    (hwx : x.signif = 0 → x.exp = 0) (hwy : y.signif = 0 → y.exp = 0) :
    FitsP1 B p (Float.reprRound B m c p x).1 ∧
    FitsP1 B p (Float.ctxAddSub B m c dub p x y rs).1 ∧
    (∀ fixed, FitsP1 B p (Float.ctxMul fixed B m c p x y).1 ∧ FitsP1 B p (Float.ctxSqr fixed B m c p x).1 ∧
      FitsP1 B p (Float.ctxCubic fixed B m c p x).1) ∧
    (y.signif ≠ 0 → x.digits B ≤ y.digits B + p →
      ∃ r, Float.reprDiv B m p x y = .ok r ∧ FitsP1 B p r.1) := by
  refine ⟨?_, (Float.ctxAddSub_digits_le B hB m c dub p hp x y rs hrs hwx hwy).1, fun fixed => ⟨?_, ?_, ?_⟩, ?_⟩
  · exact Nat.le_succ_of_le (Float.reprRound_digits_le B hB m c p hp x)
  · exact Nat.le_succ_of_le (Float.ctxMul_digits_le fixed B hB m c p hp x y)
  · exact Nat.le_succ_of_le (Float.ctxSqr_digits_le fixed B hB m c p hp x)
  · exact Nat.le_succ_of_le (Float.ctxCubic_digits_le fixed B hB m c p hp x)
  · intro hy hfit
    obtain ⟨r, e, h, _⟩ := Float.reprDiv_digits_le B hB m p hp x y hy hfit
    exact ⟨r, e, h⟩

/-- **Float producers return the canonical representation** (`Repr::new` = `normalize` at the end of
    every path): `mul/sqr/cubic`, `repr_round_sum` and `repr_div` always; `repr_round`
    (`with_precision`) and `add/sub` for canonical operands (they may hand an operand through
    unchanged).  With `float_eq_iff_cmp_equal` this gives `==` ⇔ equal values ⇔ `cmp = Equal` for
    the results of these operations, whatever their precisions. -/
theorem float_results_canonical (B : Nat) (hB : 2 ≤ B) (m : Float.Mode) (c : Float.Coarse) (dub : Int → Nat)
    (p : Nat) (x y : Dashu.Model.Float.FRepr) (rs : Int)
    (hx : FCanon B (ofFloatRepr x)) (hy : FCanon B (ofFloatRepr y)) :
    FCanon B (ofFloatRepr (Float.reprRound B m c p x).1) ∧
    FCanon B (ofFloatRepr (Float.ctxAddSub B m c dub p x y rs).1) ∧
    (∀ fixed (u v : Dashu.Model.Float.FRepr), FCanon B (ofFloatRepr (Float.ctxMul fixed B m c p u v).1)) ∧
    (∀ (u v : Dashu.Model.Float.FRepr) r, Float.reprDiv B m p u v = .ok r → FCanon B (ofFloatRepr r.1)) :=
  ⟨reprRound_fcanon B hB m c p x hx, ctxAddSub_fcanon B hB m c dub p x y rs hx hy,
   fun fixed u v => ctxMul_fcanon fixed B hB m c p u v, fun u v r h => reprDiv_fcanon B hB m p u v r h⟩

-- non-vacuity: `1230 − 1` and `12.29·10^2` built by a product are the same canonical value
example : FCanon 10 (ofFloatRepr ⟨123, 1⟩) ∧ FCanon 10 (ofFloatRepr ⟨1, 0⟩) ∧
    ofFloatRepr (Float.ctxAddSub 10 .halfEven Float.coarseNone (fun s => Float.digitsI 10 s) 3 ⟨123, 1⟩ ⟨1, 0⟩ (-1)).1
      = ⟨1229, 0⟩ := by
  refine ⟨⟨by decide, by decide⟩, ⟨by decide, by decide⟩, by decide⟩

/-- **The remaining `Context` producers keep the invariant and the canonical form** (round 4):
    `Context::div` INCLUDING its own pre-shrink of an over-long dividend (done by reference,
    `repr_round_ref`, to `rhs.digits + p` digits — given sound `digits_ub`/`digits_lb` estimates), `inv`,
    `sqrt`, `powi` with exponent ≥ 2 (C11's mirrored binary-exponentiation loop at the working precision, then
    `with_precision`) and `powi` with a negative exponent (power and reciprocal at the reversed context, then
    `repr_round`): each returns at most `p + 1` digits and the normalised representation, for operands of ANY
    length.  (`powi(x, 0) = 1`; `powi(x, 1)` and `powf(x, 1)` are `repr_round_ref(x)`: first conjunct of
    `float_results_fit`.) -/
theorem float_results_fit_more (B : Nat) (hB : 2 ≤ B) (m : Float.Mode) (c : Float.Coarse) (dub dlb : Int → Nat)
    (hdub : Float.DubSound B dub) (hdlb : Float.DlbSound B dlb) (sr : Nat → Nat × Nat)
    (p : Nat) (hp : 1 ≤ p) (x y : Dashu.Model.Float.FRepr) :
    (y.signif ≠ 0 → ∃ r, Float.ctxDiv B m c dub dlb p x y = .ok r ∧ FitsP1 B p r.1 ∧ FCanon B (ofFloatRepr r.1)) ∧
    (y.signif ≠ 0 → ∃ r, Float.ctxInv B m p y = .ok r ∧ FitsP1 B p r.1 ∧ FCanon B (ofFloatRepr r.1)) ∧
    (0 ≤ x.signif → ∃ r, Float.ctxSqrt B m c sr p x = .ok r ∧ FitsP1 B p r.1 ∧ FCanon B (ofFloatRepr r.1)) ∧
    (∀ fixed bs, FitsP1 B p (Trans.powiNonneg fixed B m c p x bs).2.1 ∧
      (FCanon B (ofFloatRepr x) → FCanon B (ofFloatRepr (Trans.powiNonneg fixed B m c p x bs).2.1))) ∧
    (∀ fixed n r, Trans.powiNeg fixed B m c p x n = .ok r → FitsP1 B p r.2.2.1 ∧ FCanon B (ofFloatRepr r.2.2.1)) := by
  refine ⟨fun hy => ?_, fun hy => ?_, fun hs => ?_, fun fixed bs => ⟨powiNonneg_fits fixed B hB m c p hp x bs,
    fun hx => powiNonneg_fcanon fixed B hB m c p x hx bs⟩,
    fun fixed n r h => ⟨powiNeg_fits fixed B hB m c p hp x n r h, powiNeg_fcanon fixed B hB m c p x n r h⟩⟩
  · obtain ⟨r, h, hf⟩ := ctxDiv_fits B hB m c dub dlb hdub hdlb p hp x y hy
    exact ⟨r, h, hf, ctxDiv_fcanon B hB m c dub dlb p x y r h⟩
  · obtain ⟨r, h, hf⟩ := ctxInv_fits B hB m p hp y hy
    exact ⟨r, h, hf, ctxInv_fcanon B hB m p y r h⟩
  · obtain ⟨r, h, hf⟩ := ctxSqrt_fits B hB m c sr p hp x hs
    exact ⟨r, h, hf, ctxSqrt_fcanon B hB m c sr p x r h⟩

-- non-vacuity: a 7-digit dividend at precision 3 goes through the pre-shrink (exact digit counts are sound
-- estimates): 1234567 / 7 = 176·10^3; 1.2345^5 = 2.87; 1.2345^-3 = 0.532; sqrt 2 = 1.41
example : Float.DubSound 10 (fun s => Float.digitsI 10 s) ∧ Float.DlbSound 10 (fun s => Float.digitsI 10 s) ∧
    (Float.ctxDiv 10 .halfEven Float.coarseNone (fun s => Float.digitsI 10 s) (fun s => Float.digitsI 10 s) 3
      ⟨1234567, 0⟩ ⟨7, 0⟩).toOption.map (·.1) = some ⟨176, 3⟩ ∧
    (Trans.powiNonneg false 10 .halfEven Float.coarseNone 3 ⟨12345, -4⟩ (Trans.lowBits 5)).2.1 = ⟨287, -2⟩ ∧
    (Trans.powiNeg false 10 .halfEven Float.coarseNone 3 ⟨12345, -4⟩ 3).toOption.map (·.2.2.1) = some ⟨532, -3⟩ ∧
    (Float.ctxSqrt 10 .halfEven Float.coarseNone Float.natSqrtRem 3 ⟨2, 0⟩).toOption.map (·.1) = some ⟨141, -2⟩ := by
  refine ⟨fun _ => Nat.le_refl _, fun _ => Nat.le_refl _, by decide +kernel, by decide +kernel, by decide +kernel,
    by decide +kernel⟩

/-- **The constructors of floats meet the invariant with NO spare digit** (`digits ≤ precision`) and hand out the
    normalised representation: `FBig::from_parts` / `From<IBig>` / `From<primitive>` (precision = digit count of the
    significand as given, at least 1; `Repr::new` strips trailing zero digits, it never adds digits),
    `Context::convert_int` (`Repr::new(n, 0)` then `repr_round`), and the parser (`Repr::from_str_native`: the
    significand is `int·B^df + fract` — or `int` when the fraction is zero — from `di + df` digit characters, the
    precision is that character count `ndigits ≥ 1`), any sign, any scale. -/
theorem float_sources_fit (B : Nat) (hB : 2 ≤ B) (m : Float.Mode) (c : Float.Coarse) (p : Nat) (hp : 1 ≤ p)
    (s e : Int) (int fr di df : Nat) (neg : Bool) (hi : int < B ^ di) (hf : fr < B ^ df) (hn : 1 ≤ di + df) :
    ((Float.FRepr.new B s e).digits B ≤ max (Float.digitsI B s) 1 ∧ FCanon B (ofFloatRepr (Float.FRepr.new B s e))) ∧
    (FitsP1 B p (Float.reprRound B m c p (Float.FRepr.new B s 0)).1 ∧
      FCanon B (ofFloatRepr (Float.reprRound B m c p (Float.FRepr.new B s 0)).1)) ∧
    (let sg : Int := (if neg then -1 else 1) * ((if fr = 0 then int else int * B ^ df + fr : Nat) : Int)
     (Float.FRepr.new B sg e).digits B ≤ di + df ∧ FCanon B (ofFloatRepr (Float.FRepr.new B sg e))) :=
  ⟨fromParts_fits B hB s e, convertInt_fits B hB m c p hp s, parse_fits B hB int fr di df neg e hi hf hn⟩

-- non-vacuity: "-012.3400" (di = 3, df = 4): significand 0123400 → -1234·10^-2, 4 ≤ 7 digits
example : (12 < 10 ^ 3) ∧ (3400 < 10 ^ 4) ∧ Float.FRepr.new 10 (-(12 * 10 ^ 4 + 3400)) (-4) = ⟨-1234, -2⟩ := by
  refine ⟨by decide, by decide, by decide +kernel⟩

/-- hence comparison of any two such results (of any precisions `pa`, `pb ≥ 1`, any rounding modes —
    the mode does not occur in the comparison) is the order of their exact values -/
theorem float_cmp_of_results (B : Nat) (hB : 2 ≤ B) (digitsUb : Int → Nat)
    (hub : ∀ s : Int, s.natAbs < B ^ digitsUb s) (a b : Dashu.Model.Float.FRepr) (pa pb : Nat)
    (ha : FitsP1 B pa a) (hb : FitsP1 B pb b)
    (hma : FitsP1 B cmpIsizeMax a) (hmb : FitsP1 B cmpIsizeMax b) :
    reprCmpSameBase B digitsUb (ofFloatRepr a) (ofFloatRepr b) (some (pa, pb))
      = specFCmp B (ofFloatRepr a) (ofFloatRepr b) :=
  reprCmp_of_fits B hB digitsUb hub a b pa pb ha hb hma hmb

-- ------------------------------------------------------------------ float histories

/-- **float history theorem.**  Run ANY finite program of float producers — `from_parts`, `TryFrom<f32/f64>` (round 6: `fromFloat`), `convert_int`,
    `with_precision`, `neg`, `clone`, the `Context` methods `add sub mul sqr cubic div inv sqrt powi` (positive and
    negative exponents) at ANY limited precision per instruction (the `FBig` operators are these at `Context::max` of
    the operands), the operator product — over a register file of `(representation, precision)` pairs, results fed
    back as operands, stopping at the first panic: every register ever produced is normalised (`FCanon`), finite,
    and carries at most `precision + 1` digits.  (Sound `digits_ub/digits_lb` estimates as in `float_results_fit_more`;
    any rounding mode, any coarse test, any square-root kernel: they do not enter.) -/
theorem float_history (k : FCfg) (hB : 2 ≤ k.B) (hdub : Float.DubSound k.B k.dub) (hdlb : Float.DlbSound k.B k.dlb)
    (ops : List FOp) (hok : ∀ op ∈ ops, op.Ok) (env : List FReg) (henv : ∀ x ∈ env, FGood k.B x) :
    ∀ x ∈ frun k ops env, FGood k.B x :=
  frun_good k hB hdub hdlb ops hok env henv

/-- **C05 for float histories.**  For any two values ever produced by such a program — of whatever precisions, by
    whatever operations — the comparison the code runs (`repr_cmp_same_base` with the precision and digit shortcuts,
    any sound digit estimator) is the order of the exact values, it says `Equal` exactly when `==` holds, and `==`
    holds exactly when the two representations are identical.  `hma`/`hmb` (at most 2^63 + 1 digits) are the Nat/usize
    gap: the code clamps the precisions to `isize::MAX` (/repo ee43486); they hold for every register whose precision is
    `≤ isize::MAX` (`float_history_cmp_small`) and for every significand that fits a 64-bit address space. -/
theorem float_history_cmp (k : FCfg) (hB : 2 ≤ k.B) (hdub : Float.DubSound k.B k.dub) (hdlb : Float.DlbSound k.B k.dlb)
    (ops : List FOp) (hok : ∀ op ∈ ops, op.Ok) (env : List FReg) (henv : ∀ x ∈ env, FGood k.B x)
    (digitsUb : Int → Nat) (hub : ∀ s : Int, s.natAbs < k.B ^ digitsUb s)
    (a b : FReg) (ha : a ∈ frun k ops env) (hb : b ∈ frun k ops env)
    (hma : FitsP1 k.B cmpIsizeMax a.r) (hmb : FitsP1 k.B cmpIsizeMax b.r) :
    reprCmpSameBase k.B digitsUb (ofFloatRepr a.r) (ofFloatRepr b.r) (some (a.p, b.p))
      = specFCmp k.B (ofFloatRepr a.r) (ofFloatRepr b.r) ∧
    (reprCmpSameBase k.B digitsUb (ofFloatRepr a.r) (ofFloatRepr b.r) (some (a.p, b.p)) = .eq ↔
      fbigEq (ofFloatRepr a.r) (ofFloatRepr b.r) = true) ∧
    (fbigEq (ofFloatRepr a.r) (ofFloatRepr b.r) = true ↔ a.r = b.r) := by
  obtain ⟨ca, fa, da⟩ := float_history k hB hdub hdlb ops hok env henv a ha
  obtain ⟨cb, fb, db⟩ := float_history k hB hdub hdlb ops hok env henv b hb
  have h1 := float_cmp_of_results k.B hB digitsUb hub a.r b.r a.p b.p da db hma hmb
  refine ⟨h1, ?_, ?_⟩
  · rw [h1]; exact (fbigEq_iff k.B hB _ _ ca cb).symm
  · have ia : (ofFloatRepr a.r).isInfinite = false := by
      simp only [FRepr.isInfinite, ofFloatRepr, Bool.and_eq_false_iff, bne_eq_false_iff_eq, beq_eq_false_iff_ne]
      by_cases h : a.r.signif = 0
      · exact Or.inr (fa h)
      · exact Or.inl h
    have ib : (ofFloatRepr b.r).isInfinite = false := by
      simp only [FRepr.isInfinite, ofFloatRepr, Bool.and_eq_false_iff, bne_eq_false_iff_eq, beq_eq_false_iff_ne]
      by_cases h : b.r.signif = 0
      · exact Or.inr (fb h)
      · exact Or.inl h
    have hfin : ∀ x y : FRepr, x.isInfinite = false → y.isInfinite = false → (fbigEq x y = true ↔ x = y) := by
      intro x y hx hy
      unfold fbigEq
      obtain ⟨xs, xe⟩ := x; obtain ⟨ys, ye⟩ := y
      simp [hx, hy]
    rw [hfin _ _ ia ib]
    have inj : ∀ x y : Dashu.Model.Float.FRepr, ofFloatRepr x = ofFloatRepr y → x = y := by
      intro x y h
      obtain ⟨xs, xe⟩ := x; obtain ⟨ys, ye⟩ := y
      simp only [ofFloatRepr, FRepr.mk.injEq] at h
      rw [h.1, h.2]
    exact ⟨inj _ _, fun h => by rw [h]⟩

/-- `float_history_cmp` with no hypothesis beyond the program's: the two registers have precisions `≤ isize::MAX`
    (any precision a 64-bit machine can fill with digits) -/
theorem float_history_cmp_small (k : FCfg) (hB : 2 ≤ k.B) (hdub : Float.DubSound k.B k.dub) (hdlb : Float.DlbSound k.B k.dlb)
    (ops : List FOp) (hok : ∀ op ∈ ops, op.Ok) (env : List FReg) (henv : ∀ x ∈ env, FGood k.B x)
    (digitsUb : Int → Nat) (hub : ∀ s : Int, s.natAbs < k.B ^ digitsUb s)
    (a b : FReg) (ha : a ∈ frun k ops env) (hb : b ∈ frun k ops env)
    (hpa : a.p ≤ cmpIsizeMax) (hpb : b.p ≤ cmpIsizeMax) :
    reprCmpSameBase k.B digitsUb (ofFloatRepr a.r) (ofFloatRepr b.r) (some (a.p, b.p))
      = specFCmp k.B (ofFloatRepr a.r) (ofFloatRepr b.r) ∧
    (reprCmpSameBase k.B digitsUb (ofFloatRepr a.r) (ofFloatRepr b.r) (some (a.p, b.p)) = .eq ↔
      fbigEq (ofFloatRepr a.r) (ofFloatRepr b.r) = true) ∧
    (fbigEq (ofFloatRepr a.r) (ofFloatRepr b.r) = true ↔ a.r = b.r) := by
  obtain ⟨_, _, da⟩ := float_history k hB hdub hdlb ops hok env henv a ha
  obtain ⟨_, _, db⟩ := float_history k hB hdub hdlb ops hok env henv b hb
  exact float_history_cmp k hB hdub hdlb ops hok env henv digitsUb hub a b ha hb (da.mem_of_le hpa) (db.mem_of_le hpb)

-- non-vacuity: 1230 − 1 (precision 3) keeps the spare digit: register 2 = 1229·10^0 with 4 digits at precision 3;
-- register 3 = 1·10^3 (precision 1) sits exactly at the threshold of the precision shortcut; register 4 = 1229/7 =
-- 176 (precision 3), register 5 = its square root 13.3, register 6 = 1.229^-3… — all good, and cmp(reg 3, reg 2) = Less
example :
    let k : FCfg := ⟨10, .halfEven, Float.coarseNone, fun s => Float.digitsI 10 s, fun s => Float.digitsI 10 s, Float.natSqrtRem⟩
    let prog : List FOp := [.fromParts 123 1, .fromParts 1 0, .sub 0 1 3, .fromParts 1 3, .fromParts 7 0, .div 2 4 3,
      .sqrt 5 3, .powiNeg 2 3 2]
    (∀ op ∈ prog, op.Ok) ∧
    (frun k prog []).map (fun x => (x.r.signif, x.r.exp, x.p))
      = [(123, 1, 3), (1, 0, 1), (1229, 0, 3), (1, 3, 1), (7, 0, 1), (176, 0, 3), (133, -1, 3), (54, -11, 2)] ∧
    reprCmpSameBase 10 (fun s => Float.digitsI 10 s) ⟨1, 3⟩ ⟨1229, 0⟩ (some (1, 3)) = .lt := by
  refine ⟨?_, by decide +kernel, by decide +kernel⟩
  intro op hop
  simp only [List.mem_cons, List.mem_nil_iff, or_false] at hop
  rcases hop with rfl | rfl | rfl | rfl | rfl | rfl | rfl | rfl <;> simp [FOp.Ok]

-- non-vacuity of the `fromFloat` instruction (`FBig::<_, 2>::try_from(f32)`, pairs as `f32::decode` returns them): 1.5f32 =
-- 0xC00000·2^-23 → 3·2^-1 with precision 24 (bit length of the mantissa, more than its 2 digits), 0.0 (precision 0 =
-- unlimited), 8.0f32 = 0x800000·2^-20 → 1·2^3 with precision 24, the smallest subnormal 1·2^-149 with precision 1; and
-- cmp(1.5, 8.0) = Less
example :
    let k : FCfg := ⟨2, .halfEven, Float.coarseNone, fun s => Float.digitsI 2 s, fun s => Float.digitsI 2 s, Float.natSqrtRem⟩
    (frun k [.fromFloat 0xC00000 (-23), .fromFloat 0 (-149), .fromFloat 0x800000 (-20), .fromFloat 1 (-149)] []).map
        (fun x => (x.r.signif, x.r.exp, x.p))
      = [(3, -1, 24), (0, 0, 0), (1, 3, 24), (1, -149, 1)] ∧
    reprCmpSameBase 2 (fun s => Float.digitsI 2 s) ⟨3, -1⟩ ⟨1, 3⟩ (some (24, 24)) = .lt := by
  refine ⟨by decide +kernel, by decide +kernel⟩

/-- the spare digit does occur — `1230 − 1` at precision 3 (HalfEven) is returned as the EXACT
    4-digit value `1229` (flag `none`): a value that violates the documented precondition of
    `FBig::from_repr` (`digits ≤ precision`, debug-asserted there) but still satisfies `FitsP1` -/
theorem float_spare_digit_occurs :
    Float.ctxAddSub 10 .halfEven Float.coarseNone (fun s => Float.digitsI 10 s) 3 ⟨123, 1⟩ ⟨1, 0⟩ (-1)
      = (⟨1229, 0⟩, none) := by decide

/-- `Repr::normalize` returns the canonical representation of the same value: significand not
    divisible by the base, zero as `0·B^0`, never an infinity -/
theorem float_normalize (B : Nat) (hB : 2 ≤ B) (r : FRepr) :
    FCanon B (r.normalize B) ∧ (r.normalize B).isInfinite = false ∧
    (r.signif ≠ 0 → r.exp ≤ (r.normalize B).exp ∧
      r.signif = (r.normalize B).signif * (B : Int) ^ ((r.normalize B).exp - r.exp).toNat) ∧
    (r.signif = 0 → r.normalize B = ⟨0, 0⟩) :=
  normalize_spec B hB r

/-- `FBig ==` (structural comparison of normalised representations; infinities by sign; the context —
    precision and rounding mode — is ignored) holds exactly when the values are equal, which is
    exactly when the order says `Equal` -/
theorem float_eq_iff_cmp_equal (B : Nat) (hB : 2 ≤ B) (a b : FRepr) (ha : FCanon B a) (hb : FCanon B b) :
    fbigEq a b = true ↔ specFCmp B a b = .eq :=
  fbigEq_iff B hB a b ha hb

/-- **`cmp` returns `Equal` exactly when `==` holds** for floats of any precisions / rounding modes: for normalised
    operands that keep `digits ≤ precision + 1` (what every producer above guarantees) the comparison the code
    runs (`repr_cmp_same_base` with its shortcuts) says `Equal` iff the structural `==` does — iff the values are equal -/
theorem float_cmp_equal_iff_eq (B : Nat) (hB : 2 ≤ B) (digitsUb : Int → Nat)
    (hub : ∀ s : Int, s.natAbs < B ^ digitsUb s) (a b : FRepr) (ha : FCanon B a) (hb : FCanon B b)
    (prec : Option (Nat × Nat))
    (hprec : ∀ lp rp, prec = some (lp, rp) →
      (lp ≠ 0 → a.signif.natAbs < B ^ (min lp cmpIsizeMax + 1)) ∧
      (rp ≠ 0 → b.signif.natAbs < B ^ (min rp cmpIsizeMax + 1))) :
    reprCmpSameBase B digitsUb a b prec = .eq ↔ fbigEq a b = true := by
  rw [float_cmp B hB digitsUb hub a b prec hprec]
  exact (float_eq_iff_cmp_equal B hB a b ha hb).symm

-- ================================================================== rationals

/-- `Relaxed` / `RBig` `cmp` (`repr_cmp`) is the order of the values: comparison of the cross
    products, for arbitrary non-reduced fractions with positive denominators (the bit-length
    shortcut of step 3 is sound; its second test is dead code) -/
theorem ratio_cmp (a b : QRepr) (ha : 0 < a.den) (hb : 0 < b.den) :
    reprCmp a b = compare (a.num * b.den) (b.num * a.den) :=
  reprCmp_spec a b ha hb

/-- `Relaxed ==` (`repr_eq`) is equality of the values, also for non-reduced fractions -/
theorem relaxed_eq (a b : QRepr) (ha : 0 < a.den) (hb : 0 < b.den) :
    reprEq a b = true ↔ a.num * b.den = b.num * a.den := by
  rw [reprEq_spec a b ha hb]; simp [specQEq]

/-- `RBig ==` (structural) is equality of the values on reduced fractions, and then the hash feed
    (numerator then denominator, each an integer feed) of equal values is equal -/
theorem rbig_eq (a b : QRepr) (ha : 0 < a.den) (hb : 0 < b.den)
    (hra : Nat.gcd a.num.natAbs a.den = 1) (hrb : Nat.gcd b.num.natAbs b.den = 1) :
    (rbigEq a b = true ↔ a.num * b.den = b.num * a.den) ∧ (rbigEq a b = true → a = b) := by
  refine ⟨by rw [rbigEq_spec a b ha hb hra hrb]; simp [specQEq], fun h => ?_⟩
  obtain ⟨an, ad⟩ := a; obtain ⟨bn, bd⟩ := b
  simp only [rbigEq, Bool.and_eq_true, beq_iff_eq] at h
  rw [h.1, h.2]

/-- **`Hash for RBig` is a function of the value, and an injective one**: two reduced fractions feed
    the same sequence (numerator feed, then denominator feed) to the `Hasher` exactly when their
    values are equal.  (`Relaxed` implements no `Hash`, `FBig` implements no `Hash` either — their
    `NumHash` is C14.) -/
theorem rbig_hash_follows_value (W : Nat) (hW : 1 ≤ W) (a b : QRepr) (ha : 0 < a.den) (hb : 0 < b.den)
    (hra : Nat.gcd a.num.natAbs a.den = 1) (hrb : Nat.gcd b.num.natAbs b.den = 1) :
    a.hashFeed W = b.hashFeed W ↔ a.num * b.den = b.num * a.den := by
  rw [QRepr.hashFeed_iff W hW, ← (rbig_eq a b ha hb hra hrb).1]
  constructor
  · rintro rfl; simp [rbigEq]
  · exact (rbig_eq a b ha hb hra hrb).2

/-- `cmp == Equal` exactly when `==` for rationals -/
theorem ratio_cmp_equal_iff_eq (a b : QRepr) (ha : 0 < a.den) (hb : 0 < b.den) :
    reprCmp a b = .eq ↔ reprEq a b = true := by
  rw [ratio_cmp a b ha hb, relaxed_eq a b ha hb, Int.compare_eq_eq]

-- non-vacuity: two canonical 3-word heap values that differ only in the middle word
example : SCanon 64 ⟨true, .large [5, 7, 1]⟩ ∧ SCanon 64 ⟨true, .large [5, 8, 1]⟩ ∧
    SRepr.cmp ⟨true, .large [5, 7, 1]⟩ ⟨true, .large [5, 8, 1]⟩ = .gt := by
  refine ⟨by decide, by decide, by decide⟩

-- ---------------------------------------------------------------- non-vacuity (floats, rationals)
-- `float_cmp`'s hypothesis met by a value with the spare digit (1229 at precision 3) against 1·10^3,
-- where the precision shortcut is exactly at its threshold; and an infinity against a finite value
example : ((1229 : Int).natAbs < 10 ^ (3 + 1)) ∧ ((1 : Int).natAbs < 10 ^ (1 + 1)) ∧
    reprCmpSameBase 10 (fun _ => 4) ⟨1, 3⟩ ⟨1229, 0⟩ (some (1, 3)) = .lt ∧
    reprCmpSameBase 10 (fun _ => 4) ⟨0, -1⟩ ⟨-5, 40⟩ none = .lt := by
  refine ⟨by decide, by decide, by decide, by decide⟩

-- non-reduced fractions on both sides of a bit-length shortcut: 6/4 = 3/2, 6/4 < 200/3, -7/3 < 6/4
example : reprCmp ⟨6, 4⟩ ⟨3, 2⟩ = .eq ∧ reprEq ⟨6, 4⟩ ⟨3, 2⟩ = true ∧ reprCmp ⟨6, 4⟩ ⟨200, 3⟩ = .lt ∧
    reprCmp ⟨-7, 3⟩ ⟨6, 4⟩ = .lt ∧ rbigEq ⟨3, 2⟩ ⟨3, 2⟩ = true ∧
    Nat.gcd (3 : Int).natAbs 2 = 1 ∧ (QRepr.hashFeed 64 ⟨3, 2⟩ = QRepr.hashFeed 64 ⟨3, 2⟩) := by
  refine ⟨by decide, by decide, by decide, by decide, by decide, by decide, rfl⟩

end Dashu.Props.C05
