import Dashu.Props.C04
import Dashu.Props.C12
/-
  C04 ↔ C12: the gcd contract of the rational model composed with the mirrored and proved integer
  gcd of builder-nt.  Kept apart from `Props/C04.lean` so that C04's own theorems do not depend on
  another group's proof files.
-/
namespace Dashu.Props.C04Link
open Dashu.Model Dashu.Model.Ratio

-- ------------------------------------------------------------------ integer kernels

/-- the gcd contract `gcdK` used by every reduction of this model IS the mirrored integer gcd of
    dashu-int (`NT.gcdRepr`: primitive binary gcd, gcd with a word/double word, Lehmer on heap
    operands, every kernel mirrored) for every word size — composed with C12's `gcd_spec` -/
theorem gcd_contract_is_proved_kernel (W : Nat) (hW : 0 < W) (a b : Nat) :
    gcdK a b = NT.gcdReprM W a b := by
  rw [Dashu.Props.C12.gcd_spec W hW]; rfl

/-- hence `Repr::reduce` over the proved integer gcd (any word size) yields the canonical form -/
theorem reduce_over_proved_gcd (W : Nat) (hW : 0 < W) (q : Q) (hd : 0 < q.den) (hn : q.num ≠ 0) :
    ∃ g, NT.gcdReprM W q.num.natAbs q.den = .ok g ∧
      reduce q = .ok ⟨Int.tdiv q.num g, q.den / g⟩ ∧ Reduced ⟨Int.tdiv q.num g, q.den / g⟩ := by
  refine ⟨Nat.gcd q.num.natAbs q.den, ?_, ?_, reduced_div_gcd _ _ hd⟩
  · rw [← gcd_contract_is_proved_kernel W hW, gcdK_of_pos_right _ hd]
  · simp [reduce, hn, gcdK_of_pos_right _ hd]


example : NT.gcdReprM 64 6 4 = .ok 2 := by rw [← gcd_contract_is_proved_kernel 64 (by decide)]; decide

end Dashu.Props.C04Link
