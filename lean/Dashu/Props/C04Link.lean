import Dashu.Props.C04
import Dashu.Props.C12
import Dashu.Props.C01
import Dashu.Props.C02
import Dashu.Props.C09
/-
  C04 ↔ C12: the gcd contract of the rational model composed with the mirrored and proved integer
  gcd of builder-nt.  Kept apart from `Props/C04.lean` so that C04's own theorems do not depend on
  another group's proof files.
-/
namespace Dashu.Props.C04Link
open Dashu.Model Dashu.Model.Ratio

-- ------------------------------------------------------------------ integer kernels

/-- the gcd contract `gcdK` used by every reduction of this model IS the mirrored integer gcd of
    dashu-int (`NT.gcdRepr`: primitive binary gcd, gcd with a word/double word, Lehmer on heap
    operands, every kernel mirrored) for every word size — composed with C12's `gcd_spec` -/
theorem gcd_contract_is_proved_kernel (W : Nat) (hW : 0 < W) (a b : Nat) :
    gcdK a b = NT.gcdReprM W a b := by
  rw [Dashu.Props.C12.gcd_spec W hW]; rfl

/-- hence `Repr::reduce` over the proved integer gcd (any word size) yields the canonical form -/
theorem reduce_over_proved_gcd (W : Nat) (hW : 0 < W) (q : Q) (hd : 0 < q.den) (hn : q.num ≠ 0) :
    ∃ g, NT.gcdReprM W q.num.natAbs q.den = .ok g ∧
      reduce q = .ok ⟨Int.tdiv q.num g, q.den / g⟩ ∧ Reduced ⟨Int.tdiv q.num g, q.den / g⟩ := by
  refine ⟨Nat.gcd q.num.natAbs q.den, ?_, ?_, reduced_div_gcd _ _ hd⟩
  · rw [← gcd_contract_is_proved_kernel W hW, gcdK_of_pos_right _ hd]
  · simp [reduce, hn, gcdK_of_pos_right _ hd]


-- ------------------------------------------------------------------ ring kernels (C01)

/-- the ring operations `*`, `+`, `−` on `IBig` that the rational model takes at their contract ARE the mirrored
    and proved word-level kernels of dashu-int (`ibigMul`: Karatsuba/Toom-3 …, `ibigAdd`/`ibigSub`: every
    ownership form) for every word size ≥ 4 bits — composed with C01's theorems -/
theorem ring_contracts_are_proved_kernels (W : Nat) (hW : 4 ≤ W) (x y : Int) (form : Nat) :
    x * y = (ibigMul W (.ofInt W x) (.ofInt W y)).value W ∧
    x + y = (ibigAdd W (.ofInt W x) (.ofInt W y) form).value W ∧
    x - y = (ibigSub W (.ofInt W x) (.ofInt W y) form).value W := by
  have h := Dashu.Props.C01.i_add_sub_of_int W (by omega) x y form
  exact ⟨(Dashu.Props.C01.i_mul_of_int W hW x y).symm, h.1.symm, h.2.symm⟩

/-- hence `RBig ± integer` (`impl_addsub_int_with_rbig`: `a.$method(rb * i)`) computed with the proved integer
    kernels stores exactly the model's numerator -/
theorem add_int_over_proved_kernels (W : Nat) (hW : 4 ≤ W) (sub : Bool) (x : Q) (i : Int) (form : Nat) :
    (R.addSubInt sub x i).num =
      (if sub then
        (ibigSub W (.ofInt W x.num) (.ofInt W ((ibigMul W (.ofInt W x.den) (.ofInt W i)).value W)) form).value W
      else
        (ibigAdd W (.ofInt W x.num) (.ofInt W ((ibigMul W (.ofInt W x.den) (.ofInt W i)).value W)) form).value W) := by
  have hm := (ring_contracts_are_proved_kernels W hW x.den i form).1
  have ha := ring_contracts_are_proved_kernels W hW x.num ((x.den : Int) * i) form
  cases sub
  · simp only [R.addSubInt, Bool.false_eq_true, if_false]; rw [← hm]; exact ha.2.1
  · simp only [R.addSubInt, if_true]; rw [← hm]; exact ha.2.2

/-- … and the cross-cancelled product of `impl_mul_with_rbig` over the proved `*` -/
theorem mul_num_over_proved_kernels (W : Nat) (hW : 4 ≤ W) (x y r : Q) (g1 g2 : Nat)
    (h1 : gcdK x.num.natAbs y.den = .ok g1) (h2 : gcdK x.den y.num.natAbs = .ok g2) (h : R.mul x y = .ok r) :
    r.num = (ibigMul W (.ofInt W (Int.tdiv x.num g1)) (.ofInt W (Int.tdiv y.num g2))).value W := by
  rw [← (ring_contracts_are_proved_kernels W hW _ _ 0).1]
  simp only [R.mul, h1, h2] at h
  cases h
  rfl

example : (ibigMul 64 (.ofInt 64 (-3)) (.ofInt 64 5)).value 64 = -15 := by
  rw [← (ring_contracts_are_proved_kernels 64 (by decide) (-3) 5 0).1]; decide

/-- `UBig::pow` / `IBig::pow` as `Repr::pow` uses them (`upowK`, `ipowK`: sign by parity, shortcuts) ARE the mirrored
    and proved power kernels of dashu-int (factor-2 removal, `pow_word_base` / `pow_dword_base` / `pow_large_base`) -/
theorem pow_contracts_are_proved_kernels (W : Nat) (hW : 4 ≤ W) (b n : Nat) (a : Int) :
    (ubigPow W (ofNat W b) n).value W = upowK b n ∧ (ibigPow W (.ofInt W a) n).value W = ipowK a n ∧
    ((ibigPow W (.ofInt W a) n).value W < 0 ↔ (a < 0 ∧ n % 2 = 1)) := by
  have h1 : 1 ≤ W := by omega
  have wf := SRepr.ofInt_wf W h1 a
  refine ⟨?_, ?_, ?_⟩
  · rw [(Dashu.Props.C01.u_pow_exact W hW _ n (ofNat_canon W h1 b)).1, ofNat_value W h1, upowK_eq]
  · rw [(Dashu.Props.C01.i_pow_exact W hW _ n wf).1, SRepr.ofInt_value W h1, ipowK_eq]
  · have := Dashu.Props.C01.i_pow_sign W hW _ n wf
    rw [SRepr.ofInt_value W h1] at this
    exact this

-- ------------------------------------------------------------------ division kernels (C02)

/-- the integer divisions the rational model takes at their contract — truncated `/` and `%` (reductions by a gcd,
    `%` of `impl_rem_with_*`, round.rs), `div_euclid` / `rem_euclid` (`impl_euclid_*`) — ARE the mirrored and proved
    division kernels of dashu-int on every pair of integers, for every word size ≥ 4 bits, panics included -/
theorem div_contracts_are_proved_kernels (W : Nat) (hW : 4 ≤ W) (a b : Int) :
    (b = 0 →
      Div.ibigDiv W (.ofInt W a) (.ofInt W b) = .error .divideByZero ∧
      Div.ibigRem W (.ofInt W a) (.ofInt W b) = .error .divideByZero ∧
      Div.ibigDivEuclid W (.ofInt W a) (.ofInt W b) = .error .divideByZero ∧ divEuclidK a b = .error .divideByZero ∧
      Div.ibigRemEuclid W (.ofInt W a) (.ofInt W b) = .error .divideByZero ∧ remEuclidK a b = .error .divideByZero) ∧
    (b ≠ 0 → ∃ q r e m,
      Div.ibigDiv W (.ofInt W a) (.ofInt W b) = .ok q ∧ q.value W = Int.tdiv a b ∧
      Div.ibigRem W (.ofInt W a) (.ofInt W b) = .ok r ∧ r.value W = Int.tmod a b ∧
      Div.ibigDivEuclid W (.ofInt W a) (.ofInt W b) = .ok e ∧ divEuclidK a b = .ok (e.value W) ∧
      Div.ibigRemEuclid W (.ofInt W a) (.ofInt W b) = .ok m ∧ remEuclidK a b = .ok (m.value W : Int)) := by
  have h1 : 1 ≤ W := by omega
  have wa := SRepr.ofInt_wf W h1 a
  have wb := SRepr.ofInt_wf W h1 b
  have va := SRepr.ofInt_value W h1 a
  have vb := SRepr.ofInt_value W h1 b
  have d := Dashu.Props.C02.ibig_div_exact W h1 hW _ _ wa wb
  have r := Dashu.Props.C02.ibig_rem_exact W h1 hW _ _ wa wb
  have e := Dashu.Props.C02.ibig_div_euclid_exact W h1 hW _ _ wa wb
  have m := Dashu.Props.C02.ibig_rem_euclid_exact W h1 hW _ _ false wa wb
  rw [va, vb] at d r e m
  constructor
  · intro hb
    exact ⟨d.1 hb, r.1 hb, e.1 hb, by simp [divEuclidK, hb], m.1 hb, by simp [remEuclidK, hb]⟩
  · intro hb
    obtain ⟨q, hq, _, _, vq⟩ := d.2 hb
    obtain ⟨rr, hr, _, _, vr⟩ := r.2 hb
    obtain ⟨ee, he, _, _, ve⟩ := e.2 hb
    obtain ⟨mm, hm, _, _, vm⟩ := m.2 hb
    exact ⟨q, rr, ee, mm, hq, vq, hr, vr, he, by unfold divEuclidK; rw [if_neg hb, ve]; rfl, hm,
      by unfold remEuclidK; rw [if_neg hb, vm]; rfl⟩

example : ∃ q, Div.ibigDiv 64 (.ofInt 64 (-7)) (.ofInt 64 2) = .ok q ∧ q.value 64 = -3 := by
  obtain ⟨q, _, _, _, hq, vq, _⟩ := (div_contracts_are_proved_kernels 64 (by decide) (-7) 2).2 (by decide)
  exact ⟨q, hq, by rw [vq]; decide⟩

-- ------------------------------------------------------------------ bit kernels of `reduce2` (C09)

/-- `trailing_zeros` and `>>` as `Repr::reduce2` uses them ARE the mirrored and proved bit kernels of dashu-int:
    the model's `tz n` is what `UBig::trailing_zeros` returns for `n ≠ 0` (`None` for 0), and `>>>` on the
    denominator / the (floor) shift of the numerator are `UBig >> n` / `IBig >> n` — for every word size -/
theorem bit_contracts_are_proved_kernels (W : Nat) (hW : 1 ≤ W) (n z : Nat) (a : Int) (byRef : Bool) :
    ((ofNat W 0).trailingZeros W = .ok none) ∧
    (n ≠ 0 → (ofNat W n).trailingZeros W = .ok (some (tz n))) ∧
    ((ofNat W n).shr W z byRef).value W = n >>> z ∧
    ibigShr W true (.ofInt W a) z byRef = a >>> z := by
  have hc := ofNat_canon W hW n
  have hv := ofNat_value W hW n
  refine ⟨?_, ?_, ?_, ?_⟩
  · exact (Dashu.Props.C09.trailing_zeros W _ (ofNat_canon W hW 0)).1 (ofNat_value W hW 0)
  · intro hn
    obtain ⟨k, hk, ht⟩ := (Dashu.Props.C09.trailing_zeros W _ hc).2 (by rw [hv]; exact hn)
    rw [hv] at ht
    have hmine : IsTz n (tz n) :=
      ⟨Nat.mod_eq_zero_of_dvd (tz_spec n hn).1, tz_odd_quot n hn⟩
    rw [hk, Dashu.Props.C09.trailing_count_unique ht hmine]
  · rw [(Dashu.Props.C09.shr_exact W hW _ z byRef hc).1, hv, Nat.shiftRight_eq_div_pow]
  · have wf := SRepr.ofInt_wf W hW a
    rw [Dashu.Props.C09.ibig_shr_floor W hW _ z byRef ⟨wf.1, wf.2⟩, SRepr.ofInt_value W hW,
      Int.shiftRight_eq_div_pow]
    norm_cast

example : (ofNat 64 (12 * 2 ^ 70)).trailingZeros 64 = .ok (some (tz (12 * 2 ^ 70))) :=
  (bit_contracts_are_proved_kernels 64 (by decide) (12 * 2 ^ 70) 0 0 false).2.1 (by decide)

example : NT.gcdReprM 64 6 4 = .ok 2 := by rw [← gcd_contract_is_proved_kernel 64 (by decide)]; decide

end Dashu.Props.C04Link
