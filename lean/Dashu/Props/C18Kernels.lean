import Dashu.Props.C18
import Dashu.Props.C04Link
import Dashu.Props.C02
/-
  C18 ↔ C02 / C12 / C01: the dashu-int kernels that the C18 model takes at their contract — the
  truncating `IBig::div_rem` inside the continued-fraction descent (`idivRemK`), the gcd inside every
  `reduce` (`gcdK`) — ARE the mirrored and proved kernels of builder-int / builder-nt, for every word
  size.  Kept apart from `Props/C18.lean` so that C18's own theorems do not depend on other groups'
  proof files.
-/
namespace Dashu.Props.C18Kernels
open Dashu Dashu.Model Dashu.Model.Ratio Dashu.Model.Div

/-- **the `div_rem` of the descent is C02's proved division**: for every word size `W ≥ 4` and
    every pair of well-formed `IBig` representations, the mirrored `IBig::div_rem` (sign table over
    `div_rem_repr`: word / double-word / Knuth / Burnikel–Ziegler kernels, all proved in C02) returns
    the representations of exactly what the C18 model's `idivRemK` computes on the values, and
    panics (division by zero) exactly when it does. -/
theorem descent_div_rem_is_proved_kernel (W : Nat) (hW4 : 4 ≤ W) (a b : SRepr) (ha : a.WF W)
    (hb : b.WF W) :
    (ibigDivRem W a b).map (fun qr => (qr.1.value W, qr.2.value W)) =
      idivRemK (a.value W) (b.value W) := by
  obtain ⟨h0, h1⟩ := Dashu.Props.C02.ibig_div_rem_exact W (by omega) hW4 a b ha hb
  unfold idivRemK
  by_cases hz : b.value W = 0
  · rw [h0 hz, if_pos hz]; rfl
  · obtain ⟨q, r, e, _, _, _, hq, hr⟩ := h1 hz
    rw [e, if_neg hz, ← hq, ← hr]; rfl

/-- **the gcd of every `reduce` is C12's proved gcd** (re-export of the composition made for C04:
    the two properties share `Model/Ratio/Basic.lean`) -/
theorem reduce_gcd_is_proved_kernel (W : Nat) (hW : 0 < W) (a b : Nat) :
    gcdK a b = NT.gcdReprM W a b :=
  Dashu.Props.C04Link.gcd_contract_is_proved_kernel W hW a b

/-- the final `.reduce()` of `RBig::simplest_in` / of the interval end points over the proved gcd -/
theorem reduce_over_proved_gcd (W : Nat) (hW : 0 < W) (q : Q) (hd : 0 < q.den) (hn : q.num ≠ 0) :
    ∃ g, NT.gcdReprM W q.num.natAbs q.den = .ok g ∧
      reduce q = .ok ⟨Int.tdiv q.num g, q.den / g⟩ ∧ Reduced ⟨Int.tdiv q.num g, q.den / g⟩ :=
  Dashu.Props.C04Link.reduce_over_proved_gcd W hW q hd hn

-- ------------------------------------------------------------------ the whole descent over the proved kernels (round 7)
/-
  Every `div_rem`, `*`, `+`, `-` of the `loop { … }` of `Repr::simplest_in` executed on the mirrored and proved
  word-level kernels of dashu-int (C01 `ibigMul` / `ibigAdd` / `ibigSub`, C02 `ibigDivRem`) on canonical
  representations: the loop so computed (`simplestLoopW`) equals the model's loop over Lean `Int` arithmetic for every
  word size ≥ 4 bits, every state, every fuel, every ownership form of `+` / `-`.  (The test `num_l < den_l` stays an
  `Int` comparison: `IBig::cmp` is C14's subject, linked for `Repr::cmp` in Props/C18Link.)
-/

/-- `IBig * IBig` through the mirrored kernel (`ibigMul`) on canonical representations -/
def mulW (W : Nat) (x y : Int) : Int := (ibigMul W (.ofInt W x) (.ofInt W y)).value W
/-- `IBig + IBig` through the mirrored kernel, ownership form `form` -/
def addW (W : Nat) (form : Nat) (x y : Int) : Int := (ibigAdd W (.ofInt W x) (.ofInt W y) form).value W
/-- `IBig - IBig` through the mirrored kernel, ownership form `form` -/
def subW (W : Nat) (form : Nat) (x y : Int) : Int := (ibigSub W (.ofInt W x) (.ofInt W y) form).value W
/-- `IBig::div_rem(&IBig)` through the mirrored kernel (sign table over `div_rem_repr`) -/
def divRemW (W : Nat) (a b : Int) : Except PanicKind (Int × Int) :=
  (ibigDivRem W (.ofInt W a) (.ofInt W b)).map (fun qr => (qr.1.value W, qr.2.value W))

/-- the `loop { … }` of `Repr::simplest_in` (same text as `simplestLoop`), every arithmetic operation through the
    word-level kernels at word size `W` -/
def simplestLoopW (W form : Nat) : Nat → SState → Except PanicKind (Option (Int × Int))
  | 0, _ => .ok none
  | fuel + 1, s => do
    let (q, r1) ← divRemW W s.numL s.denL
    let n0' := addW W form s.n1 (mulW W q s.n0)
    let n1' := s.n0
    let d0' := addW W form s.d1 (mulW W q s.d0)
    let d1' := s.d0
    let r2 := subW W form s.numR (mulW W q s.denR)
    let numL' := s.denR
    let denR' := r1
    let numR' := s.denL
    let denL' := r2
    if numL' < denL' then pure (some (addW W form n0' n1', addW W form d0' d1'))
    else simplestLoopW W form fuel ⟨numL', denL', numR', denR', n0', d0', n1', d1'⟩

theorem mulW_eq (W : Nat) (hW : 4 ≤ W) (x y : Int) : mulW W x y = x * y :=
  ((Dashu.Props.C04Link.ring_contracts_are_proved_kernels W hW x y 0).1).symm
theorem addW_eq (W : Nat) (hW : 4 ≤ W) (form : Nat) (x y : Int) : addW W form x y = x + y :=
  ((Dashu.Props.C04Link.ring_contracts_are_proved_kernels W hW x y form).2.1).symm
theorem subW_eq (W : Nat) (hW : 4 ≤ W) (form : Nat) (x y : Int) : subW W form x y = x - y :=
  ((Dashu.Props.C04Link.ring_contracts_are_proved_kernels W hW x y form).2.2).symm
theorem divRemW_eq (W : Nat) (hW : 4 ≤ W) (a b : Int) : divRemW W a b = idivRemK a b := by
  have h1 : 1 ≤ W := by omega
  have h := descent_div_rem_is_proved_kernel W hW (.ofInt W a) (.ofInt W b)
    (SRepr.ofInt_wf W h1 a) (SRepr.ofInt_wf W h1 b)
  rw [SRepr.ofInt_value W h1, SRepr.ofInt_value W h1] at h
  exact h

/-- **the descent over the proved kernels is the model's descent** -/
theorem descent_over_proved_kernels (W : Nat) (hW : 4 ≤ W) (form fuel : Nat) (s : SState) :
    simplestLoopW W form fuel s = simplestLoop fuel s := by
  induction fuel generalizing s with
  | zero => rfl
  | succ n ih =>
    simp only [simplestLoopW, simplestLoop, mulW_eq W hW, addW_eq W hW, subW_eq W hW, divRemW_eq W hW, ih]

/-- non-vacuity: 1/3 .. 1/2 at 64-bit words: the kernels' descent returns 2/5 -/
example : simplestLoopW 64 0 6 ⟨1, 3, 1, 2, 1, 0, 0, 1⟩ = .ok (some (2, 5)) := by
  rw [descent_over_proved_kernels 64 (by decide)]; decide

/-- hence the descent of `Repr::simplest_in` as started by the code (`n0, d0, n1, d1 = 1, 0, 0, 1`), run on the proved
    word-level kernels with the fuel the model gives it, terminates with a fraction `A/B` strictly between `a/b` and
    `c/d` whose numerator AND denominator are minimal among all fractions strictly between — for every word size ≥ 4 -/
theorem kernel_descent_optimal (W : Nat) (hW : 4 ≤ W) (form fuel : Nat) (a b c d : Int) (h : SInv a b c d)
    (hf : (b + d).toNat < fuel) :
    ∃ A B, simplestLoopW W form fuel ⟨a, b, c, d, 1, 0, 0, 1⟩ = .ok (some (A, B)) ∧ 0 < A ∧ 0 < B ∧
      a * B < A * b ∧ A * d < c * B ∧
      ∀ p s : Int, 0 < s → a * s < p * b → p * d < c * s → A ≤ p ∧ B ≤ s := by
  obtain ⟨A, B, e, r⟩ := Dashu.Props.C18.simplest_descent fuel a b c d h hf
  refine ⟨A, B, ?_, r⟩
  rw [descent_over_proved_kernels W hW, Dashu.Props.C18.simplest_loop_is_descent fuel a b c d 1 0 0 1 h, e]
  simp

/-- non-vacuity of the hypotheses: 1234/5678 .. 1235/5679 -/
example : SInv 1234 5678 1235 5679 ∧ ((5678 : Int) + 5679).toNat < 11358 := by
  refine ⟨?_, by decide⟩; unfold SInv; decide

end Dashu.Props.C18Kernels
