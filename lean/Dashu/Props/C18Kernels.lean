import Dashu.Props.C18
import Dashu.Props.C04Link
import Dashu.Props.C02
/-
  C18 ↔ C02 / C12 / C01: the dashu-int kernels that the C18 model takes at their contract — the
  truncating `IBig::div_rem` inside the continued-fraction descent (`idivRemK`), the gcd inside every
  `reduce` (`gcdK`) — ARE the mirrored and proved kernels of builder-int / builder-nt, for every word
  size.  Kept apart from `Props/C18.lean` so that C18's own theorems do not depend on other groups'
  proof files.
-/
namespace Dashu.Props.C18Kernels
open Dashu Dashu.Model Dashu.Model.Ratio Dashu.Model.Div

/-- **the `div_rem` of the descent is C02's proved division**: for every word size `W ≥ 4` and
    every pair of well-formed `IBig` representations, the mirrored `IBig::div_rem` (sign table over
    `div_rem_repr`: word / double-word / Knuth / Burnikel–Ziegler kernels, all proved in C02) returns
    the representations of exactly what the C18 model's `idivRemK` computes on the values, and
    panics (division by zero) exactly when it does. -/
theorem descent_div_rem_is_proved_kernel (W : Nat) (hW4 : 4 ≤ W) (a b : SRepr) (ha : a.WF W)
    (hb : b.WF W) :
    (ibigDivRem W a b).map (fun qr => (qr.1.value W, qr.2.value W)) =
      idivRemK (a.value W) (b.value W) := by
  obtain ⟨h0, h1⟩ := Dashu.Props.C02.ibig_div_rem_exact W (by omega) hW4 a b ha hb
  unfold idivRemK
  by_cases hz : b.value W = 0
  · rw [h0 hz, if_pos hz]; rfl
  · obtain ⟨q, r, e, _, _, _, hq, hr⟩ := h1 hz
    rw [e, if_neg hz, ← hq, ← hr]; rfl

/-- **the gcd of every `reduce` is C12's proved gcd** (re-export of the composition made for C04:
    the two properties share `Model/Ratio/Basic.lean`) -/
theorem reduce_gcd_is_proved_kernel (W : Nat) (hW : 0 < W) (a b : Nat) :
    gcdK a b = NT.gcdReprM W a b :=
  Dashu.Props.C04Link.gcd_contract_is_proved_kernel W hW a b

/-- the final `.reduce()` of `RBig::simplest_in` / of the interval end points over the proved gcd -/
theorem reduce_over_proved_gcd (W : Nat) (hW : 0 < W) (q : Q) (hd : 0 < q.den) (hn : q.num ≠ 0) :
    ∃ g, NT.gcdReprM W q.num.natAbs q.den = .ok g ∧
      reduce q = .ok ⟨Int.tdiv q.num g, q.den / g⟩ ∧ Reduced ⟨Int.tdiv q.num g, q.den / g⟩ :=
  Dashu.Props.C04Link.reduce_over_proved_gcd W hW q hd hn

end Dashu.Props.C18Kernels
