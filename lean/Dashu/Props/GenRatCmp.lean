import Dashu.Gen.RatCmp
import Dashu.Model.Cross.Ord
import Dashu.Model.Int.Cmp
import Dashu.Proofs.Gen.Basic
/-
  Tie A theorems about `rational/src/cmp.rs` AS REGENERATED on this run (`Dashu/Gen/RatCmp.lean`): the
  regenerated `repr_eq`, `repr_cmp`, `repr_cmp_ubig`, `repr_cmp_ibig`, `with_float::repr_cmp_fbig` and the
  structural `RBig ==`, with the estimate oracle plugged in, ARE the hand-written models of C14
  (`Model/Cross/Ord.lean`) and C05 (`Model/Int/Cmp.lean`) — for all inputs.  Core Lean only.
-/
set_option linter.unusedSimpArgs false
namespace Dashu.Props.GenRatCmp
open Dashu Dashu.Gen Dashu.GluePrelude Dashu.Proofs.Gen

section cross
open Dashu.Model.Cross

/-- kernel record of the C14 hand model for the rational comparisons; `pw`/`tz` describe the base of a
    float operand (`B.is_power_of_two()`, `B.trailing_zeros()`) -/
def ratK (o : Oracle) (B : Nat) (pw : Bool) (tz : Nat) : RatK EB where
  e_lt := EB.lt
  e_gt := fun a b => EB.lt b a
  log2_bounds_int := fun i => o.nat i.natAbs
  log2_bounds_q := fun q => o.rat q.numerator q.denominator.toNat
  log2_bounds_repr := fun r => o.flt B r.significand r.exponent
  base := (B : Int)
  base_is_pow2 := pw
  base_tz := (tz : Int)

theorem bit_len_cast (x : Int) : bit_len x = (bitLen x.natAbs : Int) := by
  unfold bit_len bitLen
  by_cases h : x = 0
  · simp [h]
  · have : ¬ x.natAbs = 0 := by omega
    simp [h, this]

theorem bit_len_nat (d : Nat) : bit_len (d : Int) = (bitLen d : Int) := by
  rw [bit_len_cast]; simp

theorem abs_diff_gt_one (a b : Int) : decide (1 < abs_diff a b) = decide ((a - b).natAbs > 1) := by
  unfold abs_diff; congr 1; apply propext; simp only [Int.ofNat_eq_natCast]; omega

/-- **`repr_eq::<ABS>` as regenerated = `Model.Cross.ratReprEq`** -/
theorem repr_eq_is_cross_model (abs : Bool) (n1 : Int) (d1 : Nat) (n2 : Int) (d2 : Nat) :
    q_repr_eq abs ⟨n1, d1⟩ ⟨n2, d2⟩ = ratReprEq abs n1 d1 n2 d2 := by
  unfold q_repr_eq ratReprEq
  simp only [sign_int, is_zero_int, bit_len_cast, bit_len_nat, add_int, mul_int, gt_int, ge_int, le_int, lt_int, ne_def, Sign.ofInt, Int.natAbs_natCast,
    abs_diff_gt_one, abs_eq]
  cases abs <;> gcases h1 : n1 < 0 <;> gcases h2 : n2 < 0 <;> gcases h3 : n1 = 0 <;> gcases h4 : n2 = 0
  all_goals (gac; first | done | rfl | (simp_all; done) | (split <;> first | rfl | (simp_all; done) | (simp_all; omega)))

theorem natCast_eq_one (d : Nat) : ((d : Int) = 1) = (d = 1) := by apply propext; omega

/-- **`repr_cmp::<ABS>` as regenerated = `Model.Cross.ratReprCmp`** (including the dead second bit-size test) -/
theorem repr_cmp_is_cross_model (abs : Bool) (n1 : Int) (d1 : Nat) (n2 : Int) (d2 : Nat) :
    q_repr_cmp abs ⟨n1, d1⟩ ⟨n2, d2⟩ = ratReprCmp abs n1 d1 n2 d2 := by
  unfold q_repr_cmp ratReprCmp
  simp only [sign_int, is_zero_int, is_one, bit_len_cast, bit_len_nat, add_int, sub_int, mul_int, gt_int, ge_int, le_int, lt_int, ne_def, Sign.ofInt,
    Int.natAbs_natCast, cmp_int, signMatch, absCmpInt, abs_cmp, natCast_eq_one]
  cases abs <;> gcases h1 : n1 < 0 <;> gcases h2 : n2 < 0
  all_goals (gcases h3 : d1 = 1 <;> gcases h4 : d2 = 1 <;> gcases h5 : n1 = 0 <;> gcases h6 : n2 = 0)
  all_goals (
    gcases h7 : (bitLen n2.natAbs : Int) - (bitLen d2 : Int) + 1 < (bitLen n1.natAbs : Int) - (bitLen d1 : Int) <;>
    gcases h8 : (bitLen n2.natAbs : Int) - (bitLen d2 : Int) < (bitLen n1.natAbs : Int) - (bitLen d1 : Int) - 1)

/-- **`repr_cmp_ubig::<ABS>` (rational) as regenerated = `Model.Cross.ratReprCmpUbig`** -/
theorem repr_cmp_ubig_is_cross_model (o : Oracle) (abs : Bool) (n : Int) (d : Nat) (r : Nat) :
    q_repr_cmp_ubig (ratK o 2 true 1) abs ⟨n, d⟩ (r : Int) = ratReprCmpUbig o abs n d r := by
  unfold q_repr_cmp_ubig ratReprCmpUbig
  simp only [ratK, sign_int, eq_def, Sign.ofInt, Int.natAbs_natCast, Int.toNat_natCast, mul_int, absCmpInt, abs_cmp]
  cases abs <;> gcases h1 : n < 0
  all_goals gclose

/-- **`repr_cmp_ibig::<ABS>` (rational) as regenerated = `Model.Cross.ratReprCmpIbig`** -/
theorem repr_cmp_ibig_is_cross_model (o : Oracle) (abs : Bool) (n : Int) (d : Nat) (r : Int) :
    q_repr_cmp_ibig (ratK o 2 true 1) abs ⟨n, d⟩ r = ratReprCmpIbig o abs n d r := by
  unfold q_repr_cmp_ibig ratReprCmpIbig
  simp only [ratK, sign_int, eq_def, Sign.ofInt, Int.natAbs_natCast, Int.toNat_natCast, mul_int, absCmpInt, abs_cmp, signMatch,
    cmp_int]
  cases abs <;> gcases [sign_mul_ord, Sign.app] h1 : n < 0 <;> gcases [sign_mul_ord, Sign.app] h2 : r < 0

/-- **`with_float::repr_cmp_fbig::<B, ABS>` as regenerated = `Model.Cross.ratReprCmpFbig`**: the two ways the
    code scales by `B^|e|` (a shift by `|e|·trailing_zeros(B)` bits when `B` is a power of two, a multiplication
    by `UBig::from_word(B).pow(|e|)` otherwise) are both the model's `· B^|e|`; `pw`/`tz` are what
    `B.is_power_of_two()` / `B.trailing_zeros()` return, assumed to mean `B = 2^tz` when `pw` holds. -/
theorem repr_cmp_fbig_is_cross_model (o : Oracle) (abs : Bool) (n : Int) (d : Nat) (B : Nat) (pw : Bool) (tz : Nat)
    (hpw : pw = true → B = 2 ^ tz) (s e : Int) :
    q_repr_cmp_fbig (ratK o B pw tz) abs ⟨n, d⟩ ⟨s, e⟩ = ratReprCmpFbig o abs n d B s e := by
  unfold q_repr_cmp_fbig ratReprCmpFbig
  simp only [ratK, Repr_is_infinite, fIsInf, is_zero_int, ne_int, gt_int, ge_int, le_int, lt_int, sign_int, eq_def, Sign.ofInt, Int.toNat_natCast,
    mul_int, neg_int, absCmpInt, abs_cmp, signMatch, cmp_int, shl_, GluePrelude.pow]
  have hsh : ∀ k : Int, pw = true → (2 : Int) ^ (k * (tz : Int)).toNat = (B : Int) ^ k.toNat := by
    intro k h
    rw [hpw h]
    by_cases hk : 0 ≤ k
    · obtain ⟨kn, rfl⟩ := Int.eq_ofNat_of_zero_le hk
      have : ((kn : Int) * (tz : Int)).toNat = tz * kn := by
        rw [← Int.natCast_mul, Int.toNat_natCast, Nat.mul_comm]
      rw [this, Int.toNat_natCast, Int.natCast_pow, ← Int.pow_mul]
      rfl
    · have h1 : k.toNat = 0 := by omega
      have h2 : (k * (tz : Int)).toNat = 0 := by
        have : k * (tz : Int) ≤ 0 := Int.mul_nonpos_of_nonpos_of_nonneg (by omega) (by omega)
        omega
      rw [h1, h2]; rfl
  have hsh' : ∀ k : Int, pw = true → (2 : Int) ^ ((tz : Int) * k).toNat = (B : Int) ^ k.toNat := by
    intro k h; rw [Int.mul_comm]; exact hsh k h
  gcases h1 : s = 0 <;> gcases h2 : e = 0
  all_goals (cases abs <;> try gprune [sign_mul_ord, Sign.app])
  all_goals (gcases [sign_mul_ord, Sign.app] h3 : n < 0 <;> gcases [sign_mul_ord, Sign.app] h4 : s < 0 <;> gcases h5 : 0 < e)
  all_goals (gcases h6 : e < 0)
  all_goals (cases pw <;> first
    | simp only [hsh _ rfl, hsh' _ rfl, if_true]
    | simp only [Bool.false_eq_true, if_false])
  all_goals gclose
end cross

/-! ### against the C05 model (`Dashu.Model`, `Model/Int/Cmp.lean`) -/
section c05
open Dashu.Model

theorem bit_len_cast05 (x : Int) : bit_len x = (bitLenNat x.natAbs : Int) := by
  unfold bit_len bitLenNat
  by_cases h : x = 0
  · simp [h]
  · have : ¬ x.natAbs = 0 := by omega
    simp [h, this]

/-- **`repr_eq::<false>` (the `==` of `Relaxed`) as regenerated = `Model.reprEq`** -/
theorem repr_eq_is_c05_model (n1 : Int) (d1 : Nat) (n2 : Int) (d2 : Nat) :
    q_repr_eq false ⟨n1, d1⟩ ⟨n2, d2⟩ = reprEq ⟨n1, d1⟩ ⟨n2, d2⟩ := by
  unfold q_repr_eq reprEq
  simp only [sign_int, is_zero_int, bit_len_cast05, add_int, mul_int, gt_int, ge_int, le_int, lt_int, ne_def, Int.natAbs_natCast,
    abs_diff_gt_one, abs_eq]
  gcases h1 : n1 < 0 <;> gcases h2 : n2 < 0 <;> gcases h3 : n1 = 0 <;> gcases h4 : n2 = 0
  all_goals (gac; first | done | rfl | (simp_all; done) | (split <;> first | rfl | (simp_all; done) | (simp_all; omega)))

/-- **`PartialEq for RBig` as regenerated = `Model.rbigEq`** (structural) -/
theorem rbig_eq_is_c05_model (n1 : Int) (d1 : Nat) (n2 : Int) (d2 : Nat) :
    RBig_eq ⟨n1, d1⟩ ⟨n2, d2⟩ = rbigEq ⟨n1, d1⟩ ⟨n2, d2⟩ := by
  unfold RBig_eq rbigEq
  simp only [eq_int]
  rw [Bool.eq_iff_iff]
  simp only [Bool.and_eq_true, decide_eq_true_eq, beq_iff_eq]
  omega

/-- **`repr_cmp::<false>` as regenerated = `Model.reprCmp`** -/
theorem repr_cmp_is_c05_model (n1 : Int) (d1 : Nat) (n2 : Int) (d2 : Nat) :
    q_repr_cmp false ⟨n1, d1⟩ ⟨n2, d2⟩ = reprCmp ⟨n1, d1⟩ ⟨n2, d2⟩ := by
  unfold q_repr_cmp reprCmp
  simp only [sign_int, is_zero_int, is_one, bit_len_cast05, add_int, sub_int, mul_int, gt_int, ge_int, le_int, lt_int, ne_def,
    Int.natAbs_natCast, cmp_int, natCast_eq_one]
  gcases h1 : n1 < 0 <;> gcases h2 : n2 < 0
  all_goals (gcases h3 : d1 = 1 <;> gcases h4 : d2 = 1 <;> gcases h5 : n1 = 0 <;> gcases h6 : n2 = 0)
  all_goals (
    gcases h7 : (bitLenNat n2.natAbs : Int) - (bitLenNat d2 : Int) + 1 < (bitLenNat n1.natAbs : Int) - (bitLenNat d1 : Int) <;>
    gcases h8 : (bitLenNat n2.natAbs : Int) - (bitLenNat d2 : Int) < (bitLenNat n1.natAbs : Int) - (bitLenNat d1 : Int) - 1)
  all_goals gclose

end c05

end Dashu.Props.GenRatCmp
