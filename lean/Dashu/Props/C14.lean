import Dashu.Proofs.Cross.Dispatch
import Dashu.Proofs.Cross.Counter
import Dashu.Proofs.Cross.Spec
import Dashu.Proofs.Cross.HashProofs
import Dashu.Proofs.Cross.HashWeak
/-
  C14 — Cross-type numeric comparison and hashing agree with exact values.

  Property theorems only (helper lemmas live in `Dashu/Proofs/Cross`).  Everything is about the
  definitions the driver `drive_cross` executes (`Dashu/Model/Cross/{Num,Ord,Oracle,Hash}.lean`).

  * The comparison code consults f32 log₂ estimates (`log2_bounds`, `digits_ub`) to skip exact work.
    The estimators are a PARAMETER (`Oracle`); every theorem is proved FOR EVERY ORACLE satisfying
    the enclosure hypothesis `Oracle.Sound` (`lb ≤ log₂|x| ≤ ub`, `Proofs/Cross/Encl.lean`): the
    estimate path and the exact path cannot disagree.  The two oracles the driver instantiates are
    proved sound (`coarse_sound`, `noFilter_sound`); the real f32 estimator is checked against the
    same hypothesis on every generated input by the harness op `log2encl`.
  * Specification side: `XVal.cmp` / `XVal.absCmp` on the exact values `Num.value` — the order of
    the exact rationals (`spec_lt/eq/gt`), NaN incomparable, `-0.0 = 0`, `±∞` at the ends.
  * Where the code at the pinned commit is wrong the model mirrors it, the theorem is `…_partial`
    with the weakest input hypothesis we could state that excludes the defect class, the full
    statement is kept as a comment, and a `…_counterexample` proves the hypothesis is needed.
    The same predicates key the entries of `known_findings.jsonl`.
-/
namespace Dashu.Props.C14
open Dashu.Model.Cross

-- ================================================================== the specification is the order of ℚ

/-- `XVal.cmp` on finite values is `<` / `=` / `>` of the exact rationals `n/d`. -/
theorem spec_lt {n1 n2 : Int} {d1 d2 : Nat} (h1 : 0 < d1) (h2 : 0 < d2) :
    XVal.cmp (.fin n1 d1) (.fin n2 d2) = some .lt ↔ fracQ n1 d1 < fracQ n2 d2 := cmp_fin_lt h1 h2
theorem spec_eq {n1 n2 : Int} {d1 d2 : Nat} (h1 : 0 < d1) (h2 : 0 < d2) :
    XVal.cmp (.fin n1 d1) (.fin n2 d2) = some .eq ↔ fracQ n1 d1 = fracQ n2 d2 := cmp_fin_eq h1 h2
theorem spec_gt {n1 n2 : Int} {d1 d2 : Nat} (h1 : 0 < d1) (h2 : 0 < d2) :
    XVal.cmp (.fin n1 d1) (.fin n2 d2) = some .gt ↔ fracQ n2 d2 < fracQ n1 d1 := cmp_fin_gt h1 h2

/-- the value of a finite float is the rational `signif · B^exp` -/
theorem float_value_rat {B : Nat} (hB : 2 ≤ B) (s e : Int) :
    fracQ (floatFrac B s e).1 (floatFrac B s e).2 = (s : ℚ) * (B : ℚ) ^ e := floatFrac_rat hB s e

/-- magnitudes: the spec of `AbsOrd` compares `|n/d|` -/
theorem abs_value_rat (n : Int) (d : Nat) : fracQ (n.natAbs : Int) d = |fracQ n d| := abs_fin n d

-- ================================================================== the estimate-oracle hypothesis

/-- for a positive magnitude and finite bounds, the enclosure hypothesis is literally
    `lb ≤ log₂ v ≤ ub` -/
theorem enclosure_is_log2 {v : ℝ} (hv : 0 < v) (lo hi : ℚ) :
    Encl v (.fin lo, .fin hi) ↔ (lo : ℝ) ≤ Real.logb 2 v ∧ Real.logb 2 v ≤ (hi : ℝ) :=
  encl_iff_logb hv lo hi

/-- the only consequence the code draws from the estimates -/
theorem filter_sound {v1 v2 : ℝ} {b1 b2 : EB × EB} (h1 : Encl v1 b1) (h2 : Encl v2 b2)
    (h : EB.lt b1.2 b2.1 = true) : v1 < v2 := Encl.sep h1 h2 h

/-- the oracles the driver runs satisfy the hypothesis (so the theorems below apply to every
    line the driver prints) -/
theorem coarse_sound : Oracle.coarse.Sound := Oracle.coarse_sound
theorem noFilter_sound : Oracle.noFilter.Sound := Oracle.noFilter_sound

-- ================================================================== NumOrd, pair by pair (full)

/-- float/src/cmp.rs `repr_cmp_ubig::<B, false>` (FBig/Repr × UBig, unsigned primitives) -/
theorem float_cmp_ubig {o : Oracle} (ho : o.Sound) {B : Nat} (hB : 2 ≤ B) (s e : Int) (r p : Nat) :
    some (floatReprCmpUbig o false B s e r) = XVal.cmp (Num.fbig B s e p).value (Num.ubig r).value :=
  floatReprCmpUbig_spec ho hB s e r p

/-- float/src/cmp.rs `repr_cmp_ibig::<B, false>` (FBig/Repr × IBig, signed primitives) -/
theorem float_cmp_ibig {o : Oracle} (ho : o.Sound) {B : Nat} (hB : 2 ≤ B) (s e r : Int) (p : Nat) :
    some (floatReprCmpIbig o false B s e r) = XVal.cmp (Num.fbig B s e p).value (Num.ibig r).value :=
  floatReprCmpIbig_spec ho hB s e r p

/-- float/src/third_party/num_order.rs `NumOrd<Repr<B2>> for Repr<B1>` (FBig × FBig, any two bases,
    any precisions and rounding modes) -/
theorem float_cmp_float {o : Oracle} (ho : o.Sound) {B1 B2 : Nat} (hB1 : 2 ≤ B1) (hB2 : 2 ≤ B2)
    (s1 e1 s2 e2 : Int) (p1 p2 : Nat) (w1 : FWf s1 e1) (w2 : FWf s2 e2) :
    some (reprNumCmp o B1 s1 e1 B2 s2 e2)
      = XVal.cmp (Num.fbig B1 s1 e1 p1).value (Num.fbig B2 s2 e2 p2).value :=
  reprNumCmp_spec ho hB1 hB2 s1 e1 s2 e2 p1 p2 w1 w2

/-- rational/src/cmp.rs `repr_cmp_ubig::<false>`, `repr_cmp_ibig::<false>`,
    `with_float::repr_cmp_fbig::<B, false>`, `repr_cmp::<false>` (RBig/Relaxed × UBig, IBig, FBig,
    each other) -/
theorem ratio_cmp_ubig {o : Oracle} (ho : o.Sound) (n : Int) {d : Nat} (hd : 0 < d) (r : Nat) :
    some (ratReprCmpUbig o false n d r) = XVal.cmp (.fin n d) (.fin (r : Int) 1) :=
  ratReprCmpUbig_spec ho n hd r
theorem ratio_cmp_ibig {o : Oracle} (ho : o.Sound) (n : Int) {d : Nat} (hd : 0 < d) (r : Int) :
    some (ratReprCmpIbig o false n d r) = XVal.cmp (.fin n d) (.fin r 1) :=
  ratReprCmpIbig_spec ho n hd r
theorem ratio_cmp_float {o : Oracle} (ho : o.Sound) (n : Int) {d : Nat} (hd : 0 < d) {B : Nat}
    (hB : 2 ≤ B) (s e : Int) (p : Nat) :
    some (ratReprCmpFbig o false n d B s e) = XVal.cmp (.fin n d) (Num.fbig B s e p).value :=
  ratReprCmpFbig_spec ho n hd hB s e p
theorem ratio_cmp_ratio (n1 : Int) {d1 : Nat} (h1 : 0 < d1) (n2 : Int) {d2 : Nat} (h2 : 0 < d2) :
    some (ratReprCmp false n1 d1 n2 d2) = XVal.cmp (.fin n1 d1) (.fin n2 d2) :=
  ratReprCmp_spec n1 h1 n2 h2
theorem ratio_eq_ratio (abs : Bool) (n1 : Int) {d1 : Nat} (h1 : 0 < d1) (n2 : Int) {d2 : Nat}
    (h2 : 0 < d2) :
    ratReprEq abs n1 d1 n2 d2 = ((if abs then XVal.absCmp (.fin n1 d1) (.fin n2 d2)
      else XVal.cmp (.fin n1 d1) (.fin n2 d2)) == some .eq) :=
  ratReprEq_spec abs n1 h1 n2 h2

-- ================================================================== NumOrd with primitive floats (partial)

/-  FULL statement (FALSE at the pinned commit — defects A and F):
      theorem num_ord_exact (ho : o.Sound) (x y : Num) (wx : x.WF) (wy : y.WF)
        (h : numPartialCmp o x y = some r) : r = XVal.cmp x.value y.value
    It fails exactly on
      A: a zero UBig/IBig/FBig/RBig/Relaxed against a positive f32/f64 below 1/2 (1/4 for rationals):
         `bit_len(0) = 0` is used as a logarithm;                      (`defectA`)
      F: an IBig against the infinity of its own sign: `-sign * Ordering::Less`.   (`defectF`)  -/

/-- NumOrd over the WHOLE table of implemented pairs (UBig, IBig, FBig⟨any B⟩, RBig, Relaxed, all
    primitive integers, f32, f64; both argument orders): `num_partial_cmp` returns the order of the
    exact values (`none` iff NaN) for every sound oracle — PARTIAL: outside defect classes A and F. -/
theorem num_ord_exact_partial {o : Oracle} (ho : o.Sound) (x y : Num) (wx : x.WF) (wy : y.WF)
    (hd : numCmpDefect x y = none) {r : Option Ordering} (h : numPartialCmp o x y = some r) :
    r = XVal.cmp x.value y.value :=
  numPartialCmp_partial ho x y wx wy hd h

/-- `num_eq` (incl. the `repr_eq` override for RBig × Relaxed) — PARTIAL like `num_ord_exact_partial` -/
theorem num_eq_exact_partial {o : Oracle} (ho : o.Sound) (x y : Num) (wx : x.WF) (wy : y.WF)
    (hd : numCmpDefect x y = none) {b : Bool} (h : numEq o x y = some b) :
    b = (XVal.cmp x.value y.value == some .eq) :=
  numEq_partial ho x y wx wy hd h

/-- the estimate path and the exact path cannot disagree: any two sound oracles give the same
    answer (in particular the bit-length oracle and the never-filtering one the driver runs) -/
theorem num_ord_oracle_independent {o1 o2 : Oracle} (h1 : o1.Sound) (h2 : o2.Sound) (x y : Num)
    (wx : x.WF) (wy : y.WF) (hd : numCmpDefect x y = none) {r1 r2 : Option Ordering}
    (e1 : numPartialCmp o1 x y = some r1) (e2 : numPartialCmp o2 x y = some r2) : r1 = r2 := by
  rw [numPartialCmp_partial h1 x y wx wy hd e1, numPartialCmp_partial h2 x y wx wy hd e2]

/-- defect A is real: `UBig::ZERO.num_partial_cmp(&2^-5)` is `Greater` in the mirrored code -/
theorem num_ord_zero_counterexample :
    ubigNumOrdFloat .f64 0 (.fin (2 ^ 52) (-57)) = some .gt ∧
      XVal.cmp (.fin 0 1) (decodedValue (.fin (2 ^ 52) (-57))) = some .lt ∧
      defectA (.nat 0) (2 ^ 52) (-57) = true ∧ (Decoded.fin (2 ^ 52) (-57)).InRange .f64 :=
  ubigNumOrdFloat_counterexample

/-- defect F is real: `IBig 5` against `+∞` is `Greater` in the mirrored code -/
theorem num_ord_inf_counterexample :
    ibigNumOrdFloat .f64 5 (.inf false) = some .gt ∧
      XVal.cmp (.fin 5 1) (decodedValue (.inf false)) = some .lt ∧ defectF (.int 5) false = true :=
  ibigNumOrdFloat_inf_counterexample

/-- every decoded f32/f64 meets the range hypothesis used by the "bigger than the max float" step -/
theorem decoded_in_range (t : FloatTy) (bits : Nat) : (decode t bits).InRange t := decode_inRange t bits

-- ================================================================== AbsOrd

/-  FULL statement (FALSE at the pinned commit — defect B):
      theorem abs_ord_exact (ho : o.Sound) (x y) (wx) (wy) (px) (py)
        (h : absCmp o x y = some r) : some r = XVal.absCmp x.value y.value
    It fails for a finite FBig against a UBig/IBig when the significand (or the IBig) is negative and
    the estimates overlap: the exact step of `repr_cmp_ubig/ibig::<B, true>` compares signed values. -/

/-- AbsOrd over the whole table (UBig, IBig, FBig of one base, FBig × UBig/IBig, RBig/Relaxed ×
    everything): the order of the magnitudes for every sound oracle — PARTIAL: outside defect B. -/
theorem abs_ord_exact_partial {o : Oracle} (ho : o.Sound) (x y : Num) (wx : x.WF) (wy : y.WF)
    (px : x.PrecOK) (py : y.PrecOK) (hd : absCmpDefect x y = none) {r : Ordering}
    (h : absCmp o x y = some r) : some r = XVal.absCmp x.value y.value :=
  absCmp_partial ho x y wx wy px py hd h

/-- defect B is real, with a sound oracle: `FBig(-5).abs_cmp(UBig 5) = Less`,
    `FBig(5).abs_cmp(IBig -5) = Greater` -/
theorem abs_ord_counterexample :
    Oracle.noFilter.Sound ∧ floatReprCmpUbig Oracle.noFilter true 2 (-5) 0 5 = .lt ∧
      XVal.absCmp (Num.fbig 2 (-5) 0 3).value (Num.ubig 5).value = some .eq :=
  floatReprCmpUbig_abs_counterexample
theorem abs_ord_ibig_counterexample :
    Oracle.noFilter.Sound ∧ floatReprCmpIbig Oracle.noFilter true 2 5 0 (-5) = .gt ∧
      XVal.absCmp (Num.fbig 2 5 0 3).value (Num.ibig (-5)).value = some .eq :=
  floatReprCmpIbig_abs_counterexample

/-- `AbsOrd for FBig` / `Ord for FBig` (`repr_cmp_same_base` with its exponent+precision and
    exponent+digits shortcuts) — full -/
theorem float_abs_cmp_same_base {o : Oracle} (ho : o.Sound) {B : Nat} (hB : 2 ≤ B)
    (ls le rs re : Int) (lp rp : Nat) (hp1 : PrecOK B ls lp) (hp2 : PrecOK B rs rp) :
    some (reprCmpSameBase o true B ls le rs re (some (lp, rp)))
      = XVal.absCmp (Num.fbig B ls le lp).value (Num.fbig B rs re rp).value :=
  reprCmpSameBase_abs_spec ho hB ls le rs re lp rp hp1 hp2

/-- core `Ord`/`PartialOrd` of two numbers of one type — full -/
theorem ord_exact {o : Oracle} (ho : o.Sound) (x y : Num) (wx : x.WF) (wy : y.WF)
    (px : x.PrecOK) (py : y.PrecOK) {r : Ordering} (h : ordCmp o x y = some r) :
    some r = XVal.cmp x.value y.value :=
  ordCmp_spec ho x y wx wy px py h

/-- rational AbsOrd — full -/
theorem ratio_abs_cmp_ratio (n1 : Int) {d1 : Nat} (h1 : 0 < d1) (n2 : Int) {d2 : Nat} (h2 : 0 < d2) :
    some (ratReprCmp true n1 d1 n2 d2) = XVal.absCmp (.fin n1 d1) (.fin n2 d2) :=
  ratReprCmp_abs_spec n1 h1 n2 h2
theorem ratio_abs_cmp_float {o : Oracle} (ho : o.Sound) (n : Int) {d : Nat} (hd : 0 < d) {B : Nat}
    (hB : 2 ≤ B) (s e : Int) (p : Nat) :
    some (ratReprCmpFbig o true n d B s e) = XVal.absCmp (.fin n d) (Num.fbig B s e p).value :=
  ratReprCmpFbig_abs_spec ho n hd hB s e p

-- ================================================================== NumHash

/-- `M = 2^127 - 1` is prime (the feed lives in the field `ℤ/M`) -/
theorem mersenne127_prime : Nat.Prime M127 := M127_prime

/-- every impl feeds the canonical hash of its exact value `n/d` (`hashQ`: `±(|n| mod M)·(d mod M)⁻¹`),
    whenever the denominator is a unit mod `M` -/
theorem hash_is_function_of_value {x : Num} (hx : x.HashOK) {n : Int} {d : Nat}
    (vx : x.value = .fin n d) : numHashFeed x = hashQ n d ∧ ¬ M127 ∣ d :=
  numHashFeed_eq_hashQ hx vx

/-  FULL statement (FALSE at the pinned commit — defect C):
      theorem num_hash_value (x y) (0 < den) (equal values) : numHashFeed x = numHashFeed y  -/

/-- NumHash: numerically equal numbers of any two types (UBig, IBig, FBig⟨B⟩, RBig, Relaxed, every
    primitive integer, f32, f64) feed the same `i128` — PARTIAL: rational arguments must have a
    stored denominator not divisible by `M` (`Num.HashOK`). -/
theorem num_hash_value_partial {x y : Num} (hx : x.HashOK) (hy : y.HashOK) {n1 n2 : Int} {d1 d2 : Nat}
    (vx : x.value = .fin n1 d1) (vy : y.value = .fin n2 d2) (h : n1 * d2 = n2 * d1) :
    numHashFeed x = numHashFeed y :=
  numHash_value hx hy vx vy h

/-- the same under the WEAKEST hypothesis: only a rational argument with BOTH stored parts divisible
    by `M` is excluded (`Num.HashOKWeak`, the predicate of the recorded finding) -/
theorem num_hash_value_weak_partial {x y : Num} (hx : x.HashOKWeak) (hy : y.HashOKWeak) {n1 n2 : Int}
    {d1 d2 : Nat} (vx : x.value = .fin n1 d1) (vy : y.value = .fin n2 d2) (h : n1 * d2 = n2 * d1) :
    numHashFeed x = numHashFeed y :=
  numHash_value_weak hx hy vx vy h

/-- the `M | den` corner is NOT consistent: the reduced `RBig 1/1` and the non-reduced
    `Relaxed M/M` are equal numbers with different feeds (1 vs the INF constant, 0). -/
theorem num_hash_corner_counterexample :
    numHashFeed (.rbig 1 1) ≠ numHashFeed (.relaxed (M127 : Int) M127) ∧
      (1 : Int) * (M127 : Nat) = (M127 : Int) * (1 : Nat) :=
  ⟨ratHash_corner_counterexample, ratHash_corner_same_value.2.2⟩

/-- REQUIRED behaviour (what the proposed fix implements): after cancelling the common factor `M`
    the feed is a function of the value for ALL rationals … -/
theorem num_hash_canon_value {x y : Num} (hx : x.HashOKCanon) (hy : y.HashOKCanon) {n1 n2 : Int}
    {d1 d2 : Nat} (vx : x.value = .fin n1 d1) (vy : y.value = .fin n2 d2) (h : n1 * d2 = n2 * d1) :
    numHashFeedCanon x = numHashFeedCanon y :=
  numHashCanon_value hx hy vx vy h

/-- … and it differs from the code only when `M` divides BOTH stored parts (so the corner is
    consistent among reduced `RBig`s, and between an `RBig` and a `Relaxed` that merely has
    `M | den`). -/
theorem num_hash_canon_eq_code {n : Int} {d : Nat} (h : ¬ (M127 ∣ d ∧ (M127 : Int) ∣ n ∧ n ≠ 0)) :
    ratHashCanon n d = ratHash n d :=
  ratHashCanon_eq_ratHash h

-- ================================================================== non-vacuity / concrete instances

/-- 2.5 as FBig base 10 (`25·10⁻¹`) equals RBig 5/2; NaN is incomparable; `-0.0 = 0`;
    FBig `+∞` equals f64 `+∞`; a huge exponent is decided without materialising it. -/
example : numPartialCmp Oracle.coarse (.fbig 10 25 (-1) 2) (.rbig 5 2) = some (some .eq) := by
  decide +kernel
example : numPartialCmp Oracle.coarse (.ubig 5) (.pfloat .f64 0x7ff8000000000000) = some none := by
  decide +kernel
example : numPartialCmp Oracle.coarse (.ibig 0) (.pfloat .f64 0x8000000000000000) = some (some .eq) := by
  decide +kernel
example : numPartialCmp Oracle.coarse (.fbig 2 0 1 0) (.pfloat .f32 0x7f800000) = some (some .eq) := by
  decide +kernel
example : numPartialCmp Oracle.coarse (.fbig 10 1 (10 ^ 15) 1) (.ubig 5) = some (some .gt) := by
  decide +kernel
example : (Num.fbig 10 25 (-1) 2).WF ∧ (Num.rbig 5 2).WF ∧
    numCmpDefect (.fbig 10 25 (-1) 2) (.rbig 5 2) = none := by
  refine ⟨⟨by norm_num, fun h => absurd h (by norm_num)⟩, by norm_num [Num.WF], by decide⟩
example : numHashFeed (.fbig 10 25 (-1) 2) = numHashFeed (.pfloat .f64 0x4004000000000000) :=
  num_hash_value_partial (x := .fbig 10 25 (-1) 2) (y := .pfloat .f64 0x4004000000000000)
    ⟨by norm_num, by norm_num [M127]⟩ (by norm_num [Num.HashOK, FloatTy.mantBits, FloatTy.expBits])
    (n1 := 25) (d1 := 10) (n2 := 5 * 2 ^ 50) (d2 := 2 ^ 51) (by rfl) (by rfl)
    (by norm_num)

end Dashu.Props.C14
