import Dashu.Proofs.Cross.Dispatch
import Dashu.Proofs.Cross.Fixed
import Dashu.Proofs.Cross.Counter
import Dashu.Proofs.Cross.Spec
import Dashu.Proofs.Cross.HashProofs
import Dashu.Proofs.Cross.HashWeak
import Dashu.Proofs.Cross.HashInf
import Dashu.Proofs.Cross.Mersenne
/-
  C14 — Cross-type numeric comparison and hashing agree with exact values.

  Property theorems only (helper lemmas live in `Dashu/Proofs/Cross`).  Everything is about the
  definitions the driver `drive_cross` executes (`Dashu/Model/Cross/{Num,Ord,Oracle,Hash}.lean`).

  * The comparison code consults f32 log₂ estimates (`log2_bounds`, `digits_ub`) to skip exact work.
    The estimators are a PARAMETER (`Oracle`); every theorem is proved FOR EVERY ORACLE satisfying
    the enclosure hypothesis `Oracle.Sound` (`lb ≤ log₂|x| ≤ ub`, `Proofs/Cross/Encl.lean`): the
    estimate path and the exact path cannot disagree.  The two oracles the driver instantiates are
    proved sound (`coarse_sound`, `noFilter_sound`); the real f32 estimator is checked against the
    same hypothesis on every generated input by the harness op `log2encl`.
  * Specification side: `XVal.cmp` / `XVal.absCmp` on the exact values `Num.value` — the order of
    the exact rationals (`spec_lt/eq/gt`), NaN incomparable, `-0.0 = 0`, `±∞` at the ends.
  * The model mirrors /repo AFTER the seven C14 fix commits (8a8c152, 2670e13, 3c2d452, 8e7c970,
    318bce3, 378134e, d12bb0c); all property theorems are FULL.  The code before those commits is
    kept as a separate model (`Model/Cross/Pre.lean`, `numHashFeedPre`) only for the labelled
    as-is statements `prefix_…` at the end, which record what was wrong.
-/
namespace Dashu.Props.C14
open Dashu.Model.Cross

-- ================================================================== the specification is the order of ℚ

/-- `XVal.cmp` on finite values is `<` / `=` / `>` of the exact rationals `n/d`. -/
theorem spec_lt {n1 n2 : Int} {d1 d2 : Nat} (h1 : 0 < d1) (h2 : 0 < d2) :
    XVal.cmp (.fin n1 d1) (.fin n2 d2) = some .lt ↔ fracQ n1 d1 < fracQ n2 d2 := cmp_fin_lt h1 h2
theorem spec_eq {n1 n2 : Int} {d1 d2 : Nat} (h1 : 0 < d1) (h2 : 0 < d2) :
    XVal.cmp (.fin n1 d1) (.fin n2 d2) = some .eq ↔ fracQ n1 d1 = fracQ n2 d2 := cmp_fin_eq h1 h2
theorem spec_gt {n1 n2 : Int} {d1 d2 : Nat} (h1 : 0 < d1) (h2 : 0 < d2) :
    XVal.cmp (.fin n1 d1) (.fin n2 d2) = some .gt ↔ fracQ n2 d2 < fracQ n1 d1 := cmp_fin_gt h1 h2

/-- the value of a finite float is the rational `signif · B^exp` -/
theorem float_value_rat {B : Nat} (hB : 2 ≤ B) (s e : Int) :
    fracQ (floatFrac B s e).1 (floatFrac B s e).2 = (s : ℚ) * (B : ℚ) ^ e := floatFrac_rat hB s e

/-- magnitudes: the spec of `AbsOrd` compares `|n/d|` -/
theorem abs_value_rat (n : Int) (d : Nat) : fracQ (n.natAbs : Int) d = |fracQ n d| := abs_fin n d

-- ================================================================== the estimate-oracle hypothesis

/-- for a positive magnitude and finite bounds, the enclosure hypothesis is literally
    `lb ≤ log₂ v ≤ ub` -/
theorem enclosure_is_log2 {v : ℝ} (hv : 0 < v) (lo hi : ℚ) :
    Encl v (.fin lo, .fin hi) ↔ (lo : ℝ) ≤ Real.logb 2 v ∧ Real.logb 2 v ≤ (hi : ℝ) :=
  encl_iff_logb hv lo hi

/-- the only consequence the code draws from the estimates -/
theorem filter_sound {v1 v2 : ℝ} {b1 b2 : EB × EB} (h1 : Encl v1 b1) (h2 : Encl v2 b2)
    (h : EB.lt b1.2 b2.1 = true) : v1 < v2 := Encl.sep h1 h2 h

/-- the oracles the driver runs satisfy the hypothesis (so the theorems below apply to every
    line the driver prints) -/
theorem coarse_sound : Oracle.coarse.Sound := Oracle.coarse_sound
theorem noFilter_sound : Oracle.noFilter.Sound := Oracle.noFilter_sound

-- ================================================================== NumOrd, pair by pair (full)

/-- float/src/cmp.rs `repr_cmp_ubig::<B, false>` (FBig/Repr × UBig, unsigned primitives) -/
theorem float_cmp_ubig {o : Oracle} (ho : o.Sound) {B : Nat} (hB : 2 ≤ B) (s e : Int) (r p : Nat) :
    some (floatReprCmpUbig o false B s e r) = XVal.cmp (Num.fbig B s e p).value (Num.ubig r).value :=
  floatReprCmpUbig_spec ho hB s e r p

/-- float/src/cmp.rs `repr_cmp_ibig::<B, false>` (FBig/Repr × IBig, signed primitives) -/
theorem float_cmp_ibig {o : Oracle} (ho : o.Sound) {B : Nat} (hB : 2 ≤ B) (s e r : Int) (p : Nat) :
    some (floatReprCmpIbig o false B s e r) = XVal.cmp (Num.fbig B s e p).value (Num.ibig r).value :=
  floatReprCmpIbig_spec ho hB s e r p

/-- float/src/third_party/num_order.rs `NumOrd<Repr<B2>> for Repr<B1>` (FBig × FBig, any two bases,
    any precisions and rounding modes) -/
theorem float_cmp_float {o : Oracle} (ho : o.Sound) {B1 B2 : Nat} (hB1 : 2 ≤ B1) (hB2 : 2 ≤ B2)
    (s1 e1 s2 e2 : Int) (p1 p2 : Nat) (w1 : FWf s1 e1) (w2 : FWf s2 e2) :
    some (reprNumCmp o B1 s1 e1 B2 s2 e2)
      = XVal.cmp (Num.fbig B1 s1 e1 p1).value (Num.fbig B2 s2 e2 p2).value :=
  reprNumCmp_spec ho hB1 hB2 s1 e1 s2 e2 p1 p2 w1 w2

/-- rational/src/cmp.rs `repr_cmp_ubig::<false>`, `repr_cmp_ibig::<false>`,
    `with_float::repr_cmp_fbig::<B, false>`, `repr_cmp::<false>` (RBig/Relaxed × UBig, IBig, FBig,
    each other) -/
theorem ratio_cmp_ubig {o : Oracle} (ho : o.Sound) (n : Int) {d : Nat} (hd : 0 < d) (r : Nat) :
    some (ratReprCmpUbig o false n d r) = XVal.cmp (.fin n d) (.fin (r : Int) 1) :=
  ratReprCmpUbig_spec ho n hd r
theorem ratio_cmp_ibig {o : Oracle} (ho : o.Sound) (n : Int) {d : Nat} (hd : 0 < d) (r : Int) :
    some (ratReprCmpIbig o false n d r) = XVal.cmp (.fin n d) (.fin r 1) :=
  ratReprCmpIbig_spec ho n hd r
theorem ratio_cmp_float {o : Oracle} (ho : o.Sound) (n : Int) {d : Nat} (hd : 0 < d) {B : Nat}
    (hB : 2 ≤ B) (s e : Int) (p : Nat) :
    some (ratReprCmpFbig o false n d B s e) = XVal.cmp (.fin n d) (Num.fbig B s e p).value :=
  ratReprCmpFbig_spec ho n hd hB s e p
theorem ratio_cmp_ratio (n1 : Int) {d1 : Nat} (h1 : 0 < d1) (n2 : Int) {d2 : Nat} (h2 : 0 < d2) :
    some (ratReprCmp false n1 d1 n2 d2) = XVal.cmp (.fin n1 d1) (.fin n2 d2) :=
  ratReprCmp_spec n1 h1 n2 h2
theorem ratio_eq_ratio (abs : Bool) (n1 : Int) {d1 : Nat} (h1 : 0 < d1) (n2 : Int) {d2 : Nat}
    (h2 : 0 < d2) :
    ratReprEq abs n1 d1 n2 d2 = ((if abs then XVal.absCmp (.fin n1 d1) (.fin n2 d2)
      else XVal.cmp (.fin n1 d1) (.fin n2 d2)) == some .eq) :=
  ratReprEq_spec abs n1 h1 n2 h2

-- ================================================================== NumOrd, the whole table

/-- NumOrd over the WHOLE table of implemented pairs (UBig, IBig, FBig⟨any B⟩, RBig, Relaxed, all
    primitive integers, f32, f64; both argument orders): `num_partial_cmp` returns the order of the
    exact values (`none` iff NaN) for every sound oracle. -/
theorem num_ord_exact {o : Oracle} (ho : o.Sound) (x y : Num) (wx : x.WF) (wy : y.WF)
    {r : Option Ordering} (h : numPartialCmp o x y = some r) : r = XVal.cmp x.value y.value :=
  numPartialCmp_spec ho x y wx wy h

/-- `num_eq` (incl. the `repr_eq` override for RBig × Relaxed) decides equality of the exact values -/
theorem num_eq_exact {o : Oracle} (ho : o.Sound) (x y : Num) (wx : x.WF) (wy : y.WF)
    {b : Bool} (h : numEq o x y = some b) : b = (XVal.cmp x.value y.value == some .eq) :=
  numEq_spec ho x y wx wy h

/-- the estimate path and the exact path cannot disagree: any two sound oracles give the same
    answer (in particular the bit-length oracle and the never-filtering one the driver runs) -/
theorem num_ord_oracle_independent {o1 o2 : Oracle} (h1 : o1.Sound) (h2 : o2.Sound) (x y : Num)
    (wx : x.WF) (wy : y.WF) {r1 r2 : Option Ordering}
    (e1 : numPartialCmp o1 x y = some r1) (e2 : numPartialCmp o2 x y = some r2) : r1 = r2 := by
  rw [numPartialCmp_spec h1 x y wx wy e1, numPartialCmp_spec h2 x y wx wy e2]

/-- NumOrd against f32/f64, impl by impl (bit-length bounds, no oracle) -/
theorem ubig_cmp_prim_float (t : FloatTy) (x : Nat) (bits : Nat) :
    ubigNumOrdFloat t x (decode t bits) = XVal.cmp (.fin (x : Int) 1) (Num.pfloat t bits).value :=
  ubigNumOrdFloat_spec t x _ (decode_inRange t bits)
theorem ibig_cmp_prim_float (t : FloatTy) (x : Int) (bits : Nat) :
    ibigNumOrdFloat t x (decode t bits) = XVal.cmp (.fin x 1) (Num.pfloat t bits).value :=
  ibigNumOrdFloat_spec t x _ (decode_inRange t bits)
theorem float_cmp_prim_float (t : FloatTy) {B : Nat} (hB : 2 ≤ B) (s e : Int) (p : Nat) (bits : Nat) :
    reprNumOrdFloat t B s e (decode t bits)
      = XVal.cmp (Num.fbig B s e p).value (Num.pfloat t bits).value :=
  reprNumOrdFloat_spec t hB s e p _ (decode_inRange t bits)
theorem ratio_cmp_prim_float (t : FloatTy) (n : Int) {d : Nat} (hd : 0 < d) (bits : Nat) :
    ratNumOrdFloat t n d (decode t bits) = XVal.cmp (.fin n d) (Num.pfloat t bits).value :=
  ratNumOrdFloat_spec t n hd _ (decode_inRange t bits)

/-- every decoded f32/f64 meets the range hypothesis used by the "bigger than the max float" step -/
theorem decoded_in_range (t : FloatTy) (bits : Nat) : (decode t bits).InRange t := decode_inRange t bits

-- ================================================================== AbsOrd

/-- AbsOrd over the whole table (UBig, IBig, FBig of one base, FBig × UBig/IBig, RBig/Relaxed ×
    everything): the order of the magnitudes for every sound oracle. -/
theorem abs_ord_exact {o : Oracle} (ho : o.Sound) (x y : Num) (wx : x.WF) (wy : y.WF)
    (px : x.PrecOK) (py : y.PrecOK) {r : Ordering} (h : absCmp o x y = some r) :
    some r = XVal.absCmp x.value y.value :=
  absCmp_spec ho x y wx wy px py h

/-- float/src/cmp.rs `repr_cmp_ubig::<B, true>`, `repr_cmp_ibig::<B, true>` (AbsOrd FBig × UBig/IBig,
    any signs) -/
theorem float_abs_cmp_ubig {o : Oracle} (ho : o.Sound) {B : Nat} (hB : 2 ≤ B) (s e : Int) (r p : Nat) :
    some (floatReprCmpUbig o true B s e r) = XVal.absCmp (Num.fbig B s e p).value (Num.ubig r).value :=
  floatReprCmpUbig_abs_spec ho hB s e r p
theorem float_abs_cmp_ibig {o : Oracle} (ho : o.Sound) {B : Nat} (hB : 2 ≤ B) (s e r : Int) (p : Nat) :
    some (floatReprCmpIbig o true B s e r) = XVal.absCmp (Num.fbig B s e p).value (Num.ibig r).value :=
  floatReprCmpIbig_abs_spec ho hB s e r p

/-- base/src/sign.rs `AbsOrd for iN` (`unsigned_abs`): the order of the magnitudes, incl. `iN::MIN` -/
theorem prim_abs_cmp (a b : Int) :
    some (primIntAbsCmp a b) = XVal.absCmp (.fin a 1) (.fin b 1) := by
  simp [primIntAbsCmp, XVal.absCmp, XVal.abs, XVal.cmp, cmpN_cast]

/-- `AbsOrd for FBig` / `Ord for FBig` (`repr_cmp_same_base` with its exponent+precision and
    exponent+digits shortcuts) — full -/
theorem float_abs_cmp_same_base {o : Oracle} (ho : o.Sound) {B : Nat} (hB : 2 ≤ B)
    (ls le rs re : Int) (lp rp : Nat) (hp1 : PrecOK B ls lp) (hp2 : PrecOK B rs rp) :
    some (reprCmpSameBase o true B ls le rs re (some (lp, rp)))
      = XVal.absCmp (Num.fbig B ls le lp).value (Num.fbig B rs re rp).value :=
  reprCmpSameBase_abs_spec ho hB ls le rs re lp rp hp1 hp2

/-- `rhs_exp.saturating_add(k)` (float/src/cmp.rs cases 4 and 5 since /repo ee43486; `k ≥ 0` a clamped precision or a digit
    count) decides the shortcut exactly as the unbounded sum the model computes: an `isize` exponent never exceeds a sum that
    saturated at `isize::MAX`, and a non-negative `k` cannot saturate at `isize::MIN`. -/
theorem saturating_shortcut_exact (le re : Int) (k : Nat) (hle : le ≤ (isizeMax : Int)) :
    (le > min (re + (k : Int)) (isizeMax : Int)) ↔ (le > re + (k : Int)) := by
  omega

/-- the clamp of case 4 only matters above `isize::MAX`: for a precision that fits `isize` the shortcut reads the precision itself -/
theorem precision_clamp_id (p : Nat) (hp : p ≤ isizeMax) : min p isizeMax = p := Nat.min_eq_left hp

/-- core `Ord`/`PartialOrd` of two numbers of one type — full -/
theorem ord_exact {o : Oracle} (ho : o.Sound) (x y : Num) (wx : x.WF) (wy : y.WF)
    (px : x.PrecOK) (py : y.PrecOK) {r : Ordering} (h : ordCmp o x y = some r) :
    some r = XVal.cmp x.value y.value :=
  ordCmp_spec ho x y wx wy px py h

/-- rational AbsOrd — full -/
theorem ratio_abs_cmp_ratio (n1 : Int) {d1 : Nat} (h1 : 0 < d1) (n2 : Int) {d2 : Nat} (h2 : 0 < d2) :
    some (ratReprCmp true n1 d1 n2 d2) = XVal.absCmp (.fin n1 d1) (.fin n2 d2) :=
  ratReprCmp_abs_spec n1 h1 n2 h2
theorem ratio_abs_cmp_float {o : Oracle} (ho : o.Sound) (n : Int) {d : Nat} (hd : 0 < d) {B : Nat}
    (hB : 2 ≤ B) (s e : Int) (p : Nat) :
    some (ratReprCmpFbig o true n d B s e) = XVal.absCmp (.fin n d) (Num.fbig B s e p).value :=
  ratReprCmpFbig_abs_spec ho n hd hB s e p

-- ================================================================== NumHash

/-- `M = 2^127 - 1` is prime (the feed lives in the field `ℤ/M`) -/
theorem mersenne127_prime : Nat.Prime M127 := M127_prime

/-- NumHash: numerically equal numbers of any two types (UBig, IBig, FBig⟨B⟩, RBig, Relaxed incl.
    non-reduced ones, every primitive integer, f32, f64) feed the same `i128`. -/
theorem num_hash_value {x y : Num} (hx : x.HashOK) (hy : y.HashOK) {n1 n2 : Int} {d1 d2 : Nat}
    (vx : x.value = .fin n1 d1) (vy : y.value = .fin n2 d2) (h : n1 * d2 = n2 * d1) :
    numHashFeed x = numHashFeed y :=
  numHash_value hx hy vx vy h

/-- NumHash at the infinities: `FBig ±∞` (any base) and an infinite f32/f64 — which `num_eq` each
    other — feed the same `i128` (both 0: num-order's INF constants are mapped to 0 by
    `i128::num_hash`, a zero significand hashes to 0) -/
theorem num_hash_inf (B : Nat) (e : Int) (p : Nat) (t : FloatTy) (bits : Nat) {neg : Bool}
    (h : decode t bits = .inf neg) :
    numHashFeed (.fbig B 0 e p) = numHashFeed (.pfloat t bits) :=
  numHash_inf B e p t bits h

-- ------------------------------------------------------------------ FixedMersenneInt<127,1> mirrored

/-- num-modular `FixedMersenne::<127,1>::reduce_single` (fold loop + conditional subtraction) is
    reduction modulo `2^127 - 1`, for every input -/
theorem mersenne_reduce_single (v : Nat) : Mersenne.reduceSingle v = v % M127 := reduceSingle_eq v

/-- `reduce_double` with its TWO unrolled folds is reduction modulo `2^127 - 1` on every product of
    two residues (`v < 2^254`): the carry after the second fold is 0 and no `u128` sum overflows
    (`reduceDouble_no_overflow`) -/
theorem mersenne_reduce_double {v : Nat} (hv : v < 2 ^ 254) : Mersenne.reduceDouble v = v % M127 :=
  reduceDouble_eq hv

/-- `Reducer::mul`, `Reducer::pow` (binary exponentiation with the `1`/`2` shortcuts),
    `Reducer::inv` (extended Euclid `u128::invm`) on residues -/
theorem mersenne_mul {a b : Nat} (ha : a < M127) (hb : b < M127) : Mersenne.mul a b = a * b % M127 :=
  mul_eq ha hb
theorem mersenne_pow {b : Nat} (hb : b < M127) (e : Nat) : Mersenne.pow b e = b ^ e % M127 :=
  pow_eq hb e
theorem mersenne_inv {a : Nat} (ha : a < M127) (h0 : a ≠ 0) :
    Mersenne.inv a = some (invMod a) ∧ a * invMod a % M127 = 1 :=
  ⟨inv_eq ha h0, invMod_spec (by rw [Nat.mod_eq_of_lt ha]; exact h0)⟩

/-- what the driver executes (`numHashFeedM`: every `FixedMersenneInt` operation mirrored, `none` =
    an `unwrap()` on a missing inverse) never panics and equals the arithmetic description … -/
theorem num_hash_mirrored {x : Num} (hx : x.HashOK) : numHashFeedM x = some (numHashFeed x) :=
  numHashFeedM_eq hx

/-- … hence the hash clause holds for the mirrored code: equal values feed the same `i128` -/
theorem num_hash_value_mirrored {x y : Num} (hx : x.HashOK) (hy : y.HashOK) {n1 n2 : Int}
    {d1 d2 : Nat} (vx : x.value = .fin n1 d1) (vy : y.value = .fin n2 d2) (h : n1 * d2 = n2 * d1) :
    numHashFeedM x = numHashFeedM y ∧ (numHashFeedM x).isSome :=
  numHashM_value hx hy vx vy h

/-- the feed is the canonical hash of the exact value `n/d` (`hashQ`: `±(|n| mod M)·(d mod M)⁻¹`)
    whenever the stored denominator is a unit mod `M` … -/
theorem hash_is_function_of_value {x : Num} (hx : x.HashOKPre) {n : Int} {d : Nat}
    (vx : x.value = .fin n d) : numHashFeedPre x = hashQ n d ∧ ¬ M127 ∣ d :=
  numHashFeedPre_eq_hashQ hx vx

/-- … and the current code differs from that body only by first cancelling a common factor `M`
    (so the `M | den` corner — the INF/NEGINF constants — is reached only when `M` divides the
    denominator of the REDUCED fraction, for every representation of the value) -/
theorem rat_hash_eq_body {n : Int} {d : Nat} (h : ¬ (M127 ∣ d ∧ (M127 : Int) ∣ n ∧ n ≠ 0)) :
    ratHash n d = ratHashPre n d :=
  ratHash_eq_ratHashPre h

-- ================================================================== non-vacuity / concrete instances

/-- 2.5 as FBig base 10 (`25·10⁻¹`) equals RBig 5/2; NaN is incomparable; `-0.0 = 0`;
    FBig `+∞` equals f64 `+∞`; a huge exponent is decided without materialising it. -/
example : numPartialCmp Oracle.coarse (.fbig 10 25 (-1) 2) (.rbig 5 2) = some (some .eq) := by
  decide +kernel
example : numPartialCmp Oracle.coarse (.ubig 5) (.pfloat .f64 0x7ff8000000000000) = some none := by
  decide +kernel
example : numPartialCmp Oracle.coarse (.ibig 0) (.pfloat .f64 0x8000000000000000) = some (some .eq) := by
  decide +kernel
example : numPartialCmp Oracle.coarse (.fbig 2 0 1 0) (.pfloat .f32 0x7f800000) = some (some .eq) := by
  decide +kernel
example : numPartialCmp Oracle.coarse (.fbig 10 1 (10 ^ 15) 1) (.ubig 5) = some (some .gt) := by
  decide +kernel
example : (Num.fbig 10 25 (-1) 2).WF ∧ (Num.rbig 5 2).WF := by
  refine ⟨⟨by norm_num, fun h => absurd h (by norm_num)⟩, by norm_num [Num.WF]⟩
/-- the repaired inputs: 0 < 2⁻⁵, IBig 5 < +∞, |FBig −5| = |UBig 5|, Relaxed M/M hashes like 1 -/
example : numPartialCmp Oracle.coarse (.ubig 0) (.pfloat .f64 0x3fa0000000000000) = some (some .lt) := by
  decide +kernel
example : numPartialCmp Oracle.coarse (.ibig 5) (.pfloat .f64 0x7ff0000000000000) = some (some .lt) := by
  decide +kernel
example : absCmp Oracle.coarse (.fbig 2 (-5) 0 3) (.ubig 5) = some .eq := by decide +kernel
example : numHashFeed (.fbig 10 25 (-1) 2) = numHashFeed (.pfloat .f64 0x4004000000000000) :=
  num_hash_value (x := .fbig 10 25 (-1) 2) (y := .pfloat .f64 0x4004000000000000)
    ⟨by norm_num, by norm_num [M127]⟩
    (by norm_num [Num.HashOK, Num.HashOKPre, FloatTy.mantBits, FloatTy.expBits])
    (n1 := 25) (d1 := 10) (n2 := 5 * 2 ^ 50) (d2 := 2 ^ 51) (by rfl) (by rfl)
    (by norm_num)

-- ================================================================== non-vacuity of every hypothesis-carrying theorem

/-- `spec_*`: 5/2 < 8/3 as `fin` values -/
example : XVal.cmp (.fin 5 2) (.fin 8 3) = some .lt ∧ fracQ 5 2 < fracQ 8 3 :=
  ⟨by decide, (spec_lt (by norm_num) (by norm_num)).1 (by decide)⟩

/-- `enclosure_is_log2` / `filter_sound`: 5 is enclosed by (2, 3), 20 by (4, 5), hence 5 < 20 -/
example : Encl (5 : ℝ) (.fin 2, .fin 3) ∧ Encl (20 : ℝ) (.fin 4, .fin 5) := by
  constructor <;> (unfold Encl EB.le2 EB.ge2; constructor <;> norm_num)
example (h1 : Encl (5 : ℝ) (.fin 2, .fin 3)) (h2 : Encl (20 : ℝ) (.fin 4, .fin 5)) : (5 : ℝ) < 20 :=
  filter_sound h1 h2 (by decide)

/-- the pairwise theorems instantiated with the proved-sound bit-length oracle -/
example : some (floatReprCmpUbig Oracle.coarse false 10 25 (-1) 3)
    = XVal.cmp (Num.fbig 10 25 (-1) 2).value (Num.ubig 3).value :=
  float_cmp_ubig coarse_sound (by norm_num) 25 (-1) 3 2
example : some (floatReprCmpIbig Oracle.coarse false 16 (-255) 7 (-(2 ^ 36)))
    = XVal.cmp (Num.fbig 16 (-255) 7 2).value (Num.ibig (-(2 ^ 36))).value :=
  float_cmp_ibig coarse_sound (by norm_num) (-255) 7 (-(2 ^ 36)) 2
example : FWf 25 (-1) ∧ FWf 0 1 ∧ FWf 0 0 :=
  ⟨fun h => absurd h (by norm_num), fun _ => Or.inr (Or.inl rfl), fun _ => Or.inl rfl⟩
example : some (reprNumCmp Oracle.coarse 10 25 (-1) 2 5 (-1))
    = XVal.cmp (Num.fbig 10 25 (-1) 2).value (Num.fbig 2 5 (-1) 3).value :=
  float_cmp_float coarse_sound (by norm_num) (by norm_num) 25 (-1) 5 (-1) 2 3
    (fun h => absurd h (by norm_num)) (fun h => absurd h (by norm_num))
example : some (ratReprCmpUbig Oracle.coarse false 15 6 2) = XVal.cmp (.fin 15 6) (.fin 2 1) :=
  ratio_cmp_ubig coarse_sound 15 (by norm_num) 2
example : some (ratReprCmpFbig Oracle.coarse false 15 6 10 25 (-1)) = XVal.cmp (.fin 15 6) (Num.fbig 10 25 (-1) 2).value :=
  ratio_cmp_float coarse_sound 15 (by norm_num) (by norm_num) 25 (-1) 2
example : some (ratReprCmp false 15 6 5 2) = XVal.cmp (.fin 15 6) (.fin 5 2) :=
  ratio_cmp_ratio 15 (by norm_num) 5 (by norm_num)

/-- `num_ord_exact` on a non-reduced Relaxed against an FBig, and on the NaN case -/
example : (some .eq : Option Ordering) = XVal.cmp (Num.relaxed 15 6).value (Num.fbig 10 25 (-1) 2).value :=
  num_ord_exact coarse_sound (.relaxed 15 6) (.fbig 10 25 (-1) 2) (by norm_num [Num.WF])
    ⟨by norm_num, fun h => absurd h (by norm_num)⟩ (by decide +kernel)
example : (none : Option Ordering) = XVal.cmp (Num.ubig 7).value (Num.pfloat .f32 0x7fc00000).value :=
  num_ord_exact coarse_sound (.ubig 7) (.pfloat .f32 0x7fc00000) trivial trivial (by decide +kernel)
example : (true : Bool) = (XVal.cmp (Num.rbig 5 2).value (Num.relaxed 15 6).value == some .eq) :=
  num_eq_exact coarse_sound (.rbig 5 2) (.relaxed 15 6) (by norm_num [Num.WF]) (by norm_num [Num.WF])
    (by decide +kernel)

/-- `abs_ord_exact` / `float_abs_cmp_same_base` / `ord_exact`: precision hypotheses are satisfiable -/
example : PrecOK 10 (-1234) 4 ∧ PrecOK 10 99999 0 ∧ (Num.fbig 10 (-1234) (-2) 4).PrecOK :=
  ⟨fun _ => by norm_num [isizeMax], fun h => absurd rfl h, fun _ => by norm_num [isizeMax]⟩
example : some Ordering.gt = XVal.absCmp (Num.fbig 10 (-1234) (-2) 4).value (Num.ibig 12).value :=
  abs_ord_exact coarse_sound (.fbig 10 (-1234) (-2) 4) (.ibig 12)
    ⟨by norm_num, fun h => absurd h (by norm_num)⟩ trivial (fun _ => by norm_num [isizeMax]) trivial
    (by decide +kernel)
example : some (reprCmpSameBase Oracle.coarse true 10 (-1234) (-2) 99 0 (some (4, 2)))
    = XVal.absCmp (Num.fbig 10 (-1234) (-2) 4).value (Num.fbig 10 99 0 2).value :=
  float_abs_cmp_same_base coarse_sound (by norm_num) (-1234) (-2) 99 0 4 2 (fun _ => by norm_num [isizeMax])
    (fun _ => by norm_num [isizeMax])

/-- a precision above `isize::MAX` (`usize::MAX`, clamped by case 4 since /repo ee43486) meets `PrecOK`; the witness of the
    repaired finding: `FBig(1, precision 10).cmp(FBig(5, precision usize::MAX))` is `Less` -/
example : PrecOK 10 5 18446744073709551615 :=
  fun _ => by
    have h : min 18446744073709551615 isizeMax + 1 = 1 + (min 18446744073709551615 isizeMax) := Nat.add_comm _ _
    rw [h, Nat.pow_add]
    exact Nat.lt_of_lt_of_le (by norm_num) (Nat.le_mul_of_pos_right _ (Nat.pow_pos (by norm_num)))
example : some (reprCmpSameBase Oracle.coarse false 10 1 0 5 0 (some (10, 18446744073709551615))) = some Ordering.lt := by
  decide +kernel

/-- NumHash hypotheses: an FBig, a non-reduced Relaxed whose parts both carry the factor `M`, f32 -/
example : (Num.fbig 16 (-255) 7 2).HashOK ∧ (Num.relaxed (3 * M127) (6 * M127)).HashOK ∧
    (Num.pfloat .f32 0x3f000000).HashOK := by
  refine ⟨⟨by norm_num, by norm_num [M127]⟩, by norm_num [Num.HashOK, M127], ?_⟩
  norm_num [Num.HashOK, Num.HashOKPre, FloatTy.mantBits, FloatTy.expBits]
example : numHashFeed (.relaxed (3 * M127) (6 * M127)) = numHashFeed (.pfloat .f32 0x3f000000) :=
  num_hash_value (x := .relaxed (3 * M127) (6 * M127)) (y := .pfloat .f32 0x3f000000)
    (by norm_num [Num.HashOK, M127]) (by norm_num [Num.HashOK, Num.HashOKPre, FloatTy.mantBits, FloatTy.expBits])
    (n1 := 3 * M127) (d1 := 6 * M127) (n2 := 2 ^ 23) (d2 := 2 ^ 24) (by rfl) (by rfl)
    (by norm_num [M127])
example : ratHash 15 6 = ratHashPre 15 6 := rat_hash_eq_body (by norm_num [M127])

/-- Mersenne model: a 254-bit product is reduced by two folds; an inverse is found -/
example : Mersenne.reduceDouble ((M127 - 1) * (M127 - 1)) = 1 := by
  rw [mersenne_reduce_double (by norm_num [M127])]; decide +kernel
example : Mersenne.inv 3 = some (invMod 3) ∧ 3 * invMod 3 % M127 = 1 :=
  mersenne_inv (by norm_num [M127]) (by norm_num)
example : numHashFeedM (.relaxed (3 * M127) (6 * M127)) = numHashFeedM (.pfloat .f32 0x3f000000) :=
  (num_hash_value_mirrored (x := .relaxed (3 * M127) (6 * M127)) (y := .pfloat .f32 0x3f000000)
    (by norm_num [Num.HashOK, M127]) (by norm_num [Num.HashOK, Num.HashOKPre, FloatTy.mantBits, FloatTy.expBits])
    (n1 := 3 * M127) (d1 := 6 * M127) (n2 := 2 ^ 23) (d2 := 2 ^ 24) (by rfl) (by rfl)
    (by norm_num [M127])).1
example : decode .f64 0xfff0000000000000 = .inf true := by decide +kernel

-- ================================================================== AS-IS statements about the PRE-FIX code
-- (`Model/Cross/Pre.lean`, `numHashFeedPre`: /repo before the C14 fix commits; nothing below is
--  about the current code — they record why the fixes were needed)

/-- before 8a8c152: `UBig::ZERO.num_partial_cmp(&2^-5)` was `Greater` -/
theorem prefix_num_ord_zero :
    ubigNumOrdFloatPre .f64 0 (.fin (2 ^ 52) (-57)) = some .gt ∧
      XVal.cmp (.fin 0 1) (decodedValue (.fin (2 ^ 52) (-57))) = some .lt ∧
      defectA (.nat 0) (2 ^ 52) (-57) = true ∧ (Decoded.fin (2 ^ 52) (-57)).InRange .f64 :=
  ubigNumOrdFloatPre_counterexample

/-- before d12bb0c: `IBig 5` against `+∞` was `Greater` -/
theorem prefix_num_ord_inf :
    ibigNumOrdFloatPre .f64 5 (.inf false) = some .gt ∧
      XVal.cmp (.fin 5 1) (decodedValue (.inf false)) = some .lt ∧ defectF (.int 5) false = true :=
  ibigNumOrdFloatPre_inf_counterexample

/-- before 2670e13, with a sound oracle: `FBig(-5).abs_cmp(UBig 5) = Less`,
    `FBig(5).abs_cmp(IBig -5) = Greater` -/
theorem prefix_abs_ord_ubig :
    Oracle.noFilter.Sound ∧ floatReprCmpUbigPre Oracle.noFilter true 2 (-5) 0 5 = .lt ∧
      XVal.absCmp (Num.fbig 2 (-5) 0 3).value (Num.ubig 5).value = some .eq :=
  floatReprCmpUbigPre_abs_counterexample
theorem prefix_abs_ord_ibig :
    Oracle.noFilter.Sound ∧ floatReprCmpIbigPre Oracle.noFilter true 2 5 0 (-5) = .gt ∧
      XVal.absCmp (Num.fbig 2 5 0 3).value (Num.ibig (-5)).value = some .eq :=
  floatReprCmpIbigPre_abs_counterexample

/-- before 3c2d452 the `M | den` corner was NOT consistent: the reduced `RBig 1/1` and the
    non-reduced `Relaxed M/M` are equal numbers that fed 1 and 0 … -/
theorem prefix_num_hash_corner :
    numHashFeedPre (.rbig 1 1) ≠ numHashFeedPre (.relaxed (M127 : Int) M127) ∧
      (1 : Int) * (M127 : Nat) = (M127 : Int) * (1 : Nat) :=
  ⟨ratHashPre_corner_counterexample, ratHashPre_corner_same_value.2.2⟩

/-- … and that was the only inconsistency: outside rationals with BOTH stored parts divisible by `M`
    the old code already fed a function of the value -/
theorem prefix_num_hash_value_weak {x y : Num} (hx : x.HashOKWeak) (hy : y.HashOKWeak) {n1 n2 : Int}
    {d1 d2 : Nat} (vx : x.value = .fin n1 d1) (vy : y.value = .fin n2 d2) (h : n1 * d2 = n2 * d1) :
    numHashFeedPre x = numHashFeedPre y :=
  numHashPre_value_weak hx hy vx vy h

end Dashu.Props.C14
