import Dashu.Proofs.Cross.Filter
/-
  C14 — Cross-type numeric comparison and hashing agree with exact values.

  Property theorems only (helper lemmas live in `Dashu/Proofs/Cross`).  The comparison code consults
  f32 log₂ estimates to skip exact work; the estimators are a PARAMETER (`Oracle`) and every theorem
  is proved for every oracle satisfying the enclosure hypothesis `Oracle.Sound`
  (`lb ≤ log₂|x| ≤ ub`, `Proofs/Cross/Encl.lean`): the estimate path and the exact path cannot
  disagree.  The specification side is `XVal.cmp` on the exact values (`Num.value`).
-/
namespace Dashu.Props.C14
open Dashu.Model.Cross

/-- float/src/cmp.rs `repr_cmp_ubig::<B, false>` (NumOrd FBig/Repr × UBig, unsigned primitives) -/
theorem float_cmp_ubig {o : Oracle} (ho : o.Sound) {B : Nat} (hB : 2 ≤ B) (s e : Int) (r p : Nat) :
    some (floatReprCmpUbig o false B s e r) = XVal.cmp (Num.fbig B s e p).value (Num.ubig r).value :=
  floatReprCmpUbig_spec ho hB s e r p

end Dashu.Props.C14
