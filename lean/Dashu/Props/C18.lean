import Dashu.Proofs.Ratio.FBigSpecial
import Dashu.Gen.Misc
import Mathlib.Order.Compare
/-
  C18 — Rational approximation functions return the optimal fraction they promise.

  Property theorems only (proofs in `Dashu/Proofs/Ratio/{Simplify,Farey}.lean`).  The model
  (`Dashu/Model/Ratio/Simplify.lean`) mirrors `rational/src/simplify.rs`; `is_simpler_than` is
  the text regenerated from the source on every run (`Dashu.Gen.is_simpler_than`, pairs are
  (numerator, denominator)).  Nothing bounds numerators, denominators or limits.
-/
namespace Dashu.Props.C18
open Dashu Dashu.Model Dashu.Model.Ratio

-- ------------------------------------------------------------------ is_simpler_than

/-- the documented order (rational/src/simplify.rs, doc of `simplest_in`): smaller denominator
    first, then smaller numerator magnitude, then positive before negative -/
def Simpler (a b : Int × Int) : Prop :=
  a.2 < b.2 ∨ (a.2 = b.2 ∧
    (a.1.natAbs < b.1.natAbs ∨ (a.1.natAbs = b.1.natAbs ∧ 0 ≤ a.1 ∧ b.1 < 0)))

instance (a b : Int × Int) : Decidable (Simpler a b) := by unfold Simpler; infer_instance

theorem sign_pair_gt_iff (a b : Int × Int) :
    GluePrelude.gt_ (GluePrelude.sign a) (GluePrelude.sign b) = true ↔ 0 ≤ a.1 ∧ b.1 < 0 := by
  simp only [GluePrelude.gt_, GluePrelude.sign, GluePrelude.HasSign.sign, beq_iff_eq]
  by_cases hx : a.1 < 0 <;> by_cases hy : b.1 < 0 <;> simp [hx, hy, compare] <;> omega

/-- **`RBig::is_simpler_than`** (text regenerated from rational/src/simplify.rs on every run)
    is the documented lexicographic order.  (Before fix commit 766946e the body was the
    conjunction of the three comparisons and this statement was false: (1,2) vs (1,3).) -/
theorem is_simpler_than_lexicographic (a b : Int × Int) :
    Dashu.Gen.is_simpler_than a b = true ↔ Simpler a b := by
  unfold Dashu.Gen.is_simpler_than Simpler
  simp only [GluePrelude.cmp, GluePrelude.denominator, GluePrelude.abs_cmp, GluePrelude.numerator]
  rcases lt_trichotomy a.2 b.2 with h | h | h
  · rw [compare_lt_iff_lt.mpr h]; simp [h]
  · rw [compare_eq_iff_eq.mpr h]
    rcases lt_trichotomy a.1.natAbs b.1.natAbs with g | g | g
    · rw [compare_lt_iff_lt.mpr g]; simp [h, g]
    · rw [compare_eq_iff_eq.mpr g]
      simp only [h, g, lt_irrefl, true_and, false_or]
      exact sign_pair_gt_iff a b
    · rw [compare_gt_iff_gt.mpr g]
      simp only [h, lt_irrefl, true_and, false_or, Bool.false_eq_true, false_iff, not_or, not_and]
      exact ⟨by omega, by omega⟩
  · rw [compare_gt_iff_gt.mpr h]
    simp only [Bool.false_eq_true, false_iff, not_or, not_and]
    exact ⟨by omega, by omega⟩

/-- the former counterexample now goes the documented way -/
example : Dashu.Gen.is_simpler_than (1, 2) (1, 3) = true ∧
    Dashu.Gen.is_simpler_than (1, 3) (-1, 3) = true ∧
    Dashu.Gen.is_simpler_than (-1, 3) (1, 3) = false := by decide

-- ------------------------------------------------------------------ simplest_in

/-- **`RBig::simplest_in`** (all end points: any order, any signs, equal, zero, integers):
    equal end points give that number; otherwise the result is a reduced fraction strictly
    between the end points, and EVERY fraction `p/s` strictly between them has `s ≥` its
    denominator and `|p| ≥` its numerator magnitude — so none has a smaller denominator, or the
    same denominator and a smaller numerator magnitude. -/
theorem simplest_in_optimal (l u : Q) (hld : 0 < l.den) (hud : 0 < u.den) :
    (l.val = u.val → ∃ r, simplestIn l u = .ok (some r) ∧ Reduced r ∧ r.val = l.val) ∧
    (l.val ≠ u.val → ∃ r, simplestIn l u = .ok (some r) ∧ Reduced r ∧
      min l.val u.val < r.val ∧ r.val < max l.val u.val ∧
      ∀ (p : Int) (s : Nat), 0 < s → min l.val u.val < (p : Rat) / s →
        (p : Rat) / s < max l.val u.val → r.den ≤ s ∧ r.num.natAbs ≤ p.natAbs) :=
  simplestIn_spec l u hld hud

/-- the continued-fraction descent: sound, simultaneously minimal in numerator and denominator,
    and terminating within `denL + denR + 1` iterations -/
theorem simplest_descent (fuel : Nat) (a b c d : Int) (h : SInv a b c d)
    (hf : (b + d).toNat < fuel) :
    ∃ A B, sb fuel a b c d = some (A, B) ∧ 0 < A ∧ 0 < B ∧ a * B < A * b ∧ A * d < c * B ∧
      ∀ p s : Int, 0 < s → a * s < p * b → p * d < c * s → A ≤ p ∧ B ≤ s :=
  sb_spec fuel a b c d h hf

/-- the loop of the code (convergent matrix accumulated on the fly) is that descent -/
theorem simplest_loop_is_descent (fuel : Nat) (a b c d n0 d0 n1 d1 : Int) (h : SInv a b c d) :
    simplestLoop fuel ⟨a, b, c, d, n0, d0, n1, d1⟩ =
      .ok ((sb fuel a b c d).map fun AB => (n0 * AB.1 + n1 * AB.2, d0 * AB.1 + d1 * AB.2)) :=
  simplestLoop_eq_sb fuel a b c d n0 d0 n1 d1 h

example : simplestIn ⟨1234, 5678⟩ ⟨1235, 5679⟩ = .ok (some ⟨5, 23⟩) := by decide
example : simplestIn ⟨0, 1⟩ ⟨-1, 2⟩ = .ok (some ⟨-1, 3⟩) := by decide
example : simplestIn ⟨-1, 2⟩ ⟨1, 3⟩ = .ok (some ⟨0, 1⟩) := by decide

-- ------------------------------------------------------------------ Farey neighbours

/-- **`farey_neighbors`**: for `−1 ≤ x < 1` the walk terminates (within `2·limit + 2` steps)
    with `left ≤ x < right`, `right.num·left.den − left.num·right.den = 1`, both denominators
    `≤ limit` and their sum `> limit` -/
theorem farey_neighbors_adjacent (x : Q) (limit : Nat) (hx : 0 < x.den) (hl : 1 ≤ limit)
    (h1 : -1 ≤ x.val) (h2 : x.val < 1) :
    ∃ l r, fareyNeighbors x limit = .ok (some (l, r)) ∧ FInv x limit l r ∧
      limit < l.den + r.den :=
  fareyNeighbors_spec x limit hx hl h1 h2

/-- such a pair is consecutive in the Farey sequence of order `limit` -/
theorem farey_neighbors_consecutive (x : Q) (limit : Nat) (l r : Q) (h : FInv x limit l r)
    (hsum : limit < l.den + r.den) (p : Int) (q : Nat) (hq : 0 < q)
    (h1 : l.val < (p : Rat) / q) (h2 : (p : Rat) / q < r.val) : limit < q :=
  h.consecutive hsum p q hq h1 h2

/-- **`next_up` / `next_down`** (every reduced `x`, every `limit ≥ 1`; `limit = 0` panics):
    reduced result with denominator `≤ limit`, strictly above / below `x`, and no fraction with a
    denominator `≤ limit` strictly between — the adjacent element of the Farey sequence. -/
theorem next_up_down_adjacent (up : Bool) (x : Q) (limit : Nat) (hx : Reduced x) :
    (limit = 0 → nextUpDown up x limit = .error .divideByZero) ∧
    (1 ≤ limit → ∃ r, nextUpDown up x limit = .ok (some r) ∧ Reduced r ∧ r.den ≤ limit ∧
      (if up then x.val < r.val else r.val < x.val) ∧
      ∀ (p : Int) (q : Nat), 0 < q →
        (if up then x.val < (p : Rat) / q ∧ (p : Rat) / q < r.val
         else r.val < (p : Rat) / q ∧ (p : Rat) / q < x.val) → limit < q) :=
  nextUpDown_spec up x limit hx

/-- the early return of `next_up` / `next_down` (`limit.is_one() && self.is_int()`, fix ef17af6),
    mirrored in the model: the neighbours of the integer `n` in the Farey sequence of order 1 are
    `n ± 1` -/
theorem next_up_down_limit_one_int (up : Bool) (n : Int) :
    nextUpDown up ⟨n, 1⟩ 1 = .ok (some ⟨if up then n + 1 else n - 1, 1⟩) :=
  nextUpDown_limit_one up n

/-- **`nearest`**: `Exact(x)` iff the denominator fits; otherwise the closer of `next_down` and
    `next_up` (the lower one on a tie) tagged with the sign of `result − x`
    (`negative = true` ⇔ the result is below `x`). -/
theorem nearest_closer (x : Q) (limit : Nat) (hx : Reduced x) :
    (limit = 0 → nearest x limit = .error .divideByZero) ∧
    (1 ≤ limit → x.den ≤ limit → nearest x limit = .ok (some (.exact x))) ∧
    (1 ≤ limit → limit < x.den → ∃ dn up, nextUpDown false x limit = .ok (some dn) ∧
      nextUpDown true x limit = .ok (some up) ∧ dn.val < x.val ∧ x.val < up.val ∧
      ((up.val - x.val < x.val - dn.val ∧ nearest x limit = .ok (some (.inexact up false))) ∨
       (x.val - dn.val ≤ up.val - x.val ∧ nearest x limit = .ok (some (.inexact dn true))))) :=
  nearest_spec x limit hx

-- ------------------------------------------------------------------ simplest_from_f32 / f64 / float

/-- the tail shared by `simplest_from_f32/f64/float` (`pickSimplest`): for a positive interval
    with reduced end points the result is a reduced fraction of the closed interval, an end point
    only if allowed, and at least as simple (denominator, then numerator magnitude) as every
    fraction strictly inside and as every allowed end point -/
theorem pick_simplest_optimal (lo hi : Q) (hlo : Reduced lo) (hhi : Reduced hi) (hpos : 0 < lo.num)
    (hlt : lo.val < hi.val) (inclLo inclHi : Bool) :
    ∃ r, pickSimplest simplerSpec lo hi inclLo inclHi = .ok (some r) ∧
      SimplestOfSet lo hi inclLo inclHi r :=
  pickSimplest_spec lo hi hlo hhi hpos hlt inclLo inclHi

/-- `simplest_from_f32` / `simplest_from_f64` over the interval `roundingInterval` (half an ulp to
    each side, a quarter below a power of two, end points iff the mantissa is even): NaN/inf ⇒
    `None`, ±0 ⇒ 0, otherwise the sign of the float times the simplest element of that interval.
    That the interval is the exact preimage of the float under IEEE round-to-nearest-even, and hence
    the full statement "simplest fraction that converts back to exactly the float", is
    `Props/C18Link.lean` (composition with builder-conv's IEEE specification). -/
theorem simplest_from_float_interval (eb mb bits : Nat) :
    (floatDecode eb mb bits = none →
      simplestFromFloat simplerSpec eb mb bits = .ok (some none)) ∧
    (∀ man exp, floatDecode eb mb bits = some (man, exp) →
      (man = 0 → simplestFromFloat simplerSpec eb mb bits = .ok (some (some Q.zero))) ∧
      (man ≠ 0 → ∃ lo hi s,
        reduce (roundingInterval mb (1 - (2 ^ (eb - 1) - 1) - mb) man.natAbs exp).1 = .ok lo ∧
        reduce (roundingInterval mb (1 - (2 ^ (eb - 1) - 1) - mb) man.natAbs exp).2 = .ok hi ∧
        lo.val = (roundingInterval mb (1 - (2 ^ (eb - 1) - 1) - mb) man.natAbs exp).1.val ∧
        hi.val = (roundingInterval mb (1 - (2 ^ (eb - 1) - 1) - mb) man.natAbs exp).2.val ∧
        simplestFromFloat simplerSpec eb mb bits =
          .ok (some (some (mulSign s (decide (man < 0))))) ∧
        SimplestOfSet lo hi (decide (man.natAbs % 2 = 0)) (decide (man.natAbs % 2 = 0)) s)) :=
  simplestFromFloat_spec eb mb bits

-- 0x3dcccccd = 0.1f32 ↦ 1/10;  NaN ↦ None;  2^100 ↦ 2^100 − 2^75 (tie to the even mantissa)
example : simplestFromFloat simplerSpec 8 23 0x3dcccccd = .ok (some (some ⟨1, 10⟩)) := by decide
example : simplestFromFloat simplerSpec 8 23 0x7fc00000 = .ok (some none) := by decide
example : simplestFromFloat simplerSpec 8 23 0x71800000 =
    .ok (some (some ⟨2 ^ 100 - 2 ^ 75, 1⟩)) := by decide

-- ------------------------------------------------------------------ simplest_from_float (FBig)

/-- **each rounding mode of dashu-float is a window** (builder-float's definition `Float.roundInt`
    of the modes): a number of magnitude `y ≥ 0` and sign `neg` rounds to `±n` iff
    `n − dlo ≤ y ≤ n + dhi` for the window of (mode, sign) — toward zero `[n, n+1)`, away
    `(n−1, n]`, half-away `[n−½, n+½)`, half-even `[n−½, n+½]` with the ties iff `n` is even -/
theorem mode_is_window (m : FMode) (neg : Bool) (y : Rat) (hy : 0 ≤ y) (n : Nat) :
    Float.roundInt m (if neg then -y else y) = (if neg then -(n : Int) else (n : Int)) ↔
      InW (windowOf m neg) n y :=
  roundInt_window m neg y hy n

/-- **the rounding set of an FBig value** (every base `b ≥ 2`, precision `p ≥ 1`, mode, `p`-digit
    significand `S`, exponent, sign): `x ≠ 0` rounds to `± S·b^e` at `p` digits (`RoundsTo`: binade
    `t` of `|x|`, quantum `b^(t−p)`, `Float.roundInt`) iff it has the float's sign and `|x|` lies in
    `[S·b^e − dlo·below, S·b^e + dhi·b^e]`, `below = b^e` — or `b^(e−1)` when `S = b^(p−1)` — with the
    window's inclusion flags.  This is the REQUIRED behaviour of `ErrorBounds`; the complement of
    its agreement with the code is the recorded finding. -/
theorem fbig_rounding_set_exact (m : FMode) (b p S : Nat) (hb : 2 ≤ b) (hp : 1 ≤ p)
    (hS1 : b ^ (p - 1) ≤ S) (hS2 : S < b ^ p) (e : Int) (neg : Bool) (x : Rat) (hx : x ≠ 0) :
    RoundsTo b m p x ((if neg then -(S : Rat) else (S : Rat)) * (b : Rat) ^ e) ↔
      ((x < 0 ↔ neg = true) ∧ FSet (windowOf m neg) b p S e |x|) :=
  fbig_rounding_set m b p S hb hp hS1 hS2 e neg x hx

/-- the integer table the model hands to `simplest_in` (`roundingSet Quirks.none`, units of
    `b^(e−1)/2`) is that set -/
theorem fbig_model_set_is_rounding_set (mode : RMode) (b p : Nat) (hb : 2 ≤ b) (neg : Bool)
    (S : Nat) (odd : Bool) (e : Int) (y : Rat) :
    let r := roundingSet Quirks.none mode b p neg S odd
    let sc : Rat := (b : Rat) ^ (e - 1) / 2
    ((r.1 : Rat) * sc ≤ y ∧ y ≤ (r.2.1 : Rat) * sc ∧ (y = (r.1 : Rat) * sc → r.2.2.1 = true) ∧
      (y = (r.2.1 : Rat) * sc → r.2.2.2 = true)) ↔ FSet (windowOf mode.toF neg) b p S e y :=
  modelSet_iff_FSet mode b p hb neg S odd e y

/-- **`simplest_from_float`, required behaviour, full statement** (every base `b ≥ 2`, mode,
    precision `p ≥ 1`): for a non-zero float `signif·b^exp` of at most `p` digits the result is a
    reduced fraction that rounds back to exactly that float, and every fraction that rounds to it
    is at most as simple.  (The code deviates through `ErrorBounds`: recorded finding; the driver
    reproduces the code from named deviations of this model.) -/
theorem simplest_from_fbig_exact (mode : RMode) (b : Nat) (hb : 2 ≤ b)
    (signif exp : Int) (p : Nat) (hs : signif ≠ 0) (hp : 1 ≤ p)
    (hdig : digitsB b (signif.natAbs + 1) signif.natAbs ≤ p) :
    ∃ r, simplestFromFBig Quirks.none simplerSpec mode b signif exp p = .ok (some r) ∧
      Reduced r ∧ RoundsTo b mode.toF p r.val ((signif : Rat) * (b : Rat) ^ exp) ∧
      ∀ (p' : Int) (s' : Nat), 0 < s' →
        RoundsTo b mode.toF p ((p' : Rat) / s') ((signif : Rat) * (b : Rat) ^ exp) →
        AsSimple r ⟨p', s'⟩ :=
  simplestFromFBig_exact mode b hb signif exp p hs hp hdig

-- non-vacuity: DBig 0.5 at precision 1, mode Zero: hypotheses hold and the result is 1/2;
-- 2e1 under HalfAway: 15
example : digitsB 10 (5 + 1) 5 ≤ 1 ∧
    simplestFromFBig Quirks.none simplerSpec .zero 10 5 (-1) 1 = .ok (some ⟨1, 2⟩) ∧
    simplestFromFBig Quirks.none simplerSpec .halfAway 10 2 1 1 = .ok (some ⟨15, 1⟩) := by
  decide

/-- **where the code's error bounds are the required ones** (complement of the recorded finding,
    as a theorem about the two settings of the deviation switches): for an EVEN base, a significand
    that is not a power of the base (`S ≠ b^(p−1)`: the spacing is the same on both sides), and — for
    `HalfEven` — a stored significand whose oddness coincides with the evenness of the padded one
    (`odd = (S even)`: precision larger than the digit count), the table the code uses
    (`Quirks.code`, proved equal to the regenerated `ErrorBounds` in `Props/C18Gen`) IS the rounding
    set (`Quirks.none`). -/
theorem code_set_is_rounding_set_on_class (mode : RMode) (b p : Nat) (neg : Bool) (S : Nat)
    (odd : Bool) (hb : b % 2 = 0) (hS : S ≠ b ^ (p - 1))
    (hpar : mode = .halfEven → odd = decide (S % 2 = 0)) :
    roundingSet Quirks.code mode b p neg S odd = roundingSet Quirks.none mode b p neg S odd := by
  have hhalf : (2 * (((b + 1) / 2 : Nat) : Int)) = ((2 * (b : Int)) / 2) := by omega
  cases mode <;>
    simp only [roundingSet, Quirks.code, Quirks.none, hS, false_and, and_false, not_true_eq_false,
      not_false_eq_true, and_true, if_false, if_true, hhalf, Bool.false_eq_true]
  · -- halfEven
    rw [hpar rfl]

/-- … hence on that class the code side of the model returns the optimal fraction: `simplestFromFBig`
    depends on the switches only through `roundingSet` when the precision is limited -/
theorem code_optimal_on_class (mode : RMode) (b : Nat) (hb : 2 ≤ b) (hb2 : b % 2 = 0)
    (signif exp : Int) (p : Nat) (hs : signif ≠ 0) (hp : 1 ≤ p)
    (hdig : digitsB b (signif.natAbs + 1) signif.natAbs ≤ p)
    (hS : signif.natAbs * b ^ (p - digitsB b (signif.natAbs + 1) signif.natAbs) ≠ b ^ (p - 1))
    (hpar : mode = .halfEven → decide (signif.natAbs % 2 = 1) =
      decide (signif.natAbs * b ^ (p - digitsB b (signif.natAbs + 1) signif.natAbs) % 2 = 0)) :
    simplestFromFBig Quirks.code simplerSpec mode b signif exp p =
      simplestFromFBig Quirks.none simplerSpec mode b signif exp p := by
  unfold simplestFromFBig
  simp only [if_neg hs, if_neg (by omega : ¬ p = 0), if_neg (by omega :
    ¬ digitsB b (signif.natAbs + 1) signif.natAbs > p)]
  rw [code_set_is_rounding_set_on_class mode b p _ _ _ hb2 hS hpar]

-- non-vacuity: DBig 1.25 at precision 4 under HalfEven (stored significand 125 odd, padded 1250 even)
example : (10 : Nat) % 2 = 0 ∧ digitsB 10 (125 + 1) 125 ≤ 4 ∧
    125 * 10 ^ (4 - digitsB 10 (125 + 1) 125) ≠ 10 ^ (4 - 1) ∧
    decide (125 % 2 = 1) = decide (125 * 10 ^ (4 - digitsB 10 (125 + 1) 125) % 2 = 0) ∧
    simplestFromFBig Quirks.code simplerSpec .halfEven 10 125 (-2) 4 = .ok (some ⟨5, 4⟩) := by
  decide

/-- value of a width of `errorBoundsFBig`: `w` units of `b^(e−1)/2` -/
theorem errWidth_val (b : Nat) (hb : 2 ≤ b) (e w : Int) :
    (⟨(scaleQ w b (e - 1)).num, (scaleQ w b (e - 1)).den * 2⟩ : Q).val =
      (w : Rat) * ((b : Rat) ^ (e - 1) / 2) := by
  obtain ⟨hv, hd⟩ := scaleQ_val w b hb (e - 1)
  rw [Q.val_def] at hv
  have hd' : ((scaleQ w b (e - 1)).den : Rat) ≠ 0 := by exact_mod_cast (by omega : (scaleQ w b (e - 1)).den ≠ 0)
  rw [Q.val_mk]
  push_cast
  rw [mul_div_assoc', ← hv]
  field_simp

/-- **`ErrorBounds::error_bounds`, required behaviour** (`errorBoundsFBig Quirks.none`, the function the
    driver prints for op `eb.bounds`; every mode, base `b ≥ 2`, limited precision, float of at most `p`
    digits): `|f| − (width on the side towards zero)` and `|f| + (width on the side away from zero)`
    are exactly the two ends of the table `roundingSet Quirks.none`, with its inclusion flags — the set
    that `fbig_model_set_is_rounding_set` / `fbig_rounding_set_exact` prove to be the set of numbers
    rounding to `f`; for a negative float `L` and `R` (and the flags) change sides.  The code's tables
    differ from this on the recorded finding's class (`Props/C18Gen.error_bounds_model_is_tables`). -/
theorem error_bounds_required_is_rounding_set (mode : RMode) (b : Nat) (hb : 2 ≤ b)
    (signif exp : Int) (p : Nat) (hp : p ≠ 0)
    (hn : ¬ digitsB b (signif.natAbs + 1) signif.natAbs > p) :
    ∃ L R iL iR, errorBoundsFBig Quirks.none false mode b signif exp p = .ok (some (L, R, iL, iR)) ∧
      (let neg := decide (signif < 0)
       let S := signif.natAbs * b ^ (p - digitsB b (signif.natAbs + 1) signif.natAbs)
       let e : Int := exp - (p - digitsB b (signif.natAbs + 1) signif.natAbs : Nat)
       let r := roundingSet Quirks.none mode b p neg S (decide (signif.natAbs % 2 = 1))
       let sc : Rat := (b : Rat) ^ (e - 1) / 2
       let c : Rat := ((2 * b * S : Nat) : Rat) * sc
       if neg then (c - R.val = (r.1 : Rat) * sc ∧ c + L.val = (r.2.1 : Rat) * sc ∧
                    iR = r.2.2.1 ∧ iL = r.2.2.2)
       else (c - L.val = (r.1 : Rat) * sc ∧ c + R.val = (r.2.1 : Rat) * sc ∧
             iL = r.2.2.1 ∧ iR = r.2.2.2)) := by
  unfold errorBoundsFBig
  simp only [if_neg hp, if_neg hn]
  generalize signif.natAbs * b ^ (p - digitsB b (signif.natAbs + 1) signif.natAbs) = S
  generalize exp - ((p - digitsB b (signif.natAbs + 1) signif.natAbs : Nat) : Int) = e
  generalize roundingSet Quirks.none mode b p (decide (signif < 0)) S
    (decide (signif.natAbs % 2 = 1)) = r
  obtain ⟨loN, hiN, iLo, iHi⟩ := r
  by_cases hneg : signif < 0
  · simp only [hneg, decide_true, if_true]
    refine ⟨_, _, _, _, rfl, ?_⟩
    simp only [errWidth_val b hb, and_true]
    constructor <;> (push_cast; ring)
  · simp only [hneg, decide_false, Bool.false_eq_true, if_false]
    refine ⟨_, _, _, _, rfl, ?_⟩
    simp only [errWidth_val b hb, and_true]
    constructor <;> (push_cast; ring)

-- non-vacuity: HalfAway, base 3, −1 at precision 2 (S = 3 = b^(p−1): finer spacing towards zero): L = 1/6, R = 1/18
example : (2 : Nat) ≠ 0 ∧ ¬ digitsB 3 (1 + 1) 1 > 2 ∧
    errorBoundsFBig Quirks.none false .halfAway 3 (-1) 0 2 = .ok (some (⟨3, 18⟩, ⟨1, 18⟩, false, true)) := by
  decide

/-- **`RBig::simplest_from_float`, special inputs** (the function the driver executes,
    `rbigSimplestFromFloat`; every mode, base, precision, and every setting of the deviation
    switches): `None` exactly for an infinite float (`Repr::is_infinite`: significand 0 and exponent
    ≠ 0); the float zero gives 0. -/
theorem simplest_from_fbig_none_iff_infinite (k : Quirks) (simpler : Q → Q → Bool) (mode : RMode)
    (b : Nat) (signif exp : Int) (p : Nat) :
    (rbigSimplestFromFloat k simpler mode b signif exp p = .ok (some none) ↔
      (signif = 0 ∧ exp ≠ 0)) ∧
    rbigSimplestFromFloat k simpler mode b 0 0 p = .ok (some (some Q.zero)) :=
  ⟨rbigSimplestFromFloat_none_iff k simpler mode b signif exp p,
   rbigSimplestFromFloat_zero k simpler mode b p⟩

/-- **unlimited precision (context precision 0) ⇒ the number itself**: for every base `b ≥ 2`,
    every mode, every non-zero float `signif·b^exp` and EVERY setting of the deviation switches (the
    required behaviour and the code alike: `simplest_from_float` returns the exact value before it
    asks `R::error_bounds`) the result is the reduced fraction of exactly that value — the only number
    that rounds to an exact float.  (Before the round-6 repair the code panicked under `Away`, `Up`,
    `Down`, and since /repo 164990d returned the float rounded to one digit under the other modes;
    witnesses corpus/C18/simplest_from_fbig_unlimited.case.) -/
theorem simplest_from_fbig_unlimited (k : Quirks) (simpler : Q → Q → Bool) (mode : RMode) (b : Nat)
    (hb : 2 ≤ b) (signif exp : Int) (hs : signif ≠ 0) :
    ∃ r, rbigSimplestFromFloat k simpler mode b signif exp 0 = .ok (some (some r)) ∧
      Reduced r ∧ r.val = (signif : Rat) * (b : Rat) ^ exp :=
  rbigSimplestFromFloat_unlimited k simpler mode b hb signif exp hs

/-- the driver's entry point on ordinary input is the finite body the main theorem is about -/
theorem simplest_from_fbig_entry (k : Quirks) (simpler : Q → Q → Bool) (mode : RMode)
    (b : Nat) (signif exp : Int) (p : Nat) (hs : signif ≠ 0) :
    rbigSimplestFromFloat k simpler mode b signif exp p =
      (simplestFromFBig k simpler mode b signif exp p).map (Option.map some) :=
  rbigSimplestFromFloat_finite k simpler mode b signif exp p hs

-- +inf = (0, 1), −inf = (0, −1) ↦ None;  DBig 1.25 of unlimited precision ↦ 5/4 (mode Up, mode HalfEven; code = required)
example : rbigSimplestFromFloat Quirks.code simplerSpec .up 10 0 1 0 = .ok (some none) ∧
    rbigSimplestFromFloat Quirks.code simplerSpec .halfEven 2 0 (-1) 7 = .ok (some none) ∧
    rbigSimplestFromFloat Quirks.none simplerSpec .up 10 125 (-2) 0 = .ok (some (some ⟨5, 4⟩)) ∧
    rbigSimplestFromFloat Quirks.code simplerSpec .up 10 125 (-2) 0 = .ok (some (some ⟨5, 4⟩)) ∧
    rbigSimplestFromFloat Quirks.code simplerSpec .halfEven 10 125 (-2) 0 = .ok (some (some ⟨5, 4⟩)) := by
  decide

example : nextUpDown true ⟨853, 113⟩ 10 = .ok (some ⟨68, 9⟩) := by decide
example : nearest ⟨5, 2⟩ 1 = .ok (some (.inexact ⟨2, 1⟩ true)) := by decide

-- ------------------------------------------------------------------ non-vacuity: concrete values meeting the hypotheses

example : fareyNeighbors ⟨2, 7⟩ 3 = .ok (some (⟨0, 1⟩, ⟨1, 3⟩)) := by decide
example : SInv 1234 5678 1235 5679 ∧ sb 100 1234 5678 1235 5679 = some (5, 23) :=
  ⟨⟨by decide, by decide, by decide, by decide, by decide⟩, by decide⟩
example : (10 : Nat) ^ (1 - 1) ≤ 5 ∧ 5 < 10 ^ 1 := by decide
example : Reduced ⟨1, 3⟩ ∧ Reduced ⟨1, 2⟩ ∧ (0 : Int) < (⟨1, 3⟩ : Q).num ∧
    (⟨1, 3⟩ : Q).val < (⟨1, 2⟩ : Q).val := by
  refine ⟨by decide, by decide, by decide, ?_⟩; norm_num [Q.val_def]
example : InW wHalfEven 2 (5 / 2) ∧ ¬ InW wHalfEven 3 (5 / 2) := by
  constructor
  · refine ⟨by norm_num [wHalfEven], by norm_num [wHalfEven], fun _ => by decide, fun _ => by decide⟩
  · intro h; have := h.2.2.1 (by norm_num [wHalfEven]); simp [wHalfEven] at this


end Dashu.Props.C18
