import Dashu.Proofs.Ratio.FloatFinal
import Dashu.Gen.Misc
import Mathlib.Order.Compare
/-
  C18 — Rational approximation functions return the optimal fraction they promise.

  Property theorems only (proofs in `Dashu/Proofs/Ratio/{Simplify,Farey}.lean`).  The model
  (`Dashu/Model/Ratio/Simplify.lean`) mirrors `rational/src/simplify.rs`; `is_simpler_than` is
  the text regenerated from the source on every run (`Dashu.Gen.is_simpler_than`, pairs are
  (numerator, denominator)).  Nothing bounds numerators, denominators or limits.
-/
namespace Dashu.Props.C18
open Dashu Dashu.Model Dashu.Model.Ratio

-- ------------------------------------------------------------------ is_simpler_than

/-- the documented order (rational/src/simplify.rs, doc of `simplest_in`): smaller denominator
    first, then smaller numerator magnitude, then positive before negative -/
def Simpler (a b : Int × Int) : Prop :=
  a.2 < b.2 ∨ (a.2 = b.2 ∧
    (a.1.natAbs < b.1.natAbs ∨ (a.1.natAbs = b.1.natAbs ∧ 0 ≤ a.1 ∧ b.1 < 0)))

instance (a b : Int × Int) : Decidable (Simpler a b) := by unfold Simpler; infer_instance

theorem sign_pair_gt_iff (a b : Int × Int) :
    GluePrelude.gt_ (GluePrelude.sign a) (GluePrelude.sign b) = true ↔ 0 ≤ a.1 ∧ b.1 < 0 := by
  simp only [GluePrelude.gt_, GluePrelude.sign, GluePrelude.HasSign.sign, beq_iff_eq]
  by_cases hx : a.1 < 0 <;> by_cases hy : b.1 < 0 <;> simp [hx, hy, compare] <;> omega

/-- **`RBig::is_simpler_than`** (text regenerated from rational/src/simplify.rs on every run)
    is the documented lexicographic order.  (Before fix commit 766946e the body was the
    conjunction of the three comparisons and this statement was false: (1,2) vs (1,3).) -/
theorem is_simpler_than_lexicographic (a b : Int × Int) :
    Dashu.Gen.is_simpler_than a b = true ↔ Simpler a b := by
  unfold Dashu.Gen.is_simpler_than Simpler
  simp only [GluePrelude.cmp, GluePrelude.denominator, GluePrelude.abs_cmp, GluePrelude.numerator]
  rcases lt_trichotomy a.2 b.2 with h | h | h
  · rw [compare_lt_iff_lt.mpr h]; simp [h]
  · rw [compare_eq_iff_eq.mpr h]
    rcases lt_trichotomy a.1.natAbs b.1.natAbs with g | g | g
    · rw [compare_lt_iff_lt.mpr g]; simp [h, g]
    · rw [compare_eq_iff_eq.mpr g]
      simp only [h, g, lt_irrefl, true_and, false_or]
      exact sign_pair_gt_iff a b
    · rw [compare_gt_iff_gt.mpr g]
      simp only [h, lt_irrefl, true_and, false_or, Bool.false_eq_true, false_iff, not_or, not_and]
      exact ⟨by omega, by omega⟩
  · rw [compare_gt_iff_gt.mpr h]
    simp only [Bool.false_eq_true, false_iff, not_or, not_and]
    exact ⟨by omega, by omega⟩

/-- the former counterexample now goes the documented way -/
example : Dashu.Gen.is_simpler_than (1, 2) (1, 3) = true ∧
    Dashu.Gen.is_simpler_than (1, 3) (-1, 3) = true ∧
    Dashu.Gen.is_simpler_than (-1, 3) (1, 3) = false := by decide

-- ------------------------------------------------------------------ simplest_in

/-- **`RBig::simplest_in`** (all end points: any order, any signs, equal, zero, integers):
    equal end points give that number; otherwise the result is a reduced fraction strictly
    between the end points, and EVERY fraction `p/s` strictly between them has `s ≥` its
    denominator and `|p| ≥` its numerator magnitude — so none has a smaller denominator, or the
    same denominator and a smaller numerator magnitude. -/
theorem simplest_in_optimal (l u : Q) (hld : 0 < l.den) (hud : 0 < u.den) :
    (l.val = u.val → ∃ r, simplestIn l u = .ok (some r) ∧ Reduced r ∧ r.val = l.val) ∧
    (l.val ≠ u.val → ∃ r, simplestIn l u = .ok (some r) ∧ Reduced r ∧
      min l.val u.val < r.val ∧ r.val < max l.val u.val ∧
      ∀ (p : Int) (s : Nat), 0 < s → min l.val u.val < (p : Rat) / s →
        (p : Rat) / s < max l.val u.val → r.den ≤ s ∧ r.num.natAbs ≤ p.natAbs) :=
  simplestIn_spec l u hld hud

/-- the continued-fraction descent: sound, simultaneously minimal in numerator and denominator,
    and terminating within `denL + denR + 1` iterations -/
theorem simplest_descent (fuel : Nat) (a b c d : Int) (h : SInv a b c d)
    (hf : (b + d).toNat < fuel) :
    ∃ A B, sb fuel a b c d = some (A, B) ∧ 0 < A ∧ 0 < B ∧ a * B < A * b ∧ A * d < c * B ∧
      ∀ p s : Int, 0 < s → a * s < p * b → p * d < c * s → A ≤ p ∧ B ≤ s :=
  sb_spec fuel a b c d h hf

/-- the loop of the code (convergent matrix accumulated on the fly) is that descent -/
theorem simplest_loop_is_descent (fuel : Nat) (a b c d n0 d0 n1 d1 : Int) (h : SInv a b c d) :
    simplestLoop fuel ⟨a, b, c, d, n0, d0, n1, d1⟩ =
      .ok ((sb fuel a b c d).map fun AB => (n0 * AB.1 + n1 * AB.2, d0 * AB.1 + d1 * AB.2)) :=
  simplestLoop_eq_sb fuel a b c d n0 d0 n1 d1 h

example : simplestIn ⟨1234, 5678⟩ ⟨1235, 5679⟩ = .ok (some ⟨5, 23⟩) := by decide
example : simplestIn ⟨0, 1⟩ ⟨-1, 2⟩ = .ok (some ⟨-1, 3⟩) := by decide
example : simplestIn ⟨-1, 2⟩ ⟨1, 3⟩ = .ok (some ⟨0, 1⟩) := by decide

-- ------------------------------------------------------------------ Farey neighbours

/-- **`farey_neighbors`**: for `−1 ≤ x < 1` the walk terminates (within `2·limit + 2` steps)
    with `left ≤ x < right`, `right.num·left.den − left.num·right.den = 1`, both denominators
    `≤ limit` and their sum `> limit` -/
theorem farey_neighbors_adjacent (x : Q) (limit : Nat) (hx : 0 < x.den) (hl : 1 ≤ limit)
    (h1 : -1 ≤ x.val) (h2 : x.val < 1) :
    ∃ l r, fareyNeighbors x limit = .ok (some (l, r)) ∧ FInv x limit l r ∧
      limit < l.den + r.den :=
  fareyNeighbors_spec x limit hx hl h1 h2

/-- such a pair is consecutive in the Farey sequence of order `limit` -/
theorem farey_neighbors_consecutive (x : Q) (limit : Nat) (l r : Q) (h : FInv x limit l r)
    (hsum : limit < l.den + r.den) (p : Int) (q : Nat) (hq : 0 < q)
    (h1 : l.val < (p : Rat) / q) (h2 : (p : Rat) / q < r.val) : limit < q :=
  h.consecutive hsum p q hq h1 h2

/-- **`next_up` / `next_down`** (every reduced `x`, every `limit ≥ 1`; `limit = 0` panics):
    reduced result with denominator `≤ limit`, strictly above / below `x`, and no fraction with a
    denominator `≤ limit` strictly between — the adjacent element of the Farey sequence. -/
theorem next_up_down_adjacent (up : Bool) (x : Q) (limit : Nat) (hx : Reduced x) :
    (limit = 0 → nextUpDown up x limit = .error .divideByZero) ∧
    (1 ≤ limit → ∃ r, nextUpDown up x limit = .ok (some r) ∧ Reduced r ∧ r.den ≤ limit ∧
      (if up then x.val < r.val else r.val < x.val) ∧
      ∀ (p : Int) (q : Nat), 0 < q →
        (if up then x.val < (p : Rat) / q ∧ (p : Rat) / q < r.val
         else r.val < (p : Rat) / q ∧ (p : Rat) / q < x.val) → limit < q) :=
  nextUpDown_spec up x limit hx

/-- **`nearest`**: `Exact(x)` iff the denominator fits; otherwise the closer of `next_down` and
    `next_up` (the lower one on a tie) tagged with the sign of `result − x`
    (`negative = true` ⇔ the result is below `x`). -/
theorem nearest_closer (x : Q) (limit : Nat) (hx : Reduced x) :
    (limit = 0 → nearest x limit = .error .divideByZero) ∧
    (1 ≤ limit → x.den ≤ limit → nearest x limit = .ok (some (.exact x))) ∧
    (1 ≤ limit → limit < x.den → ∃ dn up, nextUpDown false x limit = .ok (some dn) ∧
      nextUpDown true x limit = .ok (some up) ∧ dn.val < x.val ∧ x.val < up.val ∧
      ((up.val - x.val < x.val - dn.val ∧ nearest x limit = .ok (some (.inexact up false))) ∨
       (x.val - dn.val ≤ up.val - x.val ∧ nearest x limit = .ok (some (.inexact dn true))))) :=
  nearest_spec x limit hx

-- ------------------------------------------------------------------ simplest_from_f32 / f64 / float

/-- the tail shared by `simplest_from_f32/f64/float` (`pickSimplest`): for a positive interval
    with reduced end points the result is a reduced fraction of the closed interval, an end point
    only if allowed, and at least as simple (denominator, then numerator magnitude) as every
    fraction strictly inside and as every allowed end point -/
theorem pick_simplest_optimal (lo hi : Q) (hlo : Reduced lo) (hhi : Reduced hi) (hpos : 0 < lo.num)
    (hlt : lo.val < hi.val) (inclLo inclHi : Bool) :
    ∃ r, pickSimplest simplerSpec lo hi inclLo inclHi = .ok (some r) ∧
      SimplestOfSet lo hi inclLo inclHi r :=
  pickSimplest_spec lo hi hlo hhi hpos hlt inclLo inclHi

/-- **the rounding interval is the exact preimage** (any IEEE binary format `F`): a rational
    `num/den` rounds — to nearest, ties to even, builder-conv's specification `ieeeRoundRat` — to
    the finite non-zero float with sign `s` and canonical magnitude `m·2^exp` iff it is non-zero,
    has that sign, and its magnitude lies in the float's rounding set: half an ulp to each side
    (a quarter below a power of two above the lowest binade), boundaries included iff `m` is even. -/
theorem rounding_set_is_preimage (F : Conv.Ieee) (hF : F.Ok) (s : Bool) (m : Nat) (exp : Int)
    (hc : Canon F m exp) (hfin : exp + F.MB ≤ F.emax) (num : Int) (den : Nat) (hden : 0 < den) :
    (Conv.ieeeRoundRat F .halfEven num den).1 = (if s then F.signBit else 0) + magBits F m exp ↔
      (num ≠ 0 ∧ (num < 0 ↔ s = true) ∧ InSet F m exp ((num.natAbs : Rat) / den)) :=
  round_iff F hF s m exp hc hfin num den hden

/-- that set is the `roundingInterval` the model (and, since 3d8de53, the code) hands to
    `simplest_in`: `(4·man − below, 4·man + 2)·2^(exp−2)` with the parity rule -/
theorem rounding_set_is_interval (F : Conv.Ieee) (m : Nat) (exp : Int) (x : Rat) :
    InSet F m exp x ↔
      ((roundingInterval F.MB F.qmin m exp).1.val ≤ x ∧
       x ≤ (roundingInterval F.MB F.qmin m exp).2.val ∧
       (x = (roundingInterval F.MB F.qmin m exp).1.val → m % 2 = 0) ∧
       (x = (roundingInterval F.MB F.qmin m exp).2.val → m % 2 = 0)) :=
  inSet_iff_interval F m exp x

/-- NaN / infinities give `None`, the zeros give 0 -/
theorem simplest_from_float_special (eb mb bits : Nat) :
    (floatDecode eb mb bits = none →
      simplestFromFloat simplerSpec eb mb bits = .ok (some none)) ∧
    (∀ exp, floatDecode eb mb bits = some (0, exp) →
      simplestFromFloat simplerSpec eb mb bits = .ok (some (some Q.zero))) :=
  ⟨(simplestFromFloat_spec eb mb bits).1,
   fun exp h => ((simplestFromFloat_spec eb mb bits).2 0 exp h).1 rfl⟩

/-- **`simplest_from_f32`, full statement**: for every finite non-zero `f32` (bit pattern) the
    result is a reduced fraction that converts back to exactly that float under
    round-to-nearest-even, and every fraction that converts back to it has a denominator that is
    not smaller and, for an equal denominator, a numerator magnitude that is not smaller:
    the simplest fraction among those that convert back to exactly the given float. -/
theorem simplest_from_f32_exact (bits : Nat) (hbits : bits < 2 ^ 32) (man exp : Int)
    (hdec : floatDecode 8 23 bits = some (man, exp)) (hman : man ≠ 0) :
    ∃ r, simplestFromFloat simplerSpec 8 23 bits = .ok (some (some r)) ∧ Reduced r ∧
      (Conv.ieeeRoundRat Conv.Ieee.binary32 .halfEven r.num r.den).1 = bits ∧
      ∀ (p : Int) (s : Nat), 0 < s →
        (Conv.ieeeRoundRat Conv.Ieee.binary32 .halfEven p s).1 = bits → AsSimple r ⟨p, s⟩ :=
  simplestFromFloat_exact Conv.Ieee.binary32 Conv.Ieee.binary32_ok bits hbits man exp hdec hman

/-- **`simplest_from_f64`, full statement** -/
theorem simplest_from_f64_exact (bits : Nat) (hbits : bits < 2 ^ 64) (man exp : Int)
    (hdec : floatDecode 11 52 bits = some (man, exp)) (hman : man ≠ 0) :
    ∃ r, simplestFromFloat simplerSpec 11 52 bits = .ok (some (some r)) ∧ Reduced r ∧
      (Conv.ieeeRoundRat Conv.Ieee.binary64 .halfEven r.num r.den).1 = bits ∧
      ∀ (p : Int) (s : Nat), 0 < s →
        (Conv.ieeeRoundRat Conv.Ieee.binary64 .halfEven p s).1 = bits → AsSimple r ⟨p, s⟩ :=
  simplestFromFloat_exact Conv.Ieee.binary64 Conv.Ieee.binary64_ok bits hbits man exp hdec hman

-- a finite non-zero f32 meets the hypotheses (0.1f32), and 0.1 itself rounds back to it
example : floatDecode 8 23 0x3dcccccd = some (13421773, -27) ∧
    (Conv.ieeeRoundRat Conv.Ieee.binary32 .halfEven 1 10).1 = 0x3dcccccd := by decide

-- 0x3dcccccd = 0.1f32 ↦ 1/10;  NaN ↦ None;  2^100 ↦ 2^100 − 2^75 (tie to the even mantissa)
example : simplestFromFloat simplerSpec 8 23 0x3dcccccd = .ok (some (some ⟨1, 10⟩)) := by decide
example : simplestFromFloat simplerSpec 8 23 0x7fc00000 = .ok (some none) := by decide
example : simplestFromFloat simplerSpec 8 23 0x71800000 =
    .ok (some (some ⟨2 ^ 100 - 2 ^ 75, 1⟩)) := by decide

example : nextUpDown true ⟨853, 113⟩ 10 = .ok (some ⟨68, 9⟩) := by decide
example : nearest ⟨5, 2⟩ 1 = .ok (some (.inexact ⟨2, 1⟩ true)) := by decide

end Dashu.Props.C18
