import Dashu.Props.C04
import Dashu.Props.C01Dispatch
import Dashu.Model.Ratio.PowGuard
/-
  C04 round 6: `RBig::pow` / `Relaxed::pow` WITH the allocation panics of the two integer powers under `Repr::pow`
  (`Model/Ratio/PowGuard.powChecked`, what the driver executes for `qp.pow`).
  (1) the value-level guard `upowPanics` IS C01's `powAllocPanics` (Props/C01Dispatch), hence by C01's
      `u_pow_guarded_iff` / `i_pow_guarded_iff` exactly the panic class of the mirrored integer kernels;
  (2) `powChecked` IS the composition, by value, of the mirrored and proved `ibigPowGuarded` (numerator, first) and
      `ubigPowGuarded` (denominator) for every word size ≥ 4 bits — results and panics;
  (3) outside the guard the result is `pow x n`: reduced and exactly `x ^ n` (RBig), same value and invariant (Relaxed);
  (4) a panic is never `DivideByZero` or anything else than the documented allocation panic, and on the
      `exp.checked_mul(shift)` branch the exact result has more than `2^64` bits (it cannot be stored).
  Kept apart from Props/C04 because it imports C01's proof files.
-/
namespace Dashu.Props.C04Pow
open Dashu.Model Dashu.Model.Ratio Dashu.Props.C01Dispatch

/-- (1) the guard the rational driver evaluates is C01's value-level panic class of `UBig::pow` -/
theorem pow_guard_is_proved_class (W v n : Nat) : upowPanics W v n = powAllocPanics W v n := by
  unfold upowPanics powAllocPanics
  rw [upowK_eq]

/-- (3a) below the guard: the stored pair is `pow x n` -/
theorem pow_checked_ok (W : Nat) (x : Q) (n : Nat)
    (h1 : upowPanics W x.num.natAbs n = false) (h2 : upowPanics W x.den n = false) :
    powChecked W x n = .ok (pow x n) := by
  simp [powChecked, h1, h2]

/-- (4a) the only panic is the documented allocation panic, exactly on the guard (numerator first) -/
theorem pow_checked_cases (W : Nat) (x : Q) (n : Nat) :
    (powChecked W x n = .ok (pow x n) ∧ upowPanics W x.num.natAbs n = false ∧ upowPanics W x.den n = false) ∨
    (powChecked W x n = .error .allocTooMuch ∧ (upowPanics W x.num.natAbs n = true ∨ upowPanics W x.den n = true)) := by
  unfold powChecked
  cases h1 : upowPanics W x.num.natAbs n <;> cases h2 : upowPanics W x.den n <;> simp

/-- (3b) **RBig::pow, complete**: for a reduced operand either the reduced pair of value exactly `x ^ n`, or the
    documented allocation panic — never another panic, never a wrong or unreduced value -/
theorem rbig_pow_checked_exact (W : Nat) (x : Q) (n : Nat) (hx : Reduced x) :
    (∃ r, powChecked W x n = .ok r ∧ Reduced r ∧ r.val = x.val ^ n) ∨ powChecked W x n = .error .allocTooMuch := by
  rcases pow_checked_cases W x n with h | h
  · exact .inl ⟨_, h.1, Dashu.Props.C04.rbig_pow_exact x n hx⟩
  · exact .inr h.1

/-- (2) **`Repr::pow` over the proved integer kernels**: `powChecked` is `IBig::pow` of the numerator, then `UBig::pow` of
    the denominator, both as mirrored word-level kernels with their allocation guards (C01: `ibigPowGuarded`,
    `ubigPowGuarded`), composed by value — the same panic in the same order, the same pair -/
theorem pow_checked_over_proved_kernels (W : Nat) (hW : 4 ≤ W) (x : Q) (n : Nat) :
    (powChecked W x n).toOption =
      (do let a ← ibigPowGuarded W (.ofInt W x.num) n
          let b ← ubigPowGuarded W (ofNat W x.den) n
          pure (⟨a.value W, b.value W⟩ : Q) : Except PanicKind Q).toOption ∧
    (powChecked W x n = .error .allocTooMuch ↔
      (ibigPowGuarded W (.ofInt W x.num) n = .error .allocTooMuch ∨
        ubigPowGuarded W (ofNat W x.den) n = .error .allocTooMuch)) := by
  have h1 : 1 ≤ W := by omega
  have wf := SRepr.ofInt_wf W h1 x.num
  have cn := ofNat_canon W h1 x.den
  obtain ⟨ip, io⟩ := i_pow_guarded_iff W hW (.ofInt W x.num) n wf
  obtain ⟨up, uo⟩ := u_pow_guarded_iff W hW (ofNat W x.den) n cn
  have hm : (SRepr.ofInt W x.num).mag.value W = x.num.natAbs := ofNat_value W h1 _
  rw [hm] at ip io
  rw [ofNat_value W h1] at up uo
  rw [← pow_guard_is_proved_class] at ip io up uo
  unfold powChecked
  cases hn : upowPanics W x.num.natAbs n
  · obtain ⟨ra, ea, va, _⟩ := io hn
    cases hd : upowPanics W x.den n
    · obtain ⟨rb, eb, vb, _⟩ := uo hd
      rw [ea, eb]
      simp only [Bool.false_eq_true, if_false, bind, Except.bind, pure, Except.pure]
      rw [va, vb, SRepr.ofInt_value W h1, pow_def]
      simp
    · rw [ea, up hd]
      simp [bind, Except.bind, Except.toOption]
  · rw [ip hn]
    simp [bind, Except.bind, Except.toOption]

/-- (4b) the `exp.checked_mul(shift)` branch: an even component with `n · tz ≥ 2^64` gives the allocation panic, and the
    exact power of that component has more than `2^64` bits -/
theorem pow_shift_overflow_panics (W : Nat) (x : Q) (n : Nat)
    (h : powShiftOverflows x.num.natAbs n = true ∨ powShiftOverflows x.den n = true) :
    powChecked W x n = .error .allocTooMuch ∧
      (2 ^ (2 ^ 64) ≤ x.num.natAbs ^ n ∨ 2 ^ (2 ^ 64) ≤ x.den ^ n) := by
  have key : ∀ v, powShiftOverflows v n = true → upowPanics W v n = true := by
    intro v hv
    unfold powShiftOverflows at hv
    rw [Bool.and_eq_true] at hv
    unfold upowPanics
    rw [hv.1]
    have : decide (2 ^ usizeBits ≤ n * trailingZeros v) = true := hv.2
    simp [this]
  constructor
  · rcases pow_checked_cases W x n with c | c
    · rcases h with h | h
      · have := key _ h; rw [c.2.1] at this; cases this
      · have := key _ h; rw [c.2.2] at this; cases this
    · exact c.1
  · rcases h with h | h
    · exact .inl (powShiftOverflows_huge _ _ h)
    · exact .inr (powShiftOverflows_huge _ _ h)

/-- the class is not empty: `(4/1).pow(2^63)` and `(1/4).pow(2^63)` panic; `(-1/1).pow(2^64 - 1)` does not -/
example : powShiftOverflows (4 : Int).natAbs (2 ^ 63) = true := powShiftOverflows_witness
example : powChecked 64 ⟨1, 4⟩ (2 ^ 63) = .error .allocTooMuch :=
  (pow_shift_overflow_panics 64 ⟨1, 4⟩ (2 ^ 63) (.inr powShiftOverflows_witness)).1

end Dashu.Props.C04Pow
