import Dashu.Props.C04
import Dashu.Props.C01Dispatch
import Dashu.Model.Ratio.PowGuard
import Dashu.Proofs.Ratio.PowGuard
import Dashu.Proofs.Ratio.PowSmall
/-
  C04 round 6: `RBig::pow` / `Relaxed::pow` WITH the allocation panics of the two integer powers under `Repr::pow`
  (`Model/Ratio/PowGuard.powChecked`, what the driver executes for `qp.pow`).
  (1) the value-level guard `upowPanics` IS C01's `powAllocPanics` (Props/C01Dispatch), hence by C01's
      `u_pow_guarded_iff` / `i_pow_guarded_iff` exactly the panic class of the mirrored integer kernels;
  (2) `powChecked` IS the composition, by value, of the mirrored and proved `ibigPowGuarded` (numerator, first) and
      `ubigPowGuarded` (denominator) for every word size ≥ 4 bits — results and panics;
  (3) outside the guard the result is `pow x n`: reduced and exactly `x ^ n` (RBig), same value and invariant (Relaxed);
  (4) a panic is never `DivideByZero` or anything else than the documented allocation panic, and on the
      `exp.checked_mul(shift)` branch the exact result has more than `2^64` bits (it cannot be stored).
  (5) (64-bit words, what the harness runs) the panic is raised ONLY when the exact result cannot be stored anyway: a
      component of the exact power has at least `2^62` bits.
  (6) histories: a guarded run (`runG`, what the driver executes for `qp.prog`) is the plain run, or the plain run of a prefix
      followed by the allocation panic of a `pow` step; the history theorems (invariants, values) carry over.
  (7) (round 7) BELOW memory the guard is silent: if the exact power has fewer than `2^62` bits per component, `pow` returns —
      no panic alternative; the guarded history (`runG`, op `qp.prog`, the real code) IS the unguarded one (`run`, the older op
      `prog`); Relaxed = RBig for `pow` without the "whenever both return" hypothesis.
  (8) (round 8) Relaxed = RBig over GUARDED histories (`runG`, the real code): whenever neither guarded run stops with the allocation
      panic (every word size), and below memory (64-bit words) without that hypothesis — values, stops, canonicalised stored pairs.
  Kept apart from Props/C04 because it imports C01's proof files.
-/
namespace Dashu.Props.C04Pow
open Dashu.Model Dashu.Model.Ratio Dashu.Props.C01Dispatch

/-- (1) the guard the rational driver evaluates is C01's value-level panic class of `UBig::pow` -/
theorem pow_guard_is_proved_class (W v n : Nat) : upowPanics W v n = powAllocPanics W v n := by
  unfold upowPanics powAllocPanics
  rw [upowK_eq]
  rfl

/-- (3a) below the guard: the stored pair is `pow x n` -/
theorem pow_checked_ok (W : Nat) (x : Q) (n : Nat)
    (h1 : upowPanics W x.num.natAbs n = false) (h2 : upowPanics W x.den n = false) :
    powChecked W x n = .ok (pow x n) := by
  simp [powChecked, h1, h2]

/-- (4a) the only panic is the documented allocation panic, exactly on the guard (numerator first) -/
theorem pow_checked_cases (W : Nat) (x : Q) (n : Nat) :
    (powChecked W x n = .ok (pow x n) ∧ upowPanics W x.num.natAbs n = false ∧ upowPanics W x.den n = false) ∨
    (powChecked W x n = .error .allocTooMuch ∧ (upowPanics W x.num.natAbs n = true ∨ upowPanics W x.den n = true)) := by
  unfold powChecked
  cases h1 : upowPanics W x.num.natAbs n <;> cases h2 : upowPanics W x.den n <;> simp

/-- (3b) **RBig::pow, complete**: for a reduced operand either the reduced pair of value exactly `x ^ n`, or the
    documented allocation panic — never another panic, never a wrong or unreduced value -/
theorem rbig_pow_checked_exact (W : Nat) (x : Q) (n : Nat) (hx : Reduced x) :
    (∃ r, powChecked W x n = .ok r ∧ Reduced r ∧ r.val = x.val ^ n) ∨ powChecked W x n = .error .allocTooMuch := by
  rcases pow_checked_cases W x n with h | h
  · exact .inl ⟨_, h.1, Dashu.Props.C04.rbig_pow_exact x n hx⟩
  · exact .inr h.1

/-- (2) **`Repr::pow` over the proved integer kernels**: `powChecked` is `IBig::pow` of the numerator, then `UBig::pow` of
    the denominator, both as mirrored word-level kernels with their allocation guards (C01: `ibigPowGuarded`,
    `ubigPowGuarded`), composed by value — the same panic in the same order, the same pair -/
theorem pow_checked_over_proved_kernels (W : Nat) (hW : 4 ≤ W) (x : Q) (n : Nat) :
    (powChecked W x n).toOption =
      (do let a ← ibigPowGuarded W (.ofInt W x.num) n
          let b ← ubigPowGuarded W (ofNat W x.den) n
          pure (⟨a.value W, b.value W⟩ : Q) : Except PanicKind Q).toOption ∧
    (powChecked W x n = .error .allocTooMuch ↔
      (ibigPowGuarded W (.ofInt W x.num) n = .error .allocTooMuch ∨
        ubigPowGuarded W (ofNat W x.den) n = .error .allocTooMuch)) := by
  have h1 : 1 ≤ W := by omega
  have wf := SRepr.ofInt_wf W h1 x.num
  have cn := ofNat_canon W h1 x.den
  obtain ⟨ip, io⟩ := i_pow_guarded_iff W hW (.ofInt W x.num) n wf
  obtain ⟨up, uo⟩ := u_pow_guarded_iff W hW (ofNat W x.den) n cn
  have hm : (SRepr.ofInt W x.num).mag.value W = x.num.natAbs := ofNat_value W h1 _
  rw [hm] at ip io
  rw [ofNat_value W h1] at up uo
  rw [← pow_guard_is_proved_class] at ip io up uo
  unfold powChecked
  cases hn : upowPanics W x.num.natAbs n
  · obtain ⟨ra, ea, va, _⟩ := io hn
    cases hd : upowPanics W x.den n
    · obtain ⟨rb, eb, vb, _⟩ := uo hd
      rw [ea, eb]
      simp only [Bool.false_eq_true, if_false, bind, Except.bind, pure, Except.pure]
      rw [va, vb, SRepr.ofInt_value W h1, pow_def]
      simp
    · rw [ea, up hd]
      simp [bind, Except.bind, Except.toOption]
  · rw [ip hn]
    simp [bind, Except.bind, Except.toOption]

/-- (4b) the `exp.checked_mul(shift)` branch: an even component with `n · tz ≥ 2^64` gives the allocation panic, and the
    exact power of that component has more than `2^64` bits -/
theorem pow_shift_overflow_panics (W : Nat) (x : Q) (n : Nat)
    (h : powShiftOverflows x.num.natAbs n = true ∨ powShiftOverflows x.den n = true) :
    powChecked W x n = .error .allocTooMuch ∧
      (2 ^ (2 ^ 64) ≤ x.num.natAbs ^ n ∨ 2 ^ (2 ^ 64) ≤ x.den ^ n) := by
  have key : ∀ v, powShiftOverflows v n = true → upowPanics W v n = true := by
    intro v hv
    unfold powShiftOverflows at hv
    rw [Bool.and_eq_true] at hv
    unfold upowPanics
    rw [hv.1]
    have : decide (2 ^ usizeBits ≤ n * trailingZeros v) = true := hv.2
    simp [this]
  constructor
  · rcases pow_checked_cases W x n with c | c
    · rcases h with h | h
      · have := key _ h; rw [c.2.1] at this; cases this
      · have := key _ h; rw [c.2.2] at this; cases this
    · exact c.1
  · rcases h with h | h
    · exact .inl (powShiftOverflows_huge _ _ h)
    · exact .inr (powShiftOverflows_huge _ _ h)

/-- (5) **the allocation panic is never spurious** (64-bit words): whenever `pow` panics, the exact numerator or the exact
    denominator of `x ^ n` has at least `2^62` bits — the value the property asks for does not fit any memory.  Every
    branch of the guard: result buffer of `pow_word_base` (`exp / wexp + 1` words) / `pow_dword_base` (`2·exp` words),
    `exp.checked_mul(shift)`, `Buffer::allocate` of the final `<<` on an inline / heap power. -/
theorem pow_panics_only_beyond_memory (x : Q) (n : Nat) (k : PanicKind) (h : powChecked 64 x n = .error k) :
    k = .allocTooMuch ∧ (2 ^ (2 ^ 62) ≤ x.num.natAbs ^ n ∨ 2 ^ (2 ^ 62) ≤ x.den ^ n) := by
  rcases pow_checked_cases 64 x n with c | c
  · rw [c.1] at h; cases h
  · rw [c.1] at h
    cases h
    refine ⟨rfl, ?_⟩
    rcases c.2 with c | c
    · exact .inl (pow_panic_only_beyond_memory _ _ c)
    · exact .inr (pow_panic_only_beyond_memory _ _ c)

/-- **RBig::pow end to end (64-bit words)**: reduced and exactly `x ^ n`, or the documented allocation panic on a result
    with a component of at least `2^62` bits -/
theorem rbig_pow_exact_or_beyond_memory (x : Q) (n : Nat) (hx : Reduced x) :
    (∃ r, powChecked 64 x n = .ok r ∧ Reduced r ∧ r.val = x.val ^ n) ∨
    (powChecked 64 x n = .error .allocTooMuch ∧ (2 ^ (2 ^ 62) ≤ x.num.natAbs ^ n ∨ 2 ^ (2 ^ 62) ≤ x.den ^ n)) := by
  rcases rbig_pow_checked_exact 64 x n hx with h | h
  · exact .inl h
  · exact .inr ⟨h, (pow_panics_only_beyond_memory x n _ h).2⟩

/-- **Relaxed::pow, complete**: for an operand meeting the Relaxed invariant either a pair meeting it again whose value
    is exactly `x ^ n`, or the documented allocation panic -/
theorem relaxed_pow_checked_exact (W : Nat) (x : Q) (n : Nat) (hx : RelaxedInv x) :
    (∃ r, powChecked W x n = .ok r ∧ RelaxedInv r ∧ r.val = x.val ^ n) ∨ powChecked W x n = .error .allocTooMuch := by
  rcases pow_checked_cases W x n with h | h
  · exact .inl ⟨_, h.1, relaxed_pow x n hx⟩
  · exact .inr h.1

/-- **Relaxed = RBig for `pow`, panics included**: a Relaxed operand `x` and an RBig operand `y` denoting the same number —
    whenever both powers are returned they denote the same number, and `canonicalize` of the Relaxed result is the stored
    RBig pair.  (The two may differ in WHETHER they panic: the stored pairs differ by a common odd factor, e.g. `9/3` and
    `3/1`, so their result buffers reach `MAX_CAPACITY` at different exponents — by `pow_panics_only_beyond_memory` only
    where the exact result has at least `2^62` bits.) -/
theorem relaxed_pow_checked_equals_rbig (W : Nat) (x y r s : Q) (n : Nat) (hx : RelaxedInv x) (hy : Reduced y)
    (hv : x.val = y.val) (h1 : powChecked W x n = .ok r) (h2 : powChecked W y n = .ok s) :
    r.val = s.val ∧ Reduced s ∧ RelaxedInv r := by
  rcases pow_checked_cases W x n with c | c
  · rcases pow_checked_cases W y n with d | d
    · rw [c.1] at h1; rw [d.1] at h2
      cases h1; cases h2
      have a := relaxed_pow x n hx
      have b := Dashu.Props.C04.rbig_pow_exact y n hy
      exact ⟨by rw [a.2, b.2, hv], b.1, a.1⟩
    · rw [d.1] at h2; cases h2
  · rw [c.1] at h1; cases h1

-- the two representations of 3 differ in whether `pow(20·(2^58 − 1))` panics: 9^n asks `pow_word_base` for n/20 + 1 words, 3^n for n/40 + 1
example : upowPanics 64 9 (20 * (2 ^ 58 - 1)) = true ∧ upowPanics 64 3 (20 * (2 ^ 58 - 1)) = false ∧
    upowPanics 64 1 (20 * (2 ^ 58 - 1)) = false := by decide +kernel
example : RelaxedInv ⟨9, 3⟩ ∧ Reduced ⟨3, 1⟩ ∧ (⟨9, 3⟩ : Q).val = (⟨3, 1⟩ : Q).val := by
  refine ⟨by decide, by decide, ?_⟩
  simp [Q.val]; norm_num

/-- the class is not empty: `(4/1).pow(2^63)` and `(1/4).pow(2^63)` panic; `(-1/1).pow(2^64 - 1)` does not -/
example : powShiftOverflows (4 : Int).natAbs (2 ^ 63) = true := powShiftOverflows_witness
example : powChecked 64 ⟨1, 4⟩ (2 ^ 63) = .error .allocTooMuch :=
  (pow_shift_overflow_panics 64 ⟨1, 4⟩ (2 ^ 63) (.inr powShiftOverflows_witness)).1

-- ------------------------------------------------------------------ histories with the guarded pow (`runG`, op `qp.prog`)

/-- a guarded step is the plain step, or the allocation panic of a `pow` step whose guard fires -/
theorem stepG_cases (W : Nat) (env : List Reg) (op : Op) :
    stepG W env op = step env op ∨
    (stepG W env op = .panic .allocTooMuch ∧
      ∃ i n a, op = .pow i n ∧ env[i]? = some a ∧ powChecked W a.q n = .error .allocTooMuch) := by
  cases op with
  | pow i n =>
    simp only [stepG, step]
    cases h : env[i]? with
    | none => left; rfl
    | some a =>
      rcases pow_checked_cases W a.q n with c | c
      · left; simp only [c.1, liftQ]
      · right; exact ⟨by simp only [c.1, liftQ], i, n, a, rfl, h, c.1⟩
  | _ => left; rfl

/-- **a guarded run is the plain run, or the plain run of a prefix followed by the allocation panic of a `pow` step** -/
theorem runG_cases (W : Nat) (ops : List Op) : ∀ env : List Reg,
    runG W ops env = run ops env ∨
    ∃ k i n a, k < ops.length ∧ ops[k]? = some (.pow i n) ∧
      run (ops.take k) env = ((runG W ops env).1, .done) ∧ (runG W ops env).2 = .panic .allocTooMuch ∧
      (runG W ops env).1[i]? = some a ∧ powChecked W a.q n = .error .allocTooMuch := by
  induction ops with
  | nil => intro env; left; rfl
  | cons op ops ih =>
    intro env
    rcases stepG_cases W env op with h | ⟨h, i, n, a, hop, ha, hp⟩
    · simp only [runG, run, h]
      cases hs : step env op with
      | ok r =>
        simp only []
        rcases ih (env ++ [r]) with e | ⟨k, i, n, a, hk, hget, hrun, hstop, ha, hp⟩
        · left; exact e
        · right
          refine ⟨k + 1, i, n, a, by simp; omega, by simpa using hget, ?_, hstop, ha, hp⟩
          simp only [List.take_succ_cons, run, hs]
          exact hrun
      | panic k => left; rfl
      | bad => left; rfl
    · right
      refine ⟨0, i, n, a, by simp, by simp [hop], ?_, ?_, ?_, hp⟩
      · simp [runG, h, run]
      · simp [runG, h]
      · simp [runG, h, ha]

/-- **history theorem with the allocation panic of `pow`** ("every RBig ever produced", guarded runs): every register of
    every guarded run — also those produced before a panic — satisfies the invariant of its type -/
theorem history_invariant_guarded (W : Nat) (ops : List Op) (env : List Reg) (henv : ∀ r ∈ env, r.Inv) :
    ∀ r ∈ (runG W ops env).1, r.Inv := by
  rcases runG_cases W ops env with e | ⟨k, _, _, _, _, _, hrun, _⟩
  · rw [e]; exact Dashu.Props.C04.history_invariant ops env henv
  · have := Dashu.Props.C04.history_invariant (ops.take k) env henv
    rw [hrun] at this
    exact this

/-- **values of guarded runs**: a guarded run computes exactly the value-level interpretation of the executed steps and
    stops with `DivideByZero` exactly where the value-level program divides by zero — or with the allocation panic at a
    `pow` step, and then (64-bit words) a component of that step's exact result has at least `2^62` bits -/
theorem history_values_guarded (ops : List Op) (env : List Reg) (henv : ∀ r ∈ env, r.Inv) :
    match (runG 64 ops env).2 with
    | .done => Spec.run ops (env.map Reg.val) = ((runG 64 ops env).1.map Reg.val, true)
    | .panic k =>
      (k = .divideByZero ∧ Spec.run ops (env.map Reg.val) = ((runG 64 ops env).1.map Reg.val, false)) ∨
      (k = .allocTooMuch ∧ ∃ j i n a, ops[j]? = some (.pow i n) ∧ (runG 64 ops env).1[i]? = some a ∧
        Spec.run (ops.take j) (env.map Reg.val) = ((runG 64 ops env).1.map Reg.val, true) ∧
        (2 ^ (2 ^ 62) ≤ a.q.num.natAbs ^ n ∨ 2 ^ (2 ^ 62) ≤ a.q.den ^ n))
    | .bad => True := by
  rcases runG_cases 64 ops env with e | ⟨k, i, n, a, _, hget, hrun, hstop, ha, hp⟩
  · rw [e]
    have := Dashu.Props.C04.history_values ops env henv
    cases hs : (run ops env).2 with
    | done => rw [hs] at this; exact this
    | panic k => rw [hs] at this; exact .inl this
    | bad => trivial
  · rw [hstop]
    right
    refine ⟨rfl, k, i, n, a, hget, ha, ?_, (pow_panics_only_beyond_memory a.q n _ hp).2⟩
    have := Dashu.Props.C04.history_values (ops.take k) env henv
    rw [hrun] at this
    exact this

-- non-vacuity: below the guard (a non-trivial odd word base, a Relaxed pair with a common odd factor)
example : upowPanics 64 3 5 = false ∧ upowPanics 64 12 41 = false := by decide +kernel
example : powChecked 64 ⟨9, 3⟩ 2 = .ok ⟨81, 9⟩ ∧ powChecked 64 ⟨3, 1⟩ 2 = .ok ⟨9, 1⟩ ∧
    powChecked 64 ⟨-12, 5⟩ 3 = .ok ⟨-1728, 125⟩ := by decide +kernel
-- on the guard: the up-front result buffer of `pow_word_base` (3^(usize::MAX)), the final shift (2^(usize::MAX))
example : upowPanics 64 3 (2 ^ 64 - 1) = true ∧ upowPanics 64 2 (2 ^ 64 - 1) = true := by decide +kernel
-- a guarded program: ((-4/1)^2)⁻¹ = 1/16, then (1/16)^(2^62) panics (2^62 · 4 = 2^64); the registers produced before stay
example : (runG 64 [.pow 0 2, .un .inv 1, .pow 2 (2 ^ 62), .un .neg 0] [⟨.R, ⟨-4, 1⟩⟩]).1.map (·.q) = [⟨-4, 1⟩, ⟨16, 1⟩, ⟨1, 16⟩] ∧
    (match (runG 64 [.pow 0 2, .un .inv 1, .pow 2 (2 ^ 62), .un .neg 0] [⟨.R, ⟨-4, 1⟩⟩]).2 with
      | .panic k => k == .allocTooMuch | _ => false) = true := by decide +kernel

-- ------------------------------------------------------------------ (7) below memory the guard is silent (round 7)


/-- `pow` below memory: no panic, the stored pair is `pow x n` -/
theorem pow_checked_ok_below_memory (x : Q) (n : Nat)
    (hn : x.num.natAbs ^ n < 2 ^ (2 ^ 62)) (hd : x.den ^ n < 2 ^ (2 ^ 62)) :
    powChecked 64 x n = .ok (pow x n) :=
  pow_checked_ok 64 x n (pow_guard_silent_below_memory _ _ hn) (pow_guard_silent_below_memory _ _ hd)

/-- a size criterion on the OPERAND: components of at most `a` bits and `a · n ≤ 2^62` — `pow` returns `pow x n` -/
theorem pow_checked_ok_of_bits (x : Q) (n a : Nat) (hnum : x.num.natAbs < 2 ^ a) (hden : x.den < 2 ^ a)
    (ha : a * n ≤ 2 ^ 62) : powChecked 64 x n = .ok (pow x n) :=
  pow_checked_ok_below_memory x n (pow_lt_of_bits _ _ _ hnum ha) (pow_lt_of_bits _ _ _ hden ha)

/-- **RBig::pow below memory, no panic alternative**: reduced and exactly `x ^ n` -/
theorem rbig_pow_exact_below_memory (x : Q) (n : Nat) (hx : Reduced x)
    (hn : x.num.natAbs ^ n < 2 ^ (2 ^ 62)) (hd : x.den ^ n < 2 ^ (2 ^ 62)) :
    ∃ r, powChecked 64 x n = .ok r ∧ Reduced r ∧ r.val = x.val ^ n :=
  ⟨_, pow_checked_ok_below_memory x n hn hd, Dashu.Props.C04.rbig_pow_exact x n hx⟩

/-- **guarded = unguarded histories below memory**: if every `pow` step of the program, applied to the register the PLAIN
    run (`run`, the op `prog`) has produced by then, has an exact result of fewer than `2^62` bits per component, the guarded run
    (`runG`, the op `qp.prog`, what the real code does) is the plain run — same registers, same stop -/
theorem runG_eq_run_below_memory (ops : List Op) (env : List Reg)
    (h : ∀ k i n a, ops[k]? = some (.pow i n) → (run (ops.take k) env).1[i]? = some a →
      a.q.num.natAbs ^ n < 2 ^ (2 ^ 62) ∧ a.q.den ^ n < 2 ^ (2 ^ 62)) :
    runG 64 ops env = run ops env := by
  rcases runG_cases 64 ops env with e | ⟨k, i, n, a, _, hget, hrun, _, ha, hp⟩
  · exact e
  · have hs := h k i n a hget (by rw [hrun]; exact ha)
    rw [pow_checked_ok_below_memory a.q n hs.1 hs.2] at hp
    cases hp

/-- **values of guarded histories below memory**: under the same hypothesis the guarded run (the real code) computes exactly the
    value-level interpretation of the program and only ever stops with `DivideByZero` — no allocation alternative -/
theorem history_values_guarded_below_memory (ops : List Op) (env : List Reg) (henv : ∀ r ∈ env, r.Inv)
    (h : ∀ k i n a, ops[k]? = some (.pow i n) → (run (ops.take k) env).1[i]? = some a →
      a.q.num.natAbs ^ n < 2 ^ (2 ^ 62) ∧ a.q.den ^ n < 2 ^ (2 ^ 62)) :
    match (runG 64 ops env).2 with
    | .done => Spec.run ops (env.map Reg.val) = ((runG 64 ops env).1.map Reg.val, true)
    | .panic k => k = .divideByZero ∧
        Spec.run ops (env.map Reg.val) = ((runG 64 ops env).1.map Reg.val, false)
    | .bad => True := by
  rw [runG_eq_run_below_memory ops env h]
  exact Dashu.Props.C04.history_values ops env henv

/-- **Relaxed = RBig for `pow` below memory, no "whenever both return" hypothesis**: a Relaxed operand `x` whose stored
    components have exact powers of fewer than `2^62` bits, and the RBig operand `y` denoting the same number — BOTH powers
    are returned, they denote the same number, and `canonicalize` of the Relaxed result is the stored RBig pair -/
theorem relaxed_pow_equals_rbig_below_memory (x y : Q) (n : Nat) (hx : RelaxedInv x) (hy : Reduced y)
    (hv : x.val = y.val) (hn : x.num.natAbs ^ n < 2 ^ (2 ^ 62)) (hd : x.den ^ n < 2 ^ (2 ^ 62)) :
    ∃ r s, powChecked 64 x n = .ok r ∧ powChecked 64 y n = .ok s ∧ r.val = s.val ∧ Reduced s ∧ RelaxedInv r ∧
      reduce r = .ok s := by
  obtain ⟨l1, l2⟩ := reduced_components_le hx.1 hy hv
  have e1 := pow_checked_ok_below_memory x n hn hd
  have e2 := pow_checked_ok_below_memory y n
    (Nat.lt_of_le_of_lt (Nat.pow_le_pow_left l1 n) hn) (Nat.lt_of_le_of_lt (Nat.pow_le_pow_left l2 n) hd)
  obtain ⟨a, b, c⟩ := relaxed_pow_checked_equals_rbig 64 x y _ _ n hx hy hv e1 e2
  exact ⟨_, _, e1, e2, a, b, c, reduce_eq_of_val_eq c.1 b a⟩

-- non-vacuity of (7)
example : powChecked 64 ⟨-12, 5⟩ 3 = .ok (pow ⟨-12, 5⟩ 3) :=
  pow_checked_ok_of_bits ⟨-12, 5⟩ 3 4 (by decide) (by decide) (by decide)

example : RelaxedInv ⟨9, 3⟩ ∧ Reduced ⟨3, 1⟩ ∧ (⟨9, 3⟩ : Q).val = (⟨3, 1⟩ : Q).val ∧
    (⟨9, 3⟩ : Q).num.natAbs ^ 20 < 2 ^ (2 ^ 62) ∧ (⟨9, 3⟩ : Q).den ^ 20 < 2 ^ (2 ^ 62) := by
  refine ⟨by decide, by decide, ?_, small_of_lt _ _ 64 (by decide) (by decide), small_of_lt _ _ 32 (by decide) (by decide)⟩
  simp [Q.val]; norm_num

example : runG 64 [.pow 0 3, .un .inv 1, .pow 2 2] [⟨.R, ⟨-12, 5⟩⟩] = run [.pow 0 3, .un .inv 1, .pow 2 2] [⟨.R, ⟨-12, 5⟩⟩] := by
  apply runG_eq_run_below_memory
  intro k i n a hk ha
  match k with
  | 0 =>
    simp at hk
    obtain ⟨rfl, rfl⟩ := hk
    simp [run] at ha
    subst ha
    exact ⟨small_of_lt _ _ 11 (by decide) (by decide), small_of_lt _ _ 11 (by decide) (by decide)⟩
  | 1 => simp at hk
  | 2 =>
    simp at hk
    obtain ⟨rfl, rfl⟩ := hk
    have e : (run (List.take 2 [Op.pow 0 3, .un .inv 1, .pow 2 2]) [⟨.R, ⟨-12, 5⟩⟩]).1 =
        [⟨.R, ⟨-12, 5⟩⟩, ⟨.R, ⟨-1728, 125⟩⟩, ⟨.R, ⟨-125, 1728⟩⟩] := by decide +kernel
    rw [e] at ha
    simp at ha
    subst ha
    exact ⟨small_of_lt _ _ 30 (by decide) (by decide), small_of_lt _ _ 30 (by decide) (by decide)⟩
  | k + 3 => simp at hk

-- ------------------------------------------------------------------ (8) Relaxed = RBig over guarded histories (round 8)

/-- a guarded run that does not stop with the allocation panic of `pow` IS the plain run (every word size) -/
theorem runG_eq_run_of_no_alloc_panic (W : Nat) (ops : List Op) (env : List Reg)
    (h : ∀ k, (runG W ops env).2 = .panic k → k ≠ .allocTooMuch) : runG W ops env = run ops env := by
  rcases runG_cases W ops env with e | ⟨_, _, _, _, _, _, _, hstop, _, _⟩
  · exact e
  · exact absurd rfl (h _ hstop)

/-- **Relaxed = RBig over GUARDED histories** (`runG`, the op `qp.prog`, what the real code does; every word size): the same
    program on two register files denoting the same numbers, neither guarded run malformed, neither stopping with the allocation
    panic of `pow`: both stop at the same step in the same way (done, or `DivideByZero`) and every register ever produced denotes
    the same number in both -/
theorem history_relaxed_equals_rbig_guarded (W : Nat) (ops : List Op) (e1 e2 : List Reg) (h1 : ∀ r ∈ e1, r.Inv)
    (h2 : ∀ r ∈ e2, r.Inv) (hv : e1.map Reg.val = e2.map Reg.val)
    (nb1 : (runG W ops e1).2 ≠ .bad) (nb2 : (runG W ops e2).2 ≠ .bad)
    (na1 : ∀ k, (runG W ops e1).2 = .panic k → k ≠ .allocTooMuch)
    (na2 : ∀ k, (runG W ops e2).2 = .panic k → k ≠ .allocTooMuch) :
    (runG W ops e1).1.map Reg.val = (runG W ops e2).1.map Reg.val ∧
    (((runG W ops e1).2 = .done ∧ (runG W ops e2).2 = .done) ∨
     ((runG W ops e1).2 = .panic .divideByZero ∧ (runG W ops e2).2 = .panic .divideByZero)) := by
  rw [runG_eq_run_of_no_alloc_panic W ops e1 na1] at nb1 ⊢
  rw [runG_eq_run_of_no_alloc_panic W ops e2 na2] at nb2 ⊢
  exact Dashu.Props.C04.history_relaxed_equals_rbig ops e1 e2 h1 h2 hv nb1 nb2

/-- … and as stored pairs: `canonicalize` of register `i` of the first guarded run is the pair stored in register `i` of the
    second wherever that one is an `RBig` -/
theorem history_canonicalize_equals_rbig_guarded (W : Nat) (ops : List Op) (e1 e2 : List Reg) (h1 : ∀ r ∈ e1, r.Inv)
    (h2 : ∀ r ∈ e2, r.Inv) (hv : e1.map Reg.val = e2.map Reg.val)
    (nb1 : (runG W ops e1).2 ≠ .bad) (nb2 : (runG W ops e2).2 ≠ .bad)
    (na1 : ∀ k, (runG W ops e1).2 = .panic k → k ≠ .allocTooMuch)
    (na2 : ∀ k, (runG W ops e2).2 = .panic k → k ≠ .allocTooMuch)
    (i : Nat) (r1 r2 : Reg) (g1 : (runG W ops e1).1[i]? = some r1) (g2 : (runG W ops e2).1[i]? = some r2)
    (hk : r2.kind = .R) : reduce r1.q = .ok r2.q := by
  rw [runG_eq_run_of_no_alloc_panic W ops e1 na1] at nb1 g1
  rw [runG_eq_run_of_no_alloc_panic W ops e2 na2] at nb2 g2
  exact Dashu.Props.C04.history_canonicalize_equals_rbig ops e1 e2 h1 h2 hv nb1 nb2 i r1 r2 g1 g2 hk

/-- **Relaxed = RBig over guarded histories BELOW memory** (64-bit words): no hypothesis on how the guarded runs stop other than
    well-formedness — if every `pow` step of both plain runs has an exact result of fewer than `2^62` bits per component, the
    guarded runs never raise the allocation panic and agree in stop and in every value -/
theorem history_relaxed_equals_rbig_guarded_below_memory (ops : List Op) (e1 e2 : List Reg) (h1 : ∀ r ∈ e1, r.Inv)
    (h2 : ∀ r ∈ e2, r.Inv) (hv : e1.map Reg.val = e2.map Reg.val)
    (nb1 : (runG 64 ops e1).2 ≠ .bad) (nb2 : (runG 64 ops e2).2 ≠ .bad)
    (hb1 : ∀ k i n a, ops[k]? = some (.pow i n) → (run (ops.take k) e1).1[i]? = some a →
      a.q.num.natAbs ^ n < 2 ^ (2 ^ 62) ∧ a.q.den ^ n < 2 ^ (2 ^ 62))
    (hb2 : ∀ k i n a, ops[k]? = some (.pow i n) → (run (ops.take k) e2).1[i]? = some a →
      a.q.num.natAbs ^ n < 2 ^ (2 ^ 62) ∧ a.q.den ^ n < 2 ^ (2 ^ 62)) :
    (runG 64 ops e1).1.map Reg.val = (runG 64 ops e2).1.map Reg.val ∧
    (((runG 64 ops e1).2 = .done ∧ (runG 64 ops e2).2 = .done) ∨
     ((runG 64 ops e1).2 = .panic .divideByZero ∧ (runG 64 ops e2).2 = .panic .divideByZero)) := by
  rw [runG_eq_run_below_memory ops e1 hb1] at nb1 ⊢
  rw [runG_eq_run_below_memory ops e2 hb2] at nb2 ⊢
  exact Dashu.Props.C04.history_relaxed_equals_rbig ops e1 e2 h1 h2 hv nb1 nb2

-- non-vacuity: Relaxed 9/3 and RBig 3/1 through [pow 0 3, inv 1, sub 1 2 …]: every hypothesis of the guarded theorem holds
private def opsE : List Op := [.pow 0 3, .un .inv 1, .pow 2 2]
private def stopCode : Stop → Nat
  | .done => 0 | .panic .divideByZero => 1 | .panic .allocTooMuch => 2 | .panic _ => 3 | .bad => 4

example : (∀ r ∈ [(⟨.X, ⟨9, 3⟩⟩ : Reg)], r.Inv) ∧ (∀ r ∈ [(⟨.R, ⟨3, 1⟩⟩ : Reg)], r.Inv) ∧
    [(⟨.X, ⟨9, 3⟩⟩ : Reg)].map Reg.val = [(⟨.R, ⟨3, 1⟩⟩ : Reg)].map Reg.val ∧
    stopCode (runG 64 opsE [⟨.X, ⟨9, 3⟩⟩]).2 = 0 ∧ stopCode (runG 64 opsE [⟨.R, ⟨3, 1⟩⟩]).2 = 0 := by
  refine ⟨?_, ?_, ?_, by decide +kernel, by decide +kernel⟩
  · intro r hr; simp at hr; subst hr; show RelaxedInv _; decide
  · intro r hr; simp at hr; subst hr; show Reduced _; decide
  · simp [Reg.val, Q.val]; norm_num

private theorem stopCode_zero {s : Stop} (h : stopCode s = 0) :
    s ≠ .bad ∧ ∀ k, s = .panic k → k ≠ .allocTooMuch := by
  cases s with
  | done => exact ⟨(fun e => by cases e), (fun k e => by cases e)⟩
  | panic k => cases k <;> simp [stopCode] at h
  | bad => simp [stopCode] at h

/-- … so the theorem applies: the guarded Relaxed run on 9/3 and the guarded RBig run on 3/1 agree in every value and both finish -/
example : (runG 64 opsE [⟨.X, ⟨9, 3⟩⟩]).1.map Reg.val = (runG 64 opsE [⟨.R, ⟨3, 1⟩⟩]).1.map Reg.val ∧
    (((runG 64 opsE [⟨.X, ⟨9, 3⟩⟩]).2 = .done ∧ (runG 64 opsE [⟨.R, ⟨3, 1⟩⟩]).2 = .done) ∨
     ((runG 64 opsE [⟨.X, ⟨9, 3⟩⟩]).2 = .panic .divideByZero ∧ (runG 64 opsE [⟨.R, ⟨3, 1⟩⟩]).2 = .panic .divideByZero)) := by
  have c1 : stopCode (runG 64 opsE [⟨.X, ⟨9, 3⟩⟩]).2 = 0 := by decide +kernel
  have c2 : stopCode (runG 64 opsE [⟨.R, ⟨3, 1⟩⟩]).2 = 0 := by decide +kernel
  refine history_relaxed_equals_rbig_guarded 64 opsE _ _ ?_ ?_ ?_ (stopCode_zero c1).1 (stopCode_zero c2).1
    (stopCode_zero c1).2 (stopCode_zero c2).2
  · intro r hr; simp at hr; subst hr; show RelaxedInv _; decide
  · intro r hr; simp at hr; subst hr; show Reduced _; decide
  · simp [Reg.val, Q.val]; norm_num

end Dashu.Props.C04Pow
