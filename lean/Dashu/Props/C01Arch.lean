import Dashu.Model.Int.Word
import Dashu.Props.C19Arch
/-
  C01 ↔ C19 link (round 7).  FRONTIER entry "arch intrinsics (add_with_carry, sub_with_borrow) are taken at their
  documented contracts": the word-level loops of `Model/Int/Word.lean` write the carry step of
  `arch::add::add_with_carry` / `sub_with_borrow` as `s % 2^W`, `s / 2^W`.  C19 regenerates the bodies of those two
  routines from integer/src/arch/{generic,x86,x86_64}/add.rs on every run (`Gen/ArchAdd.lean`) and proves their carry
  arithmetic.  Here: the loops of add.rs `add_same_len_in_place` / `sub_same_len_in_place` /
  `sub_same_len_in_place_swap`, written over the REGENERATED routine (a `(Word, Word, bool) -> (Word, bool)` function,
  Boolean carry, exactly the Rust loop), compute what the model's `addSameLen` / `subSameLen` / `subSameLenSwap`
  compute — for the generic routine at every word size, and for the intrinsic routines at 64 / 32 bits.
-/
namespace Dashu.Props.C01Arch
open Dashu.Model Dashu.Model.Arch Dashu.Gen.ArchAdd Dashu.Props.C19

/-- add.rs `add_same_len_in_place` over a given `arch::add::add_with_carry`:
    `for (a, b) in words.iter_mut().zip(rhs.iter()) { let (sum, c) = add_with_carry(*a, *b, carry); *a = sum; carry = c; }` -/
def addSameLenVia (awc : Nat → Nat → Bool → Nat × Bool) : List Nat → List Nat → Bool → List Nat × Bool
  | a :: as, b :: bs, c =>
    let p := awc a b c
    let q := addSameLenVia awc as bs p.2
    (p.1 :: q.1, q.2)
  | as, _, c => (as, c)

/-- add.rs `sub_same_len_in_place` over a given `arch::add::sub_with_borrow` -/
def subSameLenVia (swb : Nat → Nat → Bool → Nat × Bool) : List Nat → List Nat → Bool → List Nat × Bool
  | a :: as, b :: bs, c =>
    let p := swb a b c
    let q := subSameLenVia swb as bs p.2
    (p.1 :: q.1, q.2)
  | as, _, c => (as, c)

/-- add.rs `sub_same_len_in_place_swap` (`*b = diff`) over a given `arch::add::sub_with_borrow` -/
def subSameLenSwapVia (swb : Nat → Nat → Bool → Nat × Bool) : List Nat → List Nat → Bool → List Nat × Bool
  | a :: as, b :: bs, c =>
    let p := swb a b c
    let q := subSameLenSwapVia swb as bs p.2
    (p.1 :: q.1, q.2)
  | _, bs, c => (bs, c)

/-- the contract of `add_with_carry` at word size `W` (what C19 proves of every regenerated routine) -/
def AddContract (W : Nat) (awc : Nat → Nat → Bool → Nat × Bool) : Prop :=
  ∀ a b c, a < 2 ^ W → b < 2 ^ W →
    awc a b c = ((a + b + cin c) % 2 ^ W, decide ((a + b + cin c) / 2 ^ W ≠ 0))

/-- the contract of `sub_with_borrow` at word size `W` -/
def SubContract (W : Nat) (swb : Nat → Nat → Bool → Nat × Bool) : Prop :=
  ∀ a b c, a < 2 ^ W → b < 2 ^ W →
    swb a b c = ((a + 2 ^ (W + 1) - (b + cin c)) % 2 ^ W, decide (a < b + cin c))

theorem cin_le (c : Bool) : cin c ≤ 1 := by unfold cin; split <;> omega

theorem add_carry_num (W a b : Nat) (c : Bool) (ha : a < 2 ^ W) (hb : b < 2 ^ W) :
    cin (decide ((a + b + cin c) / 2 ^ W ≠ 0)) = (a + b + cin c) / 2 ^ W := by
  have hp := pow_pos' W
  have hc := cin_le c
  have hdiv : (a + b + cin c) / 2 ^ W ≤ 1 := by
    have : a + b + cin c < 2 * 2 ^ W := by omega
    have := (Nat.div_lt_iff_lt_mul hp).2 this
    omega
  generalize (a + b + cin c) / 2 ^ W = q at hdiv ⊢
  have : q = 0 ∨ q = 1 := by omega
  rcases this with h | h <;> subst h <;> simp [cin]

theorem sub_borrow_num (W a b : Nat) (c : Bool) (ha : a < 2 ^ W) (hb : b < 2 ^ W) :
    (a + 2 ^ (W + 1) - (b + cin c)) % 2 ^ W = (a + 2 ^ W - b - cin c) % 2 ^ W ∧
    cin (decide (a < b + cin c)) = 1 - (a + 2 ^ W - b - cin c) / 2 ^ W := by
  have hp := pow_pos' W
  have hc := cin_le c
  have h2 : 2 ^ (W + 1) = 2 * 2 ^ W := by rw [Nat.pow_succ]; omega
  generalize cin c = k at hc ⊢
  generalize 2 ^ W = P at *
  constructor
  · have : a + 2 ^ (W + 1) - (b + k) = (a + P - b - k) + P := by omega
    rw [this, Nat.add_mod_right]
  · by_cases h : a < b + k
    · have : (a + P - b - k) / P = 0 := Nat.div_eq_of_lt (by omega)
      simp [h, this, cin]
    · have : (a + P - b - k) / P = 1 := by
        have e : a + P - b - k = (a - b - k) + P := by omega
        rw [e, Nat.add_div_right _ hp, Nat.div_eq_of_lt (by omega)]
      simp [h, this, cin]

/-- `add_same_len_in_place`: the Rust loop over ANY routine meeting the `add_with_carry` contract is the model's
    `addSameLen` (digits, and the Boolean carry-out is the numeric one) -/
theorem add_same_len_via (W : Nat) (awc : Nat → Nat → Bool → Nat × Bool) (h : AddContract W awc) :
    ∀ (as bs : List Nat) (c : Bool), IsWords W as → IsWords W bs →
      addSameLen W as bs (cin c) =
        ((addSameLenVia awc as bs c).1, cin (addSameLenVia awc as bs c).2) := by
  intro as
  induction as with
  | nil => intro bs c _ _; cases bs <;> simp [addSameLen, addSameLenVia]
  | cons a as ih =>
    intro bs c hA hB
    cases bs with
    | nil => simp [addSameLen, addSameLenVia]
    | cons b bs =>
      have ha : a < 2 ^ W := hA a (by simp)
      have hb : b < 2 ^ W := hB b (by simp)
      have hA' : IsWords W as := fun w hw => hA w (by simp [hw])
      have hB' : IsWords W bs := fun w hw => hB w (by simp [hw])
      have ihh := ih bs (decide ((a + b + cin c) / 2 ^ W ≠ 0)) hA' hB'
      rw [add_carry_num W a b c ha hb] at ihh
      simp only [addSameLen, addSameLenVia, h a b c ha hb, ihh]

/-- `sub_same_len_in_place` likewise -/
theorem sub_same_len_via (W : Nat) (swb : Nat → Nat → Bool → Nat × Bool) (h : SubContract W swb) :
    ∀ (as bs : List Nat) (c : Bool), IsWords W as → IsWords W bs →
      subSameLen W as bs (cin c) =
        ((subSameLenVia swb as bs c).1, cin (subSameLenVia swb as bs c).2) := by
  intro as
  induction as with
  | nil => intro bs c _ _; cases bs <;> simp [subSameLen, subSameLenVia]
  | cons a as ih =>
    intro bs c hA hB
    cases bs with
    | nil => simp [subSameLen, subSameLenVia]
    | cons b bs =>
      have ha : a < 2 ^ W := hA a (by simp)
      have hb : b < 2 ^ W := hB b (by simp)
      have hA' : IsWords W as := fun w hw => hA w (by simp [hw])
      have hB' : IsWords W bs := fun w hw => hB w (by simp [hw])
      obtain ⟨e1, e2⟩ := sub_borrow_num W a b c ha hb
      have ihh := ih bs (decide (a < b + cin c)) hA' hB'
      rw [e2] at ihh
      simp only [subSameLen, subSameLenVia, h a b c ha hb, ihh, e1]

/-- `sub_same_len_in_place_swap` likewise -/
theorem sub_same_len_swap_via (W : Nat) (swb : Nat → Nat → Bool → Nat × Bool) (h : SubContract W swb) :
    ∀ (as bs : List Nat) (c : Bool), IsWords W as → IsWords W bs →
      subSameLenSwap W as bs (cin c) =
        ((subSameLenSwapVia swb as bs c).1, cin (subSameLenSwapVia swb as bs c).2) := by
  intro as
  induction as with
  | nil => intro bs c _ _; cases bs <;> simp [subSameLenSwap, subSameLenSwapVia]
  | cons a as ih =>
    intro bs c hA hB
    cases bs with
    | nil => simp [subSameLenSwap, subSameLenSwapVia]
    | cons b bs =>
      have ha : a < 2 ^ W := hA a (by simp)
      have hb : b < 2 ^ W := hB b (by simp)
      have hA' : IsWords W as := fun w hw => hA w (by simp [hw])
      have hB' : IsWords W bs := fun w hw => hB w (by simp [hw])
      obtain ⟨e1, e2⟩ := sub_borrow_num W a b c ha hb
      have ihh := ih bs (decide (a < b + cin c)) hA' hB'
      rw [e2] at ihh
      simp only [subSameLenSwap, subSameLenSwapVia, h a b c ha hb, ihh, e1]

/-- C19's theorems, as contracts: the regenerated generic routines meet them at EVERY word size, the regenerated
    intrinsic routines at 64 (x86_64) and 32 (x86) bits -/
theorem regenerated_routines_meet_contract :
    (∀ W, AddContract W (generic_add_with_carry W) ∧ SubContract W (generic_sub_with_borrow W)) ∧
    (AddContract 64 x86_64_add_with_carry ∧ SubContract 64 x86_64_sub_with_borrow) ∧
    (AddContract 32 x86_add_with_carry ∧ SubContract 32 x86_sub_with_borrow) := by
  refine ⟨fun W => ⟨fun a b c ha hb => (generic_add_with_carry_spec W a b c ha hb).1,
                    fun a b c ha hb => generic_sub_with_borrow_spec W a b c ha hb⟩, ⟨?_, ?_⟩, ⟨?_, ?_⟩⟩
  · intro a b c ha hb
    rw [((intrinsic_routines_eq_generic a b c).1 ha hb).1, (generic_add_with_carry_spec 64 a b c ha hb).1]
  · intro a b c ha hb
    rw [((intrinsic_routines_eq_generic a b c).1 ha hb).2, generic_sub_with_borrow_spec 64 a b c ha hb]
  · intro a b c ha hb
    rw [((intrinsic_routines_eq_generic a b c).2 ha hb).1, (generic_add_with_carry_spec 32 a b c ha hb).1]
  · intro a b c ha hb
    rw [((intrinsic_routines_eq_generic a b c).2 ha hb).2, generic_sub_with_borrow_spec 32 a b c ha hb]

/-- LINK C01 ↔ C19 (Tie A below the word loops): `add_same_len_in_place` / `sub_same_len_in_place` /
    `sub_same_len_in_place_swap` of add.rs, run over the `add_with_carry` / `sub_with_borrow` bodies REGENERATED from
    arch/generic/add.rs (every word size) and from arch/x86_64/add.rs (the native build the correspondence runs; one
    `_addcarry_u64` / `_subborrow_u64` each), started with `carry = false`, are the model's
    `addSameLen W · · 0` / `subSameLen W · · 0` / `subSameLenSwap W · · 0` that every C01 theorem is about. -/
theorem word_loops_over_regenerated_arch (W : Nat) (as bs : List Nat) (hA : IsWords W as) (hB : IsWords W bs) :
    addSameLen W as bs 0 = ((addSameLenVia (generic_add_with_carry W) as bs false).1,
                            cin (addSameLenVia (generic_add_with_carry W) as bs false).2) ∧
    subSameLen W as bs 0 = ((subSameLenVia (generic_sub_with_borrow W) as bs false).1,
                            cin (subSameLenVia (generic_sub_with_borrow W) as bs false).2) ∧
    subSameLenSwap W as bs 0 = ((subSameLenSwapVia (generic_sub_with_borrow W) as bs false).1,
                                cin (subSameLenSwapVia (generic_sub_with_borrow W) as bs false).2) ∧
    (W = 64 →
      addSameLen W as bs 0 = ((addSameLenVia x86_64_add_with_carry as bs false).1,
                              cin (addSameLenVia x86_64_add_with_carry as bs false).2) ∧
      subSameLen W as bs 0 = ((subSameLenVia x86_64_sub_with_borrow as bs false).1,
                              cin (subSameLenVia x86_64_sub_with_borrow as bs false).2) ∧
      subSameLenSwap W as bs 0 = ((subSameLenSwapVia x86_64_sub_with_borrow as bs false).1,
                                  cin (subSameLenSwapVia x86_64_sub_with_borrow as bs false).2)) ∧
    (W = 32 →
      addSameLen W as bs 0 = ((addSameLenVia x86_add_with_carry as bs false).1,
                              cin (addSameLenVia x86_add_with_carry as bs false).2) ∧
      subSameLen W as bs 0 = ((subSameLenVia x86_sub_with_borrow as bs false).1,
                              cin (subSameLenVia x86_sub_with_borrow as bs false).2) ∧
      subSameLenSwap W as bs 0 = ((subSameLenSwapVia x86_sub_with_borrow as bs false).1,
                                  cin (subSameLenSwapVia x86_sub_with_borrow as bs false).2)) := by
  obtain ⟨hg, ⟨h64a, h64s⟩, ⟨h32a, h32s⟩⟩ := regenerated_routines_meet_contract
  have z : cin false = 0 := rfl
  refine ⟨?_, ?_, ?_, ?_, ?_⟩
  · simpa [z] using add_same_len_via W _ (hg W).1 as bs false hA hB
  · simpa [z] using sub_same_len_via W _ (hg W).2 as bs false hA hB
  · simpa [z] using sub_same_len_swap_via W _ (hg W).2 as bs false hA hB
  · intro hW; subst hW
    exact ⟨by simpa [z] using add_same_len_via 64 _ h64a as bs false hA hB,
           by simpa [z] using sub_same_len_via 64 _ h64s as bs false hA hB,
           by simpa [z] using sub_same_len_swap_via 64 _ h64s as bs false hA hB⟩
  · intro hW; subst hW
    exact ⟨by simpa [z] using add_same_len_via 32 _ h32a as bs false hA hB,
           by simpa [z] using sub_same_len_via 32 _ h32s as bs false hA hB,
           by simpa [z] using sub_same_len_swap_via 32 _ h32s as bs false hA hB⟩

/-- the single steps at all other call sites (`add_dword_in_place` / `sub_dword_in_place` second word,
    `add_mul_chunk` / `sub_mul_chunk` top word `c[i + n]`, Karatsuba / Toom-3 carry words): the regenerated routine
    returns exactly the expressions the model writes there — digit `s % 2^W`, carry `s / 2^W` with `s = a + b + carry`;
    digit `d % 2^W`, borrow `1 - d / 2^W` with `d = a + 2^W - b - borrow` — and the x86_64 / x86 intrinsic routines
    are that same function at their word size -/
theorem arch_step_is_model_step (W a b : Nat) (c : Bool) (ha : a < 2 ^ W) (hb : b < 2 ^ W) :
    (generic_add_with_carry W a b c).1 = (a + b + cin c) % 2 ^ W ∧
    cin (generic_add_with_carry W a b c).2 = (a + b + cin c) / 2 ^ W ∧
    (generic_sub_with_borrow W a b c).1 = (a + 2 ^ W - b - cin c) % 2 ^ W ∧
    cin (generic_sub_with_borrow W a b c).2 = 1 - (a + 2 ^ W - b - cin c) / 2 ^ W ∧
    (W = 64 → x86_64_add_with_carry a b c = generic_add_with_carry W a b c ∧
              x86_64_sub_with_borrow a b c = generic_sub_with_borrow W a b c) ∧
    (W = 32 → x86_add_with_carry a b c = generic_add_with_carry W a b c ∧
              x86_sub_with_borrow a b c = generic_sub_with_borrow W a b c) := by
  obtain ⟨e1, e2⟩ := sub_borrow_num W a b c ha hb
  rw [(generic_add_with_carry_spec W a b c ha hb).1, generic_sub_with_borrow_spec W a b c ha hb]
  refine ⟨rfl, add_carry_num W a b c ha hb, e1, e2, ?_, ?_⟩
  · intro hW; subst hW
    rw [← (generic_add_with_carry_spec 64 a b c ha hb).1, ← generic_sub_with_borrow_spec 64 a b c ha hb]
    exact (intrinsic_routines_eq_generic a b c).1 ha hb
  · intro hW; subst hW
    rw [← (generic_add_with_carry_spec 32 a b c ha hb).1, ← generic_sub_with_borrow_spec 32 a b c ha hb]
    exact (intrinsic_routines_eq_generic a b c).2 ha hb

/-- non-vacuity: word lists meeting the hypotheses on which the carry / borrow runs through every position and out
    of the top (the x86_64 routine at 64 bits) -/
example : IsWords 64 [2 ^ 64 - 1, 2 ^ 64 - 1, 2 ^ 64 - 1] ∧ IsWords 64 [1, 0, 0] ∧
    addSameLenVia x86_64_add_with_carry [2 ^ 64 - 1, 2 ^ 64 - 1, 2 ^ 64 - 1] [1, 0, 0] false = ([0, 0, 0], true) ∧
    addSameLen 64 [2 ^ 64 - 1, 2 ^ 64 - 1, 2 ^ 64 - 1] [1, 0, 0] 0 = ([0, 0, 0], 1) ∧
    subSameLenVia x86_64_sub_with_borrow [0, 0, 0] [1, 0, 0] false = ([2 ^ 64 - 1, 2 ^ 64 - 1, 2 ^ 64 - 1], true) ∧
    subSameLen 64 [0, 0, 0] [1, 0, 0] 0 = ([2 ^ 64 - 1, 2 ^ 64 - 1, 2 ^ 64 - 1], 1) ∧
    (2 ^ 64 - 1 < 2 ^ 64 ∧ x86_64_add_with_carry (2 ^ 64 - 1) (2 ^ 64 - 1) true = (2 ^ 64 - 1, true) ∧
      x86_64_sub_with_borrow 0 (2 ^ 64 - 1) true = (0, true)) := by decide

end Dashu.Props.C01Arch
