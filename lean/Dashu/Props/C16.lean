import Dashu.Proofs.Panic.Guards
import Dashu.Proofs.Panic.Farey
import Dashu.Proofs.Panic.LnLoop
import Dashu.Proofs.Panic.Utf8
/-
  C16 — operations terminate and panic only where the documentation says so.   PARTIAL.

  The model of this property is the documentation itself: `Dashu.Spec.Panics.verdict` (a transcription of the
  rustdoc, 146 operations).  The driver `drive_panic` prints `verdict` for every case line and the real call
  (debug and release builds, supervised worker) must end the same way.  What is PROVED here:

   (1) the transcription is total and can only name documented kinds;
   (2) for the operations whose entry guards are mirrored from the code (`Dashu.Model.Panic.guard*`), the guard
       fails with kind `k` IFF the documentation names `k` — for all arguments;
   (3) termination: `farey_neighbors` returns within `limit` iterations and needs `limit` of them on `1/(limit+1)`;
       the `ln` series loop terminates for positive input (the only input that reaches it since fix b0e87a3, by
       `fbig_ln_guard`) and provably never for negative input (as-is counterexample for the pre-fix code);
   (4) the float parser's byte-offset slicing only cuts at char boundaries of well-formed UTF-8.

  /- FULL STATEMENT (not provable with the present models; kept for the record):
     theorem c16_full : ∀ (op : Op) (args : Args), Valid op args →
        (∃ fuel, run op args fuel = .ok v ∨ run op args fuel = .error k) ∧          -- terminates
        (run op args = .error k ↔ documented op args = some k)                        -- panics iff documented
     where `run` is an executable model of the WHOLE implementation of every public operation.  Such a model exists
     only for the entry guards (2) and the two loops (3); all other operations are decided by the correspondence
     run against the transcription (evidence lists them as explored, not proved).  The statement is moreover
     FALSE for the current code: see `farey_needs_limit_steps` and the findings recorded for C16 in
     known_findings.jsonl (`ln_negative_never_terminates` was the second counterexample until fix b0e87a3). -/
-/
namespace Dashu.Props.C16
open Dashu.Spec.Panics Dashu.Model.Panic Dashu.Proofs.Panic

-- ------------------------------------------------------------------ (1) the transcription

/-- `documented` is total and every kind it returns is one of the 17 documented kinds -/
theorem documented_is_total (W : Nat) (op : Op) (args : List Arg) :
    documented W op args = none ∨ ∃ k ∈ Kind.all, documented W op args = some k :=
  documented_total W op args

/-- no documented kind is an `Undocumented(site)` of the integer model; shared kinds print identically, and the
    printed names are pairwise distinct (the differ compares names) -/
theorem documented_never_undocumented (k : Kind) (site : String) :
    Kind.toPanicKind? k ≠ some (.undocumented site) := kind_never_undocumented k site

theorem kind_names_agree (k : Kind) (p : Dashu.Model.PanicKind) (h : Kind.toPanicKind? k = some p) :
    k.name = p.name := kind_name_agrees k p h

theorem kind_names_distinct (a b : Kind) (h : a.name = b.name) : a = b := kind_name_injective a b h

-- ------------------------------------------------------------------ (2) mirrored entry guards ⇔ documentation

theorem ubig_sub_guard (W a b : Nat) (k : Kind) :
    guardUSub W a b = .error k ↔ documented W .uSub [.int a, .int b] = some k := guardUSub_iff W a b k

theorem ubig_div_family_guard (W a b : Nat) (k : Kind) (op : Op)
    (hop : op ∈ [Op.uDiv, .uRem, .uDivRem, .uDivEuclid, .uRemEuclid, .uDivRemEuclid, .uIsMultipleOf]) :
    guardDivByZero W b = .error k ↔ documented W op [.int a, .int b] = some k := guardUDiv_iff W a b k op hop

theorem ibig_div_family_guard (W : Nat) (a b : Int) (k : Kind) (op : Op)
    (hop : op ∈ [Op.iDiv, .iRem, .iDivRem, .iDivEuclid, .iRemEuclid, .iDivRemEuclid, .iIsMultipleOf]) :
    guardDivByZero W b.natAbs = .error k ↔ documented W op [.int a, .int b] = some k := guardIDiv_iff W a b k op hop

theorem ubig_gcd_guard (W a b : Nat) (k : Kind) (op : Op) (hop : op ∈ [Op.uGcd, .uGcdExt]) :
    guardGcd W a b = .error k ↔ documented W op [.int a, .int b] = some k := guardUGcd_iff W a b k op hop

theorem ibig_gcd_guard (W : Nat) (a b : Int) (k : Kind) (op : Op) (hop : op ∈ [Op.iGcd, .iGcdExt]) :
    guardGcd W a.natAbs b.natAbs = .error k ↔ documented W op [.int a, .int b] = some k := guardIGcd_iff W a b k op hop

theorem ubig_nth_root_guard (W x n : Nat) (k : Kind) :
    guardUNthRoot n = .error k ↔ documented W .uNthRoot [.int x, .dec n] = some k := guardUNthRoot_iff W x n k

theorem ibig_nth_root_guard (W : Nat) (x : Int) (n : Nat) (k : Kind) :
    guardINthRoot x n = .error k ↔ documented W .iNthRoot [.int x, .dec n] = some k := guardINthRoot_iff W x n k

theorem ibig_sqrt_guard (W : Nat) (x : Int) (k : Kind) :
    guardISqrt x = .error k ↔ documented W .iSqrt [.int x] = some k := guardISqrt_iff W x k

theorem ubig_ilog_guard (W x b : Nat) (k : Kind) (hW : 1 ≤ W) :
    guardIlog W x b = .error k ↔ documented W .uIlog [.int x, .int b] = some k := guardUIlog_iff W x b k hW

theorem ibig_ilog_guard (W : Nat) (x : Int) (b : Nat) (k : Kind) (hW : 1 ≤ W) :
    guardIlog W x.natAbs b = .error k ↔ documented W .iIlog [.int x, .int b] = some k := guardIIlog_iff W x b k hW

theorem in_radix_guard (W : Nat) (x : Int) (r : Nat) (k : Kind) :
    guardInRadix r = .error k ↔ documented W .iInRadix [.int x, .dec r] = some k := guardInRadix_iff W x r k

theorem const_divisor_new_guard (W n : Nat) (k : Kind) :
    guardCdNew W n = .error k ↔ documented W .cdNew [.int n] = some k := guardCdNew_iff W n k

theorem rbig_from_parts_guard (W : Nat) (n : Int) (d : Nat) (c : Char) (k : Kind) :
    guardQFromParts d = .error k ↔ documented W .qFromParts [.int n, .int d, .kind c] = some k :=
  guardQFromParts_iff W n d c k

theorem rbig_limit_guard (W : Nat) (n : Int) (d l : Nat) (c : Char) (k : Kind) (hd : 0 < d) (op : Op)
    (hop : op ∈ [Op.qNearest, .qNextUp, .qNextDown]) :
    guardQLimit l = .error k ↔ documented W op [.int n, .int d, .kind c, .int l] = some k :=
  guardQLimit_iff W n d l c k hd op hop

theorem fbig_add_sub_guard (W : Nat) (a b : FArg) (k : Kind) (op : Op) (hop : op ∈ [Op.fAdd, .fSub])
    (hc : (a.canonical ∧ b.canonical ∧ sameKind a b)) (hm : (a.moderate ∧ b.moderate)) :
    guardFAdd a b = .error k ↔ documented W op [.flt a, .flt b] = some k := guardFAdd_iff W a b k op hop hc hm

theorem fbig_div_guard (W : Nat) (a b : FArg) (k : Kind)
    (hc : (a.canonical ∧ b.canonical ∧ sameKind a b)) (hm : (a.moderate ∧ b.moderate)) :
    guardFDiv W a b = .error k ↔ documented W .fDiv [.flt a, .flt b] = some k := guardFDiv_iff W a b k hc hm

theorem fbig_sqrt_guard (W : Nat) (a : FArg) (k : Kind) (hc : a.canonical) (hm : a.moderate) :
    guardFSqrt a = .error k ↔ documented W .fSqrt [.flt a] = some k := guardFSqrt_iff W a k hc hm

theorem fbig_ulp_guard (W : Nat) (a : FArg) (k : Kind) (hc : a.canonical) (hm : a.moderate) :
    guardFUlp a = .error k ↔ documented W .fUlp [.flt a] = some k := guardFUlp_iff W a k hc hm

-- guards that exist since the fix: commits c27ca7f, 65edb1e, 0ffa05d, d9f681e, b0e87a3 (full statements for the patched code)

theorem ubig_is_multiple_of_const_guard (W a d : Nat) (k : Kind) (hd : d < 2 ^ (2 * W)) :
    guardIsMultipleOfConst d = .error k ↔ documented W .uIsMultipleOfConst [.int a, .int d] = some k :=
  guardUIsMultipleOfConst_iff W a d k hd

theorem ibig_is_multiple_of_const_guard (W : Nat) (a : Int) (d : Nat) (k : Kind) (hd : d < 2 ^ (2 * W)) :
    guardIsMultipleOfConst d = .error k ↔ documented W .iIsMultipleOfConst [.int a, .int d] = some k :=
  guardIIsMultipleOfConst_iff W a d k hd

theorem fbig_split_at_point_guard (W : Nat) (a : FArg) (k : Kind) (hc : a.canonical) (hm : a.moderate) :
    guardFSplitAtPoint a = .error k ↔ documented W .fSplitAtPoint [.flt a] = some k :=
  guardFSplitAtPoint_iff W a k hc hm

theorem fbig_euclid_guard (W : Nat) (a b : FArg) (k : Kind) (op : Op) (hop : op ∈ [Op.fDivEuclid, .fRemEuclid])
    (hc : (a.canonical ∧ b.canonical ∧ sameKind a b)) (hm : (a.moderate ∧ b.moderate)) :
    guardFEuclid W a b = .error k ↔ documented W op [.flt a, .flt b] = some k :=
  guardFEuclid_iff W a b k op hop hc hm

theorem fbig_powf_guard (W : Nat) (a b : FArg) (k : Kind)
    (hc : (a.canonical ∧ b.canonical ∧ sameKind a b)) (hm : (a.moderate ∧ b.moderate)) :
    guardFPowf a b = .error k ↔ documented W .fPowf [.flt a, .flt b] = some k := guardFPowf_iff W a b k hc hm

/-- `ln`: finite, limited precision, and (since b0e87a3) `x > 0` — exactly the documented conditions -/
theorem fbig_ln_guard (W : Nat) (a : FArg) (k : Kind) (hc : a.canonical) (hm : a.moderate) :
    guardFLn a = .error k ↔ documented W .fLn [.flt a] = some k := guardFLn_iff W a k hc hm

/-- `ln_1p`: finite, limited precision, and (since b0e87a3) `x > -1` -/
theorem fbig_ln_1p_guard (W : Nat) (a : FArg) (k : Kind) (hc : a.canonical) (hm : a.moderate) :
    guardFLn1p a = .error k ↔ documented W .fLn1p [.flt a] = some k := guardFLn1p_iff W a k hc hm

example : guardFLn ⟨2, -3, 0, 14, 'Z'⟩ = .error .logInvalid := by decide
example : guardFLn1p ⟨10, -1, 0, 5, 'H'⟩ = .error .logInvalid := by decide
example : guardFLn1p ⟨10, -5, -1, 5, 'H'⟩ = .ok () := by decide
example : guardFEuclid 64 ⟨2, 0, 1, 0, 'Z'⟩ ⟨2, 3, 0, 0, 'Z'⟩ = .error .infinite := by decide

-- non-vacuity of the float hypotheses: −∞ / 12345·2^-2 at precision 0 is a canonical, moderate pair and the
-- guard fails with Infinite; 3/0 at precision 5 fails with DivideByZero
example : guardFDiv 64 ⟨2, 0, -1, 0, 'Z'⟩ ⟨2, 12345, -2, 0, 'Z'⟩ = .error .infinite := by decide
example : guardFDiv 64 ⟨2, 3, 0, 5, 'Z'⟩ ⟨2, 0, 0, 5, 'Z'⟩ = .error .divideByZero := by decide
example : (⟨2, 12345, -2, 0, 'Z'⟩ : FArg).canonical = true ∧ (⟨2, 12345, -2, 0, 'Z'⟩ : FArg).moderate = true := by
  decide
example : guardUSub 64 (2 ^ 130) (2 ^ 130 + 1) = .error .negativeUBig := by decide
example : guardIlog 64 0 (2 ^ 64) = .error .logInvalid := by decide

-- ------------------------------------------------------------------ (3) termination

/-- `RBig::farey_neighbors(x, limit)`, `limit ≥ 1`: at most `limit` iterations -/
theorem farey_terminates (x : Fr) (limit : Nat) (hl : 1 ≤ limit) :
    ∃ fuel, fuel ≤ limit ∧ fareyNeighbors x limit fuel ≠ none := fareyNeighbors_terminates x limit hl

/-- … and not fewer on `1/(limit+1)`: the walk is LINEAR in `limit` (the finding: `next_up(2^64)` does not return
    in any reasonable time) -/
theorem farey_needs_limit_steps (L fuel : Nat) (h : fuel < L) :
    fareyNeighbors ⟨1, L + 1⟩ L fuel = none := Dashu.Proofs.Panic.farey_needs_limit_steps L fuel h

example : fareyNeighbors ⟨1, 11⟩ 10 10 = some (⟨0, 1⟩, ⟨1, 10⟩) := by decide
example : fareyNeighbors ⟨1, 11⟩ 10 9 = none := by decide

/-- `ln` of a positive number: after scaling `1 ≤ x ≤ 2` the series loop stops; `N + 1` iterations suffice when
    `z ≤ 9^(N+1)·eps` — logarithmic in `1/eps` -/
theorem ln_positive_terminates (x eps : Rat) (h1 : 1 ≤ x) (h2 : x ≤ 2) (he : 0 < eps) (N : Nat)
    (hN : (x - 1) / (x + 1) ≤ 9 ^ (N + 1) * eps) : lnSeries x eps (N + 1) ≠ none :=
  lnSeries_terminates x eps h1 h2 he N hN

/-- AS-IS COUNTEREXAMPLE for the code before fix b0e87a3 (kept: it shows the guard `fbig_ln_guard` is NECESSARY):
    the series loop entered with a negative number (scaled into `[-2, -1)` by the same scaling code) never satisfies
    its stopping test.  Since b0e87a3 `ln_internal` panics before the loop for `x ≤ 0` (`fbig_ln_guard`), so the loop
    is only entered under the hypothesis of `ln_positive_terminates`. -/
theorem ln_negative_never_terminates (x eps : Rat) (h1 : -2 ≤ x) (h2 : x < -1) (he : eps < 1) :
    ∀ fuel, lnSeries x eps fuel = none := lnSeries_diverges x eps h1 h2 he

-- ------------------------------------------------------------------ (4) the float parser's slicing

/-- cutting a well-formed UTF-8 string right before / right after an ASCII byte is always at a char boundary -/
theorem ascii_cuts_safe (bs : List UInt8) (h : Utf8 bs) (p : Nat) (b : UInt8)
    (hb : bs[p]? = some b) (hlt : b.toNat < 128) : isCharBoundary bs p ∧ isCharBoundary bs (p + 1) :=
  ascii_cuts_are_boundaries bs h p b hb hlt

/-- all offsets `from_str_native` slices at (around the last scale marker, around the first `.`, after `0x`) -/
theorem float_parser_cuts_safe (bs : List UInt8) (h : Utf8 bs) : ∀ i ∈ parserCuts bs, isCharBoundary bs i :=
  parserCuts_are_boundaries bs h

-- "1é.5e3": the cuts are 3,4 (around '.') and 5,6 (around 'e'); offset 2 (inside é = C3 A9) is not among them
example : parserCuts [49, 0xC3, 0xA9, 46, 53, 101, 51] = [3, 4, 5, 6] := by decide

end Dashu.Props.C16
