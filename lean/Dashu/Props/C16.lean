import Dashu.Proofs.Panic.Guards
import Dashu.Proofs.Panic.GuardsMore
import Dashu.Proofs.Panic.AllocGuards
import Dashu.Proofs.Panic.GuardsMore3
import Dashu.Proofs.Panic.NoPanic
import Dashu.Proofs.Panic.Loops2
import Dashu.Proofs.Panic.Farey
import Dashu.Proofs.Panic.LnLoop
import Dashu.Proofs.Panic.Utf8
import Dashu.Proofs.Panic.Guards5
import Dashu.Proofs.Panic.UlpSharp
import Dashu.Proofs.Panic.InvLink
/-
  C16 — operations terminate and panic only where the documentation says so.   PARTIAL.

  The model of this property is the documentation itself: `Dashu.Spec.Panics.verdict` (a transcription of the
  rustdoc, 146 operations).  The driver `drive_panic` prints `verdict` for every case line and the real call
  (debug and release builds, supervised worker) must end the same way.  What is PROVED here:

   (1) the transcription is total and can only name documented kinds;
   (2) for the operations whose entry guards are mirrored from the code (`Dashu.Model.Panic.guard*`), the guard
       fails with kind `k` IFF the documentation names `k` — for all arguments;
   (3) termination: `farey_neighbors` returns within `limit` iterations and needs `limit` of them on `1/(limit+1)`;
       the `ln` series loop terminates for positive input (the only input that reaches it since fix b0e87a3, by
       `fbig_ln_guard`) and provably never for negative input (as-is counterexample for the pre-fix code);
   (4) the float parser's byte-offset slicing only cuts at char boundaries of well-formed UTF-8.

  /- FULL STATEMENT (not provable with the present models; kept for the record):
     theorem c16_full : ∀ (op : Op) (args : Args), Valid op args →
        (∃ fuel, run op args fuel = .ok v ∨ run op args fuel = .error k) ∧          -- terminates
        (run op args = .error k ↔ documented op args = some k)                        -- panics iff documented
     where `run` is an executable model of the WHOLE implementation of every public operation.  Such a model exists
     only for the entry guards (2) and the two loops (3); all other operations are decided by the correspondence
     run against the transcription (evidence lists them as explored, not proved).  The statement is moreover
     FALSE for the current code: see `farey_needs_limit_steps` and the findings recorded for C16 in
     known_findings.jsonl (`ln_negative_never_terminates` was the second counterexample until fix b0e87a3). -/
-/
namespace Dashu.Props.C16
open Dashu.Spec.Panics Dashu.Model.Panic Dashu.Proofs.Panic

-- ------------------------------------------------------------------ (1) the transcription

/-- `documented` is total and every kind it returns is one of the 17 documented kinds -/
theorem documented_is_total (W : Nat) (op : Op) (args : List Arg) :
    documented W op args = none ∨ ∃ k ∈ Kind.all, documented W op args = some k :=
  documented_total W op args

/-- no documented kind is an `Undocumented(site)` of the integer model; shared kinds print identically, and the
    printed names are pairwise distinct (the differ compares names) -/
theorem documented_never_undocumented (k : Kind) (site : String) :
    Kind.toPanicKind? k ≠ some (.undocumented site) := kind_never_undocumented k site

theorem kind_names_agree (k : Kind) (p : Dashu.Model.PanicKind) (h : Kind.toPanicKind? k = some p) :
    k.name = p.name := kind_name_agrees k p h

theorem kind_names_distinct (a b : Kind) (h : a.name = b.name) : a = b := kind_name_injective a b h

-- ------------------------------------------------------------------ (2) mirrored entry guards ⇔ documentation

theorem ubig_sub_guard (W a b : Nat) (k : Kind) :
    guardUSub W a b = .error k ↔ documented W .uSub [.int a, .int b] = some k := guardUSub_iff W a b k

theorem ubig_div_family_guard (W a b : Nat) (k : Kind) (op : Op)
    (hop : op ∈ [Op.uDiv, .uRem, .uDivRem, .uDivEuclid, .uRemEuclid, .uDivRemEuclid, .uIsMultipleOf]) :
    guardDivByZero W b = .error k ↔ documented W op [.int a, .int b] = some k := guardUDiv_iff W a b k op hop

theorem ibig_div_family_guard (W : Nat) (a b : Int) (k : Kind) (op : Op)
    (hop : op ∈ [Op.iDiv, .iRem, .iDivRem, .iDivEuclid, .iRemEuclid, .iDivRemEuclid, .iIsMultipleOf]) :
    guardDivByZero W b.natAbs = .error k ↔ documented W op [.int a, .int b] = some k := guardIDiv_iff W a b k op hop

theorem ubig_gcd_guard (W a b : Nat) (k : Kind) (op : Op) (hop : op ∈ [Op.uGcd, .uGcdExt]) :
    guardGcd W a b = .error k ↔ documented W op [.int a, .int b] = some k := guardUGcd_iff W a b k op hop

theorem ibig_gcd_guard (W : Nat) (a b : Int) (k : Kind) (op : Op) (hop : op ∈ [Op.iGcd, .iGcdExt]) :
    guardGcd W a.natAbs b.natAbs = .error k ↔ documented W op [.int a, .int b] = some k := guardIGcd_iff W a b k op hop

theorem ubig_nth_root_guard (W x n : Nat) (k : Kind) :
    guardUNthRoot n = .error k ↔ documented W .uNthRoot [.int x, .dec n] = some k := guardUNthRoot_iff W x n k

theorem ibig_nth_root_guard (W : Nat) (x : Int) (n : Nat) (k : Kind) :
    guardINthRoot x n = .error k ↔ documented W .iNthRoot [.int x, .dec n] = some k := guardINthRoot_iff W x n k

theorem ibig_sqrt_guard (W : Nat) (x : Int) (k : Kind) :
    guardISqrt x = .error k ↔ documented W .iSqrt [.int x] = some k := guardISqrt_iff W x k

theorem ubig_ilog_guard (W x b : Nat) (k : Kind) (hW : 1 ≤ W) :
    guardIlog W x b = .error k ↔ documented W .uIlog [.int x, .int b] = some k := guardUIlog_iff W x b k hW

theorem ibig_ilog_guard (W : Nat) (x : Int) (b : Nat) (k : Kind) (hW : 1 ≤ W) :
    guardIlog W x.natAbs b = .error k ↔ documented W .iIlog [.int x, .int b] = some k := guardIIlog_iff W x b k hW

theorem in_radix_guard (W : Nat) (x : Int) (r : Nat) (k : Kind) :
    guardInRadix r = .error k ↔ documented W .iInRadix [.int x, .dec r] = some k := guardInRadix_iff W x r k

theorem const_divisor_new_guard (W n : Nat) (k : Kind) :
    guardCdNew W n = .error k ↔ documented W .cdNew [.int n] = some k := guardCdNew_iff W n k

theorem rbig_from_parts_guard (W : Nat) (n : Int) (d : Nat) (c : Char) (k : Kind) :
    guardQFromParts d = .error k ↔ documented W .qFromParts [.int n, .int d, .kind c] = some k :=
  guardQFromParts_iff W n d c k

theorem rbig_limit_guard (W : Nat) (n : Int) (d l : Nat) (c : Char) (k : Kind) (hd : 0 < d) (op : Op)
    (hop : op ∈ [Op.qNearest, .qNextUp, .qNextDown]) :
    guardQLimit l = .error k ↔ documented W op [.int n, .int d, .kind c, .int l] = some k :=
  guardQLimit_iff W n d l c k hd op hop

theorem fbig_add_sub_guard (W : Nat) (a b : FArg) (k : Kind) (op : Op) (hop : op ∈ [Op.fAdd, .fSub])
    (hc : (a.canonical ∧ b.canonical ∧ sameKind a b)) (hm : (a.moderate ∧ b.moderate)) :
    guardFAdd a b = .error k ↔ documented W op [.flt a, .flt b] = some k := guardFAdd_iff W a b k op hop hc hm

theorem fbig_div_guard (W : Nat) (a b : FArg) (k : Kind)
    (hc : (a.canonical ∧ b.canonical ∧ sameKind a b)) (hm : (a.moderate ∧ b.moderate)) :
    guardFDiv W a b = .error k ↔ documented W .fDiv [.flt a, .flt b] = some k := guardFDiv_iff W a b k hc hm

theorem fbig_sqrt_guard (W : Nat) (a : FArg) (k : Kind) (hc : a.canonical) (hm : a.moderate) :
    guardFSqrt a = .error k ↔ documented W .fSqrt [.flt a] = some k := guardFSqrt_iff W a k hc hm

/- FULL STATEMENT (false for the current code, see the counterexample):  the same without `hp` -/
theorem fbig_ulp_guard_partial (W : Nat) (a : FArg) (k : Kind) (hc : a.canonical) (hm : a.moderate) (hp : a.prec ≤ 2 ^ 62) :
    guardFUlp a = .error k ↔ documented W .fUlp [.flt a] = some k := guardFUlp_iff W a k hc hm hp

theorem fbig_ulp_guard_counterexample :
    guardFUlp ⟨2, 3, -5, 2 ^ 63, 'Z'⟩ = .ok () ∧
    documented 64 .fUlp [.flt ⟨2, 3, -5, 2 ^ 63, 'Z'⟩] = some .exponentOverflow := guardFUlp_counterexample

example : (⟨2, 3, 0, 5, 'Z'⟩ : FArg).canonical = true ∧ (⟨2, 3, 0, 5, 'Z'⟩ : FArg).moderate = true := by decide +kernel

/- round 7: the hypothesis `prec ≤ 2^62` of `fbig_ulp_guard_partial` weakened to the WEAKEST possible one.  `ulpClauseSilent a` :=
   `prec = 0 ∨ a infinite ∨ isize::MIN ≤ exp + digits − prec` (the documented underflow clause does not apply); every precision
   up to usize::MAX is admitted.  FULL STATEMENT (false for the current code): the same without `hs`. -/
theorem fbig_ulp_guard_sharp_partial (W : Nat) (a : FArg) (k : Kind) (hc : a.canonical) (hm : a.moderate)
    (hs : ulpClauseSilent a) :
    guardFUlp a = .error k ↔ documented W .fUlp [.flt a] = some k := guardFUlp_iff_sharp W a k hc hm hs

/-- `hs` is necessary on EVERY input, not only at the witness of `fbig_ulp_guard_counterexample`: on canonical moderate operands
    the guard of `FBig::ulp` agrees with the documentation for all kinds iff the underflow clause is silent; outside, the code
    checks nothing where ExponentOverflow is documented (= the input class of finding float_precision_isize_cast, f.ulp) -/
theorem fbig_ulp_guard_exact_class (W : Nat) (a : FArg) (hc : a.canonical) (hm : a.moderate) :
    ((∀ k : Kind, guardFUlp a = .error k ↔ documented W .fUlp [.flt a] = some k) ↔ ulpClauseSilent a) ∧
    (¬ ulpClauseSilent a → guardFUlp a = .ok () ∧ documented W .fUlp [.flt a] = some .exponentOverflow) :=
  ⟨guardFUlp_iff_exactly W a hc hm, guardFUlp_not_silent W a hc hm⟩

/-- closed form: `fbig_ulp_guard_partial` with the bound 2^62 raised to 2^63 − 2^61 = 3·2^61 -/
theorem fbig_ulp_guard_prec_bound_partial (W : Nat) (a : FArg) (k : Kind) (hc : a.canonical) (hm : a.moderate)
    (hp : a.prec ≤ 3 * 2 ^ 61) :
    guardFUlp a = .error k ↔ documented W .fUlp [.flt a] = some k :=
  guardFUlp_iff_sharp W a k hc hm (ulpClauseSilent_of_prec_le a hm hp)

-- non-vacuity: precisions far above the old bound 2^62 meet the hypotheses (isize::MAX with a finite operand; usize::MAX with an
-- infinity; 3·2^61 at the most negative moderate exponent); 2^63 + 2 is the last silent precision for 3·2^0, 2^63 + 3 is not
example : (⟨2, 3, 0, 2 ^ 63 - 1, 'Z'⟩ : FArg).canonical = true ∧ (⟨2, 3, 0, 2 ^ 63 - 1, 'Z'⟩ : FArg).moderate = true ∧
    ulpClauseSilent ⟨2, 3, 0, 2 ^ 63 - 1, 'Z'⟩ := by decide +kernel
example : (⟨2, 3, 0, 2 ^ 63 + 3, 'Z'⟩ : FArg).canonical = true ∧ (⟨2, 3, 0, 2 ^ 63 + 3, 'Z'⟩ : FArg).moderate = true ∧
    ulpClauseSilent ⟨2, 3, 0, 2 ^ 63 + 2, 'Z'⟩ ∧ ¬ ulpClauseSilent ⟨2, 3, 0, 2 ^ 63 + 3, 'Z'⟩ := by decide +kernel
example : (⟨10, 0, 1, 2 ^ 64 - 1, 'H'⟩ : FArg).canonical = true ∧ (⟨10, 0, 1, 2 ^ 64 - 1, 'H'⟩ : FArg).moderate = true ∧
    ulpClauseSilent ⟨10, 0, 1, 2 ^ 64 - 1, 'H'⟩ := by decide +kernel
example : (⟨2, 1, -(2 ^ 61), 3 * 2 ^ 61, 'Z'⟩ : FArg).canonical = true ∧
    (⟨2, 1, -(2 ^ 61), 3 * 2 ^ 61, 'Z'⟩ : FArg).moderate = true := by decide +kernel

-- guards that exist since the fix: commits c27ca7f, 65edb1e, 0ffa05d, d9f681e, b0e87a3 (full statements for the patched code)

theorem ubig_is_multiple_of_const_guard (W a d : Nat) (k : Kind) (hd : d < 2 ^ (2 * W)) :
    guardIsMultipleOfConst d = .error k ↔ documented W .uIsMultipleOfConst [.int a, .int d] = some k :=
  guardUIsMultipleOfConst_iff W a d k hd

theorem ibig_is_multiple_of_const_guard (W : Nat) (a : Int) (d : Nat) (k : Kind) (hd : d < 2 ^ (2 * W)) :
    guardIsMultipleOfConst d = .error k ↔ documented W .iIsMultipleOfConst [.int a, .int d] = some k :=
  guardIIsMultipleOfConst_iff W a d k hd

theorem fbig_split_at_point_guard (W : Nat) (a : FArg) (k : Kind) (hc : a.canonical) (hm : a.moderate) :
    guardFSplitAtPoint a = .error k ↔ documented W .fSplitAtPoint [.flt a] = some k :=
  guardFSplitAtPoint_iff W a k hc hm

theorem fbig_euclid_guard (W : Nat) (a b : FArg) (k : Kind) (op : Op) (hop : op ∈ [Op.fDivEuclid, .fRemEuclid])
    (hc : (a.canonical ∧ b.canonical ∧ sameKind a b)) (hm : (a.moderate ∧ b.moderate)) :
    guardFEuclid W a b = .error k ↔ documented W op [.flt a, .flt b] = some k :=
  guardFEuclid_iff W a b k op hop hc hm

theorem fbig_powf_guard (W : Nat) (a b : FArg) (k : Kind)
    (hc : (a.canonical ∧ b.canonical ∧ sameKind a b)) (hm : (a.moderate ∧ b.moderate)) :
    guardFPowf a b = .error k ↔ documented W .fPowf [.flt a, .flt b] = some k := guardFPowf_iff W a b k hc hm

/-- `ln`: finite, limited precision, and (since b0e87a3) `x > 0` — exactly the documented conditions -/
theorem fbig_ln_guard (W : Nat) (a : FArg) (k : Kind) (hc : a.canonical) (hm : a.moderate) :
    guardFLn a = .error k ↔ documented W .fLn [.flt a] = some k := guardFLn_iff W a k hc hm

/-- `ln_1p`: finite, limited precision, and (since b0e87a3) `x > -1` -/
theorem fbig_ln_1p_guard (W : Nat) (a : FArg) (k : Kind) (hc : a.canonical) (hm : a.moderate) :
    guardFLn1p a = .error k ↔ documented W .fLn1p [.flt a] = some k := guardFLn1p_iff W a k hc hm

example : guardFLn ⟨2, -3, 0, 14, 'Z'⟩ = .error .logInvalid := by decide
example : guardFLn1p ⟨10, -1, 0, 5, 'H'⟩ = .error .logInvalid := by decide
example : guardFLn1p ⟨10, -5, -1, 5, 'H'⟩ = .ok () := by decide
example : guardFEuclid 64 ⟨2, 0, 1, 0, 'Z'⟩ ⟨2, 3, 0, 0, 'Z'⟩ = .error .infinite := by decide

-- ---- round 2: further families (Dashu.Model.Panic.GuardsMore).  `_partial`: the code checks less than the
--      documentation promises (recorded findings); the hypothesis excludes exactly that region and the
--      `_counterexample` shows it is needed.

theorem fbig_finite_only_guard (W : Nat) (a : FArg) (k : Kind) (op : Op)
    (hop : op ∈ [Op.fToInt, .fTrunc, .fFract, .fCeil, .fFloor, .fRound]) (hc : a.canonical) (hm : a.moderate) :
    guardFFiniteOnly a = .error k ↔ documented W op [.flt a] = some k := guardFFiniteOnly_iff W a k op hop hc hm

/- FULL: theorem fbig_mul_guard : guardFMul a b = .error k ↔ documented W .fMul [.flt a, .flt b] = some k
   is FALSE (`fbig_mul_guard_counterexample`): `lhs.exponent + rhs.exponent` is unchecked (finding float_exponent_unchecked). -/
theorem fbig_mul_guard_partial (W : Nat) (a b : FArg) (k : Kind) (hc : (a.canonical ∧ b.canonical ∧ sameKind a b))
    (hexp : expApprox (a.exp + b.exp) = .returns) :
    guardFMul a b = .error k ↔ documented W .fMul [.flt a, .flt b] = some k := guardFMul_iff_partial W a b k hc hexp

theorem fbig_mul_guard_counterexample :
    guardFMul ⟨2, 1, 2 ^ 62 + 2 ^ 42, 0, 'Z'⟩ ⟨2, 1, 2 ^ 62 + 2 ^ 42, 0, 'Z'⟩ = .ok () ∧
    documented 64 .fMul [.flt ⟨2, 1, 2 ^ 62 + 2 ^ 42, 0, 'Z'⟩, .flt ⟨2, 1, 2 ^ 62 + 2 ^ 42, 0, 'Z'⟩]
      = some .exponentOverflow := guardFMul_counterexample

theorem fbig_sqr_guard_partial (W : Nat) (a : FArg) (k : Kind) (hc : a.canonical)
    (hexp : expApprox (2 * a.exp) = .returns) :
    guardFSqrCubic a = .error k ↔ documented W .fSqr [.flt a] = some k := guardFSqr_iff_partial W a k hc hexp

theorem fbig_cubic_guard_partial (W : Nat) (a : FArg) (k : Kind) (hc : a.canonical)
    (hexp : expApprox (3 * a.exp) = .returns) :
    guardFSqrCubic a = .error k ↔ documented W .fCubic [.flt a] = some k := guardFCubic_iff_partial W a k hc hexp

theorem fbig_rem_guard (W : Nat) (a b : FArg) (k : Kind)
    (hc : (a.canonical ∧ b.canonical ∧ sameKind a b)) (hm : (a.moderate ∧ b.moderate)) :
    guardFRem W a b = .error k ↔ documented W .fRem [.flt a, .flt b] = some k := guardFRem_iff W a b k hc hm

theorem fbig_inv_guard (W : Nat) (a : FArg) (k : Kind) (hc : a.canonical) (hm : a.moderate) :
    guardFInv W a = .error k ↔ documented W .fInv [.flt a] = some k := guardFInv_iff W a k hc hm

/-- `exp` / `exp_m1` for `|x| ≤ 2^61` (beyond, the overflow test `s.try_into()` decides; not mirrored) -/
theorem fbig_exp_guard_partial (W : Nat) (a : FArg) (k : Kind) (hc : a.canonical) (hm : a.moderate)
    (h66 : a.magAtLeastPow2 66 = false) (h61 : a.magAtMostPow2 61 = true) :
    (guardFExp a = .error k ↔ documented W .fExp [.flt a] = some k) ∧
    (guardFExp a = .error k ↔ documented W .fExpM1 [.flt a] = some k) :=
  ⟨guardFExp_iff_partial W a k hc hm h66 h61, guardFExpM1_iff_partial W a k hc hm h66 h61⟩

theorem fbig_powi_guard_partial (W : Nat) (a : FArg) (e : Int) (k : Kind) (hc : a.canonical) (hm : a.moderate)
    (hexp : a.signif.natAbs = 1 → expApprox (a.exp * e) = .returns) :
    guardFPowi a e = .error k ↔ documented W .fPowi [.flt a, .int e] = some k :=
  guardFPowi_iff_partial W a e k hc hm hexp

/- FULL (false, `fbig_shl_guard_counterexample`): `exponent + rhs` is unchecked. -/
theorem fbig_shl_guard_partial (W : Nat) (a : FArg) (n : Int) (k : Kind) (hc : a.canonical)
    (hn : isizeMin ≤ n ∧ n ≤ isizeMax) (hexp : expExact (a.exp + n) = .returns) :
    guardFShift a = .error k ↔ documented W .fShl [.flt a, .dec n] = some k := guardFShl_iff_partial W a n k hc hn hexp

theorem fbig_shr_guard_partial (W : Nat) (a : FArg) (n : Int) (k : Kind) (hc : a.canonical)
    (hn : isizeMin ≤ n ∧ n ≤ isizeMax) (hexp : expExact (a.exp - n) = .returns) :
    guardFShift a = .error k ↔ documented W .fShr [.flt a, .dec n] = some k := guardFShr_iff_partial W a n k hc hn hexp

theorem fbig_shl_guard_counterexample :
    guardFShift ⟨2, 1, 30, 0, 'Z'⟩ = .ok () ∧
    documented 64 .fShl [.flt ⟨2, 1, 30, 0, 'Z'⟩, .dec (2 ^ 63 - 1)] = some .exponentOverflow := guardFShl_counterexample

theorem fbig_to_binary_guard (W : Nat) (a : FArg) (k : Kind) (hc : a.canonical) (he : a.exp.natAbs ≤ 2 ^ 20) :
    guardFConvertBase a 2 = .error k ↔ documented W .fToBinary [.flt a] = some k := guardFToBinary_iff W a k hc he

/- FULL (false, `fbig_to_decimal_guard_counterexample`): the target precision of a binary float with precision 1..3
   is 0 (finding to_decimal_small_precision). -/
theorem fbig_to_decimal_guard_partial (W : Nat) (a : FArg) (k : Kind) (hc : a.canonical) (he : a.exp.natAbs ≤ 2 ^ 20)
    (hp : a.base = 2 → (a.prec = 0 ∨ 4 ≤ a.prec)) :
    guardFConvertBase a 10 = .error k ↔ documented W .fToDecimal [.flt a] = some k :=
  guardFToDecimal_iff_partial W a k hc he hp

theorem fbig_to_decimal_guard_counterexample :
    guardFConvertBase ⟨2, 1, 0, 1, 'Z'⟩ 10 = .error .unlimitedPrecision ∧
    documented 64 .fToDecimal [.flt ⟨2, 1, 0, 1, 'Z'⟩] = none := guardFToDecimal_counterexample

theorem fbig_from_repr_guard (W : Nat) (dbg : Int) (a : FArg) (k : Kind) (hd : dbg = 0 ∨ dbg = 1)
    (hb : (a.base = 2 ∧ a.mode = 'Z') ∨ (a.base = 10 ∧ a.mode = 'H')) (hm : a.moderate) :
    guardFFromRepr (dbg = 1) a = .error k ↔ documented W .fFromRepr [.dec dbg, .flt a] = some k :=
  guardFFromRepr_iff W dbg a k hd hb hm

theorem rbig_from_parts_signed_guard (W : Nat) (n d : Int) (c : Char) (k : Kind) :
    guardQFromPartsSigned d = .error k ↔ documented W .qFromPartsSigned [.int n, .int d, .kind c] = some k :=
  guardQFromPartsSigned_iff W n d c k

theorem rbig_inv_guard (W : Nat) (n : Int) (d : Nat) (c : Char) (k : Kind) (hd : 0 < d) :
    guardQInv n = .error k ↔ documented W .qInv [.int n, .int d, .kind c] = some k := guardQInv_iff W n d c k hd

theorem rbig_div_family_guard (W : Nat) (n n2 : Int) (d d2 : Nat) (c : Char) (k : Kind) (hd : 0 < d) (hd2 : 0 < d2)
    (op : Op) (hop : op ∈ [Op.qDiv, .qRem, .qDivEuclid]) :
    guardQDiv n2 = .error k ↔ documented W op [.int n, .int d, .kind c, .int n2, .int d2] = some k :=
  guardQDiv_iff W n n2 d d2 c k hd hd2 op hop

theorem rbig_div_int_guard (W : Nat) (n i : Int) (d : Nat) (c : Char) (k : Kind) (hd : 0 < d) :
    guardQDivInt i = .error k ↔ documented W .qDivInt [.int n, .int d, .kind c, .int i] = some k :=
  guardQDivInt_iff W n i d c k hd

theorem const_divisor_from_word_guard (W x : Nat) (k : Kind) (hx : x < 2 ^ W) :
    guardCdFromPrim x = .error k ↔ documented W .cdFromWord [.int x] = some k := guardCdFromWord_iff W x k hx

theorem const_divisor_from_dword_guard (W x : Nat) (k : Kind) (hx : x < 2 ^ (2 * W)) :
    guardCdFromPrim x = .error k ↔ documented W .cdFromDword [.int x] = some k := guardCdFromDword_iff W x k hx

theorem const_divisor_use_guard (W m : Nat) (x e : Int) (k : Kind) (he : 0 ≤ e) :
    (guardCdNew W m = .error k ↔ documented W .cdDivRem [.int x, .int m] = some k) ∧
    (guardCdNew W m = .error k ↔ documented W .mInv [.int m, .int x] = some k) ∧
    (guardCdNew W m = .error k ↔ documented W .mPow [.int m, .int x, .int e] = some k) := guardCdUse_iff W m x e k he

/-- two `ConstDivisor` instances: DivideByZero from a constructor, else DifferentRings — never a value -/
theorem reduced_different_rings_guard (W : Nat) (f : String) (m1 m2 : Nat) (x y : Int) (k : Kind)
    (hf : f ∈ ["add", "sub", "mul", "div", "eq"]) :
    guardMDiff W m1 m2 = .error k ↔ documented W .mDiff [.fn f, .int m1, .int x, .int m2, .int y] = some k :=
  guardMDiff_iff W f m1 m2 x y k hf

theorem to_chunks_guard (W x kb : Nat) (k : Kind) :
    guardChunkBits kb = .error k ↔ documented W .uToChunks [.int x, .dec kb] = some k := guardToChunks_iff W x kb k

theorem ubig_in_radix_guard (W x r : Nat) (k : Kind) :
    guardInRadix r = .error k ↔ documented W .uInRadix [.int x, .dec r] = some k := guardUInRadix_iff W x r k

-- allocation requests (64-bit words): AllocTooMuch fires iff the documentation says so
theorem ones_alloc_guard (n : Nat) (hband : ¬ (n % 64 = 0 ∧ n / 64 = maxCapacity 64)) :
    guardRequest 64 (onesRequest 64 n) = .error .allocTooMuch ↔ documented 64 .uOnes [.dec n] = some .allocTooMuch :=
  Dashu.Proofs.Panic.ones_alloc_guard n hband

theorem set_bit_alloc_guard (x n : Nat) (hx : (bitLen x + 63) / 64 ≤ maxCapacity 64) :
    guardRequest 64 (setBitRequest 64 x n) = .error .allocTooMuch ↔
      documented 64 .uSetBit [.int x, .dec n] = some .allocTooMuch := Dashu.Proofs.Panic.set_bit_alloc_guard x n hx

theorem shl_alloc_guard_partial (x n : Nat) (hx0 : x ≠ 0)
    (hband : (bitLen x + n + 63) / 64 + 2 ≤ maxCapacity 64 ∨ (bitLen x + n + 63) / 64 > maxCapacity 64) :
    guardRequest 64 (shlRequest 64 x n) = .error .allocTooMuch ↔
      documented 64 .uShl [.int x, .dec n] = some .allocTooMuch := Dashu.Proofs.Panic.shl_alloc_guard x n hx0 hband

theorem shl_alloc_band_counterexample :
    guardRequest 64 (shlRequest 64 3 (2 ^ 64 - 100)) = .error .allocTooMuch ∧
    documented 64 .uShl [.int 3, .dec (2 ^ 64 - 100)] = some .outOfMemory :=
  Dashu.Proofs.Panic.shl_alloc_band_counterexample

example : guardMDiff 64 7 7 = .error .differentRings := by decide
example : guardRequest 64 (shlRequest 64 1 (2 ^ 64 - 1)) = .error .allocTooMuch := by decide
example : expApprox ((5 : Int) + 7) = .returns := by decide

-- ---- round 3: the operations for which the documentation names NO panic (58 ops; the mirrored guard is `.ok ()`),
--      and the last guards that are pure predicates of the inputs

theorem parse_radix_never_panics (W : Nat) (s : List UInt8) (r : Int) (op : Op)
    (hop : op ∈ [Op.uFromStrRadix, .iFromStrRadix, .uFromStrDefault, .iFromStrDefault]) :
    documented W op [.str s, .dec r] = none := no_panic_parse_radix W s r op hop

theorem parse_never_panics (W : Nat) (s : List UInt8) (op : Op)
    (hop : op ∈ [Op.uFromStrPrefix, .iFromStrPrefix, .uFromStr, .iFromStr]) :
    documented W op [.str s] = none := no_panic_parse W s op hop

theorem unary_int_never_panics (W : Nat) (x : Int) (op : Op)
    (hop : op ∈ [Op.uFmt, .iFmt, .uSqrt, .uCbrt, .iCbrt, .uBitInfo, .iBitInfo, .uToPrims, .iToPrims, .uBytes,
                 .iBytes, .uTryFromI]) :
    documented W op [.int x] = none := no_panic_unary_int W x op hop

theorem int_index_never_panics (W : Nat) (x n : Int) (op : Op)
    (hop : op ∈ [Op.uShr, .iShr, .uClearBit, .uBit, .iBit, .uSplitBits, .uClearHighBits]) :
    documented W op [.int x, .dec n] = none := no_panic_int_index W x n op hop

theorem remove_never_panics (W : Nat) (x f : Int) : documented W .uRemove [.int x, .int f] = none :=
  no_panic_remove W x f

theorem from_ieee_never_panics (W : Nat) (b : Int) (op : Op)
    (hop : op ∈ [Op.uTryFromF64, .iTryFromF64, .uTryFromF32, .iTryFromF32, .qFromF64]) :
    documented W op [.dec b] = none := no_panic_from_ieee W b op hop

theorem float_cmp_never_panics (W : Nat) (a b : FArg) : documented W .fCmp [.flt a, .flt b] = none :=
  no_panic_float_cmp W a b

theorem float_conv_never_panics (W : Nat) (a : FArg) (op : Op)
    (hop : op ∈ [Op.fToF32, .fToF64, .fNegAbs, .fToIntTry, .fToRatio, .fFmt]) :
    documented W op [.flt a] = none := no_panic_float_conv W a op hop

theorem with_precision_never_panics (W : Nat) (a : FArg) (p : Int) :
    documented W .fWithPrecision [.flt a, .dec p] = none := no_panic_with_precision W a p

theorem float_ctor_never_panics (W : Nat) (s : List UInt8) (i p b : Int) (z : FArg) :
    documented W .fParse [.str s, .flt z] = none ∧
    documented W .fFromInt [.int i, .dec p, .flt z] = none ∧
    documented W .fFromF64 [.dec b, .flt z] = none := no_panic_float_ctor W s i p b z

theorem ratio_parse_never_panics (W : Nat) (s : List UInt8) (r : Int) (c : Char) :
    documented W .qParse [.str s, .kind c] = none ∧
    documented W .qFromStrPrefix [.str s, .kind c] = none ∧
    documented W .qFromStrRadix [.str s, .dec r, .kind c] = none := no_panic_ratio_parse W s r c

theorem ratio_unary_never_panics (W : Nat) (n d : Int) (c : Char) (op : Op)
    (hop : op ∈ [Op.qSqrCubic, .qRounding, .qToFloats, .qSign, .qFmt, .qToIntTry]) :
    documented W op [.int n, .int d, .kind c] = none := no_panic_ratio_unary W n d c op hop

theorem ratio_binary_never_panics (W : Nat) (n d n2 d2 : Int) (c : Char) (op : Op)
    (hop : op ∈ [Op.qAdd, .qSub, .qMul, .qCmp, .qSimplestIn]) :
    documented W op [.int n, .int d, .kind c, .int n2, .int d2] = none := no_panic_ratio_binary W n d n2 d2 c op hop

theorem fbig_info_guard (W : Nat) (a : FArg) (k : Kind) (hc : a.canonical) (hm : a.moderate) :
    guardFInfo a = .error k ↔ documented W .fInfo [.flt a] = some k := guardFInfo_iff W a k hc hm

/-- `Reduced` operators in one ring (modulus ≠ 1; `inv()` at its specification: `Some` iff coprime) -/
theorem reduced_same_ring_guard (W : Nat) (f : String) (m : Nat) (x b : Int) (k : Kind)
    (hf : f ∈ ["add", "sub", "mul", "div", "eq"]) (hm : m ≠ 1) :
    guardMSame W f m b = .error k ↔ documented W .mSame [.fn f, .int m, .int x, .int b] = some k :=
  guardMSame_iff W f m x b k hf hm

theorem from_chunks_zero_guard (W : Nat) (cs : List Arg) (l : List Int) (hl : allInts cs = some l)
    (hpos : ¬ l.any (· < 0)) (k : Kind) :
    guardFromChunks 0 = .error k ↔ documented W .uFromChunks (.dec 0 :: cs) = some k :=
  guardFromChunks_zero W cs l hl hpos k

theorem ishl_alloc_guard_partial (x : Int) (n : Nat) (hx0 : x ≠ 0)
    (hband : (bitLen x.natAbs + n + 63) / 64 + 2 ≤ maxCapacity 64 ∨ (bitLen x.natAbs + n + 63) / 64 > maxCapacity 64) :
    guardRequest 64 (shlRequest 64 x.natAbs n) = .error .allocTooMuch ↔
      documented 64 .iShl [.int x, .dec n] = some .allocTooMuch := ishl_alloc_guard x n hx0 hband

/- FULL (false, `fbig_from_parts_guard_counterexample`): `Repr::new` adds the trailing-zero count to the exponent unchecked. -/
theorem fbig_from_parts_guard_partial (W : Nat) (s e : Int) (z : FArg) (k : Kind) (hz : z.canonical)
    (he : isizeMin ≤ e ∧ e ≤ isizeMax)
    (hexp : s ≠ 0 → expExact (e + (FArg.trailingZeros z.base s.natAbs : Int)) = .returns) :
    guardFFromParts = .error k ↔ documented W .fFromParts [.int s, .dec e, .flt z] = some k :=
  guardFFromParts_iff_partial W s e z k hz he hexp

theorem fbig_from_parts_guard_counterexample :
    guardFFromParts = .ok () ∧
    documented 64 .fFromParts [.int 2, .dec (2 ^ 63 - 1), .flt ⟨2, 0, 0, 1, 'Z'⟩] = some .exponentOverflow :=
  guardFFromParts_counterexample

-- non-vacuity (task C): every hypothesis of the guard theorems instantiated on a concrete non-trivial value
example : guardMSame 64 "div" 12 3 = .error .nonInvertible ∧ (12 : Nat) ≠ 1 := by decide
example : guardMSame 64 "div" ((2 ^ 64 + 13 : Nat)) 6 = .ok () := by decide
example : allInts [.int 1, .int 0, .int 255] = some [1, 0, 255] ∧ ¬ ([1, 0, 255] : List Int).any (· < 0) := by decide
example : guardFInfo ⟨10, 0, -1, 5, 'H'⟩ = .error .infinite ∧ (⟨10, 0, -1, 5, 'H'⟩ : FArg).canonical = true := by decide
example : expExact ((5 : Int) + (FArg.trailingZeros 10 3000 : Int)) = .returns := by decide
example : (bitLen (3 : Int).natAbs + 1000 + 63) / 64 + 2 ≤ maxCapacity 64 := by decide
example : expApprox (2 * (30 : Int)) = .returns ∧ expApprox (3 * (-400 : Int)) = .returns := by decide
example : (⟨2, 1, 40, 10, 'Z'⟩ : FArg).magAtLeastPow2 66 = false ∧ (⟨2, 1, 40, 10, 'Z'⟩ : FArg).magAtMostPow2 61 = true := by
  decide
example : (⟨2, 12345, -2, 14, 'Z'⟩ : FArg).signif.natAbs = 1 → expApprox ((-2 : Int) * 100) = .returns := by decide
example : isizeMin ≤ (1000 : Int) ∧ (1000 : Int) ≤ isizeMax ∧ expExact ((30 : Int) + 1000) = .returns := by decide
example : (⟨2, 1, 0, 4, 'Z'⟩ : FArg).base = 2 → ((⟨2, 1, 0, 4, 'Z'⟩ : FArg).prec = 0 ∨ 4 ≤ (⟨2, 1, 0, 4, 'Z'⟩ : FArg).prec) := by
  decide
example : (5 : Nat) < 2 ^ (2 * 64) ∧ (0 : Nat) < 2 ^ 64 := by decide
example : ¬ ((1000 : Nat) % 64 = 0 ∧ 1000 / 64 = maxCapacity 64) := by decide
example : (bitLen (2 ^ 200) + 63) / 64 ≤ maxCapacity 64 := by decide

-- non-vacuity of the float hypotheses: −∞ / 12345·2^-2 at precision 0 is a canonical, moderate pair and the
-- guard fails with Infinite; 3/0 at precision 5 fails with DivideByZero
example : guardFDiv 64 ⟨2, 0, -1, 0, 'Z'⟩ ⟨2, 12345, -2, 0, 'Z'⟩ = .error .infinite := by decide
example : guardFDiv 64 ⟨2, 3, 0, 5, 'Z'⟩ ⟨2, 0, 0, 5, 'Z'⟩ = .error .divideByZero := by decide
example : (⟨2, 12345, -2, 0, 'Z'⟩ : FArg).canonical = true ∧ (⟨2, 12345, -2, 0, 'Z'⟩ : FArg).moderate = true := by
  decide
example : guardUSub 64 (2 ^ 130) (2 ^ 130 + 1) = .error .negativeUBig := by decide
example : guardIlog 64 0 (2 ^ 64) = .error .logInvalid := by decide

-- ------------------------------------------------------------------ (3) termination

/-- `RBig::farey_neighbors(x, limit)`, `limit ≥ 1`: at most `limit` iterations -/
theorem farey_terminates (x : Fr) (limit : Nat) (hl : 1 ≤ limit) :
    ∃ fuel, fuel ≤ limit ∧ fareyNeighbors x limit fuel ≠ none := fareyNeighbors_terminates x limit hl

/-- … and not fewer on `1/(limit+1)`: the walk is LINEAR in `limit` (the finding: `next_up(2^64)` does not return
    in any reasonable time) -/
theorem farey_needs_limit_steps (L fuel : Nat) (h : fuel < L) :
    fareyNeighbors ⟨1, L + 1⟩ L fuel = none := Dashu.Proofs.Panic.farey_needs_limit_steps L fuel h

example : fareyNeighbors ⟨1, 11⟩ 10 10 = some (⟨0, 1⟩, ⟨1, 10⟩) := by decide
example : fareyNeighbors ⟨1, 11⟩ 10 9 = none := by decide

/-- `ln` of a positive number: after scaling `1 ≤ x ≤ 2` the series loop stops; `N + 1` iterations suffice when
    `z ≤ 9^(N+1)·eps` — logarithmic in `1/eps` -/
theorem ln_positive_terminates (x eps : Rat) (h1 : 1 ≤ x) (h2 : x ≤ 2) (he : 0 < eps) (N : Nat)
    (hN : (x - 1) / (x + 1) ≤ 9 ^ (N + 1) * eps) : lnSeries x eps (N + 1) ≠ none :=
  lnSeries_terminates x eps h1 h2 he N hN

/-- AS-IS COUNTEREXAMPLE for the code before fix b0e87a3 (kept: it shows the guard `fbig_ln_guard` is NECESSARY):
    the series loop entered with a negative number (scaled into `[-2, -1)` by the same scaling code) never satisfies
    its stopping test.  Since b0e87a3 `ln_internal` panics before the loop for `x ≤ 0` (`fbig_ln_guard`), so the loop
    is only entered under the hypothesis of `ln_positive_terminates`. -/
theorem ln_negative_never_terminates (x eps : Rat) (h1 : -2 ≤ x) (h2 : x < -1) (he : eps < 1) :
    ∀ fuel, lnSeries x eps fuel = none := lnSeries_diverges x eps h1 h2 he

-- ---- round 3: further loops (Dashu.Model.Panic.Loops2), each under the condition the code establishes

/-- `exp_internal`: the argument is reduced to `|r| ≤ 1/2` before the Maclaurin loop, which then stops after
    logarithmically many iterations in `1/eps` -/
theorem exp_series_terminates (r eps : Rat) (hr : |r| ≤ 1 / 2) (he : 0 < eps) (N : Nat)
    (hN : |r| ≤ 2 ^ (N + 1) * eps) : expSeries r eps (N + 1) ≠ none := expSeries_terminates r eps hr he N hN

/-- `iacoth(n)`, `n ≥ 2` (called with 6, 99, 26, 4801, 8749 for ln 2 and ln 10) -/
theorem iacoth_series_terminates (n : Nat) (hn : 2 ≤ n) (eps : Rat) (he : 0 < eps) (N : Nat)
    (hN : 1 / (n : Rat) < 4 ^ (N + 1) * eps) : iacothSeries n eps (N + 1) ≠ none :=
  iacothSeries_terminates n hn eps he N hN

/-- the estimate-fixing loops of integer `log` return from every positive estimate (base ≥ 2) -/
theorem ilog_fix_returns (target base : Nat) (ovf : Option Nat) (hb : 2 ≤ base) (est estPow : Nat) (hp : 0 < estPow) :
    ∃ fuel, logFixLoop target base ovf fuel est estPow ≠ none := logFix_returns target base ovf hb est estPow hp

/-- `UBig::remove`, first stage: at most `bit_len(self)` divisions -/
theorem remove_returns (q factor : Nat) (hq : 0 < q) (hf : 2 ≤ factor) :
    ∃ fuel, fuel ≤ Nat.log2 q + 1 ∧ removeUpLoop fuel q 1 [factor * factor] ≠ none := removeUp_returns q factor hq hf

/-- the bit loop of integer `pow` and float `powi`: exactly `bit_len(exp) - 1` rounds -/
theorem pow_bit_loop_terminates (exp p : Nat) (acc : Nat × Nat) : powBitLoop exp (p + 1) p acc ≠ none :=
  powBitLoop_terminates exp p acc

example : expSeries (1 / 3) (1 / 1000) 9 ≠ none := exp_series_terminates (1 / 3) (1 / 1000) (by norm_num [abs_of_pos]) (by norm_num) 8 (by norm_num [abs_of_pos])
example : iacothSeries 6 (1 / 1000) 4 ≠ none := iacoth_series_terminates 6 (by decide) (1 / 1000) (by norm_num) 3 (by norm_num)
example : logFixLoop 1000 3 none 8 2 9 = some (6, 729) := by decide
example : removeUpLoop 5 (3 ^ 7 * 5) 1 [9] = some (15, 7, [6561, 81, 9]) := by decide
example : powBitLoop 13 3 2 (0, 0) = some (2, 2) := by decide

-- ------------------------------------------------------------------ (4) the float parser's slicing

/-- cutting a well-formed UTF-8 string right before / right after an ASCII byte is always at a char boundary -/
theorem ascii_cuts_safe (bs : List UInt8) (h : Utf8 bs) (p : Nat) (b : UInt8)
    (hb : bs[p]? = some b) (hlt : b.toNat < 128) : isCharBoundary bs p ∧ isCharBoundary bs (p + 1) :=
  ascii_cuts_are_boundaries bs h p b hb hlt

/-- all offsets `from_str_native` slices at (around the last scale marker, around the first `.`, after `0x`) -/
theorem float_parser_cuts_safe (bs : List UInt8) (h : Utf8 bs) : ∀ i ∈ parserCuts bs, isCharBoundary bs i :=
  parserCuts_are_boundaries bs h

-- "1é.5e3": the cuts are 3,4 (around '.') and 5,6 (around 'e'); offset 2 (inside é = C3 A9) is not among them
example : parserCuts [49, 0xC3, 0xA9, 46, 53, 101, 51] = [3, 4, 5, 6] := by decide

-- ------------------------------------------------------------------ (5) round 5: size reservations, bare assert, folds
-- The reservations of pow / from_chunks are UPPER BOUNDS of the result size.  What holds for all arguments is
--   (S1) documented AllocTooMuch → the reservation is refused with AllocTooMuch   (prompt panic of the right kind)
--   (S2) reservation refused     → the documentation does not say `returns`      (no result that fits is refused)
-- and the driver checks exactly these two implications per case (`sizeConsistent`).
/- FULL STATEMENT (false for the current code, see the counterexamples below):
     guardPow W x e = some (.error .allocTooMuch) ↔ documented W .uPow [.int x, .dec e] = some .allocTooMuch
   for every x: it fails in the band between the reservation and the result size for 1- and 2-word bases (the kinds
   differ: AllocTooMuch instead of OutOfMemory) and a base of ≥ 3 words has no reservation at all. -/

/-- `math::max_exp_in_word(base) = (k, base^k)`, `base^k ≤ Word::MAX`, `k ≥ 1` — for every word size -/
theorem max_exp_in_word_spec (W base : Nat) (hb : 2 ≤ base) (hW : base < 2 ^ W) :
    (maxExpInWord W base).2 = base ^ (maxExpInWord W base).1 ∧ (maxExpInWord W base).2 < 2 ^ W ∧
    1 ≤ (maxExpInWord W base).1 := maxExpInWord_spec W base hb hW

theorem pow_word_reservation_sound_partial (b e : Nat) (hb3 : 3 ≤ b) (hbW : b < 2 ^ 64) (hodd : b % 2 = 1) (he : 2 < e)
    (hdoc : documented 64 .uPow [.int b, .dec e] = some .allocTooMuch) :
    guardPowOdd 64 b e = .error .allocTooMuch := Dashu.Proofs.Panic.pow_word_reservation_sound b e hb3 hbW hodd he hdoc

theorem pow_word_refused_not_returns (b e : Nat) (hb3 : 3 ≤ b) (hbW : b < 2 ^ 64) (hodd : b % 2 = 1) (he : 2 < e)
    (hg : guardPowOdd 64 b e = .error .allocTooMuch) : verdict 64 .uPow [.int b, .dec e] ≠ some .returns :=
  Dashu.Proofs.Panic.pow_word_refused_not_returns b e hb3 hbW hodd he hg

theorem pow_dword_reservation_sound_partial (b e : Nat) (hlo : 2 ^ 64 ≤ b) (hhi : b < 2 ^ 128) (hodd : b % 2 = 1)
    (he : 2 < e) (hdoc : documented 64 .uPow [.int b, .dec e] = some .allocTooMuch) :
    guardPowOdd 64 b e = .error .allocTooMuch := Dashu.Proofs.Panic.pow_dword_reservation_sound b e hlo hhi hodd he hdoc

theorem pow_dword_refused_not_returns (b e : Nat) (hlo : 2 ^ 64 ≤ b) (hhi : b < 2 ^ 128) (hodd : b % 2 = 1)
    (he : 2 < e) (hg : guardPowOdd 64 b e = .error .allocTooMuch) :
    verdict 64 .uPow [.int b, .dec e] ≠ some .returns :=
  Dashu.Proofs.Panic.pow_dword_refused_not_returns b e hlo hhi hodd he hg

theorem pow_dword_band_counterexample :
    guardPowOdd 64 (2 ^ 64 + 1) (2 ^ 57) = .error .allocTooMuch ∧
    documented 64 .uPow [.int (2 ^ 64 + 1), .dec (2 ^ 57)] = some .outOfMemory :=
  Dashu.Proofs.Panic.pow_dword_band_counterexample

theorem pow_large_no_reservation_counterexample :
    guardPowOdd 64 (2 ^ 200 + 1) (2 ^ 57) = .ok () ∧ guardPow 64 (2 ^ 200 + 1) (2 ^ 57) = none ∧
    documented 64 .uPow [.int (2 ^ 200 + 1), .dec (2 ^ 57)] = some .allocTooMuch :=
  Dashu.Proofs.Panic.pow_large_no_reservation

/-- a power of two: full equivalence (the `1 << n` request is exact) -/
theorem pow_two_reservation_guard (x e : Nat) (hx : 1 < x) (hodd : x >>> tz2 x = 1) (he : 2 ≤ e) :
    guardPowTwoShift 64 (tz2 x) e = .error .allocTooMuch ↔
      documented 64 .uPow [.int x, .dec e] = some .allocTooMuch :=
  Dashu.Proofs.Panic.pow_two_reservation x e hx hodd he

theorem from_chunks_reservation_sound_partial (k : Nat) (l : List Nat) (hk : k ≠ 0) (hl : l ≠ [])
    (hfit : ¬ (fromChunksLen 64 k l > usizeMax))
    (hdoc : documented 64 .uFromChunks (.dec k :: l.map (fun (c : Nat) => Arg.int (c : Int))) = some .allocTooMuch) :
    guardFromChunksSize 64 k l = some (.error .allocTooMuch) :=
  Dashu.Proofs.Panic.from_chunks_reservation_sound k l hk hl hfit hdoc

theorem from_chunks_refused_not_returns (k : Nat) (l : List Nat) (hk : k ≠ 0) (hl : l ≠ [])
    (hsmall : (l.map (wordLen 64)).foldl max 0 ≤ 2 ^ 32)
    (hg : guardFromChunksSize 64 k l = some (.error .allocTooMuch)) :
    verdict 64 .uFromChunks (.dec k :: l.map (fun (c : Nat) => Arg.int (c : Int))) ≠ some .returns :=
  Dashu.Proofs.Panic.from_chunks_refused_not_returns k l hk hl hsmall hg

theorem from_chunks_overallocation_counterexample :
    guardFromChunksSize 64 (2 ^ 58) [0, 1] = some (.error .allocTooMuch) ∧
    documented 64 .uFromChunks [.dec (2 ^ 58), .int 0, .int 1] = some .outOfMemory :=
  Dashu.Proofs.Panic.from_chunks_overallocation_counterexample

theorem from_chunks_arithmetic_unchecked_counterexample :
    guardFromChunksSize 64 (2 ^ 64 - 1) [1, 0, 255] = none ∧
    documented 64 .uFromChunks [.dec (2 ^ 64 - 1), .int 1, .int 0, .int 255] = some .allocTooMuch :=
  Dashu.Proofs.Panic.from_chunks_arithmetic_unchecked

/-- `Context::powi`: the working precisions `precision + guard_bits` / `precision + guard_digits` (mirrored in
    `fPowiPrecisionFits`, regenerated text: `C16Gen.powi_precision_is_generated`) stay inside `usize` for every exponent when the
    context precision is 192 + bit_len(exp) below `usize::MAX` … -/
theorem fbig_powi_precision_fits (p : Nat) (e : Int) (h : p + bitLen e.natAbs + 192 ≤ usizeMax) :
    fPowiPrecisionFits p e = true := by
  have hu : usizeMax = 2 ^ 64 - 1 := rfl
  have hp : bitLen p ≤ 64 := bitLen_le p 64 (by omega)
  have hr : fPowiRevPrecision p ≤ p + 128 := by unfold fPowiRevPrecision; omega
  have hrb : bitLen (fPowiRevPrecision p) ≤ 64 := bitLen_le _ 64 (by omega)
  unfold fPowiPrecisionFits
  by_cases h0 : p = 0
  · simp [h0]
  · by_cases hneg : e < 0
    · have h1 : fPowiRevPrecision p ≤ usizeMax := by omega
      have h2 : fPowiWorkPrecision (fPowiRevPrecision p) e.natAbs ≤ usizeMax := by
        unfold fPowiWorkPrecision; omega
      simp [h0, hneg, h1, h2]
    · have h2 : fPowiWorkPrecision p e.natAbs ≤ usizeMax := by unfold fPowiWorkPrecision; omega
      simp [h0, hneg, h2]

/-- … and NOT for every valid precision (finding float_precision_usize_overflow, the part fix 5768014 left): 3^5 at precision
    `usize::MAX` — no panic documented — needs `usize::MAX + 67`; the boundary for exponent 5 is `usize::MAX − 66 / − 67`
    (the corpus witnesses); a negative exponent already fails at `usize::MAX − 115` (line 127: + 128) -/
theorem fbig_powi_precision_counterexample :
    fPowiPrecisionFits usizeMax 5 = false ∧ fPowiPrecisionFits (usizeMax - 66) 5 = false ∧
    fPowiPrecisionFits (usizeMax - 67) 5 = true ∧ fPowiPrecisionFits (usizeMax - 115) (-5) = false ∧
    fPowiRevPrecision (usizeMax - 127) = usizeMax + 1 ∧      -- release: wraps to exactly 0 = "unlimited" ⇒ UnlimitedPrecision
    documented 64 .fPowi [.flt ⟨2, 3, 0, usizeMax, 'Z'⟩, .int 5] = none := by decide +kernel

example : fPowiPrecisionFits 100 (-(2 ^ 64 : Int)) = true := fbig_powi_precision_fits 100 _ (by decide +kernel)

/-- `RBig/Relaxed::to_float(0)`: the bare assert stops the call exactly where UnlimitedPrecision is documented -/
theorem rbig_to_float_assert_guard (W : Nat) (n d : Int) (c : Char) (p : Nat) (hd : 0 < d) :
    qToFloatAssertFails p = true ↔
      documented W .qToFloat [.int n, .int d, .kind c, .dec p] = some .unlimitedPrecision :=
  qToFloat_assert_iff W n d c p hd

theorem rbig_to_float_b_assert_guard (W : Nat) (n d : Int) (c : Char) (p : Nat) (b : Int) (hd : 0 < d) (hb : b = 2 ∨ b = 10) :
    qToFloatAssertFails p = true ↔
      documented W .qToFloatB [.int n, .int d, .kind c, .dec p, .dec b] = some .unlimitedPrecision :=
  qToFloatB_assert_iff W n d c p b hd hb

theorem fbig_sum_guard (W : Nat) (l : List FArg) (k : Kind) (hok : fListOk l = true)
    (hsmall : l.all (fun a => a.isInf ∨ (a.exp.natAbs ≤ 2 ^ 20)) = true) :
    guardFFold l = .error k ↔ documented W .fSum (l.map Arg.flt) = some k := fSum_guard_iff W l k hok hsmall

theorem fbig_product_guard (W : Nat) (l : List FArg) (k : Kind) (hok : fListOk l = true)
    (hsmall : (l.length ≤ 2 ^ 10 ∧ l.all (fun a => a.isInf ∨ (a.exp.natAbs ≤ 2 ^ 40)) = true)) :
    guardFFold l = .error k ↔ documented W .fProduct (l.map Arg.flt) = some k := fProduct_guard_iff W l k hok hsmall

theorem int_fold_never_panics (W : Nat) (cs : List Arg) (op : Op)
    (hop : op ∈ [Op.uSum, .iSum, .uProduct, .iProduct]) : documented W op cs = none := no_panic_int_fold W cs op hop

theorem hash_never_panics (W : Nat) (x n d : Int) (c : Char) :
    documented W .uHash [.int x] = none ∧ documented W .iHash [.int x] = none ∧
    documented W .qHash [.int n, .int d, .kind c] = none := no_panic_hash W x n d c

-- non-vacuity of the hypotheses
example : documented 64 .uPow [.int 3, .dec (2 ^ 64 - 1)] = some .allocTooMuch := by decide +kernel
example : guardPowOdd 64 3 (2 ^ 64 - 1) = .error .allocTooMuch := by decide +kernel
example : documented 64 .uPow [.int (2 ^ 64 + 1), .dec (2 ^ 63)] = some .allocTooMuch := by decide +kernel
example : (2 ^ 10) >>> tz2 (2 ^ 10) = 1 ∧ tz2 (2 ^ 10) = 10 := by decide
example : guardPowTwoShift 64 10 (2 ^ 62) = .error .allocTooMuch := by decide
example : maxExpInWord 64 3 = (40, 3 ^ 40) ∧ maxExpInWord 64 10 = (19, 10 ^ 19) ∧ maxExpInWord 64 (2 ^ 32 + 1) = (1, 2 ^ 32 + 1) := by
  decide +kernel
example : documented 64 .uFromChunks (.dec (2 ^ 64 - 64) :: [0, 1].map (fun (c : Nat) => Arg.int (c : Int))) = some .allocTooMuch ∧
    ¬ (fromChunksLen 64 (2 ^ 64 - 64) [0, 1] > usizeMax) := by decide +kernel
example : guardFFold [⟨2, 3, 0, 5, 'Z'⟩, ⟨2, 0, 1, 0, 'Z'⟩] = .error .infinite := by decide
example : fListOk [⟨2, 3, 0, 5, 'Z'⟩, ⟨2, 0, 1, 0, 'Z'⟩] = true := by decide +kernel

-- ------------------------------------------------------------------ round 8: `Reduced::inv` no longer "at its specification"

/-- LINK to C13 (by import of `Props/C13.inv_spec`, `div_spec`): the `NonInvertible` guard of `Reduced ÷ Reduced`, which this
    property took at the SPECIFICATION of `inv()` ("Some iff gcd(residue, modulus) = 1"), decides exactly what C13's MODELLED
    `inv` / `/` (mirrored extended-gcd kernels, single-, double- and multi-word rings) do — every word size `W ≥ 1`, every
    modulus the constructor accepts, every dividend `x` and divisor `b` of any sign and size. -/
theorem reduced_div_guard_is_c13s (W id m : Nat) (hW : 0 < W) (r : Dashu.Model.NT.Ring)
    (hr : Dashu.Model.NT.Ring.new W id m = .ok r) (x b : Int) :
    (guardMSame W "div" m b = .ok () ↔ ((Dashu.Model.NT.reduceInt W r b).inv).isSome) ∧
    (guardMSame W "div" m b = .error .nonInvertible ↔
        (Dashu.Model.NT.reduceInt W r x).div W (Dashu.Model.NT.reduceInt W r b) = .error .nonInvertible) ∧
    (guardMSame W "div" m b = .ok () ↔
        ∃ q, (Dashu.Model.NT.reduceInt W r x).div W (Dashu.Model.NT.reduceInt W r b) = .ok q) :=
  InvLink.inv_link W id m hW r hr x b

/-- the same link stated on the DOCUMENTATION (composition with `reduced_same_ring_guard`; modulus ≠ 1 as there): the rustdoc
    names `DivideByZero` iff C13's constructor refuses the modulus; on an accepted modulus it names `NonInvertible` iff the
    modelled `/` ends in `NonInvertible`, and names no panic iff the modelled `/` returns a value. -/
theorem reduced_div_documented_is_c13s (W id m : Nat) (hW : 0 < W) (hm1 : m ≠ 1) (x b : Int) :
    (documented W .mSame [.fn "div", .int m, .int x, .int b] = some .divideByZero ↔
        Dashu.Model.NT.Ring.new W id m = .error .divideByZero) ∧
    (∀ r, Dashu.Model.NT.Ring.new W id m = .ok r →
      (documented W .mSame [.fn "div", .int m, .int x, .int b] = some .nonInvertible ↔
          (Dashu.Model.NT.reduceInt W r x).div W (Dashu.Model.NT.reduceInt W r b) = .error .nonInvertible) ∧
      (documented W .mSame [.fn "div", .int m, .int x, .int b] = none ↔
          ∃ q, (Dashu.Model.NT.reduceInt W r x).div W (Dashu.Model.NT.reduceInt W r b) = .ok q)) :=
  InvLink.documented_div_link W id m hW hm1 x b

/-- non-vacuity: single-word ring 12, divisor 3 — documented NonInvertible ⇒ the modelled `/` panics NonInvertible -/
example : ∃ r, Dashu.Model.NT.Ring.new 64 0 12 = .ok r ∧
    (Dashu.Model.NT.reduceInt 64 r 5).div 64 (Dashu.Model.NT.reduceInt 64 r 3) = .error .nonInvertible :=
  ⟨_, rfl, ((reduced_div_documented_is_c13s 64 0 12 (by decide) (by decide) 5 3).2 _ rfl).1.1 (by decide +kernel)⟩
/-- non-vacuity: 3-word ring 2^190+7, divisor 3 coprime, negative dividend — nothing documented ⇒ the modelled `/` returns -/
example : ∃ r, Dashu.Model.NT.Ring.new 64 0 (2 ^ 190 + 7) = .ok r ∧ r.kind = .large ∧
    ∃ q, (Dashu.Model.NT.reduceInt 64 r (-5)).div 64 (Dashu.Model.NT.reduceInt 64 r 3) = .ok q :=
  ⟨_, rfl, rfl,
   ((reduced_div_documented_is_c13s 64 0 (2 ^ 190 + 7) (by decide) (by decide) (-5) 3).2 _ rfl).2.1 (by decide +kernel)⟩
/-- non-vacuity: modulus 0 — DivideByZero on both sides -/
example : Dashu.Model.NT.Ring.new 64 0 0 = .error .divideByZero ∧
    documented 64 .mSame [.fn "div", .int (0 : Nat), .int 5, .int 3] = some .divideByZero :=
  ⟨rfl, (reduced_div_documented_is_c13s 64 0 0 (by decide) (by decide) 5 3).1.2 rfl⟩

end Dashu.Props.C16
