import Dashu.Props.C19Mod
/-
  C19 clause (1), word size — the VALUE of a modular inverse and of a modular quotient (link to C13's
  `inv_spec` / `div_spec`, by import).

  C13 pins `inv` / `/` only up to the congruence (`x·a ≡ 1`, `q·b ≡ a (mod m)`) plus the range claim
  (`Valid`: below `m`).  Two builds with different word sizes run different extended-gcd kernels
  (single word / double word / Lehmer in place, on differently shifted operands) — that they return
  the SAME number follows from uniqueness of the solution below `m` when `gcd(b, m) = 1`.
-/
namespace Dashu.Props.C19
open Dashu.Model Dashu.Model.NT

/-- uniqueness below `m` of the solution of `x·c ≡ t (mod m)` for `c` coprime to `m` -/
theorem mod_solution_unique {m c x y : Nat} (hc : Nat.gcd c m = 1) (hx : x < m) (hy : y < m)
    (h : (x * c) % m = (y * c) % m) : x = y := by
  have h1 : x ≡ y [MOD m] := Nat.ModEq.cancel_right_of_coprime (by rwa [Nat.gcd_comm]) h
  have h2 : x % m = y % m := h1
  rwa [Nat.mod_eq_of_lt hx, Nat.mod_eq_of_lt hy] at h2

private theorem residue_lt {r : Ring} {e : Elem} (hr : e.ring = r) (hv : Valid r e.raw) : e.residue < r.m := by
  obtain ⟨v, hv, hraw⟩ := hv
  unfold Elem.residue
  rw [hr, hraw, Nat.mul_div_cancel _ (Nat.two_pow_pos _)]
  exact hv

private theorem div_ring {W : Nat} {a b q : Elem} (h : a.div W b = .ok q) : q.ring = a.ring := by
  unfold Elem.div at h
  split at h
  · cases h
  · unfold Elem.mul at h
    split at h
    · cases h; rfl
    · cases h

/-- **value of the modular inverse across word sizes**: in the rings two builds construct for one modulus `m ≠ 0`,
    `inv` of the image of the same integer is `None` in both (exactly when `gcd(a mod m, m) ≠ 1`) or `Some` in both
    with the SAME residue -/
theorem word_size_independent_modular_inv (W₁ W₂ id₁ id₂ m : Nat) (h₁ : 0 < W₁) (h₂ : 0 < W₂) (hm : m ≠ 0) :
    ∃ r₁ r₂, Ring.new W₁ id₁ m = .ok r₁ ∧ Ring.new W₂ id₂ m = .ok r₂ ∧ ∀ a : Int,
      (Nat.gcd (res m a) m ≠ 1 ∧ (reduceInt W₁ r₁ a).inv = none ∧ (reduceInt W₂ r₂ a).inv = none) ∨
      (Nat.gcd (res m a) m = 1 ∧ ∃ i₁ i₂, (reduceInt W₁ r₁ a).inv = some i₁ ∧ (reduceInt W₂ r₂ a).inv = some i₂ ∧
        i₁.residue = i₂.residue ∧ i₁.residue < m ∧ (i₁.residue * res m a) % m = 1 % m) := by
  obtain ⟨r₁, n₁, m₁, -, wf₁⟩ := (C13.new_spec W₁ id₁ m h₁).2 hm
  obtain ⟨r₂, n₂, m₂, -, wf₂⟩ := (C13.new_spec W₂ id₂ m h₂).2 hm
  refine ⟨r₁, r₂, n₁, n₂, fun a => ?_⟩
  obtain ⟨p, p'⟩ := C13.inv_spec W₁ r₁ wf₁ a
  obtain ⟨q, q'⟩ := C13.inv_spec W₂ r₂ wf₂ a
  rw [m₁] at p p'; rw [m₂] at q q'
  by_cases hg : Nat.gcd (res m a) m = 1
  · right
    refine ⟨hg, ?_⟩
    cases e₁ : (reduceInt W₁ r₁ a).inv with
    | none => rw [e₁] at p; exact absurd (p.2 hg) (by simp)
    | some i₁ =>
      cases e₂ : (reduceInt W₂ r₂ a).inv with
      | none => rw [e₂] at q; exact absurd (q.2 hg) (by simp)
      | some i₂ =>
        obtain ⟨a1, a2, a3⟩ := p' i₁ e₁
        obtain ⟨b1, b2, b3⟩ := q' i₂ e₂
        have l₁ : i₁.residue < m := by have := residue_lt a1 a2; rwa [m₁] at this
        have l₂ : i₂.residue < m := by have := residue_lt b1 b2; rwa [m₂] at this
        exact ⟨i₁, i₂, rfl, rfl, mod_solution_unique hg l₁ l₂ (a3.trans b3.symm), l₁, a3⟩
  · left
    refine ⟨hg, ?_, ?_⟩
    · cases e₁ : (reduceInt W₁ r₁ a).inv with
      | none => rfl
      | some i₁ => rw [e₁] at p; exact absurd (p.1 rfl) hg
    · cases e₂ : (reduceInt W₂ r₂ a).inv with
      | none => rfl
      | some i₂ => rw [e₂] at q; exact absurd (q.1 rfl) hg

/-- **value of the modular quotient across word sizes**: `a / b` panics `NonInvertible` in both builds (exactly when
    `gcd(b mod m, m) ≠ 1`) or answers in both with the SAME residue -/
theorem word_size_independent_modular_div (W₁ W₂ id₁ id₂ m : Nat) (h₁ : 0 < W₁) (h₂ : 0 < W₂) (hm : m ≠ 0) :
    ∃ r₁ r₂, Ring.new W₁ id₁ m = .ok r₁ ∧ Ring.new W₂ id₂ m = .ok r₂ ∧ ∀ a b : Int,
      (Nat.gcd (res m b) m ≠ 1 ∧ (reduceInt W₁ r₁ a).div W₁ (reduceInt W₁ r₁ b) = .error .nonInvertible ∧
        (reduceInt W₂ r₂ a).div W₂ (reduceInt W₂ r₂ b) = .error .nonInvertible) ∨
      (Nat.gcd (res m b) m = 1 ∧ ∃ q₁ q₂, (reduceInt W₁ r₁ a).div W₁ (reduceInt W₁ r₁ b) = .ok q₁ ∧
        (reduceInt W₂ r₂ a).div W₂ (reduceInt W₂ r₂ b) = .ok q₂ ∧
        q₁.residue = q₂.residue ∧ q₁.residue < m ∧ (q₁.residue * res m b) % m = res m a) := by
  obtain ⟨r₁, n₁, m₁, -, wf₁⟩ := (C13.new_spec W₁ id₁ m h₁).2 hm
  obtain ⟨r₂, n₂, m₂, -, wf₂⟩ := (C13.new_spec W₂ id₂ m h₂).2 hm
  refine ⟨r₁, r₂, n₁, n₂, fun a b => ?_⟩
  obtain ⟨p, p'⟩ := C13.div_spec W₁ r₁ wf₁ a b
  obtain ⟨q, q'⟩ := C13.div_spec W₂ r₂ wf₂ a b
  have g₁ := (C13.reduce_spec W₁ r₁ wf₁ a).2.2.2.2
  have g₂ := (C13.reduce_spec W₂ r₂ wf₂ a).2.2.2.2
  rw [m₁] at p p'; rw [m₂] at q q'
  by_cases hg : Nat.gcd (res m b) m = 1
  · right
    obtain ⟨q₁, d₁, v₁, c₁⟩ := p' hg
    obtain ⟨q₂, d₂, v₂, c₂⟩ := q' hg
    have l₁ : q₁.residue < m := by have := residue_lt ((div_ring d₁).trans g₁) v₁; rwa [m₁] at this
    have l₂ : q₂.residue < m := by have := residue_lt ((div_ring d₂).trans g₂) v₂; rwa [m₂] at this
    exact ⟨hg, q₁, q₂, d₁, d₂, mod_solution_unique hg l₁ l₂ (c₁.trans c₂.symm), l₁, c₁⟩
  · left
    exact ⟨hg, p hg, q hg⟩

/-- non-vacuity: a 3-word (W = 64) / 6-word (W = 32) modulus, an invertible and a non-invertible element (the modulus
    `3·(2^190+1)`, so `3` is not a unit and `7` is): the builds run `gcd_ext_in_place` on 3 resp. 6 words -/
example : ∃ r₁ r₂, Ring.new 64 0 (3 * (2 ^ 190 + 1)) = .ok r₁ ∧ Ring.new 32 0 (3 * (2 ^ 190 + 1)) = .ok r₂ ∧ r₁ ≠ r₂ ∧
    (reduceInt 64 r₁ 3).inv = none ∧ (reduceInt 32 r₂ 3).inv = none ∧
    ((reduceInt 64 r₁ 7).inv.map Elem.residue) = ((reduceInt 32 r₂ 7).inv.map Elem.residue) ∧
    ((reduceInt 64 r₁ 7).inv.map Elem.residue).isSome = true :=
  ⟨_, _, rfl, rfl, by decide +kernel, by decide +kernel, by decide +kernel, by decide +kernel, by decide +kernel⟩

/-- … and both arms of the quotient statement are inhabited -/
example : Nat.gcd (res (2 ^ 40 + 15) 7) (2 ^ 40 + 15) = 1 ∧ Nat.gcd (res 12 8) 12 ≠ 1 := by decide +kernel

end Dashu.Props.C19
