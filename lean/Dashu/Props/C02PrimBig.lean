import Dashu.Props.C02PrimLink
/-
  C02 ↔ C15 link, second part (round 8): the primitive-operand forms of integer/src/div_ops.rs whose result stays a
  big integer, and the assign forms.  Textually (helper_macros.rs / div_ops.rs):

      impl_binop_with_primitive!(impl Div<$t> for UBig|IBig, div)            // -> Big
          self.div(<Big>::from(rhs)).try_into().unwrap()                     // Big -> Big: the identity conversion
      impl_binop_assign_with_primitive!(impl DivAssign<$t> for UBig|IBig, div_assign)
          self.div_assign(<Big>::from(rhs))
      impl_binop_assign_with_primitive!(impl DivRemAssign<$t> for UBig|IBig, div_rem_assign, OutputRem = $t)
          self.div_rem_assign(<Big>::from(rhs)).try_into().unwrap()          // quotient left in `self`, remainder -> prim

  i.e. the BY-VALUE big-operand impl `Trait<Big> for Big` of the same trait on `Big::from(prim)` — an entry of the operator
  table REGENERATED from the macro-expanded crate (`Gen/DivPlumbing.table`), run along its route by `Entry.eval` (what
  `drive_div` executes; an assign entry forwards to the by-value `Div` / `DivRem` impl) — followed, for `DivRemAssign`, by
  C15's checked conversion `primForm lo hi` of the remainder.  `Big::from(prim)` is `SRepr.ofInt` of the value
  (`neg = false`, magnitude `ofNat` for an unsigned one).
-/
namespace Dashu.Props.C02PrimBig
open Dashu Dashu.Model Dashu.Model.Div Dashu.Model.DivPlumbing Dashu.Gen.DivPlumbing Dashu.Props.C02 Dashu.Props.C15

/-- `Big::from(prim)` is an admissible right operand of a `Trait<Big> for Big` entry: any primitive for `IBig`,
    a non-negative one for `UBig` -/
theorem ofInt_operandOk (W : Nat) (hW : 1 ≤ W) (t : Ty) (p : Int) (hp : t ≠ .IBig → 0 ≤ p) :
    OperandOk W t (SRepr.ofInt W p) := by
  refine ⟨SRepr.ofInt_wf W hW p, fun h => ?_⟩
  have := hp h
  simp only [SRepr.ofInt, decide_eq_false_iff_not]; omega

/-- **`Big op prim` with a big result, `DivAssign<prim>`, `RemAssign`-shaped forwarding** — every regenerated table entry
    `Trait<Big> for Big` (`e.rhs = e.lhs`, any ownership form), run along its route on `Big::from(p)`: the documented
    divide-by-zero panic for `p = 0`, otherwise well-formed results of the documented types denoting the truncating
    (`Div`, `DivAssign`, `DivRem`, `DivRemAssign`, `Rem`, `RemAssign`) resp. Euclidean quotient / remainder of `a` by `p`. -/
theorem big_prim_every_impl_exact (W : Nat) (hW4 : 4 ≤ W) (e : Entry) (he : e ∈ table) (hty : e.rhs = e.lhs)
    (a : SRepr) (p : Int) (ha : OperandOk W e.lhs a) (hp : e.lhs ≠ .IBig → 0 ≤ p) :
    Exact W (e.eval W table a (SRepr.ofInt W p)) p (specVals e.tr (a.value W) p) (specKinds e.tr e.lhs e.lhs) := by
  have hW : 1 ≤ W := by omega
  have h := plumbing_every_impl_exact W hW hW4 e he a (SRepr.ofInt W p) ha
    (ofInt_operandOk W hW e.rhs p (by rw [hty]; exact hp))
  rw [SRepr.ofInt_value W hW p, hty] at h
  exact h

/-- `DivRemAssign<prim> for Big` (`OutputRem = prim`): the table entry on `Big::from(p)`, the quotient left in `self`
    (first component), the remainder through `try_into().unwrap()` (`none` = the conversion panic) -/
def divRemAssignPrim (W : Nat) (lo hi : Int) (e : Entry) (a : SRepr) (p : Int) :
    Option (Except PanicKind (Val × Option Int)) :=
  match e.eval W table a (SRepr.ofInt W p) with
  | some (.ok [q, r]) => some (.ok (q, primForm lo hi (valInt W r)))
  | some (.error k) => some (.error k)
  | _ => none

/-- `DivRemAssign<prim>`, any primitive range: zero divisor = the documented panic, otherwise the quotient `tdiv a p`
    (well-formed, of the dividend's type) is left in `self` and the result is C15's `primForm` of `tmod a p` -/
theorem divrem_assign_prim_eq (W : Nat) (hW4 : 4 ≤ W) (lo hi : Int) (e : Entry) (he : e ∈ table)
    (htr : e.tr = .DivRemAssign) (hty : e.rhs = e.lhs) (a : SRepr) (p : Int) (ha : OperandOk W e.lhs a)
    (hp : e.lhs ≠ .IBig → 0 ≤ p) :
    (p = 0 → divRemAssignPrim W lo hi e a p = some (.error .divideByZero)) ∧
    (p ≠ 0 → ∃ q, divRemAssignPrim W lo hi e a p = some (.ok (q, primForm lo hi (Int.tmod (a.value W) p))) ∧
      valInt W q = Int.tdiv (a.value W) p ∧ valIsU q = (e.lhs == .UBig) ∧ valWF W q) := by
  have ⟨d0, d1⟩ := big_prim_every_impl_exact W hW4 e he hty a p ha hp
  rw [htr] at d1
  constructor
  · intro h0; simp only [divRemAssignPrim, d0 h0]
  · intro hne
    obtain ⟨vs, hev, hv, hk, hwf⟩ := d1 hne
    simp only [specVals, specKinds] at hv hk
    rcases vs with _ | ⟨q, _ | ⟨r, _ | ⟨s, t⟩⟩⟩ <;> simp only [List.map, reduceCtorEq, List.cons.injEq, and_false] at hv
    obtain ⟨hq, hr, -⟩ := hv
    simp only [List.map, List.cons.injEq, and_true] at hk
    have hk' : valIsU q = (e.lhs == .UBig) := by
      rw [hk.1]; cases e.lhs <;> rfl
    refine ⟨q, ?_, hq, hk', hwf q (List.mem_cons_self ..)⟩
    simp only [divRemAssignPrim, hev, hr]

/-- **`UBig.div_rem_assign(uN)`**: for every `0 < p ≤ uN::MAX` no conversion panic — the remainder `tmod a p` is
    returned and `self` becomes the quotient (a canonical `UBig`); `p = 0` is the documented panic -/
theorem ubig_divrem_assign_prim_exact (W : Nat) (hW4 : 4 ≤ W) (hi : Int) (e : Entry) (he : e ∈ table)
    (htr : e.tr = .DivRemAssign) (hl : e.lhs = .UBig) (hr : e.rhs = .UBig) (a : SRepr) (p : Int)
    (ha : OperandOk W .UBig a) (hp0 : 0 ≤ p) (hhi : p ≤ hi) :
    (p = 0 → divRemAssignPrim W 0 hi e a p = some (.error .divideByZero)) ∧
    (p ≠ 0 → ∃ q, divRemAssignPrim W 0 hi e a p = some (.ok (q, some (Int.tmod (a.value W) p))) ∧
      valInt W q = Int.tdiv (a.value W) p ∧ valIsU q = true ∧ valWF W q) := by
  have ⟨d0, d1⟩ := divrem_assign_prim_eq W hW4 0 hi e he htr (by rw [hl, hr]) a p (by rw [hl]; exact ha) (fun _ => hp0)
  refine ⟨d0, fun hne => ?_⟩
  obtain ⟨q, e1, e2, e3, e4⟩ := d1 hne
  have han : 0 ≤ a.value W := by
    rw [value_of_not_neg W a (ha.2 (by decide))]; exact Int.natCast_nonneg _
  rw [ubig_rem_unsigned_fits (a.value W) p hi han (by omega) hhi] at e1
  rw [hl] at e3
  exact ⟨q, e1, e2, e3, e4⟩

/-- **`IBig.div_rem_assign(iN)`**, `p ≠ 0` in the signed range `[-2^k, 2^k - 1]`: no conversion panic, the truncated
    remainder is returned and `self` becomes the truncated quotient (a well-formed `IBig`) -/
theorem ibig_divrem_assign_signed_prim_exact (W : Nat) (hW4 : 4 ≤ W) (k : Nat) (e : Entry) (he : e ∈ table)
    (htr : e.tr = .DivRemAssign) (hl : e.lhs = .IBig) (hr : e.rhs = .IBig) (a : SRepr) (p : Int)
    (ha : a.WF W) (hp0 : p ≠ 0) (hlo : -(2 ^ k : Int) ≤ p) (hhi : p ≤ 2 ^ k - 1) :
    ∃ q, divRemAssignPrim W (-(2 ^ k : Int)) (2 ^ k - 1) e a p = some (.ok (q, some (Int.tmod (a.value W) p))) ∧
      valInt W q = Int.tdiv (a.value W) p ∧ valIsU q = false ∧ valWF W q := by
  have ⟨_, d1⟩ := divrem_assign_prim_eq W hW4 (-(2 ^ k : Int)) (2 ^ k - 1) e he htr (by rw [hl, hr]) a p
    (by rw [hl]; exact ⟨ha, fun h => absurd rfl h⟩) (by rw [hl]; exact fun h => absurd rfl h)
  obtain ⟨q, e1, e2, e3, e4⟩ := d1 hp0
  rw [ibig_rem_signed_fits (a.value W) p k hp0 hlo hhi] at e1
  rw [hl] at e3
  exact ⟨q, e1, e2, e3, e4⟩

-- ------------------------------------------------------------------ non-vacuity (W = 64, heap dividends)

-- the regenerated table lists the by-value `Div` / `DivAssign` / `DivRemAssign` impls `Trait<Big> for Big` the macros call
example : table.any (fun e => e.tr == .Div && e.lhs == .UBig && e.rhs == .UBig && !e.lhsRef && !e.rhsRef) = true ∧
    table.any (fun e => e.tr == .DivAssign && e.lhs == .IBig && e.rhs == .IBig && !e.rhsRef) = true ∧
    table.any (fun e => e.tr == .DivRemAssign && e.lhs == .UBig && e.rhs == .UBig && !e.rhsRef) = true ∧
    table.any (fun e => e.tr == .DivRemAssign && e.lhs == .IBig && e.rhs == .IBig && !e.rhsRef) = true := by
  refine ⟨by decide, by decide, by decide, by decide⟩

-- `UBig.div_rem_assign(u8)` on a 3-word dividend, `IBig.div_rem_assign(i8::MIN)` on a negative 3-word dividend, `IBig /= 0u8`
example : OperandOk 64 .UBig ⟨false, .large [1, 2, 3]⟩ ∧ (0 : Int) ≤ 255 ∧ (255 : Int) ≤ 2 ^ 8 - 1 ∧
    divRemAssignPrim 64 0 (2 ^ 8 - 1) ⟨.DivRemAssign, .UBig, false, .UBig, false, .take, .pass, .take .DivRem, []⟩
      ⟨false, .large [1, 2, 3]⟩ 255 = some (.ok (.u (.small (361700864190383365 + 217020518514230019 * 2 ^ 64)), some 6)) ∧
    divRemAssignPrim 64 (-(2 ^ 7 : Int)) (2 ^ 7 - 1) ⟨.DivRemAssign, .IBig, false, .IBig, false, .take, .pass, .take .DivRem, []⟩
      ⟨true, .large [1, 2, 3]⟩ (-128) = some (.ok (.i ⟨false, .small (288230376151711744 + 432345564227567616 * 2 ^ 64)⟩, some (-1))) ∧
    Entry.eval 64 table ⟨.DivAssign, .IBig, false, .IBig, false, .take, .pass, .take .Div, []⟩ ⟨true, .large [1, 2, 3]⟩
      (SRepr.ofInt 64 0) = some (.error .divideByZero) := by
  refine ⟨⟨⟨by decide, by decide⟩, fun _ => rfl⟩, by decide, by decide, by decide, by decide, by decide⟩

end Dashu.Props.C02PrimBig
