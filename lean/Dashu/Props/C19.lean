import Dashu.Model.Serde.Num
namespace Dashu.Props.C19
open Dashu.Model.Serde
theorem placeholder : ofLeBytes [] = 0 := rfl
end Dashu.Props.C19
