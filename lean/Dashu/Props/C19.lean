import Dashu.Proofs.Serde.Text
import Dashu.Props.C01
import Dashu.Proofs.Serde.WordSize
import Dashu.Proofs.Serde.WithBase
import Dashu.Proofs.NT.Log2Table
import Dashu.Model.Serde.Log2Cfg
/-
  C19 — Results do not depend on word size, build features or serialization medium.

  Clause (1), word size: the refinement theorems of C01 hold for every word size `W ≥ 1`; the
  corollaries below say that two builds with different `W` compute the same mathematical value (and
  the same panic) from the same mathematical inputs.  Features and profile do not occur in any model
  definition; that the real builds agree is observed by the correspondence (8 configurations).

  Clause (3), serialization: the formats of `Model/Serde` contain no word size; `decode (encode x) = x`;
  every decoder maps an arbitrary stream to a canonical value or to an error.

  Clause (2), log2 bounds: the no_std table estimator brackets `log2` on all 65 280 `u16` inputs
  (kernel decision, shared with C12); the `f32` steps around it and the std estimator are replicated
  with Lean's compiled `Float32` and every pair of bounds is checked exactly by the driver.
-/
namespace Dashu.Props.C19
open Dashu.Model Dashu.Model.Serde

-- ====================================================================== (1) word size

/-- UBig `+`: any two word sizes, any call forms -/
theorem word_size_independent_u_add (W₁ W₂ : Nat) (h₁ : 1 ≤ W₁) (h₂ : 1 ≤ W₂) (x y f₁ f₂ : Nat) :
    ((ofNat W₁ x).add W₁ (ofNat W₁ y) f₁).value W₁ = ((ofNat W₂ x).add W₂ (ofNat W₂ y) f₂).value W₂ := by
  rw [(C01.u_add_sub_of_nat W₁ (by omega) x y f₁ false).1, (C01.u_add_sub_of_nat W₂ (by omega) x y f₂ false).1]

/-- UBig `-`: the same value, or the same `NegativeUBig` panic, in both builds -/
theorem word_size_independent_u_sub (W₁ W₂ : Nat) (h₁ : 1 ≤ W₁) (h₂ : 1 ≤ W₂) (x y : Nat) (rv₁ rv₂ : Bool) :
    (y ≤ x → ∃ r₁ r₂, (ofNat W₁ x).sub W₁ (ofNat W₁ y) rv₁ = .ok r₁ ∧ (ofNat W₂ x).sub W₂ (ofNat W₂ y) rv₂ = .ok r₂ ∧
      r₁.value W₁ = r₂.value W₂) ∧
    (x < y → (ofNat W₁ x).sub W₁ (ofNat W₁ y) rv₁ = .error .negativeUBig ∧
      (ofNat W₂ x).sub W₂ (ofNat W₂ y) rv₂ = .error .negativeUBig) := by
  have a := C01.u_add_sub_of_nat W₁ (by omega) x y 0 rv₁
  have b := C01.u_add_sub_of_nat W₂ (by omega) x y 0 rv₂
  constructor
  · intro h
    obtain ⟨r₁, e₁, v₁⟩ := a.2.1 h
    obtain ⟨r₂, e₂, v₂⟩ := b.2.1 h
    exact ⟨r₁, r₂, e₁, e₂, by rw [v₁, v₂]⟩
  · intro h; exact ⟨a.2.2 h, b.2.2 h⟩

/-- UBig `*` and squaring -/
theorem word_size_independent_u_mul (W₁ W₂ : Nat) (h₁ : 8 ≤ W₁) (h₂ : 8 ≤ W₂) (x y : Nat) :
    ((ofNat W₁ x).mul W₁ (ofNat W₁ y)).value W₁ = ((ofNat W₂ x).mul W₂ (ofNat W₂ y)).value W₂ ∧
    ((ofNat W₁ x).sqr W₁).value W₁ = ((ofNat W₂ x).sqr W₂).value W₂ := by
  have ox₁ := C01.of_nat_exact W₁ (by omega) x; have oy₁ := C01.of_nat_exact W₁ (by omega) y
  have ox₂ := C01.of_nat_exact W₂ (by omega) x; have oy₂ := C01.of_nat_exact W₂ (by omega) y
  constructor
  · rw [(C01.u_mul_exact W₁ (by omega) _ _ ox₁.2 oy₁.2).1, (C01.u_mul_exact W₂ (by omega) _ _ ox₂.2 oy₂.2).1,
      ox₁.1, oy₁.1, ox₂.1, oy₂.1]
  · rw [(C01.u_sqr_exact W₁ (by omega) _ ox₁.2).1, (C01.u_sqr_exact W₂ (by omega) _ ox₂.2).1, ox₁.1, ox₂.1]

/-- IBig `+`, `-`, `*` -/
theorem word_size_independent_i_ring (W₁ W₂ : Nat) (h₁ : 8 ≤ W₁) (h₂ : 8 ≤ W₂) (x y : Int) (f₁ f₂ : Nat) :
    (ibigAdd W₁ (.ofInt W₁ x) (.ofInt W₁ y) f₁).value W₁ = (ibigAdd W₂ (.ofInt W₂ x) (.ofInt W₂ y) f₂).value W₂ ∧
    (ibigSub W₁ (.ofInt W₁ x) (.ofInt W₁ y) f₁).value W₁ = (ibigSub W₂ (.ofInt W₂ x) (.ofInt W₂ y) f₂).value W₂ ∧
    (ibigMul W₁ (.ofInt W₁ x) (.ofInt W₁ y)).value W₁ = (ibigMul W₂ (.ofInt W₂ x) (.ofInt W₂ y)).value W₂ := by
  have a := C01.i_add_sub_of_int W₁ (by omega) x y f₁
  have b := C01.i_add_sub_of_int W₂ (by omega) x y f₂
  have ox₁ := C01.of_int_exact W₁ (by omega) x; have oy₁ := C01.of_int_exact W₁ (by omega) y
  have ox₂ := C01.of_int_exact W₂ (by omega) x; have oy₂ := C01.of_int_exact W₂ (by omega) y
  refine ⟨by rw [a.1, b.1], by rw [a.2, b.2], ?_⟩
  rw [(C01.i_mul_exact W₁ (by omega) _ _ ox₁.2 oy₁.2).1, (C01.i_mul_exact W₂ (by omega) _ _ ox₂.2 oy₂.2).1,
    ox₁.1, oy₁.1, ox₂.1, oy₂.1]

/-- UBig division: same quotient and remainder (= `x / y`, `x % y`), or the same `DivideByZero` panic (C02) -/
theorem word_size_independent_u_div_rem (W₁ W₂ : Nat) (h₁ : 8 ≤ W₁) (h₂ : 8 ≤ W₂) (x y : Nat) :
    (y = 0 → Div.divRemRepr W₁ (ofNat W₁ x) (ofNat W₁ y) = .error .divideByZero ∧
             Div.divRemRepr W₂ (ofNat W₂ x) (ofNat W₂ y) = .error .divideByZero) ∧
    (y ≠ 0 → ∃ q₁ r₁ q₂ r₂, Div.divRemRepr W₁ (ofNat W₁ x) (ofNat W₁ y) = .ok (q₁, r₁) ∧
        Div.divRemRepr W₂ (ofNat W₂ x) (ofNat W₂ y) = .ok (q₂, r₂) ∧
        q₁.value W₁ = q₂.value W₂ ∧ r₁.value W₁ = r₂.value W₂ ∧ q₁.value W₁ = x / y ∧ r₁.value W₁ = x % y) :=
  WordSize.word_size_independent_u_div_rem W₁ W₂ h₁ h₂ x y

/-- UBig `&`, `|`, `^`, `<<`, `>>` (C09) -/
theorem word_size_independent_u_bits (W₁ W₂ : Nat) (h₁ : 8 ≤ W₁) (h₂ : 8 ≤ W₂) (x y n : Nat) (byRef₁ byRef₂ : Bool) :
    ((ofNat W₁ x).bitand W₁ (ofNat W₁ y)).value W₁ = ((ofNat W₂ x).bitand W₂ (ofNat W₂ y)).value W₂ ∧
    ((ofNat W₁ x).bitor W₁ (ofNat W₁ y)).value W₁ = ((ofNat W₂ x).bitor W₂ (ofNat W₂ y)).value W₂ ∧
    ((ofNat W₁ x).bitxor W₁ (ofNat W₁ y)).value W₁ = ((ofNat W₂ x).bitxor W₂ (ofNat W₂ y)).value W₂ ∧
    ((ofNat W₁ x).shl W₁ n).value W₁ = ((ofNat W₂ x).shl W₂ n).value W₂ ∧
    ((ofNat W₁ x).shr W₁ n byRef₁).value W₁ = ((ofNat W₂ x).shr W₂ n byRef₂).value W₂ :=
  WordSize.word_size_independent_u_bits W₁ W₂ h₁ h₂ x y n byRef₁ byRef₂

/-- text and bytes (C07): printing under every format trait, `from_str_radix`, `from_str_with_radix_default`,
    `to_le_bytes`, `from_le_bytes` are the same functions in any two word sizes (multiples of 8, ≥ 8) -/
theorem word_size_independent_text (W₁ W₂ : Nat) (h₁ : 8 ≤ W₁) (h₂ : 8 ≤ W₂) (d₁ : 8 ∣ W₁) (d₂ : 8 ∣ W₂) :
    (∀ (t : Text.FmtTrait) (f : Text.FmtSpec) (z : Int), Text.validRadix t.radix = true →
      Text.fmtModel W₁ t f z = Text.fmtModel W₂ t f z) ∧
    (∀ (signed : Bool) (s : List Nat) (r : Nat), Text.parseRadix W₁ signed s r = Text.parseRadix W₂ signed s r) ∧
    (∀ (signed : Bool) (s : List Nat) (dflt : Nat), Text.parseDefault W₁ signed s dflt = Text.parseDefault W₂ signed s dflt) ∧
    (∀ n : Nat, Text.toLeBytes W₁ n = Text.toLeBytes W₂ n) ∧
    (∀ bytes : List Nat, Text.fromLeBytes W₁ bytes = Text.fromLeBytes W₂ bytes) :=
  WordSize.word_size_independent_text W₁ W₂ h₁ h₂ d₁ d₂

example : (8 : Nat) ≤ 64 ∧ (8 : Nat) ≤ 32 ∧ 8 ∣ 64 ∧ 8 ∣ 32 := by decide

/-- `FBig::with_base` (code since /repo fa3b7b8): the precision of the result is the documented maximum
    `max {q | NewB^q ≤ B^p}` in all three branches (`p·n` for `B = NewB^n`, `p / n` for `NewB = B^n`, the
    exact integer logarithm otherwise) — and therefore the same in every word size (before the fix it
    came from `f32` log2 bounds of word-size dependent tightness: base 8 → 16, precision 32 gave 24
    digits with 64-bit and 23 with 32-bit words) -/
theorem with_base_precision_word_size_independent (W₁ W₂ B NewB p : Nat) (hB : 1 ≤ B) (hN : 2 ≤ NewB) :
    (p * Text.ilogExact B NewB ≤ 2 ^ 64 - 1 →
      Text.withBasePrecision W₁ B NewB p = Text.withBasePrecisionSpec B NewB p) ∧
    Text.withBasePrecision W₁ B NewB p = Text.withBasePrecision W₂ B NewB p :=
  ⟨fun hp => Text.withBasePrecision_eq_spec W₁ B NewB p hB hN hp, Text.withBasePrecision_word_size W₁ W₂ B NewB p⟩

/-- the hypothesis `p·n ≤ usize::MAX` is met by every precision that fits in memory, e.g. base 16 → 2 (n = 4) -/
example : 1000 * Text.ilogExact 16 2 ≤ 2 ^ 64 - 1 := by decide

example : Text.withBasePrecision 32 8 16 32 = 24 ∧ Text.withBasePrecision 64 8 16 32 = 24 := by
  constructor <;> decide

/-- the two word sizes the builds use -/
example (x y : Int) :
    (ibigMul 64 (.ofInt 64 x) (.ofInt 64 y)).value 64 = (ibigMul 32 (.ofInt 32 x) (.ofInt 32 y)).value 32 :=
  (word_size_independent_i_ring 64 32 (by decide) (by decide) x y 0 0).2.2

-- ====================================================================== (3) serialization: bytes

/-- `UBig::from_le_bytes (to_le_bytes n) = n`; the byte string is a function of the value alone
    (`leBytes` has no word-size parameter), minimal (no most-significant zero byte) -/
theorem le_bytes_round_trip (n : Nat) :
    ofLeBytes (leBytes n) = n ∧ isBytes (leBytes n) ∧ (leBytes n).getLast? ≠ some 0 :=
  ⟨ofLeBytes_leBytes n, leBytes_isBytes n, leBytes_getLast_ne_zero n⟩

/-- the byte payload of `impl Serialize for UBig` **is** what `UBig::to_le_bytes` computes word by word
    (C07's word-level model) in every word size that is a multiple of 8, and `visit_bytes` is that word
    size's `from_le_bytes`: the wire format is identical across word sizes -/
theorem serde_bytes_word_size_independent (W : Nat) (h8 : 8 ∣ W) (hW : 8 ≤ W) (n : Nat) (bs : Bytes) :
    Text.toLeBytes W n = leBytes n ∧ Text.fromLeBytes W bs = ofLeBytes bs :=
  serde_bytes_are_the_word_level_bytes W h8 hW n bs

/-- decoding accepts most-significant zero bytes and still yields the canonical number -/
theorem le_bytes_leading_zeros (bs : Bytes) : ofLeBytes (bs ++ [0]) = ofLeBytes bs := ofLeBytes_append_zero bs

-- ====================================================================== (3) binary medium

/-- UBig: decode ∘ encode = id, and exactly the encoding is consumed.  (Hypothesis: the byte
    length fits the `usize` length prefix — true of every value that fits in memory.) -/
theorem ubig_binary_round_trip (n : Nat) (rest : Bytes) (h : (leBytes n).length < 2 ^ 64) :
    decU (encU n ++ rest) = some (n, rest) := decU_encU n rest h

/-- IBig: the sign survives through the parity of the payload length -/
theorem ibig_binary_round_trip (z : Int) (rest : Bytes) (h : (ibigPayload z).length < 2 ^ 64) :
    decI (encI z ++ rest) = some (z, rest) := decI_encI z rest h

example : (ibigPayload (-256)).length < 2 ^ 64 ∧ encI (-256) = [3, 0, 1, 0] := by
  have h : leBytes 256 = [0, 1] := by simp [leBytes]
  constructor
  · simp [ibigPayload, h]
  · simp [encI, ibigPayload, h, pcBytes, varintEnc]

/-- an all-zero payload of odd length ("negative zero") decodes to the number 0 -/
theorem ibig_no_negative_zero (b : Bytes) (h : ofLeBytes b = 0) : ibigOfPayload b = 0 :=
  Dashu.Model.Serde.ibig_no_negative_zero b h

/-- RBig: a reduced fraction comes back unchanged -/
theorem rbig_binary_round_trip (q : QVal) (rest : Bytes) (hq : QReduced q)
    (h1 : (ibigPayload q.num).length < 2 ^ 64) (h2 : (leBytes q.den).length < 2 ^ 64) :
    decQ (encQ q ++ rest) = some (q, rest) := decQ_encQ q rest hq h1 h2

/-- Relaxed: a fraction without a common factor 2 comes back unchanged -/
theorem relaxed_binary_round_trip (q : QVal) (rest : Bytes) (hq : QRelaxed q)
    (h1 : (ibigPayload q.num).length < 2 ^ 64) (h2 : (leBytes q.den).length < 2 ^ 64) :
    decX (encQ q ++ rest) = some (q, rest) := decX_encQ q rest hq h1 h2

/-- a non-reduced pair on the wire (6/9: payloads `06 00` and `09`) decodes to the reduced 2/3 as `RBig`;
    a zero denominator is an error -/
example : decQ [2, 6, 0, 1, 9] = some (⟨2, 3⟩, []) ∧ decQ [2, 6, 0, 0] = none ∧ QReduced ⟨2, 3⟩ := by
  refine ⟨by decide, by decide, by decide, by decide⟩

example : QRelaxed ⟨-6, 9⟩ ∧ ¬ QReduced ⟨-6, 9⟩ := by
  constructor
  · refine ⟨by decide, by decide, by decide⟩
  · intro h; exact absurd h.2 (by decide)

/-- Repr<B>: a canonical representation (finite normalised, zero, or an infinity) comes back
    unchanged -/
theorem repr_binary_round_trip (B : Nat) (v : FVal) (rest : Bytes) (hv : FCanon B v)
    (h1 : (ibigPayload v.signif).length < 2 ^ 64) :
    decR B (encR v ++ rest) = some (v, rest) := decR_encR B v rest hv h1

/-- FBig<R,B>: representation and precision come back unchanged -/
theorem fbig_binary_round_trip (B : Nat) (v : FPVal) (rest : Bytes) (hv : FPCanon B v)
    (h1 : (ibigPayload v.signif).length < 2 ^ 64) (hp : v.prec < 2 ^ 64) :
    decF B (encF v ++ rest) = some (v, rest) := decF_encF B v rest hv h1 hp

example : FCanon 10 ⟨-1234, -2⟩ ∧ FCanon 10 ⟨0, 1⟩ ∧ ¬ FCanon 10 ⟨1230, 0⟩ := by
  refine ⟨⟨by decide, by decide, by decide⟩, ⟨by decide, by decide, by decide⟩, ?_⟩
  intro h; exact absurd (h.2.1 (by decide)) (by decide)

/-- arbitrary bytes → RBig: in lowest terms with a positive denominator, or an error -/
theorem rbig_binary_decode_canonical (s : Bytes) (q : QVal) (r : Bytes) (h : decQ s = some (q, r)) : QReduced q :=
  decQ_canonical s q r h

/-- arbitrary bytes → Relaxed: positive denominator, no common factor 2, zero as 0/1, or an error -/
theorem relaxed_binary_decode_canonical (s : Bytes) (q : QVal) (r : Bytes) (h : decX s = some (q, r)) : QRelaxed q :=
  decX_canonical s q r h

/-- arbitrary bytes → Repr<B>: normalised (or zero / infinity) with an in-range exponent, or an error -/
theorem repr_binary_decode_canonical (B : Nat) (hB : 2 ≤ B) (s : Bytes) (v : FVal) (r : Bytes)
    (h : decR B s = some (v, r)) : FCanon B v := decR_canonical B hB s v r h

/-- arbitrary bytes → FBig<R,B>: additionally `digits ≤ precision` unless unlimited, or an error -/
theorem fbig_binary_decode_canonical (B : Nat) (hB : 2 ≤ B) (s : Bytes) (v : FPVal) (r : Bytes)
    (h : decF B s = some (v, r)) : FPCanon B v := decF_canonical B hB s v r h

/-! The three places where the code *before* /repo 78fd274 / 9f519ab (`…AsIs` mirrors) broke the
    statements above (now `fixed:` lines in `known_findings.jsonl`): the checks in `decQ` / `decF` /
    `fread` are necessary. -/

/-- as-is: numerator 1 (bytes `01 01`… here `-1`), denominator empty ⇒ `-1/0` -/
theorem rbig_zero_denominator_counterexample : ∃ q r, decQAsIs [1, 1, 0] = some (q, r) ∧ ¬ QReduced q :=
  decQAsIs_counterexample

/-- as-is: significand 12345, precision 2 is accepted -/
theorem fbig_precision_counterexample :
    ∃ v r, decFAsIs 10 [2, 0x39, 0x30, 0, 2] = some (v, r) ∧ ¬ FPCanon 10 v := decFAsIs_counterexample

/-- as-is: `+inf` (stored and serialized as `(0, 1)`) is read back as the number zero -/
theorem repr_infinity_counterexample : encR ⟨0, 1⟩ = [0, 2] ∧ decRAsIs 2 [0, 2] = some (⟨0, 0⟩, []) :=
  ⟨encR_infinity, decRAsIs_infinity⟩

-- ====================================================================== (3) human-readable medium

/-- a text of plain characters survives JSON quoting -/
theorem json_string_round_trip (s : Bytes) (h : ∀ c ∈ s, plainChar c) : jsonUnquote (jsonQuote s) = some s :=
  jsonUnquote_jsonQuote s h

theorem ubig_text_round_trip (n : Nat) : unjsonU (jsonU n) = some n := unjsonU_jsonU n

theorem ibig_text_round_trip (z : Int) : unjsonI (jsonI z) = some z := unjsonI_jsonI z

/-- RBig / Relaxed: `Display` (`n` or `n/d`) → JSON string → parser + reduction is the identity -/
theorem rbig_text_round_trip (q : QVal) (hq : QReduced q) : unjsonQ (jsonQ q) = some q := unjsonQ_jsonQ q hq

theorem relaxed_text_round_trip (q : QVal) (hq : QRelaxed q) : unjsonX (jsonQ q) = some q := unjsonX_jsonQ q hq

/-- Repr<B> (human-readable medium): `Display` → JSON string → `from_str_native` is the identity on every
    finite canonical representation, every base 2..36 (on top of C08's `display_parse_round_trip`;
    `Text.fmtRound` / `Text.fromStrNativeRaw` are the functions the driver runs) -/
theorem repr_text_round_trip (B : Nat) (hB : Text.validRadix B = true) (v : FVal) (hc : FCanon B v)
    (hfin : v.signif = 0 → v.exp = 0) : unjsonR B (jsonR B v) = some v := unjsonR_jsonR B hB v hc hfin

/-- FBig (human-readable medium): the representation comes back; the precision read back is the number
    of digits written (the text carries no precision — `TODO(next)` in float/src/third_party/serde.rs) -/
theorem fbig_text_round_trip (B : Nat) (hB : Text.validRadix B = true) (v : FVal) (hc : FCanon B v)
    (hfin : v.signif = 0 → v.exp = 0) : ∃ nd, unjsonF B (jsonR B v) = some ⟨v.signif, v.exp, nd⟩ :=
  unjsonF_jsonR B hB v hc hfin

example : Text.validRadix 10 = true ∧ FCanon 10 ⟨-1234, -2⟩ ∧ ((-1234 : Int) = 0 → (-2 : Int) = 0) := by
  refine ⟨by decide, ⟨by decide, by decide, by decide⟩, by decide⟩

/-- arbitrary text → RBig / Relaxed / Repr: canonical or an error -/
theorem rbig_text_decode_canonical (s : Bytes) (q : QVal) (h : unjsonQ s = some q) : QReduced q :=
  unjsonQ_canonical s q h

theorem relaxed_text_decode_canonical (s : Bytes) (q : QVal) (h : unjsonX s = some q) : QRelaxed q :=
  unjsonX_canonical s q h

theorem repr_text_decode_canonical (B : Nat) (hB : 2 ≤ B) (s : Bytes) (v : FVal) (h : unjsonR B s = some v) :
    FCanon B v := unjsonR_canonical B hB s v h

/-
  Infinities: `inf` / `-inf` are printed but not accepted by the parser (error; decided by the
  correspondence, `sd.rinf json`).
-/

-- ====================================================================== (2) log2 bounds, no_std build

/-- the table estimator of base/src/math/log.rs (`#[cfg(not(feature = "std"))]`): for every `u16`
    value above `0xff`, `log2_fp8(n)/256 ≤ log2 n ≤ ceil_log2_fp8(n)/256`, stated without logarithms.
    `log2Fp8` / `ceilLog2Fp8` are the functions `Model/Serde/Log2Cfg.lean` (the driver's no_std replica
    of `log2_bounds`) is built on; the correspondence op `lg.range` compares them with the real
    functions on all `u16` inputs in every no_std configuration. -/
theorem nostd_log2_table_sound (n : Nat) (h1 : 256 ≤ n) (h2 : n < 65536) :
    2 ^ Dashu.Model.NT.log2Fp8 n ≤ n ^ 256 ∧
    (n ≠ 2 ^ (Dashu.Model.NT.bitLen n - 1) → n ^ 256 ≤ 2 ^ Dashu.Model.NT.ceilLog2Fp8 n) :=
  Dashu.Model.NT.log2_fp8_sound n h1 h2

/-- the u8 path squares (or raises to the 4th power) before the lookup: the bound for the power is a
    bound for the value, e.g. `2^lb ≤ (x²)^256 = x^512` -/
theorem nostd_log2_u8_square (x : Nat) (h1 : 16 ≤ x) (h2 : x < 256) :
    2 ^ Dashu.Model.NT.log2Fp8 (x ^ 2) ≤ x ^ 512 := by
  have hlo : 256 ≤ x ^ 2 := by nlinarith
  have hhi : x ^ 2 < 65536 := by nlinarith
  have := (nostd_log2_table_sound (x ^ 2) hlo hhi).1
  rwa [← Nat.pow_mul] at this

end Dashu.Props.C19
