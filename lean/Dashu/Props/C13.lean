import Dashu.Proofs.NT.ModHom
import Dashu.Proofs.NT.ModPowLarge
import Dashu.Proofs.NT.ModContracts
import Dashu.Proofs.NT.ModKernels
import Dashu.Proofs.NT.ModInvLarge
import Dashu.Gen.Modular
import Mathlib.Order.Compare
/-
  C13 — Reduced-ring arithmetic is the homomorphic image of integer arithmetic.

  Property theorems only.  Every statement quantifies over all word sizes `W ≥ 1`, all moduli
  `m ≥ 1` (single-, double- and multi-word rings, with or without a normalisation shift), all
  integers `a b` of any sign and size and all exponents; nothing is bounded.  `res m a` is
  `Int.emod a m` as a natural number (`res_cast`).  The division primitives of num-modular and
  dashu's multi-word multiply/divide kernels enter as their exact contracts (`%`, `*`).

  Round 4: the word-level division kernels of `reduce` (`rem_word`, the two-step `rem_dword`,
  `fast_rem_by_normalized_(d)word`), of the single- and double-word `mul`/`sqr`, and `inv_large` (through
  C12's mirrored extended-gcd kernels) are mirrored in `Model/NT/ModKernels.lean`, `ModInvLarge.lean`,
  executed by the driver, and proved equal to the `%`-level definitions the theorems below are about
  (`reduce_kernels`, `mul_sqr_kernels`, `pow_kernels`, `inv_large_range`, `inv_large_mirror`, `inv_div_kernels`).
-/
namespace Dashu.Props.C13
open Dashu.Model Dashu.Model.NT

/-- `ConstDivisor::new(0)` panics, every other modulus gives a well-formed ring for that modulus. -/
theorem new_spec (W id m : Nat) (hW : 0 < W) :
    (m = 0 → Ring.new W id m = .error .divideByZero) ∧
    (m ≠ 0 → ∃ r, Ring.new W id m = .ok r ∧ r.m = m ∧ r.id = id ∧ r.WF W) := by
  constructor
  · intro h; simp [Ring.new, h]
  · intro h
    obtain ⟨r, hr, h1, h2⟩ := Ring.new_ok (W := W) (id := id) h
    exact ⟨r, hr, h1, h2, Ring.new_wf hW hr⟩

/-- `ConstDivisor::reduce` (UBig, IBig and primitive inputs, negative inputs): the stored value is
    `Valid` (a residue `< m` pre-shifted by `k`), `residue` is `a mod m` (`Int.emod`) and
    `modulus` is `m`. -/
theorem reduce_spec (W : Nat) (r : Ring) (hwf : r.WF W) (a : Int) :
    Valid r (reduceInt W r a).raw ∧
    ((reduceInt W r a).residue : Int) = a % (r.m : Int) ∧
    (reduceInt W r a).residue < r.m ∧
    (reduceInt W r a).modulus = r.m ∧ (reduceInt W r a).ring = r := by
  have hm := hwf.mpos
  have hraw := reduceInt_raw hwf a
  have hring : (reduceInt W r a).ring = r := by unfold reduceInt; simp only []; split <;> rfl
  have hres : (reduceInt W r a).residue = res r.m a := by
    unfold Elem.residue; rw [hring, hraw, Nat.mul_div_cancel _ (Nat.two_pow_pos _)]
  refine ⟨?_, ?_, ?_, ?_, hring⟩
  · rw [hraw]; exact valid_of_lt (res_lt hm a)
  · rw [hres]; exact res_cast hm a
  · rw [hres]; exact res_lt hm a
  · unfold Elem.modulus; rw [hring]; simp [Ring.M, Nat.mul_div_cancel _ (Nat.two_pow_pos _)]

/-- closure: `+ − · neg dbl sqr` map `Valid` elements of one ring to `Valid` elements whose residue
    is the corresponding operation on residues modulo `m`. -/
theorem ops_closed (W : Nat) (r : Ring) (hwf : r.WF W) (x y : Nat) (hx : Valid r x) (hy : Valid r y) :
    (∃ e, (⟨r, x⟩ : Elem).add ⟨r, y⟩ = .ok e ∧ e.ring = r ∧ Valid r e.raw ∧
        e.residue = ((⟨r, x⟩ : Elem).residue + (⟨r, y⟩ : Elem).residue) % r.m) ∧
    (∃ e, (⟨r, x⟩ : Elem).sub ⟨r, y⟩ = .ok e ∧ e.ring = r ∧ Valid r e.raw ∧
        (e.residue + (⟨r, y⟩ : Elem).residue) % r.m = (⟨r, x⟩ : Elem).residue) ∧
    (∃ e, (⟨r, x⟩ : Elem).mul W ⟨r, y⟩ = .ok e ∧ e.ring = r ∧ Valid r e.raw ∧
        e.residue = ((⟨r, x⟩ : Elem).residue * (⟨r, y⟩ : Elem).residue) % r.m) ∧
    (Valid r (⟨r, x⟩ : Elem).neg.raw ∧
        ((⟨r, x⟩ : Elem).neg.residue + (⟨r, x⟩ : Elem).residue) % r.m = 0) ∧
    (Valid r (⟨r, x⟩ : Elem).dbl.raw ∧
        (⟨r, x⟩ : Elem).dbl.residue = (2 * (⟨r, x⟩ : Elem).residue) % r.m) ∧
    (Valid r ((⟨r, x⟩ : Elem).sqr W).raw ∧
        ((⟨r, x⟩ : Elem).sqr W).residue = ((⟨r, x⟩ : Elem).residue * (⟨r, x⟩ : Elem).residue) % r.m) := by
  obtain ⟨u, hu, rfl⟩ := hx
  obtain ⟨v, hv, rfl⟩ := hy
  have hm := hwf.mpos
  simp only [Elem.add, Elem.sub, Elem.mul, Elem.neg, Elem.dbl, Elem.sqr, sameRing, decide_true, if_true,
    residue_of_raw]
  refine ⟨⟨_, rfl, rfl, ?_, ?_⟩, ⟨_, rfl, rfl, ?_, ?_⟩, ⟨_, rfl, rfl, ?_, ?_⟩, ⟨?_, ?_⟩, ⟨?_, ?_⟩, ⟨?_, ?_⟩⟩
  · rw [addRaw_eq hu hv]; exact valid_of_lt (Nat.mod_lt _ hm)
  · rw [addRaw_eq hu hv, residue_of_raw]
  · rw [subRaw_eq hu hv]; exact valid_of_lt (Nat.mod_lt _ hm)
  · rw [subRaw_eq hu hv, residue_of_raw, Nat.mod_add_mod]
    have : u + (r.m - v) + v = u + r.m := by omega
    rw [this, Nat.add_mod_right, Nat.mod_eq_of_lt hu]
  · rw [mulRaw_eq hwf hu hv]; exact valid_of_lt (Nat.mod_lt _ hm)
  · rw [mulRaw_eq hwf hu hv, residue_of_raw]
  · rw [negRaw_eq hu]; exact valid_of_lt (Nat.mod_lt _ hm)
  · rw [negRaw_eq hu, residue_of_raw, Nat.mod_add_mod]
    have : r.m - u + u = r.m := by omega
    rw [this, Nat.mod_self]
  · rw [addRaw_eq hu hu]; exact valid_of_lt (Nat.mod_lt _ hm)
  · rw [addRaw_eq hu hu, residue_of_raw]; congr 1; omega
  · rw [sqrRaw_eq hwf hu]; exact valid_of_lt (Nat.mod_lt _ hm)
  · rw [sqrRaw_eq hwf hu, residue_of_raw]

/-- homomorphism: reducing then operating equals operating then reducing, for all integers. -/
theorem hom_add (W : Nat) (r : Ring) (hwf : r.WF W) (a b : Int) :
    ∃ e, (reduceInt W r a).add (reduceInt W r b) = .ok e ∧ Valid r e.raw ∧
      (e.residue : Int) = (a + b) % (r.m : Int) := by
  have hm := hwf.mpos
  have ha := reduceInt_raw hwf a; have hb := reduceInt_raw hwf b
  have hra := (Dashu.Props.C13.reduce_spec W r hwf a).2.2.2.2
  have hrb := (Dashu.Props.C13.reduce_spec W r hwf b).2.2.2.2
  refine ⟨⟨r, addRaw r (reduceInt W r a).raw (reduceInt W r b).raw⟩, ?_, ?_, ?_⟩
  · simp [Elem.add, sameRing, hra, hrb]
  · simp only []; rw [ha, hb, addRaw_eq (res_lt hm a) (res_lt hm b)]; exact valid_of_lt (Nat.mod_lt _ hm)
  · rw [ha, hb, addRaw_eq (res_lt hm a) (res_lt hm b), residue_of_raw,
      mod_eq_res hm _ (y := a + b) (by push_cast; exact Int.ModEq.add (res_modEq hm a) (res_modEq hm b))]
    exact res_cast hm _

theorem hom_sub (W : Nat) (r : Ring) (hwf : r.WF W) (a b : Int) :
    ∃ e, (reduceInt W r a).sub (reduceInt W r b) = .ok e ∧ Valid r e.raw ∧
      (e.residue : Int) = (a - b) % (r.m : Int) := by
  have hm := hwf.mpos
  have ha := reduceInt_raw hwf a; have hb := reduceInt_raw hwf b
  have hra := (Dashu.Props.C13.reduce_spec W r hwf a).2.2.2.2
  have hrb := (Dashu.Props.C13.reduce_spec W r hwf b).2.2.2.2
  refine ⟨⟨r, subRaw r (reduceInt W r a).raw (reduceInt W r b).raw⟩, ?_, ?_, ?_⟩
  · simp [Elem.sub, sameRing, hra, hrb]
  · simp only []; rw [ha, hb, subRaw_eq (res_lt hm a) (res_lt hm b)]; exact valid_of_lt (Nat.mod_lt _ hm)
  · rw [ha, hb, subRaw_eq (res_lt hm a) (res_lt hm b), residue_of_raw,
      mod_eq_res hm _ (y := a - b) (by
        have hle : res r.m b ≤ r.m := Nat.le_of_lt (res_lt hm b)
        push_cast [Nat.cast_sub hle]
        have h1 : ((res r.m a : Nat) : Int) + ((r.m : Int) - (res r.m b : Nat)) ≡ a + (0 - b) [ZMOD r.m] :=
          Int.ModEq.add (res_modEq hm a) (Int.ModEq.sub (by simpa using Int.emod_self) (res_modEq hm b))
        simpa [sub_eq_add_neg] using h1)]
    exact res_cast hm _

theorem hom_mul (W : Nat) (r : Ring) (hwf : r.WF W) (a b : Int) :
    ∃ e, (reduceInt W r a).mul W (reduceInt W r b) = .ok e ∧ Valid r e.raw ∧
      (e.residue : Int) = (a * b) % (r.m : Int) := by
  have hm := hwf.mpos
  have ha := reduceInt_raw hwf a; have hb := reduceInt_raw hwf b
  have hra := (Dashu.Props.C13.reduce_spec W r hwf a).2.2.2.2
  have hrb := (Dashu.Props.C13.reduce_spec W r hwf b).2.2.2.2
  refine ⟨⟨r, mulRaw W r (reduceInt W r a).raw (reduceInt W r b).raw⟩, ?_, ?_, ?_⟩
  · simp [Elem.mul, sameRing, hra, hrb]
  · simp only []; rw [ha, hb, mulRaw_eq hwf (res_lt hm a) (res_lt hm b)]; exact valid_of_lt (Nat.mod_lt _ hm)
  · rw [ha, hb, mulRaw_eq hwf (res_lt hm a) (res_lt hm b), residue_of_raw,
      mod_eq_res hm _ (y := a * b) (by push_cast; exact Int.ModEq.mul (res_modEq hm a) (res_modEq hm b))]
    exact res_cast hm _

theorem hom_neg (W : Nat) (r : Ring) (hwf : r.WF W) (a : Int) :
    Valid r (reduceInt W r a).neg.raw ∧ ((reduceInt W r a).neg.residue : Int) = (-a) % (r.m : Int) := by
  have hm := hwf.mpos
  have ha := reduceInt_raw hwf a
  have hra := (Dashu.Props.C13.reduce_spec W r hwf a).2.2.2.2
  have hneg : (reduceInt W r a).neg = ⟨r, ((r.m - res r.m a) % r.m) * 2 ^ r.k⟩ := by
    unfold Elem.neg; rw [hra, ha, negRaw_eq (res_lt hm a)]
  rw [hneg]
  refine ⟨valid_of_lt (Nat.mod_lt _ hm), ?_⟩
  rw [residue_of_raw, mod_eq_res hm _ (y := -a) (by
      have hle : res r.m a ≤ r.m := Nat.le_of_lt (res_lt hm a)
      push_cast [Nat.cast_sub hle]
      have h1 : (r.m : Int) - (res r.m a : Nat) ≡ 0 - a [ZMOD r.m] :=
        Int.ModEq.sub (by simpa using Int.emod_self) (res_modEq hm a)
      simpa using h1)]
  exact res_cast hm _

theorem hom_dbl (W : Nat) (r : Ring) (hwf : r.WF W) (a : Int) :
    Valid r (reduceInt W r a).dbl.raw ∧ ((reduceInt W r a).dbl.residue : Int) = (2 * a) % (r.m : Int) := by
  have hm := hwf.mpos
  have ha := reduceInt_raw hwf a
  have hra := (Dashu.Props.C13.reduce_spec W r hwf a).2.2.2.2
  have hd : (reduceInt W r a).dbl = ⟨r, ((res r.m a + res r.m a) % r.m) * 2 ^ r.k⟩ := by
    unfold Elem.dbl; rw [hra, ha, addRaw_eq (res_lt hm a) (res_lt hm a)]
  rw [hd]
  refine ⟨valid_of_lt (Nat.mod_lt _ hm), ?_⟩
  rw [residue_of_raw, mod_eq_res hm _ (y := 2 * a) (by
      push_cast
      have := Int.ModEq.add (res_modEq hm a) (res_modEq hm a)
      rwa [← two_mul a] at this)]
  exact res_cast hm _

theorem hom_sqr (W : Nat) (r : Ring) (hwf : r.WF W) (a : Int) :
    Valid r ((reduceInt W r a).sqr W).raw ∧
      (((reduceInt W r a).sqr W).residue : Int) = (a * a) % (r.m : Int) := by
  have hm := hwf.mpos
  have ha := reduceInt_raw hwf a
  have hra := (Dashu.Props.C13.reduce_spec W r hwf a).2.2.2.2
  have hd : (reduceInt W r a).sqr W = ⟨r, ((res r.m a * res r.m a) % r.m) * 2 ^ r.k⟩ := by
    unfold Elem.sqr; rw [hra, ha, sqrRaw_eq hwf (res_lt hm a)]
  rw [hd]
  refine ⟨valid_of_lt (Nat.mod_lt _ hm), ?_⟩
  rw [residue_of_raw, mod_eq_res hm _ (y := a * a) (by
      push_cast; exact Int.ModEq.mul (res_modEq hm a) (res_modEq hm a))]
  exact res_cast hm _

/-- `pow`: `a^e mod m` for **every** exponent `e` (any number of words) in every ring — single- and
    double-word rings by square-and-multiply over the words of `e` (`pow_word`, `pow_helper`),
    multi-word rings by the windowed loop of `large::pow_nontrivial` (table of odd powers, window
    length from `choose_pow_window_len`); `m = 1` included (`pow(0)` is `0`, the only residue). -/
theorem hom_pow (W : Nat) (r : Ring) (hwf : r.WF W) (a : Int) (e : Nat) :
    Valid r ((reduceInt W r a).pow W e).raw ∧
      (((reduceInt W r a).pow W e).residue : Int) = (a ^ e) % (r.m : Int) := by
  have hm := hwf.mpos
  have ha := reduceInt_raw hwf a
  have hra := (Dashu.Props.C13.reduce_spec W r hwf a).2.2.2.2
  have hd : (reduceInt W r a).pow W e = ⟨r, ((res r.m a ^ e) % r.m) * 2 ^ r.k⟩ := by
    unfold Elem.pow powRaw; rw [hra, ha]
    cases hkk : r.kind with
    | large => simp only []; rw [powL_eq hwf (res_lt hm a)]
    | single => simp only []; rw [powSD_eq hwf (res_lt hm a)]
    | double => simp only []; rw [powSD_eq hwf (res_lt hm a)]
  rw [hd]
  refine ⟨valid_of_lt (Nat.mod_lt _ hm), ?_⟩
  rw [residue_of_raw, mod_eq_res hm _ (y := a ^ e) (by
      push_cast; exact Int.ModEq.pow e (res_modEq hm a))]
  exact res_cast hm _

/-- non-vacuity: a 3-word modulus gives a well-formed multi-word ring (the hypothesis of `hom_pow`),
    and a small instance of the windowed loop evaluates to the expected residue -/
example : ∃ r, Ring.new 64 0 (2 ^ 190 + 7) = .ok r ∧ r.kind = .large ∧ r.WF 64 ∧
    ((reduceInt 64 r 3).pow 64 21).residue = 3 ^ 21 % (2 ^ 190 + 7) :=
  ⟨_, rfl, rfl, Ring.new_wf (id := 0) (m := 2 ^ 190 + 7) (by decide) rfl, by decide +kernel⟩

/-- `inv`: `Some(x)` exactly when `gcd(a, m) = 1`, and then `x` is `Valid` with `a·x ≡ 1 (mod m)`. -/
theorem inv_spec (W : Nat) (r : Ring) (hwf : r.WF W) (a : Int) :
    (((reduceInt W r a).inv).isSome ↔ Nat.gcd (res r.m a) r.m = 1) ∧
    (∀ i, (reduceInt W r a).inv = some i →
        i.ring = r ∧ Valid r i.raw ∧ (i.residue * res r.m a) % r.m = 1 % r.m) := by
  have hm := hwf.mpos
  have ha := reduceInt_raw hwf a
  have hra := (Dashu.Props.C13.reduce_spec W r hwf a).2.2.2.2
  obtain ⟨hsome, hiff⟩ := invm_spec (x := res r.m a) hm
  have hinv : (reduceInt W r a).inv = (invm (res r.m a) r.m).map (fun t => (⟨r, t * 2 ^ r.k⟩ : Elem)) := by
    unfold Elem.inv invRaw
    rw [hra, ha, Nat.mul_div_cancel _ (Nat.two_pow_pos _)]
    cases hk : r.kind with
    | large =>
      simp only []
      split
      · rename_i h0
        -- residue 0 in a multi-word ring: not coprime, `invm` says `none` as well
        have hg : ¬ Nat.gcd (res r.m a) r.m = 1 := by
          rw [h0, Nat.gcd_zero_left]
          have := hwf.m_large hk
          have : 1 < 2 ^ (2 * W) := Nat.one_lt_two_pow (by have := hwf.hW; omega)
          omega
        have : (invm (res r.m a) r.m).isSome = false := by
          cases h : (invm (res r.m a) r.m).isSome
          · rfl
          · exact absurd (hiff.1 h) hg
        cases hh : invm (res r.m a) r.m with
        | none => rfl
        | some t => rw [hh] at this; simp at this
      · cases invm (res r.m a) r.m <;> rfl
    | single => simp only []; cases invm (res r.m a) r.m <;> rfl
    | double => simp only []; cases invm (res r.m a) r.m <;> rfl
  rw [hinv]
  constructor
  · rw [← hiff]; cases invm (res r.m a) r.m <;> simp
  · intro i hi
    cases ht : invm (res r.m a) r.m with
    | none => rw [ht] at hi; simp at hi
    | some t =>
      rw [ht] at hi; simp at hi; subst hi
      obtain ⟨h1, h2⟩ := hsome t ht
      exact ⟨rfl, valid_of_lt h2, by rw [residue_of_raw]; exact h1⟩

/-- `/` is multiplication by the inverse: panics `NonInvertible` exactly when `gcd(b, m) ≠ 1`,
    otherwise the quotient `q` is `Valid` and `q·b ≡ a (mod m)`. -/
theorem div_spec (W : Nat) (r : Ring) (hwf : r.WF W) (a b : Int) :
    (Nat.gcd (res r.m b) r.m ≠ 1 → (reduceInt W r a).div W (reduceInt W r b) = .error .nonInvertible) ∧
    (Nat.gcd (res r.m b) r.m = 1 → ∃ q, (reduceInt W r a).div W (reduceInt W r b) = .ok q ∧
        Valid r q.raw ∧ (q.residue * res r.m b) % r.m = res r.m a) := by
  have hm := hwf.mpos
  obtain ⟨hiff, hsome⟩ := Dashu.Props.C13.inv_spec W r hwf b
  have ha := reduceInt_raw hwf a
  have hra := (Dashu.Props.C13.reduce_spec W r hwf a).2.2.2.2
  constructor
  · intro hg
    unfold Elem.div
    cases hi : (reduceInt W r b).inv with
    | none => rfl
    | some i => rw [hi] at hiff; exact absurd (hiff.1 rfl) hg
  · intro hg
    unfold Elem.div
    cases hi : (reduceInt W r b).inv with
    | none => rw [hi] at hiff; have := hiff.2 hg; simp at this
    | some i =>
      obtain ⟨h1, ⟨t, ht, hraw⟩, h3⟩ := hsome i hi
      simp only []
      have hmul : (reduceInt W r a).mul W i = .ok ⟨r, ((res r.m a * t) % r.m) * 2 ^ r.k⟩ := by
        unfold Elem.mul sameRing
        rw [hra, h1, ha, hraw, mulRaw_eq hwf (res_lt hm a) ht]; simp
      refine ⟨_, hmul, valid_of_lt (Nat.mod_lt _ hm), ?_⟩
      have hires : i.residue = t := by
        unfold Elem.residue; rw [h1, hraw, Nat.mul_div_cancel _ (Nat.two_pow_pos _)]
      rw [hires] at h3
      rw [residue_of_raw, Nat.mod_mul_mod, Nat.mul_assoc, Nat.mul_mod, h3, ← Nat.mul_mod, Nat.mul_one,
        Nat.mod_eq_of_lt (res_lt hm a)]

/-- mixing elements of different `ConstDivisor` instances panics — also when the moduli are equal
    (identity is the instance, `ptr::eq`). -/
theorem different_rings (W : Nat) (a b : Elem) (h : a.ring ≠ b.ring) :
    a.add b = .error .differentRings ∧ a.sub b = .error .differentRings ∧
    a.mul W b = .error .differentRings ∧ a.beq b = .error .differentRings ∧
    (a.div W b = .error .differentRings ∨ a.div W b = .error .nonInvertible) := by
  have hs : sameRing a b = false := by simp [sameRing, h]
  refine ⟨by simp [Elem.add, hs], by simp [Elem.sub, hs], by simp [Elem.mul, hs], by simp [Elem.beq, hs], ?_⟩
  unfold Elem.div
  cases hi : b.inv with
  | none => right; rfl
  | some i =>
    left
    have : i.ring = b.ring := by
      unfold Elem.inv at hi
      cases hh : invRaw b.ring b.raw with
      | none => rw [hh] at hi; simp at hi
      | some t => rw [hh] at hi; simp at hi; subst hi; rfl
    simp [Elem.mul, sameRing, this, h]

theorem different_instances_same_modulus (W m : Nat) (hm : m ≠ 0) :
    ∀ r1 r2, Ring.new W 1 m = .ok r1 → Ring.new W 2 m = .ok r2 → r1 ≠ r2 := by
  intro r1 r2 h1 h2 he
  have := (Ring.new_m h1).2; have := (Ring.new_m h2).2
  subst he; omega

/-- `PartialEq for Reduced`: two reduced integers compare equal exactly when they are congruent mod `m`. -/
theorem eq_spec (W : Nat) (r : Ring) (hwf : r.WF W) (a b : Int) :
    (reduceInt W r a).beq (reduceInt W r b) = .ok (decide (a % (r.m : Int) = b % (r.m : Int))) := by
  have hm := hwf.mpos
  have ha := reduceInt_raw hwf a; have hb := reduceInt_raw hwf b
  have hra := (Dashu.Props.C13.reduce_spec W r hwf a).2.2.2.2
  have hrb := (Dashu.Props.C13.reduce_spec W r hwf b).2.2.2.2
  have hp : 0 < 2 ^ r.k := Nat.two_pow_pos _
  unfold Elem.beq sameRing
  rw [hra, hrb, ha, hb]
  simp only [decide_true, if_true]
  congr 1
  rw [Bool.eq_iff_iff]
  simp only [beq_iff_eq, decide_eq_true_eq]
  rw [← res_cast hm a, ← res_cast hm b]
  constructor
  · intro h
    have := Nat.eq_of_mul_eq_mul_right hp h
    rw [this]
  · intro h
    have : res r.m a = res r.m b := by exact_mod_cast h
    rw [this]

-- ---------------------------------------------------------------- the division primitives behind `%`

/-- single-word rings: at the arguments dashu passes (`rem_word` with a shift, `mul`, `sqr`), num-modular's
    `div_rem_2by1` — mirrored and proved by C02 (`Dashu.Model.NumModular`, Möller–Granlund Algorithm 4) — is
    called inside its precondition `high word < divisor` and returns exactly the `%` the ring model uses -/
theorem single_word_division_contracts (W : Nat) (r : Ring) (hwf : r.WF W) (hn : r.n = 1) :
    (∀ x, x < 2 ^ W →
        (NumModular.div2by1 W r.M (NumModular.invertWord W r.M) (x * 2 ^ r.k)).2 = (x * 2 ^ r.k) % r.M) ∧
    (∀ u v, u < r.m → v < r.m →
        (NumModular.div2by1 W r.M (NumModular.invertWord W r.M) ((u * 2 ^ r.k) / 2 ^ r.k * (v * 2 ^ r.k))).2
          = ((u * 2 ^ r.k) / 2 ^ r.k * (v * 2 ^ r.k)) % r.M) ∧
    (∀ u, u < r.m →
        (NumModular.div2by1 W r.M (NumModular.invertWord W r.M) ((u * 2 ^ r.k) * (u * 2 ^ r.k) / 2 ^ r.k)).2
          = ((u * 2 ^ r.k) * (u * 2 ^ r.k) / 2 ^ r.k) % r.M) :=
  single_ring_calls hwf hn

/-- double-word rings: `mul` and `sqr` call `div_rem_4by2(lo, hi)` (two Algorithm-5 steps) with `hi < M` -/
theorem double_word_division_contracts (W : Nat) (r : Ring) (hwf : r.WF W) (hn : r.n = 2) :
    (∀ u v, u < r.m → v < r.m →
        let p := (u * 2 ^ r.k) / 2 ^ r.k * (v * 2 ^ r.k)
        (NumModular.div4by2 W r.M (NumModular.invertDoubleWord W r.M) (p % 2 ^ (2 * W)) (p / 2 ^ (2 * W))).2
          = p % r.M) ∧
    (∀ u, u < r.m →
        let p := (u * 2 ^ r.k) * (u * 2 ^ r.k) / 2 ^ r.k
        (NumModular.div4by2 W r.M (NumModular.invertDoubleWord W r.M) (p % 2 ^ (2 * W)) (p / 2 ^ (2 * W))).2
          = p % r.M) :=
  double_ring_calls hwf hn

/-- non-vacuity: rings of one and two words exist (with and without a shift) -/
example : (∃ r, Ring.new 64 0 1000003 = .ok r ∧ r.n = 1 ∧ r.k = 44) ∧
    (∃ r, Ring.new 64 0 (2 ^ 127 + 5) = .ok r ∧ r.n = 2 ∧ r.k = 0) :=
  ⟨⟨_, rfl, rfl, by decide⟩, ⟨_, rfl, rfl, by decide⟩⟩

/-- non-vacuity of `ops_closed`: two valid pre-shifted elements of a 3-word ring with shift 3 -/
example : ∃ r, Ring.new 64 0 (2 ^ 188 + 12345) = .ok r ∧ Valid r (7 * 2 ^ r.k) ∧ Valid r ((2 ^ 188) * 2 ^ r.k) :=
  ⟨_, rfl, by decide, by decide⟩

-- ---------------------------------------------------------------- the Reducer<UBig> impl

/-- `Reducer::add/dbl/sub/neg` on checked operands stay checked and compute the ring operation. -/
theorem reducer_ops (W : Nat) (r : Ring) (hwf : r.WF W) (x y : Nat) (hx : Valid r x) (hy : Valid r y) :
    (Valid r (rAdd r x y) ∧ rAdd r x y / 2 ^ r.k = (x / 2 ^ r.k + y / 2 ^ r.k) % r.m) ∧
    (Valid r (rSub r x y) ∧ (rSub r x y / 2 ^ r.k + y / 2 ^ r.k) % r.m = x / 2 ^ r.k) ∧
    (Valid r (rNeg r x) ∧ (rNeg r x / 2 ^ r.k + x / 2 ^ r.k) % r.m = 0) := by
  obtain ⟨u, hu, rfl⟩ := hx
  obtain ⟨v, hv, rfl⟩ := hy
  have hm := hwf.mpos
  have hp : 0 < 2 ^ r.k := Nat.two_pow_pos _
  have hadd : rAdd r (u * 2 ^ r.k) (v * 2 ^ r.k) = addRaw r (u * 2 ^ r.k) (v * 2 ^ r.k) := by
    unfold rAdd reduceOnce rCheck addRaw
    have h0 : (u * 2 ^ r.k + v * 2 ^ r.k) % 2 ^ r.k = 0 := by rw [← Nat.add_mul, Nat.mul_mod_left]
    by_cases h : u * 2 ^ r.k + v * 2 ^ r.k < r.M
    · simp [h, h0]
    · simp [h]
  have hsub : rSub r (u * 2 ^ r.k) (v * 2 ^ r.k) = subRaw r (u * 2 ^ r.k) (v * 2 ^ r.k) := rfl
  have hneg : rNeg r (u * 2 ^ r.k) = negRaw r (u * 2 ^ r.k) := rfl
  rw [hadd, hsub, hneg, addRaw_eq hu hv, subRaw_eq hu hv, negRaw_eq hu]
  simp only [Nat.mul_div_cancel _ hp]
  refine ⟨⟨valid_of_lt (Nat.mod_lt _ hm), trivial⟩, ⟨valid_of_lt (Nat.mod_lt _ hm), ?_⟩,
    ⟨valid_of_lt (Nat.mod_lt _ hm), ?_⟩⟩
  · rw [Nat.mod_add_mod]
    have : u + (r.m - v) + v = u + r.m := by omega
    rw [this, Nat.add_mod_right, Nat.mod_eq_of_lt hu]
  · rw [Nat.mod_add_mod]
    have : r.m - u + u = r.m := by omega
    rw [this, Nat.mod_self]

-- ---------------------------------------------------------------- non-vacuity and regression theorems

/-- a 3-word modulus with a 3-bit normalisation shift and a negative operand meet the hypotheses -/
example : ∃ r, Ring.new 64 0 (2 ^ 188 + 12345) = .ok r ∧ r.kind = .large ∧ r.k = 3 ∧ r.n = 3 ∧
    (reduceInt 64 r (-5)).residue = 2 ^ 188 + 12340 := by
  refine ⟨_, rfl, rfl, by decide, by decide, by decide⟩

/-- REGRESSION (pow in the ring with one element, fixed in /repo d3d05f5): `ReducedWord::one` used to be
    `1 << shift`, which for `m = 1` is the normalised divisor itself — not `Valid`; residue `1`, not `0`. -/
theorem one_asIs_counterexample :
    ∃ r, Ring.new 64 0 1 = .ok r ∧ ¬ Valid r (oneRawAsIs r) ∧ oneRawAsIs r / 2 ^ r.k = 1 ∧
      Valid r (oneRaw r) := by
  refine ⟨_, rfl, by decide, by decide, by decide⟩

/-- REGRESSION (`Reducer::add`/`dbl` on multi-word rings, fixed in /repo 1b55f20): `check` used to accept
    `target == M` (`is_le`), so a sum that is exactly the normalised modulus was returned unreduced. -/
theorem reducer_add_asIs_counterexample :
    ∃ r, Ring.new 64 0 (2 ^ 188) = .ok r ∧
      rAddAsIs 64 r (1 * 2 ^ r.k) ((2 ^ 188 - 1) * 2 ^ r.k) = r.M ∧
      ¬ Valid r (rAddAsIs 64 r (1 * 2 ^ r.k) ((2 ^ 188 - 1) * 2 ^ r.k)) ∧
      rAdd r (1 * 2 ^ r.k) ((2 ^ 188 - 1) * 2 ^ r.k) = 0 := by
  refine ⟨_, rfl, by decide, by decide, by decide⟩

-- ---------------------------------------------------------------- round 4: the kernels behind `%`, mirrored

/-- `div::fast_rem_by_normalized_word` (top word by `div_rem_1by1`, every lower word by the mirrored
    Möller–Granlund `div_rem_2by1`) returns the remainder of the whole number — any number of words,
    any normalised word divisor. -/
theorem fast_rem_by_normalized_word (W d : Nat) (hW : 1 ≤ W) (hd1 : 2 ^ W ≤ 2 * d) (hd2 : d < 2 ^ W)
    (ws : List Nat) (hne : ws ≠ []) (hws : IsWords W ws) :
    fastRemByNormalizedWord W d (NumModular.invertWord W d) ws = val W ws % d :=
  fastRemByNormalizedWord_spec W d hW hd1 hd2 ws hne hws

/-- `div::fast_rem_by_normalized_dword` (top double word by `div_rem_2by2`, lower pairs by the mirrored
    `div_rem_4by2`, a left-over word by `div_rem_3by2`) returns the remainder of the whole number. -/
theorem fast_rem_by_normalized_dword (W d : Nat) (hW : 1 ≤ W) (hd1 : 2 ^ (2 * W) ≤ 2 * d)
    (hd2 : d < 2 ^ (2 * W)) (ws : List Nat) (hlen : 2 ≤ ws.length) (hws : IsWords W ws) :
    fastRemByNormalizedDword W d (NumModular.invertDoubleWord W d) ws = val W ws % d :=
  fastRemByNormalizedDword_spec W d hW hd1 hd2 ws hlen hws

/-- non-vacuity: a normalised 64-bit divisor and a 5-word number (odd count: 3by2 tail), evaluated -/
example : fastRemByNormalizedWord 64 (2 ^ 63 + 12345) (NumModular.invertWord 64 (2 ^ 63 + 12345))
      (natWords 64 (3 ^ 190)) = 3 ^ 190 % (2 ^ 63 + 12345) ∧
    fastRemByNormalizedDword 64 (2 ^ 127 + 99) (NumModular.invertDoubleWord 64 (2 ^ 127 + 99))
      (natWords 64 (3 ^ 190)) = 3 ^ 190 % (2 ^ 127 + 99) ∧ (natWords 64 (3 ^ 190)).length = 5 := by
  refine ⟨by decide +kernel, by decide +kernel, by decide +kernel⟩

/-- **`ConstDivisor::reduce` as the code runs it** (what the driver executes): `rem_word`, the two-step
    `rem_dword` through `shl_dword`, `rem_large` = `fast_rem_by_normalized_(d)word` + the final shift step,
    all through num-modular's mirrored reciprocal dividers, store exactly what the `%`-level model
    stores — for every ring `ConstDivisor::new` builds, every natural and every integer.  Hence every
    theorem above about `reduceInt` is a theorem about `reduceIntK`. -/
theorem reduce_kernels (W id m : Nat) (hW : 0 < W) (r : Ring) (hnew : Ring.new W id m = .ok r) :
    (∀ x : Nat, rawOfNatK W r x = rawOfNat W r x) ∧ (∀ a : Int, reduceIntK W r a = reduceInt W r a) :=
  ⟨rawOfNatK_eq hW hnew, reduceIntK_eq hW hnew⟩

/-- `PreMulInv2by1::{mul,sqr}` / `PreMulInv3by2::{mul,sqr}` through the mirrored `div_rem_2by1 / 4by2`
    (what the driver executes for `*` and `sqr`) = the `%`-level product on valid operands. -/
theorem mul_sqr_kernels (W : Nat) (r : Ring) (hwf : r.WF W) (x y : Nat) (hx : Valid r x) (hy : Valid r y) :
    mulRawK W r x y = mulRaw W r x y ∧ sqrRawK W r x = sqrRaw W r x := by
  obtain ⟨u, hu, rfl⟩ := hx
  obtain ⟨v, hv, rfl⟩ := hy
  exact ⟨mulRawK_eq hwf hu hv, sqrRawK_eq hwf hu⟩

/-- `pow` as the driver executes it (single- and double-word rings: every `sqr` / `mul` of `pow_word` /
    `pow_helper` through the mirrored `div_rem_2by1 / 4by2`; multi-word rings: the windowed loop) is
    the `pow` of `hom_pow`. -/
theorem pow_kernels (W id m : Nat) (hW : 0 < W) (r : Ring) (hnew : Ring.new W id m = .ok r) (a : Int) (e : Nat) :
    (reduceIntK W r a).powK W e = (reduceInt W r a).pow W e := by
  have hwf := Ring.new_wf hW hnew
  have ha := reduceInt_raw hwf a
  have hra := (Dashu.Props.C13.reduce_spec W r hwf a).2.2.2.2
  rw [reduceIntK_eq hW hnew]
  unfold Elem.powK Elem.pow
  rw [hra, ha, powRawK_eq hwf (res_lt hwf.mpos a)]

/-- **the range claim of `inv_large`** (`debug_assert!(inv.is_valid(ring))`): for `0 < rhs < lhs` the
    cofactor magnitude `|b|` that `gcd::gcd_ext_in_place` (Lehmer, C12's mirror) and
    `gcd::gcd_ext_word/_dword` leave in the `lhs` buffer is `< lhs`. -/
theorem inv_large_range (W : Nat) (hW : 0 < W) (lhs rhs : Nat) (h0 : 0 < rhs) (hlt : rhs < lhs) :
    (∀ res, lehmerExt W lhs rhs = .ok res → res.2.1 < lhs) ∧
    (∀ g a bMag bNeg, gcdExtSmall W lhs rhs = .ok (g, a, bMag, bNeg) → bMag < lhs) :=
  ⟨fun res h => lehmerExt_range W hW lhs rhs h0 hlt res h,
   fun _ _ _ _ h => gcdExtSmall_range W h0 hlt h⟩

/-- **`inv_large` is a corollary of C12's `lehmer_gcd_ext_correct` + the range claim**: on every valid
    element of a multi-word ring the mirrored `inv_large` never fails and returns what `inv_spec` is
    about. -/
theorem inv_large_mirror (W : Nat) (r : Ring) (hwf : r.WF W) (hk : r.kind = .large) (x : Nat)
    (hx : Valid r x) : invLarge W r x = .ok (invRaw r x) := by
  obtain ⟨u, hu, rfl⟩ := hx
  exact invLarge_eq hwf hk hu

/-- `inv` and `/` as the driver executes them (mirrored reduce, mirrored `inv_large`, mirrored
    single- and double-word product) are the `inv` and `/` of `inv_spec` / `div_spec`. -/
theorem inv_div_kernels (W id m : Nat) (hW : 0 < W) (r : Ring) (hnew : Ring.new W id m = .ok r) (a b : Int) :
    (reduceIntK W r a).invK W = .ok ((reduceInt W r a).inv) ∧
    (reduceIntK W r a).divK W (reduceIntK W r b) = (reduceInt W r a).div W (reduceInt W r b) := by
  have hwf := Ring.new_wf hW hnew
  have hm := hwf.mpos
  have hinvK : ∀ c : Int, (reduceInt W r c).invK W = .ok ((reduceInt W r c).inv) := by
    intro c
    have hc := reduceInt_raw hwf c
    have hrc := (Dashu.Props.C13.reduce_spec W r hwf c).2.2.2.2
    unfold Elem.invK Elem.inv
    rw [hrc, hc, invRawK_eq hwf (res_lt hm c)]
  rw [reduceIntK_eq hW hnew, reduceIntK_eq hW hnew]
  refine ⟨hinvK a, ?_⟩
  unfold Elem.divK Elem.div
  rw [hinvK b]
  cases hi : (reduceInt W r b).inv with
  | none => rfl
  | some i =>
    simp only []
    obtain ⟨h1, ⟨t, ht, hraw⟩, _⟩ := (Dashu.Props.C13.inv_spec W r hwf b).2 i hi
    have ha := reduceInt_raw hwf a
    have hra := (Dashu.Props.C13.reduce_spec W r hwf a).2.2.2.2
    unfold Elem.mulK Elem.mul
    rw [hra, ha, hraw, mulRawK_eq hwf (res_lt hm a) ht]

/-- non-vacuity of `inv_large_mirror` / `inv_large_range`: a 3-word ring with a shift, residues of one,
    two and three words, invertible and not -/
example : ∃ r, Ring.new 64 0 ((2 ^ 64 + 1) * (2 ^ 100 + 277)) = .ok r ∧ r.kind = .large ∧ r.k ≠ 0 ∧
    Valid r (5 * 2 ^ r.k) ∧ Valid r ((2 ^ 100 + 1) * 2 ^ r.k) ∧ Valid r ((2 ^ 64 + 1) * 3 * 2 ^ r.k) ∧
    invLarge 64 r ((2 ^ 64 + 1) * 3 * 2 ^ r.k) = .ok none ∧
    (match invLarge 64 r ((2 ^ 150 + 3) * 2 ^ r.k) with | .ok (some _) => true | _ => false) = true :=
  ⟨_, rfl, rfl, by decide, by decide, by decide, by decide, by decide +kernel, by decide +kernel⟩

-- ---------------------------------------------------------------- Tie A: decision logic regenerated from integer/src/modular

theorem glue_gt (x y : Int) : GluePrelude.gt_ x y = decide (y < x) := by
  unfold GluePrelude.gt_
  rw [Bool.eq_iff_iff]
  simp [compare_gt_iff_gt]

theorem glue_lt (x y : Int) : GluePrelude.lt_ x y = decide (x < y) := by
  unfold GluePrelude.lt_
  rw [Bool.eq_iff_iff]
  simp [compare_lt_iff_lt]

theorem glue_le (x y : Int) : GluePrelude.le_ x y = decide (x ≤ y) := by
  unfold GluePrelude.le_
  rw [Bool.eq_iff_iff]
  simp [compare_gt_iff_gt]

/-- `mul_normalized` / `sqr_normalized`: the model takes the long division exactly when the test
    regenerated from `integer/src/modular/mul.rs` (`na + nb > n`, `na * 2 > n`) says so. -/
theorem mul_normalized_guard_gen (W : Nat) (r : Ring) (a b : Nat) :
    mulNormalized W r a b =
      (if Gen.Modular.mul_normalized_needs_division r.n (wordLen W a) (wordLen W b) = true
         then (a * b / 2 ^ r.k) % r.M
       else if a * b / 2 ^ r.k ≥ r.M then a * b / 2 ^ r.k - r.M else a * b / 2 ^ r.k) ∧
    Gen.Modular.sqr_normalized_needs_division r.n (wordLen W a) =
      Gen.Modular.mul_normalized_needs_division r.n (wordLen W a) (wordLen W a) := by
  unfold Gen.Modular.mul_normalized_needs_division Gen.Modular.sqr_normalized_needs_division mulNormalized
  simp only [glue_gt, GluePrelude.add_, GluePrelude.mul_]
  constructor
  · by_cases h : wordLen W a + wordLen W b > r.n
    · have : (r.n : Int) < (wordLen W a : Int) + (wordLen W b : Int) := by exact_mod_cast h
      simp [h, this]
    · have : ¬ (r.n : Int) < (wordLen W a : Int) + (wordLen W b : Int) := by
        intro hc; apply h; exact_mod_cast hc
      simp [h, this]
  · congr 1
    rw [mul_two]

/-- `choose_pow_window_len`: the model is the loop over the regenerated cost model, start value, loop
    guard (`window_size + 1 < WORD_BITS.min(usize::BIT_SIZE)`, `usize` of 64 bits) and stop test. -/
theorem choose_pow_window_len_gen (W n : Nat) :
    chooseWindowLen W n =
      chooseWindowLen.go W (fun ws => Gen.Modular.pow_window_cost ws n) W Gen.Modular.pow_window_init ∧
    (∀ ws : Nat, decide (ws + 1 < min W 64) = Gen.Modular.pow_window_continue ws W 64) ∧
    (∀ c c2 : Nat, decide (c ≤ c2) = Gen.Modular.pow_window_stop c c2) := by
  refine ⟨rfl, ?_, ?_⟩
  · intro ws
    unfold Gen.Modular.pow_window_continue
    simp only [glue_lt, GluePrelude.add_, GluePrelude.min]
    rw [Bool.eq_iff_iff]
    simp only [decide_eq_true_eq]
    by_cases h : W ≤ 64
    · have h' : (W : Int) ≤ 64 := by exact_mod_cast h
      rw [Nat.min_eq_left h, if_pos h']
      constructor <;> intro hh <;> omega
    · have h' : ¬ (W : Int) ≤ 64 := by omega
      rw [Nat.min_eq_right (by omega), if_neg h']
      constructor <;> intro hh <;> omega
  · intro c c2
    unfold Gen.Modular.pow_window_stop
    rw [glue_le, Bool.eq_iff_iff]
    simp only [decide_eq_true_eq]
    omega

/-- `inv_large`: the model's `raw_len` dispatch is the `match raw_len { 0 => None, 1 => gcd_ext_word,
    2 => gcd_ext_dword, _ => gcd_ext_in_place }` regenerated from `integer/src/modular/div.rs`
    (`gcdExtSmall` is C12's model of both `gcd_ext_word` and `gcd_ext_dword`). -/
theorem inv_large_dispatch_gen (W : Nat) (r : Ring) (raw : Nat) :
    (Gen.Modular.inv_large_arm (wordLen W (raw / 2 ^ r.k)) = "None" → invLarge W r raw = .ok none) ∧
    (Gen.Modular.inv_large_arm (wordLen W (raw / 2 ^ r.k)) = "gcd_ext_word" ∨
      Gen.Modular.inv_large_arm (wordLen W (raw / 2 ^ r.k)) = "gcd_ext_dword" →
        invLarge W r raw = match gcdExtSmall W (r.M / 2 ^ r.k) (raw / 2 ^ r.k) with
          | .error k => .error k
          | .ok (g, _, bMag, bNeg) => .ok (invLargeFinish r (g == 1) bMag bNeg)) ∧
    (Gen.Modular.inv_large_arm (wordLen W (raw / 2 ^ r.k)) = "gcd_ext_in_place" →
        invLarge W r raw = match lehmerExt W (r.M / 2 ^ r.k) (raw / 2 ^ r.k) with
          | .error k => .error k
          | .ok (g, bMag, bNeg) => .ok (invLargeFinish r (g == 1) bMag bNeg)) := by
  unfold invLarge
  simp only []
  generalize wordLen W (raw / 2 ^ r.k) = l
  match l with
  | 0 => exact ⟨fun _ => by simp, fun h => by rcases h with h | h <;> exact absurd h (by decide),
      fun h => absurd h (by decide)⟩
  | 1 =>
    refine ⟨fun h => absurd h (by decide), fun _ => ?_, fun h => absurd h (by decide)⟩
    simp only [Nat.succ_ne_zero, if_false, Nat.one_le_ofNat, if_true]
    cases gcdExtSmall W (r.M / 2 ^ r.k) (raw / 2 ^ r.k) with
    | error k => rfl
    | ok v => obtain ⟨g, a, bm, bn⟩ := v; rfl
  | 2 =>
    refine ⟨fun h => absurd h (by decide), fun _ => ?_, fun h => absurd h (by decide)⟩
    simp only [Nat.succ_ne_zero, if_false, Nat.le_refl, if_true]
    cases gcdExtSmall W (r.M / 2 ^ r.k) (raw / 2 ^ r.k) with
    | error k => rfl
    | ok v => obtain ⟨g, a, bm, bn⟩ := v; rfl
  | j + 3 =>
    have e : Gen.Modular.inv_large_arm (j + 3) = "gcd_ext_in_place" := rfl
    rw [e]
    refine ⟨fun h => absurd h (by decide), fun h => by rcases h with h | h <;> exact absurd h (by decide),
      fun _ => ?_⟩
    have h3 : ¬ j + 3 ≤ 2 := by omega
    simp only [Nat.succ_ne_zero, if_false, h3]
    cases lehmerExt W (r.M / 2 ^ r.k) (raw / 2 ^ r.k) with
    | error k => rfl
    | ok v => obtain ⟨g, bm, bn⟩ := v; rfl

/-- `inv_large`, multi-word arm: the regenerated "gcd is one" test `g_len == 1 && raw[0] == 1` on the word
    length and the lowest word of `g` is `g == 1` (what the model tests). -/
theorem inv_large_gcd_is_one_gen (W : Nat) (hW : 0 < W) (g : Nat) :
    Gen.Modular.inv_large_gcd_is_one (wordLen W g) ((g % 2 ^ W : Nat) : Int) = (g == 1) := by
  unfold Gen.Modular.inv_large_gcd_is_one
  simp only [GluePrelude.eq_]
  rw [Bool.eq_iff_iff]
  simp only [Bool.and_eq_true, decide_eq_true_eq, beq_iff_eq]
  have h1 : (1 : Nat) < 2 ^ W := Nat.one_lt_two_pow (by omega)
  constructor
  · rintro ⟨hl, hlow⟩
    have hl' : wordLen W g = 1 := by exact_mod_cast hl
    have hlt := lt_two_pow_wordLen hW g
    rw [hl', Nat.mul_one] at hlt
    have : g % 2 ^ W = 1 := by exact_mod_cast hlow
    rw [Nat.mod_eq_of_lt hlt] at this
    exact this
  · rintro rfl
    have hle : wordLen W 1 ≤ 1 := wordLen_le_of_lt hW (by rw [Nat.mul_one]; exact h1)
    have hge : wordLen W 1 ≠ 0 := by
      intro h0
      have := lt_two_pow_wordLen hW 1
      rw [h0] at this; simp at this
    have : wordLen W 1 = 1 := by omega
    rw [this, Nat.mod_eq_of_lt h1]
    exact ⟨rfl, rfl⟩

end Dashu.Props.C13
