import Dashu.Gen.FloatNorm
import Dashu.Model.Int.Cmp
import Dashu.Model.Float.Repr
import Dashu.Proofs.NT.Log
import Dashu.Proofs.Int.Cmp
import Dashu.Proofs.Conv.FloatTo
/-
  C05 (round 5) — Tie A for `Repr::<B>::normalize` (float/src/repr.rs) AS REGENERATED on this run
  (`Dashu/Gen/FloatNorm.lean`, typed translator + three checked desugarings, vlib/extract_floatnorm.py).

  The regenerated body has the three code paths of the source — `B == 2` (shift by `trailing_zeros`),
  `B.is_power_of_two()` (shift by `trailing_zeros / bits * bits`), otherwise `UBig::remove` (C12's mirrored
  squaring-tower algorithm `removeRepr`).  Theorems, for EVERY base `B ≥ 2` and EVERY input:

  * `normalize_is_model`     — it equals the hand model `Model.FRepr.normalize` that the C05 theorems
                               (`float_normalize`, `float_cmp`, the history theorems) and the driver are about;
  * `normalize_is_repr_new`  — it equals C03's `Model.Float.FRepr.new` (the constructor every float producer ends in);
  * `normalize_unwraps_are_some` — none of the three `.unwrap()` calls of the body can meet `None`.

  The `remove` path is linked to C12 by composition with `removeRepr_spec` (Props/C12 `remove_spec`), not re-proved.
-/
namespace Dashu.Props.GenFloatNorm
open Dashu Dashu.Gen Dashu.GluePrelude Dashu.Model Dashu.Model.NT

-- ================================================================== multiplicity is unique

/-- `x = q·B^e`, `B ∤ q` determines `removeAll B x` -/
theorem removeAll_unique (B : Nat) (hB : 2 ≤ B) : ∀ (e q : Nat), q ≠ 0 → q % B ≠ 0 →
    removeAll B (q * B ^ e) = (q, e) := by
  intro e
  induction e with
  | zero =>
    intro q hq hnd
    rw [removeAll]
    simp only [Nat.pow_zero, Nat.mul_one]
    rw [dif_pos (Or.inr (Or.inr hnd))]
  | succ e ih =>
    intro q hq hnd
    have hpos : 0 < B := by omega
    have hx : q * B ^ (e + 1) = (q * B ^ e) * B := by rw [Nat.pow_succ, Nat.mul_assoc]
    have hne : q * B ^ (e + 1) ≠ 0 := by
      have : 0 < q * B ^ (e + 1) := Nat.mul_pos (Nat.pos_of_ne_zero hq) (Nat.pow_pos hpos)
      omega
    rw [removeAll]
    have hmod : q * B ^ (e + 1) % B = 0 := by rw [hx]; exact Nat.mul_mod_left _ _
    rw [dif_neg (by
      intro h
      rcases h with h | h | h
      · exact hne h
      · omega
      · exact h hmod)]
    have hdiv : q * B ^ (e + 1) / B = q * B ^ e := by rw [hx]; exact Nat.mul_div_cancel _ hpos
    simp only [hdiv, ih q hq hnd]

/-- what `UBig::remove` returns for a non-zero magnitude and a base `≥ 2`, in terms of `removeAll` -/
theorem removeRepr_eq_removeAll (B : Nat) (hB : 2 ≤ B) (x : Nat) (hx : 0 < x) :
    removeRepr x B = some ((removeAll B x).2, (removeAll B x).1) := by
  obtain ⟨e, q, hr, hxq, hnd⟩ := (removeRepr_spec x B).2 hx hB
  have hq : q ≠ 0 := by
    intro h; rw [h] at hxq; simp at hxq; omega
  have hnd' : q % B ≠ 0 := by
    intro h; exact hnd (Nat.dvd_of_mod_eq_zero h)
  rw [hr, hxq, removeAll_unique B hB e q hq hnd']

/-- a base that passes `is_power_of_two`: `removeRepr` takes its shortcut, whose text is the
    `B.is_power_of_two()` arm of `normalize` -/
theorem removeRepr_pow2 (B x : Nat) (hB : 2 ≤ B) (hx : 0 < x) (hp : B = 2 ^ (bitLen B - 1)) :
    removeRepr x B = some (trailingZeros x / (bitLen B - 1), x / 2 ^ (trailingZeros x / (bitLen B - 1) * (bitLen B - 1))) := by
  unfold removeRepr
  rw [if_neg (by omega), if_pos hp]

theorem tz_two_pow (j : Nat) : trailingZeros (2 ^ j) = j := by
  apply tz_unique (Nat.two_pow_pos j) (Nat.dvd_refl _)
  rw [Nat.div_self (Nat.two_pow_pos j)]

-- ================================================================== signs

theorem natAbs_pos_of_ne {s : Int} (hs : s ≠ 0) : 0 < s.natAbs := by omega

/-- an exact division of the signed significand acts on the magnitude -/
theorem ediv_of_dvd_natAbs (s : Int) (d : Nat) (hd : 0 < d) (hdvd : d ∣ s.natAbs) :
    s / (d : Int) = if s < 0 then -((s.natAbs / d : Nat) : Int) else ((s.natAbs / d : Nat) : Int) := by
  obtain ⟨c, hc⟩ := hdvd
  have hq : s.natAbs / d = c := by rw [hc, Nat.mul_div_cancel_left _ hd]
  rw [hq]
  have hd' : (d : Int) ≠ 0 := by omega
  split
  · rename_i hneg
    have hs : s = (d : Int) * (-(c : Int)) := by
      have : (s.natAbs : Int) = (d : Int) * (c : Int) := by rw [hc]; push_cast; rfl
      rw [Int.mul_neg, ← this]; omega
    rw [hs, Int.mul_ediv_cancel_left _ hd']
  · rename_i hneg
    have hs : s = (d : Int) * (c : Int) := by
      have : (s.natAbs : Int) = (d : Int) * (c : Int) := by rw [hc]; push_cast; rfl
      rw [← this]; omega
    rw [hs, Int.mul_ediv_cancel_left _ hd']

-- ================================================================== the regenerated body

/-- hand-model values as seen by the regenerated text -/
def toG (r : Model.FRepr) : GluePrelude.FRepr := ⟨r.signif, r.exp⟩

/-- the two shifting arms (`B == 2`, `B.is_power_of_two()`) on a signed significand -/
theorem shift_arm (s : Int) (n m : Nat) (hdvd : 2 ^ n ∣ s.natAbs) (hm : s.natAbs / 2 ^ n = m) :
    GluePrelude.shr_ s (n : Int) = if s < 0 then -(m : Int) else (m : Int) := by
  unfold GluePrelude.shr_
  rw [Int.toNat_natCast]
  have h := ediv_of_dvd_natAbs s (2 ^ n) (Nat.two_pow_pos n) hdvd
  rw [hm] at h
  rw [← h]; push_cast; rfl

/-- facts about the multiplicity pair of a power-of-two base -/
theorem pow2_facts (B x : Nat) (hB : 2 ≤ B) (hx : 0 < x) (hp : B = 2 ^ (bitLen B - 1)) :
    (removeAll B x).2 = trailingZeros x / (bitLen B - 1) ∧
    (removeAll B x).1 = x / 2 ^ ((bitLen B - 1) * (removeAll B x).2) ∧
    2 ^ ((bitLen B - 1) * (removeAll B x).2) ∣ x := by
  have h1 := removeRepr_eq_removeAll B hB x hx
  rw [removeRepr_pow2 B x hB hx hp] at h1
  have h2 := Option.some.inj h1
  have hk : trailingZeros x / (bitLen B - 1) = (removeAll B x).2 := congrArg Prod.fst h2
  have hmm : x / 2 ^ (trailingZeros x / (bitLen B - 1) * (bitLen B - 1)) = (removeAll B x).1 := congrArg Prod.snd h2
  refine ⟨hk.symm, ?_, ?_⟩
  · rw [← hmm, hk, Nat.mul_comm]
  · have hs := (Dashu.Model.removeAll_spec B hB x (by omega)).1
    refine ⟨(removeAll B x).1, ?_⟩
    conv_lhs => rw [hs]
    rw [Nat.pow_mul, ← hp, Nat.mul_comm]

/-- **Tie A.** The regenerated `Repr::<B>::normalize` IS the hand model `FRepr.normalize` of C05, for every base
    `B ≥ 2` and every representation (finite, zero or infinite). -/
theorem normalize_is_model (B : Nat) (hB : 2 ≤ B) (r : Model.FRepr) :
    Repr_normalize ⟨(B : Int)⟩ (toG r) = toG (r.normalize B) := by
  obtain ⟨s, e⟩ := r
  unfold Repr_normalize Model.FRepr.normalize toG
  simp only [GluePrelude.is_zero, decide_eq_true_eq]
  by_cases hs : s = 0
  · simp [hs, Repr_zero]
  · rw [if_neg hs, if_neg hs]
    have hx : 0 < s.natAbs := natAbs_pos_of_ne hs
    have htz : GluePrelude.FloatNorm.unwrap (GluePrelude.FloatNorm.trailing_zeros s) = (trailingZeros s.natAbs : Int) := by
      simp [GluePrelude.FloatNorm.trailing_zeros, GluePrelude.FloatNorm.unwrap, hs]
    have hspec := Dashu.Model.removeAll_spec B hB s.natAbs (by omega)
    generalize hrm : removeAll B s.natAbs = p at hspec
    obtain ⟨m, k⟩ := p
    simp only [GluePrelude.eq_, GluePrelude.add_, GluePrelude.mul_, GluePrelude.div_, htz]
    by_cases h2 : (B : Int) = 2
    · -- `B == 2`
      have hB2 : B = 2 := by omega
      subst hB2
      have hp : (2 : Nat) = 2 ^ (bitLen 2 - 1) := by decide
      obtain ⟨f1, f2, f3⟩ := pow2_facts 2 s.natAbs (by omega) hx hp
      have hj : bitLen 2 - 1 = 1 := by decide
      rw [hj, hrm] at f1 f2 f3
      simp only [Nat.div_one, Nat.one_mul] at f1 f2 f3
      simp only [Nat.cast_ofNat, decide_true, if_true]
      rw [← f1, shift_arm s k m f3 f2.symm]
    · simp only [h2, decide_false, Bool.false_eq_true, if_false]
      by_cases hp2 : GluePrelude.FloatNorm.is_power_of_two (B : Int) = true
      · -- `B.is_power_of_two()`
        rw [if_pos hp2]
        have hp : B = 2 ^ (bitLen B - 1) := by
          simp [GluePrelude.FloatNorm.is_power_of_two] at hp2
          exact hp2.2
        obtain ⟨f1, f2, f3⟩ := pow2_facts B s.natAbs hB hx hp
        rw [hrm] at f1 f2 f3
        dsimp only at f1 f2 f3
        have hbits : GluePrelude.FloatNorm.word_trailing_zeros (B : Int) = ((bitLen B - 1 : Nat) : Int) := by
          unfold GluePrelude.FloatNorm.word_trailing_zeros
          simp only [Int.natAbs_natCast]
          conv_lhs => rw [hp]
          rw [tz_two_pow]; rfl
        rw [hbits]
        generalize bitLen B - 1 = j at *
        have hq : ((trailingZeros s.natAbs : Nat) : Int) / ((j : Nat) : Int) = ((k : Nat) : Int) := by
          rw [f1]; push_cast; rfl
        rw [hq]
        have hmul : ((j : Nat) : Int) * ((k : Nat) : Int) = ((j * k : Nat) : Int) := by push_cast; rfl
        rw [hmul, shift_arm s (j * k) m f3 f2.symm]
      · -- `UBig::remove`
        rw [if_neg hp2]
        have hr := removeRepr_eq_removeAll B hB s.natAbs hx
        rw [hrm] at hr
        simp only [GluePrelude.as_sign_repr, GluePrelude.FloatNorm.remove, Int.natAbs_natCast, hr,
          GluePrelude.FloatNorm.unwrap, GluePrelude.sign_mul_int, GluePrelude.sign, HasSign.sign]
        by_cases hneg : s < 0
        · simp [hneg, Sign.apply, Int.natAbs_abs, hr]
        · simp [hneg, Sign.apply, Int.natAbs_abs, hr]

-- ================================================================== C03's constructor `Repr::new`

/-- the C03 hand model `Float.FRepr.new` (fuel-driven digit stripping) and the C05 hand model `FRepr.normalize`
    (multiplicity by well-founded recursion) are the same function -/
theorem repr_new_eq_normalize (B : Nat) (hB : 2 ≤ B) (s e : Int) :
    (⟨(Float.FRepr.new B s e).signif, (Float.FRepr.new B s e).exp⟩ : Model.FRepr) = (Model.FRepr.mk s e).normalize B := by
  unfold Float.FRepr.new Model.FRepr.normalize
  by_cases hs : s = 0
  · simp [hs]
  · simp only [hs, if_false]
    obtain ⟨z, hz1, hz2⟩ := Dashu.Model.Conv.stripAux_decomp B (s.natAbs.log2 + 1) s e
    have hn := Dashu.Model.Float.stripAux_norm B hB (s.natAbs.log2 + 1) s e hs (Nat.lt_log2_self (n := s.natAbs))
    generalize Float.stripAux B (s.natAbs.log2 + 1) s e = r at hz1 hz2 hn
    obtain ⟨r1, r2⟩ := r
    simp only at hz1 hz2 hn ⊢
    have hBpos : (0 : Int) < (B : Int) ^ z := Int.pow_pos (by omega)
    have habs : s.natAbs = r1.natAbs * B ^ z := by
      rw [hz1, Int.natAbs_mul, Int.natAbs_pow, Int.natAbs_natCast]
    have hr1 : r1 ≠ 0 := by
      intro h; rw [h] at hz1; simp at hz1; exact hs hz1
    have hnd : r1.natAbs % B ≠ 0 := by
      intro h
      apply hn
      have hd : (B : Int) ∣ r1 := Int.natAbs_dvd_natAbs.mp (by simpa using Nat.dvd_of_mod_eq_zero h)
      exact Int.emod_eq_zero_of_dvd hd
    rw [habs, removeAll_unique B hB z r1.natAbs (by omega) hnd]
    simp only
    have hsign : r1.natAbs * B ^ z = s.natAbs := habs.symm
    rw [hz2]
    congr 1
    by_cases hneg : s < 0
    · rw [if_pos hneg]
      have : r1 < 0 := by
        by_contra hc
        have : 0 ≤ r1 * (B : Int) ^ z := Int.mul_nonneg (by omega) (by omega)
        omega
      omega
    · rw [if_neg hneg]
      have : 0 ≤ r1 := by
        by_contra hc
        have h1 : r1 < 0 := by omega
        have : r1 * (B : Int) ^ z < 0 := Int.mul_neg_of_neg_of_pos h1 hBpos
        omega
      omega

/-- **Tie A.** The regenerated `Repr::<B>::normalize` IS C03's `Repr::new` model: every float producer of the C03
    model that ends in `FRepr.new` ends in the regenerated normalisation. -/
theorem normalize_is_repr_new (B : Nat) (hB : 2 ≤ B) (s e : Int) :
    Repr_normalize ⟨(B : Int)⟩ ⟨s, e⟩ = ⟨(Float.FRepr.new B s e).signif, (Float.FRepr.new B s e).exp⟩ := by
  have h := normalize_is_model B hB ⟨s, e⟩
  rw [← repr_new_eq_normalize B hB s e] at h
  exact h

-- ================================================================== no `unwrap` meets `None`

/-- the three `.unwrap()` calls of the body (`significand.trailing_zeros()` twice, `mag.remove(&B)`) are applied to
    `Some _` whenever control reaches them (non-zero significand; base `≥ 2`): `normalize` cannot panic -/
theorem normalize_unwraps_are_some (B : Nat) (hB : 2 ≤ B) (s : Int) (hs : s ≠ 0) :
    (GluePrelude.FloatNorm.trailing_zeros s).isSome = true ∧
    (GluePrelude.FloatNorm.remove (GluePrelude.as_sign_repr s).2 (B : Int)).2.isSome = true := by
  constructor
  · simp [GluePrelude.FloatNorm.trailing_zeros, hs]
  · have hr := removeRepr_eq_removeAll B hB s.natAbs (natAbs_pos_of_ne hs)
    simp [GluePrelude.as_sign_repr, GluePrelude.FloatNorm.remove, Int.natAbs_abs, hr]

-- ================================================================== non-vacuity: all three arms, both signs

example : Repr_normalize ⟨2⟩ ⟨-48, 3⟩ = ⟨-3, 7⟩ ∧ Repr_normalize ⟨16⟩ ⟨0x1200, -2⟩ = ⟨0x12, 0⟩ ∧
    Repr_normalize ⟨16⟩ ⟨-0x80, 0⟩ = ⟨-8, 1⟩ ∧ Repr_normalize ⟨10⟩ ⟨-1230000, -4⟩ = ⟨-123, 0⟩ ∧
    Repr_normalize ⟨3⟩ ⟨3 ^ 11 * 7, 0⟩ = ⟨7, 11⟩ ∧ Repr_normalize ⟨10⟩ ⟨0, 5⟩ = ⟨0, 0⟩ ∧
    Repr_normalize ⟨7⟩ ⟨12, 1⟩ = ⟨12, 1⟩ := by decide +kernel

end Dashu.Props.GenFloatNorm
