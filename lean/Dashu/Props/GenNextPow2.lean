import Dashu.Gen.NextPow2
import Dashu.Proofs.Int.Bits
/-
  C09, Tie A over `next_power_of_two_large` and `TypedRepr::next_power_of_two` (`integer/src/bits.rs`, `mod repr`).
  `Dashu.Gen.NextPow2` is regenerated from the Rust text on every run (the iterator statements `buffer[..n - 1].iter_mut()
  .skip_while(|x| **x == 0)`, `iter.next()`, `for x in iter` recognised as a whole, every constant read from the source).
  Theorems: on every non-empty buffer nothing panics (the sub-slice bound, `last_mut().unwrap()`) and the result is the hand model's
  `nextPow2Large`; the whole method is `TRepr.nextPow2` — the definitions the driver executes for `u.nextpow2`, whose meaning (the
  least power of two ≥ the value, canonical) is `Props.C09.next_power_of_two`.
-/
namespace Dashu.Props.GenNextPow2
open Dashu.Model Dashu.GluePrelude Dashu.Gen.ShiftHeap Dashu.Gen.NextPow2

/-- what the iterator statements do to the low words: nothing is found (all words zero, carry 0) or the first non-zero word and
    everything after it is zeroed (carry 1) — in both cases the low words end up all zero -/
theorem skip_zero (l : List Nat) :
    ((skip_while_eq 0 l).2 = [] → l = List.replicate l.length 0 ∧ l.all (· == 0) = true) ∧
    (∀ x rest, (skip_while_eq 0 l).2 = x :: rest →
      (skip_while_eq 0 l).1 ++ 0 :: rest.map (fun _ => 0) = List.replicate l.length 0 ∧ l.all (· == 0) = false) := by
  induction l with
  | nil => simp [skip_while_eq]
  | cons y ys ih =>
    by_cases hy : y = 0
    · subst hy
      simp only [skip_while_eq, if_true]
      constructor
      · intro h
        obtain ⟨h1, h2⟩ := ih.1 h
        refine ⟨?_, by simp [h2]⟩
        show 0 :: ys = List.replicate (ys.length + 1) 0
        rw [List.replicate_succ, ← h1]
      · intro x rest h
        obtain ⟨h1, h2⟩ := ih.2 x rest h
        refine ⟨?_, by simp [h2]⟩
        show 0 :: ((skip_while_eq 0 ys).1 ++ 0 :: rest.map (fun _ => 0)) = List.replicate (ys.length + 1) 0
        rw [List.replicate_succ, h1]
    · simp only [skip_while_eq, if_neg hy]
      constructor
      · intro h; cases h
      · intro x rest h
        injection h with hx hr
        subst hx; subst hr
        refine ⟨?_, by simp [hy]⟩
        have hm : ∀ t : List Nat, List.map (fun _ => 0) t = List.replicate t.length 0 := by
          intro t; induction t with
          | nil => rfl
          | cons _ t ih => simp [List.replicate_succ, ih]
        simp [List.replicate_succ, hm]

/-- **`next_power_of_two_large`** on every non-empty buffer = the hand model's `nextPow2Large` -/
theorem gen_next_power_of_two_large (W U : Nat) (ws : List Nat) (hne : ws ≠ []) :
    next_power_of_two_large W U ws = some (nextPow2Large W ws) := by
  obtain ⟨l, a, rfl⟩ : ∃ l a, ws = l ++ [a] := by
    obtain ⟨l, a, h⟩ := (List.eq_nil_or_concat ws).resolve_left hne
    exact ⟨l, a, by simpa using h⟩
  have hsub : MachInt.sub U (l ++ [a]).length 1 = some l.length := by simp [MachInt.sub]
  have hsplit : split_to (l ++ [a]) l.length = some (l, [a]) := by simp [split_to]
  have hz := skip_zero l
  unfold next_power_of_two_large nextPow2Large
  simp only [hsub, hsplit, bind, Option.bind, List.dropLast_concat, List.getLastD_concat]
  cases hit : (skip_while_eq 0 l).2 with
  | nil =>
    obtain ⟨h1, h2⟩ := hz.1 hit
    have hset : ∀ v, set_last (l ++ [a]) v = List.replicate l.length 0 ++ [v] := by
      intro v; simp only [set_last, List.dropLast_concat]; rw [← h1]
    simp only [h2, if_true, List.getLast?_concat, Nat.add_zero, MachInt.add, hset, push]
    by_cases hlt : a < 2 ^ W
    · simp only [hlt, if_true, Option.bind]
      cases checkedNextPow2 W a <;> simp [pure]
    · simp [hlt, pure]
  | cons x rest =>
    obtain ⟨h1, h2⟩ := hz.2 x rest hit
    have hb : (skip_while_eq 0 l).1 ++ 0 :: List.map (fun _ => 0) rest ++ [a] = List.replicate l.length 0 ++ [a] := by
      rw [← h1]
    have hset : ∀ v, set_last (List.replicate l.length 0 ++ [a]) v = List.replicate l.length 0 ++ [v] := by
      intro v; simp only [set_last, List.dropLast_concat]
    simp only [h2, hb, Bool.false_eq_true, if_false, List.getLast?_concat, MachInt.add, hset, push]
    by_cases hlt : a + 1 < 2 ^ W
    · simp only [hlt, if_true, Option.bind]
      cases checkedNextPow2 W (a + 1) <;> simp [pure]
    · simp [hlt, pure]

/-- an empty buffer: `n - 1` underflows (and `last().unwrap()` would panic) — the regenerated text refuses -/
theorem gen_next_power_of_two_large_empty (W U : Nat) : next_power_of_two_large W U [] = none := rfl

/-- **`TypedRepr::next_power_of_two`** (the whole method) = the hand model's `TRepr.nextPow2` -/
theorem gen_next_power_of_two (W U : Nat) (x : TRepr) (hx : ∀ ws, x = .large ws → ws ≠ []) :
    next_power_of_two W U x = some (TRepr.nextPow2 W x) := by
  cases x with
  | small d =>
    simp only [next_power_of_two, TRepr.nextPow2]
    cases checkedNextPow2 (2 * W) d <;> simp [pure, Buffer_allocate, push_zeros, push, List.replicate]
  | large ws =>
    simp only [next_power_of_two, TRepr.nextPow2]
    exact gen_next_power_of_two_large W U ws (hx ws rfl)

-- non-vacuity (64-bit words): low words all zero (no carry), a non-zero low word after a zero one (carry, everything zeroed),
-- top word overflow with and without carry (a word is pushed), and the inline arm that spills
example : next_power_of_two_large 64 64 [0, 0, 5] = some (.large [0, 0, 8]) ∧
    next_power_of_two_large 64 64 [0, 7, 9, 4] = some (.large [0, 0, 0, 8]) ∧
    next_power_of_two_large 64 64 [1, 0, 2 ^ 64 - 1] = some (.large [0, 0, 0, 1]) ∧
    next_power_of_two_large 64 64 [0, 0, 2 ^ 63 + 1] = some (.large [0, 0, 0, 1]) ∧
    next_power_of_two_large 64 64 [0, 0, 2 ^ 63] = some (.large [0, 0, 2 ^ 63]) ∧
    next_power_of_two 64 64 (.small (2 ^ 127 + 1)) = some (.large [0, 0, 1]) ∧
    next_power_of_two 64 64 (.small 5) = some (.small 8) := by
  refine ⟨by decide, by decide, by decide, by decide, by decide, by decide, by decide⟩

end Dashu.Props.GenNextPow2
