import Dashu.Proofs.Text.FloatParse
import Dashu.Proofs.Text.FloatGrammar
import Dashu.Proofs.Text.FloatPrec
import Dashu.Proofs.Text.FloatPad
import Dashu.Proofs.Text.ConvDiv
import Dashu.Proofs.Text.ConvDigits
import Dashu.Proofs.Text.FloatSci
import Dashu.Proofs.Text.FloatSciParse
import Dashu.Proofs.Text.DisplayLink
import Dashu.Proofs.Text.FloatTie
import Dashu.Proofs.Text.DisplayText
import Dashu.Proofs.Text.FloatIsize
import Dashu.Proofs.Text.FloatDebug
import Dashu.Props.C07Debug
/-
  C08 — Float text I/O is lossless; base/precision changes are faithfully rounded.   **partial**

  Proved here (all bases ≥ 2, all modes, all precisions ≥ 1, all significands and exponents):
  * the three exact-evaluation branches of `Context::convert_base` (target base a power of the
    source base; source base a power of the target base; small non-negative exponent) return
    `repr_round` of the *exact* value, hence meet the rounding contract of C03 — exact iff
    representable (truthful flag), otherwise less than one ulp on the mode's side;
  * the precision `with_base` documents (`max q, NewB^q ≤ B^p`) as computed by the specification side;
  * `TryFrom<f32/f64>` is exact, with precision = bit length of the mantissa;
  * the literal parser `Repr::from_str_native` EQUALS the documented grammar (`parseFloatSpec`, an
    independent total function) on every byte string — underscores, every scale marker
    (`e E b B o O h H p P @`), the hexadecimal form of base 2 and every error case included; every
    accepted string denotes exactly the number its digits spell, precision = number of written digits
    (×4 for hexadecimal digits); the plain form `[sign] int [. frac] [@ scale]` is accepted with that value;
  * the print → parse round trip of `Display` (no precision option): equal value;
  * `Display` with a precision option `{:.p}`: the text is a literal with exactly `p` fractional digits
    (no point for `p = 0`) whose value is `R · B^(−p)`, `R` the integer the rounding mode names for
    `x · B^p` (floor / ceiling / toward / away from zero / nearest-even / nearest-away);
  * `with_precision`: precision becomes `p`; rounding contract of C03 when digits are dropped, value
    unchanged and `Exact` otherwise (and always for `p = 0`).

  * the padding AMOUNTS of `Display` and of the scientific formats: the formatter's width is honoured
    exactly (`display_width_exact`, `scientific_width_exact`);
  * the scientific formats (`LowerExp`, `UpperExp`, `Binary`, `Octal`, `LowerHex`, `UpperHex`, the
    hexadecimal form of base 2): the rounding step is the mode's rounding to `p + 1` significant digits
    and the text denotes that rounded value (`scientific_rounding`, `scientific_text_denotes`);
  * Tie A: the marker tables of parser and formatter, `ilog_exact` (float/src/utils.rs) and the precision decision of
    `FBig::with_base` (float/src/convert.rs) are regenerated from /repo on every run (`Dashu/Gen/FloatText.lean`) and proved equal
    to the model (`scale_markers_regenerated`, `fmt_trait_table_regenerated`, `ilog_exact_regenerated`,
    `with_base_precision_regenerated`).

  Not proved (checked by the correspondence run only; see `vlib/props/c08.py` FRONTIER):
  the large-exponent branch of `convert_base` through `ln`/`exp` (judged per case by exact arithmetic;
  it does *not* meet the contract — two recorded findings); `Debug`.
-/
namespace Dashu.Props.C08
open Dashu.Model.Text Dashu.Model.Float

/-- target base a power of the source base (`NewB = B^n`): the branch taken by `convert_base` -/
theorem convert_base_pow_up_branch (W : Nat) (B NewB : Nat) (m : Mode) (p : Nat) (r : FRepr)
    (hgt : NewB > B) (hn : 1 < ilogExact NewB B) :
    convertBase W B NewB m p r =
      .ok (reprRound NewB m coarseNone p
        (FRepr.new NewB (r.signif * ((B ^ (r.exp % (ilogExact NewB B : Int)).toNat : Nat) : Int))
          (r.exp / (ilogExact NewB B : Int)))) := by
  unfold convertBase
  have h1 : NewB ≠ B := by omega
  simp only [h1, if_false, hgt, if_true, hn]

/-- … and it meets the rounding contract for the exact value `signif · B^exp` -/
theorem convert_base_pow_up_contract (B n : Nat) (hB : 2 ≤ B) (hn : 1 ≤ n) (m : Mode) (p : Nat) (hp : 1 ≤ p)
    (r : FRepr) :
    let res := reprRound (B ^ n) m coarseNone p
      (FRepr.new (B ^ n) (r.signif * ((B ^ (r.exp % (n : Int)).toNat : Nat) : Int)) (r.exp / (n : Int)))
    Contract (B ^ n) m p (r.toRat B) (res.1.toRat (B ^ n)) res.2 := by
  intro res
  have hN : 2 ≤ B ^ n := by
    calc 2 ≤ B := hB
      _ = B ^ 1 := (pow_one B).symm
      _ ≤ B ^ n := Nat.pow_le_pow_right (by omega) hn
  have h := round_new_contract (B ^ n) hN m p hp
    (r.signif * ((B ^ (r.exp % (n : Int)).toNat : Nat) : Int)) (r.exp / (n : Int))
  rw [value_pow_up B n (by omega) (by omega)] at h
  exact h

/-- the detected exponent really is the logarithm: `ilog_exact(NewB, B) = n ≠ 0 → NewB = B^n` -/
theorem ilog_exact_sound (n base k : Nat) (h : ilogExact n base = k) (hk : k ≠ 0) : n = base ^ k :=
  ilogExact_spec n base k h hk

/-- source base a power of the target base (`B = NewB^n`) -/
theorem convert_base_pow_down_branch (W : Nat) (B NewB : Nat) (m : Mode) (p : Nat) (r : FRepr)
    (hlt : NewB < B) (hn : 1 < ilogExact B NewB) :
    convertBase W B NewB m p r =
      .ok (reprRound NewB m coarseNone p (FRepr.new NewB r.signif (r.exp * (ilogExact B NewB : Nat)))) := by
  unfold convertBase
  have h1 : NewB ≠ B := by omega
  have h2 : ¬ NewB > B := by omega
  simp only [h1, if_false, h2, hn, if_true]
  have : ¬ (1 < 0) := by omega
  simp [this]

theorem convert_base_pow_down_contract (NB n : Nat) (hN : 2 ≤ NB) (m : Mode) (p : Nat) (hp : 1 ≤ p) (r : FRepr) :
    let res := reprRound NB m coarseNone p (FRepr.new NB r.signif (r.exp * (n : Int)))
    Contract NB m p (r.toRat (NB ^ n)) (res.1.toRat NB) res.2 := by
  intro res
  have h := round_new_contract NB hN m p hp r.signif (r.exp * (n : Int))
  rw [value_pow_down NB n] at h
  exact h

/-- small non-negative exponent: `signif · B^exp` is evaluated exactly, then rounded -/
theorem convert_base_small_pos_contract (B NB : Nat) (hN : 2 ≤ NB) (m : Mode) (p : Nat) (hp : 1 ≤ p)
    (r : FRepr) (he : 0 ≤ r.exp) :
    let res := reprRound NB m coarseNone p (FRepr.new NB (r.signif * ((B ^ r.exp.toNat : Nat) : Int)) 0)
    Contract NB m p (r.toRat B) (res.1.toRat NB) res.2 := by
  intro res
  have h := round_new_contract NB hN m p hp (r.signif * ((B ^ r.exp.toNat : Nat) : Int)) 0
  rw [value_small_pos B NB r.signif r.exp.toNat, Int.toNat_of_nonneg he] at h
  exact h

/-- "exact whenever representable": a value that fits the precision is returned unchanged and flagged
    `Exact` by the final `repr_round` of every mirrored branch -/
theorem exact_when_fits (NB : Nat) (m : Mode) (p : Nat) (x : FRepr) (h : x.digits NB ≤ p) :
    reprRound NB m coarseNone p x = (x, none) :=
  reprRound_exact_of_fits NB m coarseNone p x h

/-- the precision `with_base` documents: the max `q` with `NewB^q ≤ B^p` -/
theorem with_base_precision_documented (B NewB p : Nat) (hB : 1 ≤ B) (hN : 2 ≤ NewB) :
    NewB ^ withBasePrecisionSpec B NewB p ≤ B ^ p ∧ B ^ p < NewB ^ (withBasePrecisionSpec B NewB p + 1) :=
  withBasePrecisionSpec_max B NewB p hB hN

/-- conversion from `f32` / `f64` is exact; precision = bit length of the mantissa -/
theorem from_ieee_exact (mb eb bits : Nat) (r : FRepr) (p : Nat) (h : fromIeee mb eb bits = some (.inr (r, p))) :
    let frac := bits % 2 ^ mb
    let e := (bits / 2 ^ mb) % 2 ^ eb
    let neg := (bits / 2 ^ (mb + eb)) % 2 = 1
    let man : Nat := if e = 0 then frac else frac + 2 ^ mb
    let exp : Int := (if e = 0 then 1 else (e : Int)) - (2 ^ (eb - 1) - 1) - mb
    r.toRat 2 = (if neg then -(man : ℚ) else (man : ℚ)) * bpowQ 2 exp ∧ p = bitLen man :=
  fromIeee_exact mb eb bits r p h

/-- **parsing yields exactly the written value, precision = number of written digits**: a literal
    `[sign] int [. frac] [@ scale]` of base `B` (digit lists `di`, `df` not both empty, either letter
    case, any `isize` scale) parses to a float whose value is, exactly,
    `±(int·B^|frac| + frac)·B^(scale − |frac|)`, with precision `|int| + |frac|` -/
theorem parse_literal_exact (W : Nat) (hW : 36 < 2 ^ W) (B : Nat) (hB : validRadix B = true) (up : Bool)
    (sign : Option Bool) (di : List Nat) (frac : Option (List Nat)) (scale : Option Int)
    (hdi : ∀ d ∈ di, d < B) (hdf : ∀ d ∈ frac.getD [], d < B) (hne : di ≠ [] ∨ frac.getD [] ≠ [])
    (hs : ∀ z, scale = some z → -(2 ^ 63 : Int) ≤ z ∧ z < (2 ^ 63 : Int)) :
    ∃ r : FRepr, fromStrNative W B (renderLiteral up sign di frac scale) =
        .ok (r, di.length + (frac.getD []).length) ∧
      r.toRat B = (if sign = some true then -1 else 1) * (ofDigits B (di ++ frac.getD []) : ℚ) *
        bpowQ B (scale.getD 0 - ((frac.getD []).length : Int)) :=
  literal_exact W hW B hB up sign di frac scale hdi hdf hne hs

/-- **print → parse round trip**: what `Display` prints for a finite float (no precision option)
    parses back to a float of exactly the same value — every base, mode, significand, exponent -/
theorem print_parse_round_trip (W : Nat) (hW : 36 < 2 ^ W) (B : Nat) (hB : validRadix B = true)
    (m : Mode) (r : FRepr) :
    ∃ (r' : FRepr) (n : Nat), fromStrNative W B (fmtRound B m {} none r) = .ok (r', n) ∧
      r'.toRat B = r.toRat B :=
  display_parse_round_trip W hW B hB m r

/-- **the parser is the documented grammar** — on every byte string: all markers, the hexadecimal
    form, underscores, and every error case (`NoDigits`, `InvalidDigit`) with the code's precedence -/
theorem parse_eq_grammar (W : Nat) (hW : 36 < 2 ^ W) (B : Nat) (hB : validRadix B = true) (s : List Nat) :
    fromStrNative W B s = parseFloatSpec B s :=
  fromStrNative_eq_spec W hW B hB s

/-- the grammar's digit strings: `_` separators are skipped, at least one digit is required (a
    string of underscores only has no digits), any other byte is an invalid digit -/
theorem grammar_digit_string (radix : Nat) (t : List Nat) (ae : Bool) :
    chkDigits radix t ae =
      if t = [] then (if ae then .ok [] else .error .noDigits)
      else if t.all (· == 95) then .error .noDigits
      else match digitValues radix (t.filter (· ≠ 95)) with
        | some ds => .ok ds
        | none => .error .invalidDigit := by
  unfold chkDigits digitsOnly; rfl

/-- **every accepted string denotes exactly what its digits spell**: if the parser accepts `s` then
    there are digit lists `di`, `df` (all below the radix, not both empty), a sign and a scale such that
    the value is `±(di ++ df)_radix · B^(scale − |df|·k)` and the precision is `(|di| + |df|)·k`, where
    `radix = 16`, `k = 4` for the hexadecimal form (base 2 only) and `radix = B`, `k = 1` otherwise -/
theorem parse_ok_denotes (W : Nat) (hW : 36 < 2 ^ W) (B : Nat) (hB : validRadix B = true) (s : List Nat)
    (r : FRepr) (p : Nat) (h : fromStrNative W B s = .ok (r, p)) :
    ∃ (neg hex : Bool) (di df : List Nat) (scale : Int), (hex = true → B = 2) ∧
      (∀ d ∈ di ++ df, d < (if hex then 16 else B)) ∧ di ++ df ≠ [] ∧
      p = (di.length + df.length) * (if hex then 4 else 1) ∧
      r.toRat B = (if neg then -1 else 1) * (ofDigits (if hex then 16 else B) (di ++ df) : ℚ) *
        bpowQ B (scale - ((df.length * (if hex then 4 else 1) : Nat) : Int)) := by
  rw [fromStrNative_eq_spec W hW B hB] at h
  exact spec_ok_denotes B hB s r p h

/-- **`{:.p}` prints exactly `p` fractional digits**: the text is `[-] int [. frac]` with `|frac| = p`
    (no point when `p = 0`), digits below the base, spelling `|R| · B^(−p)` -/
theorem print_precision_text (B : Nat) (hB : 2 ≤ B) (m : Mode) (p : Nat) (r : FRepr) :
    ∃ (di : List Nat) (frac : Option (List Nat)),
      fmtRound B m {} (some p) r = renderLiteral false (if r.signif < 0 then some true else none) di frac none ∧
      (∀ d ∈ di, d < B) ∧ (∀ d ∈ frac.getD [], d < B) ∧ di ≠ [] ∧
      (frac.getD []).length = p ∧ (frac.isSome ↔ 0 < p) ∧
      (ofDigits B (di ++ frac.getD []) : ℚ) * bpowQ B (0 - (p : Int)) =
        ((precRounded B m p r).natAbs : ℚ) * bpowQ B (0 - (p : Int)) :=
  display_prec_literal B hB m p r

/-- **… and `R` is the value correctly rounded under the mode**: with `x · B^p = N / D`
    (`N = signif · B^max(p+exp,0)`, `D = B^max(−(p+exp),0)`), `R` satisfies the specification of the
    mode (`ModeSpec`: floor, ceiling, toward zero, away from zero, nearest-even, nearest-away) -/
theorem print_precision_rounding (B : Nat) (hB : 2 ≤ B) (m : Mode) (p : Nat) (r : FRepr) :
    Dashu.Model.Float.ModeSpec m (r.signif * ((B ^ ((p : Int) + r.exp).toNat : Nat) : Int))
        ((B ^ (-((p : Int) + r.exp)).toNat : Nat) : Int) (precRounded B m p r) ∧
      ((r.signif * ((B ^ ((p : Int) + r.exp).toNat : Nat) : Int) : Int) : ℚ) /
        (((B ^ (-((p : Int) + r.exp)).toNat : Nat) : Int) : ℚ) = r.toRat B * ((B ^ p : Nat) : ℚ) :=
  ⟨precRounded_spec B hB m p r, prec_scaled_value B hB p r⟩

/-- **printing with a precision, read back**: the text of `{:.p}` parses (same base) to exactly
    `R · B^(−p)` — the value rounded to `p` fractional digits under the mode -/
theorem print_precision_parse (W : Nat) (hW : 36 < 2 ^ W) (B : Nat) (hB : validRadix B = true)
    (m : Mode) (p : Nat) (r : FRepr) :
    ∃ (r' : FRepr) (n : Nat), fromStrNative W B (fmtRound B m {} (some p) r) = .ok (r', n) ∧
      r'.toRat B = (precRounded B m p r : ℚ) * bpowQ B (-(p : Int)) :=
  display_prec_parse W hW B hB m p r

/-- **`with_precision(p)`**, `p ≥ 1`: the precision becomes `p`; the value meets the rounding contract
    (exact iff representable in `p` digits — in particular unchanged when the precision grows —
    otherwise < 1 ulp, ≤ ½ ulp for the nearest modes, on the mode's side; truthful flag) -/
theorem with_precision_contract (B : Nat) (hB : 2 ≤ B) (m : Mode) (p : Nat) (hp : 1 ≤ p) (x : FBigM)
    (hn : Normalized B x.repr) :
    (fWithPrecision B m coarseNone x p).1.prec = p ∧
    Contract B m p (x.repr.toRat B) ((fWithPrecision B m coarseNone x p).1.repr.toRat B)
      (fWithPrecision B m coarseNone x p).2 :=
  fWithPrecision_contract B hB m p hp x hn

/-- `with_precision(0)` (unlimited precision) never changes the value -/
theorem with_precision_unlimited (B : Nat) (m : Mode) (x : FBigM) :
    (fWithPrecision B m coarseNone x 0).1.repr = x.repr ∧ (fWithPrecision B m coarseNone x 0).2 = none :=
  fWithPrecision_zero B m x

/-- **padding never changes the digits** (`Display`, any precision option): the text is
    `fill^a ++ sign ++ '0'^b ++ core ++ fill^c`; `core` (digits, point, zeros) does not depend on the
    width, fill, alignment, `+` or zero flag; no width — no padding; the zero flag inserts only zeros,
    after the sign; without it only fill characters are added, outside -/
theorem display_padding_keeps_digits (B : Nat) (m : Mode) (f : FmtSpec) (prec : Option Nat) (r : FRepr) :
    ∃ a b c : Nat,
      fmtRound B m f prec r =
        rep a f.fill ++ fSign f.plus r ++ rep b [48] ++ fmtRoundCore B m prec r ++ rep c f.fill ∧
      (f.width = none → a = 0 ∧ b = 0 ∧ c = 0) ∧ (f.zero = true → a = 0 ∧ c = 0) ∧
      (f.zero = false → b = 0) :=
  fmtRound_padding B m f prec r

/-- the same for the scientific formats (`LowerExp`, `UpperExp`, `Binary`, `Octal`, `LowerHex`,
    `UpperHex`; `0x` follows the sign in the hexadecimal form of base 2) -/
theorem scientific_padding_keeps_digits (B : Nat) (m : Mode) (f : FmtSpec) (prec : Option Nat)
    (upper useHex : Bool) (marker : Nat) (r : FRepr) :
    ∃ a b c : Nat,
      fmtSciG B m f prec upper useHex marker r =
        rep a f.fill ++ fSign f.plus r ++ (if useHex then [48, 120] else []) ++ rep b [48] ++
          fmtSciCore B m prec upper useHex marker r ++ rep c f.fill ∧
      (f.width = none → a = 0 ∧ b = 0 ∧ c = 0) ∧ (f.zero = true → a = 0) ∧ (f.zero = false → b = 0) :=
  fmtSciG_padding B m f prec upper useHex marker r

/-- **padded `Display` text parses back to the same value**: with `+`, and with the zero flag and any
    width (or no width), what `Display` prints parses to exactly the printed float -/
theorem padded_print_parse_round_trip (W : Nat) (hW : 36 < 2 ^ W) (B : Nat) (hB : validRadix B = true)
    (m : Mode) (f : FmtSpec) (hf : f.zero = true ∨ f.width = none) (r : FRepr) :
    ∃ (r' : FRepr) (n : Nat), fromStrNative W B (fmtRound B m f none r) = .ok (r', n) ∧
      r'.toRat B = r.toRat B :=
  display_padded_parse W hW B hB m f hf r

/-- … and with a precision option it parses to exactly the rounded value `R · B^(−p)` -/
theorem padded_print_precision_parse (W : Nat) (hW : 36 < 2 ^ W) (B : Nat) (hB : validRadix B = true)
    (m : Mode) (f : FmtSpec) (hf : f.zero = true ∨ f.width = none) (p : Nat) (r : FRepr) :
    ∃ (r' : FRepr) (n : Nat), fromStrNative W B (fmtRound B m f (some p) r) = .ok (r', n) ∧
      r'.toRat B = (precRounded B m p r : ℚ) * bpowQ B (-(p : Int)) :=
  display_prec_padded_parse W hW B hB m f hf p r

/-- the long-dividend path of `convert_base` (fix bd48ef9: quotient longer than the precision, rounded
    once through `round_ratio` with the split-off tail and the division remainder as the fraction)
    meets the rounding contract for the exact quotient -/
theorem convert_base_long_dividend_contract (NB : Nat) (hNB : 2 ≤ NB) (m : Mode) (p : Nat) (hp : 1 ≤ p)
    (num den : FRepr) (hd : 0 < den.signif) (hlong : num.digits NB > p + den.digits NB) :
    Contract NB m p (num.toRat NB / den.toRat NB) ((divRoundLong NB m p num den).1.toRat NB)
      (divRoundLong NB m p num den).2 :=
  divRoundLong_contract NB hNB m p hp num den hd hlong

/-- **base conversion is faithfully rounded on every path that does not go through `ln`/`exp`**:
    whenever `Context::convert_base` returns through the same-base shortcut, a power-related base, or
    the small-exponent evaluation (multiplication for `exp ≥ 0`; `repr_div` or the long-dividend path
    for `exp < 0`), the result is the exact value `signif · B^exp` rounded to `p` digits of the new
    base under the mode — exact iff representable, with a truthful flag; otherwise less than one ulp
    (at most half for the nearest modes) on the mode's side.  (`.ok` excludes the `ln`/`exp` branch and
    the unlimited-precision panic.) -/
theorem convert_base_exact_paths_contract (W B NB : Nat) (hB : 2 ≤ B) (hNB : 2 ≤ NB) (m : Mode) (p : Nat)
    (hp : 1 ≤ p) (r : FRepr) (res : Rounded FRepr) (h : convertBase W B NB m p r = .ok res) :
    Contract NB m p (r.toRat B) (res.1.toRat NB) res.2 :=
  convertBase_contract W B NB hB hNB m p hp r res h

/-- **never more than one digit beyond the target precision**: whatever `convert_base` returns without
    going through `ln`/`exp` (different bases) has at most `p + 1` digits of the new base (`p` on the
    rounding paths; the extra digit only from `repr_div`) -/
theorem convert_base_result_digits (W B NB : Nat) (hB : 2 ≤ B) (hNB : 2 ≤ NB) (m : Mode)
    (p : Nat) (hp : 1 ≤ p) (r : FRepr) (res : Rounded FRepr) (h : convertBase W B NB m p r = .ok res) :
    res.1.digits NB ≤ p + 1 :=
  convertBase_digits_le_all W B NB hB hNB m p hp r res h

/-- the same-base branch (`with_base_and_precision::<B>(p)`, code as of fix 0c0f651): rounds to the target
    precision like every other branch; unchanged and `Exact` when the digits fit -/
theorem convert_base_same_base (W B : Nat) (m : Mode) (p : Nat) (r : FRepr) :
    convertBase W B B m p r = .ok (reprRound B m coarseNone p (FRepr.new B r.signif r.exp)) ∧
    ((FRepr.new B r.signif r.exp).digits B ≤ p →
      reprRound B m coarseNone p (FRepr.new B r.signif r.exp) = (FRepr.new B r.signif r.exp, none)) := by
  refine ⟨by unfold convertBase; simp, fun h => exact_when_fits B m p _ h⟩

/-- the precision `with_base` hands on when neither base is a power of the other (as of fix fa3b7b8:
    the exact `(B^p).ilog(NewB)`) is the documented maximum -/
theorem with_base_precision_model (W B NewB p : Nat) (hB : 1 ≤ B) (hN : 2 ≤ NewB)
    (h1 : ilogExact B NewB ≤ 1) (h2 : ilogExact NewB B ≤ 1) :
    NewB ^ withBasePrecision W B NewB p ≤ B ^ p ∧ B ^ p < NewB ^ (withBasePrecision W B NewB p + 1) := by
  have e : withBasePrecision W B NewB p = withBasePrecisionSpec B NewB p := by
    unfold withBasePrecision
    have a : ¬ ilogExact B NewB > 1 := by omega
    have b : ¬ ilogExact NewB B > 1 := by omega
    simp only [a, b, if_false]
  rw [e]
  exact withBasePrecisionSpec_max B NewB p hB hN

/-- **the width is honoured exactly (`Display`)**: with a width `w` the text is
    `fill^a ++ sign ++ '0'^b ++ core ++ fill^c` and `a + b + c = w − (|sign| + |core|)` (truncated
    subtraction: a text that is long enough gets nothing, nothing is ever cut) — the text has exactly
    `max w (|sign| + |core|)` characters; with the zero flag everything goes after the sign, otherwise to
    the right for `<`, to the left for `>` and by default, split with the extra character on the right
    for `^`.  (The `width` `fmt_round` computes from digit count, exponent and precision IS the length
    of what it prints: `widthG_eq_length`.) -/
theorem display_width_exact (B : Nat) (hB : 2 ≤ B) (m : Mode) (f : FmtSpec) (prec : Option Nat) (r : FRepr)
    (w : Nat) (hw : f.width = some w) :
    ∃ a b c : Nat,
      fmtRound B m f prec r =
        rep a f.fill ++ fSign f.plus r ++ rep b [48] ++ fmtRoundCore B m prec r ++ rep c f.fill ∧
      a + b + c = w - ((fSign f.plus r).length + (fmtRoundCore B m prec r).length) ∧
      (f.zero = true → a = 0 ∧ c = 0) ∧
      (f.zero = false → b = 0 ∧ (f.align = some .left → a = 0) ∧
        ((f.align = some .right ∨ f.align = none) → c = 0) ∧
        (f.align = some .center → a = (a + c) / 2 ∧ c = a + c - (a + c) / 2)) :=
  fmtRound_width B hB m f prec r w hw

/-- **the width is honoured exactly (scientific formats)**; here the alignment decides also under the
    zero flag, which only turns the left share into zeros behind sign and `0x` -/
theorem scientific_width_exact (B : Nat) (m : Mode) (f : FmtSpec) (prec : Option Nat) (upper useHex : Bool)
    (marker : Nat) (r : FRepr) (w : Nat) (hw : f.width = some w) :
    ∃ a b c : Nat,
      fmtSciG B m f prec upper useHex marker r =
        rep a f.fill ++ fSign f.plus r ++ (if useHex then [48, 120] else []) ++ rep b [48] ++
          fmtSciCore B m prec upper useHex marker r ++ rep c f.fill ∧
      a + b + c = w - ((fSign f.plus r).length + (if useHex then 2 else 0) +
        (fmtSciCore B m prec upper useHex marker r).length) ∧
      (f.zero = true → a = 0) ∧ (f.zero = false → b = 0) ∧
      (f.align = some .left → a + b = 0) ∧
      ((f.align = some .right ∨ f.align = none) → c = 0) ∧
      (f.align = some .center → a + b = (a + b + c) / 2) :=
  fmtSciG_width B m f prec upper useHex marker r w hw

/-- **the rounding step of the scientific formats** (`{:.p0e}` and the radix traits): the significand is
    rounded — under the type's mode — to `P = p0 + 1` significant digits (`4·p0 + 4` bits for the
    hexadecimal form): `R` is the integer the mode names for `signif / B^shift`, `shift = digits − P`
    (`0` when nothing is dropped); the pair `(S, e)` handed to the digit printer has the same value
    `S·B^e = R·B^(exp + shift)` — a carry into a new digit (`9.99 → 10.0`) is dropped without changing
    it — and `S` has at most `P` digits -/
theorem scientific_rounding (B : Nat) (hB : 2 ≤ B) (m : Mode) (p0 : Nat) (useHex : Bool) (r : FRepr) :
    Dashu.Model.Float.ModeSpec m r.signif ((B ^ sciShift B p0 useHex r : Nat) : Int) (sciRounded B m p0 useHex r) ∧
    ((sciPair B m (some p0) useHex r).1 : ℚ) * bpowQ B (sciPair B m (some p0) useHex r).2 =
        (sciRounded B m p0 useHex r : ℚ) * bpowQ B (r.exp + (sciShift B p0 useHex r : Int)) ∧
    digitsI B (sciPair B m (some p0) useHex r).1 ≤ sciDigits useHex p0 :=
  ⟨sciRounded_spec B hB m p0 useHex r, sciPair_value B hB m p0 useHex r⟩

/-- **the scientific text denotes the rounded value**: the core of every scientific format is
    `d₀ [. d₁…d_n] marker E` — one leading digit; behind a point (absent when there are none) the remaining
    digits and zeros, exactly `p0` of them under a precision `p0`; all digits below the shown radix (`16`
    for the hexadecimal form of base 2, else `B`) — and `(d₀d₁…d_n)_radix · B^(E − n·k) = |shown value|`
    (`k = 4` for hexadecimal digits, else 1), where the shown value `sciShown` is the exact value without a
    precision and `R·B^(exp + shift)` of `scientific_rounding` with one; the sign printed is the sign of
    the shown value -/
theorem scientific_text_denotes (B : Nat) (hB : 2 ≤ B) (m : Mode) (prec : Option Nat) (upper useHex : Bool)
    (hhex : useHex = true → B = 2) (marker : Nat) (r : FRepr) :
    (∃ (d0 : Nat) (fd : List Nat) (E : Int),
      fmtSciCore B m prec upper useHex marker r =
        chars upper [d0] ++ fracChars upper (if fd = [] then none else some fd) ++ [marker] ++
          printSpecInt 10 false E ∧
      d0 < sciRadix B useHex ∧ (∀ d ∈ fd, d < sciRadix B useHex) ∧
      (∀ p0, prec = some p0 → fd.length = p0) ∧
      (ofDigits (sciRadix B useHex) (d0 :: fd) : ℚ) * bpowQ B (E - ((fd.length * sciK useHex : Nat) : Int)) =
        |sciShown B m prec useHex r|) ∧
    (r.signif < 0 → sciShown B m prec useHex r < 0) ∧ (0 ≤ r.signif → 0 ≤ sciShown B m prec useHex r) ∧
    sciShown B m none useHex r = r.toRat B :=
  ⟨fmtSciCore_denotes B hB m prec upper useHex hhex marker r, (sciShown_sign B hB m prec useHex r).1,
    (sciShown_sign B hB m prec useHex r).2, rfl⟩

/-- **scientific text, read back** (`{:e}`, `{:E}`, `{:b}`, `{:o}`, `{:x}`, `{:X}`, with or without `+`, with or
    without a precision; no width): whenever the marker printed is a scale marker of the base
    (`scientific_markers_accepted`) and the printed exponent `sciExp` is an `isize`, `from_str_native` of the
    same base accepts the text, and the float read is EXACTLY the value shown — the number itself without
    a precision (round trip), its rounding to `p0 + 1` significant digits under the mode with one
    (`scientific_rounding`); its precision is the number of digits shown (`×4` for hexadecimal digits) -/
theorem scientific_print_parse (W : Nat) (hW : 36 < 2 ^ W) (B : Nat) (hB : validRadix B = true) (m : Mode)
    (prec : Option Nat) (upper useHex : Bool) (hhex : useHex = true → B = 2) (marker : Nat)
    (hmk : isScaleMarker B useHex marker = true) (plus : Bool) (r : FRepr)
    (hlo : -(2 ^ 63 : Int) ≤ sciExp B m prec upper useHex r) (hhi : sciExp B m prec upper useHex r < (2 ^ 63 : Int)) :
    ∃ (r' : FRepr) (n : Nat),
      fromStrNative W B (fmtSciG B m { plus := plus } prec upper useHex marker r) = .ok (r', n) ∧
      r'.toRat B = sciShown B m prec useHex r ∧
      (prec = none → r'.toRat B = r.toRat B) ∧
      (∀ p0, prec = some p0 → n = (p0 + 1) * sciK useHex) := by
  obtain ⟨r', n, h1, h2, h3⟩ := fmtSciG_parse W hW B hB m prec upper useHex hhex marker hmk plus r hlo hhi
  exact ⟨r', n, h1, h2, fun hp => by rw [h2, hp]; rfl, h3⟩

/-- the markers the formatting traits print ARE scale markers of their base: `e`/`E` (base 10) and `@`
    (every other base) for `LowerExp`/`UpperExp`; `b` for `Binary`; `o` for `Octal`; `h` for `LowerHex` /
    `UpperHex` of base 16; `p` behind the `0x` prefix for those of base 2 -/
theorem scientific_markers_accepted (B : Nat) (upper : Bool) :
    isScaleMarker B false (if B = 10 then (if upper then 69 else 101) else 64) = true ∧
    isScaleMarker 2 false 98 = true ∧ isScaleMarker 8 false 111 = true ∧ isScaleMarker 16 false 104 = true ∧
    isScaleMarker 2 true 112 = true :=
  sci_markers_accepted B upper

/-- **`{:e}` / `{:E}` then parse**: `LowerExp`/`UpperExp` text of every base 2..36 parses back to the value
    shown — without a precision to the printed float itself -/
theorem lower_upper_exp_parse_back (W : Nat) (hW : 36 < 2 ^ W) (B : Nat) (hB : validRadix B = true) (m : Mode)
    (prec : Option Nat) (upper plus : Bool) (r : FRepr)
    (hlo : -(2 ^ 63 : Int) ≤ sciExp B m prec upper false r) (hhi : sciExp B m prec upper false r < (2 ^ 63 : Int)) :
    ∃ (r' : FRepr) (n : Nat),
      fromStrNative W B (fmtSci B m { plus := plus } prec upper r) = .ok (r', n) ∧
      r'.toRat B = sciShown B m prec false r ∧ (prec = none → r'.toRat B = r.toRat B) := by
  obtain ⟨r', n, h1, h2, h3, _⟩ := scientific_print_parse W hW B hB m prec upper false (fun h => by cases h) _
    (sci_markers_accepted B upper).1 plus r hlo hhi
  exact ⟨r', n, h1, h2, h3⟩

/-- **`{:b}` / `{:o}` / `{:x}` / `{:X}` then parse** (`Binary` of base 2, `Octal` of base 8, the hexadecimal
    traits of base 16, and of base 2 in the form `0xh.hhp±e`): whatever `fmtRadixTrait` prints parses back,
    in the same base, to the value shown -/
theorem radix_trait_parse_back (W : Nat) (hW : 36 < 2 ^ W) (B : Nat) (m : Mode) (prec : Option Nat) (k : String)
    (plus : Bool) (r : FRepr) (t : List Nat) (h : fmtRadixTrait B m { plus := plus } prec k r = some t)
    (hE : ∀ up hex, -(2 ^ 63 : Int) ≤ sciExp B m prec up hex r ∧ sciExp B m prec up hex r < (2 ^ 63 : Int)) :
    ∃ (r' : FRepr) (n : Nat) (hex : Bool), fromStrNative W B t = .ok (r', n) ∧
      r'.toRat B = sciShown B m prec hex r ∧ (prec = none → r'.toRat B = r.toRat B) := by
  have key : ∀ (B : Nat) (hB : validRadix B = true) (up hex : Bool) (hhex : hex = true → B = 2) (mk : Nat)
      (hmk : isScaleMarker B hex mk = true)
      (hE : ∀ up hex, -(2 ^ 63 : Int) ≤ sciExp B m prec up hex r ∧ sciExp B m prec up hex r < (2 ^ 63 : Int)),
      ∃ (r' : FRepr) (n : Nat) (hex' : Bool),
        fromStrNative W B (fmtSciG B m { plus := plus } prec up hex mk r) = .ok (r', n) ∧
        r'.toRat B = sciShown B m prec hex' r ∧ (prec = none → r'.toRat B = r.toRat B) := by
    intro B hB up hex hhex mk hmk hE
    obtain ⟨r', n, h1, h2, h3, _⟩ := scientific_print_parse W hW B hB m prec up hex hhex mk hmk plus r
      (hE up hex).1 (hE up hex).2
    exact ⟨r', n, hex, h1, h2, h3⟩
  unfold fmtRadixTrait at h
  split at h <;> (try cases h)
  · exact key 2 (by decide) false false (fun h => by cases h) 98 (by decide) hE
  · exact key 8 (by decide) false false (fun h => by cases h) 111 (by decide) hE
  · exact key 16 (by decide) false false (fun h => by cases h) 104 (by decide) hE
  · exact key 16 (by decide) true false (fun h => by cases h) 104 (by decide) hE
  · exact key 2 (by decide) false true (fun _ => rfl) 112 (by decide) hE
  · exact key 2 (by decide) true true (fun _ => rfl) 112 (by decide) hE

/-- **the executable rounding specification meets the relational one**: `roundInt m (N / D)` (the
    definition of the six modes over `Rat` that `displaySpec` and `specRound` execute) is the integer
    `ModeSpec m N D` names, for all integers `N`, `D > 0` … -/
theorem round_int_meets_mode_spec (m : Mode) (N D : Int) (hD : 0 < D) :
    Dashu.Model.Float.ModeSpec m N D (roundInt m ((N : ℚ) / (D : ℚ))) :=
  roundInt_modeSpec m N D hD

/-- … and `ModeSpec` names exactly one integer -/
theorem mode_spec_unique (m : Mode) (N D R R' : Int) (hD : 0 < D)
    (h : Dashu.Model.Float.ModeSpec m N D R) (h' : Dashu.Model.Float.ModeSpec m N D R') : R = R' :=
  modeSpec_unique m N D R R' hD h h'

/-- **`displaySpec` ↔ `ModeSpec`**: the executable specification of `{:.k}` — compared with the model's text
    on every Display case of the correspondence run — rounds `x · B^k` to exactly the integer
    `R = precRounded` that `fmt_round` prints (`print_precision_text`) and that `ModeSpec` names
    (`print_precision_rounding`); its text is the sign of the number followed by the fixed-point text of
    `|R|` with `k` fractional digits -/
theorem display_spec_rounds_like_model (B : Nat) (hB : 2 ≤ B) (m : Mode) (plus : Bool) (k : Nat) (r : FRepr) :
    roundInt m (ratOfRepr B r * ((B ^ k : Nat) : ℚ)) = precRounded B m k r ∧
    displaySpec B m plus (some k) r =
      (if r.signif < 0 then [45] else if plus then [43] else []) ++
        fixedPointText B (precRounded B m k r).natAbs k :=
  ⟨roundInt_eq_precRounded B hB m k r, displaySpec_some B hB m plus k r⟩


/-- `with_precision(p)`, `p ≥ 1`, applied to a float of larger (or unlimited) precision never returns more
    than `p` digits (no digit beyond the target precision) -/
theorem with_precision_digits (B : Nat) (hB : 2 ≤ B) (m : Mode) (p : Nat) (hp : 1 ≤ p) (x : FBigM)
    (h : x.prec > p ∨ x.prec = 0) : (fWithPrecision B m coarseNone x p).1.repr.digits B ≤ p := by
  unfold fWithPrecision
  have hc : x.prec > p ∨ (x.prec = 0 ∧ p > 0) := by
    rcases h with h | h
    · exact Or.inl h
    · exact Or.inr ⟨h, by omega⟩
  simp only [hc, if_true]
  exact reprRound_digits_le B hB m coarseNone p hp x.repr

/-- **Tie A (regenerated from float/src/parse.rs)**: the scale markers of the model ARE the characters
    `let scale_pos = match B { .. }` searches for, and the prefix test IS `starts_with("0x") || starts_with("0X")`
    (`Dashu/Gen/FloatText.lean`, rewritten from /repo on every run) -/
theorem scale_markers_regenerated (B : Nat) (hp : Bool) (c : Nat) (src : List Nat) :
    (isScaleMarker B hp c = true ↔ c ∈ Dashu.Gen.float_scaleMarkers B hp) ∧
    (∀ ps, Dashu.Gen.float_hexPrefixes = some ps → hasHexPrefix src = ps.any (fun p => src.take p.length == p)) :=
  ⟨isScaleMarker_eq_gen B hp c, hasHexPrefix_eq_gen src⟩

/-- **Tie A (regenerated from float/src/fmt.rs)**: `LowerExp`/`UpperExp` print the regenerated marker
    (`match B { 10 => Some('e'|'E'), _ => None }`, `unwrap_or('@')`); every row `(base, Trait, upper, hex, marker)`
    of `impl_fmt_with_base!` is executed by the model as `fmt_round_scientific(upper, hex, marker)`, and the
    model implements no other (trait, base) pair -/
theorem fmt_trait_table_regenerated (B : Nat) (m : Mode) (f : FmtSpec) (prec : Option Nat) (r : FRepr) :
    (∀ upper, fmtSci B m f prec upper r = fmtSciG B m f prec upper false (Dashu.Gen.float_expMarker B upper) r) ∧
    (∀ row ∈ Dashu.Gen.float_fmtWithBase,
      fmtRadixTrait row.1 m f prec (traitKind row.2.1) r =
        some (fmtSciG row.1 m f prec row.2.2.1 row.2.2.2.1 row.2.2.2.2 r)) ∧
    (∀ k t, fmtRadixTrait B m f prec k r = some t →
      ∃ row ∈ Dashu.Gen.float_fmtWithBase, row.1 = B ∧ traitKind row.2.1 = k ∧
        t = fmtSciG B m f prec row.2.2.1 row.2.2.2.1 row.2.2.2.2 r) :=
  ⟨fun upper => fmtSci_marker_gen B m f prec upper r, fmtRadixTrait_rows m f prec r,
    fun k t h => fmtRadixTrait_only B m f prec k r t h⟩


/-- **Tie A (regenerated from float/src/utils.rs)**: the model's `ilogExact` — which decides the power-related shortcut of
    `convert_base` and the `p·n` / `p/n` precision of `with_base` — IS `ilog_exact` as written in the source (early returns,
    `while pow < n { pow *= base; exp += 1 }`, `if pow == n { exp } else { 0 }`), for every base ≥ 2 and every `Word` n; a fast path or a changed
    comparison in the source changes the regenerated text and breaks this theorem (or the extraction fails closed) -/
theorem ilog_exact_regenerated (n base : Nat) (hb : 2 ≤ base) (hn : n < 2 ^ 64) :
    ilogExact n base = Dashu.Gen.float_ilogExact n base :=
  ilogExact_eq_gen n base hb hn

/-- **Tie A (regenerated from float/src/convert.rs)**: the precision `FBig::with_base::<NewB>()` derives — which `ilog_exact`
    call is `down` / `up`, the tests `> 1`, `precision.saturating_mul(down)`, `precision / up`, and the exact integer logarithm
    of `B^precision` otherwise — IS the model's `withBasePrecision`, with `ilogExact` for `ilog_exact` (itself regenerated:
    `ilog_exact_regenerated`) and the documented maximum for `BASE.pow(p).ilog(NewB)` (`with_base_precision_documented`) -/
theorem with_base_precision_regenerated (W B NewB p : Nat) :
    withBasePrecision W B NewB p =
      Dashu.Gen.float_withBasePrecision ilogExact (fun b q nb => withBasePrecisionSpec b nb q) B NewB p :=
  withBasePrecision_eq_gen W B NewB p

example : Dashu.Gen.float_ilogExact 32 4 = 0 ∧ Dashu.Gen.float_ilogExact 64 4 = 3 ∧ Dashu.Gen.float_ilogExact 4 32 = 0 := by decide

/-- **zero-padded scientific text, read back**: with the zero flag (right or default alignment, any width, with
    or without `+`) — or without a width — the text parses back to exactly the value shown; the padding zeros
    stand behind sign / `0x` and only lengthen the integer digits -/
theorem padded_scientific_print_parse (W : Nat) (hW : 36 < 2 ^ W) (B : Nat) (hB : validRadix B = true) (m : Mode)
    (prec : Option Nat) (upper useHex : Bool) (hhex : useHex = true → B = 2) (marker : Nat)
    (hmk : isScaleMarker B useHex marker = true) (f : FmtSpec)
    (hf : (f.zero = true ∧ (f.align = some .right ∨ f.align = none)) ∨ f.width = none) (r : FRepr)
    (hlo : -(2 ^ 63 : Int) ≤ sciExp B m prec upper useHex r) (hhi : sciExp B m prec upper useHex r < (2 ^ 63 : Int)) :
    ∃ (r' : FRepr) (n : Nat),
      fromStrNative W B (fmtSciG B m f prec upper useHex marker r) = .ok (r', n) ∧
      r'.toRat B = sciShown B m prec useHex r :=
  fmtSciG_parse_padded W hW B hB m prec upper useHex hhex marker hmk f hf r hlo hhi

/-- **`with_base::<NewB>()`** (and its forms `to_decimal` = `with_rounding::<HalfAway>().with_base::<10>()`,
    `to_binary` = `with_rounding::<Zero>().with_base::<2>()`): `with_base_and_precision` at the derived precision
    `q = withBasePrecision` — whenever it returns without going through `ln`/`exp`, the result is the exact value
    rounded to `q` digits under the contract and has at most `q + 1` digits; for bases that are not powers of
    one another `q` is the documented maximum (`NewB^q ≤ B^p < NewB^(q+1)`) -/
theorem with_base_contract (W B NB : Nat) (hB : 2 ≤ B) (hNB : 2 ≤ NB) (m : Mode) (p : Nat) (r : FRepr)
    (hq : 1 ≤ withBasePrecision W B NB p) (res : Rounded FRepr)
    (h : convertBase W B NB m (withBasePrecision W B NB p) r = .ok res) :
    Contract NB m (withBasePrecision W B NB p) (r.toRat B) (res.1.toRat NB) res.2 ∧
    res.1.digits NB ≤ withBasePrecision W B NB p + 1 ∧
    (ilogExact B NB ≤ 1 → ilogExact NB B ≤ 1 →
      NB ^ withBasePrecision W B NB p ≤ B ^ p ∧ B ^ p < NB ^ (withBasePrecision W B NB p + 1)) :=
  ⟨convertBase_contract W B NB hB hNB m _ hq r res h, convertBase_digits_le_all W B NB hB hNB m _ hq r res h,
    fun h1 h2 => with_base_precision_model W B NB p (by omega) hNB h1 h2⟩


/-- **the text `Display` prints IS the specification text** (no width; with or without `+` and precision):
    `fmt_round` = `displaySpec` — without a precision the exact positional expansion of the value (digits of
    `|signif| · B^exp` resp. of `|signif|` with `−exp` fractional positions), with precision `k` the sign of the
    number and the fixed-point text, `k` fractional digits, of `roundInt m (x · B^k)` (the value rounded under
    the mode, `round_int_meets_mode_spec`).  Hypothesis: zero is written with exponent 0 (true of every
    normalised repr, i.e. of everything `Repr::new` returns).  This turns the run-time comparison of the two
    texts in the driver (`f.fmt disp` without width) into a theorem. -/
theorem display_text_is_spec (B : Nat) (hB : 2 ≤ B) (m : Mode) (plus : Bool) (prec : Option Nat) (r : FRepr)
    (hz : r.signif = 0 → r.exp = 0) :
    fmtRound B m { plus := plus } prec r = displaySpec B m plus prec r :=
  display_text_eq_spec B hB m plus prec r hz

/-- … in particular for every float the library can hold (`Repr::new` normalises; zero gets exponent 0) -/
theorem display_text_is_spec_normalised (B : Nat) (hB : 2 ≤ B) (m : Mode) (plus : Bool) (prec : Option Nat)
    (s e : Int) :
    fmtRound B m { plus := plus } prec (FRepr.new B s e) = displaySpec B m plus prec (FRepr.new B s e) :=
  display_text_eq_spec_new B hB m plus prec s e


/-- **the scale of a literal is `[+|-] d+` inside the isize range** (round 7).  `parseIsize` — the model of
    `str::parse::<isize>()`, shared by the parser model and by the grammar `parseFloatSpec` — is characterised
    completely by the documented grammar `IsizeText` (an existential statement that does not mention the
    control flow): it answers `z` exactly when the text is an optional sign followed by at least one ASCII
    decimal digit, `z` is the signed number the digits spell (leading zeros and `+` allowed) and
    `−2^(bits−1) ≤ z < 2^(bits−1)`; every other text is an error, `NoDigits` for the empty text and
    `InvalidDigit` otherwise (in particular for a lone sign, any other byte, and a value one beyond either limit). -/
theorem parse_isize_spec (bits : Nat) (s : List Nat) :
    (∀ z, parseIsize bits s = .ok z ↔ IsizeText bits s z) ∧
    (∀ e, parseIsize bits s = .error e → e = if s = [] then .noDigits else .invalidDigit) ∧
    (∀ z z', IsizeText bits s z → IsizeText bits s z' → z = z') :=
  ⟨parseIsize_ok_iff bits s, parseIsize_error bits s, fun z z' => IsizeText_unique bits s z z'⟩

/-- **the scale split of `Repr::from_str_native`** (text behind the LAST scale marker, `parse::<isize>()`), over the
    grammar of the scale: without a marker the scale is 0 and the body is the whole text; with a marker at `pos`
    the split succeeds exactly when the text behind it is an `IsizeText` of 64 bits — the scale is its value, the
    body the text before the marker — and fails exactly when it is not, with `NoDigits` when nothing follows the
    marker and `InvalidDigit` otherwise. -/
theorem scale_split_spec (B : Nat) (hp : Bool) (src : List Nat) :
    (∀ v pm body, splitScale B hp src = .ok (v, pm, body) ↔
      (rfindIdx (isScaleMarker B hp) src = none ∧ v = 0 ∧ pm = false ∧ body = src) ∨
      ∃ pos, rfindIdx (isScaleMarker B hp) src = some pos ∧ IsizeText 64 (src.drop (pos + 1)) v ∧
        pm = (B == 2 && (src.getD pos 0 == 112 || src.getD pos 0 == 80)) ∧ body = src.take pos) ∧
    (∀ e, splitScale B hp src = .error e ↔
      ∃ pos, rfindIdx (isScaleMarker B hp) src = some pos ∧ (∀ v, ¬ IsizeText 64 (src.drop (pos + 1)) v) ∧
        e = if src.drop (pos + 1) = [] then .noDigits else .invalidDigit) :=
  ⟨splitScale_ok_iff B hp src, splitScale_error_iff B hp src⟩

/-- **the integer inside the float `Debug` forms is C07's `DoubleEnd` text** (link to C07's proved kernel, round 8): `debugInt` — the
    significand printer of `debugRepr` / `debugFBig`, the mirrored `Debug for Repr<B>` / `Debug for FBig<R, B>` — equals the closed
    form `debugSpec` of C07 for every word size, flag combination and integer, and therefore is the text the word-level mirror of
    `DoubleEnd::fmt` (`fmt_non_power_two` + `format_prepared`; C07 `debug_text`) yields without failing any check, for every even
    word size `≥ 8` and every first guess `est` that passes `log_word_base`'s own `assert!` (`est = 1`, the driver's, always does).
    The driver's run-time comparison `debugSpec = debugInt` is this theorem. -/
theorem debug_significand_is_double_end (W : Nat) (alt plus : Bool) (z : Int) :
    debugInt W alt plus z = debugSpec W alt plus z ∧
    (8 ≤ W → 2 ∣ W → ∀ est, (2 ^ (2 * W) ≤ z.natAbs → 10 ^ est ≤ z.natAbs) →
      doubleEndFmt W est alt plus z = .ok (debugInt W alt plus z)) ∧
    (8 ≤ W → 2 ∣ W → doubleEndFmt W 1 alt plus z = .ok (debugInt W alt plus z)) :=
  ⟨Dashu.Proofs.Text.FloatDebug.debugInt_eq_debugSpec W alt plus z,
    fun hW hev est hest => Dashu.Proofs.Text.FloatDebug.doubleEndFmt_eq_debugInt W est hW hev alt plus z hest,
    fun hW hev => Dashu.Proofs.Text.FloatDebug.doubleEndFmt_one_eq_debugInt W hW hev alt plus z⟩

/-- **`Debug` of finite `Repr<B>` / `FBig<R, B>` over the `DoubleEnd` text of the significand**: with `T` the plain and `Ta` the
    `{:#?}` text `DoubleEnd::fmt` yields for the significand (C07's mirrored code), `{:?}` of a `Repr` is `T * B ^ e`, of an `FBig`
    `T * B ^ e (prec: p)`; the `significand:` field of the pretty forms is `Ta` in base 10 and `T (N bits)` / `T (N digits)`
    (`N = digits::<B>`) in base 2 / every other base.  `T` is the sign and ALL decimal digits (`Display` text, C07
    `print_eq_reference`) while `|significand| < 2^(2W)`; beyond, the first `dpw` and the last `dpw` digits of that text around `..`,
    which never overlap (`dpw` = decimal digits per word, 19 for 64-bit words; C07 `debug_head_tail_true_digits`). -/
theorem debug_float_forms (W : Nat) (hW : 8 ≤ W) (hev : 2 ∣ W) (B : Nat) (m : Mode) (r : FRepr) (prec : Nat) :
    ∃ T Ta : List Nat,
      doubleEndFmt W 1 false false r.signif = .ok T ∧ doubleEndFmt W 1 true false r.signif = .ok Ta ∧
      debugRepr W B false r = T ++ strBytes " * " ++ printSpec 10 false B ++ strBytes " ^ " ++ printSpecInt 10 false r.exp ∧
      debugFBig W B m false r prec = T ++ strBytes " * " ++ printSpec 10 false B ++ strBytes " ^ " ++
        printSpecInt 10 false r.exp ++ strBytes " (prec: " ++ printSpec 10 false prec ++ [41] ∧
      debugSignifField W 10 r.signif = Ta ∧
      (B ≠ 10 → debugSignifField W B r.signif = T ++ strBytes " (" ++ printSpec 10 false (digitsI B r.signif) ++
        strBytes (if B = 2 then " bits)" else " digits)")) ∧
      (r.signif.natAbs < 2 ^ (2 * W) → T = (if r.signif < 0 then [45] else []) ++ printSpec 10 false r.signif.natAbs) ∧
      (2 ^ (2 * W) ≤ r.signif.natAbs →
        T = (if r.signif < 0 then [45] else []) ++ (printSpec 10 false r.signif.natAbs).take (radixInfo W 10).dpw ++ [46, 46] ++
          (printSpec 10 false r.signif.natAbs).drop ((printSpec 10 false r.signif.natAbs).length - (radixInfo W 10).dpw) ∧
        2 * (radixInfo W 10).dpw < (printSpec 10 false r.signif.natAbs).length) := by
  obtain ⟨h1, h2, h3, h4⟩ := Dashu.Proofs.Text.FloatDebug.debug_forms W B m r prec
  refine ⟨debugInt W false false r.signif, debugInt W true false r.signif,
    Dashu.Proofs.Text.FloatDebug.doubleEndFmt_one_eq_debugInt W hW hev false false r.signif,
    Dashu.Proofs.Text.FloatDebug.doubleEndFmt_one_eq_debugInt W hW hev true false r.signif, h1, h2, h3, h4,
    Dashu.Proofs.Text.FloatDebug.debugInt_small W r.signif, ?_⟩
  intro hbig
  rw [Dashu.Proofs.Text.FloatDebug.debugInt_eq_debugSpec]
  have h := Dashu.Props.C07Debug.debug_head_tail_true_digits W hW hev r.signif hbig
  exact ⟨h.1, h.2.2.2⟩

-- non-vacuity
example : ilogExact 16 2 = 4 ∧ ilogExact 8 2 = 3 ∧ ilogExact 10 2 = 0 ∧ ilogExact 36 6 = 2 := by decide
example : (2 : Nat) ≤ 10 ∧ (1 : Nat) ≤ 53 := by decide
example : validRadix 10 = true ∧ validRadix 2 = true ∧ validRadix 36 = true ∧ (36 : Nat) < 2 ^ 64 := by decide

-- every theorem with hypotheses, instantiated on a concrete non-trivial value
example := convert_base_pow_up_branch 64 2 16 .zero 10 ⟨5, -3⟩ (by decide) (by decide)
example := convert_base_pow_up_contract 2 4 (by decide) (by decide) .halfEven 3 (by decide) ⟨12345, -7⟩
example := ilog_exact_sound 16 2 4 (by decide) (by decide)
example := convert_base_pow_down_branch 64 16 2 .up 7 ⟨-0x1abc, 5⟩ (by decide) (by decide)
example := convert_base_pow_down_contract 2 4 (by decide) .up 7 (by decide) ⟨-0x1abc, 5⟩
example := convert_base_small_pos_contract 10 2 (by decide) .halfAway 20 (by decide) ⟨-123456789, 30⟩ (by decide)
example := with_base_precision_documented 2 10 53 (by decide) (by decide)
example := parse_literal_exact 64 (by decide) 10 (by decide) true (some true) [1, 2] (some [5, 0]) (some (-3))
  (by decide) (by decide) (by decide) (by intro z h; cases h; decide)
example := print_parse_round_trip 64 (by decide) 36 (by decide) .halfEven ⟨-(36 ^ 20 + 1), -25⟩
example : True := by
  obtain ⟨r, h, _⟩ := parse_literal_exact 64 (by decide) 10 (by decide) false none [1, 2] (some [5]) none
    (by decide) (by decide) (by decide) (by intro z h; cases h)
  have := parse_ok_denotes 64 (by decide) 10 (by decide) _ r _ h
  trivial
example := print_precision_text 10 (by decide) .halfEven 2 ⟨-12345, -3⟩
example := print_precision_rounding 10 (by decide) .up 2 ⟨-12345, -3⟩
example := print_precision_parse 64 (by decide) 10 (by decide) .away 0 ⟨5, -1⟩
example := padded_print_parse_round_trip 64 (by decide) 10 (by decide) .zero
  { zero := true, width := some 20, plus := true } (Or.inl rfl) ⟨-12345, -3⟩
example := padded_print_precision_parse 64 (by decide) 10 (by decide) .halfAway
  { zero := true, width := some 20 } (Or.inl rfl) 1 ⟨-12345, -3⟩
example := display_padding_keeps_digits 10 .zero { width := some 20, align := some .center, fill := [42] } (some 2) ⟨-12345, -3⟩
example := exact_when_fits 10 .up 5 ⟨123, 4⟩ (by decide)
example := from_ieee_exact 52 11 0x3FF8000000000000 _ _ rfl
example := from_ieee_exact 23 8 0x80000001 _ _ rfl
example := with_precision_contract 10 (by decide) .halfEven 3 (by decide) ⟨⟨-12345, -2⟩, 5⟩ (Or.inr (by decide))
example := with_precision_unlimited 10 .up ⟨⟨-12345, -2⟩, 5⟩
example := scientific_padding_keeps_digits 2 .zero { width := some 20, zero := true } (some 2) true true 112 ⟨0x1ff, 3⟩
example := parse_eq_grammar 64 (by decide) 2 (by decide) [48, 120, 49, 46, 56, 112, 45, 51]
example := grammar_digit_string 16 [49, 95, 102] false

example := convert_base_long_dividend_contract 2 (by decide) .halfEven 3 (by decide) ⟨12345, 0⟩ ⟨5, 0⟩ (by decide) (by decide)
example := convert_base_exact_paths_contract 64 2 16 (by decide) (by decide) .zero 10 (by decide) ⟨5, -3⟩ _
  (convert_base_pow_up_branch 64 2 16 .zero 10 ⟨5, -3⟩ (by decide) (by decide))
example := convert_base_result_digits 64 2 16 (by decide) (by decide) .zero 10 (by decide) ⟨5, -3⟩ _
  (convert_base_pow_up_branch 64 2 16 .zero 10 ⟨5, -3⟩ (by decide) (by decide))
example := with_base_precision_model 64 10 2 17 (by decide) (by decide) (by decide) (by decide)
example := display_width_exact 10 (by decide) .halfEven { width := some 12, align := some .center, fill := [42] } (some 2)
  ⟨-12345, -3⟩ 12 rfl
example := scientific_width_exact 2 .zero { width := some 20, zero := true, plus := true } (some 2) true true 112 ⟨0x1ff, 3⟩ 20 rfl
example := scientific_rounding 10 (by decide) .halfEven 2 false ⟨-99951, -3⟩
example := scientific_text_denotes 2 (by decide) .up (some 1) true true (fun _ => rfl) 112 ⟨0x1ff, 3⟩
-- 9.9951e1 rounded to 3 significant digits carries into a new digit: the printed pair is (100, 0), value 1.00e2
example : sciRounded 10 .halfEven 2 false ⟨99951, -3⟩ = 1000 ∧ sciShift 10 2 false ⟨99951, -3⟩ = 2 ∧
    sciPair 10 .halfEven (some 2) false ⟨99951, -3⟩ = (100, 0) := by decide
-- 9.9951e1 printed with `{:+.2e}` is `+1.00e2`; the printed exponent is an isize; it parses back to 100
example : fmtSciG 10 .halfEven { plus := true } (some 2) false false 101 ⟨99951, -3⟩ = [43, 49, 46, 48, 48, 101, 50] := by decide +kernel
example := scientific_print_parse 64 (by decide) 10 (by decide) .halfEven (some 2) false false (fun h => by cases h) 101
  (by decide) true ⟨99951, -3⟩ (by decide +kernel) (by decide +kernel)
example := scientific_print_parse 64 (by decide) 2 (by decide) .up none true true (fun _ => rfl) 112
  (by decide) false ⟨-0x1ff, 3⟩ (by decide +kernel) (by decide +kernel)
example := lower_upper_exp_parse_back 64 (by decide) 36 (by decide) .away (some 1) true false ⟨-(36 ^ 5 + 1), -25⟩
  (by decide +kernel) (by decide +kernel)
example := radix_trait_parse_back 64 (by decide) 2 .zero (some 1) "uhex" true ⟨0x1ff, 3⟩ _ rfl
  (fun up hex => by cases up <;> cases hex <;> decide +kernel)
example := round_int_meets_mode_spec .halfEven (-7) 2 (by decide)
example := display_text_is_spec 10 (by decide) .halfEven true (some 2) ⟨-12345, -3⟩ (by decide)
example := display_text_is_spec 10 (by decide) .up false none ⟨0, 0⟩ (by decide)
example := padded_scientific_print_parse 64 (by decide) 10 (by decide) .halfEven (some 2) false false (fun h => by cases h) 101
  (by decide) { zero := true, width := some 12, plus := true } (Or.inl ⟨rfl, Or.inr rfl⟩) ⟨99951, -3⟩ (by decide +kernel) (by decide +kernel)
example := with_base_contract 64 2 16 (by decide) (by decide) .zero 40 ⟨5, -3⟩ (by decide) _
  (convert_base_pow_up_branch 64 2 16 .zero _ ⟨5, -3⟩ (by decide) (by decide))
-- 12345 in base 10 brought to precision 2 in the same base: 12000, rounded down
example : (reprRound 10 .zero coarseNone 2 (FRepr.new 10 12345 0)).1 = ⟨12, 3⟩ := by decide +kernel
example := convert_base_same_base 64 10 .zero 2 ⟨12345, 0⟩
example := with_precision_digits 10 (by decide) .halfEven 3 (by decide) ⟨⟨-12345, -2⟩, 5⟩ (Or.inl (by decide))
example : (112 : Nat) ∈ Dashu.Gen.float_scaleMarkers 2 true ∧ (2, "LowerHex", false, true, 112) ∈ Dashu.Gen.float_fmtWithBase := by decide
example := mode_spec_unique .halfAway 5 2 _ _ (by decide) (round_int_meets_mode_spec .halfAway 5 2 (by decide))
  (round_int_meets_mode_spec .halfAway 5 2 (by decide))
example := display_spec_rounds_like_model 10 (by decide) .halfEven true 2 ⟨-12345, -3⟩

-- round 7: "-012" is an IsizeText of -12; the limits of 64 bits: isize::MIN accepted, isize::MAX + 1 and a lone sign rejected
example : IsizeText 64 [45, 48, 49, 50] (-12) := ⟨[45], [0, 1, 2], by simp, by simp, by decide, rfl, by decide, by decide, by decide⟩
example : parseIsize 64 [45, 48, 49, 50] = .ok (-12) := ((parse_isize_spec 64 _).1 _).mpr ⟨[45], [0, 1, 2], by simp, by simp, by decide, rfl, by decide, by decide, by decide⟩
example : parseIsize 64 [45,57,50,50,51,51,55,50,48,51,54,56,53,52,55,55,53,56,48,56] = .ok (-9223372036854775808) ∧
    parseIsize 64 [57,50,50,51,51,55,50,48,51,54,56,53,52,55,55,53,56,48,56] = .error .invalidDigit ∧
    parseIsize 64 [43] = .error .invalidDigit ∧ parseIsize 64 [] = .error .noDigits := by decide +kernel
example : splitScale 10 false [49, 101, 43, 55] = .ok (7, false, [49]) ∧ splitScale 10 false [49, 101] = .error .noDigits ∧
    splitScale 10 false [49, 101, 120] = .error .invalidDigit := by decide +kernel

-- round 8: the float Debug forms over C07's DoubleEnd text; a three-word significand prints head..tail
example := debug_significand_is_double_end 64 true true (-(10 ^ 40 + 7))
example := (debug_significand_is_double_end 64 false false (2 ^ 130 + 1)).2.2 (by decide) (by decide)
example := debug_float_forms 64 (by decide) (by decide) 2 .zero ⟨-(2 ^ 130 + 1), -7⟩ 131
example : debugRepr 64 10 false ⟨-12345, -3⟩ = strBytes "-12345 * 10 ^ -3" ∧
    debugInt 64 false false (2 ^ 128) = strBytes "3402823669209384634..3374607431768211456" := by decide +kernel

end Dashu.Props.C08
