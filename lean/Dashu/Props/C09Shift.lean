import Dashu.Proofs.Int.Bits
import Dashu.Proofs.Int.Div
import Dashu.Props.GenMath
/-
  C09 audit of `integer/src/shift.rs` / `math.rs`: every function of the two files has a mirrored
  definition, some in the bit model (`Model/Int/Bits.lean`: `shlBits`, `shrBits`, `mathShlDword`) and all of
  them in the division model (`Model/Int/Div.lean`, namespace `Div`: `shlLoop/shlInPlace`, `shrWord`,
  `shrLoop/shrInPlaceWithCarry`, `shrInPlaceOneWord`, `shrInPlace`, `shlDword`).  The theorems below show
  the two sets are ONE model (equal as functions), and that the word kernels are the regenerated text of
  `math.rs`.
-/
namespace Dashu.Props.C09Shift
open Dashu.Model Dashu

/-- `shift::shl_in_place` loop: bit model = division model -/
theorem shlBits_eq_shlLoop (W s : Nat) (ws : List Nat) (c : Nat) :
    shlBits W ws s c = Div.shlLoop W s ws c := by
  induction ws generalizing c with
  | nil => rfl
  | cons a as ih => simp only [shlBits, Div.shlLoop, ih]

/-- `shift::shl_in_place` including its `shift == 0` early return (which leaves the words untouched) -/
theorem shlBits_eq_shlInPlace (W s : Nat) (ws : List Nat) (hw : IsWords W ws) :
    shlBits W ws s 0 = Div.shlInPlace W ws s := by
  unfold Div.shlInPlace
  by_cases h0 : s = 0
  · subst h0
    rw [if_pos rfl]
    induction ws with
    | nil => rfl
    | cons a as ih =>
      have ha := hw.head
      have e : a * 2 ^ 0 = a := by simp
      simp only [shlBits, e, Nat.div_eq_of_lt ha, Nat.mod_eq_of_lt ha, ih hw.tail, Nat.or_zero]
  · rw [if_neg h0]; exact shlBits_eq_shlLoop W s ws 0

/-- `math::shl_dword`: bit model = division model (the same expression) -/
theorem mathShlDword_eq (W d s : Nat) : mathShlDword W d s = Div.shlDword W d s := rfl

/-- `shift::shr_in_place_with_carry(words, s, 0)` loop: bit model = division model -/
theorem shrBits_eq_shrLoop (W s : Nat) (hs : s ≤ W) (ws : List Nat) :
    shrBits W s ws = Div.shrLoop W s ws 0 := by
  induction ws with
  | nil => rfl
  | cons a as ih => simp only [shrBits, Div.shrLoop, ih, Div.shrWord_spec W a s hs]

/-- `shift::shr_in_place(words, s)` for `s < WORD_BITS` (the only counts `shr_large(_ref)` passes: `rhs % WORD_BITS`),
    including the `shift == 0` early return -/
theorem shrBits_eq_shrInPlace (W s : Nat) (hs : s < W) (ws : List Nat) :
    shrBits W s ws = Div.shrInPlace W ws s := by
  unfold Div.shrInPlace Div.shrInPlaceWithCarry
  rw [if_neg (by omega)]
  by_cases h0 : s = 0
  · subst h0
    rw [if_pos rfl]
    induction ws with
    | nil => rfl
    | cons a as ih => simp [shrBits, ih, Nat.mod_one]
  · rw [if_neg h0]; exact shrBits_eq_shrLoop W s (by omega) ws

/-- the word kernels of the division model are the regenerated text of `math.rs` -/
theorem div_kernels_are_generated (W x s : Nat) (hW : 1 ≤ W) (hs : s ≤ W) (hx : x < 2 ^ (2 * W)) :
    Gen.MathHelpers.shr_word W x s = some (Div.shrWord W x s) ∧
    Gen.MathHelpers.shl_dword W x s = some (Div.shlDword W x s) :=
  ⟨by rw [Props.GenMath.gen_shr_word W x s hW hs, Div.shrWord_spec W x s hs],
   by rw [Props.GenMath.gen_shl_dword W x s hW hx hs]; rfl⟩

-- non-vacuity: a 3-word slice shifted right by 5 and left by 63 in both models, the carries crossing both word boundaries
example : IsWords 64 [2 ^ 64 - 1, 7, 2 ^ 63 + 9] ∧
    shrBits 64 5 [2 ^ 64 - 1, 7, 2 ^ 63 + 9] = ([2 ^ 59 - 1 + 7 * 2 ^ 59, 9 * 2 ^ 59, 2 ^ 58], 31 * 2 ^ 59) ∧
    Div.shrInPlace 64 [2 ^ 64 - 1, 7, 2 ^ 63 + 9] 5 = ([2 ^ 59 - 1 + 7 * 2 ^ 59, 9 * 2 ^ 59, 2 ^ 58], 31 * 2 ^ 59) ∧
    (shlBits 64 [2 ^ 64 - 1, 7, 2 ^ 63 + 9] 63 0).2 = 2 ^ 62 + 4 := by
  refine ⟨by decide, by decide, by decide, by decide⟩

end Dashu.Props.C09Shift
