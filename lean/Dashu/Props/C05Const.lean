import Dashu.Model.Int.FloatConst
import Dashu.Props.GenFloatNorm
/-
  C05 (round 5): `FBig::from_parts_const`'s own normaliser (mirrored in `Model/Int/FloatConst.lean`) returns exactly
  the representation `Repr::normalize` returns — for every base `B ≥ 2`, every double-word significand, both signs.
-/
namespace Dashu.Props.C05
open Dashu.Model Dashu.Model.NT Dashu.Props.GenFloatNorm

/-- the stripping loop with enough fuel is the multiplicity computation -/
theorem constStrip_eq_removeAll (B : Nat) (hB : 2 ≤ B) : ∀ (fuel s : Nat) (e : Int), s ≠ 0 → s < 2 ^ fuel →
    constStrip B fuel s e = ((removeAll B s).1, e + ((removeAll B s).2 : Int)) := by
  intro fuel
  induction fuel with
  | zero => intro s e hs h; simp at h; omega
  | succ fuel ih =>
    intro s e hs hlt
    unfold constStrip
    rw [removeAll]
    by_cases hm : s % B = 0
    · rw [if_pos hm, dif_neg (by omega)]
      have hdm := Nat.div_add_mod s B
      have hq : s / B ≠ 0 := by
        intro h0; rw [h0, hm] at hdm; omega
      have hle : 2 * (s / B) ≤ s := by
        calc 2 * (s / B) ≤ B * (s / B) := Nat.mul_le_mul_right _ hB
          _ ≤ s := by omega
      have hlt' : s / B < 2 ^ fuel := by rw [Nat.pow_succ] at hlt; omega
      rw [ih (s / B) (e + 1) hq hlt']
      generalize removeAll B (s / B) = p
      obtain ⟨m, k⟩ := p
      simp only
      congr 1
      push_cast; omega
    · rw [if_neg hm, dif_pos (Or.inr (Or.inr hm))]
      simp

/-- **`from_parts_const` builds the normalised representation**: the same `Repr` as `Repr::new(±significand, exponent)`
    (`FRepr.normalize`, hence — `GenFloatNorm.normalize_is_model` — as the regenerated `Repr::normalize`) -/
theorem from_parts_const_normalized (W B : Nat) (hB : 2 ≤ B) (neg : Bool) (s : Nat) (hs : s < 2 ^ (2 * W)) (e : Int)
    (mp : Option Nat) :
    (fromPartsConst W B neg s e mp).1 = (FRepr.mk (if neg then -(s : Int) else (s : Int)) e).normalize B := by
  unfold fromPartsConst FRepr.normalize
  by_cases h0 : s = 0
  · subst h0; cases neg <;> simp
  · have hpos : 0 < s := Nat.pos_of_ne_zero h0
    have hne : (if neg then -(s : Int) else (s : Int)) ≠ 0 := by cases neg <;> simp <;> omega
    have habs : (if neg then -(s : Int) else (s : Int)).natAbs = s := by cases neg <;> simp
    have hneg : ((if neg then -(s : Int) else (s : Int)) < 0) ↔ neg = true := by cases neg <;> simp <;> omega
    rw [if_neg h0, if_neg hne, habs]
    by_cases hp : B = 2 ^ (bitLen B - 1)
    · rw [if_pos hp]
      obtain ⟨f1, f2, f3⟩ := pow2_facts B s hB hpos hp
      have htz : trailingZeros B = bitLen B - 1 := by
        conv_lhs => rw [hp]
        exact tz_two_pow _
      generalize hrm : removeAll B s = p at f1 f2 f3
      obtain ⟨m, k⟩ := p
      simp only at f1 f2 f3 ⊢
      rw [htz, ← f1, Nat.mul_comm k, ← f2]
      cases neg <;> simp [hneg] <;> (intro h; exact absurd h h0)
    · rw [if_neg hp]
      rw [constStrip_eq_removeAll B hB (2 * W) s e h0 hs]
      generalize removeAll B s = p
      obtain ⟨m, k⟩ := p
      cases neg <;> simp [hneg] <;> (intro h; exact absurd h h0)

example : (fromPartsConst 64 10 true 1234000 (-2) none).1 = ⟨-1234, 1⟩ ∧ (fromPartsConst 64 16 false 0x1200 0 (some 9)) = (⟨0x12, 2⟩, 9) ∧
    (fromPartsConst 64 10 false (2 * 10 ^ 38 + 1) 0 none).2 = 38 := by decide +kernel

/-- the precision loop: its result `d` satisfies `s < B^(d+1)` (one spare digit at most; `d` is the digit count unless
    `B^digits` leaves the double word, where the real loop stops one short) -/
theorem constDigits_spec (B lim s : Nat) (hB : 2 ≤ B) (hs : s < lim) : ∀ (fuel pow digits : Nat),
    pow = B ^ digits → pow ≤ s → lim ≤ 2 ^ (fuel + digits) →
    s < B ^ (constDigits B lim s fuel pow digits + 1) := by
  intro fuel
  induction fuel with
  | zero =>
    intro pow digits hp hle hlim
    exfalso
    have h2 : 2 ^ digits ≤ B ^ digits := Nat.pow_le_pow_left hB digits
    simp only [Nat.zero_add] at hlim
    omega
  | succ fuel ih =>
    intro pow digits hp hle hlim
    unfold constDigits
    have hnext : pow * B = B ^ (digits + 1) := by rw [hp, Nat.pow_succ]
    by_cases h1 : pow * B ≥ lim
    · rw [if_pos h1]; rw [← hnext]; omega
    · rw [if_neg h1]
      by_cases h2 : pow * B > s
      · rw [if_pos h2]
        have : B ^ (digits + 1) ≤ B ^ (digits + 1 + 1) := Nat.pow_le_pow_right (by omega) (by omega)
        omega
      · rw [if_neg h2]
        exact ih (pow * B) (digits + 1) hnext (by omega) (by
          have : fuel + 1 + digits = fuel + (digits + 1) := by omega
          rw [← this]; exact hlim)

/-- **`from_parts_const` keeps the invariant of the comparison theorems**: its significand has at most
    `precision + 1` digits (`|signif| < B^(precision+1)`, the hypothesis form of `float_cmp`), whatever `min_precision` -/
theorem from_parts_const_fits (W B : Nat) (hB : 2 ≤ B) (neg : Bool) (s : Nat) (hs : s < 2 ^ (2 * W)) (e : Int)
    (mp : Option Nat) :
    (fromPartsConst W B neg s e mp).1.signif.natAbs < B ^ ((fromPartsConst W B neg s e mp).2 + 1) := by
  unfold fromPartsConst
  by_cases h0 : s = 0
  · rw [if_pos h0]; simp; omega
  · rw [if_neg h0]
    have hpos : 0 < s := Nat.pos_of_ne_zero h0
    have key : ∀ (m digits : Nat), m < B ^ (digits + 1) →
        (if neg then -(m : Int) else (m : Int)).natAbs <
          B ^ ((match mp with | some p => max p digits | none => digits) + 1) := by
      intro m digits hm
      have ha : (if neg then -(m : Int) else (m : Int)).natAbs = m := by cases neg <;> simp
      rw [ha]
      cases mp with
      | none => exact hm
      | some p =>
        have : B ^ (digits + 1) ≤ B ^ (max p digits + 1) := Nat.pow_le_pow_right (by omega) (by omega)
        simp only; omega
    by_cases hp : B = 2 ^ (bitLen B - 1)
    · rw [if_pos hp]
      simp only
      apply key
      have htz : trailingZeros B = bitLen B - 1 := by
        conv_lhs => rw [hp]
        exact tz_two_pow _
      rw [htz]
      have hj : 0 < bitLen B - 1 := by
        by_contra h0'
        have : bitLen B - 1 = 0 := by omega
        rw [this] at hp; omega
      generalize bitLen B - 1 = j at hp hj
      generalize s / 2 ^ (trailingZeros s / j * j) = m
      have hm := lt_two_pow_bitLen m
      have hdiv : bitLen m ≤ j * ((bitLen m + j - 1) / j) := by
        have := Nat.div_add_mod (bitLen m + j - 1) j
        have := Nat.mod_lt (bitLen m + j - 1) hj
        omega
      have : 2 ^ bitLen m ≤ B ^ ((bitLen m + j - 1) / j + 1) := by
        rw [hp, ← Nat.pow_mul]
        apply Nat.pow_le_pow_right (by omega)
        rw [Nat.mul_add]; omega
      omega
    · rw [if_neg hp]
      simp only
      apply key
      rw [constStrip_eq_removeAll B hB (2 * W) s e h0 hs]
      simp only
      have hspec := Dashu.Model.removeAll_spec B hB s h0
      generalize removeAll B s = p at hspec
      obtain ⟨m, k⟩ := p
      simp only at hspec ⊢
      have hm0 : m ≠ 0 := by
        intro h; rw [h] at hspec; simp at hspec
      have hmle : m ≤ s := by
        have : 1 ≤ B ^ k := Nat.one_le_pow _ _ (by omega)
        calc m = m * 1 := by omega
          _ ≤ m * B ^ k := Nat.mul_le_mul_left _ this
          _ = s := hspec.1.symm
      exact constDigits_spec B (2 ^ (2 * W)) m hB (by omega) (2 * W + 1) 1 0 (by simp) (by omega)
        (by apply Nat.pow_le_pow_right (by omega); omega)

example : (fromPartsConst 64 10 false (2 * 10 ^ 38 + 1) 0 none) = (⟨2 * 10 ^ 38 + 1, 0⟩, 38) ∧
    (2 * 10 ^ 38 + 1 : Nat) < 10 ^ (38 + 1) ∧ ¬ ((2 * 10 ^ 38 + 1 : Nat) < 10 ^ 38) := by decide +kernel

end Dashu.Props.C05
