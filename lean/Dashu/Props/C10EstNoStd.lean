import Dashu.Props.C10Est
import Dashu.Proofs.NT.Log2Lift
/-
  The no_std (table-driven) log2 estimator of `base/src/math/log.rs` composed with `digits_ub`:
  the integer part of the estimator (`log2_fp8`, `ceil_log2_fp8`, the top-16-bit reduction; proved sound
  for all inputs by builder-nt, `Proofs/NT/Log2Table.lean`, `Log2Lift.lean`) yields assumption (A) of
  `Props/C10Est.lean` WITHOUT any assumption about libm: the fixed-point upper estimate `U / 256`
  (`U = ceil_log2_fp8(hi) + 256·shift`) is an upper bound of `log₂ x`.  The value `U / 256` has at most
  16 integer and 8 fractional bits, so the `f32` expressions `ub as f32 / 256.0 + shift as f32` compute
  it exactly, and `next_up` only increases it.  Kept apart from `Props/C10Est.lean` because it imports
  another group's proofs.
-/
namespace Dashu.Props.C10EstNoStd
open Dashu Dashu.Model.Float Dashu.Model.NT

/-- from the fixed-point statement `x^256 ≤ 2^U` to the real logarithm -/
theorem logb_le_of_pow (x U : Nat) (hx : 0 < x) (h : x ^ 256 ≤ 2 ^ U) : Real.logb 2 x ≤ (U : ℝ) / 256 := by
  have hx' : (0 : ℝ) < (x : ℝ) := by exact_mod_cast hx
  have h1 : ((x : ℝ)) ^ 256 ≤ (2 : ℝ) ^ U := by exact_mod_cast h
  have h2 := Real.logb_le_logb_of_le (b := 2) (by norm_num) (by positivity) h1
  rw [Real.logb_pow, Real.logb_pow, Real.logb_self_eq_one (by norm_num), mul_one] at h2
  have : (256 : ℝ) * Real.logb 2 x ≤ U := by exact_mod_cast h2
  linarith

/-- `u16 … u128`, more than 16 bits (`impl_log2_bounds_for_uint!`, no_std): `log₂ x ≤ (ub + 256·shift)/256`
    with `ub = ceil_log2_fp8(hi)` (or `15·256 + 1` for `hi = 2^15`) -/
theorem ub_nostd_wide (x : Nat) (hbits : 16 < bitLen x) :
    Real.logb 2 x ≤ (((if x / 2 ^ (bitLen x - 16) = 2 ^ 15 then 15 * 256 + 1 else ceilLog2Fp8 (x / 2 ^ (bitLen x - 16)))
      + 256 * (bitLen x - 16) : Nat) : ℝ) / 256 := by
  have hx : 0 < x := by
    rcases Nat.eq_zero_or_pos x with h | h
    · subst h; simp [bitLen] at hbits
    · exact h
  exact logb_le_of_pow x _ hx (log2_wide_sound x hbits).2

/-- `u16` range (9 … 16 bits, not a power of two): `log₂ n ≤ ceil_log2_fp8(n)/256` -/
theorem ub_nostd_u16 (n : Nat) (h1 : 256 ≤ n) (h2 : n < 65536) (hp : n ≠ 2 ^ (bitLen n - 1)) :
    Real.logb 2 n ≤ (ceilLog2Fp8 n : ℝ) / 256 :=
  logb_le_of_pow n _ (by omega) ((log2_fp8_sound n h1 h2).2 hp)

/-- **`digits ≤ digits_ub` for the no_std estimator on every significand of more than 16 bits**, with
    no assumption about libm: only (B) (the one `f32` `*` / `/` is a monotone rounding fixing small
    integers), (C) (the two constants are on the safe side) and `ub ≥ U/256` (`next_up` of the exactly
    computed fixed-point value). -/
theorem digits_ub_nostd_sound (B : Nat) (hB : 2 ≤ B) (x : Nat) (hbits : 16 < bitLen x) (fl : ℝ → ℝ) (ub L lbB : ℝ)
    (hub : (((if x / 2 ^ (bitLen x - 16) = 2 ^ 15 then 15 * 256 + 1 else ceilLog2Fp8 (x / 2 ^ (bitLen x - 16)))
      + 256 * (bitLen x - 16) : Nat) : ℝ) / 256 ≤ ub)
    (hmono : Monotone fl) (hfix : ∀ k : Nat, k ≤ 2 ^ 24 → fl k = k) (hsmall : digits B x - 1 ≤ 2 ^ 24)
    (hL : Real.logb 10 2 ≤ L) (hlb : 0 < lbB ∧ lbB ≤ Real.logb 2 B) :
    digits B x ≤ digitsUbReal B fl ub L lbB := by
  have hx : 0 < x := by
    rcases Nat.eq_zero_or_pos x with h | h
    · subst h; simp [bitLen] at hbits
    · exact h
  exact Dashu.Props.C10Est.digits_ub_sound B hB x hx fl ub L lbB (le_trans (ub_nostd_wide x hbits) hub)
    hmono hfix hsmall hL hlb

end Dashu.Props.C10EstNoStd
