import Dashu.Gen.ShiftLoops
import Dashu.Props.C09Shift
/-
  C09, Tie A: the word loops of `integer/src/shift.rs` as REGENERATED text (`Dashu/Gen/ShiftLoops.lean`: loop
  header, loop body, early return, initial carry, result — over checked machine integers) are total on their
  domain and EQUAL to the hand-written mirrors of the division model (`Div.shlInPlace`, `Div.shrInPlaceWithCarry`,
  `Div.shrInPlaceOneWord`, `Div.shrInPlace`) and, through `Props/C09Shift`, to the bit model's `shlBits` /
  `shrBits` that the C09 driver executes inside `shl_large(_ref)` / `shr_large(_ref)`.
-/
namespace Dashu.Props.GenShift
open Dashu.Model Dashu Dashu.GluePrelude Dashu.Gen.ShiftLoops

/-- the regenerated body of the `shl_in_place` loop: no overflow for a word and `shift < WORD_BITS`, and it is the
    step of `Div.shlLoop` -/
theorem gen_shl_step (W s w c : Nat) (hs : s < W) (hw : w < 2 ^ W) :
    shl_in_place__step W s w c = some ((w * 2 ^ s) % 2 ^ W ||| c, (w * 2 ^ s) / 2 ^ W) := by
  have hs2 : s < 2 * W := by omega
  have hlt : w * 2 ^ s < 2 ^ (2 * W) := by
    have h1 : (2 : Nat) ^ s ≤ 2 ^ W := Nat.pow_le_pow_right (by decide) (by omega)
    have h2 : (2 : Nat) ^ (2 * W) = 2 ^ W * 2 ^ W := by rw [← Nat.pow_add]; congr 1; omega
    rw [h2]
    calc w * 2 ^ s ≤ w * 2 ^ W := Nat.mul_le_mul_left _ h1
      _ < 2 ^ W * 2 ^ W := Nat.mul_lt_mul_of_pos_right hw (Nat.two_pow_pos W)
  simp [shl_in_place__step, MachInt.shl, MachInt.split_dword, hs2, Nat.mod_eq_of_lt hlt]

theorem forWords_shl (W s : Nat) (hs : s < W) (ws : List Nat) (hw : IsWords W ws) (c : Nat) :
    forWords (shl_in_place__step W s) ws c = some (Div.shlLoop W s ws c) := by
  induction ws generalizing c with
  | nil => rfl
  | cons a as ih =>
    simp only [forWords, gen_shl_step W s a c hs hw.head, ih hw.tail, Div.shlLoop]

/-- **`shift::shl_in_place` as regenerated = the hand mirror**, every slice of words, every `shift < WORD_BITS`
    (the `debug_assert!`ed domain): no operation of the body overflows -/
theorem gen_shl_in_place (W s : Nat) (ws : List Nat) (hs : s < W) (hw : IsWords W ws) :
    shl_in_place W ws s = some (Div.shlInPlace W ws s) := by
  unfold shl_in_place Div.shlInPlace
  by_cases h0 : s = 0
  · subst h0; simp
  · have : (s == 0) = false := by simp [h0]
    simp only [this, if_neg h0]
    exact forWords_shl W s hs ws hw 0

/-- the regenerated body of the `shr_in_place_with_carry` loop = the step of `Div.shrLoop` -/
theorem gen_shr_step (W s w c : Nat) (hW : 1 ≤ W) (hs : s ≤ W) :
    shr_in_place_with_carry__step W s w c = some ((Div.shrWord W w s).1 ||| c, (Div.shrWord W w s).2) := by
  simp [shr_in_place_with_carry__step, Props.GenMath.gen_shr_word W w s hW hs, Div.shrWord_spec W w s hs]

theorem forWordsRev_shr (W s : Nat) (hW : 1 ≤ W) (hs : s ≤ W) (ws : List Nat) (c : Nat) :
    forWordsRev (shr_in_place_with_carry__step W s) ws c = some (Div.shrLoop W s ws c) := by
  induction ws with
  | nil => rfl
  | cons a as ih =>
    simp only [forWordsRev, ih, gen_shr_step W s a _ hW hs, Div.shrLoop]

/-- **`shift::shr_in_place_with_carry` as regenerated = the hand mirror**, every slice, every incoming carry -/
theorem gen_shr_in_place_with_carry (W s c : Nat) (ws : List Nat) (hW : 1 ≤ W) (hs : s < W) :
    shr_in_place_with_carry W ws s c = some (Div.shrInPlaceWithCarry W ws s c) := by
  unfold shr_in_place_with_carry Div.shrInPlaceWithCarry
  by_cases h0 : s = 0
  · subst h0; simp
  · have : (s == 0) = false := by simp [h0]
    simp only [this, if_neg h0]
    exact forWordsRev_shr W s hW (by omega) ws c

/-- **`shift::shr_in_place_one_word`** (recognised pointer statements) on a non-empty slice = the hand mirror -/
theorem gen_shr_in_place_one_word (W : Nat) (ws : List Nat) (hne : ws ≠ []) :
    shr_in_place_one_word W ws = some (Div.shrInPlaceOneWord ws) := by
  cases ws with
  | nil => exact absurd rfl hne
  | cons a as => rfl

/-- on an empty slice the pointer statements are out of bounds; the regenerated text says so -/
theorem gen_shr_in_place_one_word_empty (W : Nat) : shr_in_place_one_word W [] = none := rfl

/-- **`shift::shr_in_place` as regenerated = the hand mirror**: which routine each arm calls and with which
    arguments; `shift ≤ WORD_BITS`, non-empty slice -/
theorem gen_shr_in_place (W s : Nat) (ws : List Nat) (hW : 1 ≤ W) (hs : s ≤ W) (hne : ws ≠ []) :
    shr_in_place W ws s = some (Div.shrInPlace W ws s) := by
  unfold shr_in_place Div.shrInPlace
  by_cases h : s = W
  · subst h; simp [gen_shr_in_place_one_word s ws hne]
  · have : (s == W) = false := by simp [h]
    simp only [this, if_neg h]
    exact gen_shr_in_place_with_carry W s 0 ws hW (by omega)

/-- the regenerated loops are the bit model's loops (what the C09 driver runs inside `shl_large(_ref)`,
    `shr_large(_ref)` with `shift = rhs % WORD_BITS`) -/
theorem gen_loops_are_the_bit_model (W s : Nat) (ws : List Nat) (hW : 1 ≤ W) (hs : s < W) (hw : IsWords W ws)
    (hne : ws ≠ []) :
    shl_in_place W ws s = some (shlBits W ws s 0) ∧ shr_in_place W ws s = some (shrBits W s ws) := by
  refine ⟨?_, ?_⟩
  · rw [gen_shl_in_place W s ws hs hw, Props.C09Shift.shlBits_eq_shlInPlace W s ws hw]
  · rw [gen_shr_in_place W s ws hW (by omega) hne, Props.C09Shift.shrBits_eq_shrInPlace W s hs ws]

-- non-vacuity: a 3-word slice; the carries cross both word boundaries; `shift = WORD_BITS` takes the pointer arm
example : IsWords 64 [2 ^ 64 - 1, 7, 2 ^ 63 + 9] ∧
    shl_in_place 64 [2 ^ 64 - 1, 7, 2 ^ 63 + 9] 63 = some (shlBits 64 [2 ^ 64 - 1, 7, 2 ^ 63 + 9] 63 0) ∧
    (shlBits 64 [2 ^ 64 - 1, 7, 2 ^ 63 + 9] 63 0).2 = 2 ^ 62 + 4 ∧
    shr_in_place 64 [2 ^ 64 - 1, 7, 2 ^ 63 + 9] 5 = some ([2 ^ 59 - 1 + 7 * 2 ^ 59, 9 * 2 ^ 59, 2 ^ 58], 31 * 2 ^ 59) ∧
    shr_in_place 64 [2 ^ 64 - 1, 7, 2 ^ 63 + 9] 64 = some ([7, 2 ^ 63 + 9, 0], 2 ^ 64 - 1) ∧
    shr_in_place_with_carry 64 [5, 3] 1 (2 ^ 63) = some ([2 ^ 63 + 2, 2 ^ 63 + 1], 2 ^ 63) := by
  refine ⟨by decide, by decide, by decide, by decide, by decide, by decide⟩
-- outside the domain the checked text refuses: a shift by 2·WORD_BITS overflows the double word
example : shl_in_place 64 [1] 128 = none := by decide

end Dashu.Props.GenShift
