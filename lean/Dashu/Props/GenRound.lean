import Dashu.Gen.Round
import Mathlib.Tactic.Ring
import Mathlib.Tactic.Linarith
/-
  Tie A theorems for C10 / C03: the six `round_low_part` decision tables, AS REGENERATED from
  /repo/float/src/round.rs on this run, pick the neighbour that the definition of each rounding
  mode names.

  Setting: the exact value is `x = n + f/d` with `d > 0`, `0 < |f| < d` (the code returns `NoOp`
  before consulting the table when the low part is zero).  The table sees `n`, the sign of `f` and
  the comparison of `|f|/d` with 1/2, and returns an adjustment; the rounded integer is `n + adj`.
  The specifications are relational and scaled by `d` so that they are statements about integers:
  with `N = n·d + f` (so `x = N/d`):
    floor r   :⇔ r·d ≤ N < (r+1)·d          ceil r :⇔ (r−1)·d < N ≤ r·d
    toward zero = floor for N ≥ 0, ceil for N < 0;  away = the other one
    nearest r :⇔ |2N − 2rd| ≤ d, and on a tie (= d): r even (HalfEven) / |r·d| > |N| (HalfAway)
-/
namespace Dashu.Props.GenRound
open Dashu Dashu.Gen Dashu.GluePrelude

def adj : Rounding → Int
  | .NoOp => 0 | .AddOne => 1 | .SubOne => -1

def lowSign (f : Int) : Sign := if f < 0 then .Negative else .Positive
/-- the `low_half_test` closure's value: |f|/d compared with 1/2 -/
def halfTest (f d : Int) : Ordering := compare (2 * |f|) d

def IsFloor (N d r : Int) : Prop := r * d ≤ N ∧ N < (r + 1) * d
def IsCeil (N d r : Int) : Prop := (r - 1) * d < N ∧ N ≤ r * d
def IsTowardZero (N d r : Int) : Prop := if 0 ≤ N then IsFloor N d r else IsCeil N d r
def IsAwayFromZero (N d r : Int) : Prop := if 0 ≤ N then IsCeil N d r else IsFloor N d r
def IsNearestEven (N d r : Int) : Prop :=
  |2 * N - 2 * (r * d)| ≤ d ∧ (|2 * N - 2 * (r * d)| = d → r % 2 = 0)
def IsNearestAway (N d r : Int) : Prop :=
  |2 * N - 2 * (r * d)| ≤ d ∧ (|2 * N - 2 * (r * d)| = d → |N| < |r * d|)

/-- the specifications determine the result: two integers satisfying `IsFloor` are equal (the
    other specs are built from floor/ceil/nearest in the same way) — the spec is not vacuous. -/
theorem isFloor_unique (N d r r' : Int) (hd : 0 < d) (h : IsFloor N d r) (h' : IsFloor N d r') : r = r' := by
  unfold IsFloor at *
  have h1 : r * d < (r' + 1) * d := by linarith
  have h2 : r' * d < (r + 1) * d := by linarith
  have := lt_of_mul_lt_mul_right h1 (le_of_lt hd)
  have := lt_of_mul_lt_mul_right h2 (le_of_lt hd)
  omega

theorem lowSign_neg {f : Int} (h : f < 0) : lowSign f = .Negative := by simp [lowSign, h]
theorem lowSign_pos {f : Int} (h : 0 < f) : lowSign f = .Positive := by
  have : ¬ f < 0 := by omega
  simp [lowSign, this]

theorem abs_neg' {f : Int} (h : f < 0) : |f| = -f := abs_of_neg h
theorem abs_pos' {f : Int} (h : 0 < f) : |f| = f := abs_of_pos h

theorem cmp_lt {a b : Int} (h : a < b) : compare a b = .lt := by
  simp [compare, compareOfLessAndEq, h]
theorem cmp_eq {a b : Int} (h : a = b) : compare a b = .eq := by
  simp [compare, compareOfLessAndEq, h]
theorem cmp_gt {a b : Int} (h : b < a) : compare a b = .gt := by
  have h1 : ¬ a < b := by omega
  have h2 : ¬ a = b := by omega
  simp [compare, compareOfLessAndEq, h1, h2]

theorem ge0 (n : Int) : ge_ n (0 : Int) = decide (0 ≤ n) := by
  unfold ge_
  rcases lt_trichotomy n 0 with h | h | h
  · rw [cmp_lt h]; have : ¬ 0 ≤ n := by omega
    simp [this]
  · rw [cmp_eq h]; simp [h]
  · rw [cmp_gt h]; have : 0 ≤ n := by omega
    simp [this]
theorem le0 (n : Int) : le_ n (0 : Int) = decide (n ≤ 0) := by
  unfold le_
  rcases lt_trichotomy n 0 with h | h | h
  · rw [cmp_lt h]; have : n ≤ 0 := by omega
    simp [this]
  · rw [cmp_eq h]; simp [h]
  · rw [cmp_gt h]; have : ¬ n ≤ 0 := by omega
    simp [this]

theorem bit0 (n : Int) : bit n (0) = decide (n % 2 = 1) := by
  unfold bit; simp

/-- evaluate a regenerated mode table on decided inputs.  The lemma set contains every operator of the source text
    the tables may be written with (`==` / `!=`, `!`, `is_zero`, `sign`, `>= 0`, `<= 0`, the parity bit) and the boolean
    evaluation rules, so the proofs below do not depend on which of them — or which polarity / arm order — the text of
    this run uses (`if a == P { X } else { Y }` and `if a != P { Y } else { X }` evaluate alike). -/
syntax "tsimp" " [" term,* "]" : tactic
macro_rules
  | `(tactic| tsimp [$ls:term,*]) => do
    let xs := ls.getElems
    `(tactic| simp only [$[$xs:term],*, eq_, ne_, not_, HasNot.not_, is_zero, sign, HasSign.sign, ge0, le0, bit0, decide_true,
      decide_false, Bool.not_true, Bool.not_false, if_true, if_false, Bool.false_eq_true, Bool.true_eq_false, reduceCtorEq,
      Bool.and_true, Bool.true_and, Bool.and_false, Bool.false_and, Bool.or_true, Bool.true_or, Bool.or_false, Bool.false_or,
      decide_not, Bool.not_not, ite_not, reduceIte, not_true_eq_false, not_false_eq_true, Bool.decide_eq_true])

section
variable (n f d : Int) (hd : 0 < d) (hf0 : f ≠ 0) (hf : |f| < d)
include hd hf0 hf

/-- mode Down = floor -/
theorem down_correct :
    IsFloor (n * d + f) d (n + adj (round_low_part_Down n (lowSign f) (halfTest f d))) := by
  unfold IsFloor round_low_part_Down
  rcases lt_or_gt_of_ne hf0 with hneg | hpos
  · rw [abs_neg' hneg] at hf
    tsimp [lowSign_neg hneg, eq_, decide_true, if_true, adj]
    constructor <;> linarith
  · rw [abs_pos' hpos] at hf
    tsimp [lowSign_pos hpos, eq_, adj]
    constructor <;> simp <;> linarith

/-- mode Up = ceiling -/
theorem up_correct :
    IsCeil (n * d + f) d (n + adj (round_low_part_Up n (lowSign f) (halfTest f d))) := by
  unfold IsCeil round_low_part_Up
  rcases lt_or_gt_of_ne hf0 with hneg | hpos
  · rw [abs_neg' hneg] at hf
    tsimp [lowSign_neg hneg, eq_, adj]
    constructor <;> simp <;> linarith
  · rw [abs_pos' hpos] at hf
    tsimp [lowSign_pos hpos, eq_, decide_true, if_true, adj]
    constructor <;> linarith

/-- mode Zero = toward zero -/
theorem zero_correct :
    IsTowardZero (n * d + f) d (n + adj (round_low_part_Zero n (lowSign f) (halfTest f d))) := by
  unfold IsTowardZero IsFloor IsCeil round_low_part_Zero
  rcases lt_trichotomy n 0 with hn | hn | hn
  · have hnd : n * d ≤ -d := by nlinarith
    have hz : ¬ n = 0 := by omega
    rcases lt_or_gt_of_ne hf0 with hneg | hpos
    · rw [abs_neg' hneg] at hf
      have hN : ¬ 0 ≤ n * d + f := by linarith
      tsimp [lowSign_neg hneg, is_zero, hz, decide_false, sign, HasSign.sign, hn, if_true, adj, hN,
        if_false, Bool.false_eq_true]
      constructor <;> linarith
    · rw [abs_pos' hpos] at hf
      have hN : ¬ 0 ≤ n * d + f := by linarith
      tsimp [lowSign_pos hpos, is_zero, hz, decide_false, sign, HasSign.sign, hn, if_true, adj, hN,
        if_false, Bool.false_eq_true]
      constructor <;> linarith
  · subst hn
    rcases lt_or_gt_of_ne hf0 with hneg | hpos
    · rw [abs_neg' hneg] at hf
      have hN : ¬ 0 ≤ 0 * d + f := by linarith
      tsimp [is_zero, decide_true, if_true, adj, hN, if_false]
      constructor <;> linarith
    · rw [abs_pos' hpos] at hf
      have hN : 0 ≤ 0 * d + f := by linarith
      tsimp [is_zero, decide_true, if_true, adj, hN]
      constructor <;> linarith
  · have hnd : d ≤ n * d := by nlinarith
    have hz : ¬ n = 0 := by omega
    have hnn : ¬ n < 0 := by omega
    rcases lt_or_gt_of_ne hf0 with hneg | hpos
    · rw [abs_neg' hneg] at hf
      have hN : 0 ≤ n * d + f := by linarith
      tsimp [lowSign_neg hneg, is_zero, hz, decide_false, sign, HasSign.sign, hnn, if_false, adj, hN,
        if_true, Bool.false_eq_true]
      constructor <;> linarith
    · rw [abs_pos' hpos] at hf
      have hN : 0 ≤ n * d + f := by linarith
      tsimp [lowSign_pos hpos, is_zero, hz, decide_false, sign, HasSign.sign, hnn, if_false, adj, hN,
        if_true, Bool.false_eq_true]
      constructor <;> linarith

/-- mode Away = away from zero -/
theorem away_correct :
    IsAwayFromZero (n * d + f) d (n + adj (round_low_part_Away n (lowSign f) (halfTest f d))) := by
  unfold IsAwayFromZero IsFloor IsCeil round_low_part_Away
  rcases lt_trichotomy n 0 with hn | hn | hn
  · have hnd : n * d ≤ -d := by nlinarith
    have hz : ¬ n = 0 := by omega
    rcases lt_or_gt_of_ne hf0 with hneg | hpos
    · rw [abs_neg' hneg] at hf
      have hN : ¬ 0 ≤ n * d + f := by linarith
      tsimp [lowSign_neg hneg, is_zero, hz, decide_false, sign, HasSign.sign, hn, if_true, adj, hN,
        if_false, Bool.false_eq_true]
      constructor <;> linarith
    · rw [abs_pos' hpos] at hf
      have hN : ¬ 0 ≤ n * d + f := by linarith
      tsimp [lowSign_pos hpos, is_zero, hz, decide_false, sign, HasSign.sign, hn, if_true, adj, hN,
        if_false, Bool.false_eq_true]
      constructor <;> linarith
  · subst hn
    rcases lt_or_gt_of_ne hf0 with hneg | hpos
    · rw [abs_neg' hneg] at hf
      have hN : ¬ 0 ≤ 0 * d + f := by linarith
      tsimp [lowSign_neg hneg, is_zero, decide_true, if_true, adj, hN, if_false]
      constructor <;> linarith
    · rw [abs_pos' hpos] at hf
      have hN : 0 ≤ 0 * d + f := by linarith
      tsimp [lowSign_pos hpos, is_zero, decide_true, if_true, adj, hN]
      constructor <;> linarith
  · have hnd : d ≤ n * d := by nlinarith
    have hz : ¬ n = 0 := by omega
    have hnn : ¬ n < 0 := by omega
    rcases lt_or_gt_of_ne hf0 with hneg | hpos
    · rw [abs_neg' hneg] at hf
      have hN : 0 ≤ n * d + f := by linarith
      tsimp [lowSign_neg hneg, is_zero, hz, decide_false, sign, HasSign.sign, hnn, if_false, adj, hN,
        if_true, Bool.false_eq_true]
      constructor <;> linarith
    · rw [abs_pos' hpos] at hf
      have hN : 0 ≤ n * d + f := by linarith
      tsimp [lowSign_pos hpos, is_zero, hz, decide_false, sign, HasSign.sign, hnn, if_false, adj, hN,
        if_true, Bool.false_eq_true]
      constructor <;> linarith

/-- mode HalfEven = nearest, ties to even -/
theorem half_even_correct :
    IsNearestEven (n * d + f) d (n + adj (round_low_part_HalfEven n (lowSign f) (halfTest f d))) := by
  unfold IsNearestEven round_low_part_HalfEven halfTest
  rcases lt_or_gt_of_ne hf0 with hneg | hpos
  · rw [abs_neg' hneg] at hf ⊢
    rcases lt_trichotomy (2 * -f) d with h | h | h
    · tsimp [cmp_lt h, adj]
      have e : 2 * (n * d + f) - 2 * ((n + 0) * d) = 2 * f := by ring
      rw [e, abs_of_neg (by linarith)]
      exact ⟨by linarith, fun hc => by omega⟩
    · tsimp [cmp_eq h, bit0, lowSign_neg hneg]
      by_cases hodd : n % 2 = 1
      · tsimp [hodd, decide_true, if_true, adj]
        have e : 2 * (n * d + f) - 2 * ((n + -1) * d) = 2 * f + 2 * d := by ring
        rw [e, abs_of_pos (by linarith)]
        exact ⟨by linarith, fun _ => by omega⟩
      · tsimp [hodd, decide_false, adj, Bool.false_eq_true, if_false]
        have e : 2 * (n * d + f) - 2 * ((n + 0) * d) = 2 * f := by ring
        rw [e, abs_of_neg (by linarith)]
        exact ⟨by linarith, fun _ => by omega⟩
    · tsimp [cmp_gt h, lowSign_neg hneg, adj]
      have e : 2 * (n * d + f) - 2 * ((n + -1) * d) = 2 * f + 2 * d := by ring
      rw [e, abs_of_pos (by linarith)]
      exact ⟨by linarith, fun hc => by omega⟩
  · rw [abs_pos' hpos] at hf ⊢
    rcases lt_trichotomy (2 * f) d with h | h | h
    · tsimp [cmp_lt h, adj]
      have e : 2 * (n * d + f) - 2 * ((n + 0) * d) = 2 * f := by ring
      rw [e, abs_of_pos (by linarith)]
      exact ⟨by linarith, fun hc => by omega⟩
    · tsimp [cmp_eq h, bit0, lowSign_pos hpos]
      by_cases hodd : n % 2 = 1
      · tsimp [hodd, decide_true, if_true, adj]
        have e : 2 * (n * d + f) - 2 * ((n + 1) * d) = 2 * f - 2 * d := by ring
        rw [e, abs_of_neg (by linarith)]
        exact ⟨by linarith, fun _ => by omega⟩
      · tsimp [hodd, decide_false, adj, Bool.false_eq_true, if_false]
        have e : 2 * (n * d + f) - 2 * ((n + 0) * d) = 2 * f := by ring
        rw [e, abs_of_pos (by linarith)]
        exact ⟨by linarith, fun _ => by omega⟩
    · tsimp [cmp_gt h, lowSign_pos hpos, adj]
      have e : 2 * (n * d + f) - 2 * ((n + 1) * d) = 2 * f - 2 * d := by ring
      rw [e, abs_of_neg (by linarith)]
      exact ⟨by linarith, fun hc => by omega⟩

/-- mode HalfAway = nearest, ties away from zero -/
theorem half_away_correct :
    IsNearestAway (n * d + f) d (n + adj (round_low_part_HalfAway n (lowSign f) (halfTest f d))) := by
  unfold IsNearestAway round_low_part_HalfAway halfTest
  rcases lt_or_gt_of_ne hf0 with hneg | hpos
  · rw [abs_neg' hneg] at hf ⊢
    rcases lt_trichotomy (2 * -f) d with h | h | h
    · tsimp [cmp_lt h, adj]
      have e : 2 * (n * d + f) - 2 * ((n + 0) * d) = 2 * f := by ring
      rw [e, abs_of_neg (by linarith)]
      exact ⟨by linarith, fun hc => by omega⟩
    · tsimp [cmp_eq h, ge0, le0, lowSign_neg hneg, eq_]
      by_cases hle : n ≤ 0
      · have e : 2 * (n * d + f) - 2 * ((n + -1) * d) = 2 * f + 2 * d := by ring
        have hnd : n * d ≤ 0 := by nlinarith
        have h1 : n * d + f < 0 := by linarith
        have h2 : (n + -1) * d < n * d + f := by linarith
        simp [hle, adj]
        rw [e, abs_of_pos (by linarith)]
        refine ⟨by linarith, fun _ => ?_⟩
        rw [abs_of_neg h1, abs_of_neg (by linarith)]; linarith
      · have hn : 0 < n := by omega
        have hnd : d ≤ n * d := by nlinarith
        have e : 2 * (n * d + f) - 2 * ((n + 0) * d) = 2 * f := by ring
        simp [hle, adj]
        have e' : 2 * (n * d + f) - 2 * (n * d) = 2 * f := by ring
        rw [e', abs_of_neg (by linarith)]
        refine ⟨by linarith, fun _ => ?_⟩
        rw [abs_of_pos (by linarith), abs_of_pos (by linarith)]; linarith
    · tsimp [cmp_gt h, lowSign_neg hneg, adj]
      have e : 2 * (n * d + f) - 2 * ((n + -1) * d) = 2 * f + 2 * d := by ring
      rw [e, abs_of_pos (by linarith)]
      exact ⟨by linarith, fun hc => by omega⟩
  · rw [abs_pos' hpos] at hf ⊢
    rcases lt_trichotomy (2 * f) d with h | h | h
    · tsimp [cmp_lt h, adj]
      have e : 2 * (n * d + f) - 2 * ((n + 0) * d) = 2 * f := by ring
      rw [e, abs_of_pos (by linarith)]
      exact ⟨by linarith, fun hc => by omega⟩
    · tsimp [cmp_eq h, ge0, le0, lowSign_pos hpos, eq_]
      by_cases hge : 0 ≤ n
      · have e : 2 * (n * d + f) - 2 * ((n + 1) * d) = 2 * f - 2 * d := by ring
        have hnd : 0 ≤ n * d := by nlinarith
        simp [hge, adj]
        rw [e, abs_of_neg (by linarith)]
        refine ⟨by linarith, fun _ => ?_⟩
        rw [abs_of_pos (by linarith), abs_of_pos (by linarith)]; linarith
      · have hn : n < 0 := by omega
        have hnd : n * d ≤ -d := by nlinarith
        simp [hge, adj]
        have e' : 2 * (n * d + f) - 2 * (n * d) = 2 * f := by ring
        rw [e', abs_of_pos (by linarith)]
        refine ⟨by linarith, fun _ => ?_⟩
        rw [abs_of_neg (by linarith), abs_of_neg (by linarith)]; linarith
    · tsimp [cmp_gt h, lowSign_pos hpos, adj]
      have e : 2 * (n * d + f) - 2 * ((n + 1) * d) = 2 * f - 2 * d := by ring
      rw [e, abs_of_neg (by linarith)]
      exact ⟨by linarith, fun hc => by omega⟩

end

-- non-vacuity: 7/2 = 3 + 1/2 (n = 3, f = 1, d = 2) is a tie; HalfEven goes to 4, HalfAway to 4, Zero to 3
example : (3 : Int) + adj (round_low_part_HalfEven 3 (lowSign 1) (halfTest 1 2)) = 4 := by decide
example : (-3 : Int) + adj (round_low_part_HalfAway (-3) (lowSign (-1)) (halfTest (-1) 2)) = -4 := by decide
example : (2 : Int) + adj (round_low_part_HalfEven 2 (lowSign 1) (halfTest 1 2)) = 2 := by decide

end Dashu.Props.GenRound
