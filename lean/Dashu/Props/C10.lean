import Dashu.Props.GenRound
import Dashu.Model.Float.Spec
/-
  C10 — placeholder while the correspondence is brought up (replaced below by the property theorems).
-/
namespace Dashu.Props.C10
open Dashu.Model.Float

theorem rInt_eq_adj (r : Dashu.Rounding) : rInt r = Dashu.Props.GenRound.adj r := by
  cases r <;> rfl

end Dashu.Props.C10
