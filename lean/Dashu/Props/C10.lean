import Dashu.Proofs.Float.Unobservable
import Dashu.Proofs.Float.Review
import Dashu.Proofs.Float.Closing
/-
  C10 — Rounding to integers or to fewer digits picks the mathematically right neighbour; the two
  public rounding primitives follow the six mode definitions.

  Property theorems only (lemmas live in `Dashu/Proofs/Float`).  Every statement quantifies over all
  bases `B ≥ 2`, all integers, all digit counts / precisions and all six modes; nothing is bounded.

  Vocabulary (from `Props/GenRound.lean`, where the six REGENERATED `round_low_part` tables are
  proved): for an exact value `N / d` (`d > 0`) the relational specifications `IsFloor N d r`,
  `IsCeil`, `IsTowardZero`, `IsAwayFromZero`, `IsNearestEven`, `IsNearestAway` (integer-scaled);
  `ModeSpec m N d r` selects the one belonging to mode `m`.
  Estimate oracles: `c : Coarse` (the `f32` test in `round_fract`) with `CoarseSound c`;
  `dub` (`Repr::digits_ub`) with `DubSound B dub`.  The theorems hold for every such oracle.
  The model mirrors /repo including the `fix:` commit f9ab1b6 (`split_at_point_internal` reports
  `-exponent` fraction digits on the smaller-than-one path; before it `0.0099` at 2 digits rounded to 1).
-/
namespace Dashu.Props.C10
open Dashu Dashu.Model.Float Dashu.Props.GenRound

/-! ### the two public rounding primitives -/

/-- `Round::round_fract::<B>(n, f, k)` for every mode: `n + adjustment` is the neighbour of
    `n + f / B^k` named by the mode, for every `|f| < B^k` (including `f = 0`). -/
theorem round_fract_follows_mode (B : Nat) (hB : 2 ≤ B) (m : Mode) (c : Coarse) (hc : CoarseSound c)
    (n f : Int) (k : Nat) (hlt : |f| < ((B ^ k : Nat) : Int)) :
    ModeSpec m (n * ((B ^ k : Nat) : Int) + f) ((B ^ k : Nat) : Int) (n + rInt (roundFract B m c n f k)) :=
  roundFract_spec' B hB m c hc n f k hlt

/-- the coarse `f32` comparison cannot change the result as long as it is sound -/
theorem round_fract_estimate_irrelevant (B : Nat) (m : Mode) (c : Coarse) (hc : CoarseSound c)
    (n f : Int) (k : Nat) : roundFract B m c n f k = roundFract B m coarseNone n f k := by
  by_cases hf : f = 0
  · subst hf; simp [roundFract_zero]
  · rw [roundFract_eq B m c hc n f k hf, roundFract_eq B m coarseNone (by intro _ _ _ _ h; cases h) n f k hf]

/-- `Round::round_ratio(n, num, den)` for every mode, `den ≠ 0` of either sign, `0 < |num| < |den|`:
    `n + adjustment` is the neighbour of `n + num / den` named by the mode. -/
theorem round_ratio_follows_mode (m : Mode) (n num den : Int) (hden : den ≠ 0) (hnum : num ≠ 0)
    (hlt : |num| < |den|) :
    ModeSpec m (n * |den| + num * Int.sign den) |den| (n + rInt (roundRatio m n num den)) :=
  roundRatio_spec m n num den hden hnum hlt

theorem round_ratio_zero (m : Mode) (n den : Int) : roundRatio m n 0 den = .NoOp := roundRatio_zero m n den

/-- an `AddOne` / `SubOne` / `NoOp` flag tells the truth about the side of the result: the integer-scaled
    contract (error `< 1` unit, `≤ 1/2` for the nearest modes, mode side condition, flag side). -/
theorem round_fract_contract (B : Nat) (hB : 2 ≤ B) (m : Mode) (c : Coarse) (hc : CoarseSound c)
    (n f : Int) (k : Nat) (hf : f ≠ 0) (hlt : |f| < ((B ^ k : Nat) : Int)) :
    IContract m ((B ^ k : Nat) : Int) (n * ((B ^ k : Nat) : Int) + f)
      ((n + rInt (roundFract B m c n f k)) * ((B ^ k : Nat) : Int)) (some (roundFract B m c n f k)) := by
  have hD : (0 : Int) < ((B ^ k : Nat) : Int) := by
    have : 0 < B ^ k := Nat.pow_pos (by omega)
    exact_mod_cast this
  exact icontract_of_spec m n f _ hD hf hlt _ (roundFract_spec B (by omega) m c hc n f k hf hlt)

/-! ### digit utilities -/

/-- `utils::digit_len`: `B^(k-1) ≤ n < B^k` -/
theorem digit_len_spec (B : Nat) (hB : 2 ≤ B) (n : Nat) (hn : 0 < n) :
    0 < digits B n ∧ B ^ (digits B n - 1) ≤ n ∧ n < B ^ (digits B n) := digits_spec B hB n hn

/-- `utils::split_digits` / `split_digits_ref`: the base-10 two-step path, the power-of-two bit path
    and the generic path all return the truncating quotient and remainder by `B^pos` -/
theorem split_digits_all_paths (B : Nat) (v : Int) (pos : Nat) :
    splitDigits B v pos = (Int.tdiv v ((B ^ pos : Nat) : Int), Int.tmod v ((B ^ pos : Nat) : Int)) :=
  splitDigits_eq B v pos

/-- `utils::shl_digits` / `shl_digits_in_place`: the base-2 (`<< k`), base-10 (`(v·5^k) << k`), power-of-two
    (`<< k·log2 B`) and generic paths all multiply by `B^k` -/
theorem shl_digits_all_paths (B : Nat) (v : Int) (k : Nat) : shlDigits B v k = v * ((B ^ k : Nat) : Int) :=
  shlDigits_eq B v k

/-- `utils::shr_digits` (via `shr_ref`, the sign-preserving shift of the magnitude): the base-2, base-10
    (`shr_ref(v, k) / 5^k`), power-of-two and generic paths all divide by `B^k` toward zero -/
theorem shr_digits_all_paths (B : Nat) (v : Int) (k : Nat) : shrDigits B v k = Int.tdiv v ((B ^ k : Nat) : Int) :=
  shrDigits_eq B v k

/-- `Repr::new` keeps the value and leaves a significand that is zero or not divisible by the base -/
theorem repr_new_value_normalized (B : Nat) (hB : 2 ≤ B) (s e : Int) :
    (FRepr.new B s e).toRat B = (s : ℚ) * bpowQ B e ∧ Normalized B (FRepr.new B s e) :=
  ⟨FRepr.new_value B (by omega) s e, FRepr.new_normalized B hB s e⟩

/-! ### rounding to fewer digits -/

/-- `Context::repr_round` / `repr_round_ref` honour the rounding contract (over `Rat`) -/
theorem repr_round_contract (B : Nat) (hB : 2 ≤ B) (m : Mode) (c : Coarse) (hc : CoarseSound c)
    (p : Nat) (hp : 1 ≤ p) (r : FRepr) (hn : Normalized B r) :
    Contract B m p (r.toRat B) ((reprRound B m c p r).1.toRat B) (reprRound B m c p r).2 :=
  reprRound_contract B hB m c hc p hp r hn

/-- `FBig::with_precision(p)`: contract at the new precision; the precision field is `p` -/
theorem with_precision_contract (B : Nat) (hB : 2 ≤ B) (m : Mode) (c : Coarse) (hc : CoarseSound c)
    (x : FBigM) (hn : Normalized B x.repr) (p : Nat) (hp : 1 ≤ p) :
    Contract B m p (x.repr.toRat B) ((fWithPrecision B m c x p).1.repr.toRat B) (fWithPrecision B m c x p).2 ∧
    (fWithPrecision B m c x p).1.prec = p := by
  unfold fWithPrecision
  by_cases h : x.prec > p ∨ (x.prec = 0 ∧ p > 0)
  · simp only [h, if_true, and_true]
    exact reprRound_contract B hB m c hc p hp x.repr hn
  · simp only [h, if_false, and_true]
    exact contract_exact B m p _

/-- **the invariant `with_precision` establishes**: for `p ≥ 1` the result has at most `p` significant digits
    (never `p+1`: a carry into a new digit normalises to a shorter significand), whatever the source
    precision — limited (`digits ≤ x.prec`, the `FBig` invariant `hinv`) or unlimited (`x.prec = 0`, any
    number of digits; fix ee15d7b).  `Contract` alone does not say this. -/
theorem with_precision_digits (B : Nat) (hB : 2 ≤ B) (m : Mode) (c : Coarse) (x : FBigM) (p : Nat) (hp : 1 ≤ p)
    (hinv : x.prec = 0 ∨ x.repr.digits B ≤ x.prec) :
    (fWithPrecision B m c x p).1.repr.digits B ≤ p ∧ (fWithPrecision B m c x p).1.prec = p := by
  unfold fWithPrecision
  by_cases h : x.prec > p ∨ (x.prec = 0 ∧ p > 0)
  · simp only [h, if_true, and_true]
    exact reprRound_digits_le B hB m c p hp x.repr
  · simp only [h, if_false, and_true]
    omega

/-- `with_precision(0)` (unlimited) and a precision that is not smaller keep the value, `Exact`
    (a source precision of `0` is *unlimited*, i.e. larger than every `p ≥ 1`: such a number is rounded,
    fix ee15d7b) -/
theorem with_precision_widen (B : Nat) (m : Mode) (c : Coarse) (x : FBigM) (p : Nat)
    (h : p = 0 ∨ (0 < x.prec ∧ x.prec ≤ p)) :
    fWithPrecision B m c x p = (⟨x.repr, p⟩, none) := by
  unfold fWithPrecision
  rcases h with h | h
  · subst h
    by_cases h0 : x.prec > 0
    · simp [h0, reprRound_unlimited]
    · simp [h0]
  · have : ¬ (x.prec > p ∨ (x.prec = 0 ∧ p > 0)) := by omega
    simp [this]

/-! ### rounding to integers (`x = s / D`, `D = B^(-exp)`, `exp < 0`) -/

section
variable (B : Nat) (hB : 2 ≤ B) (c : Coarse) (hc : CoarseSound c) (dub : Int → Nat) (hdub : DubSound B dub)
  (x : FBigM) (he : x.repr.exp < 0)
include hB hdub he

theorem trunc_correct :
    ∃ t : Int, (fTrunc B dub x).repr.toRat B = (t : ℚ) ∧ IsTowardZero x.repr.signif (pointUnit B x.repr) t :=
  fTrunc_spec B hB dub hdub x he

include hc

theorem floor_correct :
    ∃ t : Int, (fFloor B c dub x).repr.toRat B = (t : ℚ) ∧ IsFloor x.repr.signif (pointUnit B x.repr) t :=
  fFloor_spec B hB c hc dub hdub x he

theorem ceil_correct (hs0 : x.repr.signif ≠ 0) :
    ∃ t : Int, (fCeil B c dub x).repr.toRat B = (t : ℚ) ∧ IsCeil x.repr.signif (pointUnit B x.repr) t :=
  fCeil_spec B hB c hc dub hdub x he hs0

/-- `FBig::round`: nearest integer, ties away from zero -/
theorem round_correct :
    ∃ t : Int, (fRound B c dub x).repr.toRat B = (t : ℚ) ∧
      IsNearestAway x.repr.signif (pointUnit B x.repr) t :=
  fRound_spec B hB c hc dub hdub x he

/-- `FBig::to_int` (mode of the type): the integer named by the mode, flagged `Inexact` -/
theorem to_int_correct (m : Mode) :
    ModeSpec m x.repr.signif (pointUnit B x.repr) (fToInt B m c dub x).1 ∧
    (fToInt B m c dub x).2 ≠ none :=
  fToInt_spec B hB c hc dub hdub x he m

end

/-- **the flag of `to_int` tells the truth**: for a normalised float with fractional digits the result `t`
    is really inexact (`t·D ≠ s`), within one unit (one half for the nearest modes) on the side the mode
    prescribes, and `AddOne` ⇒ `t > x`, `SubOne` ⇒ `t < x` (integer-scaled contract, `D = B^(-exp)`) -/
theorem to_int_contract (B : Nat) (hB : 2 ≤ B) (m : Mode) (c : Coarse) (hc : CoarseSound c) (dub : Int → Nat)
    (hdub : DubSound B dub) (x : FBigM) (he : x.repr.exp < 0) (hn : x.repr.signif % (B : Int) ≠ 0) :
    IContract m (pointUnit B x.repr) x.repr.signif ((fToInt B m c dub x).1 * pointUnit B x.repr) (fToInt B m c dub x).2 :=
  fToInt_contract B hB m c hc dub hdub x he hn

/-- the value of `x` is `s / D` -/
theorem value_is_s_over_D (B : Nat) (hB : 2 ≤ B) (r : FRepr) (he : r.exp < 0) :
    r.toRat B * (pointUnit B r : ℚ) = (r.signif : ℚ) := toRat_neg_exp B hB r he

/-- floats without fractional digits (`exp ≥ 0`) are returned unchanged by trunc/floor/ceil/round and
    converted exactly by `to_int` -/
theorem integral_unchanged (B : Nat) (m : Mode) (c : Coarse) (dub : Int → Nat) (x : FBigM)
    (he : 0 ≤ x.repr.exp) :
    fTrunc B dub x = x ∧ fFloor B c dub x = x ∧ fCeil B c dub x = x ∧ fRound B c dub x = x ∧
    fToInt B m c dub x = (x.repr.signif * ((B ^ x.repr.exp.toNat : Nat) : Int), none) ∧
    x.repr.toRat B = ((x.repr.signif * ((B ^ x.repr.exp.toNat : Nat) : Int) : Int) : ℚ) := by
  have h : x.repr.exp ≥ 0 := he
  refine ⟨by simp [fTrunc, h], by simp [fFloor, h], by simp [fCeil, h], by simp [fRound, h],
    fToInt_int B m c dub x he, int_value B x.repr he⟩

/-- `Repr::to_int`: toward zero, always flagged `Inexact(NoOp)` when fractional digits exist -/
theorem repr_to_int_correct (B : Nat) (hB : 2 ≤ B) (dub : Int → Nat) (hdub : DubSound B dub) (r : FRepr)
    (he : r.exp < 0) :
    IsTowardZero r.signif (pointUnit B r) (reprToInt B dub r).1 ∧ (reprToInt B dub r).2 = some .NoOp :=
  reprToInt_spec B hB dub hdub r he

/-- `trunc(x) + fract(x) = x` -/
theorem trunc_add_fract_eq (B : Nat) (hB : 2 ≤ B) (dub : Int → Nat) (x : FBigM) :
    (fTrunc B dub x).repr.toRat B + (fFract B dub x).repr.toRat B = x.repr.toRat B :=
  trunc_add_fract B hB dub x

/-- `split_at_point() = (trunc(), fract())` -/
theorem split_at_point_eq (B : Nat) (dub : Int → Nat) (x : FBigM) :
    fSplitAtPoint B dub x = (fTrunc B dub x, fFract B dub x) := fSplit_eq B dub x

/-- regression of the repaired defect: `0.0099` (99·10⁻⁴) at precision 2 rounds to 0 (`round()`, and
    `to_int()` in mode HalfAway), and 1 — what the code returned before f9ab1b6 — is not a nearest integer -/
theorem round_small_regression :
    fRound 10 coarseNone (digitsI 10) ⟨⟨99, -4⟩, 2⟩ = ⟨⟨0, 0⟩, 0⟩ ∧
    fToInt 10 .halfAway coarseNone (digitsI 10) ⟨⟨99, -4⟩, 2⟩ = (0, some .NoOp) ∧
    ¬ IsNearestAway 99 10000 1 := by
  refine ⟨by decide +kernel, by decide +kernel, ?_⟩
  unfold IsNearestAway
  norm_num

/-! ### the `f32` estimate is not observable

For every sound `digits_ub` estimator (and sound coarse test) each rounding method returns exactly — value
and precision — what its general path returns, and the general paths (`fTruncGen`, `fFractGen`,
`roundGen`) do not consult the estimate.  Hence std and no_std builds (different estimators) agree.
`hfix`: the operand is in the normal form `Repr::new` produces. -/

theorem estimate_unobservable (B : Nat) (hB : 2 ≤ B) (c : Coarse) (hc : CoarseSound c) (dub : Int → Nat)
    (hdub : DubSound B dub) (x : FBigM) (hfix : FRepr.new B x.repr.signif x.repr.exp = x.repr) :
    fTrunc B dub x = fTruncGen B x ∧ fFract B dub x = fFractGen B x ∧
    fSplitAtPoint B dub x = (fTruncGen B x, fFractGen B x) ∧
    (x.repr.exp < 0 → fFloor B c dub x = roundGen B .down c x ∧ fRound B c dub x = roundGen B .halfAway c x ∧
      (x.repr.signif ≠ 0 → fCeil B c dub x = roundGen B .up c x)) :=
  ⟨fTrunc_eq_gen B hB dub hdub x, fFract_eq_gen B hB dub hdub x hfix, fSplit_eq_gen B hB dub hdub x hfix,
   fun he => ⟨fFloor_eq_gen B hB dub hdub x c he, fRound_eq_gen B hB dub hdub x c hc he,
     fun hs0 => fCeil_eq_gen B hB dub hdub x c he hs0⟩⟩

/-- two sound estimators give the same `trunc`, `fract`, `split_at_point` (e.g. the std `log2f` one and
    the no_std table one) -/
theorem estimators_agree (B : Nat) (hB : 2 ≤ B) (dub dub' : Int → Nat) (hdub : DubSound B dub)
    (hdub' : DubSound B dub') (x : FBigM) (hfix : FRepr.new B x.repr.signif x.repr.exp = x.repr) :
    fTrunc B dub x = fTrunc B dub' x ∧ fFract B dub x = fFract B dub' x ∧
    fSplitAtPoint B dub x = fSplitAtPoint B dub' x := by
  refine ⟨?_, ?_, ?_⟩
  · rw [fTrunc_eq_gen B hB dub hdub x, fTrunc_eq_gen B hB dub' hdub' x]
  · rw [fFract_eq_gen B hB dub hdub x hfix, fFract_eq_gen B hB dub' hdub' x hfix]
  · rw [fSplit_eq_gen B hB dub hdub x hfix, fSplit_eq_gen B hB dub' hdub' x hfix]

-- the case found by the std / no_std comparison: 0x50f·36⁻⁴ at precision 2; with an estimate that fires
-- (exact digit count 2) and one that does not (3) the result is the same
example : fSplitAtPoint 36 (digitsI 36) ⟨⟨0x50f, -4⟩, 2⟩ = fSplitAtPoint 36 (fun v => digitsI 36 v + 1) ⟨⟨0x50f, -4⟩, 2⟩ ∧
    smallerThanOne (digitsI 36) ⟨0x50f, -4⟩ = true ∧ smallerThanOne (fun v => digitsI 36 v + 1) ⟨0x50f, -4⟩ = false := by
  decide +kernel

/-! ### rationals (`rational/src/round.rs`, `num / den`, `den > 0`) -/

theorem rbig_trunc_correct (num : Int) (den : Nat) (hden : 0 < den) : IsTowardZero num den (qTrunc num den) :=
  qTrunc_spec num den hden
theorem rbig_floor_correct (num : Int) (den : Nat) (hden : 0 < den) : IsFloor num den (qFloor num den) :=
  qFloor_spec num den hden
theorem rbig_ceil_correct (num : Int) (den : Nat) (hden : 0 < den) : IsCeil num den (qCeil num den) :=
  qCeil_spec num den hden
theorem rbig_round_correct (num : Int) (den : Nat) (hden : 0 < den) : IsNearestAway num den (qRound num den) :=
  qRound_spec num den hden
/-- `trunc + fract = x`: `num = trunc · den + fract_numerator` (the fraction keeps the denominator) -/
theorem rbig_trunc_add_fract (num : Int) (den : Nat) :
    num = qTrunc num den * (den : Int) + qFractNum num den := q_trunc_add_fract num den

/-! ### non-vacuity -/

-- the trivial oracles meet the enclosure hypotheses
example : CoarseSound coarseNone := by intro _ _ _ _ h; cases h
example (B : Nat) : DubSound B (digitsI B) := fun _ => le_refl _
-- a half-way case at one digit: 2.5 in base 10 (n = 2, f = 5, k = 1): HalfEven stays, HalfAway goes up
example : roundFract 10 .halfEven coarseNone 2 5 1 = .NoOp ∧ roundFract 10 .halfAway coarseNone 2 5 1 = .AddOne ∧
    roundFract 10 .halfEven coarseNone 3 5 1 = .AddOne ∧ roundFract 10 .zero coarseNone (-2) 5 1 = .AddOne := by
  decide +kernel
-- repr_round of 12345·10⁻² to 3 digits, HalfAway: 123|45 → 123, NoOp (a normalised 5-digit operand)
example : Normalized 10 ⟨12345, -2⟩ ∧ reprRound 10 .halfAway coarseNone 3 ⟨12345, -2⟩ = (⟨123, 0⟩, some .NoOp) := by
  refine ⟨by unfold Normalized; decide, by decide +kernel⟩
-- hypotheses of the integer roundings / `to_int_contract` on a concrete value: −12.75 = −1275·10⁻² at 5 digits
example : (⟨⟨-1275, -2⟩, 5⟩ : FBigM).repr.exp < 0 ∧ (⟨⟨-1275, -2⟩, 5⟩ : FBigM).repr.signif % ((10 : Nat) : Int) ≠ 0 ∧
    fToInt 10 .halfEven coarseNone (digitsI 10) ⟨⟨-1275, -2⟩, 5⟩ = (-13, some .SubOne) ∧
    fFloor 10 coarseNone (digitsI 10) ⟨⟨-1275, -2⟩, 5⟩ = ⟨⟨-13, 0⟩, 3⟩ ∧
    fCeil 10 coarseNone (digitsI 10) ⟨⟨-1275, -2⟩, 5⟩ = ⟨⟨-12, 0⟩, 3⟩ ∧
    fTrunc 10 (digitsI 10) ⟨⟨-1275, -2⟩, 5⟩ = ⟨⟨-12, 0⟩, 3⟩ := by decide +kernel
-- hypotheses of `round_ratio_follows_mode`: a negative denominator and a tie, 1 + (−1)/(−2) = 1.5
example : (-2 : Int) ≠ 0 ∧ (-1 : Int) ≠ 0 ∧ |(-1 : Int)| < |(-2 : Int)| ∧
    roundRatio .halfEven 1 (-1) (-2) = .AddOne ∧ roundRatio .zero 1 (-1) (-2) = .NoOp := by
  refine ⟨by decide, by decide, by decide, by decide +kernel, by decide +kernel⟩
-- `with_precision_digits` on the input that exposed ee15d7b: 1234567 with unlimited precision to 3 digits
example : fWithPrecision 10 .halfAway coarseNone ⟨⟨1234567, 0⟩, 0⟩ 3 = (⟨⟨123, 4⟩, 3⟩, some .NoOp) ∧
    ((⟨⟨1234567, 0⟩, 0⟩ : FBigM).prec = 0 ∨ (⟨⟨1234567, 0⟩, 0⟩ : FBigM).repr.digits 10 ≤ 0) := by
  refine ⟨by decide +kernel, Or.inl rfl⟩
-- a float below 1/B² with a short precision, the case of the property text
example : smallerThanOne (digitsI 10) ⟨99, -4⟩ = true := by decide +kernel

end Dashu.Props.C10
