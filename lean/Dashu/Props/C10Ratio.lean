import Dashu.Proofs.Float.QRound
/-
  C10, rationals: the mirrored `rational/src/round.rs` — `Repr::{split_at_point, ceil, floor, trunc, fract, round}`
  (`QRepr.*` in `Model/Float/QRound.lean`, the definitions the driver executes) and the twelve public entry points
  `RBig::{…}` / `Relaxed::{…}` that wrap them.  For every numerator and every positive denominator, reduced or not:
  each integer result is the neighbour its name prescribes; `fract` has the operand's sign, magnitude `< 1`, and
  `x = trunc x + fract x`; `split_at_point = (trunc, fract)`; and the results of `fract` / `split_at_point` are valid
  values of their type although the code does not reduce them ("no need to reduce here"): lowest terms stay lowest
  terms (`RBig`), "not both even, zero is 0/1" stays so (`Relaxed`).
-/
namespace Dashu.Props.C10Ratio
open Dashu Dashu.Model.Float Dashu.Props.GenRound

/-! ### `Repr` level (shared by both types) -/

theorem repr_trunc_correct (x : QRepr) (hden : 0 < x.den) : IsTowardZero x.num x.den x.trunc := by
  rw [QRepr.trunc_eq]; exact qTrunc_spec x.num x.den hden

theorem repr_floor_correct (x : QRepr) (hden : 0 < x.den) : IsFloor x.num x.den x.floor := by
  rw [QRepr.floor_eq]; exact qFloor_spec x.num x.den hden

theorem repr_ceil_correct (x : QRepr) (hden : 0 < x.den) : IsCeil x.num x.den x.ceil := by
  rw [QRepr.ceil_eq]; exact qCeil_spec x.num x.den hden

/-- nearest integer, ties away from zero -/
theorem repr_round_correct (x : QRepr) (hden : 0 < x.den) : IsNearestAway x.num x.den x.round := by
  rw [QRepr.round_eq]; exact qRound_spec x.num x.den hden

/-- `x = trunc x + fract x`, cross-multiplied (`fract = fn / fd`): `num · fd = (trunc · fd + fn) · den` -/
theorem repr_trunc_add_fract (x : QRepr) :
    x.num * (x.fract.den : Int) = (x.trunc * (x.fract.den : Int) + x.fract.num) * (x.den : Int) :=
  QRepr.trunc_add_fract x

/-- `|fract x| < 1`, with the sign of `x` -/
theorem repr_fract_range (x : QRepr) (hden : 0 < x.den) :
    |x.fract.num| < (x.fract.den : Int) ∧ (0 ≤ x.num → 0 ≤ x.fract.num) ∧ (x.num ≤ 0 → x.fract.num ≤ 0) :=
  QRepr.fract_range x hden

theorem repr_split_at_point_eq (x : QRepr) : x.splitAtPoint = (x.trunc, x.fract) := QRepr.splitAtPoint_eq x

/-! ### `RBig` entry points (`x.IsRBig`: positive denominator, lowest terms) -/

theorem rbig_entry_points (x : QRepr) (h : x.IsRBig) :
    IsTowardZero x.num x.den (rbigTrunc x) ∧ IsFloor x.num x.den (rbigFloor x) ∧ IsCeil x.num x.den (rbigCeil x) ∧
    IsNearestAway x.num x.den (rbigRound x) ∧
    rbigSplitAtPoint x = (rbigTrunc x, rbigFract x) ∧ (rbigFract x).IsRBig ∧
    x.num * ((rbigFract x).den : Int) = (rbigTrunc x * ((rbigFract x).den : Int) + (rbigFract x).num) * (x.den : Int) :=
  ⟨repr_trunc_correct x h.1, repr_floor_correct x h.1, repr_ceil_correct x h.1, repr_round_correct x h.1,
   rfl, QRepr.fract_isRBig x h, QRepr.trunc_add_fract x⟩

/-! ### `Relaxed` entry points (`x.IsRelaxed`: positive denominator, not both even, zero is `0/1`) -/

theorem relaxed_entry_points (x : QRepr) (h : x.IsRelaxed) :
    IsTowardZero x.num x.den (relaxedTrunc x) ∧ IsFloor x.num x.den (relaxedFloor x) ∧
    IsCeil x.num x.den (relaxedCeil x) ∧ IsNearestAway x.num x.den (relaxedRound x) ∧
    relaxedSplitAtPoint x = (relaxedTrunc x, relaxedFract x) ∧ (relaxedFract x).IsRelaxed ∧
    x.num * ((relaxedFract x).den : Int) =
      (relaxedTrunc x * ((relaxedFract x).den : Int) + (relaxedFract x).num) * (x.den : Int) :=
  ⟨repr_trunc_correct x h.1, repr_floor_correct x h.1, repr_ceil_correct x h.1, repr_round_correct x h.1,
   rfl, QRepr.fract_isRelaxed x h, QRepr.trunc_add_fract x⟩

/-! ### non-vacuity -/

-- −22/12 enters `RBig` as −11/6 and `Relaxed` as −11/6; 15/9 stays 15/9 in `Relaxed` (5/3 in `RBig`)
example : rbigFromParts (-22) 12 = ⟨-11, 6⟩ ∧ relaxedFromParts (-22) 12 = ⟨-11, 6⟩ ∧
    rbigFromParts 15 9 = ⟨5, 3⟩ ∧ relaxedFromParts 15 9 = ⟨15, 9⟩ := by decide +kernel
example : (⟨5, 3⟩ : QRepr).IsRBig ∧ (⟨15, 9⟩ : QRepr).IsRelaxed := by
  refine ⟨⟨by decide, by decide⟩, ⟨by decide, by decide, by decide⟩⟩
-- the unreduced fraction of a `Relaxed`: 15/9 = 1 + 6/9; a tie away from zero: round(−5/2) = −3
example : relaxedSplitAtPoint ⟨15, 9⟩ = (1, ⟨6, 9⟩) ∧ rbigSplitAtPoint ⟨5, 3⟩ = (1, ⟨2, 3⟩) ∧
    rbigRound ⟨-5, 2⟩ = -3 ∧ rbigFloor ⟨-5, 2⟩ = -3 ∧ rbigCeil ⟨-5, 2⟩ = -2 ∧ rbigTrunc ⟨-5, 2⟩ = -2 ∧
    rbigFract ⟨4, 2⟩ = ⟨0, 1⟩ := by decide +kernel

end Dashu.Props.C10Ratio
