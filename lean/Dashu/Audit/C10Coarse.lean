import Dashu.Props.C10Coarse
open Dashu.Props.C10Coarse
#print axioms coarse_test_sound
#print axioms round_fract_coarse_irrelevant
#print axioms coarse_gt_margin
#print axioms coarse_lt_margin
#print axioms adjust_slack_lower
#print axioms adjust_slack_upper
