import Dashu.Props.C09Arith
/-! axioms of every theorem of `Props/C09Arith.lean` (C09 <-> C01 link: -x = !x + 1, x - y = x + !y + 1, (x & y) + (x | y) = x + y, (x ^ y) + 2 (x & y) = x + y on the executed models) -/
#print axioms Dashu.Props.C09Arith.scanon_is_wf
#print axioms Dashu.Props.C09Arith.neg_is_not_plus_one
#print axioms Dashu.Props.C09Arith.sub_is_add_not_plus_one
#print axioms Dashu.Props.C09Arith.not_is_neg_minus_one
#print axioms Dashu.Props.C09Arith.not_not_and_not_neg
#print axioms Dashu.Props.C09Arith.neg_bits
#print axioms Dashu.Props.C09Arith.and_plus_or_is_add
#print axioms Dashu.Props.C09Arith.xor_plus_carries_is_add
#print axioms Dashu.Props.C09Arith.neg_of_int
