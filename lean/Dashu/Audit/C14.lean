import Dashu.Props.C14
open Dashu.Props.C14
#print axioms float_cmp_ubig
