import Dashu.Props.C04Pow
open Dashu.Props.C04Pow
#print axioms pow_guard_is_proved_class
#print axioms pow_checked_ok
#print axioms pow_checked_cases
#print axioms rbig_pow_checked_exact
#print axioms pow_checked_over_proved_kernels
#print axioms pow_shift_overflow_panics
#print axioms pow_panics_only_beyond_memory
#print axioms rbig_pow_exact_or_beyond_memory
#print axioms relaxed_pow_checked_exact
#print axioms relaxed_pow_checked_equals_rbig
#print axioms stepG_cases
#print axioms runG_cases
#print axioms history_invariant_guarded
#print axioms history_values_guarded
#print axioms pow_checked_ok_below_memory
#print axioms pow_checked_ok_of_bits
#print axioms rbig_pow_exact_below_memory
#print axioms runG_eq_run_below_memory
#print axioms history_values_guarded_below_memory
#print axioms relaxed_pow_equals_rbig_below_memory
