import Dashu.Props.C20GenLoop
#print axioms Dashu.Props.C20GenLoop.int_loop_regenerated
#print axioms Dashu.Props.C20GenLoop.int_loop_run_regenerated
#print axioms Dashu.Props.C20GenLoop.int_loop_start
#print axioms Dashu.Props.C20GenLoop.ratio_loop_regenerated
#print axioms Dashu.Props.C20GenLoop.ratio_loop_run_regenerated
#print axioms Dashu.Props.C20GenLoop.ratio_loop_start
