import Dashu.Props.C20GenLoop
#print axioms Dashu.Props.C20GenLoop.int_loop_regenerated
#print axioms Dashu.Props.C20GenLoop.int_loop_run_regenerated
#print axioms Dashu.Props.C20GenLoop.int_loop_start
#print axioms Dashu.Props.C20GenLoop.ratio_loop_regenerated
#print axioms Dashu.Props.C20GenLoop.ratio_loop_run_regenerated
#print axioms Dashu.Props.C20GenLoop.ratio_loop_start
#print axioms Dashu.Props.C20GenLoop.int_finish_regenerated
#print axioms Dashu.Props.C20GenLoop.int_parse_regenerated
#print axioms Dashu.Props.C20GenLoop.int_finish_radix_width
#print axioms Dashu.Props.C20GenLoop.signed_parts
#print axioms Dashu.Props.C20GenLoop.finish_tail
#print axioms Dashu.Props.C20GenLoop.ratio_finish_regenerated
#print axioms Dashu.Props.C20GenLoop.ratio_parse_regenerated
