import Dashu.Props.C05Const
/-! axioms of every theorem of `Props/C05Const.lean` (`FBig::from_parts_const` normalises like `Repr::normalize`) -/
#print axioms Dashu.Props.C05.constStrip_eq_removeAll
#print axioms Dashu.Props.C05.from_parts_const_normalized
#print axioms Dashu.Props.C05.constDigits_spec
#print axioms Dashu.Props.C05.from_parts_const_fits
