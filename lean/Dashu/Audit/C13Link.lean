import Dashu.Props.C13Link
open Dashu.Props.C13Link
#print axioms rem_large_exact
#print axioms large_divisor_fields
#print axioms reduce_kernels_all
#print axioms mul_sqr_kernels_all
#print axioms widening_mul_exact
#print axioms udouble_div_rem_2by1_exact
#print axioms prim_mulm_exact
#print axioms invm_prim_exact
#print axioms inv_div_kernels_all
#print axioms buffer_logic_gen
#print axioms rem_large_gen
#print axioms mul_normalized_gen
#print axioms product_low_gen
#print axioms pow_kernels_all
#print axioms add_sub_neg_kernels_all
#print axioms add_in_place_exact
#print axioms add_sub_neg_ops_all
#print axioms add_logic_gen
#print axioms inv_large_buffers_all
