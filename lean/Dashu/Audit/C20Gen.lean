import Dashu.Props.C20Gen
#print axioms Dashu.Props.C20Gen.selector_table_regenerated
#print axioms Dashu.Props.C20Gen.staticSelect_eq
#print axioms Dashu.Props.C20Gen.static_select_value
#print axioms Dashu.Props.C20Gen.max_len_sufficient
#print axioms Dashu.Props.C20Gen.int_path_regenerated
#print axioms Dashu.Props.C20Gen.int_const_conversion_total
#print axioms Dashu.Props.C20Gen.float_path_regenerated
#print axioms Dashu.Props.C20Gen.ratio_path_regenerated
#print axioms Dashu.Props.C20Gen.fbig_prelude_eq
#print axioms Dashu.Props.C20Gen.fbig_prelude_regenerated
#print axioms Dashu.Props.C20Gen.dbig_prelude_regenerated
#print axioms Dashu.Props.C20Gen.quote_sign_regenerated
