import Dashu.Props.GenReprOnes
/-! axioms of every theorem of `Props/GenReprOnes.lean` (C09: `Repr::ones` of repr.rs in full, regenerated text = hand model) -/
#print axioms Dashu.Props.GenReprOnes.gen_repr_ones
#print axioms Dashu.Props.GenReprOnes.gen_repr_ones_boundary
