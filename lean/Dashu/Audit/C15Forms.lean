import Dashu.Props.C15Forms
open Dashu.Props.C15Forms
#print axioms rbig_parts
#print axioms relaxed_parts
#print axioms q_binop_with_macro_forms
#print axioms q_binop2_with_macro_forms
#print axioms q_binop_with_int_forms
#print axioms q_int_binop_forms
#print axioms q_assign_forms
#print axioms q_inverse_forms
#print axioms f_with_primitive_forms
#print axioms f_primitive_with_forms
#print axioms f_assign_forms
#print axioms f_mul_forms
#print axioms f_div_rem_forms
#print axioms f_div_euclid_forms
#print axioms f_rem_euclid_forms
#print axioms f_inverse_forms
#print axioms f_shift_forms
#print axioms f_add_sub_wrappers
#print axioms i_ubig_forms
#print axioms i_ibig_forms
#print axioms i_mixed_forms
#print axioms i_primitive_forms
#print axioms i_assign_forms
#print axioms i_div_rem_assign_forms
#print axioms fold_forms
#print axioms sum_is_left_fold
