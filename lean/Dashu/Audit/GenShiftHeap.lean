import Dashu.Props.GenShiftHeap
/-! axioms of every theorem of `Props/GenShiftHeap.lean` (C09: heap arms of << / >> of shift_ops.rs, regenerated text = hand model) -/
#print axioms Dashu.Props.GenShiftHeap.mod_lt_32
#print axioms Dashu.Props.GenShiftHeap.gen_shl_one_spilled
#print axioms Dashu.Props.GenShiftHeap.gen_shl_dword_spilled
#print axioms Dashu.Props.GenShiftHeap.gen_shl_dword_spilled_arms
#print axioms Dashu.Props.GenShiftHeap.split_replicate
#print axioms Dashu.Props.GenShiftHeap.gen_shl_large_ref
#print axioms Dashu.Props.GenShiftHeap.gen_shl_large
#print axioms Dashu.Props.GenShiftHeap.gen_shr_large
#print axioms Dashu.Props.GenShiftHeap.gen_shr_large_ref
#print axioms Dashu.Props.GenShiftHeap.gen_shr_heap_forms
#print axioms Dashu.Props.GenShiftHeap.gen_shl_dword_repr
