import Dashu.Props.GenBitsPrim
/-! axioms of every theorem of `Props/GenBitsPrim.lean` (C09: primitive-typed bit-operator forms, regenerated macro bodies = hand model) -/
#print axioms Dashu.Props.GenBitsPrim.map_unwrap
#print axioms Dashu.Props.GenBitsPrim.gen_ubig_and_prim
#print axioms Dashu.Props.GenBitsPrim.gen_ibig_and_prim
#print axioms Dashu.Props.GenBitsPrim.gen_ubig_op_prim
#print axioms Dashu.Props.GenBitsPrim.gen_ibig_op_prim_unsigned
#print axioms Dashu.Props.GenBitsPrim.gen_ibig_op_prim_signed
