import Dashu.Props.C11Gen
/- axiom audit of every theorem of Props/C11Gen -/
#print axioms Dashu.Props.C11Gen.seriesGuardDigits_gen
#print axioms Dashu.Props.C11Gen.powGuardDigits_gen
#print axioms Dashu.Props.C11Gen.expN_gen
#print axioms Dashu.Props.C11Gen.expWorkPrecNoScaling_gen
#print axioms Dashu.Props.C11Gen.expWorkPrec_gen
#print axioms Dashu.Props.C11Gen.expm1PowPrec_gen
#print axioms Dashu.Props.C11Gen.iacothWorkPrec_gen
#print axioms Dashu.Props.C11Gen.lnWorkPrec_gen
#print axioms Dashu.Props.C11Gen.lnGrowPrec_gen
#print axioms Dashu.Props.C11Gen.powfGuardDigits_gen
#print axioms Dashu.Props.C11Gen.powiWorkPrec_gen
#print axioms Dashu.Props.C11Gen.powiNegPrec_gen
#print axioms Dashu.Props.C11Gen.fSubUlp_gen
