import Dashu.Props.C18Kernels
open Dashu.Props.C18Kernels
#print axioms descent_div_rem_is_proved_kernel
#print axioms reduce_gcd_is_proved_kernel
#print axioms reduce_over_proved_gcd
#print axioms descent_over_proved_kernels
#print axioms kernel_descent_optimal
