import Dashu.Props.C10EstNoStd
open Dashu.Props.C10EstNoStd
#print axioms logb_le_of_pow
#print axioms ub_nostd_wide
#print axioms ub_nostd_u16
#print axioms digits_ub_nostd_sound
