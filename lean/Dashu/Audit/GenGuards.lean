import Dashu.Props.GenGuards
/-! axioms of every theorem of `Props/GenGuards.lean` (Tie A: theorems about text regenerated from /repo) -/
#print axioms Dashu.Props.GenGuards.assert_finite_is_model
#print axioms Dashu.Props.GenGuards.assert_finite_operands_is_model
#print axioms Dashu.Props.GenGuards.assert_limited_precision_is_model
#print axioms Dashu.Props.GenGuards.sqrt_guard_is_model
#print axioms Dashu.Props.GenGuards.ulp_guard_is_model
#print axioms Dashu.Props.GenGuards.repr_div_guard_is_model
#print axioms Dashu.Props.GenGuards.div_guard_is_model
#print axioms Dashu.Props.GenGuards.repr_round_ref_ok
#print axioms Dashu.Props.GenGuards.powf_guard_is_model
#print axioms Dashu.Props.GenGuards.ln_guard_is_model
#print axioms Dashu.Props.GenGuards.ln_1p_guard_is_model
#print axioms Dashu.Props.GenGuards.ibig_nth_root_guard_is_model
#print axioms Dashu.Props.GenGuards.ibig_sqrt_guard_is_model
#print axioms Dashu.Props.GenGuards.in_radix_guard_is_model
#print axioms Dashu.Props.GenGuards.from_parts_guard_is_model
