import Dashu.Props.GenFloatForms
/-! axioms of every theorem of `Props/GenFloatForms.lean` (Tie A: theorems about text regenerated from /repo) -/
#print axioms Dashu.Props.GenFloatForms.context_max_eq
#print axioms Dashu.Props.GenFloatForms.value_toGA
#print axioms Dashu.Props.GenFloatForms.apply_eq
#print axioms Dashu.Props.GenFloatForms.add_val_ref_is_model
#print axioms Dashu.Props.GenFloatForms.add_ref_ref_is_model
#print axioms Dashu.Props.GenFloatForms.add_val_ref_eq_add_ref_ref
