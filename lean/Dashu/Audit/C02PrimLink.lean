import Dashu.Props.C02PrimLink
open Dashu.Props.C02PrimLink
#print axioms ibig_rem_prim_eq
#print axioms ibig_divrem_prim_eq
#print axioms prim_div_ibig_eq
#print axioms ubig_rem_prim_exact
#print axioms ubig_divrem_prim_exact
#print axioms prim_div_ubig_exact
#print axioms ibig_rem_signed_prim_exact
#print axioms ibig_divrem_signed_prim_exact
#print axioms ibig_rem_unsigned_prim_exact
#print axioms signed_prim_div_ibig_exact
#print axioms ibig_rem_unsigned_prim_counterexample
#print axioms signed_prim_div_ibig_counterexample
