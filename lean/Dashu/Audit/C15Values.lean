import Dashu.Props.C15Values
import Dashu.Props.C15GenEuclid
import Dashu.Props.C15Link
import Dashu.Props.C15LinkRem
import Dashu.Props.C15CloneLink
-- one audit module for the three round-5 theorem modules (one `lean` start instead of three)
#print axioms Dashu.Props.C15Values.opAddSub_eq_review
#print axioms Dashu.Props.C15Values.fDivRemEuclid_pair
#print axioms Dashu.Props.C15Values.alignAsInt_value
#print axioms Dashu.Props.C15Values.fDivEuclid_panics_iff
#print axioms Dashu.Props.C15Values.fDivEuclid_spec
#print axioms Dashu.Props.C15Values.fDivEuclid_rem
#print axioms Dashu.Props.C15Values.euclidRemTail_value
#print axioms Dashu.Props.C15Values.fRemEuclid_exact
#print axioms Dashu.Props.C15Values.fShl_value
#print axioms Dashu.Props.C15Values.fShr_value
#print axioms Dashu.Props.C15Values.fShl_fShr
#print axioms Dashu.Props.C15GenEuclid.gen_DivEuclid_is_model
#print axioms Dashu.Props.C15GenEuclid.gen_RemEuclid_is_model
#print axioms Dashu.Props.C15GenEuclid.gen_DivRemEuclid_is_model
#print axioms Dashu.Props.C15GenEuclid.gen_euclid_method_forms
#print axioms Dashu.Props.C15Link.spec_intR_eq_bin
#print axioms Dashu.Props.C15Link.spec_intL_eq_bin
#print axioms Dashu.Props.C15Link.int_right_form_value
#print axioms Dashu.Props.C15Link.int_left_form_value
#print axioms Dashu.Props.C15GenEuclid.gen_Shl_is_model
#print axioms Dashu.Props.C15GenEuclid.gen_Shr_is_model
#print axioms Dashu.Props.C15GenEuclid.gen_Mul_is_model
#print axioms Dashu.Props.C15GenEuclid.gen_Div_is_model
#print axioms Dashu.Props.C15GenEuclid.gen_Rem_is_model
#print axioms Dashu.Props.C15Values.nearest_spec
#print axioms Dashu.Props.C15Values.remSignif_eq_nearest
#print axioms Dashu.Props.C15Values.toRat_scaled
#print axioms Dashu.Props.C15Values.remSignif_value
#print axioms Dashu.Props.C15Values.reprRem_panics_iff
#print axioms Dashu.Props.C15Values.reprRem_value
#print axioms Dashu.Props.C15Values.operator_eq_context_mul
#print axioms Dashu.Props.C15Values.operator_eq_context_addsub
#print axioms Dashu.Props.C15Values.operator_eq_context_addsub_nonzero
#print axioms Dashu.Props.C15Values.operator_eq_context_addsub_table
#print axioms Dashu.Props.C15Values.operator_eq_context_div
#print axioms Dashu.Props.C15Values.operator_eq_context_rem
#print axioms Dashu.Props.C15Values.operator_eq_context_mul_table
#print axioms Dashu.Props.C15Values.operator_eq_context_div_table
#print axioms Dashu.Props.C15Link.rbig_euclid_method_forms
#print axioms Dashu.Props.C15Link.relaxed_euclid_method_forms
#print axioms Dashu.Props.C15GenEuclid.gen_primitive_forms_are_model
#print axioms Dashu.Props.C15GenEuclid.gen_assign_by_taking_is_model
#print axioms Dashu.Props.C15GenEuclid.fromInt_spec
#print axioms Dashu.Props.C15LinkRem.ringRemainders_spec
#print axioms Dashu.Props.C15LinkRem.remSignif_greater_is_ring
#print axioms Dashu.Props.C15LinkRem.ring_zero_divisor
#print axioms Dashu.Props.C15CloneLink.clone_from_value
#print axioms Dashu.Props.C15CloneLink.clone_from_value_indep_of_dst
#print axioms Dashu.Props.C15CloneLink.clone_value
#print axioms Dashu.Props.C15CloneLink.clone_eq_clone_from
