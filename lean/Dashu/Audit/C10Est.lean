import Dashu.Props.C10Est
open Dashu.Props.C10Est
#print axioms digits_ub_sound
#print axioms dub_sound
#print axioms ub_small
#print axioms ub_wide
