import Dashu.Props.C16Gen
/-! axioms of every theorem of `Props/C16Gen.lean` (Tie A: theorems about text regenerated from /repo) -/
#print axioms Dashu.Props.C16Gen.pow_word_request_is_generated
#print axioms Dashu.Props.C16Gen.pow_dword_request_is_generated
#print axioms Dashu.Props.C16Gen.max_exp_loop_is_generated
#print axioms Dashu.Props.C16Gen.max_exp_in_word_is_generated
#print axioms Dashu.Props.C16Gen.from_chunks_len_is_generated
#print axioms Dashu.Props.C16Gen.from_chunks_guard_is_generated
#print axioms Dashu.Props.C16Gen.to_float_assert_is_generated
#print axioms Dashu.Props.C16Gen.to_float_shift_is_generated
#print axioms Dashu.Props.C16Gen.to_float_need_digits_in_usize
#print axioms Dashu.Props.C16Gen.powi_precision_is_generated
#print axioms Dashu.Props.C16Gen.powi_work_precision_is_c11s
