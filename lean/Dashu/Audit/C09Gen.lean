import Dashu.Props.GenBits
import Dashu.Props.GenIntOps
import Dashu.Props.GenMath
import Dashu.Props.GenBitsSmall
import Dashu.Props.C09Shift
import Dashu.Props.GenShift
import Dashu.Props.GenBitsPrim
import Dashu.Props.GenScans
import Dashu.Props.GenBitsMixed
import Dashu.Props.GenShiftHeap
import Dashu.Props.GenBitsHeap
import Dashu.Props.GenBitOpsHeap
import Dashu.Props.GenReprOnes
import Dashu.Props.GenBitDispatch
import Dashu.Props.GenNextPow2
import Dashu.Props.GenIntBits
import Dashu.Props.GenShiftDispatch
import Dashu.Props.C09BitLen
import Dashu.Props.C09Arith
/-! C09: axioms of every theorem of the Tie-A / link theorem modules of the property in ONE file (one Lean start instead of
    eight): Props/{GenBits, GenIntOps, GenMath, GenBitsSmall, C09Shift, GenShift, GenBitsPrim, GenScans, GenBitsMixed, GenShiftHeap, GenBitsHeap, GenBitOpsHeap, GenReprOnes, GenBitDispatch, GenNextPow2, GenIntBits, GenShiftDispatch, C09BitLen, C09Arith}.  The per-module audit
    files stay (other properties use some of them); this file lists the same theorems with fully qualified names. -/
#print axioms Dashu.Props.GenBits.gen_ibig_bitand
#print axioms Dashu.Props.GenBits.gen_ibig_bitor
#print axioms Dashu.Props.GenBits.gen_ibig_bitxor
#print axioms Dashu.Props.GenBits.gen_ibig_bitand_bits
#print axioms Dashu.Props.GenBits.gen_ibig_bitor_bits
#print axioms Dashu.Props.GenBits.gen_ibig_bitxor_bits
#print axioms Dashu.Props.GenIntOps.ibig_cmp_is_int_order
#print axioms Dashu.Props.GenIntOps.neg_floor_div
#print axioms Dashu.Props.GenIntOps.ibig_shr_is_floor_shift
#print axioms Dashu.Props.GenIntOps.ibig_shr_is_shiftRight
#print axioms Dashu.Props.GenMath.bitLength_eq
#print axioms Dashu.Props.GenMath.gen_bit_len
#print axioms Dashu.Props.GenMath.gen_ceil_log2
#print axioms Dashu.Props.GenMath.ceilDiv_pos_eq
#print axioms Dashu.Props.GenMath.ceilDiv_spec
#print axioms Dashu.Props.GenMath.ceilDiv_le_self
#print axioms Dashu.Props.GenMath.gen_ceil_div
#print axioms Dashu.Props.GenMath.gen_ceil_div_usize
#print axioms Dashu.Props.GenMath.gen_round_up
#print axioms Dashu.Props.GenMath.gen_round_up_usize
#print axioms Dashu.Props.GenMath.maxVal_shr
#print axioms Dashu.Props.GenMath.gen_ones_word
#print axioms Dashu.Props.GenMath.gen_ones_dword
#print axioms Dashu.Props.GenMath.gen_ones_word_out_of_domain
#print axioms Dashu.Props.GenMath.gen_shl_dword
#print axioms Dashu.Props.GenMath.gen_shr_word
#print axioms Dashu.Props.GenMath.shrBits_step_is_shr_word
#print axioms Dashu.Props.GenBitsSmall.cast_small
#print axioms Dashu.Props.GenBitsSmall.gen_shr_dword
#print axioms Dashu.Props.GenBitsSmall.gen_are_dword_low_bits_nonzero
#print axioms Dashu.Props.GenBitsSmall.and_two_pow_ne_zero
#print axioms Dashu.Props.GenBitsSmall.gen_bit_small
#print axioms Dashu.Props.GenBitsSmall.gen_clear_bit_small
#print axioms Dashu.Props.GenBitsSmall.gen_clear_high_bits_small
#print axioms Dashu.Props.GenBitsSmall.gen_split_bits_small
#print axioms Dashu.Props.GenBitsSmall.gen_heap_indices
#print axioms Dashu.Props.GenBitsSmall.gen_clear_high_bits_large_n_words
#print axioms Dashu.Props.GenBitsSmall.gen_ones_inline
#print axioms Dashu.Props.C09Shift.shlBits_eq_shlLoop
#print axioms Dashu.Props.C09Shift.shlBits_eq_shlInPlace
#print axioms Dashu.Props.C09Shift.mathShlDword_eq
#print axioms Dashu.Props.C09Shift.shrBits_eq_shrLoop
#print axioms Dashu.Props.C09Shift.shrBits_eq_shrInPlace
#print axioms Dashu.Props.C09Shift.div_kernels_are_generated
#print axioms Dashu.Props.GenShift.gen_shl_step
#print axioms Dashu.Props.GenShift.forWords_shl
#print axioms Dashu.Props.GenShift.gen_shl_in_place
#print axioms Dashu.Props.GenShift.gen_shr_step
#print axioms Dashu.Props.GenShift.forWordsRev_shr
#print axioms Dashu.Props.GenShift.gen_shr_in_place_with_carry
#print axioms Dashu.Props.GenShift.gen_shr_in_place_one_word
#print axioms Dashu.Props.GenShift.gen_shr_in_place_one_word_empty
#print axioms Dashu.Props.GenShift.gen_shr_in_place
#print axioms Dashu.Props.GenShift.gen_loops_are_the_bit_model
#print axioms Dashu.Props.GenBitsPrim.map_unwrap
#print axioms Dashu.Props.GenBitsPrim.gen_ubig_and_prim
#print axioms Dashu.Props.GenBitsPrim.gen_ibig_and_prim
#print axioms Dashu.Props.GenBitsPrim.gen_ubig_op_prim
#print axioms Dashu.Props.GenBitsPrim.gen_ibig_op_prim_unsigned
#print axioms Dashu.Props.GenBitsPrim.gen_ibig_op_prim_signed
#print axioms Dashu.Props.GenScans.tzAux_zero
#print axioms Dashu.Props.GenScans.trailing_zeros_eq
#print axioms Dashu.Props.GenScans.trailing_ones_eq
#print axioms Dashu.Props.GenScans.tzAux_le
#print axioms Dashu.Props.GenScans.tzWord_le
#print axioms Dashu.Props.GenScans.toWord_le
#print axioms Dashu.Props.GenScans.scan_zero
#print axioms Dashu.Props.GenScans.scan_one
#print axioms Dashu.Props.GenScans.takeWhile_len_le
#print axioms Dashu.Props.GenScans.tz_scan
#print axioms Dashu.Props.GenScans.gen_trailing_zeros_large
#print axioms Dashu.Props.GenScans.to_scan
#print axioms Dashu.Props.GenScans.gen_trailing_ones_large
#print axioms Dashu.Props.GenScans.gen_trailing_zeros_large_shifted_by_one
#print axioms Dashu.Props.GenScans.gen_trailing_zeros_large_shifted_by_one_empty
#print axioms Dashu.Props.GenBitsMixed.apply_sign
#print axioms Dashu.Props.GenBitsMixed.core_or
#print axioms Dashu.Props.GenBitsMixed.core_xor
#print axioms Dashu.Props.GenBitsMixed.gen_mixed_or_xor
#print axioms Dashu.Props.GenBitsMixed.ubig_as_ibig
#print axioms Dashu.Props.GenBitsMixed.mixed_or_xor
#print axioms Dashu.Props.GenShiftHeap.mod_lt_32
#print axioms Dashu.Props.GenShiftHeap.gen_shl_one_spilled
#print axioms Dashu.Props.GenShiftHeap.gen_shl_dword_spilled
#print axioms Dashu.Props.GenShiftHeap.gen_shl_dword_spilled_arms
#print axioms Dashu.Props.GenShiftHeap.split_replicate
#print axioms Dashu.Props.GenShiftHeap.gen_shl_large_ref
#print axioms Dashu.Props.GenShiftHeap.gen_shl_large
#print axioms Dashu.Props.GenShiftHeap.gen_shr_large
#print axioms Dashu.Props.GenBitsHeap.one_shl
#print axioms Dashu.Props.GenBitsHeap.gen_with_bit_dword_spilled
#print axioms Dashu.Props.GenBitsHeap.gen_with_bit_large
#print axioms Dashu.Props.GenBitsHeap.gen_clear_high_bits_large
#print axioms Dashu.Props.GenBitOpsHeap.zip_and
#print axioms Dashu.Props.GenBitOpsHeap.zip_len
#print axioms Dashu.Props.GenBitOpsHeap.zip_or
#print axioms Dashu.Props.GenBitOpsHeap.zip_xor
#print axioms Dashu.Props.GenBitOpsHeap.zip_and_not
#print axioms Dashu.Props.GenBitOpsHeap.gen_bitand_large
#print axioms Dashu.Props.GenBitOpsHeap.gen_bitor_large
#print axioms Dashu.Props.GenBitOpsHeap.gen_bitxor_large
#print axioms Dashu.Props.GenBitOpsHeap.gen_and_not_large
#print axioms Dashu.Props.GenBitOpsHeap.gen_large_dword
#print axioms Dashu.Props.GenBitOpsHeap.gen_large_dword_short
#print axioms Dashu.Props.GenBitOpsHeap.gen_heap_heap_arms
#print axioms Dashu.Props.GenScans.gen_are_slice_low_bits_nonzero
#print axioms Dashu.Props.GenShiftHeap.gen_shr_large_ref
#print axioms Dashu.Props.GenShiftHeap.gen_shr_heap_forms
#print axioms Dashu.Props.GenBitsHeap.gen_clear_bit_large
#print axioms Dashu.Props.GenBitsHeap.gen_split_bits_large
#print axioms Dashu.Props.GenScans.gen_bit_large
#print axioms Dashu.Props.GenScans.gen_bit_len_large
#print axioms Dashu.Props.GenScans.count_ones_eq
#print axioms Dashu.Props.GenScans.popWord_le
#print axioms Dashu.Props.GenScans.sum_checked_eq
#print axioms Dashu.Props.GenScans.gen_count_ones_large
#print axioms Dashu.Props.GenScans.gen_count_zeros_large_partial
#print axioms Dashu.Props.GenScans.is_power_of_two_eq
#print axioms Dashu.Props.GenScans.gen_is_power_of_two_large
#print axioms Dashu.Props.GenScans.last_le_sum
#print axioms Dashu.Props.GenScans.gen_count_zeros_large
#print axioms Dashu.Props.GenReprOnes.gen_repr_ones
#print axioms Dashu.Props.GenReprOnes.gen_repr_ones_boundary
#print axioms Dashu.Props.GenBitDispatch.lowest_dword_eq
#print axioms Dashu.Props.GenBitDispatch.lowest_dword_short
#print axioms Dashu.Props.GenBitDispatch.zipAnd_comm
#print axioms Dashu.Props.GenBitDispatch.zipOr_comm
#print axioms Dashu.Props.GenBitDispatch.zipXor_comm
#print axioms Dashu.Props.GenBitDispatch.bitand_comm
#print axioms Dashu.Props.GenBitDispatch.bitor_comm
#print axioms Dashu.Props.GenBitDispatch.bitxor_comm
#print axioms Dashu.Props.GenBitDispatch.gen_bitand_dispatch
#print axioms Dashu.Props.GenBitDispatch.gen_bitor_dispatch
#print axioms Dashu.Props.GenBitDispatch.gen_bitxor_dispatch
#print axioms Dashu.Props.GenBitDispatch.gen_and_not_dispatch
#print axioms Dashu.Props.GenNextPow2.skip_zero
#print axioms Dashu.Props.GenNextPow2.gen_next_power_of_two_large
#print axioms Dashu.Props.GenNextPow2.gen_next_power_of_two_large_empty
#print axioms Dashu.Props.GenNextPow2.gen_next_power_of_two
#print axioms Dashu.Props.GenScans.tzLarge_le
#print axioms Dashu.Props.GenScans.tzLargeShiftedByOne_succ_le
#print axioms Dashu.Props.GenScans.gen_trailing_ones_neg_large
#print axioms Dashu.Props.GenScans.gen_trailing_ones_neg_large_empty
#print axioms Dashu.Props.GenIntBits.gen_ibig_bit
#print axioms Dashu.Props.GenIntBits.gen_ibig_trailing_zeros
#print axioms Dashu.Props.GenIntBits.gen_ibig_trailing_ones
#print axioms Dashu.Props.GenIntBits.gen_ibig_not
#print axioms Dashu.Props.GenIntBits.gen_ibig_not_bits
#print axioms Dashu.Props.GenIntBits.specK_meets
#print axioms Dashu.Props.GenIntBits.modelK_meets
#print axioms Dashu.Props.GenIntBits.model_ibig_bit
#print axioms Dashu.Props.GenIntBits.model_ibig_trailing
#print axioms Dashu.Props.GenShiftHeap.gen_shl_dword_repr
#print axioms Dashu.Props.GenShiftDispatch.gen_shl_dispatch
#print axioms Dashu.Props.GenShiftDispatch.gen_shr_dispatch
#print axioms Dashu.Props.GenBitsHeap.gen_set_bit_small
#print axioms Dashu.Props.GenBitsHeap.gen_set_bit
#print axioms Dashu.Props.C09BitLen.gen_ibig_bit_len
#print axioms Dashu.Props.C09BitLen.sign_bits_above
#print axioms Dashu.Props.C09BitLen.top_bit_below
#print axioms Dashu.Props.C09BitLen.gen_ibig_bit_len_sign_bits
#print axioms Dashu.Props.C09BitLen.specK_meets_bit_len
#print axioms Dashu.Props.C09BitLen.modelK_meets_bit_len
#print axioms Dashu.Props.C09BitLen.model_ibig_bit_len
#print axioms Dashu.Props.C09Arith.scanon_is_wf
#print axioms Dashu.Props.C09Arith.neg_is_not_plus_one
#print axioms Dashu.Props.C09Arith.sub_is_add_not_plus_one
#print axioms Dashu.Props.C09Arith.not_is_neg_minus_one
#print axioms Dashu.Props.C09Arith.not_not_and_not_neg
#print axioms Dashu.Props.C09Arith.neg_bits
#print axioms Dashu.Props.C09Arith.and_plus_or_is_add
#print axioms Dashu.Props.C09Arith.xor_plus_carries_is_add
#print axioms Dashu.Props.C09Arith.neg_of_int
