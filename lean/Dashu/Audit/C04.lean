import Dashu.Props.C04
open Dashu.Props.C04
#print axioms neg_reduced
