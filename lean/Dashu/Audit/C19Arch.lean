import Dashu.Props.C19Arch
#print axioms Dashu.Props.C19.generic_add_with_carry_spec
#print axioms Dashu.Props.C19.generic_sub_with_borrow_spec
#print axioms Dashu.Props.C19.intrinsic_routines_eq_generic
#print axioms Dashu.Props.C19.add_with_carry_two_words
#print axioms Dashu.Props.C19.arch_tables_consistent
#print axioms Dashu.Props.C19.every_module_add_with_carry
