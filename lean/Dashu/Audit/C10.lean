import Dashu.Props.C10
open Dashu.Props.C10
#print axioms rInt_eq_adj
