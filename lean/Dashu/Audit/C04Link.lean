import Dashu.Props.C04Link
open Dashu.Props.C04Link
#print axioms gcd_contract_is_proved_kernel
#print axioms reduce_over_proved_gcd
