import Dashu.Props.GenRound
open Dashu.Props.GenRound
#print axioms down_correct
#print axioms up_correct
#print axioms zero_correct
#print axioms away_correct
#print axioms half_even_correct
#print axioms half_away_correct
#print axioms isFloor_unique
