import Dashu.Props.C19Mod
#print axioms Dashu.Props.C19.word_size_independent_modular_new_zero
#print axioms Dashu.Props.C19.word_size_independent_modular
