import Dashu.Props.GenBitsMixed
/-! axioms of every theorem of `Props/GenBitsMixed.lean` (C09: mixed UBig/IBig `|` and `^`, regenerated forwarders ∘ regenerated sign tables) -/
#print axioms Dashu.Props.GenBitsMixed.apply_sign
#print axioms Dashu.Props.GenBitsMixed.core_or
#print axioms Dashu.Props.GenBitsMixed.core_xor
#print axioms Dashu.Props.GenBitsMixed.gen_mixed_or_xor
#print axioms Dashu.Props.GenBitsMixed.ubig_as_ibig
#print axioms Dashu.Props.GenBitsMixed.mixed_or_xor
