import Dashu.Props.C17Link
open Dashu.Props.C17Link
#print axioms gcd_skeleton_kernel_is_c12
#print axioms rawToAscii_ascii
#print axioms digit_writer_all_writes_in_bounds
#print axioms digit_writer_write_keeps_len
