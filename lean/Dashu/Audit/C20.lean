import Dashu.Props.C20
#print axioms Dashu.Props.C20.int_literal_is_runtime_parse
#print axioms Dashu.Props.C20.int_literal_sound
#print axioms Dashu.Props.C20.bytes_path_value
#print axioms Dashu.Props.C20.static_path_value
#print axioms Dashu.Props.C20.static_path_layout
#print axioms Dashu.Props.C20.word_array_value
#print axioms Dashu.Props.C20.const_path_value
#print axioms Dashu.Props.C20.generator_choice
#print axioms Dashu.Props.C20.ratio_literal_canonical
#print axioms Dashu.Props.C20.ratio_literal_sound
#print axioms Dashu.Props.C20.float_literal_spec
#print axioms Dashu.Props.C20.int_double_sign_accepted
#print axioms Dashu.Props.C20.ratio_missing_slash_accepted
#print axioms Dashu.Props.C20.float_precision_lost
