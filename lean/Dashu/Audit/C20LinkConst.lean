import Dashu.Props.C20LinkConst
#print axioms Dashu.Props.C20Link.from_parts_const_fixed
#print axioms Dashu.Props.C20Link.from_parts_const_zero
#print axioms Dashu.Props.C20Link.const_path_is_mirrored_constructor
#print axioms Dashu.Props.C20Link.from_parts_const_on_literal
