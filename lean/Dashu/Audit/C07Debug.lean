import Dashu.Props.C07Debug
open Dashu.Props.C07Debug
#print axioms debug_head_tail_on_words
#print axioms debug_text
#print axioms debug_text_est_one
#print axioms debug_head_tail_true_digits
