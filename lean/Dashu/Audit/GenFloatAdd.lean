import Dashu.Props.GenFloatAdd
/-! axioms of every theorem of `Props/GenFloatAdd.lean` (Tie A: theorems about text regenerated from /repo) -/
#print axioms Dashu.Props.GenFloatAdd.gmin_cast
#print axioms Dashu.Props.GenFloatAdd.gmin_cast_sub
#print axioms Dashu.Props.GenFloatAdd.cast_sub_le
#print axioms Dashu.Props.GenFloatAdd.round_sum_tail
#print axioms Dashu.Props.GenFloatAdd.repr_round_sum_is_model
#print axioms Dashu.Props.GenFloatAdd.sign_mul_int_eq
#print axioms Dashu.Props.GenFloatAdd.is_sub_eq
#print axioms Dashu.Props.GenFloatAdd.signum_eq
#print axioms Dashu.Props.GenFloatAdd.repr_add_large_small_is_model
#print axioms Dashu.Props.GenFloatAdd.rsI_cases
#print axioms Dashu.Props.GenFloatAdd.digitsI_rsI
#print axioms Dashu.Props.GenFloatAdd.sgn_rsI
#print axioms Dashu.Props.GenFloatAdd.is_sub_eq
#print axioms Dashu.Props.GenFloatAdd.shl_neg
#print axioms Dashu.Props.GenFloatAdd.shl_rsI
#print axioms Dashu.Props.GenFloatAdd.repr_add_small_large_is_model
#print axioms Dashu.Props.GenFloatAdd.stripAux_ne_zero
#print axioms Dashu.Props.GenFloatAdd.new_not_inf
#print axioms Dashu.Props.GenFloatAdd.modelK_repr_new
#print axioms Dashu.Props.GenFloatAdd.context_add_is_model
#print axioms Dashu.Props.GenFloatAdd.context_sub_is_model
