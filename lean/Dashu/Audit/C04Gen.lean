import Dashu.Props.C04Gen
open Dashu.Props.C04Gen
#print axioms invocations_regenerated
#print axioms addsub_int_with_rbig_regenerated
#print axioms int_sub_rbig_regenerated
#print axioms addsub_int_with_relaxed_regenerated
#print axioms int_sub_relaxed_regenerated
#print axioms mul_int_with_rbig_regenerated
#print axioms mul_int_with_relaxed_regenerated
#print axioms rbig_div_int_regenerated
#print axioms int_div_rbig_regenerated
#print axioms relaxed_div_int_regenerated
#print axioms int_div_relaxed_regenerated
#print axioms int_right_ops_regenerated
#print axioms int_left_ops_regenerated
#print axioms binary_ops_regenerated
#print axioms euclid_ops_regenerated
#print axioms reductions_regenerated
#print axioms rounding_regenerated
#print axioms unary_regenerated
#print axioms constructors_regenerated
#print axioms const_constructors_regenerated
#print axioms const_gcd_loop_regenerated
