import Dashu.Props.GenBitOpsHeap
/-! axioms of every theorem of `Props/GenBitOpsHeap.lean` (C09: word loops of & | ^ and_not of bits.rs, regenerated text = hand kernels) -/
#print axioms Dashu.Props.GenBitOpsHeap.zip_and
#print axioms Dashu.Props.GenBitOpsHeap.zip_len
#print axioms Dashu.Props.GenBitOpsHeap.zip_or
#print axioms Dashu.Props.GenBitOpsHeap.zip_xor
#print axioms Dashu.Props.GenBitOpsHeap.zip_and_not
#print axioms Dashu.Props.GenBitOpsHeap.gen_bitand_large
#print axioms Dashu.Props.GenBitOpsHeap.gen_bitor_large
#print axioms Dashu.Props.GenBitOpsHeap.gen_bitxor_large
#print axioms Dashu.Props.GenBitOpsHeap.gen_and_not_large
#print axioms Dashu.Props.GenBitOpsHeap.gen_large_dword
#print axioms Dashu.Props.GenBitOpsHeap.gen_large_dword_short
#print axioms Dashu.Props.GenBitOpsHeap.gen_heap_heap_arms
