import Dashu.Props.C05Norm
/-! axioms of every theorem of `Props/C05Norm.lean` and `Props/GenFloatNorm.lean` (Tie A: `Repr::normalize` regenerated) -/
#print axioms Dashu.Props.C05.float_normalize_regenerated
#print axioms Dashu.Props.C05.float_new_is_normalize
#print axioms Dashu.Props.GenFloatNorm.removeAll_unique
#print axioms Dashu.Props.GenFloatNorm.removeRepr_eq_removeAll
#print axioms Dashu.Props.GenFloatNorm.removeRepr_pow2
#print axioms Dashu.Props.GenFloatNorm.tz_two_pow
#print axioms Dashu.Props.GenFloatNorm.natAbs_pos_of_ne
#print axioms Dashu.Props.GenFloatNorm.ediv_of_dvd_natAbs
#print axioms Dashu.Props.GenFloatNorm.shift_arm
#print axioms Dashu.Props.GenFloatNorm.pow2_facts
#print axioms Dashu.Props.GenFloatNorm.normalize_is_model
#print axioms Dashu.Props.GenFloatNorm.repr_new_eq_normalize
#print axioms Dashu.Props.GenFloatNorm.normalize_is_repr_new
#print axioms Dashu.Props.GenFloatNorm.normalize_unwraps_are_some
