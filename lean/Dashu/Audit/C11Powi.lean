import Dashu.Props.C11Powi
/- axiom audit of every theorem of Props/C11Powi -/
#print axioms Dashu.Props.C11Powi.powi_nonneg_error
#print axioms Dashu.Props.C11Powi.powi_nonneg_half_lt_ulp
#print axioms Dashu.Props.C11Powi.workPrec_eq
#print axioms Dashu.Props.C11Powi.powi_neg_error
#print axioms Dashu.Props.C11Powi.powi_neg_half_lt_ulp
#print axioms Dashu.Props.C11Powi.coarseNone_sound
#print axioms Dashu.Props.C11Powi.powi_model_reproduces
#print axioms Dashu.Props.C11Powi.powi_directed_counterexample
#print axioms Dashu.Props.C11Powi.unit_base_zpow_reduce
#print axioms Dashu.Props.C11Powi.unlimited_step_exact
#print axioms Dashu.Props.C11Powi.powi_unlimited_exact
