import Dashu.Props.C10Dlb
open Dashu.Props.C10Dlb
#print axioms dlbLibm_eq
#print axioms dlb_sound_libm
#print axioms all_estimators_sound_libm
#print axioms env_oracles_sound_libm
#print axioms sub_ulp_below_ulp_libm
