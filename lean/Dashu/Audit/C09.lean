import Dashu.Props.C09
open Dashu.Props.C09
#print axioms placeholder
