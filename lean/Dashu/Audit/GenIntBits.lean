import Dashu.Props.GenIntBits
/-! axioms of every theorem of `Props/GenIntBits.lean` (C09: sign-level bit functions of IBig, regenerated text = two's-complement meaning) -/
#print axioms Dashu.Props.GenIntBits.gen_ibig_bit
#print axioms Dashu.Props.GenIntBits.gen_ibig_trailing_zeros
#print axioms Dashu.Props.GenIntBits.gen_ibig_trailing_ones
#print axioms Dashu.Props.GenIntBits.gen_ibig_not
#print axioms Dashu.Props.GenIntBits.gen_ibig_not_bits
#print axioms Dashu.Props.GenIntBits.specK_meets
#print axioms Dashu.Props.GenIntBits.modelK_meets
#print axioms Dashu.Props.GenIntBits.model_ibig_bit
#print axioms Dashu.Props.GenIntBits.model_ibig_trailing
