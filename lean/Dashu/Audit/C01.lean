import Dashu.Props.C01
open Dashu.Props.C01
#print axioms add_same_len_exact
#print axioms sub_same_len_exact
#print axioms add_one_exact
#print axioms sub_one_exact
#print axioms from_buffer_exact
#print axioms add_dword_exact
