import Dashu.Props.GenMath
/-! axioms of every theorem of `Props/GenMath.lean` (C09, Tie A: theorems about the text of integer/src/math.rs regenerated from /repo) -/
#print axioms Dashu.Props.GenMath.bitLength_eq
#print axioms Dashu.Props.GenMath.gen_bit_len
#print axioms Dashu.Props.GenMath.gen_ceil_log2
#print axioms Dashu.Props.GenMath.ceilDiv_pos_eq
#print axioms Dashu.Props.GenMath.ceilDiv_spec
#print axioms Dashu.Props.GenMath.ceilDiv_le_self
#print axioms Dashu.Props.GenMath.gen_ceil_div
#print axioms Dashu.Props.GenMath.gen_ceil_div_usize
#print axioms Dashu.Props.GenMath.gen_round_up
#print axioms Dashu.Props.GenMath.gen_round_up_usize
#print axioms Dashu.Props.GenMath.maxVal_shr
#print axioms Dashu.Props.GenMath.gen_ones_word
#print axioms Dashu.Props.GenMath.gen_ones_dword
#print axioms Dashu.Props.GenMath.gen_ones_word_out_of_domain
#print axioms Dashu.Props.GenMath.gen_shl_dword
#print axioms Dashu.Props.GenMath.gen_shr_word
#print axioms Dashu.Props.GenMath.shrBits_step_is_shr_word
