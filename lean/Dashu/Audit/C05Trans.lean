import Dashu.Props.C05Trans
open Dashu.Props.C05
#print axioms float_transcendental_results_fit
#print axioms float_cmp_of_transcendental_results
