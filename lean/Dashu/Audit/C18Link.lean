import Dashu.Props.C18Link
open Dashu.Props.C18Link
#print axioms rounding_set_is_preimage
#print axioms rounding_set_is_interval
#print axioms simplest_from_float_special
#print axioms simplest_from_f32_exact
#print axioms simplest_from_f64_exact
#print axioms ulpExp_is_binade_minus_precision
#print axioms rounds_to_is_spec_round
#print axioms simplest_from_fbig_spec_round
#print axioms cmpQ_is_regenerated_repr_cmp
