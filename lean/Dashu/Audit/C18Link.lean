import Dashu.Props.C18Link
open Dashu.Props.C18Link
#print axioms rounding_set_is_preimage
#print axioms rounding_set_is_interval
#print axioms simplest_from_float_special
#print axioms simplest_from_f32_exact
#print axioms simplest_from_f64_exact
