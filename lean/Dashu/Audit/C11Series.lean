import Dashu.Props.C11Series
/- axiom audit of every theorem of Props/C11Series -/
#print axioms Dashu.Props.C11Series.powLoopF_value
#print axioms Dashu.Props.C11Series.powiNonnegF_value
#print axioms Dashu.Props.C11Series.expLoop_fuel_irrelevant
#print axioms Dashu.Props.C11Series.lnLoop_fuel_irrelevant
#print axioms Dashu.Props.C11Series.iacothLoop_fuel_irrelevant
#print axioms Dashu.Props.C11Series.expLoop_deterministic
#print axioms Dashu.Props.C11Series.expLoop_steps
#print axioms Dashu.Props.C11Series.expWorkPrec_eq
#print axioms Dashu.Props.C11Series.expWorkPrecNoScaling_eq
#print axioms Dashu.Props.C11Series.lnWorkPrec_eq
#print axioms Dashu.Props.C11Series.iacothWorkPrec_eq
#print axioms Dashu.Props.C11Series.powfGuardDigits_eq
#print axioms Dashu.Props.C11Series.powiWorkPrec_eq
#print axioms Dashu.Props.C11Series.workPrec_gt
#print axioms Dashu.Props.C11Series.expBody_never_exact
#print axioms Dashu.Props.C11Series.lnBody_never_exact
#print axioms Dashu.Props.C11Series.expFull_exact_only_zero
#print axioms Dashu.Props.C11Series.lnFull_exact_only_shortcut
#print axioms Dashu.Props.C11Series.body_prec
#print axioms Dashu.Props.C11Series.subUlp_le
