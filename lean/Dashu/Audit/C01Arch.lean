import Dashu.Props.C01Arch
open Dashu.Props.C01Arch
#print axioms add_carry_num
#print axioms sub_borrow_num
#print axioms add_same_len_via
#print axioms sub_same_len_via
#print axioms sub_same_len_swap_via
#print axioms regenerated_routines_meet_contract
#print axioms word_loops_over_regenerated_arch
#print axioms arch_step_is_model_step
