import Dashu.Props.GenFloatOps
/-! axioms of every theorem of `Props/GenFloatOps.lean` (Tie A: theorems about text regenerated from /repo) -/
#print axioms Dashu.Props.GenFloatOps.int_add_rounding_eq
#print axioms Dashu.Props.GenFloatOps.sat_sub_nat
#print axioms Dashu.Props.GenFloatOps.sat_sub
#print axioms Dashu.Props.GenFloatOps.nat_sub_cast
#print axioms Dashu.Props.GenFloatOps.trunc_is_model
#print axioms Dashu.Props.GenFloatOps.split_at_point_internal_is_model
#print axioms Dashu.Props.GenFloatOps.split_at_point_is_model
#print axioms Dashu.Props.GenFloatOps.fract_is_model
#print axioms Dashu.Props.GenFloatOps.ceil_is_model
#print axioms Dashu.Props.GenFloatOps.floor_is_model
#print axioms Dashu.Props.GenFloatOps.round_is_model
#print axioms Dashu.Props.GenFloatOps.repr_round_is_model
#print axioms Dashu.Props.GenFloatOps.repr_round_ref_is_model
