import Dashu.Props.C05
open Dashu.Props.C05
#print axioms ubig_cmp
#print axioms ibig_cmp
#print axioms canonical_form_unique
#print axioms eq_iff_value_eq
#print axioms cmp_equal_iff_eq
#print axioms hash_follows_value
#print axioms cmp_swap
#print axioms cmp_wrong_without_canon
#print axioms producers_canonical
#print axioms signed_producers_canonical
#print axioms history_canonical
#print axioms history_values
#print axioms history_eq_cmp_hash
#print axioms float_cmp
#print axioms float_cmp_needs_precision_bound
#print axioms float_results_fit
#print axioms float_results_canonical
#print axioms float_cmp_of_results
#print axioms float_spare_digit_occurs
#print axioms float_normalize
#print axioms float_eq_iff_cmp_equal
#print axioms ratio_cmp
#print axioms relaxed_eq
#print axioms rbig_eq
#print axioms rbig_hash_follows_value
#print axioms ratio_cmp_equal_iff_eq
