import Dashu.Props.C05
open Dashu.Props.C05
#print axioms ubig_cmp
#print axioms ibig_cmp
#print axioms canonical_form_unique
#print axioms eq_iff_value_eq
#print axioms cmp_equal_iff_eq
#print axioms hash_follows_value
#print axioms cmp_swap
#print axioms cmp_wrong_without_canon
#print axioms producers_canonical
#print axioms signed_producers_canonical
