import Dashu.Props.GenBits
open Dashu.Props.GenBits
#print axioms gen_ibig_bitand
#print axioms gen_ibig_bitor
#print axioms gen_ibig_bitxor
#print axioms gen_ibig_bitand_bits
#print axioms gen_ibig_bitor_bits
#print axioms gen_ibig_bitxor_bits
