import Dashu.Props.GenInt
open Dashu.Props.GenInt
#print axioms ibig_add_exact
#print axioms ibig_sub_exact
#print axioms ibig_mul_exact
#print axioms ibig_div_exact
#print axioms ibig_rem_exact
#print axioms ibig_divrem_exact
#print axioms ibig_div_euclid_exact
#print axioms ibig_rem_euclid_exact
#print axioms ibig_divrem_euclid_exact
#print axioms ubig_ibig_rem_exact
#print axioms ubig_ibig_divrem_exact
