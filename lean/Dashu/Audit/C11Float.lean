import Dashu.Props.C11Float
/- axiom audit of every theorem of Props/C11Float -/
#print axioms Dashu.Props.C11Float.checkedPowfFloatScaled_sound
#print axioms Dashu.Props.C11Float.checkedLnFloat_sound
