import Dashu.Props.GenBitDispatch
/-! axioms of every theorem of `Props/GenBitDispatch.lean` (C09: operator dispatch of & | ^ and_not of bits.rs, regenerated text = hand model) -/
#print axioms Dashu.Props.GenBitDispatch.lowest_dword_eq
#print axioms Dashu.Props.GenBitDispatch.lowest_dword_short
#print axioms Dashu.Props.GenBitDispatch.zipAnd_comm
#print axioms Dashu.Props.GenBitDispatch.zipOr_comm
#print axioms Dashu.Props.GenBitDispatch.zipXor_comm
#print axioms Dashu.Props.GenBitDispatch.bitand_comm
#print axioms Dashu.Props.GenBitDispatch.bitor_comm
#print axioms Dashu.Props.GenBitDispatch.bitxor_comm
#print axioms Dashu.Props.GenBitDispatch.gen_bitand_dispatch
#print axioms Dashu.Props.GenBitDispatch.gen_bitor_dispatch
#print axioms Dashu.Props.GenBitDispatch.gen_bitxor_dispatch
#print axioms Dashu.Props.GenBitDispatch.gen_and_not_dispatch
