import Dashu.Props.C18KernelsCmp
open Dashu.Props.C18KernelsCmp
#print axioms ltW_eq
#print axioms descent_with_cmp_over_proved_kernels
#print axioms kernel_descent_with_cmp_optimal
