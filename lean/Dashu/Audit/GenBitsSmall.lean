import Dashu.Props.GenBitsSmall
/-! axioms of every theorem of `Props/GenBitsSmall.lean` (C09, Tie A: inline arms of bits.rs / shift_ops.rs with a usize argument, regenerated from /repo) -/
#print axioms Dashu.Props.GenBitsSmall.cast_small
#print axioms Dashu.Props.GenBitsSmall.gen_shr_dword
#print axioms Dashu.Props.GenBitsSmall.gen_are_dword_low_bits_nonzero
#print axioms Dashu.Props.GenBitsSmall.and_two_pow_ne_zero
#print axioms Dashu.Props.GenBitsSmall.gen_bit_small
#print axioms Dashu.Props.GenBitsSmall.gen_clear_bit_small
#print axioms Dashu.Props.GenBitsSmall.gen_clear_high_bits_small
#print axioms Dashu.Props.GenBitsSmall.gen_split_bits_small
#print axioms Dashu.Props.GenBitsSmall.gen_heap_indices
#print axioms Dashu.Props.GenBitsSmall.gen_clear_high_bits_large_n_words
#print axioms Dashu.Props.GenBitsSmall.gen_ones_inline
