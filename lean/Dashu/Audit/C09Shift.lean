import Dashu.Props.C09Shift
/-! axioms of every theorem of `Props/C09Shift.lean` (C09: shift.rs / math.rs — the bit model, the division model and the regenerated text are one model) -/
#print axioms Dashu.Props.C09Shift.shlBits_eq_shlLoop
#print axioms Dashu.Props.C09Shift.shlBits_eq_shlInPlace
#print axioms Dashu.Props.C09Shift.mathShlDword_eq
#print axioms Dashu.Props.C09Shift.shrBits_eq_shrLoop
#print axioms Dashu.Props.C09Shift.shrBits_eq_shrInPlace
#print axioms Dashu.Props.C09Shift.div_kernels_are_generated
