import Dashu.Props.C05Order
open Dashu.Props.C05
#print axioms float_spec_is_value_order
#print axioms float_spec_infinities_at_ends
#print axioms float_cmp_is_value_order
#print axioms float_cmp_trans
#print axioms float_cmp_swap
#print axioms float_history_value_order
#print axioms float_spec_is_extended_value_order
#print axioms float_spec_trans
#print axioms float_cmp_is_extended_value_order
#print axioms float_history_value_order_any_precision
#print axioms float_history_cmp_total_order
