import Dashu.Props.C03Link
open Dashu.Props.C03Link
#print axioms sqrtRemRepr_ok
#print axioms sqrt_contract_over_sqrt_rem
#print axioms kernels_agree
#print axioms sqrt_exact_flag_over_sqrt_rem
