import Dashu.Props.GenBitsHeap
/-! axioms of every theorem of `Props/GenBitsHeap.lean` (C09: heap arms of set_bit / clear_high_bits of bits.rs, regenerated text = hand model) -/
#print axioms Dashu.Props.GenBitsHeap.one_shl
#print axioms Dashu.Props.GenBitsHeap.gen_with_bit_dword_spilled
#print axioms Dashu.Props.GenBitsHeap.gen_with_bit_large
#print axioms Dashu.Props.GenBitsHeap.gen_clear_high_bits_large
#print axioms Dashu.Props.GenBitsHeap.gen_clear_bit_large
#print axioms Dashu.Props.GenBitsHeap.gen_split_bits_large
#print axioms Dashu.Props.GenBitsHeap.gen_set_bit_small
#print axioms Dashu.Props.GenBitsHeap.gen_set_bit
