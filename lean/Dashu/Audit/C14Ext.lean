import Dashu.Props.C14Link
import Dashu.Props.C14EstNoStd
import Dashu.Props.C14I128
import Dashu.Props.C14Shl
import Dashu.Props.C14Mul
/- one audit module for the C14 extension modules (one Lean process: import cost paid once) -/
#print axioms Dashu.Props.C14Link.ubig_ord_mirrored
#print axioms Dashu.Props.C14Link.ibig_ord_mirrored
#print axioms Dashu.Props.C14Link.ibig_ord_any_repr
#print axioms Dashu.Props.C14Link.ubig_ord_any_repr
#print axioms Dashu.Props.C14Link.sOfInt_mag
#print axioms Dashu.Props.C14Link.sOfInt_neg
#print axioms Dashu.Props.C14Link.int_abs_ord_mirrored
#print axioms Dashu.Props.C14Link.int_abs_eq_mirrored
#print axioms Dashu.Props.C14Link.ubig_cmp_ibig_mirrored
#print axioms Dashu.Props.C14Link.ibig_cmp_ubig_mirrored
#print axioms Dashu.Props.C14Link.numPartialCmpKW_eq
#print axioms Dashu.Props.C14Link.num_partial_cmp_mirrored
#print axioms Dashu.Props.C14Link.num_eq_mirrored
#print axioms Dashu.Props.C14Link.absCmpKW_eq
#print axioms Dashu.Props.C14Link.abs_cmp_mirrored
#print axioms Dashu.Props.C14Link.ord_cmp_mirrored
#print axioms Dashu.Props.C14Link.num_ord_exact_words
#print axioms Dashu.Props.C14Link.abs_ord_exact_words
#print axioms Dashu.Props.C14Link.ord_exact_words
#print axioms Dashu.Props.C14Link.exact_step_is_mirrored_cmp
#print axioms Dashu.Props.C14EstNoStd.u8_encloses
#print axioms Dashu.Props.C14EstNoStd.prim_encloses
#print axioms Dashu.Props.C14EstNoStd.large_encloses
#print axioms Dashu.Props.C14EstNoStd.nat_encloses
#print axioms Dashu.Props.C14EstNoStd.rat_encloses
#print axioms Dashu.Props.C14EstNoStd.oracle_sound_of_float_part
#print axioms Dashu.Props.C14EstNoStd.exact_arithmetic_meets_ax
#print axioms Dashu.Props.C14EstNoStd.table_oracle_sound
#print axioms Dashu.Props.C14EstNoStd.num_ord_exact_table_path
#print axioms Dashu.Props.C14I128.wrapI128_id
#print axioms Dashu.Props.C14I128.decode_small
#print axioms Dashu.Props.C14I128.mul_range
#print axioms Dashu.Props.C14I128.repr_num_ord_float_i128
#print axioms Dashu.Props.C14I128.repr_num_ord_float_i128_decode
#print axioms Dashu.Props.C14Shl.shl_mirrored
#print axioms Dashu.Props.C14Shl.shl_digits_base2_mirrored
#print axioms Dashu.Props.C14Shl.shl_digits_pow2_mirrored
#print axioms Dashu.Props.C14Shl.exact_step_shl_cmp_mirrored
#print axioms Dashu.Props.C14Shl.exact_step_shl_abs_cmp_mirrored
#print axioms Dashu.Props.C14Mul.ubig_operand_positive
#print axioms Dashu.Props.C14Mul.mul_mirrored
#print axioms Dashu.Props.C14Mul.ratio_cross_cmp_mirrored
#print axioms Dashu.Props.C14Mul.ratio_cross_eq_mirrored
#print axioms Dashu.Props.C14Mul.ratio_int_cmp_mirrored
#print axioms Dashu.Props.C14Mul.mul_shl_mirrored
#print axioms Dashu.Props.C14Mul.ratio_float_step_mirrored
