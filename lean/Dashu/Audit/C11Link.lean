import Dashu.Props.C11Link
/- axiom audit of every theorem of Props/C11Link -/
#print axioms Dashu.Props.C11Link.stop_test_is_code_abs_cmp
#print axioms Dashu.Props.C11Link.stop_test_is_code_cmp
#print axioms Dashu.Props.C11Link.stop_test_value_iff
