import Dashu.Props.GenRatCmp
/-! axioms of every theorem of `Props/GenRatCmp.lean` (Tie A: theorems about text regenerated from /repo) -/
#print axioms Dashu.Props.GenRatCmp.bit_len_cast
#print axioms Dashu.Props.GenRatCmp.bit_len_nat
#print axioms Dashu.Props.GenRatCmp.abs_diff_gt_one
#print axioms Dashu.Props.GenRatCmp.repr_eq_is_cross_model
#print axioms Dashu.Props.GenRatCmp.natCast_eq_one
#print axioms Dashu.Props.GenRatCmp.repr_cmp_is_cross_model
#print axioms Dashu.Props.GenRatCmp.repr_cmp_ubig_is_cross_model
#print axioms Dashu.Props.GenRatCmp.repr_cmp_ibig_is_cross_model
#print axioms Dashu.Props.GenRatCmp.repr_cmp_fbig_is_cross_model
#print axioms Dashu.Props.GenRatCmp.bit_len_cast05
#print axioms Dashu.Props.GenRatCmp.repr_eq_is_c05_model
#print axioms Dashu.Props.GenRatCmp.rbig_eq_is_c05_model
#print axioms Dashu.Props.GenRatCmp.repr_cmp_is_c05_model
