import Dashu.Props.GenFloatCmp
/-! axioms of every theorem of `Props/GenFloatCmp.lean` (Tie A: theorems about text regenerated from /repo) -/
#print axioms Dashu.Props.GenFloatCmp.repr_cmp_same_base_is_cross_model
#print axioms Dashu.Props.GenFloatCmp.repr_cmp_ubig_is_cross_model
#print axioms Dashu.Props.GenFloatCmp.repr_cmp_ibig_is_cross_model
#print axioms Dashu.Props.GenFloatCmp.fbig_cmp_is_cross_dispatch
#print axioms Dashu.Props.GenFloatCmp.fbig_abs_cmp_is_cross_dispatch
#print axioms Dashu.Props.GenFloatCmp.repr_cmp_is_cross_model
#print axioms Dashu.Props.GenFloatCmp.repr_cmp_same_base_is_c05_model
#print axioms Dashu.Props.GenFloatCmp.fbig_eq_is_c05_model
#print axioms Dashu.Props.GenFloatCmp.min_clamp_c05
#print axioms Dashu.Props.GenFloatCmp.min_clamp_cross
#print axioms Dashu.Props.GenFloatCmp.saturating_add_reading_sound
