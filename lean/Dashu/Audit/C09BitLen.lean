import Dashu.Props.C09BitLen
/-! axioms of every theorem of `Props/C09BitLen.lean` (C09: `<IBig as BitTest>::bit_len` regenerated = bit length of the magnitude; sign bits from `bit_len` on) -/
#print axioms Dashu.Props.C09BitLen.gen_ibig_bit_len
#print axioms Dashu.Props.C09BitLen.sign_bits_above
#print axioms Dashu.Props.C09BitLen.top_bit_below
#print axioms Dashu.Props.C09BitLen.gen_ibig_bit_len_sign_bits
#print axioms Dashu.Props.C09BitLen.specK_meets_bit_len
#print axioms Dashu.Props.C09BitLen.modelK_meets_bit_len
#print axioms Dashu.Props.C09BitLen.model_ibig_bit_len
