import Dashu.Props.C19ModInv
#print axioms Dashu.Props.C19.mod_solution_unique
#print axioms Dashu.Props.C19.word_size_independent_modular_inv
#print axioms Dashu.Props.C19.word_size_independent_modular_div
