import Dashu.Props.C02PrimBig
open Dashu.Props.C02PrimBig
#print axioms ofInt_operandOk
#print axioms big_prim_every_impl_exact
#print axioms divrem_assign_prim_eq
#print axioms ubig_divrem_assign_prim_exact
#print axioms ibig_divrem_assign_signed_prim_exact
