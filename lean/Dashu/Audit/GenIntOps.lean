import Dashu.Props.GenIntOps
/-! axioms of every theorem of `Props/GenIntOps.lean` (Tie A: theorems about text regenerated from /repo) -/
#print axioms Dashu.Props.GenIntOps.ibig_cmp_is_int_order
#print axioms Dashu.Props.GenIntOps.neg_floor_div
#print axioms Dashu.Props.GenIntOps.ibig_shr_is_floor_shift
#print axioms Dashu.Props.GenIntOps.ibig_shr_is_shiftRight
