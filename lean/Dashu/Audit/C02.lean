import Dashu.Props.C02
open Dashu.Props.C02
#print axioms div_rem_dword_exact
