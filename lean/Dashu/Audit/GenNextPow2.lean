import Dashu.Props.GenNextPow2
/-! axioms of every theorem of `Props/GenNextPow2.lean` (C09: next_power_of_two of bits.rs, regenerated text = hand model) -/
#print axioms Dashu.Props.GenNextPow2.skip_zero
#print axioms Dashu.Props.GenNextPow2.gen_next_power_of_two_large
#print axioms Dashu.Props.GenNextPow2.gen_next_power_of_two_large_empty
#print axioms Dashu.Props.GenNextPow2.gen_next_power_of_two
