import Dashu.Props.C19Wire
#print axioms Dashu.Props.C19.binary_encoders_word_size_free
#print axioms Dashu.Props.C19.binary_decoders_word_size_free
#print axioms Dashu.Props.C19.rbig_fbig_binary_word_size_independent
#print axioms Dashu.Props.C19.rbig_binary_cross_word_size_round_trip
#print axioms Dashu.Props.C19.fbig_binary_cross_word_size_round_trip
