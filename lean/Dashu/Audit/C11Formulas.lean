import Dashu.Props.C11Formulas
/- axiom audit of every theorem of Props/C11Formulas -/
#print axioms Dashu.Props.C11Formulas.iacoth_series
#print axioms Dashu.Props.C11Formulas.ln2_formula
#print axioms Dashu.Props.C11Formulas.ln10_formula
#print axioms Dashu.Props.C11Formulas.ln_reduction
#print axioms Dashu.Props.C11Formulas.ln_1p_reduction
#print axioms Dashu.Props.C11Formulas.exp_reduction
