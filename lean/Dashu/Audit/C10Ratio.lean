import Dashu.Props.C10Ratio
open Dashu.Props.C10Ratio
#print axioms repr_trunc_correct
#print axioms repr_floor_correct
#print axioms repr_ceil_correct
#print axioms repr_round_correct
#print axioms repr_trunc_add_fract
#print axioms repr_fract_range
#print axioms repr_split_at_point_eq
#print axioms rbig_entry_points
#print axioms relaxed_entry_points
