import Dashu.Props.C05Base
open Dashu.Props.C05
#print axioms float_with_base_results_good
#print axioms good_pair_value_order
#print axioms float_cmp_of_with_base_results
#print axioms float_history_from_with_base_results
