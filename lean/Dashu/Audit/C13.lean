import Dashu.Props.C13
open Dashu.Props.C13
#print axioms new_spec
#print axioms reduce_spec
#print axioms ops_closed
#print axioms hom_add
#print axioms hom_sub
#print axioms hom_mul
#print axioms hom_neg
#print axioms hom_dbl
#print axioms hom_sqr
#print axioms hom_pow
#print axioms inv_spec
#print axioms div_spec
#print axioms different_rings
#print axioms different_instances_same_modulus
#print axioms single_word_division_contracts
#print axioms double_word_division_contracts
#print axioms reducer_ops
#print axioms one_asIs_counterexample
#print axioms reducer_add_asIs_counterexample
