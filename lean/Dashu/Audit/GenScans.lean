import Dashu.Props.GenScans
/-! axioms of every theorem of `Props/GenScans.lean` (C09: bits.rs word scans, regenerated text = hand mirrors, panics included) -/
#print axioms Dashu.Props.GenScans.tzAux_zero
#print axioms Dashu.Props.GenScans.trailing_zeros_eq
#print axioms Dashu.Props.GenScans.trailing_ones_eq
#print axioms Dashu.Props.GenScans.tzAux_le
#print axioms Dashu.Props.GenScans.tzWord_le
#print axioms Dashu.Props.GenScans.toWord_le
#print axioms Dashu.Props.GenScans.scan_zero
#print axioms Dashu.Props.GenScans.scan_one
#print axioms Dashu.Props.GenScans.takeWhile_len_le
#print axioms Dashu.Props.GenScans.tz_scan
#print axioms Dashu.Props.GenScans.gen_trailing_zeros_large
#print axioms Dashu.Props.GenScans.to_scan
#print axioms Dashu.Props.GenScans.gen_trailing_ones_large
#print axioms Dashu.Props.GenScans.gen_trailing_zeros_large_shifted_by_one
#print axioms Dashu.Props.GenScans.gen_trailing_zeros_large_shifted_by_one_empty
#print axioms Dashu.Props.GenScans.gen_are_slice_low_bits_nonzero
