import Dashu.Props.C03
open Dashu.Props.C03
#print axioms mul_operator_contract
#print axioms mul_contract_partial
#print axioms mul_contract_fixed
#print axioms mul_preshrink_counterexample
#print axioms sqr_contract_partial
#print axioms sqr_contract_fixed
#print axioms cubic_contract_partial
#print axioms cubic_contract_fixed
#print axioms add_sub_contract_partial
#print axioms add_sub_far_contract
#print axioms add_sub_contract
#print axioms round_sum_contract
#print axioms round_sum_nolow_contract
#print axioms div_contract
#print axioms ctx_div_contract_partial
#print axioms inv_contract
#print axioms div_panics
#print axioms sqrt_contract
#print axioms sqrt_panics
#print axioms unlimited_exact
