import Dashu.Props.C03
open Dashu.Props.C03
#print axioms placeholder
