import Dashu.Props.C15FloatAdd
import Dashu.Props.C15CtxTie
open Dashu.Props.C15FloatAdd
#print axioms splitDigits_neg
#print axioms sgn_neg
#print axioms addLS_sign
#print axioms add_val_val_is_model
#print axioms add_ref_val_is_model
#print axioms float_add_forms_agree
#print axioms dub_of_magnitude
#print axioms Dashu.Props.C15CtxTie.add_ref_ref_eq_context_add
#print axioms Dashu.Props.C15CtxTie.sub_ref_ref_eq_context_sub
#print axioms Dashu.Props.C15CtxTie.float_addsub_forms_eq_context
