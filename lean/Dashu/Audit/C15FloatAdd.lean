import Dashu.Props.C15FloatAdd
open Dashu.Props.C15FloatAdd
#print axioms splitDigits_neg
#print axioms sgn_neg
#print axioms addLS_sign
#print axioms add_val_val_is_model
#print axioms add_ref_val_is_model
#print axioms float_add_forms_agree
#print axioms dub_of_magnitude
