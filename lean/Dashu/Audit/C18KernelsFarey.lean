import Dashu.Props.C18KernelsFarey
open Dashu.Props.C18KernelsFarey
#print axioms uaddW_eq
#print axioms ugtW_eq
#print axioms farey_over_proved_kernels
