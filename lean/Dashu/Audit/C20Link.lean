import Dashu.Props.C20Link
#print axioms Dashu.Props.C20Link.macro_bytes_are_mirrored_encoder
#print axioms Dashu.Props.C20Link.heap_constructor_is_mirrored_decoder
#print axioms Dashu.Props.C20Link.heap_path_value_word_level
#print axioms Dashu.Props.C20Link.static_path_value_word_level
#print axioms Dashu.Props.C20Link.const_path_bytes_word_level
#print axioms Dashu.Props.C20Link.staticValue_eq_slice
#print axioms Dashu.Props.C20Link.from_static_words_accepts_normalised
#print axioms Dashu.Props.C20Link.static_constructor_on_macro_slice
#print axioms Dashu.Props.C20Link.staticSelect_reads_macro_slice
