import Dashu.Props.C13Reducer
open Dashu.Props.C13Reducer
#print axioms reducer_ubig_link
#print axioms reducer_residue_link
