import Dashu.Props.C18
open Dashu.Props.C18
#print axioms sign_pair_gt_iff
#print axioms is_simpler_than_lexicographic
#print axioms simplest_in_optimal
#print axioms simplest_descent
#print axioms simplest_loop_is_descent
#print axioms farey_neighbors_adjacent
#print axioms farey_neighbors_consecutive
#print axioms next_up_down_adjacent
#print axioms next_up_down_limit_one_int
#print axioms nearest_closer
#print axioms pick_simplest_optimal
#print axioms simplest_from_float_interval
#print axioms mode_is_window
#print axioms fbig_rounding_set_exact
#print axioms fbig_model_set_is_rounding_set
#print axioms simplest_from_fbig_exact
#print axioms simplest_from_fbig_none_iff_infinite
#print axioms simplest_from_fbig_unlimited
#print axioms simplest_from_fbig_entry
#print axioms code_set_is_rounding_set_on_class
#print axioms code_optimal_on_class
#print axioms error_bounds_required_is_rounding_set
