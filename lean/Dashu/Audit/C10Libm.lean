import Dashu.Props.C10Libm
open Dashu.Props.C10Libm
#print axioms round_fract_coarse_irrelevant_libm
#print axioms round_fract_follows_mode_libm
#print axioms round_fract_contract_libm
#print axioms coarseLibm_eq
#print axioms dubLibm_eq
#print axioms estimators_sound_libm
#print axioms fbig_int_roundings_libm
#print axioms to_int_contract_libm
#print axioms repr_round_contract_libm
