import Dashu.Props.C07ParseLink
open Dashu.Props.C07ParseLink
#print axioms parse_chunk_on_mul_word_kernel
#print axioms parse_non_pow2_on_ubig_kernels
