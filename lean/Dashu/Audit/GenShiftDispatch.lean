import Dashu.Props.GenShiftDispatch
/-! axioms of every theorem of `Props/GenShiftDispatch.lean` (C09: << / >> dispatch of shift_ops.rs, regenerated text = hand model) -/
#print axioms Dashu.Props.GenShiftDispatch.gen_shl_dispatch
#print axioms Dashu.Props.GenShiftDispatch.gen_shr_dispatch
