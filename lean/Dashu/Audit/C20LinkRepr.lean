import Dashu.Props.C20LinkRepr
#print axioms Dashu.Props.C20Link.repr_new_is_mirrored_normalize
#print axioms Dashu.Props.C20Link.repr_new_value_is_mirror
#print axioms Dashu.Props.C20Link.float_expansion_repr_fixed_mirror
