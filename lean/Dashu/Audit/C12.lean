import Dashu.Props.C12
open Dashu.Props.C12
#print axioms gcd_prim_spec
#print axioms gcd_spec
#print axioms gcd_ext_prim_spec
#print axioms gcd_ext_prim_wide_spec
#print axioms gcd_ext_bezout
#print axioms gcd_ext_bezout_driver
#print axioms lehmer_guess_det
#print axioms lehmer_step_preserves_gcd
#print axioms lehmer_gcd_sound
#print axioms sqrt_rem_spec
#print axioms nth_root_spec
#print axioms cbrt_rem_spec
#print axioms ibig_root_spec
#print axioms ilog_spec
#print axioms remove_spec
#print axioms log2_table_sound
#print axioms log2_u8_table_sound
#print axioms log2_wide_table_sound
#print axioms nth_root_zero_asIs_counterexample
#print axioms sqrt_rem_asIs_counterexample
#print axioms ibig_cbrt_asIs_counterexample
#print axioms ilog_zero_asIs_counterexample
#print axioms gcd_ext_post_precondition_counterexample
