import Dashu.Props.C19NT
#print axioms Dashu.Props.C19.word_size_independent_gcd
#print axioms Dashu.Props.C19.word_size_independent_gcd_ext
#print axioms Dashu.Props.C19.word_size_independent_sqrt_rem
#print axioms Dashu.Props.C19.word_size_independent_sqrt_rem_mirrored
#print axioms Dashu.Props.C19.word_size_independent_nth_root
#print axioms Dashu.Props.C19.word_size_independent_int_roots
#print axioms Dashu.Props.C19.word_size_independent_ilog
