import Dashu.Props.GenShift
open Dashu.Props.GenShift
#print axioms gen_shl_step
#print axioms forWords_shl
#print axioms gen_shl_in_place
#print axioms gen_shr_step
#print axioms forWordsRev_shr
#print axioms gen_shr_in_place_with_carry
#print axioms gen_shr_in_place_one_word
#print axioms gen_shr_in_place_one_word_empty
#print axioms gen_shr_in_place
#print axioms gen_loops_are_the_bit_model
