import Dashu.Props.C05Link
/-! axioms of every theorem of `Props/C05Link.lean` (C05 ↔ C04: rational histories) -/
#print axioms Dashu.Props.C05Link.val_eq_iff_cross
#print axioms Dashu.Props.C05Link.val_lt_iff_cross
#print axioms Dashu.Props.C05Link.inv_den_pos
#print axioms Dashu.Props.C05Link.rational_history_eq_cmp_hash
