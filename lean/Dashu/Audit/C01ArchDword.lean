import Dashu.Props.C01ArchDword
open Dashu.Props.C01ArchDword
#print axioms cin_eq_zero
#print axioms hi_lt
#print axioms div_le_one
#print axioms add_dword_in_place_via
#print axioms sub_dword_in_place_via
#print axioms isWords_take
#print axioms add_in_place_via
#print axioms sub_in_place_via
#print axioms add_rs_functions_over_regenerated_arch
