import Dashu.Props.C15
open Dashu.Props.C15
#print axioms ubig_rem_unsigned_fits
#print axioms ibig_rem_signed_fits
#print axioms ibig_rem_unsigned_counterexample
#print axioms unsigned_div_ubig_fits
#print axioms signed_div_ibig_counterexample
#print axioms ibig_ring_forms_agree
#print axioms ibig_divrem_is_div_and_rem
#print axioms ibig_divrem_euclid_is_div_and_rem
#print axioms ubig_ibig_forms_agree
#print axioms signed_div_ibig_fits
#print axioms unsigned_div_negative_ibig_counterexample
#print axioms ibig_rem_unsigned_exact
#print axioms unsigned_div_ibig_exact
#print axioms signed_div_ibig_exact
