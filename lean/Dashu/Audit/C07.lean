import Dashu.Props.C07
open Dashu.Props.C07
#print axioms positional_representation
#print axioms radix_table
#print axioms print_non_pow2_digits
#print axioms print_size_classes
#print axioms big_chunk_padded
#print axioms layout_eq_pad_integral
