import Dashu.Props.C07
open Dashu.Props.C07
#print axioms positional_representation
#print axioms radix_table
#print axioms print_non_pow2_digits
#print axioms print_size_classes
#print axioms big_chunk_padded
#print axioms print_pow2_digits
#print axioms layout_eq_pad_integral
#print axioms print_eq_reference
#print axioms parse_radix_eq_grammar
#print axioms parse_default_eq_grammar
#print axioms parse_ok_sound
#print axioms parse_no_digits
#print axioms print_parse_round_trip
#print axioms print_parse_round_trip_unsigned
#print axioms le_bytes_round_trip
#print axioms ubig_bytes_model
#print axioms signed_bytes_round_trip
#print axioms ibig_bytes_model
#print axioms chunks_round_trip
#print axioms chunks_zero_panics
#print axioms tower_length_shortcut_sound
#print axioms printer_buffers_never_overrun
#print axioms digit_writer_sound
#print axioms parser_buffers_never_overrun
#print axioms chunks_model
