import Dashu.Props.C08
open Dashu.Props.C08
#print axioms convert_base_pow_up_branch
#print axioms convert_base_pow_up_contract
#print axioms ilog_exact_sound
#print axioms convert_base_pow_down_branch
#print axioms convert_base_pow_down_contract
#print axioms convert_base_small_pos_contract
#print axioms exact_when_fits
#print axioms with_base_precision_documented
#print axioms from_ieee_exact
#print axioms parse_literal_exact
#print axioms print_parse_round_trip
#print axioms parse_eq_grammar
#print axioms grammar_digit_string
#print axioms parse_ok_denotes
#print axioms print_precision_text
#print axioms print_precision_rounding
#print axioms print_precision_parse
#print axioms with_precision_contract
#print axioms with_precision_unlimited
#print axioms display_padding_keeps_digits
#print axioms scientific_padding_keeps_digits
#print axioms padded_print_parse_round_trip
#print axioms padded_print_precision_parse
#print axioms convert_base_long_dividend_contract
#print axioms convert_base_exact_paths_contract
#print axioms convert_base_result_digits
