import Dashu.Props.C18Gen
open Dashu.Props.C18Gen
#print axioms half_ulp_signif_eq
#print axioms code_rounding_set_is_error_bounds
#print axioms error_bounds_unlimited
#print axioms entry_is_skeleton
#print axioms unlimited_path_is_exact
#print axioms error_bounds_model_is_tables
#print axioms error_bounds_model_unlimited
#print axioms pick_is_skeleton
#print axioms rounding_interval_is_macro
#print axioms min_exp_f32_f64
#print axioms ends_allowed_is_mantissa_parity
