import Dashu.Props.C19
#print axioms Dashu.Props.C19.placeholder
