import Dashu.Model.NT.Modular
/-
  C12 — gcd / gcd_ext: model of `integer/src/gcd_ops.rs` (dispatch + Bezout post-processing),
  `integer/src/gcd/mod.rs` (`gcd_ext_word`, `gcd_ext_dword`), the Lehmer step of
  `integer/src/gcd/lehmer.rs` (`lehmer_guess`, `lehmer_step`) and the primitive Euclid loop of
  `base/src/ring/gcd.rs` (`unchecked_gcd_ext`, `Gcd::gcd`, `ExtendedGcd::gcd_ext`).

  Value-level model (buffers are the numbers they denote).  Core Lean only.
-/
namespace Dashu.Model.NT
open Dashu.Model

-- ---------------------------------------------------------------- base/src/ring/gcd.rs

/-- `unchecked_gcd`: the binary gcd loop on odd operands (`a -= b; a >>= a.trailing_zeros()`) -/
def binGcdLoop : Nat → Nat → Nat → Nat
  | 0, a, _ => a
  | fuel + 1, a, b =>
    if a = b then a
    else if a > b then
      let a := a - b
      binGcdLoop fuel (a / 2 ^ trailingZeros a) b
    else
      let b := b - a
      binGcdLoop fuel a (b / 2 ^ trailingZeros b)

/-- `impl Gcd for $U`: zero cases, common power of two, one division if the sizes differ much,
    then the binary loop.  (`za > zb + 3`, `zb > za + 4` compare leading-zero counts, i.e. bit lengths.) -/
def gcdPrim (a b : Nat) : Except PanicKind Nat :=
  if a = 0 ∨ b = 0 then
    if a = 0 ∧ b = 0 then .error .gcdZeroZero else .ok (a ||| b)
  else
    let shift := trailingZeros (a ||| b)
    let a := a / 2 ^ trailingZeros a
    let b := b / 2 ^ trailingZeros b
    if bitLen b > bitLen a + 3 then
      let r := b % a
      if r = 0 then .ok (a * 2 ^ shift)
      else .ok (binGcdLoop (a + b) a (r / 2 ^ trailingZeros r) * 2 ^ shift)
    else if bitLen a > bitLen b + 4 then
      let r := a % b
      if r = 0 then .ok (b * 2 ^ shift)
      else .ok (binGcdLoop (a + b) (r / 2 ^ trailingZeros r) b * 2 ^ shift)
    else .ok (binGcdLoop (a + b) a b * 2 ^ shift)

/-- `unchecked_gcd_ext`: Euclid keeping `r = self*s + rhs*t`; returns `(r, s, t)` when the next
    remainder is zero.  State `(last_r, r, last_s, s, last_t, t)`. -/
def xgcdLoop : Nat → Nat → Nat → Int → Int → Int → Int → Nat × Int × Int
  | 0, _, r, _, s, _, t => (r, s, t)
  | fuel + 1, lastR, r, lastS, s, lastT, t =>
    let quo := lastR / r
    let newR := lastR - quo * r
    if newR = 0 then (r, s, t)
    else xgcdLoop fuel r newR s (lastS - quo * s) t (lastT - quo * t)

/-- `impl ExtendedGcd for $U` (for `u128` the code runs the same Euclid sequence in two widths and
    recombines the cofactors; specified by the single-width loop) -/
def xgcdPrim (a b : Nat) : Except PanicKind (Nat × Int × Int) :=
  if a = 0 ∧ b = 0 then .error .gcdZeroZero
  else if a = 0 then .ok (b, 0, 1)
  else if b = 0 then .ok (a, 1, 0)
  else
    let shift := trailingZeros (a ||| b)
    let a := a / 2 ^ shift
    let b := b / 2 ^ shift
    if a ≥ b then
      if b = 1 then .ok (2 ^ shift, 0, 1)
      else
        let (g, ca, cb) := xgcdLoop (b + 1) a b 1 0 0 1
        .ok (g * 2 ^ shift, ca, cb)
    else
      if a = 1 then .ok (2 ^ shift, 1, 0)
      else
        let (g, cb, ca) := xgcdLoop (a + 1) b a 1 0 0 1
        .ok (g * 2 ^ shift, ca, cb)

/-- the two-width `unchecked_gcd_ext` (`impl_unchecked_gcd_ops_prim!(u128 | i128 => u64 | i64)`): plain
    Euclid while the remainder needs more than `H` bits, then one more division and the half-width
    loop on `(r, new_r)`; the cofactors are recombined as `cx·s + cy·new_s`, `cx·t + cy·new_t` -/
def xgcdLoopWide (H : Nat) : Nat → Nat → Nat → Int → Int → Int → Int → Nat × Int × Int
  | 0, _, r, _, s, _, t => (r, s, t)
  | fuel + 1, lastR, r, lastS, s, lastT, t =>
    let quo := lastR / r
    let newR := lastR - quo * r
    if r / 2 ^ H > 0 then
      if newR = 0 then (r, s, t)
      else xgcdLoopWide H fuel r newR s (lastS - quo * s) t (lastT - quo * t)
    else
      if newR = 0 then (r, s, t)
      else
        let newS := lastS - quo * s
        let newT := lastT - quo * t
        let (g, cx, cy) := xgcdLoop (newR + 1) r newR 1 0 0 1
        (g, cx * s + cy * newS, cx * t + cy * newT)

/-- `impl ExtendedGcd for u128` (the double word of a 64-bit build; `H` = bits of the half width) -/
def xgcdPrimWide (H : Nat) (a b : Nat) : Except PanicKind (Nat × Int × Int) :=
  if a = 0 ∧ b = 0 then .error .gcdZeroZero
  else if a = 0 then .ok (b, 0, 1)
  else if b = 0 then .ok (a, 1, 0)
  else
    let shift := trailingZeros (a ||| b)
    let a := a / 2 ^ shift
    let b := b / 2 ^ shift
    if a ≥ b then
      if b = 1 then .ok (2 ^ shift, 0, 1)
      else
        let (g, ca, cb) := xgcdLoopWide H (b + 1) a b 1 0 0 1
        .ok (g * 2 ^ shift, ca, cb)
    else
      if a = 1 then .ok (2 ^ shift, 1, 0)
      else
        let (g, cb, ca) := xgcdLoopWide H (a + 1) b a 1 0 0 1
        .ok (g * 2 ^ shift, ca, cb)

-- ---------------------------------------------------------------- gcd_ops.rs: gcd

/-- frontier: `gcd::gcd_in_place` (Lehmer on two multi-word operands) is specified by `Nat.gcd` -/
def lehmerGcdFrontier (lhs rhs : Nat) : Nat := Nat.gcd lhs rhs

/-- `gcd_large_dword(buffer, rhs)` -/
def gcdLargeDword (buffer rhs : Nat) : Except PanicKind Nat :=
  if rhs = 0 then .ok buffer
  else
    -- `shrink_dword`: the word and double-word arms are the same computation
    let rem := buffer % rhs                       -- div::rem_by_word / rem_by_dword
    if rem = 0 then .ok rhs else gcdPrim rem rhs

/-- `gcd_large(lhs, rhs)` -/
def gcdLarge (lhs rhs : Nat) : Nat :=
  if lhs = rhs then lhs
  else if lhs > rhs then lehmerGcdFrontier lhs rhs else lehmerGcdFrontier rhs lhs

/-- `impl Gcd for TypedReprRef` (all ownership forms forward to it) -/
def gcdRepr (W : Nat) (a b : Nat) : Except PanicKind Nat :=
  let small := fun (x : Nat) => decide (x < 2 ^ (2 * W))
  match small a, small b with
  | true, true => gcdPrim a b
  | true, false => gcdLargeDword b a
  | false, true => gcdLargeDword a b
  | false, false => .ok (gcdLarge a b)

-- ---------------------------------------------------------------- gcd/mod.rs: gcd_ext_word / gcd_ext_dword

/-- result of `gcd::gcd_ext_word/_dword`: `(g, a, |b|, b negative?)` with `lhs*a + rhs*b = g` -/
def gcdExtSmall (W : Nat) (lhs rhs : Nat) : Except PanicKind (Nat × Int × Nat × Bool) :=
  let q := lhs / rhs                              -- div_by_(d)word_in_place: lhs := quotient
  let rem := lhs % rhs
  if rem = 0 then .ok (rhs, 0, 1, false)
  else
    -- `gcd_ext_word`: the `Word` implementation; `gcd_ext_dword`: the two-width `DoubleWord` one
    match (if rhs < 2 ^ W then xgcdPrim rhs rem else xgcdPrimWide W rhs rem) with
    | .error k => .error k
    | .ok (r, s, t) =>
      let sMag := s.natAbs
      let tMag := t.natAbs
      let bNeg := if sMag = 0 then !(decide (t < 0)) else decide (s < 0)
      -- lhs := lhs * |t| + |s|   (mul_word_in_place, add_word_in_place)
      .ok (r, t, q * tMag + sMag, bNeg)

/-- `gcd_ext_large_dword(buffer, rhs)`: returns `(g, s, t)` with `buffer*s + rhs*t = g` -/
def gcdExtLargeDword (W : Nat) (buffer rhs : Nat) : Except PanicKind (Nat × Int × Int) :=
  if rhs = 0 then .ok (buffer, 1, 0)
  else
    match gcdExtSmall W buffer rhs with
    | .error k => .error k
    | .ok (g, a, bMag, bNeg) => .ok (g, a, if bNeg then -(bMag : Int) else (bMag : Int))

-- ---------------------------------------------------------------- gcd_ops.rs: gcd_ext_large

/-- contract of `gcd::gcd_ext_in_place(lhs, rhs)` for `lhs > rhs`: `(g, |b|, b negative?)` with
    `g = gcd` and `lhs ∣ g − rhs·b` -/
def LehmerExtContract (lhs rhs : Nat) (res : Nat × Nat × Bool) : Prop :=
  res.1 = Nat.gcd lhs rhs ∧
  (if res.2.2 then lhs ∣ rhs * res.2.1 + res.1
   else res.1 ≤ rhs * res.2.1 ∧ lhs ∣ rhs * res.2.1 - res.1)

/-- frontier: the Lehmer extended gcd kernel, specified through the plain Euclid loop -/
def lehmerExtFrontier (lhs rhs : Nat) : Nat × Nat × Bool :=
  let (g, _, t) := xgcdLoop (rhs + 1) lhs rhs 1 0 0 1
  -- `t` with `g = s*lhs + t*rhs`; the kernel reports sign Negative for b = 0 never (b ≠ 0 as rhs < lhs)
  (g, t.natAbs, decide (t < 0))

/-- `gcd_ext_large` for `lhs > rhs` with the kernel as a parameter: post-processing
    `a = (g − rhs·b) / lhs` by one multiplication and one exact division.
    (A residue with fewer words than `lhs` is zero and gives `a = 0` — since /repo 413052e the code
    tests for it; before, it called `div_rem_unshifted_in_place(residue, lhs)` whose precondition
    `residue.len() ≥ lhs.len()` then failed, see `gcdExtPostPre` and the regression theorem.) -/
def gcdExtPost (lhs rhs : Nat) (k : Nat × Nat × Bool) : Nat × Int × Int :=
  let (g, bMag, bNeg) := k
  let residue := if bNeg then rhs * bMag + g else rhs * bMag - g
  let aMag := residue / lhs
  let a : Int := if bNeg then (aMag : Int) else -(aMag : Int)      -- with_sign(-b_sign)
  let b : Int := if bNeg then -(bMag : Int) else (bMag : Int)
  (g, a, b)

/-- `gcd_ext_large(lhs, rhs)`: order the operands, run the kernel, post-process, swap back -/
def gcdExtLarge (kernel : Nat → Nat → Nat × Nat × Bool) (lhs rhs : Nat) : Nat × Int × Int :=
  if lhs = rhs then (lhs, 1, 0)
  else if lhs > rhs then gcdExtPost lhs rhs (kernel lhs rhs)
  else
    let (g, a, b) := gcdExtPost rhs lhs (kernel rhs lhs)
    (g, b, a)

/-- did the division precondition of the code before /repo 413052e hold?  `residue` has `rhs_len + b_len + 1` words -/
def gcdExtPostPre (W : Nat) (lhs rhs : Nat) (k : Nat × Nat × Bool) : Bool :=
  wordLen W rhs + wordLen W k.2.1 + 1 ≥ wordLen W lhs

/-- `impl ExtendedGcd for TypedReprRef` -/
def gcdExtRepr (W : Nat) (kernel : Nat → Nat → Nat × Nat × Bool) (a b : Nat) :
    Except PanicKind (Nat × Int × Int) :=
  let small := fun (x : Nat) => decide (x < 2 ^ (2 * W))
  match small a, small b with
  | true, true => xgcdPrimWide W a b              -- `DoubleWord::gcd_ext`
  | false, true => gcdExtLargeDword W a b
  | true, false =>
    match gcdExtLargeDword W b a with
    | .error k => .error k
    | .ok (g, s, t) => .ok (g, t, s)
  | false, false => .ok (gcdExtLarge kernel a b)

/-- `impl_ibig_gcd_ext`: coefficients are multiplied by the operand signs -/
def gcdExtInt (W : Nat) (kernel : Nat → Nat → Nat × Nat × Bool) (a b : Int) :
    Except PanicKind (Nat × Int × Int) :=
  match gcdExtRepr W kernel a.natAbs b.natAbs with
  | .error k => .error k
  | .ok (g, s, t) => .ok (g, a.sign * s, b.sign * t)

-- ---------------------------------------------------------------- lehmer.rs: guess and step

/-- `lehmer_guess(xbar, ybar)`: cofactors `(a, b, c, d)` with `gcd(x, y) = gcd(a·x − b·y, d·y − c·x)`;
    `lim` is `COEFF_LIMIT`.  Fuel bounds the number of double rounds. -/
def lehmerGuess (lim : Nat) : Nat → Nat → Nat → Nat → Nat → Nat → Nat → Nat × Nat × Nat × Nat
  | 0, _, _, a, b, c, d => (a, b, c, d)
  | fuel + 1, xbar, ybar, a, b, c, d =>
    if ybar = 0 then (a, b, c, d) else
    let q := xbar / ybar
    if q > lim then (a, b, c, d) else
    let r := a + q * c
    let s := b + q * d
    let t := xbar - q * ybar
    if r > lim ∨ s > lim then (a, b, c, d) else
    if t < s ∨ t + r > ybar - c then (a, b, c, d) else
    let a := r; let b := s; let xbar := t
    if xbar = b then (a, b, c, d) else
    let q := ybar / xbar
    if q > lim then (a, b, c, d) else
    let r := d + q * b
    let s := c + q * a
    let t := ybar - q * xbar
    if r > lim ∨ s > lim then (a, b, c, d) else
    if t < s ∨ t + r > xbar - c then (a, b, c, d) else
    let d := r; let c := s; let ybar := t
    if ybar = c then (a, b, c, d) else
    lehmerGuess lim fuel xbar ybar a b c d

/-- `lehmer_step`: `(x, y) := (a·x − b·y, d·y − c·x)` -/
def lehmerStep (x y : Int) (a b c d : Nat) : Int × Int :=
  ((a : Int) * x - (b : Int) * y, (d : Int) * y - (c : Int) * x)

end Dashu.Model.NT
