import Dashu.Model.NT.Root
/-
  C12 — `base/src/ring/root.rs` (and the `sqrt`/`cbrt` wrappers of `base/src/math/root.rs`): the
  primitive square and cube roots of `u8 … u128`, mirrored statement by statement.

  Fixed-width arithmetic: every `+ - *` of the source is *checked* (`ck bits v`: `none` when the exact
  result leaves `[0, 2^bits)`, i.e. where a debug build panics with an arithmetic overflow and a
  release build wraps); `as` casts truncate (`% 2^bits`); `<<` drops the bits shifted out silently
  (as Rust does in every build).  So `some (root, rem)` is what both builds return, and `none` marks
  an input on which the source relies on wrap-around.  Core Lean only.
-/
namespace Dashu.Model.NT
open Dashu.Model

/-- `RSQRT_TAB` of `base/src/ring/root.rs` (compared with the source text on every run: op `tab.rsqrt`) -/
def RSQRT_TAB : List Nat := [
  0xfc, 0xf4, 0xed, 0xe6, 0xdf, 0xd9, 0xd3, 0xcd, 0xc7, 0xc2, 0xbc, 0xb7, 0xb2, 0xad, 0xa9, 0xa4,
  0xa0, 0x9c, 0x98, 0x94, 0x90, 0x8c, 0x88, 0x85, 0x81, 0x7e, 0x7b, 0x77, 0x74, 0x71, 0x6e, 0x6b,
  0x69, 0x66, 0x63, 0x61, 0x5e, 0x5b, 0x59, 0x57, 0x54, 0x52, 0x50, 0x4d, 0x4b, 0x49, 0x47, 0x45,
  0x43, 0x41, 0x3f, 0x3d, 0x3b, 0x39, 0x37, 0x36, 0x34, 0x32, 0x30, 0x2f, 0x2d, 0x2c, 0x2a, 0x28,
  0x27, 0x25, 0x24, 0x22, 0x21, 0x1f, 0x1e, 0x1d, 0x1b, 0x1a, 0x19, 0x17, 0x16, 0x15, 0x14, 0x12,
  0x11, 0x10, 0x0f, 0x0d, 0x0c, 0x0b, 0x0a, 0x09, 0x08, 0x07, 0x06, 0x05, 0x04, 0x03, 0x02, 0x01]

/-- `RCBRT_TAB` of `base/src/ring/root.rs` (op `tab.rcbrt`) -/
def RCBRT_TAB : List Nat := [
  0xf6, 0xe4, 0xd4, 0xc6, 0xb9, 0xae, 0xa4, 0x9b, 0x92, 0x8a, 0x83, 0x7c, 0x76, 0x70, 0x6b, 0x66,
  0x61, 0x5c, 0x57, 0x53, 0x4f, 0x4b, 0x48, 0x44, 0x41, 0x3e, 0x3b, 0x38, 0x35, 0x32, 0x2f, 0x2d,
  0x2a, 0x28, 0x25, 0x23, 0x21, 0x1f, 0x1d, 0x1b, 0x19, 0x17, 0x15, 0x13, 0x11, 0x10, 0x0e, 0x0c,
  0x0b, 0x09, 0x08, 0x06, 0x05, 0x03, 0x02, 0x01]

/-- little-endian packing of a byte table (the form the generator sends the source table in) -/
def packBytes : List Nat → Nat
  | [] => 0
  | b :: rest => b + 256 * packBytes rest

/-- a checked fixed-width result -/
def ck (bits : Nat) (v : Int) : Option Nat := if 0 ≤ v ∧ v < 2 ^ bits then some v.toNat else none

/-- an `assert`-like guard inside the checked computations -/
def guardO (b : Bool) : Option Unit := if b then some () else none

/-- table lookup `TAB[i - off]` (`usize` subtraction and bounds check) -/
def tabAt (tab : List Nat) (i off : Nat) : Option Nat := if i < off then none else tab[i - off]?

/-- the `while e >= elim { s += 1; e -= elim; elim += 2 }` loop of `fix_sqrt_error!` -/
def fixSqrtLoop : Nat → Nat → Nat → Nat → Nat × Nat
  | 0, s, e, _ => (s, e)
  | fuel + 1, s, e, elim => if e ≥ elim then fixSqrtLoop fuel (s + 1) (e - elim) (elim + 2) else (s, e)

/-- `fix_sqrt_error!(t, n, s)`: `e = n - s²` (checked), `elim = 2s + 1`, then the loop -/
def fixSqrtError (bits n s : Nat) : Option (Nat × Nat) := do
  let s2 ← ck bits (s * s)
  let e ← ck bits ((n : Int) - s2)
  let elim ← ck bits (2 * s + 1)
  pure (fixSqrtLoop (e + 1) s e elim)

/-- the `while e >= elim { c += 1; e -= elim; elim += 6 * c }` loop of `fix_cbrt_error!` -/
def fixCbrtLoop : Nat → Nat → Nat → Nat → Nat × Nat
  | 0, c, e, _ => (c, e)
  | fuel + 1, c, e, elim => if e ≥ elim then fixCbrtLoop fuel (c + 1) (e - elim) (elim + 6 * (c + 1)) else (c, e)

/-- `fix_cbrt_error!(t, n, c)`: `cc = c²`, `e = n - cc·c`, `elim = 3(cc + c) + 1`, then the loop -/
def fixCbrtError (bits n c : Nat) : Option (Nat × Nat) := do
  let cc ← ck bits (c * c)
  let c3 ← ck bits (cc * c)
  let e ← ck bits ((n : Int) - c3)
  let elim ← ck bits (3 * (cc + c) + 1)
  pure (fixCbrtLoop (e + 1) c e elim)

/-- `wmul16_hi` / `wmul32_hi` -/
def wmulHi (bits a b : Nat) : Nat := (a * b) / 2 ^ bits

/-- `SquareRootRem for u8` / `CubicRootRem for u8` (brute force from 0) -/
def sqrtRemU8 (n : Nat) : Option (Nat × Nat) := fixSqrtError 8 n 0
def cbrtRemU8 (n : Nat) : Option (Nat × Nat) := fixCbrtError 8 n 0

/-- the estimate of `<u16 as NormalizedRootRem>::normalized_sqrt_rem` (everything before `fix_sqrt_error!`) -/
def estSqrtU16 (n : Nat) : Option Nat := do
  let t ← tabAt RSQRT_TAB (n / 2 ^ 9) 32
  let r : Nat := 0x100 ||| t
  let s ← ck 32 (r * n)
  let s : Nat := s / 2 ^ 16
  let s ← ck 32 ((s : Int) - 1)
  pure (s % 2 ^ 8)

/-- `<u16 as NormalizedRootRem>::normalized_sqrt_rem` -/
def normSqrtU16 (n : Nat) : Option (Nat × Nat) := (estSqrtU16 n).bind (fixSqrtError 16 n)

/-- the estimate of `<u16 as NormalizedRootRem>::normalized_cbrt_rem` (everything before `fix_cbrt_error!`) -/
def estCbrtU16 (n : Nat) : Option Nat := do
  let adjust : Nat := if n ≥ 2 ^ 15 then 1 else 0
  let t ← tabAt RCBRT_TAB (n / 2 ^ (9 + 3 * adjust)) 8
  let r : Nat := 0x100 ||| t
  let r2 ← ck 32 (r * r)
  let r2 : Nat := r2 / 2 ^ (2 + 2 * adjust)
  let c ← ck 32 (r2 * n)
  let c : Nat := c / 2 ^ 24
  let c ← ck 32 ((c : Int) - 1)
  pure (c % 2 ^ 8)

/-- `<u16 as NormalizedRootRem>::normalized_cbrt_rem` -/
def normCbrtU16 (n : Nat) : Option (Nat × Nat) := (estCbrtU16 n).bind (fixCbrtError 16 n)

/-- the estimate of `<u32 as NormalizedRootRem>::normalized_sqrt_rem` (everything before `fix_sqrt_error!`) -/
def estSqrtU32 (n : Nat) : Option Nat := do
  let n16 : Nat := n / 2 ^ 16 % 2 ^ 16
  let t ← tabAt RSQRT_TAB (n16 / 2 ^ 9) 32
  let r : Nat := 0x100 ||| t
  -- `((3 * r as u16) << 5) - (wmul32_hi(self, r * r * r) >> 11) as u16`
  let a ← ck 16 (3 * (r % 2 ^ 16))
  let a : Nat := a * 2 ^ 5 % 2 ^ 16
  let r3 ← ck 32 (r * r)
  let r3 ← ck 32 (r3 * r)
  let b : Nat := wmulHi 32 n r3 / 2 ^ 11 % 2 ^ 16
  let r ← ck 16 ((a : Int) - b)
  let r : Nat := r * 2 % 2 ^ 16                                   -- `r << 1`
  let s : Nat := min (wmulHi 16 r n16 * 2) (2 ^ 16 - 1)            -- `.saturating_mul(2)`
  let s ← ck 16 ((s : Int) - 4)
  let ss ← ck 32 (s * s)
  let e ← ck 32 ((n : Int) - ss)
  let s ← ck 16 (s + wmulHi 16 (e / 2 ^ 16 % 2 ^ 16) r)
  pure s

/-- `<u32 as NormalizedRootRem>::normalized_sqrt_rem` -/
def normSqrtU32 (n : Nat) : Option (Nat × Nat) := (estSqrtU32 n).bind (fixSqrtError 32 n)

/-- the estimate of `<u32 as NormalizedRootRem>::normalized_cbrt_rem` (everything before `fix_cbrt_error!`) -/
def estCbrtU32 (n : Nat) : Option Nat := do
  let adjust : Nat := if n ≥ 2 ^ 30 then 1 else 0
  let n16 : Nat := n / 2 ^ (16 + 3 * adjust) % 2 ^ 16
  let t ← tabAt RCBRT_TAB (n16 / 2 ^ 8) 8
  let r : Nat := 0x100 ||| t
  let r3 ← ck 32 (r * r)
  let r3 ← ck 32 (r3 * r)
  let r3 : Nat := r3 / 2 ^ 11
  let t ← ck 16 ((4 * 2 ^ 11 : Int) - wmulHi 16 n16 (r3 % 2 ^ 16))
  let rt ← ck 32 (r * t)
  let r : Nat := rt / 3 / 2 ^ 4 % 2 ^ 16
  let r : Nat := r / 2 ^ adjust
  let r ← ck 16 ((r : Int) - 10)
  let c : Nat := wmulHi 16 r (wmulHi 16 r (n / 2 ^ 16 % 2 ^ 16)) / 2 ^ 2
  pure c

/-- `<u32 as NormalizedRootRem>::normalized_cbrt_rem` -/
def normCbrtU32 (n : Nat) : Option (Nat × Nat) := (estCbrtU32 n).bind (fixCbrtError 32 n)

/-- the estimate of `<u64 as NormalizedRootRem>::normalized_sqrt_rem` (everything before `fix_sqrt_error!`) -/
def estSqrtU64 (n : Nat) : Option Nat := do
  let n32 : Nat := n / 2 ^ 32 % 2 ^ 32
  let t ← tabAt RSQRT_TAB (n32 / 2 ^ 25) 32
  let r : Nat := 0x100 ||| t
  -- `((3 * r) << 21) - wmul32_hi(n32, (r * r * r) << 5)`
  let a ← ck 32 (3 * r)
  let a : Nat := a * 2 ^ 21 % 2 ^ 32
  let r3 ← ck 32 (r * r)
  let r3 ← ck 32 (r3 * r)
  let r3 : Nat := r3 * 2 ^ 5 % 2 ^ 32
  let r ← ck 32 ((a : Int) - wmulHi 32 n32 r3)
  -- `(3 << 28) - wmul32_hi(r, wmul32_hi(r, n32))`
  let t ← ck 32 ((3 * 2 ^ 28 : Int) - wmulHi 32 r (wmulHi 32 r n32))
  let r : Nat := wmulHi 32 r t
  let r : Nat := r * 2 ^ 4 % 2 ^ 32                               -- `r << 4`
  let s : Nat := wmulHi 32 r n32 * 2 % 2 ^ 32                     -- `<< 1`
  let s ← ck 32 ((s : Int) - 10)
  let ss ← ck 64 (s * s)
  let e ← ck 64 ((n : Int) - ss)
  let s ← ck 32 (s + wmulHi 32 (e / 2 ^ 32 % 2 ^ 32) r)
  pure s

/-- `<u64 as NormalizedRootRem>::normalized_sqrt_rem` -/
def normSqrtU64 (n : Nat) : Option (Nat × Nat) := (estSqrtU64 n).bind (fixSqrtError 64 n)

/-- the estimate of `<u64 as NormalizedRootRem>::normalized_cbrt_rem` (everything before `fix_cbrt_error!`) -/
def estCbrtU64 (n : Nat) : Option Nat := do
  let adjust : Nat := if n ≥ 2 ^ 63 then 1 else 0
  let n32 : Nat := n / 2 ^ (32 + 3 * adjust) % 2 ^ 32
  let t ← tabAt RCBRT_TAB (n32 / 2 ^ 25) 8
  let r : Nat := 0x100 ||| t
  let r3 ← ck 32 (r * r)
  let r3 ← ck 32 (r3 * r)
  let t ← ck 32 ((4 * 2 ^ 23 : Int) - wmulHi 32 n32 r3)
  let r ← ck 32 (r * (t / 3))
  let t ← ck 32 ((4 * 2 ^ 28 : Int) - wmulHi 32 r (wmulHi 32 r (wmulHi 32 r n32)))
  let r : Nat := wmulHi 32 r t / 3
  let r : Nat := r / 2 ^ adjust
  let r ← ck 32 ((r : Int) - 1)
  let c : Nat := wmulHi 32 r (wmulHi 32 r (n / 2 ^ 32 % 2 ^ 32))
  pure c

/-- `<u64 as NormalizedRootRem>::normalized_cbrt_rem` -/
def normCbrtU64 (n : Nat) : Option (Nat × Nat) := (estCbrtU64 n).bind (fixCbrtError 64 n)

/-- `<u128 as NormalizedRootRem>::normalized_sqrt_rem`: one Karatsuba step over the `u64` kernel -/
def normSqrtU128 (n : Nat) : Option (Nat × Nat) := do
  let a : Nat := n / 2 ^ 64
  let b : Nat := n % 2 ^ 64
  let (s1, r1) ← normSqrtU64 a
  -- `r0 = r1 << (KBITS - 1) | b >> (KBITS + 1)`, KBITS = 32
  let r0 : Nat := r1 * 2 ^ 31 % 2 ^ 64 ||| b / 2 ^ 33
  guardO (decide (s1 ≠ 0))        -- division by zero
  let q : Nat := r0 / s1
  let u : Nat := r0 % s1
  -- `if q >> KBITS > 0 { q -= 1; u += s1 }`
  let qu : Option (Nat × Nat) := if q / 2 ^ 32 > 0 then (do let u' ← ck 64 (u + s1); pure (q - 1, u')) else some (q, u)
  let (q, u) ← qu
  let s : Nat := s1 * 2 ^ 32 % 2 ^ 64 ||| q
  let r : Nat := u * 2 ^ 33 % 2 ^ 64 ||| b % 2 ^ 33
  let q2 ← ck 64 (q * q)
  let c : Int := ((u / 2 ^ 31 % 2 ^ 8 : Nat) : Int) - (if r < q2 then 1 else 0)
  let r : Nat := (r + 2 ^ 64 - q2) % 2 ^ 64                        -- `wrapping_sub`
  if c < 0 then do
    let t1 : Nat := r + s
    let s ← ck 64 ((s : Int) - 1)
    let t2 : Nat := t1 % 2 ^ 64 + s
    let c : Int := c + (t1 / 2 ^ 64 : Nat) + (t2 / 2 ^ 64 : Nat)
    if c < 0 then none else pure (s, c.toNat * 2 ^ 64 + t2 % 2 ^ 64)
  else pure (s, c.toNat * 2 ^ 64 + r)

/-- the `while r < 0 { r += 3 * (c - 1) * c + 1; c -= 1 }` loop of `u128::normalized_cbrt_rem` -/
def cbrtDownLoop : Nat → Nat → Int → Option (Nat × Int)
  | 0, c, r => if r < 0 then none else some (c, r)
  | fuel + 1, c, r => if r < 0 then (if c = 0 then none else cbrtDownLoop fuel (c - 1) (r + 3 * ((c : Int) - 1) * c + 1)) else some (c, r)

/-- `<u128 as NormalizedRootRem>::normalized_cbrt_rem` -/
def normCbrtU128 (n : Nat) : Option (Nat × Nat) := do
  let cr : Option (Nat × Nat) :=
    if n < 2 ^ 127 then do
      let a : Nat := n / 2 ^ 63 % 2 ^ 64
      let (c, _) ← normCbrtU64 a
      let c : Nat := c / 2
      let c3 ← ck 64 (c * c)
      let c3 ← ck 64 (c3 * c)
      let r ← ck 64 (((a / 2 ^ 3 : Nat) : Int) - c3)
      pure (c, r)
    else normCbrtU64 (n / 2 ^ 66 % 2 ^ 64)
  let (c1, r1) ← cr
  -- KBITS = 22
  let r0 : Nat := r1 * 2 ^ 22 % 2 ^ 128 ||| n / 2 ^ 44 % 2 ^ 22
  let d ← ck 128 (3 * (c1 * c1))
  guardO (decide (d ≠ 0))         -- division by zero
  let q : Nat := r0 / d
  let u : Nat := r0 % d
  let c ← ck 64 (c1 * 2 ^ 22 % 2 ^ 64 + q % 2 ^ 64)
  let t1 : Nat := u * 2 ^ 44 % 2 ^ 128 ||| n % 2 ^ 44
  let qq ← ck 128 (q * q)
  let f ← ck 128 (3 * c1 * 2 ^ 22 % 2 ^ 128 + q)
  let t2 ← ck 128 (f * qq)
  guardO (decide (t1 < 2 ^ 127 ∧ t2 < 2 ^ 127))   -- `as i128` keeps the value
  let (c, r) ← cbrtDownLoop 8 c ((t1 : Int) - t2)
  pure (c, r.toNat)

/-- bit length -/
def lzOf (bits x : Nat) : Nat := bits - bitLen x

/-- `impl_rootrem_using_normalized!`: `SquareRootRem::sqrt_rem` of `u16 … u128` -/
def sqrtRemNorm (bits : Nat) (norm : Nat → Option (Nat × Nat)) (x : Nat) : Option (Nat × Nat) :=
  if x = 0 then some (0, 0) else do
  let shift : Nat := lzOf bits x / 2 * 2                             -- `leading_zeros() & !1`
  let (root, rem) ← norm (x * 2 ^ shift % 2 ^ bits)
  if shift ≠ 0 then do
    let root : Nat := root / 2 ^ (shift / 2)
    let r2 ← ck bits (root * root)
    let rem ← ck bits ((x : Int) - r2)
    pure (root, rem)
  else pure (root, rem)

/-- `impl_rootrem_using_normalized!`: `CubicRootRem::cbrt_rem` of `u16 … u128` -/
def cbrtRemNorm (bits : Nat) (norm : Nat → Option (Nat × Nat)) (x : Nat) : Option (Nat × Nat) :=
  if x = 0 then some (0, 0) else do
  let lz : Nat := lzOf bits x
  let shift : Nat := lz - lz % 3
  let (root, rem) ← norm (x * 2 ^ shift % 2 ^ bits)
  if shift ≠ 0 then do
    let root : Nat := root / 2 ^ (shift / 3)
    let r2 ← ck bits (root * root)
    let r3 ← ck bits (r2 * root)
    let rem ← ck bits ((x : Int) - r3)
    pure (root, rem)
  else pure (root, rem)

/-- `sqrt_rem` of the primitive type with `bits` bits -/
def sqrtRemPrimBits (bits x : Nat) : Option (Nat × Nat) :=
  match bits with
  | 8 => sqrtRemU8 x
  | 16 => sqrtRemNorm 16 normSqrtU16 x
  | 32 => sqrtRemNorm 32 normSqrtU32 x
  | 64 => sqrtRemNorm 64 normSqrtU64 x
  | 128 => sqrtRemNorm 128 normSqrtU128 x
  | _ => none

/-- `cbrt_rem` of the primitive type with `bits` bits -/
def cbrtRemPrimBits (bits x : Nat) : Option (Nat × Nat) :=
  match bits with
  | 8 => cbrtRemU8 x
  | 16 => cbrtRemNorm 16 normCbrtU16 x
  | 32 => cbrtRemNorm 32 normCbrtU32 x
  | 64 => cbrtRemNorm 64 normCbrtU64 x
  | 128 => cbrtRemNorm 128 normCbrtU128 x
  | _ => none

/-- `Word::sqrt_rem` / `DoubleWord::sqrt_rem` as `TypedReprRef::sqrt_rem` uses them (word size 16, 32 or 64).
    A `none` (reliance on wrap-around, or a word size dashu-base has no routine for) becomes `(0, 0)`,
    which is the root of no non-zero value: the driver's per-call root check then reports the case, it
    is never passed off as a result. -/
def sqrtRemWordM (W : Nat) (x : Nat) : Nat × Nat := (sqrtRemPrimBits W x).getD (0, 0)
def sqrtRemDwordM (W : Nat) (x : Nat) : Nat × Nat := (sqrtRemPrimBits (2 * W) x).getD (0, 0)

end Dashu.Model.NT
