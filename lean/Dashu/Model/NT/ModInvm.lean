import Dashu.Model.NT.ModInvLarge
/-
  C13 — num-modular's `invm` at the machine-integer level (round 5).

  `Reduced::inv` of a single- or double-word ring is `PreMulInv*::inv` = `residue.invm(&modulus) << shift`
  (num-modular-0.6.5 `src/barrett.rs`), and `invm` (`src/prim.rs`, `impl_unary_uprim!`) is an extended Euclid on
  the primitive type `$T` (`Word` for single, `DoubleWord` for double-word rings) whose only non-trivial
  arithmetic is `quo.mulm(t, m)` and `last_t.subm(.., m)`:

  * `mulm` for `u8..u64` (`impl_core_ops_uu!`): `((a as $D) * (b as $D) % (m as $D)) as $T`;
  * `mulm` for `u128`: `checked_mul`, else `udouble::widening_mul(a, b) % m` — `src/double.rs`:
    `widening_mul` (four half-width products with carries), `Rem<umax> for udouble`, `div_rem_2by1`
    (two quotient digits in base `2^64`, each with its `while q >= B || q * d0 > B * rhat + n` correction loop and
    the `wrapping_mul / wrapping_add / wrapping_sub` remainder), `shl_u32`, `leading_zeros`.

  Modelled here with the machine semantics: every plain `+ - *` is CHECKED (overflow ⇒ `.error`, which is
  what a debug build does; a release build would wrap), every `wrapping_*` wraps mod `2^bits`, `as` casts
  truncate, `/` and `%` fail on a zero divisor.  `Proofs/NT/ModInvm.lean` proves that no check ever fails
  and that the result is the `Nat`-level `invm` of `Model/NT/Modular.lean` (the one `inv_spec` is about).
  `H` = half the bits of `umax` (64 for the real `u128`); the theorems hold for every `H ≥ 1`.
  Core Lean only.
-/
namespace Dashu.Model.NT
open Dashu.Model

namespace NMPrim

def ovf (what : String) : PanicKind := .undocumented ("num-modular: attempt to " ++ what ++ " with overflow")

/-- `a + b` on a `bits`-bit unsigned type -/
def cadd (bits a b : Nat) : Except PanicKind Nat := if a + b < 2 ^ bits then .ok (a + b) else .error (ovf "add")
/-- `a * b` -/
def cmul (bits a b : Nat) : Except PanicKind Nat := if a * b < 2 ^ bits then .ok (a * b) else .error (ovf "multiply")
/-- `a - b` -/
def csub (a b : Nat) : Except PanicKind Nat := if b ≤ a then .ok (a - b) else .error (ovf "subtract")
/-- `a / b` -/
def cdiv (a b : Nat) : Except PanicKind Nat :=
  if b = 0 then .error (.undocumented "num-modular: attempt to divide by zero") else .ok (a / b)
/-- `a % b` -/
def crem (a b : Nat) : Except PanicKind Nat :=
  if b = 0 then .error (.undocumented "num-modular: attempt to calculate the remainder with a divisor of zero") else .ok (a % b)
/-- `wrapping_mul`, `wrapping_add`, `wrapping_sub` -/
def wmul (bits a b : Nat) : Nat := (a * b) % 2 ^ bits
def wadd (bits a b : Nat) : Nat := (a + b) % 2 ^ bits
def wsub (bits a b : Nat) : Nat := (a + 2 ^ bits - b % 2 ^ bits) % 2 ^ bits

/-- `double.rs::split(v)`: `(v >> HALF_BITS, v & (umax::MAX >> HALF_BITS))` -/
def split (H v : Nat) : Nat × Nat := (v / 2 ^ H, v % 2 ^ H)

/-- `udouble { hi, lo }` -/
structure UDouble where
  hi : Nat
  lo : Nat
  deriving DecidableEq, Repr

/-- `udouble::widening_mul(lhs, rhs)` -/
def wideningMul (H lhs rhs : Nat) : Except PanicKind UDouble := do
  let U := 2 * H
  let (x1, x0) := split H lhs
  let (y1, y0) := split H rhs
  let z2 ← cmul U x1 y1
  let p0 ← cmul U x0 y0
  let (c0, z0) := split H p0                    -- c0 <= umax::MAX - 1
  let p1 ← cmul U x1 y0
  let p1 ← cadd U p1 c0
  let (c1, z1) := split H p1
  let z2 ← cadd U z2 c1
  let p2 ← cmul U x0 y1
  let p2 ← cadd U p2 z1
  let (c1, z1) := split H p2
  let hi ← cadd U z2 c1
  pure ⟨hi, z0 ||| ((z1 * 2 ^ H) % 2 ^ U)⟩      -- z0 | z1 << HALF_BITS

/-- `udouble::shl_u32(self, rhs)` (primitive `<<` drops the bits shifted out) -/
def shlU32 (U : Nat) (x : UDouble) (s : Nat) : UDouble :=
  if s = 0 then x
  else if s ≥ U then ⟨(x.lo * 2 ^ (s - U)) % 2 ^ U, 0⟩
  else ⟨((x.hi * 2 ^ s) % 2 ^ U) ||| (x.lo / 2 ^ (U - s)), (x.lo * 2 ^ s) % 2 ^ U⟩

/-- the loop test `q >= B || q * d0 > B * rhat + nx` (`||` short-circuits: the products are only formed
    when `q < B`) -/
def adjCond (H d0 nx q rhat : Nat) : Except PanicKind Bool :=
  if q ≥ 2 ^ H then pure true
  else do
    let l ← cmul (2 * H) q d0
    let r ← cmul (2 * H) (2 ^ H) rhat
    let r ← cadd (2 * H) r nx
    pure (decide (l > r))

/-- the correction loop of one quotient digit of `div_rem_2by1`:
    `while q >= B || q * d0 > B * rhat + nx { q -= 1; rhat += d1; if rhat >= B { break } }`
    Structural on `q` (`q -= 1`). -/
def adjLoop (H d1 d0 nx : Nat) : Nat → Nat → Except PanicKind (Nat × Nat)
  | 0, rhat => do
    if (← adjCond H d0 nx 0 rhat) then .error (ovf "subtract") else pure (0, rhat)     -- `q -= 1` at 0
  | q + 1, rhat => do
    if (← adjCond H d0 nx (q + 1) rhat) then do
      let rhat ← cadd (2 * H) rhat d1
      if rhat ≥ 2 ^ H then pure (q, rhat) else adjLoop H d1 d0 nx q rhat
    else pure (q + 1, rhat)

/-- one quotient digit of `div_rem_2by1`: `div_rem(n_hi, d1)`, the correction loop, and the remainder
    `n_hi.wrapping_mul(B).wrapping_add(nx).wrapping_sub(q.wrapping_mul(d))` -/
def divDigit (H d nhi nx : Nat) : Except PanicKind (Nat × Nat) := do
  let U := 2 * H
  let (d1, d0) := split H d
  let q ← cdiv nhi d1
  let rhat ← crem nhi d1
  let (q, _) ← adjLoop H d1 d0 nx q rhat
  pure (q, wsub U (wadd U (wmul U nhi (2 ^ H)) nx) (wmul U q d))

/-- `udouble::div_rem_2by1(self, other)` ("equivalent to `udiv_qrnnd`"; algorithm from `ethnum`) -/
def divRem2by1 (H : Nat) (x : UDouble) (other : Nat) : Except PanicKind (Nat × Nat) := do
  let U := 2 * H
  let s := U - bitLen other                     -- other.leading_zeros()
  let n := shlU32 U x s
  let d := (other * 2 ^ s) % 2 ^ U              -- other << s
  let (n1, n0) := split H n.lo
  let (q1, r21) ← divDigit H d n.hi n1
  let (q0, r) ← divDigit H d r21 n0
  let q ← cmul U q1 (2 ^ H)
  let q ← cadd U q q0
  pure (q, r / 2 ^ s)                           -- (..) >> s

/-- `impl Rem<umax> for udouble` -/
def udoubleRem (H : Nat) (x : UDouble) (rhs : Nat) : Except PanicKind Nat :=
  if x.hi < rhs then do
    let (_, r) ← divRem2by1 H x rhs
    pure r
  else do
    let h ← crem x.hi rhs
    let (_, r) ← divRem2by1 H ⟨h, x.lo⟩ rhs
    pure r

/-- `ModularCoreOps<u128>::mulm`: `checked_mul` ⇒ `ab % m`, else `udouble::widening_mul(a, b) % *m` -/
def mulmMax (H a b m : Nat) : Except PanicKind Nat :=
  if a * b < 2 ^ (2 * H) then crem (a * b) m
  else do
    let p ← wideningMul H a b
    udoubleRem H p m

/-- `impl_core_ops_uu!` `mulm` (`u8 => u16 … u64 => u128`): `(((a as D) * (b as D)) % (m as D)) as T` -/
def mulmWide (T a b m : Nat) : Except PanicKind Nat := do
  let p ← cmul (2 * T) a b
  let r ← crem p m
  pure (r % 2 ^ T)                               -- `as $T`

/-- `ModularUnaryOps::negm` -/
def negmP (x m : Nat) : Except PanicKind Nat := do
  let x ← crem x m
  if x = 0 then pure 0 else csub m x

/-- `ModularCoreOps::subm` -/
def submP (a b m : Nat) : Except PanicKind Nat :=
  if a ≥ b then do
    let d ← csub a b
    crem d m
  else do
    let d ← csub b a
    let x ← crem d m
    negmP x m

/-- the `while r > 0` loop of `invm` on the primitive type (`fuel`: the remainders strictly decrease) -/
def invmLoopP (mulm : Nat → Nat → Nat → Except PanicKind Nat) (m : Nat) :
    Nat → Nat → Nat → Nat → Nat → Except PanicKind (Nat × Nat)
  | 0, lastR, _, lastT, _ => .ok (lastR, lastT)
  | fuel + 1, lastR, r, lastT, t =>
    if r = 0 then .ok (lastR, lastT)
    else do
      let quo ← cdiv lastR r
      let rem ← crem lastR r
      let p ← mulm quo t m
      let newT ← submP lastT p m
      invmLoopP mulm m fuel r rem t newT

/-- `ModularUnaryOps::invm` on a primitive type whose `mulm` is `mulm` -/
def invmP (mulm : Nat → Nat → Nat → Except PanicKind Nat) (x m : Nat) : Except PanicKind (Option Nat) := do
  let x ← if x ≥ m then crem x m else pure x
  let (g, t) ← invmLoopP mulm m (m + 1) m x 0 1
  pure (if g > 1 then none else some t)

/-- `mulm` of the unsigned primitive type with `T` bits: `u128` goes through `udouble`, the narrower
    types through the next wider primitive -/
def mulmOf (T : Nat) : Nat → Nat → Nat → Except PanicKind Nat :=
  if T = 128 then mulmMax 64 else mulmWide T

end NMPrim

/-- `PreMulInv2by1::<Word>::inv` / `PreMulInv3by2::<Word, DoubleWord>::inv`:
    `self.residue(target).invm(&self.modulus()).map(|v| v << self.shift)` on the primitive type -/
def invSDP (W : Nat) (r : Ring) (raw : Nat) : Except PanicKind (Option Nat) := do
  let T := if r.kind = .single then W else 2 * W
  let o ← NMPrim.invmP (NMPrim.mulmOf T) (raw / 2 ^ r.k) (r.M / 2 ^ r.k)
  pure (o.map (fun v => (v * 2 ^ r.k) % 2 ^ T))            -- v << shift

/-- `Reduced::inv` with every kernel mirrored: multi-word rings `inv_large` (round 4), single- and
    double-word rings num-modular's `invm` on the primitive type (round 5) -/
def invRawKP (W : Nat) (r : Ring) (raw : Nat) : Except PanicKind (Option Nat) :=
  match r.kind with
  | .large => invLarge W r raw
  | _ => invSDP W r raw

def Elem.invKP (W : Nat) (a : Elem) : Except PanicKind (Option Elem) :=
  match invRawKP W a.ring a.raw with
  | .error k => .error k
  | .ok o => .ok (o.map (⟨a.ring, ·⟩))

end Dashu.Model.NT
