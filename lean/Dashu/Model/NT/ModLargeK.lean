import Dashu.Model.NT.ModKernels
import Dashu.Model.Int.Div
/-
  C13 — the multi-word ring's reductions on WORD LISTS (round 5): where `Model/NT/Modular.lean` says
  `words % r.M` / `product % r.M` for `div::div_rem_in_place`, the functions here run C02's mirrored
  `Dashu.Model.Div.divRemInPlace` (Knuth D below the threshold, Burnikel–Ziegler above it, over C01's
  mirrored multiplication) on the buffers the code builds:

  * `integer/src/div_const.rs`: `ConstLargeDivisor::rem_large` (`shl_in_place`, `push_resizing(carry)`,
    the `words.len() >= modulus.len()` test, `div_rem_in_place`, `truncate`) and `rem_repr`;
  * `integer/src/modular/mul.rs`: `mul_normalized` / `sqr_normalized` (trimmed operand lengths, the
    `n.max(na + nb)`-word product buffer, `shr_in_place`, then `div_rem_in_place` + `&product[..n]`, or
    `cmp_same_len` + `debug_assert_zero!(sub_same_len_in_place)` — since round 6 C02's mirrored `Div.cmpSameLen` and C01's mirrored
    `subSameLen` on the buffer).  `mul::multiply` / `sqr::sqr` are C01's mirrored
    `addSignedMul` / `sqrBuffer` (`Dashu.Model`: schoolbook, Karatsuba, Toom-3), run on the trimmed operands.

  The fields of `ConstLargeDivisor` are read off the value-level ring: `normalized_divisor` = the `n`
  words of `r.M`, `shift = r.k`, `fast_div_top` = the divider of the top double word (`highestDword`).
  `Proofs/NT/ModLargeK.lean` proves — by importing C02's `divRemInPlace_spec` — that these never fail
  and return what the `%`-level definitions return.  The driver executes `rawOfNatKL`, `mulRawKL`,
  `sqrRawKL`.  Core Lean only.
-/
namespace Dashu.Model.NT
open Dashu.Model

/-- `ConstLargeDivisor.normalized_divisor`: the words of `divisor << shift` -/
def Ring.ndWords (W : Nat) (r : Ring) : List Nat := natWords W r.M

/-- `ConstLargeDivisor::rem_large(words)`: `(words << shift) % self` on buffers.
    `nd` = normalized_divisor, `dtop` = fast_div_top. -/
def remLargeWordsL (W : Nat) (nd : List Nat) (shift dtop : Nat) (words : List Nat) :
    Except PanicKind (List Nat) :=
  let (w1, carry) := Div.shlInPlace W words shift          -- shift::shl_in_place(&mut words, self.shift)
  let w2 := w1 ++ [carry]                                  -- words.push_resizing(carry)
  if w2.length ≥ nd.length then do
    let (out, _overflow) ← Div.divRemInPlace W w2 nd dtop   -- div::div_rem_in_place(&mut words, modulus, fast_div_top, ..)
    pure (out.take nd.length)                              -- words.truncate(modulus.len())
  else pure w2

/-- `ConstLargeDivisor::rem_repr`: `Small(dword)` ⇒ the three words of `shl_dword(dword, shift)` (no
    reduction: "must be smaller than the normalized modulus"); `Large(words)` ⇒ `rem_large` -/
def remReprLK (W : Nat) (r : Ring) (x : Nat) : Except PanicKind Nat :=
  if x < 2 ^ (2 * W) then .ok (x * 2 ^ r.k)
  else do
    let nd := r.ndWords W
    let out ← remLargeWordsL W nd r.k (Div.highestDword W nd) (natWords W x)
    pure (val W out)

/-- a failed `debug_assert!`/index inside the mirrored division would surface as the raw value `r.M`,
    which is not `Valid` (the driver's `validMark` flags it; `remReprLK_eq` proves it never happens) -/
def unwrapRaw (r : Ring) : Except PanicKind Nat → Nat
  | .ok v => v
  | .error _ => r.M

/-- `ReducedWord/Dword/Large::from_ubig` with every division kernel mirrored -/
def rawOfNatKL (W : Nat) (r : Ring) (x : Nat) : Nat :=
  match r.kind with
  | .large => unwrapRaw r (remReprLK W r x)
  | _ => rawOfNatK W r x

/-- `IntoRing for IBig` -/
def reduceIntKL (W : Nat) (r : Ring) (x : Int) : Elem :=
  let e := rawOfNatKL W r x.natAbs
  if x < 0 then ⟨r, negRaw r e⟩ else ⟨r, e⟩

/-- a buffer of exactly `len` words holding `v` (`allocate_slice_fill(len, 0)` then the product written
    into its low words) -/
def wordsPad (W len v : Nat) : List Nat :=
  let ws := natWords W v
  ws ++ List.replicate (len - ws.length) 0

/-- the low `na + nb` words of the product buffer, as the code fills them:
    * `sq` (`sqr_normalized`: reached from `Reduced::sqr`, `sqr_in_place`, and from `mul_in_place` when `lhs.0 == rhs.0`): `na == 1` ⇒ the
      `extend_word(a[0])²` double word, else `sqr::sqr(&mut product[..na * 2], &a[..na])` — C01's mirrored
      `sqrBuffer` (`simple::square` up to `MAX_LEN_SIMPLE`, else `add_signed_mul_same_len`);
    * otherwise (`mul_normalized`): `na == 1 && nb == 1` ⇒ the `extend_word` product, else
      `mul::multiply(&mut product[..na + nb], &a[..na], &b[..nb])` = `debug_assert_zero!(add_signed_mul(c, +, a, b))`
      — C01's mirrored `addSignedMul` (schoolbook / Karatsuba / Toom-3 with chunk splitting). -/
def productLow (W : Nat) (sq : Bool) (a b : Nat) : Except PanicKind (List Nat) :=
  let aw := natWords W a                                   -- &a[..na]
  let bw := natWords W b                                   -- &b[..nb]
  if sq then
    if aw.length = 1 then .ok (wordsPad W 2 (a * a))
    else .ok (sqrBuffer W aw)
  else if aw.length = 1 ∧ bw.length = 1 then .ok (wordsPad W 2 (a * b))
  else
    let (c, carry) := addSignedMul W (aw.length + bw.length) (List.replicate (aw.length + bw.length) 0) false aw bw
    if carry ≠ 0 then .error (Div.assertErr "mul::multiply: debug_assert_zero!(add_signed_mul(c, Positive, a, b))")
    else .ok c

/-- `mul_normalized(ring, a, b)` (`sq = false`) / `sqr_normalized(ring, a)` (`sq = true`, `b = a`) on buffers -/
def mulNormalizedWordsL (W : Nat) (r : Ring) (sq : Bool) (a b : Nat) : Except PanicKind Nat :=
  let nd := r.ndWords W
  let n := nd.length
  let na := wordLen W a                                    -- locate_top_word_plus_one(a)
  let nb := wordLen W b
  if na ||| nb = 0 then .ok 0                              -- `na | nb == 0` (both empty) resp. `na == 0`: the zero-filled buffer
  else do
    let low ← productLow W sq a b
    let product := low ++ List.replicate (max n (na + nb) - low.length) 0   -- allocate_slice_fill(n.max(na + nb), 0)
    let (p1, c) := Div.shrInPlace W product r.k            -- debug_assert_zero!(shift::shr_in_place(product, ring.shift))
    if c ≠ 0 then .error (Div.assertErr "mul_normalized: debug_assert_zero!(shr_in_place(product, shift))")
    else if na + nb > n then do
      let (out, _overflow) ← Div.divRemInPlace W p1 nd (Div.highestDword W nd)
      pure (val W (out.take n))                            -- &product[..n]
    else if Div.cmpSameLen p1 nd ≠ .lt then                -- cmp::cmp_same_len(product, modulus).is_ge()
      let (p2, borrow) := subSameLen W p1 nd 0               -- debug_assert_zero!(add::sub_same_len_in_place(product, modulus))
      if borrow ≠ 0 then .error (Div.assertErr "mul_normalized: debug_assert_zero!(sub_same_len_in_place(product, modulus))")
      else .ok (val W p2)
    else .ok (val W p1)

/-- `PreMulInv*::mul` (single / double word rings, as before) and `mul_in_place` of multi-word rings on buffers -/
def mulRawKL (W : Nat) (r : Ring) (a b : Nat) : Nat :=
  match r.kind with
  | .large => unwrapRaw r (mulNormalizedWordsL W r (decide (a = b)) a b)   -- mul_in_place: `lhs.0 == rhs.0` ⇒ sqr_normalized
  | _ => mulRawK W r a b

def sqrRawKL (W : Nat) (r : Ring) (a : Nat) : Nat :=
  match r.kind with
  | .large => unwrapRaw r (mulNormalizedWordsL W r true a a)
  | _ => sqrRawK W r a

def Elem.mulKL (W : Nat) (a b : Elem) : Except PanicKind Elem :=
  if sameRing a b then .ok ⟨a.ring, mulRawKL W a.ring a.raw b.raw⟩ else .error .differentRings

def Elem.sqrKL (W : Nat) (a : Elem) : Elem := ⟨a.ring, sqrRawKL W a.ring a.raw⟩

end Dashu.Model.NT
