import Dashu.Model.Int.Word
/-
  C12 (Round 6): `lehmer::lehmer_ext_step` at the word level (integer/src/gcd/lehmer.rs) — the in-place loop
  `for (x_i, y_i) in x.iter_mut().zip(y.iter_mut()).take(len)` that turns the coefficient buffers `(t0, t1)` into
  `(a·t0 + b·t1, c·t0 + d·t1)` with one double-word accumulation per word and two running carries.  Core Lean only.
-/
namespace Dashu.Model.NT
open Dashu.Model

/-- `lehmer_ext_step(x, y, len, a, b, c, d)`: returns the new `x`, `y` (words beyond `len` untouched) and the carry words
    `(x_carry, y_carry)`; `none` if a `DoubleWord` accumulation `a * sx_i + b * sy_i + carry` overflowed `2^(2W)`
    (a debug-build panic / release-build wrap in the real code) -/
def lehmerExtStepWords (W a b c d : Nat) : Nat → List Nat → List Nat → Nat → Nat → Option (List Nat × List Nat × Nat × Nat)
  | len + 1, x :: xs, y :: ys, cx, cy =>
    let sx := a * x + b * y + cx
    let sy := c * x + d * y + cy
    if sx < 2 ^ (2 * W) ∧ sy < 2 ^ (2 * W) then
      -- `split_dword`: low word stored, high word is the next carry
      match lehmerExtStepWords W a b c d len xs ys (sx / 2 ^ W) (sy / 2 ^ W) with
      | some (xs', ys', cx', cy') => some (sx % 2 ^ W :: xs', sy % 2 ^ W :: ys', cx', cy')
      | none => none
    else none
  | _, xs, ys, cx, cy => some (xs, ys, cx, cy)

end Dashu.Model.NT
