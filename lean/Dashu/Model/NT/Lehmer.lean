import Dashu.Model.NT.Gcd
/-
  C12 — value-level mirror of `lehmer::gcd_in_place` (`integer/src/gcd/lehmer.rs`): alignment of the
  leading words (`highest_word_normalized`, `highest_dword_normalized`), `lehmer_guess(_dword)`,
  Euclidean fallback, `lehmer_step`, the final word / double-word gcd.

  A step whose result would be negative (the code's `debug_assert`s on the carries) is reported as
  an error: the soundness theorem (`Proofs/NT/Lehmer`) says that whatever the guesses are, a
  returned value is the gcd.  Core Lean only.
-/
namespace Dashu.Model.NT
open Dashu.Model

/-- the double word of `y` that lines up with the leading double word of an `lx`-word `x` -/
def yHighDword (W lx y : Nat) : Nat :=
  let ly := wordLen W y
  match lx - ly with
  | 0 => y / 2 ^ (W * (ly - 2))                               -- highest_dword(y)
  | 1 => y / 2 ^ (W * (ly - 1))                               -- extend_word(y.last())
  | _ => 0

/-- `highest_word_normalized(x, y)`: the leading `W` bits of `x` and the bits of `y` at the same positions -/
def highestWordNormalized (W x y : Nat) : Nat × Nat :=
  let lx := wordLen W x
  let xhi2 := x / 2 ^ (W * (lx - 2))                          -- highest_dword(x)
  let yhi2 := yHighDword W lx y                               -- the `match x.len() - y.len()` of the code
  let shift := 2 * W - bitLen xhi2                            -- x_hi2.leading_zeros()
  ((xhi2 * 2 ^ shift) / 2 ^ W % 2 ^ W, (yhi2 * 2 ^ shift) / 2 ^ W % 2 ^ W)

/-- the three words of `y` that line up with the leading three words of an `lx`-word `x`, as
    (top word, lower double word): the `match x.len() - y.len()` of `highest_dword_normalized` -/
def yHighTriple (W lx y : Nat) : Nat × Nat :=
  let ly := wordLen W y
  match lx - ly with
  | 0 => (y / 2 ^ (W * (ly - 1)), y / 2 ^ (W * (ly - 3)) % 2 ^ (2 * W))
  | 1 => (0, y / 2 ^ (W * (ly - 2)))
  | 2 => (0, y / 2 ^ (W * (ly - 1)))
  | _ => (0, 0)

/-- `highest_dword_normalized(x, y)` (`x.len() ≥ 3`): the leading `2W` bits -/
def highestDwordNormalized (W x y : Nat) : Nat × Nat :=
  let lx := wordLen W x
  let x0 := x / 2 ^ (W * (lx - 1))                            -- top word
  let x12 := x / 2 ^ (W * (lx - 3)) % 2 ^ (2 * W)             -- highest_dword(x_lo)
  let (y0, y12) := yHighTriple W lx y
  let shift := W - bitLen x0                                  -- x0.leading_zeros()
  ((x0 * 2 ^ (shift + W) + x12 / 2 ^ (W - shift)) % 2 ^ (2 * W),
   (y0 * 2 ^ (shift + W) + y12 / 2 ^ (W - shift)) % 2 ^ (2 * W))

/-- `MIN_DWORD_GUESS_LEN` -/
def minDwordGuessLen : Nat := 300

/-- the cofactors the code would use for `(x, y)` -/
def lehmerCofactors (W x y : Nat) : Nat × Nat × Nat × Nat :=
  let lim := 2 ^ (W - 1) - 1                                  -- SignedWord::MAX
  if wordLen W x < minDwordGuessLen then
    let (xh, yh) := highestWordNormalized W x y
    lehmerGuess lim (W + 2) xh yh 1 0 0 1
  else
    let (xh, yh) := highestDwordNormalized W x y
    lehmerGuess lim (2 * W + 2) xh yh 1 0 0 1

/-- main loop of `gcd_in_place` on values, `x ≥ y` -/
def lehmerGcdLoop (W : Nat) : Nat → Nat → Nat → Except PanicKind Nat
  | 0, _, _ => .error (.undocumented "model: lehmer loop out of fuel")
  | fuel + 1, x, y =>
    if wordLen W y > 2 then
      let (a, b, c, d) := lehmerCofactors W x y
      if b = 0 then
        -- the guess failed: Euclidean step (x, y) = (y, x % y)
        lehmerGcdLoop W fuel y (x % y)
      else
        let x' : Int := (a : Int) * x - (b : Int) * y
        let y' : Int := (d : Int) * y - (c : Int) * x
        if x' < 0 ∨ y' < 0 then .error (.undocumented "lehmer.rs lehmer_step: negative result (debug_assert on the carry)")
        else if x'.toNat ≤ y'.toNat then lehmerGcdLoop W fuel y'.toNat x'.toNat
        else lehmerGcdLoop W fuel x'.toNat y'.toNat
    else if y = 0 then .ok x
    else gcdPrim (x % y) y                                    -- rem_by_word / rem_by_dword, then the primitive gcd

/-- `gcd::gcd_in_place(lhs, rhs)` for `lhs > rhs` (both multi-word).  The fuel `lhs + rhs + 1` is never
    exhausted (`Proofs/NT/LehmerComplete`: every iteration decreases `x + y`). -/
def lehmerGcd (W lhs rhs : Nat) : Except PanicKind Nat :=
  lehmerGcdLoop W (lhs + rhs + 1) lhs rhs

/-- `gcd_large(lhs, rhs)` with the mirrored Lehmer loop -/
def gcdLargeM (W lhs rhs : Nat) : Except PanicKind Nat :=
  if lhs = rhs then .ok lhs
  else if lhs > rhs then lehmerGcd W lhs rhs else lehmerGcd W rhs lhs

/-- `impl Gcd for TypedReprRef` with every kernel mirrored (what the driver runs) -/
def gcdReprM (W : Nat) (a b : Nat) : Except PanicKind Nat :=
  let small := fun (x : Nat) => decide (x < 2 ^ (2 * W))
  match small a, small b with
  | true, true => gcdPrim a b
  | true, false => gcdLargeDword b a
  | false, true => gcdLargeDword a b
  | false, false => gcdLargeM W a b

/-- main loop of `lehmer::gcd_ext_in_place` on values: besides `(x, y)` it tracks the (unsigned)
    coefficients `t0, t1` of `rhs` — `x ≡ ∓t0·rhs`, `y ≡ ±t1·rhs (mod lhs)` — and the `swapped` flag that
    carries the sign; runs while `y` has more than one word -/
def lehmerExtLoop (W : Nat) : Nat → Nat → Nat → Nat → Nat → Bool →
    Except PanicKind (Nat × Nat × Nat × Nat × Bool)
  | 0, _, _, _, _, _ => .error (.undocumented "model: lehmer ext loop out of fuel")
  | fuel + 1, x, y, t0, t1, sw =>
    if wordLen W y > 1 then
      let (a, b, c, d) := lehmerCofactors W x y
      if b = 0 then
        -- Euclidean step: (x, y) = (y, x % y); t0 += q·t1; swap
        lehmerExtLoop W fuel y (x % y) t1 (t0 + x / y * t1) (!sw)
      else
        let x' : Int := (a : Int) * x - (b : Int) * y
        let y' : Int := (d : Int) * y - (c : Int) * x
        if x' < 0 ∨ y' < 0 then .error (.undocumented "lehmer.rs lehmer_step: negative result (debug_assert on the carry)")
        else
          -- lehmer_ext_step: (t0, t1) = (a·t0 + b·t1, c·t0 + d·t1)
          let t0' := a * t0 + b * t1
          let t1' := c * t0 + d * t1
          if x'.toNat ≤ y'.toNat then lehmerExtLoop W fuel y'.toNat x'.toNat t1' t0' (!sw)
          else lehmerExtLoop W fuel x'.toNat y'.toNat t0' t1' sw
    else .ok (x, y, t0, t1, sw)

/-- `gcd::gcd_ext_in_place(lhs, rhs)` for `lhs > rhs`: `(g, |b|, b negative?)` with `lhs·a + rhs·b = g`
    for some `a`; after the loop either `y = 0` or one word is left, which goes through the primitive
    `gcd_ext` of a word -/
def lehmerExt (W lhs rhs : Nat) : Except PanicKind (Nat × Nat × Bool) :=
  match lehmerExtLoop W (lhs + rhs + 1) lhs rhs 0 1 false with
  | .error k => .error k
  | .ok (x, y, t0, t1, sw) =>
    if y = 0 then .ok (x, t0, !sw)                    -- sign: Positive if swapped else Negative
    else
      let xw := x % y                                   -- div_by_word_in_place: x := x / y, remainder x_word
      let t0 := t0 + x / y * t1                         -- add_signed_mul(t0, +, x, t1)
      match xgcdPrim xw y with
      | .error k => .error k
      | .ok (g, cx, cy) =>
        let sw := sw != (decide (cx < 0) || (decide (cx = 0) && decide (cy > 0)))
        .ok (g, cx.natAbs * t0 + cy.natAbs * t1, !sw)

/-- the Lehmer kernel as a total function (it never fails, `Proofs/NT/LehmerExt`) -/
def lehmerExtKernel (W lhs rhs : Nat) : Nat × Nat × Bool :=
  match lehmerExt W lhs rhs with
  | .ok v => v
  | .error _ => (0, 0, false)

/-- `impl_ibig_gcd` (IBig and the mixed UBig/IBig forms): the signs are dropped -/
def gcdInt (W : Nat) (a b : Int) : Except PanicKind Nat := gcdReprM W a.natAbs b.natAbs

end Dashu.Model.NT
