import Dashu.Model.NT.Gcd
/-
  C12 — value-level mirror of `lehmer::gcd_in_place` (`integer/src/gcd/lehmer.rs`): alignment of the
  leading words (`highest_word_normalized`, `highest_dword_normalized`), `lehmer_guess(_dword)`,
  Euclidean fallback, `lehmer_step`, the final word / double-word gcd.

  A step whose result would be negative (the code's `debug_assert`s on the carries) is reported as
  an error: the soundness theorem (`Proofs/NT/Lehmer`) says that whatever the guesses are, a
  returned value is the gcd.  Core Lean only.
-/
namespace Dashu.Model.NT
open Dashu.Model

/-- `highest_word_normalized(x, y)` for `x.len() ≥ y.len() ≥ …`: the leading `W` bits of `x` and
    the bits of `y` at the same positions -/
def highestWordNormalized (W x y : Nat) : Nat × Nat :=
  let lx := wordLen W x
  let ly := wordLen W y
  let xhi2 := x / 2 ^ (W * (lx - 2))                          -- highest_dword(x)
  let yhi2 := match lx - ly with
    | 0 => y / 2 ^ (W * (ly - 2))                             -- highest_dword(y)
    | 1 => y / 2 ^ (W * (ly - 1))                             -- extend_word(y.last())
    | _ => 0
  let shift := 2 * W - bitLen xhi2                            -- x_hi2.leading_zeros()
  ((xhi2 * 2 ^ shift) / 2 ^ W % 2 ^ W, (yhi2 * 2 ^ shift) / 2 ^ W % 2 ^ W)

/-- `highest_dword_normalized(x, y)` (`x.len() ≥ 3`): the leading `2W` bits -/
def highestDwordNormalized (W x y : Nat) : Nat × Nat :=
  let lx := wordLen W x
  let ly := wordLen W y
  let x0 := x / 2 ^ (W * (lx - 1))                            -- top word
  let x12 := x / 2 ^ (W * (lx - 3)) % 2 ^ (2 * W)             -- highest_dword(x_lo)
  let (y0, y12) : Nat × Nat := match lx - ly with
    | 0 => (y / 2 ^ (W * (ly - 1)), y / 2 ^ (W * (ly - 3)) % 2 ^ (2 * W))
    | 1 => (0, y / 2 ^ (W * (ly - 2)))
    | 2 => (0, y / 2 ^ (W * (ly - 1)))
    | _ => (0, 0)
  let shift := W - bitLen x0                                  -- x0.leading_zeros()
  ((x0 * 2 ^ (shift + W) + x12 / 2 ^ (W - shift)) % 2 ^ (2 * W),
   (y0 * 2 ^ (shift + W) + y12 / 2 ^ (W - shift)) % 2 ^ (2 * W))

/-- `MIN_DWORD_GUESS_LEN` -/
def minDwordGuessLen : Nat := 300

/-- the cofactors the code would use for `(x, y)` -/
def lehmerCofactors (W x y : Nat) : Nat × Nat × Nat × Nat :=
  let lim := 2 ^ (W - 1) - 1                                  -- SignedWord::MAX
  if wordLen W x < minDwordGuessLen then
    let (xh, yh) := highestWordNormalized W x y
    lehmerGuess lim (W + 2) xh yh 1 0 0 1
  else
    let (xh, yh) := highestDwordNormalized W x y
    lehmerGuess lim (2 * W + 2) xh yh 1 0 0 1

/-- main loop of `gcd_in_place` on values, `x ≥ y` -/
def lehmerGcdLoop (W : Nat) : Nat → Nat → Nat → Except PanicKind Nat
  | 0, _, _ => .error (.undocumented "model: lehmer loop out of fuel")
  | fuel + 1, x, y =>
    if wordLen W y > 2 then
      let (a, b, c, d) := lehmerCofactors W x y
      if b = 0 then
        -- the guess failed: Euclidean step (x, y) = (y, x % y)
        lehmerGcdLoop W fuel y (x % y)
      else
        let x' : Int := (a : Int) * x - (b : Int) * y
        let y' : Int := (d : Int) * y - (c : Int) * x
        if x' < 0 ∨ y' < 0 then .error (.undocumented "lehmer.rs lehmer_step: negative result (debug_assert on the carry)")
        else if x'.toNat ≤ y'.toNat then lehmerGcdLoop W fuel y'.toNat x'.toNat
        else lehmerGcdLoop W fuel x'.toNat y'.toNat
    else if y = 0 then .ok x
    else gcdPrim (x % y) y                                    -- rem_by_word / rem_by_dword, then the primitive gcd

/-- `gcd::gcd_in_place(lhs, rhs)` for `lhs > rhs` (both multi-word) -/
def lehmerGcd (W lhs rhs : Nat) : Except PanicKind Nat :=
  lehmerGcdLoop W (2 * W * wordLen W lhs + 64) lhs rhs

end Dashu.Model.NT
