import Dashu.Model.NT.LehmerStepWords
/-
  C12 (Round 6): `lehmer::lehmer_step` in full at the word level: the zip loop (`lehmerStepWords`) and the fix-up of
  the top word of `x` when the loop leaves a carry.  Core Lean only.
-/
namespace Dashu.Model.NT
open Dashu.Model

/-- `lehmer_step(x, y, a, b, c, d)`: new `(x, y)`; `none` where a debug build panics (a `debug_assert_eq!` fails,
    signed double-word overflow, `x.last_mut().unwrap()` on an empty slice) -/
def lehmerStepFull (W a b c d : Nat) (x y : List Nat) : Option (List Nat × List Nat) :=
  match lehmerStepWords W a b c d x y 0 0 with
  | none => none
  | some (x', y', cx, cy) =>
    if cx ≠ 0 then
      match x'.getLast? with
      | none => none
      | some xt =>
        if cy ≠ (c : Int) * xt then none                      -- `debug_assert_eq!(y_carry, c * x_top)`
        else
          let v : Int := (a : Int) * xt + cx
          if -(2 ^ (2 * W - 1) : Int) ≤ v ∧ v < 2 ^ (2 * W - 1) then
            if v / 2 ^ W ≠ 0 then none                        -- `debug_assert_eq!(cx, 0)`
            else some (x'.dropLast ++ [(v % 2 ^ W).toNat], y')
          else none
    else some (x', y')

end Dashu.Model.NT
