import Dashu.Model.NT.ModPowK
/-
  C13 — branch annotations for the buffer-level mirrors (not compared; histogram in the evidence file): which
  arm of `productLow` (C01's multiplication) and of `div_rem_in_place` (C02's division) a multi-word case takes.
-/
namespace Dashu.Model.NT
open Dashu.Model

/-- multiplication arm of `productLow` -/
def productArm (W : Nat) (sq : Bool) (a b : Nat) : String :=
  let na := wordLen W a
  let nb := wordLen W b
  if sq then
    if na = 1 then "sq1" else if na ≤ sqrMaxLenSimple then "sqr.simple"
    else if na ≤ Dashu.Gen.mul_THRESHOLD_KARATSUBA then "sqr.karatsuba" else "sqr.toom3"
  else if na = 1 ∧ nb = 1 then "mul11"
  else
    let lo := min na nb
    let hi := max na nb
    (if lo ≤ Dashu.Gen.mul_THRESHOLD_SIMPLE then "mul.simple" else if lo ≤ Dashu.Gen.mul_THRESHOLD_KARATSUBA then "mul.karatsuba" else "mul.toom3")
      ++ (if lo = 0 then ".empty" else if hi = lo then ".same" else if hi > Dashu.Gen.mul_simple_CHUNK_LEN ∧ lo ≤ Dashu.Gen.mul_THRESHOLD_SIMPLE then ".chunks" else ".uneven")

/-- division arm of `div::div_rem_in_place(lhs, rhs)` by operand lengths -/
def divArm (lhsLen rhsLen : Nat) : String :=
  if rhsLen ≤ Div.thresholdSimple ∨ lhsLen - rhsLen ≤ Div.thresholdSimple then "knuth" else "bz"

/-- annotation of a multi-word `*` / `sqr` -/
def mulArmTag (W : Nat) (r : Ring) (a b : Nat) : String :=
  let na := wordLen W a
  let nb := wordLen W b
  if na ||| nb = 0 then "zero"
  else productArm W (decide (a = b)) a b ++
    (if na + nb > r.n then "." ++ divArm (max r.n (na + nb)) r.n else "")

/-- annotation of a multi-word `reduce` that divides -/
def redArmTag (W : Nat) (r : Ring) (x : Nat) : String :=
  divArm ((natWords W x).length + 1) r.n

end Dashu.Model.NT
