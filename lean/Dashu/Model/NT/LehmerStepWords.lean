import Dashu.Model.Int.Word
/-
  C12 (Round 6): the `zip` loop of `lehmer::lehmer_step` at the word level (integer/src/gcd/lehmer.rs):
  `(x, y) = (a·x − b·y, d·y − c·x)` in one pass with two SIGNED double-word accumulations and signed carry words.
  Core Lean only.
-/
namespace Dashu.Model.NT
open Dashu.Model

/-- the `for (x_i, y_i) in x.iter_mut().zip(y.iter_mut())` loop of `lehmer_step`: new `x`, `y` (a top word of `x`
    beyond `y.len()` is left to the fix-up after the loop) and the signed carries; `none` if a `SignedDoubleWord`
    accumulation leaves `[−2^(2W−1), 2^(2W−1))`.  `split_signed_dword(v) = (v mod 2^W, v >> W)` (arithmetic shift:
    `Int` `/` and `%` with a positive divisor are floor division and non-negative remainder) -/
def lehmerStepWords (W a b c d : Nat) : List Nat → List Nat → Int → Int → Option (List Nat × List Nat × Int × Int)
  | x :: xs, y :: ys, cx, cy =>
    let vx : Int := (a : Int) * x - (b : Int) * y + cx
    let vy : Int := (d : Int) * y - (c : Int) * x + cy
    if -(2 ^ (2 * W - 1) : Int) ≤ vx ∧ vx < 2 ^ (2 * W - 1) ∧ -(2 ^ (2 * W - 1) : Int) ≤ vy ∧ vy < 2 ^ (2 * W - 1) then
      match lehmerStepWords W a b c d xs ys (vx / 2 ^ W) (vy / 2 ^ W) with
      | some (xs', ys', cx', cy') => some ((vx % 2 ^ W).toNat :: xs', (vy % 2 ^ W).toNat :: ys', cx', cy')
      | none => none
    else none
  | xs, ys, cx, cy => some (xs, ys, cx, cy)

end Dashu.Model.NT
