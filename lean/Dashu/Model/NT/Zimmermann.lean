import Dashu.Model.NT.Root
/-
  C12 — `integer/src/root.rs`: `sqrt_rem` (Zimmermann's Karatsuba square root) and `sqrt_rem_42`,
  mirrored step by step.

  Value-level model (as in `Model/NT/Modular.lean`): a slice of `k` words is the natural number it
  denotes; every in-place primitive the code calls on a slice (`sub_in_place`, `add_in_place`,
  `add_word_in_place`, `add_mul_word_in_place`, `sub_one_in_place`) is its value modulo `2^(W·k)`
  together with the carry / borrow it returns (`/ 2^(W·k)` resp. a comparison), the `i8` accumulator
  `c` is an `Int`.  Kernels of other properties enter at their value: `div::div_rem_in_place`
  (`/`, `%`; C02) and `sqr::sqr` (`*`; C01).  The double-word square root `DoubleWord::sqrt_rem` that
  `sqrt_rem_42` starts from is the parameter `prim` (mirrored in `Model/NT/PrimRoot.lean`).
  Core Lean only.
-/
namespace Dashu.Model.NT
open Dashu.Model

/-- `root::sqrt_rem_42(b, a)`: `a` = 4 words (normalised), `b` = 2 words.
    Returns `(b, a[..2], c > 0)`. -/
def sqrtRem42 (W : Nat) (prim : Nat → Nat × Nat) (a : Nat) : Nat × Nat × Bool :=
  let B := 2 ^ W
  let a0 := a % B
  let a1 := a / B % B
  -- step1: `let (s1, r1) = highest_dword(a).sqrt_rem(); let s1 = s1 as Word`
  let (s1, r1) := prim (a / (B * B))
  let s1 := s1 % B
  -- step2: `r0 = (r1*B + b1) / 2` assembled from words
  let r1lo := r1 % B
  let r1hi := r1 / B % B
  let r0hi := (r1hi * 2 ^ (W - 1)) % B ||| r1lo / 2
  let r0lo := (r1lo * 2 ^ (W - 1)) % B ||| a1 / 2
  let r0 := r0hi * B + r0lo                                   -- double_word(r0_lo, r0_hi)
  let q := r0 / s1                                            -- DoubleWord::div_rem
  let u := r0 % s1
  -- `if q >> WORD_BITS > 0 { q -= 1; u += s1 }`
  let (q, u) := if q / B > 0 then (q - 1, (u + s1) % (B * B)) else (q, u)
  -- `u = u << 1 | (a[1] & 1)`
  let u := (u * 2) % (B * B) ||| (a1 % 2)
  let q := q % B                                              -- `q as Word`
  let ulo := u % B
  let uhi := u / B
  let s := s1 * B + q                                         -- double_word(q, s1)
  let q2 := q * q
  -- `double_word(a[0], u_lo).overflowing_sub(q2)`
  let x := ulo * B + a0
  let borrow := decide (x < q2)
  let r := (x + B * B - q2) % (B * B)
  let c : Int := (uhi : Int) - (if borrow then 1 else 0)
  -- step3
  if c < 0 then
    let t1 := r + s                                           -- r.overflowing_add(s)
    let s := s - 1
    let t2 := t1 % (B * B) + s                                -- new_r.overflowing_add(s)
    let c := c + (t1 / (B * B) : Nat) + (t2 / (B * B) : Nat)
    (s, t2 % (B * B), decide (c > 0))
  else
    (s, r, decide (c > 0))

/-- step 1½–2 of `root::sqrt_rem` (between the recursive call and the squaring), on values:
    `B = 2^(W·split)`, `Bh = B/2`, `Mh = 2^(W·h)`; inputs `s1 = b[split..]`, `r1 = a[2·split..split+n]` with
    its carry `r1_top`, `b1 = a[split..2·split]`.  Returns `(b[..split], q_top, a[split..n], c)`. -/
def kDiv (B Bh Mh s1 r1 : Nat) (r1top : Bool) (b1 : Nat) : Nat × Bool × Nat × Int :=
  -- `if r1_top { sub_in_place(&mut a[2 * split..split + n], &b[split..]) }`
  let r1 := if r1top then (r1 + Mh - s1) % Mh else r1
  -- `div_rem_in_place(&mut a[split..split + n], &b[split..])`: [remainder, quotient], carry = top quotient bit
  let d := r1 * B + b1
  let Q := d / s1
  let u := d % s1
  let carry := decide (Q / B > 0)
  let Qlo := Q % B                         -- `b[..split].copy_from_slice(&a_hi[..split])`
  -- `shr_in_place_with_carry(&mut b[..split], 1, ((r1_top ^ carry) as Word) << (WORD_BITS - 1))`
  let qlo := Qlo / 2 ||| (if r1top != carry then Bh else 0)
  let qtop := r1top && carry
  -- `if a_hi[0] & 1 != 0 { c = add_in_place(&mut a_lo[split..], &b[split..]) }`
  if Qlo % 2 = 1 then (qlo, qtop, (u + s1) % Mh, (((u + s1) / Mh : Nat) : Int)) else (qlo, qtop, u, 0)

/-- the squaring and subtraction of `root::sqrt_rem`: `a_lo = [b0, u]` (`n` words, `Mn = 2^(W·n)`),
    `a_hi = q²` with the `q_top` flag placed at word `2·split` (`odd`: `2·split < n`) or charged to `c`.
    Returns `(a_lo, c)`. -/
def kSub (B Mn : Nat) (odd : Bool) (qlo : Nat) (qtop : Bool) (u : Nat) (c : Int) (b0 : Nat) : Nat × Int :=
  let alo := u * B + b0
  -- `a_hi.fill(0); if !q_top { sqr(...) }`
  let sq := if qtop then 0 else qlo * qlo
  -- `if 2 * split < n { a_hi[2 * split] = q_top } else { c -= q_top }`
  let ahi := if odd then sq + (if qtop then B * B else 0) else sq
  let c := if odd then c else c - (if qtop then 1 else 0)
  -- `c -= sub_in_place(a_lo, a_hi)`
  ((alo + Mn - ahi) % Mn, c - (if alo < ahi then 1 else 0))

/-- step 3 of `root::sqrt_rem`: `if c < 0 { r += 2*s - 1; s -= 1 }` with `q_top` applied to `s` first.
    Returns `(b, a_lo, c > 0)`. -/
def kFix (B Mh Mn s1 qlo : Nat) (qtop : Bool) (alo : Nat) (c : Int) : Nat × Nat × Bool :=
  if c < 0 then
    -- `add_word_in_place(&mut b[split..], q_top)`
    let t := s1 + (if qtop then 1 else 0)
    let overflow := t / Mh
    let b := (t % Mh) * B + qlo
    -- `c += add_mul_word_in_place(a_lo, 2, b) + 2 * overflow`
    let t2 := alo + 2 * b
    let c := c + ((t2 / Mn : Nat) : Int) + 2 * ((overflow : Nat) : Int)
    let alo := t2 % Mn
    -- `c -= sub_one_in_place(a_lo)`
    let c := c - (if alo = 0 then 1 else 0)
    let alo := (alo + Mn - 1) % Mn
    -- `sub_one_in_place(b)`
    let b := (b + Mn - 1) % Mn
    (b, alo, decide (c > 0))
  else
    (s1 * B + qlo, alo, decide (c > 0))

/-- one level of `root::sqrt_rem` after the recursive call returned `(s1, r1, r1_top)` -/
def kStep (B Bh Mh Mn : Nat) (odd : Bool) (s1 r1 : Nat) (r1top : Bool) (b1 b0 : Nat) : Nat × Nat × Bool :=
  let (qlo, qtop, u, c) := kDiv B Bh Mh s1 r1 r1top b1
  let (alo, c) := kSub B Mn odd qlo qtop u c b0
  kFix B Mh Mn s1 qlo qtop alo c

/-- `root::sqrt_rem(b, a, memory)` for `b.len() = n ≥ 2`, `a.len() = 2n` (normalised).
    Returns `(b, a[..n], carry)`.  `fuel` bounds the recursion depth (`n` suffices: every call
    recurses on `n − n/2 < n` words). -/
def sqrtRemRec (W : Nat) (prim : Nat → Nat × Nat) : Nat → Nat → Nat → Nat × Nat × Bool
  | 0, _, a => (iroot a 2, a - iroot a 2 * iroot a 2, false)           -- not reached (fuel ≥ n)
  | fuel + 1, n, a =>
    -- `if a.len() == 4 { return sqrt_rem_42(b, a) }`
    if n ≤ 2 then sqrtRem42 W prim a else
    let split := n / 2                      -- the length of b0
    let h := n - split
    let B := 2 ^ (W * split)
    -- step1: `sqrt_rem(&mut b[split..], &mut a[2 * split..])`
    let (s1, r1, r1top) := sqrtRemRec W prim fuel h (a / (B * B))
    kStep B (2 ^ (W * split - 1)) (2 ^ (W * h)) (2 ^ (W * n)) (decide (2 * split < n)) s1 r1 r1top (a / B % B) (a % B)

/-- the kernel as `sqrt_rem_large` uses it: `s = out[..]`, `r = buffer[..n] + r_top << n*WORD_BITS`
    on the shifted value `a` of `2n` words -/
def sqrtRemKernel (W : Nat) (prim : Nat → Nat × Nat) (a : Nat) : Nat × Nat :=
  let n := (wordLen W a + 1) / 2
  let (s, r, top) := sqrtRemRec W prim n n a
  (s, r + (if top then 2 ^ (W * n) else 0))

/-- `TypedReprRef::sqrt_rem` with every kernel mirrored: `primW` / `primD` are `Word::sqrt_rem` /
    `DoubleWord::sqrt_rem` of dashu-base (`shrink_dword` decides), above two words `sqrt_rem_large` over
    the mirrored `root::sqrt_rem` -/
def sqrtRemReprM (W : Nat) (primW primD : Nat → Nat × Nat) (fixed : Bool) (x : Nat) : Nat × Nat :=
  if x < 2 ^ W then primW x
  else if x < 2 ^ (2 * W) then primD x
  else sqrtRemLarge W (sqrtRemKernel W primD) fixed x

/-- `TypedReprRef::sqrt` -/
def sqrtReprM (W : Nat) (primW primD : Nat → Nat × Nat) (x : Nat) : Nat := (sqrtRemReprM W primW primD true x).1

/-- `TypedReprRef::nth_root` with the mirrored square root in the `n = 2` arm -/
def nthRootReprM (W : Nat) (primW primD : Nat → Nat × Nat) (fixed : Bool) (x n : Nat) : Except PanicKind Nat :=
  match n with
  | 2 => .ok (sqrtReprM W primW primD x)
  | _ => nthRootRepr W fixed x n

/-- `IBig::nth_root` -/
def nthRootIntM (W : Nat) (primW primD : Nat → Nat × Nat) (fixed : Bool) (x : Int) (n : Nat) : Except PanicKind Int :=
  if n = 0 then .error .rootZeroth
  else if x < 0 ∧ n % 2 = 0 then .error .rootNegative
  else match nthRootReprM W primW primD fixed x.natAbs n with
    | .error k => .error k
    | .ok r => .ok (if x < 0 then -(r : Int) else r)

/-- `SquareRoot for IBig` -/
def sqrtIntM (W : Nat) (primW primD : Nat → Nat × Nat) (x : Int) : Except PanicKind Nat :=
  if x < 0 then .error .rootNegative else .ok (sqrtReprM W primW primD x.natAbs)

end Dashu.Model.NT
