import Dashu.Model.NT.ModLargeK
/-
  C13 — `integer/src/modular/add.rs` of the multi-word ring on WORD BUFFERS (round 6): where
  `Model/NT/Modular.lean` says `a + b`, `s - M`, `M - x` (`addRaw`, `subRaw`, `negRaw`), the functions here
  run the word loops the code calls on the `n`-word residue buffers:

  * `negate_in_place`: `raw.0.iter().all(|w| *w == 0)`, `add::sub_same_len_in_place_swap(&normalized_divisor, raw)`,
    `debug_assert!(!overflow)`;
  * `add_in_place`: `add::add_same_len_in_place`, `overflow || cmp::cmp_same_len(lhs, modulus).is_ge()`,
    `add::sub_same_len_in_place`, `debug_assert_eq!(overflow, overflow2)`;
  * `dbl_in_place`: `shift::shl_in_place(raw, 1) > 0`, the same test and subtraction;
  * `sub_in_place` / `sub_in_place_swap`: `sub_same_len_in_place(_swap)`, on borrow
    `add_same_len_in_place(.., modulus)` with `debug_assert!(overflow2)`.

  The word loops are C01's mirrored `addSameLen` / `subSameLen` / `subSameLenSwap` (`Model/Int/Word.lean`),
  C02's mirrored `Div.shlInPlace` and `Div.cmpSameLen` (`Model/Int/Div.lean`).  Every `debug_assert` is an
  error value.  `Proofs/NT/ModAddK.lean` proves (by C01's `addSameLen_spec` / `subSameLen_spec`, imported) that on
  valid residues no assertion fails and the buffers hold `addRaw` / `subRaw` / `negRaw`.  The driver executes
  `addRawKL`, `subRawKL`, `subSwapRawKL`, `negRawKL`, `dblRawKL`.  Core Lean only.
-/
namespace Dashu.Model.NT
open Dashu.Model

/-- the `n`-word buffer of a `ReducedLarge` (`ReducedLarge(Box<[Word]>)`, `len == modulus.len()`) -/
def Ring.rawWords (W : Nat) (r : Ring) (x : Nat) : List Nat := wordsPad W r.n x

/-- the body of `negate_in_place`'s `if`: `overflow = sub_same_len_in_place_swap(&ring.normalized_divisor, &mut raw.0); debug_assert!(!overflow)` -/
def subFromModulusL (W : Nat) (nd raw : List Nat) : Except PanicKind (List Nat) :=
  let (out, overflow) := subSameLenSwap W nd raw 0
  if overflow ≠ 0 then .error (Div.assertErr "negate_in_place: debug_assert!(!overflow)")
  else .ok out

/-- `negate_in_place(ring, raw)` -/
def negateInPlaceL (W : Nat) (nd raw : List Nat) : Except PanicKind (List Nat) :=
  if raw.all (fun w => w == 0) then .ok raw                              -- !raw.0.iter().all(|w| *w == 0)
  else subFromModulusL W nd raw

/-- the body of the `if` of `add_in_place` / `dbl_in_place`:
    `overflow2 = sub_same_len_in_place(lhs, modulus); debug_assert_eq!(overflow, overflow2)` -/
def subModulusL (W : Nat) (nd l1 : List Nat) (overflow : Bool) : Except PanicKind (List Nat) :=
  let (l2, overflow2) := subSameLen W l1 nd 0
  if overflow != decide (overflow2 ≠ 0) then .error (Div.assertErr "add_in_place: debug_assert_eq!(overflow, overflow2)")
  else .ok l2

/-- the tail shared by `add_in_place` and `dbl_in_place`: `if overflow || cmp_same_len(lhs, modulus).is_ge() { … }` -/
def condSubL (W : Nat) (nd l1 : List Nat) (overflow : Bool) : Except PanicKind (List Nat) :=
  if overflow ∨ Div.cmpSameLen l1 nd ≠ .lt then subModulusL W nd l1 overflow else .ok l1

/-- `add_in_place(ring, lhs, rhs)` -/
def addInPlaceL (W : Nat) (nd lhs rhs : List Nat) : Except PanicKind (List Nat) :=
  let (l1, overflow) := addSameLen W lhs rhs 0                           -- add_same_len_in_place(&mut lhs.0, &rhs.0)
  condSubL W nd l1 (overflow ≠ 0)

/-- `dbl_in_place(ring, raw)` -/
def dblInPlaceL (W : Nat) (nd raw : List Nat) : Except PanicKind (List Nat) :=
  let (l1, carry) := Div.shlInPlace W raw 1                              -- shift::shl_in_place(&mut raw.0, 1) > 0
  condSubL W nd l1 (carry > 0)

/-- the body of the `if` of `sub_in_place` / `sub_in_place_swap`:
    `overflow2 = add_same_len_in_place(lhs, modulus); debug_assert!(overflow2)` -/
def addModulusL (W : Nat) (nd l1 : List Nat) : Except PanicKind (List Nat) :=
  let (l2, overflow2) := addSameLen W l1 nd 0
  if overflow2 = 0 then .error (Div.assertErr "sub_in_place: debug_assert!(overflow2)")
  else .ok l2

/-- the tail shared by `sub_in_place` and `sub_in_place_swap`: `if overflow { … }` (`overflow` = the borrow, 0 / 1) -/
def condAddL (W : Nat) (nd l1 : List Nat) (overflow : Nat) : Except PanicKind (List Nat) :=
  if overflow ≠ 0 then addModulusL W nd l1 else .ok l1

/-- `sub_in_place(ring, lhs, rhs)`: `lhs -= rhs` -/
def subInPlaceL (W : Nat) (nd lhs rhs : List Nat) : Except PanicKind (List Nat) :=
  let (l1, overflow) := subSameLen W lhs rhs 0
  condAddL W nd l1 overflow

/-- `sub_in_place_swap(ring, lhs, rhs)`: `rhs = lhs - rhs` (`Sub<Reduced> for &Reduced`) -/
def subInPlaceSwapL (W : Nat) (nd lhs rhs : List Nat) : Except PanicKind (List Nat) :=
  let (l1, overflow) := subSameLenSwap W lhs rhs 0
  condAddL W nd l1 overflow

/-- value of a buffer result; a failed `debug_assert!` surfaces as `r.M` (not `Valid`, see `unwrapRaw`) -/
def unwrapWords (W : Nat) (r : Ring) (x : Except PanicKind (List Nat)) : Nat :=
  unwrapRaw r (x.map (val W))

/-- `AddAssign<&Reduced> for Reduced`: `Vanilla::add_in_place` (single / double word) resp. `add_in_place` on buffers -/
def addRawKL (W : Nat) (r : Ring) (a b : Nat) : Nat :=
  match r.kind with
  | .large => unwrapWords W r (addInPlaceL W (r.ndWords W) (r.rawWords W a) (r.rawWords W b))
  | _ => addRaw r a b

/-- `SubAssign<&Reduced> for Reduced` -/
def subRawKL (W : Nat) (r : Ring) (a b : Nat) : Nat :=
  match r.kind with
  | .large => unwrapWords W r (subInPlaceL W (r.ndWords W) (r.rawWords W a) (r.rawWords W b))
  | _ => subRaw r a b

/-- `Sub<Reduced> for &Reduced` (the result replaces the right operand) -/
def subSwapRawKL (W : Nat) (r : Ring) (a b : Nat) : Nat :=
  match r.kind with
  | .large => unwrapWords W r (subInPlaceSwapL W (r.ndWords W) (r.rawWords W a) (r.rawWords W b))
  | _ => subRaw r a b

/-- `Neg for Reduced` -/
def negRawKL (W : Nat) (r : Ring) (a : Nat) : Nat :=
  match r.kind with
  | .large => unwrapWords W r (negateInPlaceL W (r.ndWords W) (r.rawWords W a))
  | _ => negRaw r a

/-- `Reduced::dbl` -/
def dblRawKL (W : Nat) (r : Ring) (a : Nat) : Nat :=
  match r.kind with
  | .large => unwrapWords W r (dblInPlaceL W (r.ndWords W) (r.rawWords W a))
  | _ => addRaw r a a

def Elem.addKL (W : Nat) (a b : Elem) : Except PanicKind Elem :=
  if sameRing a b then .ok ⟨a.ring, addRawKL W a.ring a.raw b.raw⟩ else .error .differentRings

def Elem.subKL (W : Nat) (a b : Elem) : Except PanicKind Elem :=
  if sameRing a b then .ok ⟨a.ring, subRawKL W a.ring a.raw b.raw⟩ else .error .differentRings

/-- `&a - b` by value of `b`: `sub_in_place_swap` -/
def Elem.subSwapKL (W : Nat) (a b : Elem) : Except PanicKind Elem :=
  if sameRing a b then .ok ⟨a.ring, subSwapRawKL W a.ring a.raw b.raw⟩ else .error .differentRings

/-- both subtraction bodies of add.rs at once: `SubAssign<&Reduced>` (`sub_in_place`, behind `a - b`, `a - &b`, `&a - &b`,
    `a -= b`) and `Sub<Reduced> for &Reduced` (`sub_in_place_swap`); the harness prints one value only when all call
    forms agree, so the driver does the same -/
def Elem.subBothKL (W : Nat) (a b : Elem) : Except PanicKind Elem :=
  match a.subKL W b, a.subSwapKL W b with
  | .ok x, .ok y => if x.raw = y.raw then .ok x else .error (Div.assertErr "sub_in_place and sub_in_place_swap differ")
  | .error k, _ => .error k
  | _, .error k => .error k

def Elem.negKL (W : Nat) (a : Elem) : Elem := ⟨a.ring, negRawKL W a.ring a.raw⟩

def Elem.dblKL (W : Nat) (a : Elem) : Elem := ⟨a.ring, dblRawKL W a.ring a.raw⟩

/-- `Reduced::dbl` (`dbl_in_place`) together with `&x + &x` (`add_in_place` on equal operands), which the harness also
    evaluates for `m.dbl`; a difference or a failed assertion surfaces as the invalid raw value `M` -/
def Elem.dblBothKL (W : Nat) (a : Elem) : Elem :=
  match a.addKL W a with
  | .ok s => if s.raw = (a.dblKL W).raw then a.dblKL W else ⟨a.ring, a.ring.M⟩
  | .error _ => ⟨a.ring, a.ring.M⟩

/-- `IntoRing for IBig` with the negation on buffers -/
def reduceIntKA (W : Nat) (r : Ring) (x : Int) : Elem :=
  let e := rawOfNatKL W r x.natAbs
  if x < 0 then ⟨r, negRawKL W r e⟩ else ⟨r, e⟩

/-- annotation (not compared; histogram in the evidence file): the arm of the buffer-level `add_in_place` / `dbl_in_place`
    (`o = "add"`, `"dbl"` with `b = a`), `sub_in_place` (`"sub"`), `negate_in_place` (`"neg"`) a case takes -/
def addArmTag (W : Nat) (r : Ring) (o : String) (a b : Nat) : String :=
  if r.kind ≠ .large then ""
  else if o = "add" ∨ o = "dbl" then
    if a + b ≥ 2 ^ (W * r.n) then ".carry"             -- overflow out of the top word (only with shift = 0)
    else if a + b = r.M then ".eqM" else if a + b > r.M then ".ge" else ".lt"
  else if o = "sub" then
    if a = b then ".eq" else if a > b then ".noborrow" else ".borrow"
  else
    if a = 0 then ".zero" else if a % 2 ^ W = 0 then ".lowzero" else ".nonzero"

end Dashu.Model.NT
