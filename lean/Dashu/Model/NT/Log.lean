import Dashu.Model.NT.Gcd
/-
  C12 — integer logarithm, `remove`, and the log2 estimators: model of `integer/src/log.rs`
  (`TypedReprRef::log`, `log_dword`, `log_word_base`, `log_large`), `integer/src/remove.rs` and the
  table estimator of `base/src/math/log.rs` (`log2_fp8`, `ceil_log2_fp8`).

  The first guess `est` of every `log_*` comes from f32 log2 estimates in the code; here it is a
  **parameter** (DESIGN §3 "estimate oracles"): the theorems hold for every `est` satisfying the
  hypothesis the code `assert!`s (`base^est ≤ target`).  Core Lean only.
-/
namespace Dashu.Model.NT
open Dashu.Model

/-- `log_dword`'s / `log_large`'s correction loop: multiply by the base while the next power still
    fits (`next_pow ≤ target`), stop at the first power that is `≥ target`.
    `ovf` is the value at which `checked_mul` overflows (`2^(2W)` for `log_dword`, none = 0). -/
def logUpLoop (target base ovf : Nat) : Nat → Nat → Nat → Nat × Nat
  | 0, est, estPow => (est, estPow)
  | fuel + 1, est, estPow =>
    let next := estPow * base
    if ovf ≠ 0 ∧ next ≥ ovf then (est, estPow)          -- `checked_mul` returned None
    else if next < target then logUpLoop target base ovf fuel (est + 1) next
    else if next = target then (est + 1, next)
    else (est, estPow)

/-- `log_dword(target, base)` with the estimate as a parameter -/
def logDword (W : Nat) (target base est : Nat) : Except PanicKind (Nat × Nat) :=
  if target = 0 then .error .logInvalid
  else if target = 1 then .ok (0, 1)
  else if target < base then .ok (0, 1)
  else if target = base then .ok (1, base)
  else
    let estPow := base ^ est
    if estPow > target then .error (.undocumented "log.rs assert!(est_pow <= target)")
    else .ok (logUpLoop target base (2 ^ (2 * W)) (bitLen target + 1) est estPow)

/-- first loop of `log_word_base`: proceed by whole word-powers `wbase = base^wexp` while the
    estimate has fewer words than the target (with the one-word-shorter overestimate test) -/
def logWordStep (W : Nat) (target wbase wexp : Nat) : Nat → Nat → Nat → Nat × Nat
  | 0, est, estPow => (est, estPow)
  | fuel + 1, est, estPow =>
    if wordLen W estPow < wordLen W target then
      let stop :=
        if wordLen W estPow = wordLen W target - 1 then
          let targetHi := target / 2 ^ (W * (wordLen W target - 2))           -- highest_dword
          let top := estPow / 2 ^ (W * (wordLen W estPow - 1))                -- est_pow.last()
          decide ((top + 1) * wbase > targetHi)
        else false
      if stop then (est, estPow)
      else logWordStep W target wbase wexp fuel (est + wexp) (estPow * wbase)
    else (est, estPow)

/-- second loop of `log_word_base`: by single factors of the base, then undo one overshoot -/
def logWordFix (target base : Nat) : Nat → Nat → Nat → Nat × Nat
  | 0, est, estPow => (est, estPow)
  | fuel + 1, est, estPow =>
    if estPow < target then logWordFix target base fuel (est + 1) (estPow * base)
    else if estPow = target then (est, estPow)
    else (est - 1, estPow / base)

/-- `max_exp_in_word(base)`: the largest power of `base` that fits a word -/
def maxExpInWord (W base : Nat) : Nat × Nat :=
  let rec go (fuel e p : Nat) : Nat × Nat :=
    match fuel with
    | 0 => (e, p)
    | fuel + 1 => if p * base < 2 ^ W then go fuel (e + 1) (p * base) else (e, p)
  go W 1 base

/-- `log_word_base(target, base)` with the estimate as a parameter -/
def logWordBase (W : Nat) (target base est : Nat) : Except PanicKind (Nat × Nat) :=
  let (wexp, wbase) := maxExpInWord W base
  let estPow := base ^ est
  if estPow > target then .error (.undocumented "log.rs assert!(cmp_in_place(&est_pow, target).is_le())")
  else
    let (est, estPow) := logWordStep W target wbase wexp (wordLen W target + 1) est estPow
    .ok (logWordFix target base (bitLen target + 2) est estPow)

/-- `log_large(target, base)` with the estimate as a parameter (`est.max(1)` applied) -/
def logLarge (target base est : Nat) : Except PanicKind (Nat × Nat) :=
  let est := max est 1
  let estPow := base ^ est
  if estPow > target then .error (.undocumented "log.rs assert!(cmp_in_place(est_pow, target).is_le())")
  else .ok (logUpLoop target base 0 (bitLen target + 1) est estPow)

/-- `TypedReprRef::log(self, base)`; `estF` supplies the first guess of the three `log_*` helpers.
    `fixed = true` mirrors the current code: a zero target panics with `LogInvalid` on every path
    (since /repo f6db5f8); `fixed = false` is the code before, where the power-of-two shortcuts computed
    `bit_len() − 1` on zero (overflow) and a multi-word base returned 0 (regression theorem). -/
def logRepr (W : Nat) (fixed : Bool) (estF : Nat → Nat → Nat) (x base : Nat) : Except PanicKind (Nat × Nat) :=
  if fixed ∧ x = 0 ∧ base ≥ 2 then .error .logInvalid
  else if base < 2 ^ (2 * W) then
    if base < 2 then .error .logInvalid
    else if base = 2 then
      if x = 0 then .error (.undocumented "log.rs:100 attempt to subtract with overflow")
      else .ok (bitLen x - 1, 2 ^ (bitLen x - 1))
    else if base = 2 ^ (bitLen base - 1) then           -- is_power_of_two
      if x = 0 then .error (.undocumented "log.rs:106 attempt to subtract with overflow")
      else
        let baseBits := bitLen base - 1
        let exp := (bitLen x - 1) / baseBits
        .ok (exp, 2 ^ (exp * baseBits))
    else if x < 2 ^ (2 * W) then logDword W x base (estF x base)
    else if base < 2 ^ W then logWordBase W x base (estF x base)
    else logLarge x base (estF x base)
  else
    if x < 2 ^ (2 * W) then .ok (0, 1)
    else if x < base then .ok (0, 1)
    else if x = base then .ok (1, x)
    else logLarge x base (estF x base)

-- ---------------------------------------------------------------- remove.rs

/-- first stage of `UBig::remove`: divide by `f^2, f^4, f^8, …` while exact.
    `pows` holds the tower with the **highest power first**; returns `(q, exp, pows)`. -/
def removeUp : Nat → Nat → Nat → List Nat → Nat × Nat × List Nat
  | 0, q, exp, pows => (q, exp, pows)
  | fuel + 1, q, exp, pows =>
    match pows with
    | [] => (q, exp, pows)
    | last :: _ =>
      if q % last ≠ 0 then (q, exp, pows)
      else removeUp fuel (q / last) (exp + 2 ^ pows.length) (last * last :: pows)

/-- second stage: from the highest power down, divide whenever exact -/
def removeDown : List Nat → Nat → Nat → Nat × Nat
  | [], q, exp => (q, exp)
  | last :: rest, q, exp =>
    if q % last = 0 then removeDown rest (q / last) (exp + 2 ^ (rest.length + 1))
    else removeDown rest q exp

/-- `UBig::remove(&mut self, factor)`: `none`, or `some (exponent, remaining value)` -/
def removeRepr (x f : Nat) : Option (Nat × Nat) :=
  if x = 0 ∨ f = 0 ∨ f = 1 then none
  else if f = 2 ^ (bitLen f - 1) then                -- is_power_of_two
    let bits := bitLen f - 1
    let exp := trailingZeros x / bits
    some (exp, x / 2 ^ (exp * bits))
  else if x % f ≠ 0 then some (0, x)
  else
    let (q, exp, pows) := removeUp (bitLen x) (x / f) 1 [f * f]
    let (q, exp) := removeDown pows q exp
    if q % f = 0 then some (exp + 1, q / f) else some (exp, q)

-- ---------------------------------------------------------------- base/src/math/log.rs (no_std table)

/-- `LOG2_TAB` (128 bytes, entry `i` = 8-bit fixed-point `log2((128+i)/128)` rounded down), packed
    little-endian into one natural number so that a lookup is a shift and a mask -/
def LOG2_TAB_PACKED : Nat := 0xfefdfbfaf8f7f5f4f2f1efeeecebe9e8e6e5e3e1e0dedddbdad8d6d5d3d1d0cecdcbc9c8c6c4c2c1bfbdbcbab8b6b5b3b1afadacaaa8a6a4a2a19f9d9b99979593918f8d8c8a888684817f7d7b79777573716f6d6a68666462605d5b59575452504d4b494644413f3d3a383533302e2b282623211e1b191613100e0b08050200

/-- `LOG2_TAB[i]` (0 outside the table, which no caller reaches) -/
def log2Tab (i : Nat) : Nat := if i < 128 then (LOG2_TAB_PACKED >>> (8 * i)) % 256 else 0

/-- `log2_fp8(n)` for `0xff < n ≤ 0xffff`: 8-bit fixed-point under-estimate of `log2 n` -/
def log2Fp8 (n : Nat) : Nat :=
  let nbits := bitLen n
  if n < 0x200 then
    let lookup := log2Tab (n / 2 - 0x80)
    let est := lookup + (7 + 1) * 256
    est + (if n < 354 ∧ n % 2 = 1 then 1 else 0)
  else if n < 0x4000 + 0x80 then
    let shift := nbits - 8
    let mask := n / 2 ^ (shift - 2)
    let lookup := log2Tab (mask / 4 - 0x80)
    let est := lookup + (7 + shift) * 256
    est + (if mask % 4 = 3 then 1 else 0)
  else
    let shift := nbits - 8
    let mask := n / 2 ^ (shift - 7)
    let topEst := log2Tab (mask / 128 - 0x80)
    let est := topEst + (7 + shift) * 256
    est + (if mask % 128 ≥ 80 then 1 else 0)

/-- `ceil_log2_fp8(n)` for `0xff < n ≤ 0xffff`, `n` not a power of two: over-estimate -/
def ceilLog2Fp8 (n : Nat) : Nat :=
  let nbits := bitLen n
  if n < 0x80 then
    let shift := 8 - nbits
    log2Tab (n * 2 ^ shift - 0x80) + (7 - shift) * 256 + 1
  else if n < 0x200 then
    let shift := nbits - 8
    let est := log2Tab (n / 2 ^ shift - 0x80) + (7 + shift) * 256 + 1
    if n > 0x100 ∧ n % 2 = 1 then est + 2 else est
  else
    let shift := nbits - 8
    let mask10 := n / 2 ^ (shift - 2)
    let mask8 := mask10 / 4
    if mask8 = 255 then 0x100 + (7 + shift) * 256
    else
      let est := log2Tab (mask8 + 1 - 0x80) + (7 + shift) * 256 + 1
      est - (if mask10 % 4 = 0 then 1 else 0)

end Dashu.Model.NT
