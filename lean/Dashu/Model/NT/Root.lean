import Dashu.Model.NT.Modular
/-
  C12 — integer roots: model of `integer/src/root_ops.rs` (`sqrt`, `sqrt_rem`, `sqrt_rem_large`,
  `nth_root` with its Newton iteration, `cbrt`, `cbrt_rem`, the `IBig` wrappers).

  Frontier kernels (specified, not mirrored): the primitive `sqrt_rem`/`cbrt_rem` of
  `base/src/ring/root.rs` for words and double words, and Zimmermann's Karatsuba square root
  `root::sqrt_rem` on a normalised even-length buffer.  Core Lean only.
-/
namespace Dashu.Model.NT
open Dashu.Model

/-- executable specification of the floor `n`-th root: build the root bit by bit from the top
    (`bits` candidate bits); used for frontier kernels and as the spec side in the driver -/
def irootBits (x n : Nat) : Nat → Nat → Nat
  | 0, s => s
  | i + 1, s => irootBits x n i (if (s + 2 ^ i) ^ n ≤ x then s + 2 ^ i else s)

/-- floor of the `n`-th root for `n ≥ 1` -/
def iroot (x n : Nat) : Nat := irootBits x n (bitLen x / n + 1) 0

/-- frontier: primitive `sqrt_rem` on a word / double word (`base/src/ring/root.rs`) -/
def sqrtRemPrimFrontier (x : Nat) : Nat × Nat := let s := iroot x 2; (s, x - s * s)

/-- frontier: `root::sqrt_rem(out, buffer)` on a normalised `2n`-word value: root and remainder
    (remainder = `buffer[..n] + r_top·2^(W·n)`) -/
def sqrtRemKernelFrontier (a : Nat) : Nat × Nat := let s := iroot a 2; (s, a - s * s)

/-- `sqrt_rem_large(words, root_only)` with the kernel as a parameter.
    `fixed = true` mirrors the current code (remainder shifted by one whole word when
    `shift ≥ WORD_BITS`, since /repo 26bd959); `fixed = false` is the code before that commit
    (`shift > WORD_BITS`: for `shift == WORD_BITS` the remainder was shifted by `shift % WORD_BITS = 0`
    bits) and is kept for the regression theorem. -/
def sqrtRemLarge (W : Nat) (kernel : Nat → Nat × Nat) (fixed : Bool) (x : Nat) : Nat × Nat :=
  let len := wordLen W x
  let lz := W * len - bitLen x                     -- leading zeros of the top word
  let shift := W * (len % 2) + lz / 2 * 2          -- `& !1`
  let a := x * 2 ^ shift                           -- shl_large_ref: even length, top word normalised
  let (s, r) := kernel a
  if shift ≠ 0 then
    -- final r = (r + 2·s·s0 − s0²) / 2^shift with s0 = s mod 2^(shift/2)
    let s0 := s % 2 ^ (shift / 2)
    let r := r + 2 * s0 * s - s0 * s0
    let s := s / 2 ^ (shift / 2)
    let oneWord := if fixed then decide (shift ≥ W) else decide (shift > W)
    let r := if oneWord then r / 2 ^ W / 2 ^ (shift % W) else r / 2 ^ (shift % W)
    (s, r)
  else (s, r)

/-- `TypedReprRef::sqrt_rem` -/
def sqrtRemRepr (W : Nat) (fixed : Bool) (x : Nat) : Nat × Nat :=
  if x < 2 ^ (2 * W) then sqrtRemPrimFrontier x
  else sqrtRemLarge W sqrtRemKernelFrontier fixed x

/-- `TypedReprRef::sqrt` (`sqrt_rem_large(words, true).0`) -/
def sqrtRepr (W : Nat) (x : Nat) : Nat := (sqrtRemRepr W true x).1

/-- one Newton step of `nth_root`: `(x / g^(n−1) + g·(n−1)) / n` -/
def newtonNext (x n g : Nat) : Nat := (x / g ^ (n - 1) + g * (n - 1)) / n

/-- `while fixpoint > guess { guess = fixpoint; fixpoint = next(&guess) }` -/
def newtonUp (x n : Nat) : Nat → Nat → Nat → Nat × Nat
  | 0, guess, fix => (guess, fix)
  | fuel + 1, guess, fix =>
    if fix > guess then newtonUp x n fuel fix (newtonNext x n fix) else (guess, fix)

/-- `while fixpoint < guess { guess = fixpoint; fixpoint = next(&guess) }` -/
def newtonDown (x n : Nat) : Nat → Nat → Nat → Nat × Nat
  | 0, guess, fix => (guess, fix)
  | fuel + 1, guess, fix =>
    if fix < guess then newtonDown x n fuel fix (newtonNext x n fix) else (guess, fix)

/-- the Newton part of `nth_root` (n ≥ 3, `bits > n`): start from the overestimate `2^⌈bits/n⌉`
    (since /repo 440594f; before: `2^⌊bits/n⌋`, from which the first step overshoots by up to `2^n/n`
    and the descent needs `O(n²)` steps), go up (never taken from an overestimate), then down -/
def nthRootNewton (x n : Nat) (fuel : Nat) : Nat :=
  let guess := 2 ^ ((bitLen x + n - 1) / n)
  let fix := newtonNext x n guess
  let (guess, fix) := newtonUp x n fuel guess fix
  (newtonDown x n fuel guess fix).1

/-- `TypedReprRef::nth_root`.  `fixed = true` mirrors the current code (radicand 0 ⇒ 0, since /repo 77711bb);
    `fixed = false` is the earlier `bits <= n ⇒ 1` shortcut that also caught 0 (regression theorem). -/
def nthRootRepr (W : Nat) (fixed : Bool) (x n : Nat) : Except PanicKind Nat :=
  match n with
  | 0 => .error .rootZeroth
  | 1 => .ok x
  | 2 => .ok (sqrtRepr W x)
  | _ =>
    if bitLen x ≤ n then .ok (if fixed ∧ x = 0 then 0 else 1)
    else .ok (nthRootNewton x n (x + 2))

/-- `CubicRootRem for UBig`: `c = nth_root(3); r = self − c³` (UBig subtraction) -/
def cbrtRemRepr (W : Nat) (fixed : Bool) (x : Nat) : Except PanicKind (Nat × Nat) :=
  match nthRootRepr W fixed x 3 with
  | .error k => .error k
  | .ok c => if c ^ 3 ≤ x then .ok (c, x - c ^ 3) else .error .negativeUBig

/-- `IBig::nth_root` -/
def nthRootInt (W : Nat) (fixed : Bool) (x : Int) (n : Nat) : Except PanicKind Int :=
  if n = 0 then .error .rootZeroth
  else if x < 0 ∧ n % 2 = 0 then .error .rootNegative
  else match nthRootRepr W fixed x.natAbs n with
    | .error k => .error k
    | .ok r => .ok (if x < 0 then -(r : Int) else r)

/-- `SquareRoot for IBig` -/
def sqrtInt (W : Nat) (x : Int) : Except PanicKind Nat :=
  if x < 0 then .error .rootNegative else .ok (sqrtRepr W x.natAbs)

/-- `CubicRoot for IBig`.  `fixed = true` mirrors the current code (since /repo 44dc3ca); before (`fixed = false`)
    it panicked with `RootNegative` for every negative input although `nth_root(3)` returned the root. -/
def cbrtInt (W : Nat) (fixed : Bool) (x : Int) : Except PanicKind Int :=
  if x < 0 ∧ !fixed then .error .rootNegative
  else match nthRootRepr W fixed x.natAbs 3 with
    | .error k => .error k
    | .ok r => .ok (if x < 0 then -(r : Int) else r)

end Dashu.Model.NT
