import Dashu.Model.NT.Log
/-
  C12 — `EstimatedLog2::log2_bounds` (std build): bit-exact executable replica of
  `base/src/math/log.rs` (`impl_log2_bounds_for_uint`, `next_up`, `next_down`),
  `integer/src/log.rs::log2_bounds_large`, `float/src/log.rs` (`Repr<B>::log2_bounds`) and
  `rational/src/repr.rs` (`Repr::log2_bounds`) on Lean's compiled `Float32`, plus the **exact
  enclosure test** the driver applies to every pair of bounds (integer arithmetic only).

  Nothing here is used in a theorem (the kernel cannot evaluate `Float32`); the enclosure property
  is checked per call.  Core Lean only.
-/
namespace Dashu.Model.NT

/-- `next_up` (finite input) -/
def nextUp (f : Float32) : Float32 :=
  let bits := f.toBits
  let abs := bits &&& 0x7fffffff
  Float32.ofBits (if abs == 0 then 0x1 else if bits == abs then bits + 1 else bits - 1)

/-- `next_down` (finite input) -/
def nextDown (f : Float32) : Float32 :=
  let bits := f.toBits
  let abs := bits &&& 0x7fffffff
  Float32.ofBits (if abs == 0 then 0x80000001 else if bits == abs then bits - 1 else bits + 1)

def negInf : Float32 := Float32.ofBits 0xff800000

def isPow2 (x : Nat) : Bool := x ≠ 0 && x == 2 ^ (bitLen x - 1)

/-- `impl_log2_bounds_for_uint` (feature std), the same body for u8 … u128 -/
def log2BoundsPrim (x : Nat) : Float32 × Float32 :=
  if x = 0 then (negInf, negInf)
  else if isPow2 x then
    let l := Float32.ofNat (bitLen x - 1)
    (l, l)
  else
    let nbits := bitLen x
    if nbits ≤ 24 then
      let l := (Float32.ofNat x).log2
      (nextDown l, nextUp l)
    else
      let shifted := Float32.ofNat (x >>> (nbits - 24))
      let lb := shifted.log2
      let ub := (shifted + 1).log2
      let shift := Float32.ofNat (nbits - 24)
      (nextDown (lb + shift), nextUp (ub + shift))

/-- `log2_bounds_large` -/
def log2BoundsLarge (W : Nat) (x : Nat) : Float32 × Float32 :=
  let len := wordLen W x
  let hi := x >>> (W * (len - 2))
  let remBits := Float32.ofNat ((len - 2) * W)
  let (hlb, hub) := log2BoundsPrim hi
  let adjust : Float32 := Float32.ofBits 0x34800000          -- 2·EPSILON = 2^-22
  ((hlb + remBits) * ((1 : Float32) - adjust), (hub + remBits) * ((1 : Float32) + adjust))

/-- `TypedReprRef::log2_bounds` (UBig; IBig uses the magnitude) -/
def log2BoundsNat (W : Nat) (x : Nat) : Float32 × Float32 :=
  if x < 2 ^ (2 * W) then log2BoundsPrim x else log2BoundsLarge W x

/-- `Repr<B>::log2_bounds` of `signif · B^exp` -/
def log2BoundsFloat (W : Nat) (B : Nat) (signif : Int) (exp : Int) : Float32 × Float32 :=
  if signif = 0 then (negInf, negInf)
  else
    let (slb, sub) := log2BoundsNat W signif.natAbs
    let (blb, bub) := if isPow2 B then (let l := Float32.ofNat (bitLen B - 1); (l, l)) else log2BoundsPrim B
    -- since /repo 378134e the sums are formed in f64 (`exponent as f64`), then rounded to f32 and widened
    let e := Float.ofInt exp
    let (lb, ub) := if exp ≥ 0 then (slb.toFloat + e * blb.toFloat, sub.toFloat + e * bub.toFloat)
                    else (slb.toFloat + e * bub.toFloat, sub.toFloat + e * blb.toFloat)
    (nextDown lb.toFloat32, nextUp ub.toFloat32)

/-- rational `Repr::log2_bounds` of `num/den` (as stored): differences of the part bounds, widened
    outward by one ulp (since /repo e3b7f1c; before, the round-to-nearest differences were returned
    as they were and `13/2^20` gave `lb = ub`, below the true logarithm) -/
def log2BoundsRat (W : Nat) (num : Int) (den : Nat) : Float32 × Float32 :=
  if num = 0 then (negInf, negInf)
  else
    let (nlb, nub) := log2BoundsNat W num.natAbs
    let (dlb, dub) := log2BoundsNat W den
    (nextDown (nlb - dub), nextUp (nub - dlb))

-- ---------------------------------------------------------------- no_std build (table estimator)

/-- `impl EstimatedLog2 for u8` (feature std off) -/
def log2BoundsU8NoStd (x : Nat) : Float32 × Float32 :=
  if x = 0 then (negInf, negInf)
  else if x = 1 then (0, 0)
  else if isPow2 x then (let l := Float32.ofNat (bitLen x - 1); (l, l))
  else if x = 3 then (Float32.ofBits 0x3fcae00d, Float32.ofBits 0x3fcae00e)     -- 1.5849625, 1.5849626
  else if x < 16 then
    let pow := x ^ 4
    let lb := Float32.ofNat (log2Fp8 pow) / 256
    let ub := Float32.ofNat (ceilLog2Fp8 pow) / 256
    (lb / 4, ub / 4)
  else
    let pow := x ^ 2
    let lb := Float32.ofNat (log2Fp8 pow) / 256
    let ub := Float32.ofNat (ceilLog2Fp8 pow) / 256
    (lb / 2, ub / 2)

/-- `impl EstimatedLog2 for u16` and `impl_log2_bounds_for_uint!(u32 u64 u128 usize)` (feature std off) -/
def log2BoundsPrimNoStd (x : Nat) : Float32 × Float32 :=
  if x ≤ 0xff then log2BoundsU8NoStd x
  else if isPow2 x then (let l := Float32.ofNat (bitLen x - 1); (l, l))
  else
    let bits := bitLen x
    if bits ≤ 16 then
      (Float32.ofNat (log2Fp8 x) / 256, Float32.ofNat (ceilLog2Fp8 x) / 256)
    else
      let shift := bits - 16
      let hi := x >>> shift
      let lb := Float32.ofNat (log2Fp8 hi) / 256
      let ub := if hi = 2 ^ 15 then 15 * 256 + 1 else ceilLog2Fp8 hi
      let ub := Float32.ofNat ub / 256
      (nextDown (lb + Float32.ofNat shift), nextUp (ub + Float32.ofNat shift))

/-- `log2_bounds_large` / `TypedReprRef::log2_bounds` on top of the no_std primitive estimator -/
def log2BoundsNatNoStd (W : Nat) (x : Nat) : Float32 × Float32 :=
  if x < 2 ^ (2 * W) then log2BoundsPrimNoStd x
  else
    let len := wordLen W x
    let hi := x >>> (W * (len - 2))
    let remBits := Float32.ofNat ((len - 2) * W)
    let (hlb, hub) := log2BoundsPrimNoStd hi
    let adjust : Float32 := Float32.ofBits 0x34800000
    ((hlb + remBits) * ((1 : Float32) - adjust), (hub + remBits) * ((1 : Float32) + adjust))

-- ---------------------------------------------------------------- primitive floats

/-- decode an IEEE bit pattern (`mbits` mantissa bits, `ebits` exponent bits): `none` for NaN,
    `some none` for ±inf, `some (some (m, e))` for the finite value `±m·2^e` (`FloatEncoding::decode`) -/
def ieeeDecode (mbits ebits : Nat) (bits : Nat) : Option (Option (Nat × Int)) :=
  let m := bits % 2 ^ mbits
  let e := (bits / 2 ^ mbits) % 2 ^ ebits
  let bias : Int := 2 ^ (ebits - 1) - 1
  if e = 2 ^ ebits - 1 then (if m ≠ 0 then none else some none)
  else if e = 0 then some (some (m, 1 - bias - mbits))
  else some (some (m + 2 ^ mbits, (e : Int) - bias - mbits))

/-- `impl_log2_bounds_for_float!(f32 f64)`, feature std: `next_down/next_up` of `self.abs().log2() as f32`.
    `isF64` selects the type; the f64 logarithm is rounded to f32 by the cast. -/
def log2BoundsFloatPrimStd (isF64 : Bool) (bits : Nat) : Option (Float32 × Float32) :=
  let dec := if isF64 then ieeeDecode 52 11 bits else ieeeDecode 23 8 bits
  match dec with
  | none => none                                           -- assert!(!self.is_nan())
  | some none => some (Float32.ofBits 0x7f800000, Float32.ofBits 0x7f800000)
  | some (some (m, _)) =>
    if m = 0 then some (negInf, negInf)
    else
      let l : Float32 :=
        if isF64 then (Float.ofBits (UInt64.ofNat (bits % 2 ^ 63))).log2.toFloat32
        else (Float32.ofBits (UInt32.ofNat (bits % 2 ^ 31))).log2
      some (nextDown l, nextUp l)

/-- the same, feature std off: bounds of the integer mantissa (table estimator) plus the exponent -/
def log2BoundsFloatPrimNoStd (isF64 : Bool) (bits : Nat) : Option (Float32 × Float32) :=
  let dec := if isF64 then ieeeDecode 52 11 bits else ieeeDecode 23 8 bits
  match dec with
  | none => none                                           -- panic!("calling log2 on nans is forbidden!")
  | some none => some (Float32.ofBits 0x7f800000, Float32.ofBits 0x7f800000)
  | some (some (m, e)) =>
    if m = 0 then some (negInf, negInf)
    else
      -- widened by one ulp on each side since /repo (nostd-float-log2-bounds-outward); before, the rounded
      -- sums were returned as they were (f32::from_bits(3): lb == ub below the true logarithm)
      let (lb, ub) := log2BoundsPrimNoStd m
      some (nextDown (lb + Float32.ofInt e), nextUp (ub + Float32.ofInt e))

-- ---------------------------------------------------------------- exact enclosure test

/-- value of a finite f32 bit pattern as `(negative?, mantissa, exponent)`: `± mant · 2^exp`;
    `none` for ±inf / NaN -/
def f32Decode (b : UInt32) : Option (Bool × Nat × Int) :=
  let bits := b.toNat
  let neg := bits / 2 ^ 31 = 1
  let e : Nat := (bits / 2 ^ 23) % 256
  let m : Nat := bits % 2 ^ 23
  if e = 255 then none
  else if e = 0 then some (neg, m, -149)
  else some (neg, m + 2 ^ 23, (e : Int) - 150)

/-- certified enclosure of `log2(num/den)` (`num, den > 0`): returns `(L, t)` with
    `L/2^t ≤ log2(num/den) < (L+1)/2^t`, obtained by extracting `t` binary digits with
    outward-rounded `P`-bit interval squaring; stops early when a digit cannot be decided. -/
def log2Enclosure (num den : Nat) (P T : Nat) : Int × Nat := Id.run do
  -- integer part: k with 2^k ≤ num/den < 2^(k+1)
  let k0 : Int := (bitLen num : Int) - (bitLen den : Int)
  let le (k : Int) : Bool := if k ≥ 0 then den * 2 ^ k.toNat ≤ num else den ≤ num * 2 ^ (-k).toNat
  let k : Int := if le k0 then k0 else k0 - 1
  -- y = (num/den)/2^k in [1,2) scaled by 2^P, as an interval [lo, hi]
  let (n', d') : Nat × Nat := if k ≥ 0 then (num, den * 2 ^ k.toNat) else (num * 2 ^ (-k).toNat, den)
  let mut lo := n' * 2 ^ P / d'
  let mut hi := lo + 1
  let two := 2 ^ (P + 1)
  let mut L : Int := k
  let mut t := 0
  for _ in [0:T] do
    let lo2 := lo * lo / 2 ^ P
    let hi2 := (hi * hi + 2 ^ P - 1) / 2 ^ P
    if lo2 ≥ two then
      L := 2 * L + 1; t := t + 1
      lo := lo2 / 2; hi := (hi2 + 1) / 2
    else if hi2 < two then
      L := 2 * L; t := t + 1
      lo := lo2; hi := hi2
    else break
  return (L, t)

/-- three-valued comparison of the f32 value `v = ±m·2^e` with `log2(num/den)`:
    `some true` if `v ≤ log2 X`, `some false` if `v > log2 X` … for `upper = false`;
    for `upper = true`: `some true` iff `log2 X ≤ v`.  `none` = undecided. -/
def cmpLog2 (upper : Bool) (neg : Bool) (m : Nat) (e : Int) (num den : Nat) : Option Bool := Id.run do
  -- exact power of two?
  let g := Nat.gcd num den
  let (n1, d1) := (num / g, den / g)
  if isPow2 n1 && d1 == 1 || n1 == 1 && isPow2 d1 then
    let k : Int := if d1 == 1 then (bitLen n1 : Int) - 1 else -((bitLen d1 : Int) - 1)
    -- compare v with k exactly: v = s·m·2^e
    let s : Int := if neg then -(m : Int) else m
    let (lhs, rhs) : Int × Int := if e ≥ 0 then (s * 2 ^ e.toNat, k) else (s, k * 2 ^ (-e).toNat)
    return some (if upper then rhs ≤ lhs else lhs ≤ rhs)
  -- digits needed: enough to get below the last bit of `v` (values next to 1 have tiny logarithms)
  let T : Nat := if e < -40 then (-e).toNat + 40 else 72
  let (L, t) := log2Enclosure num den (320 + 2 * T) T
  -- compare v·2^t with L and L+1:   v·2^t = s·m·2^(e+t)
  let s : Int := if neg then -(m : Int) else m
  let sh := e + t
  -- scale both sides to integers
  let (vS, lS, uS) : Int × Int × Int :=
    if sh ≥ 0 then (s * 2 ^ sh.toNat, L, L + 1) else (s, L * 2 ^ (-sh).toNat, (L + 1) * 2 ^ (-sh).toNat)
  if upper then
    -- log2 X < (L+1)/2^t ≤ v  ⇒ true ;  v < L/2^t ≤ log2 X ⇒ false
    if uS ≤ vS then return some true
    if vS < lS then return some false
    return none
  else
    if vS ≤ lS then return some true
    if uS ≤ vS then return some false
    return none

/-- exact fallback by powering (only when cheap): `2^v ≤ num/den` resp. `num/den ≤ 2^v` -/
def cmpLog2Exact (upper : Bool) (neg : Bool) (m : Nat) (e : Int) (num den : Nat) : Option Bool :=
  let f : Nat := if e < 0 then (-e).toNat else 0
  let p : Nat := if e < 0 then m else m * 2 ^ e.toNat
  if (bitLen num + bitLen den) * 2 ^ f > 2 ^ 27 ∨ p > 2 ^ 27 then none
  else
    let a := num ^ (2 ^ f)
    let b := den ^ (2 ^ f)
    -- 2^(±p) vs a/b
    let (l, r) := if neg then (b, a * 2 ^ p) else (b * 2 ^ p, a)     -- l ≤ r  ⇔  2^v ≤ X
    some (if upper then r ≤ l else l ≤ r)

/-- does the f32 pair `(lb, ub)` enclose `log2(num/den)`?  `num = 0`: both must be `-inf`.
    Result: "" if enclosed, otherwise a marker naming the failing side(s). -/
def enclosureMark (lb ub : Float32) (num den : Nat) : String :=
  if num = 0 then
    (if lb.toBits == 0xff800000 && ub.toBits == 0xff800000 then "" else " !bounds-not-neg-inf")
  else
    let side (upper : Bool) (f : Float32) : String :=
      match f32Decode f.toBits with
      | none => (if upper then " !ub-not-finite" else " !lb-not-finite")
      | some (neg, m, e) =>
        let r := match cmpLog2 upper neg m e num den with
          | some b => some b
          | none => cmpLog2Exact upper neg m e num den
        match r with
        | some true => ""
        | some false => (if upper then " !ub-below-log2" else " !lb-above-log2")
        | none => (if upper then " !ub-undecided" else " !lb-undecided")
    side false lb ++ side true ub

end Dashu.Model.NT
