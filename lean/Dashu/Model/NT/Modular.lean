import Dashu.Model.Int.Repr
/-
  C13 — model of `integer/src/div_const.rs` (ConstDivisor) and `integer/src/modular/*.rs` (Reduced).

  Value-level model: a buffer of `n` words is the natural number it denotes (the word loops
  `add_same_len_in_place`, `sub_same_len_in_place(_swap)`, `shl/shr_in_place` that the code calls
  are the kernels refined in C01/C09; here they appear as their value: `+`, `-`, `* 2^k`, `/ 2^k`
  with the carry/borrow as `/ 2^(W·n)` resp. a comparison).

  The defining feature that is mirrored: a residue `r` of the ring `Z/m` is stored **pre-shifted** by
  the normalisation shift `k` of the divisor, `raw = r·2^k`, and reduced modulo the *normalised*
  divisor `M = m·2^k`.

  Contract parameters (DESIGN §6): `num_modular`'s `div_rem_1by1/2by1/2by2/3by2/4by2` and
  dashu's `fast_rem_by_normalized_(d)word`, `div_rem_in_place` are modelled as exact `%`
  (their floor-division contract).  Core Lean only.
-/
namespace Dashu.Model.NT
open Dashu.Model

/-- `bit_len` -/
def bitLen (n : Nat) : Nat := if n = 0 then 0 else Nat.log2 n + 1

/-- number of `W`-bit words of `n` (`locate_top_word_plus_one` of its buffer) -/
def wordLen (W n : Nat) : Nat := (bitLen n + W - 1) / W

/-- `trailing_zeros` of a non-zero number (structural on fuel = the number itself) -/
def tzLoop : Nat → Nat → Nat
  | 0, _ => 0
  | fuel + 1, n => if n % 2 = 1 ∨ n = 0 then 0 else tzLoop fuel (n / 2) + 1

def trailingZeros (n : Nat) : Nat := tzLoop n n

/-- which of the three `ConstDivisorRepr` variants -/
inductive Kind | single | double | large
  deriving DecidableEq, Repr

/-- `ConstDivisor`: `id` stands for the address of the instance (`ptr::eq` in
    `check_same_ring_*`): two instances with the same modulus are still different rings. -/
structure Ring where
  id : Nat
  kind : Kind
  m : Nat      -- the divisor
  k : Nat      -- normalisation shift
  n : Nat      -- number of words of the normalised divisor
  deriving DecidableEq, Repr

/-- the normalised divisor `divisor << shift` -/
def Ring.M (r : Ring) : Nat := r.m * 2 ^ r.k

/-- `ConstDivisor::new` (with `PreMulInv2by1::new`, `PreMulInv3by2::new`, `div::normalize`):
    shift = leading zeros of the top word -/
def Ring.new (W id m : Nat) : Except PanicKind Ring :=
  if m = 0 then .error .divideByZero
  else if m < 2 ^ W then .ok ⟨id, .single, m, W - bitLen m, 1⟩
  else if m < 2 ^ (2 * W) then .ok ⟨id, .double, m, 2 * W - bitLen m, 2⟩
  else .ok ⟨id, .large, m, W * wordLen W m - bitLen m, wordLen W m⟩

/-- `Reduced`: raw pre-shifted value together with (a reference to) its ring -/
structure Elem where
  ring : Ring
  raw : Nat
  deriving DecidableEq, Repr

/-- `ReducedWord/ReducedDword/ReducedLarge::is_valid` as the property requires it (`raw < M`;
    `ReducedLarge::is_valid` used `is_le` before /repo 1b55f20). -/
def Valid (r : Ring) (x : Nat) : Prop := ∃ v, v < r.m ∧ x = v * 2 ^ r.k

instance (r : Ring) (x : Nat) : Decidable (Valid r x) :=
  decidable_of_iff (x % 2 ^ r.k = 0 ∧ x / 2 ^ r.k < r.m) (by
    constructor
    · intro ⟨h0, hlt⟩
      exact ⟨x / 2 ^ r.k, hlt, by
        have := Nat.div_add_mod x (2 ^ r.k); rw [h0] at this; rw [Nat.mul_comm]; omega⟩
    · intro ⟨v, hv, hx⟩
      subst hx
      have hp : 0 < 2 ^ r.k := Nat.two_pow_pos _
      rw [Nat.mul_mod_left, Nat.mul_div_cancel _ hp]; exact ⟨rfl, hv⟩)

-- ---------------------------------------------------------------- reduce (div_const.rs, convert.rs)

/-- `ConstSingleDivisor::rem_word`: `(word << shift) % self` -/
def remWordS (r : Ring) (x : Nat) : Nat :=
  if r.k = 0 then x % r.M else (x * 2 ^ r.k) % r.M

/-- `ConstSingleDivisor::rem_dword`: shift = 0: reduce the high word with `div_rem_1by1` (a
    compare-and-subtract), then one 2-by-1 step; otherwise two 2-by-1 steps on the three words of
    `dword << shift` -/
def remDwordS (W : Nat) (r : Ring) (x : Nat) : Nat :=
  if r.k = 0 then
    let lo := x % 2 ^ W
    let hi := x / 2 ^ W
    let r1 := if hi < r.M then hi else hi - r.M     -- div_rem_1by1
    (lo + 2 ^ W * r1) % r.M
  else
    let s := x * 2 ^ r.k                      -- shl_dword → (n0, n1, n2)
    let n0 := s % 2 ^ W
    let n12 := s / 2 ^ W                      -- double_word(n1, n2)
    let r1 := n12 % r.M
    (n0 + 2 ^ W * r1) % r.M

/-- `ConstSingleDivisor::rem_large`, `ConstDoubleDivisor::rem_large` -/
def remLargeSD (r : Ring) (x : Nat) : Nat :=
  let rem := x % r.M                          -- fast_rem_by_normalized_(d)word
  if r.k ≠ 0 then (rem * 2 ^ r.k) % r.M else rem

/-- `ConstDoubleDivisor::rem_dword` (`div_rem_2by2` is a compare-and-subtract) -/
def remDwordD (r : Ring) (x : Nat) : Nat :=
  if r.k = 0 then (if x < r.M then x else x - r.M)
  else (x * 2 ^ r.k) % r.M

/-- `ConstLargeDivisor::rem_repr` / `rem_large` -/
def remReprL (W : Nat) (r : Ring) (x : Nat) : Nat :=
  if x < 2 ^ (2 * W) then x * 2 ^ r.k         -- Small: only shifted ("must be smaller than the modulus")
  else
    let words := x * 2 ^ r.k
    if wordLen W words ≥ r.n then words % r.M else words

/-- `ReducedWord/Dword/Large::from_ubig` -/
def rawOfNat (W : Nat) (r : Ring) (x : Nat) : Nat :=
  match r.kind with
  | .single => if x < 2 ^ W then remWordS r x else if x < 2 ^ (2 * W) then remDwordS W r x else remLargeSD r x
  | .double => if x < 2 ^ (2 * W) then remDwordD r x else remLargeSD r x
  | .large => remReprL W r x

/-- `Neg for Reduced` (`Vanilla::neg`, `negate_in_place`) -/
def negRaw (r : Ring) (x : Nat) : Nat := if x = 0 then 0 else r.M - x

/-- `IntoRing for UBig` -/
def reduceNat (W : Nat) (r : Ring) (x : Nat) : Elem := ⟨r, rawOfNat W r x⟩

/-- `IntoRing for IBig`: reduce the magnitude, negate if the sign is negative -/
def reduceInt (W : Nat) (r : Ring) (x : Int) : Elem :=
  let e := rawOfNat W r x.natAbs
  if x < 0 then ⟨r, negRaw r e⟩ else ⟨r, e⟩

/-- `Reduced::residue` -/
def Elem.residue (e : Elem) : Nat := e.raw / 2 ^ e.ring.k

/-- `Reduced::modulus` -/
def Elem.modulus (e : Elem) : Nat := e.ring.M / 2 ^ e.ring.k

-- ---------------------------------------------------------------- add.rs

/-- `Vanilla::add` / `add_in_place`: add, then subtract the modulus once if overflow or ≥ M -/
def addRaw (r : Ring) (a b : Nat) : Nat :=
  let s := a + b
  if s ≥ r.M then s - r.M else s

/-- `Vanilla::sub` / `sub_in_place`, `sub_in_place_swap`: subtract, add the modulus back on borrow -/
def subRaw (r : Ring) (a b : Nat) : Nat :=
  if a ≥ b then a - b else r.M - (b - a)

/-- same-ring check of every binary operator: `check_same_ring_*` / the `_ => panic_different_rings()` arm -/
def sameRing (a b : Elem) : Bool := a.ring = b.ring

def Elem.add (a b : Elem) : Except PanicKind Elem :=
  if sameRing a b then .ok ⟨a.ring, addRaw a.ring a.raw b.raw⟩ else .error .differentRings

def Elem.sub (a b : Elem) : Except PanicKind Elem :=
  if sameRing a b then .ok ⟨a.ring, subRaw a.ring a.raw b.raw⟩ else .error .differentRings

def Elem.neg (a : Elem) : Elem := ⟨a.ring, negRaw a.ring a.raw⟩

/-- `Reduced::dbl` (`Vanilla::dbl` = add to itself; `dbl_in_place`: shl 1 then conditional subtract) -/
def Elem.dbl (a : Elem) : Elem := ⟨a.ring, addRaw a.ring a.raw a.raw⟩

-- ---------------------------------------------------------------- mul.rs

/-- `mul_normalized`: trim, multiply, `>> shift`, then either one conditional subtraction (when the
    product has at most `n` words) or a full reduction -/
def mulNormalized (W : Nat) (r : Ring) (a b : Nat) : Nat :=
  let na := wordLen W a
  let nb := wordLen W b
  let product := (a * b) / 2 ^ r.k
  if na + nb > r.n then product % r.M            -- div_rem_in_place
  else if product ≥ r.M then product - r.M else product

/-- `PreMulInv2by1::mul` / `PreMulInv3by2::mul`: `((lhs >> shift) * rhs) % M`;
    large: `mul_in_place` (with its `lhs == rhs` shortcut to `sqr_normalized`, the same value) -/
def mulRaw (W : Nat) (r : Ring) (a b : Nat) : Nat :=
  match r.kind with
  | .large => mulNormalized W r a b
  | _ => ((a / 2 ^ r.k) * b) % r.M

/-- `PreMulInv*::sqr`: `(target² >> shift) % M`; large: `sqr_normalized` -/
def sqrRaw (W : Nat) (r : Ring) (a : Nat) : Nat :=
  match r.kind with
  | .large => mulNormalized W r a a
  | _ => ((a * a) / 2 ^ r.k) % r.M

def Elem.mul (W : Nat) (a b : Elem) : Except PanicKind Elem :=
  if sameRing a b then .ok ⟨a.ring, mulRaw W a.ring a.raw b.raw⟩ else .error .differentRings

def Elem.sqr (W : Nat) (a : Elem) : Elem := ⟨a.ring, sqrRaw W a.ring a.raw⟩

-- ---------------------------------------------------------------- pow.rs

/-- `ReducedWord::one` etc.: the residue `1 mod m`, pre-shifted (`m = 1` ⇒ 0 since /repo d3d05f5;
    before, `1 << shift` was returned also for `m = 1`, where it is the normalised divisor itself —
    see `oneRawAsIs` and the regression theorem `Props/C13.one_asIs_counterexample`). -/
def oneRaw (r : Ring) : Nat := if r.m = 1 then 0 else 2 ^ r.k

/-- `ReducedWord::one` before /repo d3d05f5: `Self(1 << ring.shift())` -/
def oneRawAsIs (r : Ring) : Nat := 2 ^ r.k

/-- `pow_helper(ring, lhs, rhs, exp, bits)`: `lhs^(2^bits) * rhs^(exp mod 2^bits)` by
    square-and-multiply from bit `bits-1` down to 0 -/
def powHelper (W : Nat) (r : Ring) (rhs exp : Nat) : Nat → Nat → Nat
  | 0, res => res
  | bits + 1, res =>
    let res := sqrRaw W r res
    let res := if exp.testBit bits then mulRaw W r res rhs else res
    powHelper W r rhs exp bits res

/-- `pow_word` -/
def powWord (W : Nat) (r : Ring) (raw exp : Nat) : Nat :=
  match exp with
  | 0 => oneRaw r
  | 1 => raw
  | 2 => sqrRaw W r raw
  | _ => powHelper W r raw exp (bitLen exp - 1) raw

/-- `single::pow` / `double::pow`: top word by `pow_word`, every lower word by `pow_helper(…, WORD_BITS)`
    (the `RefSmall` arm with `hi ≠ 0` and `pow_nontrivial` are this same loop) -/
def powSD (W : Nat) (r : Ring) (raw exp : Nat) : Nat :=
  match (natWords W exp).reverse with
  | [] => powWord W r raw 0
  | top :: rest => rest.foldl (fun res w => powHelper W r raw w W res) (powWord W r raw top)

/-- `choose_pow_window_len`: increase the window while the cost estimate strictly decreases -/
def chooseWindowLen (W n : Nat) : Nat :=
  let cost := fun ws => 2 ^ (ws - 1) - 1 + n / (ws + 1)
  let rec go (fuel ws : Nat) : Nat :=
    match fuel with
    | 0 => ws
    | fuel + 1 =>
      if ws + 1 < min W 64 then
        if cost ws ≤ cost (ws + 1) then ws else go fuel (ws + 1)
      else ws
  go W 1

/-- the precomputed table of `large::pow_nontrivial`: entry `i` is `raw^(2i+1)`, built as
    `raw^(2i+1) = raw^(2i-1) * raw²` -/
def oddPowTable (W : Nat) (r : Ring) (raw sq : Nat) : Nat → List Nat
  | 0 => []
  | cnt + 1 =>
    let t := oddPowTable W r raw sq cnt
    t ++ [match t.getLast? with
          | none => raw
          | some p => mulNormalized W r p sq]

/-- main loop of `large::pow_nontrivial`; `bit` is the index of the bit being consumed, `val` the
    accumulator (`raw ^ exp[bit..]` ignoring the lowest bit on entry) -/
def powWindowLoop (W : Nat) (r : Ring) (exp wl : Nat) (table : List Nat) : Nat → Nat → Nat → Nat
  | 0, _, val => val
  | fuel + 1, bit, val =>
    let (bit, val) :=
      if exp.testBit bit then
        -- window of `wl` bits ending at `bit` (zero-extended below bit 0), top bit 1
        let window := (exp * 2 ^ wl / 2 ^ (bit + 1)) % 2 ^ wl
        let tz := trailingZeros window                                   -- trailing_zeros
        let numBits := wl - tz
        let window := window / 2 ^ (wl - numBits)
        let val := (List.range (numBits - 1)).foldl (fun v _ => mulNormalized W r v v) val
        let bit := bit - (numBits - 1)
        let entry := table.getD (window / 2) 0
        (bit, mulNormalized W r val entry)
      else (bit, val)
    if bit = 0 then val
    else powWindowLoop W r exp wl table fuel (bit - 1) (mulNormalized W r val val)

/-- `large::pow` -/
def powL (W : Nat) (r : Ring) (raw exp : Nat) : Nat :=
  if exp = 0 then oneRaw r
  else if exp = 1 then raw
  else
    let wl := chooseWindowLen W (bitLen exp)
    let sq := mulNormalized W r raw raw
    let table := oddPowTable W r raw sq (2 ^ (wl - 1))
    powWindowLoop W r exp wl table (bitLen exp) (bitLen exp - 2) sq

def powRaw (W : Nat) (r : Ring) (raw exp : Nat) : Nat :=
  match r.kind with
  | .large => powL W r raw exp
  | _ => powSD W r raw exp

/-- `Reduced::pow` -/
def Elem.pow (W : Nat) (a : Elem) (exp : Nat) : Elem := ⟨a.ring, powRaw W a.ring a.raw exp⟩

-- ---------------------------------------------------------------- div.rs

/-- `subm` of num-modular on reduced operands: `(a - b) mod m` -/
def subm (a b m : Nat) : Nat :=
  if a ≥ b then (a - b) % m else (let x := (b - a) % m; if x = 0 then 0 else m - x)

/-- loop of num-modular's `invm` (extended Euclid keeping only the coefficient of `x`, reduced
    mod `m` at every step): state `(last_r, r, last_t, t)` -/
def invmLoop (m : Nat) : Nat → Nat → Nat → Nat → Nat → Nat × Nat
  | 0, lastR, _, lastT, _ => (lastR, lastT)
  | fuel + 1, lastR, r, lastT, t =>
    if r = 0 then (lastR, lastT)
    else
      let quo := lastR / r
      let rem := lastR % r
      let newT := subm lastT ((quo * t) % m) m
      invmLoop m fuel r rem t newT

/-- `ModularUnaryOps::invm`: `Some(x)` with `x·self ≡ 1 (mod m)` iff `gcd(self, m) = 1`.
    Fuel `m + 1` always suffices (the remainders strictly decrease; proved). -/
def invm (x m : Nat) : Option Nat :=
  let x := if x ≥ m then x % m else x
  let (g, t) := invmLoop m (m + 1) m x 0 1
  if g > 1 then none else some t

/-- `Reduced::inv`.  Single/double: `residue.invm(modulus) << shift` (mirrored).  Large:
    `inv_large` computes the same residue through `gcd::gcd_ext_word/_dword/_in_place` (Lehmer);
    that kernel is a frontier kernel here, specified by `invm` (the inverse is unique mod m). -/
def invRaw (r : Ring) (raw : Nat) : Option Nat :=
  match r.kind with
  | .large =>
    let v := raw / 2 ^ r.k
    if v = 0 then none else (invm v r.m).map (· * 2 ^ r.k)
  | _ => (invm (raw / 2 ^ r.k) r.m).map (· * 2 ^ r.k)

def Elem.inv (a : Elem) : Option Elem := (invRaw a.ring a.raw).map (⟨a.ring, ·⟩)

/-- `Div for &Reduced`: `rhs.inv()` first (`None` ⇒ panic), then the product (which checks the rings) -/
def Elem.div (W : Nat) (a b : Elem) : Except PanicKind Elem :=
  match b.inv with
  | none => .error .nonInvertible
  | some i => a.mul W i

/-- `PartialEq for Reduced` -/
def Elem.beq (a b : Elem) : Except PanicKind Bool :=
  if sameRing a b then .ok (a.raw == b.raw) else .error .differentRings

-- ---------------------------------------------------------------- reducer.rs (num_modular::Reducer<UBig>)

/-- `Reducer::check`: `target < M` and the low `shift` bits are zero (strict for multi-word rings
    since /repo 1b55f20; before, `is_le`, see `rCheckAsIs`). -/
def rCheck (r : Ring) (t : Nat) : Bool := t < r.M && t % 2 ^ r.k = 0

/-- `Reducer::check` before /repo 1b55f20 (reducer.rs): single/double through num-modular (`<`), a small
    target in a large ring is accepted unconditionally, a large one is compared with `is_le`. -/
def rCheckAsIs (W : Nat) (r : Ring) (t : Nat) : Bool :=
  match r.kind with
  | .single => t < 2 ^ W && t < r.M && t % 2 ^ r.k = 0
  | .double => t < 2 ^ (2 * W) && t < r.M && t % 2 ^ r.k = 0
  | .large => if t < 2 ^ (2 * W) then true else t ≤ r.M && t % 2 ^ r.k = 0

/-- `reduce_once` with the strict comparison the property needs -/
def reduceOnce (r : Ring) (t : Nat) : Nat := if rCheck r t then t else t - r.M

/-- `reduce_once` before /repo 1b55f20 -/
def reduceOnceAsIs (W : Nat) (r : Ring) (t : Nat) : Nat := if rCheckAsIs W r t then t else t - r.M

/-- `Reducer::add` = `reduce_once(lhs + rhs)`; `Reducer::dbl` = `reduce_once(target << 1)` -/
def rAdd (r : Ring) (a b : Nat) : Nat := reduceOnce r (a + b)
def rAddAsIs (W : Nat) (r : Ring) (a b : Nat) : Nat := reduceOnceAsIs W r (a + b)

/-- `Reducer::sub`: `lhs - rhs` or `reduce_negate(rhs - lhs)` -/
def rSub (r : Ring) (a b : Nat) : Nat := if a ≥ b then a - b else r.M - (b - a)

/-- `Reducer::neg` -/
def rNeg (r : Ring) (a : Nat) : Nat := if a = 0 then 0 else r.M - a

end Dashu.Model.NT
