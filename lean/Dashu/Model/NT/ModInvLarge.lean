import Dashu.Model.NT.ModKernels
import Dashu.Model.NT.Lehmer
/-
  C13 — `inv_large` of `integer/src/modular/div.rs`, mirrored (round 4): the inverse in a multi-word
  ring runs C12's mirrored extended-gcd kernels (`gcd::gcd_ext_word/_dword` = `gcdExtSmall`,
  `gcd::gcd_ext_in_place` = `lehmerExt`, Lehmer's loop with cofactor tracking) on
  `(modulus, residue)`, takes the cofactor magnitude `|b|` left in the modulus buffer, shifts it back
  by the normalisation shift and negates it when the sign says so.  `Proofs/NT/ModInvLarge.lean`
  proves the range claim `|b| < modulus` (the code's `debug_assert!(inv.is_valid(ring))`) and, from it
  and C12's `lehmerExt_correct`, that this is the inverse the `%`-level model specifies.  Core Lean only.
-/
namespace Dashu.Model.NT
open Dashu.Model

/-- tail of `inv_large`: `if !is_g_one { return None }`, `shl_in_place(modulus, shift)`,
    `negate_in_place` if `b_sign == Negative` -/
def invLargeFinish (r : Ring) (isGOne : Bool) (bMag : Nat) (bNeg : Bool) : Option Nat :=
  if !isGOne then none
  else
    let inv := bMag * 2 ^ r.k
    some (if bNeg then negRaw r inv else inv)

/-- `inv_large(ring, raw)`: `match raw_len { 0 => None, 1 => gcd_ext_word, 2 => gcd_ext_dword,
    _ => gcd_ext_in_place }` on the un-shifted modulus and residue -/
def invLarge (W : Nat) (r : Ring) (raw : Nat) : Except PanicKind (Option Nat) :=
  let modulus := r.M / 2 ^ r.k                     -- shr_in_place(&mut modulus, ring.shift)
  let v := raw / 2 ^ r.k                           -- shr_in_place(&mut raw.0, ring.shift)
  let rawLen := wordLen W v                        -- locate_top_word_plus_one
  if rawLen = 0 then .ok none
  else if rawLen ≤ 2 then
    match gcdExtSmall W modulus v with             -- gcd_ext_word / gcd_ext_dword: (g, _, b_sign), |b| in `modulus`
    | .error k => .error k
    | .ok (g, _, bMag, bNeg) => .ok (invLargeFinish r (g == 1) bMag bNeg)
  else
    match lehmerExt W modulus v with               -- gcd_ext_in_place: g in `raw`, |b| in `modulus`
    | .error k => .error k
    | .ok (g, bMag, bNeg) => .ok (invLargeFinish r (g == 1) bMag bNeg)   -- g_len == 1 && raw[0] == 1

/-- `Reduced::inv` with `inv_large` mirrored (single/double rings: num-modular's `invm`, mirrored in
    `Modular.lean`) -/
def invRawK (W : Nat) (r : Ring) (raw : Nat) : Except PanicKind (Option Nat) :=
  match r.kind with
  | .large => invLarge W r raw
  | _ => .ok (invRaw r raw)

def Elem.invK (W : Nat) (a : Elem) : Except PanicKind (Option Elem) :=
  match invRawK W a.ring a.raw with
  | .error k => .error k
  | .ok o => .ok (o.map (⟨a.ring, ·⟩))

/-- `Div for &Reduced` on the mirrored inverse and the mirrored single- and double-word product -/
def Elem.divK (W : Nat) (a b : Elem) : Except PanicKind Elem :=
  match b.invK W with
  | .error k => .error k
  | .ok none => .error .nonInvertible
  | .ok (some i) => a.mulK W i

end Dashu.Model.NT
