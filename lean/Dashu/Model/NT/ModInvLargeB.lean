import Dashu.Model.NT.ModInvLarge
import Dashu.Model.NT.ModAddK
import Dashu.Model.NT.ModInvm
/-
  C13 — the buffer plumbing of `inv_large` (`integer/src/modular/div.rs`, round 6): where `Model/NT/ModInvLarge.lean` says
  `r.M / 2^k`, `raw / 2^k`, `bMag * 2^k` and `negRaw`, the functions here run the word loops on the `n`-word buffers:

  * head: `debug_assert_zero!(shr_in_place(&mut modulus, ring.shift))`, `debug_assert_zero!(shr_in_place(&mut raw.0, ring.shift))`
    (C02's mirrored `Div.shrInPlace`), `locate_top_word_plus_one(&raw.0)`;
  * tail: `|b|` zero-extended to `n` words (`modulus[b_len..].fill(0)`), `shl_in_place(&mut modulus, ring.shift)` (the carry is
    dropped by the code), `debug_assert!(inv.is_valid(ring))` = `ReducedLarge::is_valid` on the buffer (length, `cmp_same_len(..).is_lt()`,
    `self.0[0] & ones_word(shift) == 0`), `negate_in_place` on the buffer (`negateInPlaceL`, C01's mirrored `sub_same_len_in_place_swap`).

  The extended-gcd kernels in between are C12's mirrored `gcdExtSmall` / `lehmerExt`, as before.  `Proofs/NT/ModInvLargeB.lean` proves
  that on valid residues no assertion fails and the result is that of `invLarge`.  The driver executes `invRawKB`.  Core Lean only.
-/
namespace Dashu.Model.NT
open Dashu.Model

/-- `ReducedLarge::is_valid(ring)` on buffers (`x & ones_word(shift) == 0` as `x % 2^shift = 0`) -/
def isValidL (W : Nat) (nd : List Nat) (shift : Nat) (ws : List Nat) : Bool :=
  ws.length == nd.length && Div.cmpSameLen ws nd == .lt && ws.headD 0 % 2 ^ shift == 0

/-- tail of `inv_large` on buffers -/
def invLargeFinishB (W : Nat) (r : Ring) (isGOne : Bool) (bMag : Nat) (bNeg : Bool) : Except PanicKind (Option Nat) :=
  if !isGOne then .ok none                                               -- if !is_g_one { return None }
  else
    let nd := r.ndWords W
    let modulus := wordsPad W r.n bMag                                   -- |b| in the modulus buffer, `modulus[b_len..].fill(0)`
    let (inv, _carry) := Div.shlInPlace W modulus r.k                    -- shl_in_place(&mut modulus, ring.shift);
    if !isValidL W nd r.k inv then .error (Div.assertErr "inv_large: debug_assert!(inv.is_valid(ring))")
    else if bNeg then (negateInPlaceL W nd inv).map (fun o => some (val W o))   -- negate_in_place(ring, &mut inv)
    else .ok (some (val W inv))

/-- `inv_large(ring, raw)` with its buffer plumbing -/
def invLargeB (W : Nat) (r : Ring) (raw : Nat) : Except PanicKind (Option Nat) :=
  let (modw, c1) := Div.shrInPlace W (r.ndWords W) r.k
  if c1 ≠ 0 then .error (Div.assertErr "inv_large: debug_assert_zero!(shr_in_place(&mut modulus, ring.shift))")
  else
    let (raww, c2) := Div.shrInPlace W (r.rawWords W raw) r.k
    if c2 ≠ 0 then .error (Div.assertErr "inv_large: debug_assert_zero!(shr_in_place(&mut raw.0, ring.shift))")
    else
      let modulus := val W modw
      let v := val W raww
      let rawLen := wordLen W v                                          -- locate_top_word_plus_one(&raw.0)
      if rawLen = 0 then .ok none
      else if rawLen ≤ 2 then
        match gcdExtSmall W modulus v with
        | .error k => .error k
        | .ok (g, _, bMag, bNeg) => invLargeFinishB W r (g == 1) bMag bNeg
      else
        match lehmerExt W modulus v with
        | .error k => .error k
        | .ok (g, bMag, bNeg) => invLargeFinishB W r (g == 1) bMag bNeg

/-- `Reduced::inv`: multi-word rings through `inv_large` with its buffer plumbing; single- and double-word rings through
    num-modular's `invm` on the primitive type (`invSDP`, round 5) -/
def invRawKB (W : Nat) (r : Ring) (raw : Nat) : Except PanicKind (Option Nat) :=
  match r.kind with
  | .large => invLargeB W r raw
  | _ => invRawKP W r raw

def Elem.invKB (W : Nat) (a : Elem) : Except PanicKind (Option Elem) :=
  match invRawKB W a.ring a.raw with
  | .error k => .error k
  | .ok o => .ok (o.map (⟨a.ring, ·⟩))

/-- `Div for &Reduced`: `None` ⇒ `panic_divide_by_invalid_modulo`, else `self * inv` (buffer-level `mul_normalized`) -/
def Elem.divKB (W : Nat) (a b : Elem) : Except PanicKind Elem :=
  match b.invKB W with
  | .error k => .error k
  | .ok none => .error .nonInvertible
  | .ok (some i) => a.mulKL W i

end Dashu.Model.NT
