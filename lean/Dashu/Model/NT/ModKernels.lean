import Dashu.Model.NT.Modular
import Dashu.Model.Int.NumModular
/-
  C13 — the division kernels behind `ConstDivisor::reduce` and the single- and double-word ring
  multiplications, mirrored (round 4): where `Model/NT/Modular.lean` says `% r.M`, the functions
  here run what the code runs —

  * `integer/src/div_const.rs`: `ConstSingleDivisor::{rem_word, rem_dword, rem_large}`,
    `ConstDoubleDivisor::{rem_dword, rem_large}` (two-step reductions through `shl_dword`);
  * `integer/src/div/mod.rs`: `fast_rem_by_normalized_word`, `fast_rem_by_normalized_dword`
    (word loops from the top word down);
  * num-modular's `div_rem_1by1 / 2by2` (compare-and-subtract) and the reciprocal dividers
    `div_rem_2by1 / 3by2 / 4by2` as mirrored by C02 in `Dashu.Model.NumModular`
    (Möller–Granlund Algorithms 4 and 5; reciprocal = `invert_word` / `invert_double_word`, which
    `PreMulInv2by1::new` / `PreMulInv3by2::new` precompute).

  The driver executes these (`rawOfNatK`, `mulRawK`, `sqrRawK`); `Proofs/NT/ModKernels.lean` proves
  them equal to the `%`-level definitions for every ring `ConstDivisor::new` builds.  Core Lean only.
-/
namespace Dashu.Model.NT
open Dashu.Model

/-- `Normalized2by1Divisor::div_rem_1by1(a).1` and `Normalized3by2Divisor::div_rem_2by2(a).1`:
    `if a < d { a } else { a - d }` (one compare-and-subtract; exact because `d` is normalised) -/
def remCmpSub (d a : Nat) : Nat := if a < d then a else a - d

/-- `div::fast_rem_by_normalized_word(words, fast_div_rhs)` (`integer/src/div/mod.rs`): the top word
    by `div_rem_1by1`, then every lower word `w` by `div_rem_2by1(double_word(w, rem))`.
    `words` little endian; `d` the normalised divisor, `v` its reciprocal. -/
def fastRemByNormalizedWord (W d v : Nat) : List Nat → Nat
  | [] => 0                                          -- debug_assert!(!words.is_empty())
  | [last] => remCmpSub d last
  | w :: w' :: rest =>
    (NumModular.div2by1 W d v (w + 2 ^ W * fastRemByNormalizedWord W d v (w' :: rest))).2

/-- the double-word loop of `fast_rem_by_normalized_dword` on an even number of words: the top double
    word by `div_rem_2by2`, every lower pair by `div_rem_4by2(double_word(w0, w1), rem)` -/
def fastRemDwordPairs (W d v : Nat) : List Nat → Nat
  | [] => 0
  | [_] => 0                                         -- not reached (even length)
  | [w0, w1] => remCmpSub d (w0 + 2 ^ W * w1)
  | w0 :: w1 :: w2 :: rest =>
    (NumModular.div4by2 W d v (w0 + 2 ^ W * w1) (fastRemDwordPairs W d v (w2 :: rest))).2

/-- `div::fast_rem_by_normalized_dword(words, fast_div_rhs)` (`words.len() ≥ 2`): pairs from the top;
    "there might be a single word left, do a 3by2 division" -/
def fastRemByNormalizedDword (W d v : Nat) (words : List Nat) : Nat :=
  if words.length % 2 = 0 then fastRemDwordPairs W d v words
  else match words with
    | [] => 0
    | w0 :: rest => (NumModular.div3by2 W d v w0 (fastRemDwordPairs W d v rest)).2

/-- `ConstSingleDivisor::rem_word` -/
def remWordSK (W : Nat) (r : Ring) (x : Nat) : Nat :=
  if r.k = 0 then remCmpSub r.M x
  else (NumModular.div2by1 W r.M (NumModular.invertWord W r.M) (x * 2 ^ r.k)).2

/-- `ConstSingleDivisor::rem_dword`: shift = 0: `div_rem_1by1(hi)` then `div_rem_2by1(lo, r1)`;
    otherwise `shl_dword` → `(n0, n1, n2)`, `div_rem_2by1(n1, n2)` then `div_rem_2by1(n0, r1)` -/
def remDwordSK (W : Nat) (r : Ring) (x : Nat) : Nat :=
  let v := NumModular.invertWord W r.M
  if r.k = 0 then
    let lo := x % 2 ^ W
    let hi := x / 2 ^ W
    let r1 := remCmpSub r.M hi
    (NumModular.div2by1 W r.M v (lo + 2 ^ W * r1)).2
  else
    let s := x * 2 ^ r.k
    let n0 := s % 2 ^ W
    let n12 := s / 2 ^ W
    let r1 := (NumModular.div2by1 W r.M v n12).2
    (NumModular.div2by1 W r.M v (n0 + 2 ^ W * r1)).2

/-- `ConstSingleDivisor::rem_large` -/
def remLargeSK (W : Nat) (r : Ring) (x : Nat) : Nat :=
  let v := NumModular.invertWord W r.M
  let rem := fastRemByNormalizedWord W r.M v (natWords W x)
  if r.k ≠ 0 then (NumModular.div2by1 W r.M v (rem * 2 ^ r.k)).2 else rem

/-- `ConstDoubleDivisor::rem_dword`: `div_rem_2by2`, or `shl_dword` then `div_rem_3by2(n0, (n1, n2))` -/
def remDwordDK (W : Nat) (r : Ring) (x : Nat) : Nat :=
  if r.k = 0 then remCmpSub r.M x
  else
    let s := x * 2 ^ r.k
    (NumModular.div3by2 W r.M (NumModular.invertDoubleWord W r.M) (s % 2 ^ W) (s / 2 ^ W)).2

/-- `ConstDoubleDivisor::rem_large` -/
def remLargeDK (W : Nat) (r : Ring) (x : Nat) : Nat :=
  let v := NumModular.invertDoubleWord W r.M
  let rem := fastRemByNormalizedDword W r.M v (natWords W x)
  if r.k ≠ 0 then
    let s := rem * 2 ^ r.k
    (NumModular.div3by2 W r.M v (s % 2 ^ W) (s / 2 ^ W)).2
  else rem

/-- `ReducedWord/Dword/Large::from_ubig` with the mirrored kernels (multi-word rings: `rem_repr`, whose
    `div_rem_in_place` is C02's) -/
def rawOfNatK (W : Nat) (r : Ring) (x : Nat) : Nat :=
  match r.kind with
  | .single => if x < 2 ^ W then remWordSK W r x else if x < 2 ^ (2 * W) then remDwordSK W r x else remLargeSK W r x
  | .double => if x < 2 ^ (2 * W) then remDwordDK W r x else remLargeDK W r x
  | .large => remReprL W r x

/-- `IntoRing for UBig` -/
def reduceNatK (W : Nat) (r : Ring) (x : Nat) : Elem := ⟨r, rawOfNatK W r x⟩

/-- `IntoRing for IBig` -/
def reduceIntK (W : Nat) (r : Ring) (x : Int) : Elem :=
  let e := rawOfNatK W r x.natAbs
  if x < 0 then ⟨r, negRaw r e⟩ else ⟨r, e⟩

/-- `PreMulInv2by1::mul` = `div_rem_2by1(wmul(lhs >> shift, rhs)).1`;
    `PreMulInv3by2::mul` = `div_rem_4by2(lo, hi).1` of the four-word product -/
def mulRawK (W : Nat) (r : Ring) (a b : Nat) : Nat :=
  match r.kind with
  | .large => mulNormalized W r a b
  | .single => (NumModular.div2by1 W r.M (NumModular.invertWord W r.M) ((a / 2 ^ r.k) * b)).2
  | .double =>
    let p := (a / 2 ^ r.k) * b
    (NumModular.div4by2 W r.M (NumModular.invertDoubleWord W r.M) (p % 2 ^ (2 * W)) (p / 2 ^ (2 * W))).2

/-- `PreMulInv2by1::sqr` / `PreMulInv3by2::sqr` -/
def sqrRawK (W : Nat) (r : Ring) (a : Nat) : Nat :=
  match r.kind with
  | .large => mulNormalized W r a a
  | .single => (NumModular.div2by1 W r.M (NumModular.invertWord W r.M) ((a * a) / 2 ^ r.k)).2
  | .double =>
    let p := (a * a) / 2 ^ r.k
    (NumModular.div4by2 W r.M (NumModular.invertDoubleWord W r.M) (p % 2 ^ (2 * W)) (p / 2 ^ (2 * W))).2

def Elem.mulK (W : Nat) (a b : Elem) : Except PanicKind Elem :=
  if sameRing a b then .ok ⟨a.ring, mulRawK W a.ring a.raw b.raw⟩ else .error .differentRings

def Elem.sqrK (W : Nat) (a : Elem) : Elem := ⟨a.ring, sqrRawK W a.ring a.raw⟩

-- ---------------------------------------------------------------- pow.rs of single- and double-word rings on the mirrored products

/-- `pow_helper` with `ring.0.sqr` / `ring.0.mul` running the mirrored dividers -/
def powHelperK (W : Nat) (r : Ring) (rhs exp : Nat) : Nat → Nat → Nat
  | 0, res => res
  | bits + 1, res =>
    let res := sqrRawK W r res
    let res := if exp.testBit bits then mulRawK W r res rhs else res
    powHelperK W r rhs exp bits res

/-- `pow_word` -/
def powWordK (W : Nat) (r : Ring) (raw exp : Nat) : Nat :=
  match exp with
  | 0 => oneRaw r
  | 1 => raw
  | 2 => sqrRawK W r raw
  | _ => powHelperK W r raw exp (bitLen exp - 1) raw

/-- `single::pow` / `double::pow` -/
def powSDK (W : Nat) (r : Ring) (raw exp : Nat) : Nat :=
  match (natWords W exp).reverse with
  | [] => powWordK W r raw 0
  | top :: rest => rest.foldl (fun res w => powHelperK W r raw w W res) (powWordK W r raw top)

def powRawK (W : Nat) (r : Ring) (raw exp : Nat) : Nat :=
  match r.kind with
  | .large => powL W r raw exp
  | _ => powSDK W r raw exp

/-- `Reduced::pow` -/
def Elem.powK (W : Nat) (a : Elem) (exp : Nat) : Elem := ⟨a.ring, powRawK W a.ring a.raw exp⟩

end Dashu.Model.NT
