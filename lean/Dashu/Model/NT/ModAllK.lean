import Dashu.Model.NT.ModLargeK
import Dashu.Model.NT.ModInvm
/-
  C13 — `Div for &Reduced` with every kernel mirrored (round 5): `rhs.inv()` through num-modular's `invm` on
  the primitive type (`ModInvm.lean`) resp. `inv_large` (`ModInvLarge.lean`), then the product through the
  single- and double-word dividers (`ModKernels.lean`) resp. `mul_normalized` on buffers (`ModLargeK.lean`).
  Core Lean only.
-/
namespace Dashu.Model.NT
open Dashu.Model

/-- `Div for &Reduced`: `None` ⇒ `panic_divide_by_invalid_modulo`, else `self * inv` -/
def Elem.divKA (W : Nat) (a b : Elem) : Except PanicKind Elem :=
  match b.invKP W with
  | .error k => .error k
  | .ok none => .error .nonInvertible
  | .ok (some i) => a.mulKL W i

end Dashu.Model.NT
