import Dashu.Model.NT.ModLargeK
/-
  C13 — `large::pow` / `pow_nontrivial` (integer/src/modular/pow.rs) over an arbitrary squaring `sqr`
  (`sqr_in_place`) and product `mul` (`mul_normalized`): the same table construction and windowed loop as
  `oddPowTable` / `powWindowLoop` / `powL` of `Model/NT/Modular.lean`, so that the driver can run them on the
  BUFFER-level `sqr_normalized` / `mul_normalized` of `ModLargeK.lean` (C01's mirrored multiplication, C02's
  mirrored `div_rem_in_place`).  `Proofs/NT/ModPowK.lean`: instantiated with the `%`-level product they are
  `powL` definitionally (by induction), and two instantiations that agree on `Valid` operands give the same
  power.  Core Lean only.
-/
namespace Dashu.Model.NT
open Dashu.Model

/-- the precomputed table of `pow_nontrivial`: `cur = mul_normalized(ring, prev, &val.0)` -/
def oddPowTableG (mul : Nat → Nat → Nat) (raw sq : Nat) : Nat → List Nat
  | 0 => []
  | cnt + 1 =>
    let t := oddPowTableG mul raw sq cnt
    t ++ [match t.getLast? with
          | none => raw
          | some p => mul p sq]

/-- main loop of `pow_nontrivial` (`sqr` = `sqr_in_place`, `mul` = `mul_normalized(ring, &val.0, entry)`) -/
def powWindowLoopG (sqr : Nat → Nat) (mul : Nat → Nat → Nat) (exp wl : Nat) (table : List Nat) : Nat → Nat → Nat → Nat
  | 0, _, val => val
  | fuel + 1, bit, val =>
    let (bit, val) :=
      if exp.testBit bit then
        let window := (exp * 2 ^ wl / 2 ^ (bit + 1)) % 2 ^ wl
        let tz := trailingZeros window
        let numBits := wl - tz
        let window := window / 2 ^ (wl - numBits)
        let val := (List.range (numBits - 1)).foldl (fun v _ => sqr v) val
        let bit := bit - (numBits - 1)
        let entry := table.getD (window / 2) 0
        (bit, mul val entry)
      else (bit, val)
    if bit = 0 then val
    else powWindowLoopG sqr mul exp wl table fuel (bit - 1) (sqr val)

/-- `large::pow` -/
def powLG (W : Nat) (r : Ring) (sqr : Nat → Nat) (mul : Nat → Nat → Nat) (raw exp : Nat) : Nat :=
  if exp = 0 then oneRaw r
  else if exp = 1 then raw
  else
    let wl := chooseWindowLen W (bitLen exp)
    let sq := sqr raw
    let table := oddPowTableG mul raw sq (2 ^ (wl - 1))
    powWindowLoopG sqr mul exp wl table (bitLen exp) (bitLen exp - 2) sq

/-- `large::pow` on buffers: every `sqr_in_place` through `sqr_normalized`, every table / window product
    through `mul_normalized` (not the squaring shortcut, even for equal operands — as in the code) -/
def powLK (W : Nat) (r : Ring) (raw exp : Nat) : Nat :=
  powLG W r (fun v => unwrapRaw r (mulNormalizedWordsL W r true v v))
    (fun a b => unwrapRaw r (mulNormalizedWordsL W r false a b)) raw exp

/-- work estimate (word operations) of one buffer-level `pow`: the driver runs `powLK` below this budget and
    the value-level `powL` (proved equal) above it, to keep the check's running time bounded -/
def powBufferBudget : Nat := 150000

/-- `Reduced::pow` with every kernel mirrored -/
def powRawKL (W : Nat) (r : Ring) (raw exp : Nat) : Nat :=
  match r.kind with
  | .large => if r.n * r.n * bitLen exp ≤ powBufferBudget then powLK W r raw exp else powL W r raw exp
  | _ => powSDK W r raw exp

def Elem.powKL (W : Nat) (a : Elem) (exp : Nat) : Elem := ⟨a.ring, powRawKL W a.ring a.raw exp⟩

end Dashu.Model.NT
