/-
  Prelude onto which `vlib/extract.py` maps the whitelisted callees of dashu's glue layer
  (DESIGN §2.1, T7/T1/T8).  Magnitudes (`TypedRepr`, `UBig`) and signed values (`Repr`, `IBig`)
  are both `Int` here (magnitudes are the non-negative ones); kernels are taken at their
  specification — their own correctness is the subject of the word/dispatch-level theorems.
  Core Lean only.
-/
namespace Dashu

inductive Sign where
  | Positive | Negative
  deriving DecidableEq, Repr

inductive Rounding where
  | NoOp | AddOne | SubOne
  deriving DecidableEq, Repr

/-- `dashu_base::Sign`: `Positive > Negative` (base/src/sign.rs `impl Ord for Sign`) -/
instance : Ord Sign where
  compare a b := match a, b with
    | .Positive, .Negative => .gt
    | .Negative, .Positive => .lt
    | _, _ => .eq

instance : Mul Sign where
  mul a b := if a = b then .Positive else .Negative

instance : Neg Sign where
  neg a := match a with | .Positive => .Negative | .Negative => .Positive

/-- the signed value of a (sign, magnitude) pair -/
def Sign.apply (s : Sign) (m : Int) : Int := match s with | .Positive => m | .Negative => -m

namespace GluePrelude

-- binary operators of the source text
@[inline] def add_ {α β γ} [HAdd α β γ] (a : α) (b : β) : γ := a + b
@[inline] def sub_ {α β γ} [HSub α β γ] (a : α) (b : β) : γ := a - b
@[inline] def mul_ {α β γ} [HMul α β γ] (a : α) (b : β) : γ := a * b
/-- `/` and `%` on magnitudes (non-negative): floor division; the divisor-zero panic is stated in
    the theorems as the guard `b ≠ 0` and modelled in the dispatch layer -/
@[inline] def div_ (a b : Int) : Int := a / b
@[inline] def rem_ (a b : Int) : Int := a % b
@[inline] def eq_ {α} [DecidableEq α] (a b : α) : Bool := decide (a = b)
@[inline] def ne_ {α} [DecidableEq α] (a b : α) : Bool := !decide (a = b)
@[inline] def lt_ {α} [Ord α] (a b : α) : Bool := compare a b == .lt
@[inline] def le_ {α} [Ord α] (a b : α) : Bool := compare a b != .gt
@[inline] def gt_ {α} [Ord α] (a b : α) : Bool := compare a b == .gt
@[inline] def ge_ {α} [Ord α] (a b : α) : Bool := compare a b != .lt

class HasNot (α : Type) where not_ : α → α
/-- `!IBig(x)` is two's complement NOT: −x − 1 -/
instance : HasNot Int := ⟨fun x => -x - 1⟩
instance : HasNot Bool := ⟨fun b => !b⟩
@[inline] def not_ {α} [HasNot α] (a : α) : α := HasNot.not_ a
@[inline] def neg_ {α} [Neg α] (a : α) : α := -a

-- methods on magnitudes / reprs
@[inline] def add (a b : Int) : Int := a + b
@[inline] def sub (a b : Int) : Int := a - b
@[inline] def mul (a b : Int) : Int := a * b
@[inline] def div (a b : Int) : Int := a / b
@[inline] def rem (a b : Int) : Int := a % b
@[inline] def div_rem (a b : Int) : Int × Int := (a / b, a % b)
@[inline] def sub_signed (a b : Int) : Int := a - b
/-- `Repr::with_sign`: set the sign of a value (zero stays zero) -/
@[inline] def with_sign (r : Int) (s : Sign) : Int := s.apply (Int.ofNat r.natAbs)
@[inline] def into_typed (r : Int) : Int := r
@[inline] def as_ref {α} (r : α) : α := r
@[inline] def is_zero (r : Int) : Bool := decide (r = 0)
@[inline] def add_one (r : Int) : Int := r + 1
@[inline] def sub_one (r : Int) : Int := r - 1
@[inline] def bitand (a b : Int) : Int := Int.ofNat (a.toNat &&& b.toNat)
@[inline] def bitor (a b : Int) : Int := Int.ofNat (a.toNat ||| b.toNat)
@[inline] def bitxor (a b : Int) : Int := Int.ofNat (a.toNat ^^^ b.toNat)
/-- `and_not(a, b) = a & !b` on magnitudes -/
@[inline] def and_not (a b : Int) : Int := Int.ofNat (a.toNat &&& (a.toNat ^^^ b.toNat))
@[inline] def min (a b : Int) : Int := if a ≤ b then a else b
@[inline] def max (a b : Int) : Int := if a ≤ b then b else a
@[inline] def mkIBig (r : Int) : Int := r
@[inline] def mkUBig (r : Int) : Int := r

class HasSign (α : Type) where sign : α → Sign
instance : HasSign Int := ⟨fun i => if i < 0 then .Negative else .Positive⟩
/-- a rational as (numerator, denominator): the sign is the numerator's -/
instance : HasSign (Int × Int) := ⟨fun p => if p.1 < 0 then .Negative else .Positive⟩
@[inline] def sign {α} [HasSign α] (a : α) : Sign := HasSign.sign a

/-- `BitTest::bit` on an `IBig` (two's complement) -/
@[inline] def bit (i : Int) (n : Int) : Bool := decide ((i >>> n.toNat) % 2 = 1)
@[inline] def numerator (p : Int × Int) : Int := p.1
@[inline] def denominator (p : Int × Int) : Int := p.2
@[inline] def cmp {α} [Ord α] (a b : α) : Ordering := compare a b
@[inline] def abs_cmp (a b : Int) : Ordering := compare a.natAbs b.natAbs
@[inline] def is_le (o : Ordering) : Bool := o != .gt
@[inline] def is_lt (o : Ordering) : Bool := o == .lt
@[inline] def is_ge (o : Ordering) : Bool := o != .lt
@[inline] def is_gt (o : Ordering) : Bool := o == .gt
@[inline] def is_eq (o : Ordering) : Bool := o == .eq
@[inline] def is_ne (o : Ordering) : Bool := o != .eq
@[inline] def neg (r : Int) : Int := -r

end GluePrelude
end Dashu
