import Dashu.Model.Float.Repr
import Dashu.Model.Float.RoundOps
/-
  C15 — what every call form of a dashu-float operator has to return (core Lean only; executed by `drive_forms`).

  Built on the float model of C03/C10 (`Model/Float/{Repr,RoundOps}.lean`: `ctxAddSub`, `ctxMul`, `opMul`, `reprDiv`,
  `ctxDiv`, `reprRound`, `fWithPrecision`).  Mirrored here, function by function, are the operator-side bodies that
  model does not have:

    float/src/add.rs      add_val_val / add_val_ref / add_ref_val / add_ref_ref    → `opAddSub`  (= `Proofs/Float/Review.opAddSub`,
                                                                                     `Props/C15Values.opAddSub_eq_review`)
    float/src/div.rs      Context::repr_rem                                        → `reprRem`
                          align_as_int                                             → `alignAsInt`
                          DivEuclid / RemEuclid / DivRemEuclid BY-VALUE bodies     → `fDivEuclid`, `fRemEuclid`, `fDivRemEuclid`
                          the debug assertion at the head of repr_div              → `opDiv`
    float/src/shift.rs    Shl / ShlAssign / Shr / ShrAssign                        → `fShl`, `fShr`
    float/src/fbig.rs     FBig::from_parts, ZERO, ONE;  convert.rs From<IBig/UBig/prim> for FBig → `fromParts`, `fromInt`
    float/src/convert.rs  Context::convert_int                                     → `convertInt`
    float/src/iter.rs     Sum / Product                                            → `fSum`, `fProduct`

  Panics are values: `Except String _` carrying the protocol name of the panic kind.  `isize` exponent arithmetic of
  shift.rs is checked (the harness is a debug build): leaving the `isize` range is the overflow panic.
-/
namespace Dashu.Model.Forms
open Dashu.Model.Float

/-- protocol names of the panic kinds that the operator bodies can raise -/
def kInfinite : String := "Infinite"
def kDivZero : String := "DivideByZero"
def kUnlimited : String := "UnlimitedPrecision"
/-- `debug_assert!(lhs.digits() <= self.precision.saturating_add(rhs.digits()))` at the head of `Context::repr_div`
    (text since 5768014; source line removed by the harness: `forms_rt2::norm_result`) -/
def kDivAssert : String :=
  "Undocumented(float/src/div.rs|assertion_failed:_lhs.digits()_<=_self.precision.saturating_add(rhs.digits()))"
def kAddOverflow : String := "Undocumented(float/src/shift.rs|attempt_to_add_with_overflow)"
def kSubOverflow : String := "Undocumented(float/src/shift.rs|attempt_to_subtract_with_overflow)"

def ofFPanic : FPanic → String := FPanic.name

/-- an operand of a float operator: a finite `FBig` (representation + context precision) or an infinity -/
inductive FOp where
  | fin (x : FBigM)
  | inf (neg : Bool) (prec : Nat)
  deriving DecidableEq

def FOp.prec : FOp → Nat
  | .fin x => x.prec
  | .inf _ p => p

/-- `Context::max` (the larger precision NUMBER; `0` = unlimited is the smallest for it) -/
def ctxMax (a b : Nat) : Nat := if a > b then a else b

/-- `FBig::from_parts(significand, exponent)`: precision = digit count of the significand as given (at least 1) -/
def fromParts (B : Nat) (s e : Int) : FBigM := ⟨FRepr.new B s e, max (digitsI B s) 1⟩

/-- `From<IBig> / From<UBig> / From<uN> / From<iN> for FBig` = `from_parts(n, 0)` -/
def fromInt (B : Nat) (n : Int) : FBigM := fromParts B n 0

/-- `Context::convert_int(n).value()` = `repr_round(Repr::new(n, 0))` -/
def convertInt (B : Nat) (m : Mode) (c : Coarse) (p : Nat) (n : Int) : FRepr := (reprRound B m c p (FRepr.new B n 0)).1

/-! ### add / sub -/

/-- the four ownership forms of `FBig ± FBig` at `Context::max` precision `p`: a zero operand returns the other one
    (sign applied for `0 - b`) ROUNDED to `p` by `context.repr_round(..).value()` / `repr_round_ref` (since 164990d; before
    that fix the operand came back unrounded), otherwise the alignment code of `Context::add/sub` -/
def opAddSub (B : Nat) (m : Mode) (c : Coarse) (dub : Int → Nat) (p : Nat) (lhs rhs : FRepr) (rs : Int) : FRepr :=
  if lhs.isZero then (reprRound B m c p ⟨rs * rhs.signif, rhs.exp⟩).1
  else if rhs.isZero then (reprRound B m c p lhs).1
  else (ctxAddSub B m c dub p lhs rhs rs).1

/-! ### div -/

/-- the operator forms `a / b`, `a /= b` (`impl_div_or_rem_for_fbig`): `Context::repr_div` called directly, so its debug
    assertion on the dividend's length is reachable (after the finiteness and limited-precision checks, before the
    division that detects a zero divisor).  `self.precision.saturating_add(rhs.digits())` is the `Nat` sum here: the
    saturated value `usize::MAX` is not exceeded by any digit count either (Nat/usize gap, no behaviour lost). -/
def opDiv (B : Nat) (m : Mode) (p : Nat) (lhs rhs : FRepr) : Except String FRepr :=
  if p = 0 then .error kUnlimited
  else if lhs.digits B > p + rhs.digits B then .error kDivAssert
  else match reprDiv B m p lhs rhs with
    | .ok r => .ok r.1
    | .error k => .error (ofFPanic k)

/-! ### rem -/

/-- the significand `Context::repr_rem` computes before rounding, on the magnitudes `a = |lhs|`, `b = |rhs|` aligned to the
    smaller exponent: the remainder of smallest magnitude (`r1` with the dividend's sign or `r2 = |rhs| − r1` with the
    opposite sign, ties to `r2`).  Three branches by `lhs.exponent.cmp(&rhs.exponent)`.
    `Ordering::Greater` branch: the residue of `|lhs|·B^shift` is formed in the ring `ConstDivisor::new(|rhs|)`
    (`IntoRing`, `pow`, `*`, `residue`) — taken here at its specification `% |rhs|`; `Props/C15LinkRem` proves, by import of
    C13's theorems, that the ring computation on C13's mirrored model returns exactly these `r1`, `r2`. -/
def remSignif (B : Nat) (lhs rhs : FRepr) : Int :=
    let ls : Int := if lhs.signif < 0 then -1 else 1
    let a : Nat := lhs.signif.natAbs
    let b : Nat := rhs.signif.natAbs
      if lhs.exp = rhs.exp then
        let r1 := a % b
        let r2 := b - r1
        if r1 < r2 then ls * (r1 : Int) else -ls * (r2 : Int)
      else if lhs.exp > rhs.exp then
        let shift := (lhs.exp - rhs.exp).toNat
        let r1 := (a * B ^ shift) % b
        let r2 := (b - r1) % b
        if r1 < r2 then ls * (r1 : Int) else -ls * (r2 : Int)
      else
        let shift := (rhs.exp - lhs.exp).toNat
        let hl := splitDigits B (a : Int) shift
        let r1 : Int := Int.emod hl.1 (b : Int)
        let r2 : Int := (b : Int) - r1
        let r1' := shlDigits B r1 shift + hl.2
        let r2' := shlDigits B r2 shift - hl.2
        if r1' < r2' then ls * r1' else -ls * r2'

/-- `Context::repr_rem`: `remSignif` at the smaller exponent, then `repr_round` (a zero remainder is `Repr::zero()`);
    a zero divisor panics in the integer `%` / `ConstDivisor::new` of every branch -/
def reprRem (B : Nat) (m : Mode) (c : Coarse) (p : Nat) (lhs rhs : FRepr) : Except String (Rounded FRepr) :=
  if rhs.signif = 0 then .error kDivZero
  else
    let signif := remSignif B lhs rhs
    let e := min lhs.exp rhs.exp
    if signif = 0 then .ok (⟨0, 0⟩, none)
    else .ok (reprRound B m c p (FRepr.new B signif e))

/-! ### Euclidean division (`DivEuclid`, `RemEuclid`, `DivRemEuclid` for `FBig`) -/

/-- `align_as_int(lhs, rhs)`: both significands scaled to the smaller exponent -/
def alignAsInt (B : Nat) (x y : FRepr) : Int × Int :=
  let ediff := x.exp - y.exp
  if ediff ≥ 0 then (shlDigits B x.signif ediff.toNat, y.signif)
  else (x.signif, shlDigits B y.signif (-ediff).toNat)

/-- the tail shared by the by-value bodies of `rem_euclid` and `div_rem_euclid`:
    `context.convert_int(r).value()`, then `exponent += r_exponent` unless the significand is zero -/
def euclidRemTail (B : Nat) (m : Mode) (c : Coarse) (p : Nat) (rExp : Int) (r : Int) : FBigM :=
  let v := convertInt B m c p r
  ⟨if v.signif ≠ 0 then ⟨v.signif, v.exp + rExp⟩ else v, p⟩

/-- `impl DivEuclid<FBig> for FBig` (by value): `num.div_euclid(den)` of the aligned integers -/
def fDivEuclid (B : Nat) (x y : FBigM) : Except String Int :=
  let nd := alignAsInt B x.repr y.repr
  if nd.2 = 0 then .error kDivZero else .ok (nd.1 / nd.2)

/-- `impl RemEuclid<FBig> for FBig` (by value) -/
def fRemEuclid (B : Nat) (m : Mode) (c : Coarse) (x y : FBigM) : Except String FBigM :=
  let rExp := min x.repr.exp y.repr.exp
  let p := ctxMax x.prec y.prec
  let nd := alignAsInt B x.repr y.repr
  if nd.2 = 0 then .error kDivZero else .ok (euclidRemTail B m c p rExp (nd.1 % nd.2))

/-- `impl DivRemEuclid<FBig> for FBig` (by value) -/
def fDivRemEuclid (B : Nat) (m : Mode) (c : Coarse) (x y : FBigM) : Except String (Int × FBigM) :=
  let rExp := min x.repr.exp y.repr.exp
  let p := ctxMax x.prec y.prec
  let nd := alignAsInt B x.repr y.repr
  if nd.2 = 0 then .error kDivZero else .ok (nd.1 / nd.2, euclidRemTail B m c p rExp (nd.1 % nd.2))

/-! ### shifts -/

def isizeMin : Int := -(2 ^ 63 : Int)
def isizeMax : Int := (2 ^ 63 : Int) - 1

/-- `Shl<isize>` / `ShlAssign<isize>`: `exponent += rhs` unless the value is zero (checked `isize` addition) -/
def fShl (x : FBigM) (n : Int) : Except String FBigM :=
  if x.repr.isZero then .ok x
  else
    let e := x.repr.exp + n
    if e < isizeMin ∨ e > isizeMax then .error kAddOverflow else .ok ⟨⟨x.repr.signif, e⟩, x.prec⟩

/-- `Shr<isize>` / `ShrAssign<isize>`: `exponent -= rhs` unless the value is zero -/
def fShr (x : FBigM) (n : Int) : Except String FBigM :=
  if x.repr.isZero then .ok x
  else
    let e := x.repr.exp - n
    if e < isizeMin ∨ e > isizeMax then .error kSubOverflow else .ok ⟨⟨x.repr.signif, e⟩, x.prec⟩

/-! ### the operation table: (family, operands) ↦ required result of every call form -/

/-- result of an operation: an `FBig`, an integer, or both (`div_rem_euclid`) -/
inductive FRes where
  | f (x : FBigM)
  | i (q : Int)
  | qf (q : Int) (x : FBigM)
  deriving DecidableEq

/-- the estimators and the coarse test the bodies consult are parameters (the driver passes the bit-exact `f32`
    replicas of `digits_ub` / `digits_lb`) -/
structure Est where
  dub : Int → Nat
  dlb : Int → Nat

/-- `FBig ∘ FBig` through an OPERATOR form (`+ - * / %`, their assign forms, and the primitive-operand forms after
    `FBig::from(prim)`), and the trait methods `div_euclid`, `rem_euclid`, `div_rem_euclid` -/
def opBin (B : Nat) (m : Mode) (est : Est) (fam : String) (x y : FBigM) : Option (Except String FRes) :=
  let c := coarseNone
  let p := ctxMax x.prec y.prec
  match fam with
  | "add" => some (.ok (.f ⟨opAddSub B m c est.dub p x.repr y.repr 1, p⟩))
  | "sub" => some (.ok (.f ⟨opAddSub B m c est.dub p x.repr y.repr (-1), p⟩))
  | "mul" => some (.ok (.f ⟨(opMul B m c p x.repr y.repr).1, p⟩))
  | "div" => some ((opDiv B m p x.repr y.repr).map fun r => .f ⟨r, p⟩)
  | "rem" => some ((reprRem B m c p x.repr y.repr).map fun r => .f ⟨r.1, p⟩)
  | "diveuclid" => some ((fDivEuclid B x y).map .i)
  | "remeuclid" => some ((fRemEuclid B m c x y).map .f)
  | "divremeuclid" => some ((fDivRemEuclid B m c x y).map fun qr => .qf qr.1 qr.2)
  | _ => none

/-- the `Context` METHOD form at `Context::max` of the operand contexts (the code as it is: `Context::mul` and
    `Context::div` pre-shrink over-long operands; `Context::add/sub` round a lone non-zero operand, as the operators now do) -/
def ctxBin (B : Nat) (m : Mode) (est : Est) (fam : String) (x y : FBigM) : Option (Except String FRes) :=
  let c := coarseNone
  let p := ctxMax x.prec y.prec
  match fam with
  | "add" => some (.ok (.f ⟨(ctxAddSub B m c est.dub p x.repr y.repr 1).1, p⟩))
  | "sub" => some (.ok (.f ⟨(ctxAddSub B m c est.dub p x.repr y.repr (-1)).1, p⟩))
  | "mul" => some (.ok (.f ⟨(ctxMul false B m c p x.repr y.repr).1, p⟩))
  | "div" => some (match ctxDiv B m c est.dub est.dlb p x.repr y.repr with
      | .ok r => .ok (.f ⟨r.1, p⟩)
      | .error k => .error (ofFPanic k))
  | "rem" => some ((reprRem B m c p x.repr y.repr).map fun r => .f ⟨r.1, p⟩)
  | _ => none

/-- every float operation starts with `assert_finite*` on its operands -/
def withFinite (a b : FOp) (k : FBigM → FBigM → Option (Except String FRes)) : Option (Except String FRes) :=
  match a, b with
  | .fin x, .fin y => k x y
  | _, _ => some (.error kInfinite)

/-- `Sum`: `iter.fold(FBig::ZERO, FBig::add)`; `Product`: `iter.fold(FBig::ONE, FBig::mul)` — the left fold of the
    operator form, starting from the unlimited-precision constant -/
def fFold (B : Nat) (m : Mode) (est : Est) (sum : Bool) (items : List FOp) : Except String FBigM :=
  let init : FBigM := if sum then FBigM.zero else FBigM.one
  items.foldl (fun acc it =>
    match acc, it with
    | .error k, _ => .error k
    | .ok _, .inf _ _ => .error kInfinite
    | .ok a, .fin x =>
      match opBin B m est (if sum then "add" else "mul") a x with
      | some (.ok (.f r)) => .ok r
      | some (.error k) => .error k
      | _ => .error "bad") (.ok init)

end Dashu.Model.Forms
