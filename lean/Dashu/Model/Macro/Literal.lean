import Dashu.Model.Serde.Num
import Dashu.Gen.MacroGen
/-
  C20 — the literal macros `ubig! ibig! fbig! dbig! rbig!` and their `static_` variants
  (core Lean only).  Mirrors macros/src/parse/{int,float,ratio,common}.rs.

  A macro invocation is a list of tokens (the lexing is rustc's; the generator builds token lists and
  level (ii) of the tie checks with the real compiler that they are lexed that way).

  Since /repo e26a9db the token loops enforce the documented grammar (one sign per component, `/`
  between numerator and denominator, one `~`, one `base`; `fbig!` refuses a second sign), i.e. the
  code behaves as `intLiteral` / `ratLiteral` / `floatLiteral` below; the `…AsIs` mirrors describe
  the loops *before* that commit and serve the counterexample theorems.

  For every macro three things are defined:
    * `…AsIs`   the token state machine of the code (before e26a9db), followed by the run-time parser
                (`UBig::from_str_radix` & co. = `Model/Text/Spec`, float `from_str_native` =
                `Serde.parseNativeRaw`) — what the macro *does*;
    * `rt…`     what the run-time parser says about the same text (tokens concatenated; `base N` ↦
                `from_str_radix(_, N)`; `~` ↦ `Relaxed`; fbig's single `_` after the sign removed);
    * the literal is *accepted with value v* iff both agree on `v`; everything else must be a
      compile error (`none`).  On the documented grammar the two agree (Props/C20).
  and the three code generators as functions from the value to the data they emit.
-/
namespace Dashu.Model.Macro
open Dashu.Model.Serde
open Dashu.Model.Text (parseDefaultSpec parseRadixSpec bitLen)

inductive Tok where
  | lit (s : Bytes)       -- TokenTree::Literal, `to_string()`
  | ident (s : Bytes)     -- TokenTree::Ident
  | punct (c : Nat)       -- TokenTree::Punct
  | group (s : Bytes)     -- TokenTree::Group (any delimiter)
  deriving DecidableEq, Repr

def Tok.text : Tok → Bytes
  | .lit s => s
  | .ident s => s
  | .punct c => [c]
  | .group s => [40] ++ s ++ [41]

def baseKw : Bytes := [98, 97, 115, 101]   -- "base"

/-- `str::parse::<u32>()` -/
def parseU32 (s : Bytes) : Option Nat :=
  let body := match s with
    | 43 :: r => r
    | r => r
  if body.isEmpty then none
  else if body.all (fun c => 48 ≤ c && c ≤ 57) then
    let m : Nat := body.foldl (fun a c => a * 10 + (c - 48)) 0
    if m < 2 ^ 32 then some m else none
  else none

def ubigRadixOpt (s : Bytes) (r : Nat) : Option Nat :=
  match parseRadixSpec false s r with
  | .ok v => some v.toNat
  | .error _ => none

def ubigPrefixOpt (s : Bytes) (dflt : Nat) : Option (Nat × Nat) :=
  match parseDefaultSpec false s dflt with
  | .ok (v, r) => some (v.toNat, r)
  | .error _ => none

def ibigRadixOpt (s : Bytes) (r : Nat) : Option Int :=
  match parseRadixSpec true s r with
  | .ok v => some v
  | .error _ => none

def ibigPrefixOpt (s : Bytes) (dflt : Nat) : Option (Int × Nat) :=
  match parseDefaultSpec true s dflt with
  | .ok (v, r) => some (v, r)
  | .error _ => none

-- ================================================================ integers

structure IntState where
  val : Option Bytes := none
  neg : Bool := false
  baseMarked : Bool := false
  base : Option Bytes := none

/-- the token loop of `parse_integer_with_error`; `none` = `Err(InvalidDigit)` -/
def intStep (signed : Bool) (st : IntState) : Tok → Option IntState
  | .lit s =>
    if st.val.isNone then some { st with val := some s }
    else if st.base.isNone && st.baseMarked then some { st with base := some s }
    else none
  | .ident s =>
    if st.val.isNone then some { st with val := some s }
    else if st.base.isNone && s == baseKw then some { st with baseMarked := true }
    else none
  | .punct c =>
    if st.val.isNone && c == 45 then (if signed then some { st with neg := true } else none)
    else if st.val.isNone && c == 43 then (if signed then some st else none)
    else none
  | .group _ => none

def intLoop (signed : Bool) : IntState → List Tok → Option IntState
  | st, [] => some st
  | st, t :: ts => (intStep signed st t).bind fun st' => intLoop signed st' ts

/-- `parse_integer_with_error` as it is: (negative?, magnitude); `none` = panic = compile error -/
def intAsIs (signed : Bool) (toks : List Tok) : Option (Bool × Nat) := do
  let st ← intLoop signed {} toks
  let val ← st.val                          -- `val.unwrap()`
  match st.base with
  | some b =>
    let r ← parseU32 b
    let v ← ubigRadixOpt val r
    pure (st.neg, v)
  | none =>
    if st.baseMarked then none
    else
      let (v, _) ← ubigPrefixOpt val 10
      pure (st.neg, v)

/-- the documented shape `[sign]* value [base N]` of an integer literal -/
def intShape : List Tok → Option (Bytes × Option Bytes)
  | .punct c :: rest => (intShape rest).map fun (t, b) => (c :: t, b)
  | [.lit s] => some (s, none)
  | [.ident s] => some (s, none)
  | [.lit s, .ident k, .lit b] => if k = baseKw then some (s, some b) else none
  | [.ident s, .ident k, .lit b] => if k = baseKw then some (s, some b) else none
  | _ => none

/-- the run-time parser on the same text: `from_str_with_radix_prefix` / `from_str_radix`.
    `none` = the tokens are not of the shape; `some none` = the parser returns an error. -/
def rtInt (signed : Bool) (toks : List Tok) : Option (Option Int) :=
  (intShape toks).map fun (text, b) =>
    match b with
    | none =>
      if signed then (ibigPrefixOpt text 10).map (·.1) else (ubigPrefixOpt text 10).map fun p => (p.1 : Int)
    | some bt =>
      match parseU32 bt with
      | none => none
      | some r => if signed then ibigRadixOpt text r else (ubigRadixOpt text r).map fun v => (v : Int)

def signedVal (neg : Bool) (m : Nat) : Int := if neg then -(m : Int) else (m : Int)

/-- value of an accepted integer literal; `none` = must be a compile error -/
def intLiteral (signed : Bool) (toks : List Tok) : Option Int :=
  match intAsIs signed toks, rtInt signed toks with
  | some (neg, m), some (some v) => if signedVal neg m = v then some v else none
  | _, _ => none

-- ---------------------------------------------------------------- code generators

inductive GenPath where
  | const | bytes | static
  deriving DecidableEq, Repr

def GenPath.name : GenPath → String
  | .const => "const" | .bytes => "bytes" | .static => "static"

/-- which generator `parse_integer` picks for a magnitude; the guard of the const path is the regenerated
    one (`Gen/MacroGen.lean`, Tie A) -/
def intPath (static_ : Bool) (m : Nat) : GenPath :=
  if Dashu.Gen.Macro.int_const_guard (bitLen m) static_ then .const else if static_ then .static else .bytes

/-- `le_bytes_to_uN_array`: chunks of `k` bytes, the last one zero padded -/
def bytesToWords (k : Nat) (bs : Bytes) : List Nat :=
  if h : k = 0 ∨ bs = [] then [] else ofLeBytes (bs.take k) :: bytesToWords k (bs.drop k)
termination_by bs.length
decreasing_by
  have : bs ≠ [] := by intro e; exact h (Or.inr e)
  have : 0 < bs.length := List.length_pos_iff.mpr this
  simp only [List.length_drop]; omega

/-- value of little-endian words of `W` bits -/
def valWords (W : Nat) : List Nat → Nat
  | [] => 0
  | w :: ws => w + 2 ^ W * valWords W ws

/-- `quote_words`: for one selector, `(LEN, DATA)` with `DATA` zero padded to `max_len` (the regenerated
    formula of `Gen/MacroGen.lean`, Tie A) -/
def quoteWords (k : Nat) (bs : Bytes) : Nat × List Nat :=
  let ws := bytesToWords k bs
  let maxLen := Dashu.Gen.Macro.quote_words_max_len bs.length
  (ws.length, ws ++ List.replicate (maxLen - ws.length) 0)

/-- what `from_static_words(&DATA[..LEN])` denotes for the selector of `8k`-bit words;
    `none` = the normalisation assertion (`last word ≠ 0`) fails -/
def staticValue (k : Nat) (bs : Bytes) : Option Nat :=
  let (len, data) := quoteWords k bs
  let ws := data.take len
  if ws.getLast? = some 0 then none else some (valWords (8 * k) ws)

/-- the selection `type Select = DataSelector<{Word::BITS}>` of `quote_words`, read off the regenerated
    `impl DataSource for DataSelector<S>` table (`Gen/MacroGen.lean`): `DATA` = the tokens of one converter
    padded to `max_len`, `LEN` = the length another (the same, as the code is) converter returned, the
    slice `DATA_COPY[..LEN]` read as `W`-bit words by `from_static_words`; `none` = no selector for this
    word size, an array whose element type is not `Word` (the expansion does not compile), or the
    normalisation assertion fails -/
def staticSelect (W : Nat) (bs : Bytes) : Option Nat :=
  match Dashu.Gen.Macro.selectors.find? (fun r => r.1 == W) with
  | none => none
  | some (_, ity, dty, lconv, tconv) =>
    if ity ≠ W ∨ dty ≠ W ∨ tconv ≠ dty then none
    else
      let ws := bytesToWords (Dashu.Gen.Macro.converter_int_size tconv) bs
      let data := ws ++ List.replicate (Dashu.Gen.Macro.quote_words_max_len bs.length - ws.length) 0
      let sl := data.take (bytesToWords (Dashu.Gen.Macro.converter_int_size lconv) bs).length
      if sl.getLast? = some 0 then none else some (valWords W sl)

-- ================================================================ floats

def concatToks (toks : List Tok) : Bytes := toks.flatMap Tok.text

/-- `Repr::<B>::from_str_native` + `Repr::new`: (normalised repr, digits written) -/
def floatParse (B : Nat) (s : Bytes) : Option (FVal × Nat) := parseF B s

/-- one leading `_` removed (`value_str.strip_prefix('_').unwrap_or(value_str)`) -/
def stripUs : Bytes → Bytes
  | 95 :: r => r
  | r => r

/-- `let f = FBin::from_str(value_str)…; assert!(signif.is_positive())` (zero counts as positive) and
    the parts the expansion is built from: (negative?, magnitude, exponent, precision) -/
def fbigFinish (neg : Bool) : Option (FVal × Nat) → Option (Bool × Nat × Int × Nat)
  | none => none
  | some (v, nd) => if v.signif < 0 then none else some (neg, v.signif.natAbs, v.exp, nd)

/-- `parse_binary_float` before /repo e26a9db: the macro strips the sign and one `_`, the parser must
    then return a non-negative number (`assert!(signif.is_positive())`): (sign·mag, exp, prec) -/
def fbigAsIs (toks : List Tok) : Option (Bool × Nat × Int × Nat) :=
  let sr := stripSign (concatToks toks)
  fbigFinish sr.1 (floatParse 2 (stripUs sr.2))

/-- `value_str.starts_with('-') || value_str.starts_with('+')` after the sign and the `_` were stripped -/
def fbigSecondSign (toks : List Tok) : Bool :=
  let u := stripUs (stripSign (concatToks toks)).2
  u.head? == some 45 || u.head? == some 43

/-- `parse_binary_float` (macros/src/parse/float.rs) since /repo e26a9db, statement by statement: the
    tokens are concatenated, `strip_prefix('-')` / `strip_prefix('+')` gives the sign, one `_` is
    stripped, a second sign is refused (`panic_fbig_syntax`), `FBig::from_str` parses the rest,
    `assert!(signif.is_positive())`; `none` = panic at expansion time = compile error -/
def fbigNew (toks : List Tok) : Option (Bool × Nat × Int × Nat) :=
  if fbigSecondSign toks then none else fbigAsIs toks

/-- `parse_decimal_float`, statement by statement: `DBig::from_str` on the concatenated tokens, then
    `signif.into_parts()` -/
def dbigAsIs (toks : List Tok) : Option (Bool × Nat × Int × Nat) :=
  match floatParse 10 (concatToks toks) with
  | none => none
  | some (v, nd) => some (decide (v.signif < 0), v.signif.natAbs, v.exp, nd)

/-- the float the expansion is built from: `IBig::from_parts(sign, mag)`, exponent, precision -/
def fpOfParts (p : Bool × Nat × Int × Nat) : FPVal := ⟨signedVal p.1 p.2.1, p.2.2.1, p.2.2.2⟩

/-- the text the run-time parser sees for `fbig!`: the single `_` after the optional sign is
    macro-only syntax and is removed -/
def fbigRtText (s : Bytes) : Bytes :=
  match s with
  | 45 :: r => 45 :: stripUs r
  | 43 :: r => 43 :: stripUs r
  | r => stripUs r

/-- the run-time parser on the same text -/
def rtFloat (binary : Bool) (toks : List Tok) : Option FPVal :=
  (floatParse (if binary then 2 else 10)
      (if binary then fbigRtText (concatToks toks) else concatToks toks)).map
    fun (v, nd) => ⟨v.signif, v.exp, nd⟩

/-- what the expansion evaluates to, as the code is: the const path returns `ZERO` (precision 0)
    for a zero significand, the static path goes through `from_repr_const` (precision 0) -/
def floatExpansionAsIs (static_ : Bool) (neg : Bool) (mag : Nat) (e : Int) (prec : Nat) : GenPath × FPVal :=
  if bitLen mag ≤ 32 then
    (.const, if mag = 0 then ⟨0, 0, 0⟩ else ⟨signedVal neg mag, e, prec⟩)
  else if static_ then (.static, ⟨signedVal neg mag, e, 0⟩)
  else (.bytes, ⟨signedVal neg mag, e, prec⟩)

def floatPath (static_ : Bool) (mag : Nat) : GenPath :=
  if bitLen mag ≤ 32 then .const else if static_ then .static else .bytes

/-- value and precision of an accepted float literal = what the run-time parser returns; for `fbig!`
    the sign comes first (`_-1`, `_+1`, `-+1` are outside the grammar) -/
def floatLiteral (binary : Bool) (toks : List Tok) : Option FPVal :=
  if binary && fbigSecondSign toks then none
  else
    match (if binary then fbigAsIs toks else dbigAsIs toks), rtFloat binary toks with
    | some (neg, mag, e, nd), some v =>
      if signedVal neg mag = v.signif ∧ e = v.exp ∧ nd = v.prec then some v else none
    | _, _ => none

-- ================================================================ rationals

structure RatState where
  numVal : Option Bytes := none
  numNeg : Bool := false
  denVal : Option Bytes := none
  denNeg : Bool := false
  denMarked : Bool := false
  relaxed : Bool := false
  baseMarked : Bool := false
  base : Option Bytes := none

/-- the token loop of `parse_ratio_with_error` -/
def ratStep (st : RatState) : Tok → Option RatState
  | .lit s =>
    if st.numVal.isNone then some { st with numVal := some s }
    else if st.denVal.isNone then some { st with denVal := some s }
    else if st.base.isNone && st.baseMarked then some { st with base := some s }
    else none
  | .ident s =>
    if st.numVal.isNone then some { st with numVal := some s }
    else if st.denVal.isNone then some { st with denVal := some s }
    else if st.base.isNone && s == baseKw then some { st with baseMarked := true }
    else none
  | .punct c =>
    if c == 47 then
      (if !st.denMarked && !st.baseMarked then some { st with denMarked := true } else none)
    else if c == 126 then
      (if st.numVal.isNone && st.denVal.isNone then some { st with relaxed := true } else none)
    else if st.numVal.isNone then
      (if c == 45 then some { st with numNeg := true } else if c != 43 then none else some st)
    else if st.denVal.isNone then
      (if c == 45 then some { st with denNeg := true } else if c != 43 then none else some st)
    else none
  | .group _ => none

def ratLoop : RatState → List Tok → Option RatState
  | st, [] => some st
  | st, t :: ts => (ratStep st t).bind fun st' => ratLoop st' ts

/-- the two magnitudes: `from_str_radix` with `base N`, else `from_str_with_radix_prefix` for the
    numerator and `from_str_with_radix_default(_, numerator radix)` for the denominator, which must
    agree on the radix -/
def ratParts (st : RatState) (nv : Bytes) : Option (Nat × Nat) :=
  match st.base with
  | some b => do
    let r ← parseU32 b
    let n ← ubigRadixOpt nv r
    let d ← (match st.denVal with
      | some dv => ubigRadixOpt dv r
      | none => some 1)
    pure (n, d)
  | none =>
    if st.baseMarked then none
    else do
      let (n, nr) ← ubigPrefixOpt nv 10
      match st.denVal with
      | some dv =>
        let (d, dr) ← ubigPrefixOpt dv nr
        if nr ≠ dr then none else pure (n, d)
      | none => pure (n, 1)

/-- `parse_ratio_with_error` as it is: (reduced numerator, denominator, relaxed?) -/
def ratAsIs (toks : List Tok) : Option (QVal × Bool) := do
  let st ← ratLoop {} toks
  let nv ← st.numVal
  let (n, d) ← ratParts st nv
  -- `from_parts_signed(Sign::from(num_neg) * num, Sign::from(den_neg) * den)`
  if d = 0 then none        -- panic_divide_by_0 at expansion time
  else
    let sn : Int := signedVal (st.numNeg != st.denNeg) n
    pure (if st.relaxed then qreduce2 sn d else qreduce sn d, st.relaxed)

/-- documented shape: `[~] <text without ~ and groups> [base N]`: (relaxed?, text, base) -/
def ratShape (toks : List Tok) : Option (Bool × Bytes × Option Bytes) :=
  let (relaxed, p) := match toks with
    | .punct 126 :: r => (true, r)
    | r => (false, r)
  let (body, base) : List Tok × Option Bytes :=
    match p.reverse with
    | .lit b :: .ident k :: r => if k = baseKw then (r.reverse, some b) else (p, none)
    | _ => (p, none)
  if body.isEmpty then none
  else if body.any (fun t => match t with
      | .group _ => true
      | .punct 126 => true
      | _ => false) then none
  else some (relaxed, concatToks body, base)

/-- `Repr::from_str_radix` of rational/src/parse.rs -/
def parseQRadixRaw (s : Bytes) (r : Nat) : Option (Int × Nat) :=
  match splitAt1 47 s with
  | some (a, b) => do
    let n ← ibigRadixOpt a r
    let d ← ibigRadixOpt b r
    pure (if d < 0 then -n else n, d.natAbs)
  | none => (ibigRadixOpt s r).map fun n => (n, 1)

/-- the run-time parser: `RBig/Relaxed::from_str_with_radix_prefix` / `from_str_radix`.  A zero
    denominator is treated as an error here (the parsers construct `n/0`, panic, or read `0/0` as
    zero, see C19/C08; the macro panics = compile error). -/
def ratRaw (text : Bytes) (base : Option Bytes) : Option (Int × Nat) :=
  match base with
  | none => parseQRaw text
  | some b => (parseU32 b).bind fun r => parseQRadixRaw text r

def rtRat (toks : List Tok) : Option (Option (QVal × Bool)) :=
  (ratShape toks).map fun (relaxed, text, base) =>
    (ratRaw text base).bind fun (n, d) =>
      if d = 0 then none else some (if relaxed then qreduce2 n d else qreduce n d, relaxed)

/-- the documented grammar of `rbig!`: `[~] [sign] value [/ [sign] value] [base N]` -/
def ratDocShape (toks : List Tok) : Bool :=
  let isVal : Tok → Bool := fun t => match t with
    | .lit _ => true
    | .ident _ => true
    | _ => false
  let isSign : Tok → Bool := fun t => t == .punct 45 || t == .punct 43
  let t0 := match toks with
    | .punct 126 :: r => r
    | r => r
  let t1 := match t0 with
    | t :: r => if isSign t then r else t0
    | [] => t0
  match t1 with
  | v :: rest =>
    isVal v &&
    (let afterDen : List Tok := match rest with
      | .punct 47 :: r =>
        (match r with
          | t :: r2 => if isSign t then r2 else r
          | [] => r)
      | r => .punct 0 :: r      -- marker: no denominator part
    match rest, afterDen with
    | .punct 47 :: _, d :: tl => isVal d && (tl == [] || (match tl with
        | [.ident k, .lit _] => k == baseKw
        | _ => false))
    | .punct 47 :: _, [] => false
    | _, _ :: tl => tl == [] || (match tl with
        | [.ident k, .lit _] => k == baseKw
        | _ => false)
    | _, [] => false)
  | [] => false

/-- value of an accepted rational literal: the run-time parser's answer on a literal of the
    documented grammar; everything else must be a compile error -/
def ratLiteralByShape (toks : List Tok) : Option (QVal × Bool) :=
  if ratDocShape toks then (rtRat toks).join else none

-- ================================================================ rationals: the token loop since /repo e26a9db

/-- the character a sign token contributes to the text (`some true` = `-`, `some false` = `+`) -/
def signText : Option Bool → Bytes
  | none => []
  | some true => [45]
  | some false => [43]

/-- loop state; the value tokens are kept as tokens (ghost information: the code keeps their text) -/
structure RS where
  rel : Bool := false
  nSign : Option Bool := none        -- some true = `-`, some false = `+`
  nVal : Option Tok := none
  marked : Bool := false             -- `/` seen
  dSign : Option Bool := none
  dVal : Option Tok := none
  baseMarked : Bool := false
  base : Option Bytes := none
  deriving DecidableEq

def isVal : Tok → Bool
  | .lit _ => true
  | .ident _ => true
  | _ => false

/-- one iteration of the `for token in input` loop (after e26a9db) -/
def ratStepNew (st : RS) (t : Tok) : Option RS :=
  match t with
  | .lit s =>
    if st.nVal.isNone && !st.marked then some { st with nVal := some t }
    else if st.dVal.isNone && st.marked && !st.baseMarked then some { st with dVal := some t }
    else if st.base.isNone && st.baseMarked then some { st with base := some s }
    else none
  | .ident s =>
    if st.nVal.isNone && !st.marked then some { st with nVal := some t }
    else if st.dVal.isNone && st.marked && !st.baseMarked then some { st with dVal := some t }
    else if st.base.isNone && !st.baseMarked && s == baseKw then some { st with baseMarked := true }
    else none
  | .punct c =>
    if c == 47 then
      (if st.nVal.isSome && !st.marked && !st.baseMarked then some { st with marked := true } else none)
    else if c == 126 then
      (if !st.rel && st.nSign.isNone && st.nVal.isNone && !st.marked then some { st with rel := true } else none)
    else if c != 45 && c != 43 then none
    else if st.nVal.isNone && !st.marked && st.nSign.isNone then some { st with nSign := some (c == 45) }
    else if st.marked && st.dVal.isNone && st.dSign.isNone then some { st with dSign := some (c == 45) }
    else none
  | .group _ => none

def ratLoopNew : RS → List Tok → Option RS
  | st, [] => some st
  | st, t :: ts => (ratStepNew st t).bind fun st' => ratLoopNew st' ts

def signTok : Option Bool → List Tok
  | none => []
  | some true => [.punct 45]
  | some false => [.punct 43]

/-- the documented literal a state stands for -/
def render (st : RS) : List Tok :=
  (if st.rel then [.punct 126] else []) ++ signTok st.nSign ++ st.nVal.toList ++
  (if st.marked then [.punct 47] ++ signTok st.dSign ++ st.dVal.toList else []) ++
  (if st.baseMarked then [.ident baseKw] ++ (st.base.map Tok.lit).toList else [])

-- ---------------------------------------------------------------- integers: the token loop since /repo e26a9db

structure IS where
  sign : Option Bool := none      -- some true = `-`
  val : Option Tok := none
  baseMarked : Bool := false
  base : Option Bytes := none
  deriving DecidableEq

def intStepNew (signed : Bool) (st : IS) (t : Tok) : Option IS :=
  match t with
  | .lit s =>
    if st.val.isNone then some { st with val := some t }
    else if st.base.isNone && st.baseMarked then some { st with base := some s }
    else none
  | .ident s =>
    if st.val.isNone then some { st with val := some t }
    else if st.base.isNone && !st.baseMarked && s == baseKw then some { st with baseMarked := true }
    else none
  | .punct c =>
    if st.val.isNone && st.sign.isNone && signed && (c == 45 || c == 43) then some { st with sign := some (c == 45) }
    else none
  | .group _ => none

def intLoopNew (signed : Bool) : IS → List Tok → Option IS
  | st, [] => some st
  | st, t :: ts => (intStepNew signed st t).bind fun st' => intLoopNew signed st' ts

def renderInt (st : IS) : List Tok :=
  signTok st.sign ++ st.val.toList ++ (if st.baseMarked then [.ident baseKw] ++ (st.base.map Tok.lit).toList else [])

def IWF (signed : Bool) (st : IS) : Prop :=
  (st.val = none → st.baseMarked = false) ∧ (st.baseMarked = false → st.base = none) ∧
  (st.sign ≠ none → signed = true) ∧ (∀ t, st.val = some t → isVal t = true)

/-- the code after the loop: `val.unwrap()`, then `from_str_radix(val, N)` with `base N`
    (`base` without a radix: UnsupportedRadix), else `from_str_with_radix_prefix(val)` -/
def intFinishNew (st : IS) : Option (Bool × Nat) :=
  match st.val with
  | none => none
  | some vt =>
    let m : Option Nat := match st.base with
      | some b => (parseU32 b).bind fun r => ubigRadixOpt vt.text r
      | none => if st.baseMarked then none else (ubigPrefixOpt vt.text 10).map (·.1)
    m.map fun m => (st.sign == some true, m)

/-- `parse_integer_with_error` since e26a9db, as the code computes it -/
def intNew (signed : Bool) (toks : List Tok) : Option (Bool × Nat) :=
  (intLoopNew signed {} toks).bind intFinishNew

/-- the order invariant of the loop: later parts are only present when the earlier ones they depend
    on are -/
def WF (st : RS) : Prop :=
  (st.nVal = none → st.marked = false ∧ st.baseMarked = false) ∧
  (st.marked = false → st.dSign = none ∧ st.dVal = none) ∧
  (st.baseMarked = false → st.base = none) ∧
  (st.baseMarked = true → st.marked = true → st.dVal ≠ none) ∧
  (∀ t, st.nVal = some t → isVal t = true) ∧ (∀ t, st.dVal = some t → isVal t = true)

def tokText : Option Tok → Bytes
  | some t => t.text
  | none => []

def optSign (s : Option Bool) : Bool := s == some true

/-- the code after the loop: `ok_or(NoDigits)`, the `/`-without-denominator check, the two magnitudes
    (`from_str_radix` with `base N`, else radix prefix of the numerator as the default of the
    denominator), `from_parts_signed` (zero denominator: panic = compile error), reduction -/
def ratFinishNew (st : RS) : Option (QVal × Bool) :=
  match st.nVal with
  | none => none
  | some nt =>
    if st.marked && st.dVal.isNone then none
    else
      let nd : Option (Nat × Nat) := match st.base with
        | some b => (parseU32 b).bind fun r => (ubigRadixOpt nt.text r).bind fun n =>
            (match st.dVal with
              | some dt => ubigRadixOpt dt.text r
              | none => some 1).map fun d => (n, d)
        | none =>
          if st.baseMarked then none
          else (ubigPrefixOpt nt.text 10).bind fun p =>
            match st.dVal with
            | some dt => (ubigPrefixOpt dt.text p.2).bind fun q => if p.2 ≠ q.2 then none else some (p.1, q.1)
            | none => some (p.1, 1)
      nd.bind fun (n, d) =>
        if d = 0 then none
        else
          let sn := signedVal (optSign st.nSign != optSign st.dSign) n
          some (if st.rel then qreduce2 sn d else qreduce sn d, st.rel)

/-- the text the run-time parser sees: everything except `~` and `base N` -/
def ratText (st : RS) : Bytes :=
  signText st.nSign ++ tokText st.nVal ++
    (if st.marked then [47] ++ signText st.dSign ++ tokText st.dVal else [])

/-- `RBig/Relaxed::from_str_with_radix_prefix` resp. `from_str_radix` on a text (zero denominator = error) -/
def ratRuntime (rel : Bool) (text : Bytes) (base : Option Bytes) : Option (QVal × Bool) :=
  (ratRaw text base).bind fun (n, d) =>
    if d = 0 then none else some (if rel then qreduce2 n d else qreduce n d, rel)

def finalOK (st : RS) : Prop :=
  st.nVal ≠ none ∧ (st.marked = true → st.dVal ≠ none) ∧ (st.baseMarked = true → st.base ≠ none)


instance (st : RS) : Decidable (finalOK st) := by unfold finalOK; exact inferInstance

/-- `parse_ratio_with_error` since e26a9db, as the code computes it -/
def ratNew (toks : List Tok) : Option (QVal × Bool) := (ratLoopNew {} toks).bind ratFinishNew

/-- value of an accepted rational literal: the token loop decides acceptance (it accepts exactly the
    renderings of well-formed states = the documented grammar, Props/C20), the value is the
    run-time parser's on the text; everything else must be a compile error -/
def ratLiteral (toks : List Tok) : Option (QVal × Bool) :=
  (ratLoopNew {} toks).bind fun st => if finalOK st then ratRuntime st.rel (ratText st) st.base else none

/-- `static` for the static variant, `const` when both parts take the u32 const constructor (the
    documented "can be assigned to a constant"), otherwise built at run time by `from_parts` -/
def ratPathName (static_ : Bool) (q : QVal) : String :=
  if static_ then "static"
  else if bitLen q.num.natAbs ≤ 32 && bitLen q.den ≤ 32 then "const"
  else "heap"

end Dashu.Model.Macro
