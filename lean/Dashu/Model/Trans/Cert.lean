import Dashu.Model.Trans.Encl
/-
  Certificate test of C11 (core Lean only).

  The implementation's printed result `r = sig · B^e` (precision `p`, flag Exact/Inexact) of
  `exp / exp_m1 / ln / ln_1p / powi / powf` is checked against a proved enclosure `[lo, hi]` of the
  true real value `v`:

      certified  :⇔  ((r − ulp < lo ∧ hi < r + ulp) ∨ lo = r = hi)  ∧  (Exact → lo = r = hi)
      violation  :⇔  ((hi ≤ r − ulp ∨ r + ulp ≤ lo) ∧ (r < lo ∨ hi < r))  ∨  (Exact ∧ (r < lo ∨ hi < r))
      undecided  otherwise (the enclosure still straddles a boundary) → refine with a larger effort.

  `Dashu/Proofs/Trans/Cert.lean`: `certified` implies `(|r − v| < ulp ∨ r = v) ∧ (Exact → r = v)`, `violation`
  implies its negation — for all inputs.  That the test never ends `undecided`/`violation` on dashu's
  results is NOT proved; it is what the correspondence run explores.
-/
namespace Dashu.Model.Trans

inductive Verdict where
  | certified | violation | undecided
  deriving DecidableEq, Repr

/-- number of base-`B` digits of `n` (`0` for `0`), `Repr::digits` of `float/src/repr.rs` -/
def digitsAux (B : Nat) : Nat → Nat → Nat
  | 0, _ => 0
  | f + 1, n => if n = 0 then 0 else 1 + digitsAux B f (n / B)

def digits (B : Nat) (n : Nat) : Nat := digitsAux B (n.log2 + 1) n

/-- `sig · B^e` -/
def fval (B : Nat) (sig e : Int) : Rat := (sig : Rat) * (B : Rat) ^ e

/-- unit in the last place of `sig · B^e` at precision `p` (`FBig::ulp`): `B^(e + digits sig − p)`;
    `0` for a zero result (a zero result is within "one ulp" of nothing but zero) -/
def ulp (B : Nat) (sig e : Int) (p : Nat) : Rat :=
  if sig = 0 then 0 else (B : Rat) ^ (e + (digits B sig.natAbs : Int) - (p : Int))

/-- the test on one enclosure `[lo, hi]` of the true value:
    near     := r − u < lo ∧ hi < r + u      (every point of the enclosure is less than one ulp from r)
    equal    := lo = r ∧ hi = r              (the true value is r)
    far      := hi ≤ r − u ∨ r + u ≤ lo      (every point is at least one ulp from r)
    distinct := r < lo ∨ hi < r              (the true value is not r) -/
def judge (lo hi r u : Rat) (exact : Bool) : Verdict :=
  if ((r - u < lo ∧ hi < r + u) ∨ (lo = r ∧ hi = r)) ∧ (exact = true → lo = r ∧ hi = r) then .certified
  else if ((hi ≤ r - u ∨ r + u ≤ lo) ∧ (r < lo ∨ hi < r)) ∨ (exact = true ∧ (r < lo ∨ hi < r)) then .violation
  else .undecided

/-- refine the enclosure (effort `n ↦ 2n + 32`) until the test decides or the fuel is used up;
    returns the verdict and the last effort used -/
def refine (encl : Nat → Rat × Rat) (r u : Rat) (exact : Bool) : (fuel n : Nat) → Verdict × Nat
  | 0, n => (.undecided, n)
  | f + 1, n =>
    let e := encl n
    match judge e.1 e.2 r u exact with
    | .undecided => refine encl r u exact f (2 * n + 32)
    | v => (v, n)

/-! ### enclosures of the six functions -/

/-- `exp x − 1` -/
def expm1Encl (x : Rat) (n : Nat) : Rat × Rat :=
  let e := expEncl x n
  (e.1 - 1, e.2 - 1)

/-- `[y·a, y·b]` ordered -/
def scaleRat (y : Rat) (e : Rat × Rat) : Rat × Rat :=
  if 0 ≤ y then (y * e.1, y * e.2) else (y * e.2, y * e.1)

/-- bit length of the integer part of `|y|` (heuristic: extra effort for the inner logarithm) -/
def magBits (y : Rat) : Nat := (floorNat (if 0 ≤ y then y else -y)).log2 + 1

/-- `x^y = exp (y · log x)` for `0 < x` -/
def powfEncl (x y : Rat) (n : Nat) : Rat × Rat :=
  let a := scaleRat y (lnEncl x (n + magBits y + 2))
  ((expEncl a.1 (n + 2)).1, (expEncl a.2 (n + 2)).2)

/-- enclosure of `w − e · log B` for `w ∈ [a.1, a.2]` -/
def subLogs (B : Nat) (a : Rat × Rat) (e : Int) (n : Nat) : Rat × Rat :=
  let l := scaleInt e (lnEncl (B : Rat) (n + e.natAbs.log2 + 3))
  (a.1 - l.2, a.2 - l.1)

/-- `exp x / B^e = exp (x − e · log B)`: the enclosure of the *scaled* value, compared with the
    significand; used for arguments of large magnitude, where `exp x` itself is astronomically large
    or small but `exp x / B^e` is of the size of the significand -/
def expScaledEncl (B : Nat) (x : Rat) (e : Int) (n : Nat) : Rat × Rat :=
  let w := subLogs B (x, x) e n
  ((expEncl w.1 (n + 2)).1, (expEncl w.2 (n + 2)).2)

/-- `x^y / B^e = exp (y · log x − e · log B)` for `0 < x` -/
def powfScaledEncl (B : Nat) (x y : Rat) (e : Int) (n : Nat) : Rat × Rat :=
  let w := subLogs B (scaleRat y (lnEncl x (n + magBits y + 3))) e n
  ((expEncl w.1 (n + 2)).1, (expEncl w.2 (n + 2)).2)

def absQ (q : Rat) : Rat := if 0 ≤ q then q else -q

/-- a `k` with `|r| + |u| < 2^k` -/
def magBound (r u : Rat) : Nat := (floorNat (absQ r + absQ u) + 1).log2 + 1

/-- the scaled argument `w` is so large that `exp w ≥ 2^k > |r| + u`: the claim is off by far more than
    an ulp (decided without evaluating the astronomically large `exp w`) -/
def tooBig (w : Rat × Rat) (r u : Rat) : Bool := decide (((magBound r u : Nat) : Rat) ≤ w.1)

/-- exact power with an integer exponent of either sign -/
def powiExact (x : Rat) (k : Int) : Rat := x ^ k

/-! ### certificates: claim `(sig, e, p, exact)` about `f(args)` in base `B` -/

/-- the claim's value and tolerance *after dividing by `B^e`*: significand against `B^(digits − p)` -/
def ulpScaled (B : Nat) (sig : Int) (p : Nat) : Rat :=
  if sig = 0 then 0 else (B : Rat) ^ ((digits B sig.natAbs : Int) - (p : Int))

def certExp (B : Nat) (x : Rat) (sig e : Int) (p : Nat) (exact : Bool) (fuel n0 : Nat) : Verdict × Nat :=
  refine (expEncl x) (fval B sig e) (ulp B sig e p) exact fuel n0

def certExpScaled (B : Nat) (x : Rat) (sig e : Int) (p : Nat) (exact : Bool) (fuel n0 : Nat) : Verdict × Nat :=
  if tooBig (subLogs B (x, x) e 64) (sig : Rat) (ulpScaled B sig p) then (.violation, 0)
  else refine (expScaledEncl B x e) (sig : Rat) (ulpScaled B sig p) exact fuel n0

def certExpm1 (B : Nat) (x : Rat) (sig e : Int) (p : Nat) (exact : Bool) (fuel n0 : Nat) : Verdict × Nat :=
  refine (expm1Encl x) (fval B sig e) (ulp B sig e p) exact fuel n0

/-- requires `0 < x` -/
def certLn (B : Nat) (x : Rat) (sig e : Int) (p : Nat) (exact : Bool) (fuel n0 : Nat) : Verdict × Nat :=
  refine (lnEncl x) (fval B sig e) (ulp B sig e p) exact fuel n0

/-- requires `-1 < x` -/
def certLn1p (B : Nat) (x : Rat) (sig e : Int) (p : Nat) (exact : Bool) (fuel n0 : Nat) : Verdict × Nat :=
  refine (lnEncl (1 + x)) (fval B sig e) (ulp B sig e p) exact fuel n0

/-- requires `0 < x` -/
def certPowf (B : Nat) (x y : Rat) (sig e : Int) (p : Nat) (exact : Bool) (fuel n0 : Nat) : Verdict × Nat :=
  refine (powfEncl x y) (fval B sig e) (ulp B sig e p) exact fuel n0

def certPowfScaled (B : Nat) (x y : Rat) (sig e : Int) (p : Nat) (exact : Bool) (fuel n0 : Nat) : Verdict × Nat :=
  if tooBig (subLogs B (scaleRat y (lnEncl x (64 + magBits y + 3))) e 64) (sig : Rat) (ulpScaled B sig p) then
    (.violation, 0)
  else refine (powfScaledEncl B x y e) (sig : Rat) (ulpScaled B sig p) exact fuel n0

/-! exact `powf`: when `x = s^b` with `b = y.den`, the value `x^y = s^(y.num)` is rational and the
    comparison is exact (interval arithmetic can never decide a value lying exactly on a boundary) -/

/-- bisection for `⌊n^(1/b)⌋` (a witness generator: its output is checked by `s^b = x`, not trusted) -/
def irootAux (b n : Nat) : Nat → Nat → Nat → Nat
  | 0, lo, _ => lo
  | f + 1, lo, hi =>
    if hi ≤ lo + 1 then lo
    else
      let mid := (lo + hi) / 2
      if mid ^ b ≤ n then irootAux b n f mid hi else irootAux b n f lo mid

def iroot (b n : Nat) : Nat :=
  if b = 0 then 1 else irootAux b n (n.log2 / b + 3) 0 (2 ^ (n.log2 / b + 1))

/-- a positive rational `s` with `s^b = x`, if the obvious candidate works -/
def ratRoot (b : Nat) (x : Rat) : Option Rat :=
  if b = 1 then (if 0 < x then some x else none)
  else
    let s := mkRat (iroot b x.num.natAbs) (iroot b x.den)
    if 0 < s ∧ s ^ b = x then some s else none

/-- requires `0 < s` and `s ^ y.den = x`: then `x^y = s^(y.num)` exactly -/
def certPowfExact (B : Nat) (s y : Rat) (sig e : Int) (p : Nat) (exact : Bool) : Verdict :=
  let v := s ^ y.num
  judge v v (fval B sig e) (ulp B sig e p) exact

/-- exact rational arithmetic decides `powi` outright (never `undecided`) -/
def certPowi (B : Nat) (x : Rat) (k : Int) (sig e : Int) (p : Nat) (exact : Bool) : Verdict :=
  let v := powiExact x k
  judge v v (fval B sig e) (ulp B sig e p) exact

end Dashu.Model.Trans
