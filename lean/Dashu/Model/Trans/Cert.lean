import Dashu.Model.Trans.Encl
/-
  Certificate test of C11 (core Lean only).

  The implementation's printed result `r = sig · B^e` (precision `p`, flag Exact/Inexact) of
  `exp / exp_m1 / ln / ln_1p / powi / powf` is checked against a proved enclosure `[lo, hi]` of the
  true real value `v`:

      certified  :⇔  r − ulp < lo  ∧  hi < r + ulp  ∧  (Exact → lo = r = hi)
      violation  :⇔  hi ≤ r − ulp  ∨  r + ulp ≤ lo  ∨  (Exact ∧ (r < lo ∨ hi < r))
      undecided  otherwise (the enclosure still straddles a boundary) → refine with a larger effort.

  `Dashu/Proofs/Trans/Cert.lean`: `certified` implies `|r − v| < ulp ∧ (Exact → r = v)`, `violation`
  implies its negation — for all inputs.  That the test never ends `undecided`/`violation` on dashu's
  results is NOT proved; it is what the correspondence run explores.
-/
namespace Dashu.Model.Trans

inductive Verdict where
  | certified | violation | undecided
  deriving DecidableEq, Repr

/-- number of base-`B` digits of `n` (`0` for `0`), `Repr::digits` of `float/src/repr.rs` -/
def digitsAux (B : Nat) : Nat → Nat → Nat
  | 0, _ => 0
  | f + 1, n => if n = 0 then 0 else 1 + digitsAux B f (n / B)

def digits (B : Nat) (n : Nat) : Nat := digitsAux B (n.log2 + 1) n

/-- `sig · B^e` -/
def fval (B : Nat) (sig e : Int) : Rat := (sig : Rat) * (B : Rat) ^ e

/-- unit in the last place of `sig · B^e` at precision `p` (`FBig::ulp`): `B^(e + digits sig − p)`;
    `0` for a zero result (a zero result is within "one ulp" of nothing but zero) -/
def ulp (B : Nat) (sig e : Int) (p : Nat) : Rat :=
  if sig = 0 then 0 else (B : Rat) ^ (e + (digits B sig.natAbs : Int) - (p : Int))

/-- the test on one enclosure -/
def judge (lo hi r u : Rat) (exact : Bool) : Verdict :=
  if r - u < lo ∧ hi < r + u ∧ (exact = true → lo = r ∧ hi = r) then .certified
  else if hi ≤ r - u ∨ r + u ≤ lo ∨ (exact = true ∧ (r < lo ∨ hi < r)) then .violation
  else .undecided

/-- refine the enclosure (effort `n ↦ 2n + 32`) until the test decides or the fuel is used up;
    returns the verdict and the last effort used -/
def refine (encl : Nat → Rat × Rat) (r u : Rat) (exact : Bool) : (fuel n : Nat) → Verdict × Nat
  | 0, n => (.undecided, n)
  | f + 1, n =>
    let e := encl n
    match judge e.1 e.2 r u exact with
    | .undecided => refine encl r u exact f (2 * n + 32)
    | v => (v, n)

/-! ### enclosures of the six functions -/

/-- `exp x − 1` -/
def expm1Encl (x : Rat) (n : Nat) : Rat × Rat :=
  let e := expEncl x n
  (e.1 - 1, e.2 - 1)

/-- `[y·a, y·b]` ordered -/
def scaleRat (y : Rat) (e : Rat × Rat) : Rat × Rat :=
  if 0 ≤ y then (y * e.1, y * e.2) else (y * e.2, y * e.1)

/-- bit length of the integer part of `|y|` (heuristic: extra effort for the inner logarithm) -/
def magBits (y : Rat) : Nat := (floorNat (if 0 ≤ y then y else -y)).log2 + 1

/-- `x^y = exp (y · log x)` for `0 < x` -/
def powfEncl (x y : Rat) (n : Nat) : Rat × Rat :=
  let a := scaleRat y (lnEncl x (n + magBits y + 2))
  ((expEncl a.1 (n + 2)).1, (expEncl a.2 (n + 2)).2)

/-- `exp x / B^e = exp (x − e · log B)`: the enclosure of the *scaled* value, compared with the
    significand; used for arguments of large magnitude, where `exp x` itself is astronomically large
    or small but `exp x / B^e` is of the size of the significand -/
def expScaledEncl (B : Nat) (x : Rat) (e : Int) (n : Nat) : Rat × Rat :=
  let l := scaleInt e (lnEncl (B : Rat) (n + e.natAbs.log2 + 3))
  ((expEncl (x - l.2) (n + 2)).1, (expEncl (x - l.1) (n + 2)).2)

/-- `x^y / B^e = exp (y · log x − e · log B)` for `0 < x` -/
def powfScaledEncl (B : Nat) (x y : Rat) (e : Int) (n : Nat) : Rat × Rat :=
  let a := scaleRat y (lnEncl x (n + magBits y + 3))
  let l := scaleInt e (lnEncl (B : Rat) (n + e.natAbs.log2 + 3))
  ((expEncl (a.1 - l.2) (n + 2)).1, (expEncl (a.2 - l.1) (n + 2)).2)

/-- exact power with an integer exponent of either sign -/
def powiExact (x : Rat) (k : Int) : Rat := x ^ k

/-! ### certificates: claim `(sig, e, p, exact)` about `f(args)` in base `B` -/

/-- the claim's value and tolerance *after dividing by `B^e`*: significand against `B^(digits − p)` -/
def ulpScaled (B : Nat) (sig : Int) (p : Nat) : Rat :=
  if sig = 0 then 0 else (B : Rat) ^ ((digits B sig.natAbs : Int) - (p : Int))

def certExp (B : Nat) (x : Rat) (sig e : Int) (p : Nat) (exact : Bool) (fuel n0 : Nat) : Verdict × Nat :=
  refine (expEncl x) (fval B sig e) (ulp B sig e p) exact fuel n0

def certExpScaled (B : Nat) (x : Rat) (sig e : Int) (p : Nat) (exact : Bool) (fuel n0 : Nat) : Verdict × Nat :=
  refine (expScaledEncl B x e) (sig : Rat) (ulpScaled B sig p) exact fuel n0

def certExpm1 (B : Nat) (x : Rat) (sig e : Int) (p : Nat) (exact : Bool) (fuel n0 : Nat) : Verdict × Nat :=
  refine (expm1Encl x) (fval B sig e) (ulp B sig e p) exact fuel n0

/-- requires `0 < x` -/
def certLn (B : Nat) (x : Rat) (sig e : Int) (p : Nat) (exact : Bool) (fuel n0 : Nat) : Verdict × Nat :=
  refine (lnEncl x) (fval B sig e) (ulp B sig e p) exact fuel n0

/-- requires `-1 < x` -/
def certLn1p (B : Nat) (x : Rat) (sig e : Int) (p : Nat) (exact : Bool) (fuel n0 : Nat) : Verdict × Nat :=
  refine (lnEncl (1 + x)) (fval B sig e) (ulp B sig e p) exact fuel n0

/-- requires `0 < x` -/
def certPowf (B : Nat) (x y : Rat) (sig e : Int) (p : Nat) (exact : Bool) (fuel n0 : Nat) : Verdict × Nat :=
  refine (powfEncl x y) (fval B sig e) (ulp B sig e p) exact fuel n0

def certPowfScaled (B : Nat) (x y : Rat) (sig e : Int) (p : Nat) (exact : Bool) (fuel n0 : Nat) : Verdict × Nat :=
  refine (powfScaledEncl B x y e) (sig : Rat) (ulpScaled B sig p) exact fuel n0

/-- exact rational arithmetic decides `powi` outright (never `undecided`) -/
def certPowi (B : Nat) (x : Rat) (k : Int) (sig e : Int) (p : Nat) (exact : Bool) : Verdict :=
  let v := powiExact x k
  judge v v (fval B sig e) (ulp B sig e p) exact

end Dashu.Model.Trans
