/-
  The statements of `float/src/{exp,log,fbig}.rs` that fix the working precisions, guard digits, branch tests and
  stop tests mirrored by `Model/Trans/Series.lean` (and `Powi.lean` / `PowiNeg.lean`), as TEXT (comments stripped,
  white space collapsed) — recorded from /repo at fa3b7b8 (the `add.*` rows at 164990d).  On every run `vlib/props/c11.py` (`source_formulas`)
  extracts the same statements from the repository under check and the driver compares them with this table
  (op `tie.formula`): a changed statement is reported as a broken correspondence (the mirror must be re-done),
  independently of whether any generated input happens to expose the change.
-/
namespace Dashu.Model.Trans

/-- (name, statement text, mirrored by) -/
def sourceFormulas : List (String × String × String) := [
  ("powi.neg.guard_bits", "let guard_bits = self.precision.bit_len() * 2;", "powiNegPrec (Model/Trans/PowiNeg.lean)"),
  ("powi.guard_digits", "let guard_digits = exp.bit_len() + self.precision.bit_len();", "powiWorkPrec (Model/Trans/Powi.lean)"),
  ("powf.ln_base_ub", "let ln_base_ub = base.log2_est().abs() as usize + 1;", "Est.powfArgDigits"),
  ("powf.arg_log2", "let arg_log2 = exp.log2_est() + ln_base_ub.log2_est();", "Est.powfArgDigits"),
  ("powf.arg_digits", "let arg_digits = if arg_log2 > 0. { (arg_log2 / B.log2_est()) as usize + 1 } else { 0 };", "Est.powfArgDigits"),
  ("powf.guard_digits", "let guard_digits = 10 + self.precision.log2_est() as usize + arg_digits;", "powfGuardDigits"),
  ("exp.series_guard_digits", "let series_guard_digits = (self.precision.log2_est() / B.log2_est()) as usize + 2;", "seriesGuardDigits"),
  ("exp.pow_guard_digits", "let pow_guard_digits = (self.precision.bit_len() as f32 * B.log2_est() * 2.) as usize;", "powGuardDigits"),
  ("exp.no_scaling", "let no_scaling = minus_one && x.log2_est() < -B.log2_est();", "expBody / Est.belowInvBase"),
  ("exp.work_precision.1", "work_precision = self.precision + 2 * series_guard_digits;", "expWorkPrecNoScaling"),
  ("exp.work_precision.2", "work_precision = self.precision + series_guard_digits;", "expWorkPrecNoScaling"),
  ("exp.n", "let n = 1usize << (self.precision.bit_len() / 2);", "expN"),
  ("exp.too_large", "if x_log2 > isize::BITS as f32 + B.log2_est() + 1. {", "Est.tooLarge"),
  ("exp.int_digits", "let int_digits = if x_log2 > 0. { (x_log2 / B.log2_est()) as usize + 1 } else { 0 };", "Est.intDigits"),
  ("exp.work_precision.3", "work_precision = self.precision + series_guard_digits + pow_guard_digits.max(n + 2) + int_digits;", "expWorkPrec"),
  ("exp.m1_powering_context", "Context::<R>::new(self.precision + self.precision / 8 + 1) .powi(sum.repr(), Repr::<B>::BASE.pow(n).into()) .map(|v| (v << s) - FBig::ONE) .and_then(|v| v.with_precision(self.precision)) }", "expBody (minus_one branch)"),
  ("exp.stop_test", "if increase.abs_cmp(&sum.sub_ulp()).is_le() {", "expLoop"),
  ("iacoth.guard_digits", "let guard_digits = (self.precision.log2_est() / B.log2_est()) as usize;", "iacothWorkPrec"),
  ("iacoth.work_context", "let work_context = Self::new(self.precision + guard_digits + 2);", "iacothWorkPrec"),
  ("iacoth.stop_test", "if increase < sum.sub_ulp() {", "iacothLoop"),
  ("ln2.formula", "4 * self.iacoth(6.into()) + 2 * self.iacoth(99.into()) }", "ln2"),
  ("ln10.formula", "3 * self.ln2() + 2 * self.iacoth(9.into()) }", "ln10"),
  ("ln.guard_digits", "let guard_digits = (self.precision.log2_est() / B.log2_est()) as usize + 2;", "lnWorkPrec"),
  ("ln.work_precision", "let mut work_precision = self.precision + guard_digits + one_plus as usize;", "lnWorkPrec"),
  ("ln.no_scaling", "let no_scaling = one_plus && x.log2_est() < -B.log2_est();", "lnBody / Est.belowInvBase"),
  ("ln.s", "let s = log2 as isize - (log2 < 0.) as isize;", "Est.floorLog2"),
  ("ln.grow_test", "if s < 0 || x_scaled.repr.sign() == Sign::Negative {", "lnBody"),
  ("ln.grow", "work_precision += self.precision;", "lnBody"),
  ("ln.stop_test", "if increase.abs_cmp(&sum.sub_ulp()).is_le() {", "lnLoop"),
  ("sub_ulp.exponent", "exponent: self.repr.exponent + self.repr.digits_lb() as isize - self.context.precision as isize - 1, }", "fSubUlp"),
  -- round 6 (recorded from /repo at 164990d): the zero-operand arms of the four `FBig ± FBig` helpers of `float/src/add.rs`,
  -- which round the other operand to the max context since that commit (`fAddSub`, `Props/C11Series.fAddSub_zero_operand`)
  ("add.val_val.zero_lhs", "context.repr_round(rhs.repr).value() }", "fAddSub"),
  ("add.val_val.zero_rhs", "context.repr_round(lhs.repr).value() }", "fAddSub"),
  ("add.val_ref.zero_lhs", "context.repr_round(repr).value() }", "fAddSub"),
  ("add.val_ref.zero_rhs", "context.repr_round(lhs.repr).value() }", "fAddSub"),
  ("add.ref_val.zero_lhs", "context.repr_round(rhs.repr).value() }", "fAddSub"),
  ("add.ref_val.zero_rhs", "context.repr_round_ref(&lhs.repr).value() }", "fAddSub"),
  ("add.ref_ref.zero_lhs", "context.repr_round(repr).value() }", "fAddSub"),
  ("add.ref_ref.zero_rhs", "context.repr_round_ref(&lhs.repr).value() }", "fAddSub"),
  ("add.max_context", "let context = Context::max(lhs.context, rhs.context);", "ctxMaxP / fAddSub")]

def sourceFormula? (name : String) : Option String :=
  (sourceFormulas.find? (·.1 == name)).map (·.2.1)

end Dashu.Model.Trans
