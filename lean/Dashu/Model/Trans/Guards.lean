import Dashu.Model.Trans.Cert
/-
  Model of the ENTRY GUARDS of `float/src/exp.rs` (`Context::{powi, powf, exp_internal}`) and
  `float/src/log.rs` (`Context::ln_internal`): the checks and shortcuts executed before any series is
  evaluated, in the order of the source.  Everything behind the guards (`Entry.compute`) is not
  mirrored: there the implementation's result is *certified* against a proved enclosure
  (`Dashu/Model/Trans/Cert.lean`).

  An operand is a `Repr` (`FIn`): finite `sig · B^exp` (normalised by `Repr::new`) or an infinity.
  `Context` = precision `p` (`0` = unlimited) + rounding mode.
-/
namespace Dashu.Model.Trans

/-- the panics the guards can raise (`float/src/error.rs`) -/
inductive TPanic where
  | infinite            -- `assert_finite`: "arithmetic operations with the infinity are not allowed!"
  | unlimitedPrecision  -- `assert_limited_precision`: "precision cannot be 0 (unlimited) for this operation!"
  | powNegativeBase     -- `panic_power_negative_base`
  | logNonpositive      -- `panic_log_nonpositive`: "logarithm is not defined for zero and negative numbers!"
  deriving DecidableEq, Repr

def TPanic.name : TPanic → String
  | .infinite => "Infinite" | .unlimitedPrecision => "UnlimitedPrecision" | .powNegativeBase => "PowNegativeBase"
  | .logNonpositive => "LogInvalid"

/-- a `Repr<B>` -/
structure FIn where
  inf : Bool      -- `is_infinite()`: significand 0, exponent ≠ 0
  sig : Int
  exp : Int
  deriving DecidableEq, Repr

/-- `Repr::is_zero` -/
def FIn.isZero (x : FIn) : Bool := !x.inf && x.sig == 0
/-- `Repr::is_one` -/
def FIn.isOne (x : FIn) : Bool := !x.inf && x.sig == 1 && x.exp == 0

/-- what an entry point does before the numerical work -/
inductive Entry where
  | panic (k : TPanic)
  /-- `Exact(FBig::ONE)` / `Exact(FBig::ZERO)`: the constants carry `Context::new(0)`, i.e. the returned
      number has precision 0 (unlimited), not the precision of the context -/
  | exactConst (sig : Int)
  /-- `self.repr_round_ref(base)`: the operand rounded to the context -/
  | roundArg
  /-- the numerical algorithm runs -/
  | compute
  deriving DecidableEq, Repr

/-- `Context::exp_internal(x, minus_one)` up to the first `let` of the algorithm -/
def expEntry (minusOne : Bool) (x : FIn) (p : Nat) : Entry :=
  if x.inf then .panic .infinite                    -- assert_finite(x)
  else if p = 0 then .panic .unlimitedPrecision     -- assert_limited_precision(self.precision)
  else if x.isZero then (if minusOne then .exactConst 0 else .exactConst 1)
  else .compute

/-- `Context::ln_internal(x, one_plus)` up to the first `let` of the algorithm (base `B`: the domain test
    of `ln_1p` compares the operand with `-1`) -/
def lnEntry (B : Nat) (onePlus : Bool) (x : FIn) (p : Nat) : Entry :=
  if x.inf then .panic .infinite
  else if p = 0 then .panic .unlimitedPrecision
  else if (onePlus && x.isZero) || (!onePlus && x.isOne) then .exactConst 0
  else if (if onePlus then decide (x.sig < 0 ∧ fval B x.sig x.exp ≤ -1) else decide (x.sig ≤ 0)) then
    .panic .logNonpositive                          -- log x needs x > 0, log (1 + x) needs x > -1
  else .compute

/-- `Context::powi(base, exp)` up to `let work_context` -/
def powiEntry (x : FIn) (k : Int) (p : Nat) : Entry :=
  if x.inf then .panic .infinite                    -- assert_finite(base)
  else if k < 0 then
    (if p = 0 then .panic .unlimitedPrecision       -- assert_limited_precision (negative exponent only)
     else .compute)
  else if k = 0 then .exactConst 1
  else if k = 1 then .roundArg
  else .compute

/-- `Context::powf(base, exp)` up to `let guard_digits` (`assert_finite_operands(base, exp)`) -/
def powfEntry (x y : FIn) (p : Nat) : Entry :=
  if x.inf || y.inf then .panic .infinite
  else if p = 0 then .panic .unlimitedPrecision
  else if y.isZero then .exactConst 1
  else if y.isOne then .roundArg
  else if x.isZero then .exactConst 0
  else if x.sig < 0 then .panic .powNegativeBase
  else .compute

/-! ### specification of `repr_round` (the value `x¹` must have), on exact rationals -/

inductive RMode where
  | zero | away | up | down | halfEven | halfAway
  deriving DecidableEq, Repr

/-- strip trailing zero digits (`Repr::normalize`) -/
def stripZeros (B : Nat) : Nat → Int → Int → Int × Int
  | 0, s, e => (s, e)
  | f + 1, s, e => if s ≠ 0 ∧ s % (B : Int) = 0 then stripZeros B f (s / (B : Int)) (e + 1) else (s, e)

def normalize (B : Nat) (s e : Int) : Int × Int :=
  if s = 0 then (0, 0) else stripZeros B (s.natAbs.log2 + 1) s e

/-- round `sig · B^e` to at most `p` digits: returns `(sig', e', adj)` with `adj ∈ {none, some 0, some ±1}`
    (`none` = Exact, `some 0` = Inexact:NoOp, `some 1` = AddOne, `some (-1)` = SubOne).
    The truncated quotient is adjusted by the mode's rule on the exact remainder. -/
def roundSpec (B : Nat) (mode : RMode) (p : Nat) (sig e : Int) : Int × Int × Option Int :=
  let d := digits B sig.natAbs
  if p = 0 ∨ d ≤ p then (sig, e, none)
  else
    let shift := d - p
    let unit : Int := ((B ^ shift : Nat) : Int)
    let q := Int.tdiv sig unit
    let rem := Int.tmod sig unit
    if rem = 0 then
      let r := normalize B q (e + shift)
      (r.1, r.2, none)
    else
      let sgn : Int := if sig < 0 then -1 else 1
      let twice := 2 * rem.natAbs
      let adj : Int :=
        match mode with
        | .zero => 0
        | .away => sgn
        | .up => if sig > 0 then 1 else 0
        | .down => if sig < 0 then -1 else 0
        | .halfAway => if twice ≥ B ^ shift then sgn else 0
        | .halfEven =>
          if twice > B ^ shift then sgn
          else if twice < B ^ shift then 0
          else if q % 2 = 0 then 0 else sgn
      let r := normalize B (q + adj) (e + shift)
      (r.1, r.2, some adj)

end Dashu.Model.Trans
