/-
  Certified enclosures of `exp` and `ln` on `Rat` (core Lean only; the compiled driver runs them).

  These are NOT models of dashu's algorithms (`float/src/exp.rs`, `log.rs`): they are independent,
  deliberately simple interval evaluations whose only purpose is to be *provably* sound
  (`Dashu/Proofs/Trans/{Exp,Log}.lean`):

      (expEncl x n).1 ≤ Real.exp x ≤ (expEncl x n).2          for every rational x, every n
      (lnEncl  x n).1 ≤ Real.log x ≤ (lnEncl  x n).2          for every rational x > 0, every n

  `n` is an effort parameter (roughly: the number of correct bits); soundness does not depend on it
  nor on any of the heuristic choices below (number of terms, amount of argument reduction, working
  grid) — only the width of the enclosure does.

  All intermediate values live on the dyadic grid `2^-m`; every operation rounds its lower bound
  down and its upper bound up (`rdn`, `rup`), so denominators stay at `2^m`.
-/
namespace Dashu.Model.Trans

/-- largest multiple of `2^-m` that is `≤ q` -/
def rdn (m : Nat) (q : Rat) : Rat := mkRat ((q.num * ((2 ^ m : Nat) : Int)) / (q.den : Int)) (2 ^ m)

/-- least multiple of `2^-m` that is `≥ q` -/
def rup (m : Nat) (q : Rat) : Rat := mkRat (-((-(q.num * ((2 ^ m : Nat) : Int))) / (q.den : Int))) (2 ^ m)

/-! ### exp -/

/-- Taylor terms of `exp` with outward rounding.  State at index `i`:
    `tl ≤ yl^i/i!`, `yu^i/i! ≤ tu`, `sl ≤ Σ_{j<i} yl^j/j!`, `Σ_{j<i} yu^j/j! ≤ su`.
    After the last step the remainder `yu^N (N+1)/(N! N) ≤ 2·tu` (`Real.exp_bound'`) is added. -/
def expSeries (m : Nat) (yl yu : Rat) : (fuel i : Nat) → (tl tu sl su : Rat) → Rat × Rat
  | 0, _, _, tu, sl, su => (sl, su + 2 * tu)
  | f + 1, i, tl, tu, sl, su =>
    expSeries m yl yu f (i + 1)
      (rdn m (tl * yl / ((i + 1 : Nat) : Rat))) (rup m (tu * yu / ((i + 1 : Nat) : Rat)))
      (sl + tl) (su + tu)

/-- `k` squarings with outward rounding: `[lo, hi] ∋ E` becomes an enclosure of `E^(2^k)` (for `0 ≤ lo`) -/
def sqrIter (m : Nat) : Nat → Rat × Rat → Rat × Rat
  | 0, e => e
  | k + 1, e => sqrIter m k (rdn m (e.1 * e.1), rup m (e.2 * e.2))

/-- the integer part of a non-negative rational, as a natural number -/
def floorNat (x : Rat) : Nat := (x.num / (x.den : Int)).toNat

/-- enclosure of `exp x` for `0 ≤ x`:  `exp x = exp(x / 2^k)^(2^k)`, `0 ≤ x / 2^k ≤ 1` -/
def expNonneg (x : Rat) (n : Nat) : Rat × Rat :=
  let k0 := (floorNat x + 1).log2 + 1          -- x < 2^k0
  let j := Nat.sqrt n                          -- extra reduction: y ≤ 2^-j
  let k := k0 + j
  let m := n + k + 2 * n.log2 + 8              -- working grid
  let y := x / ((2 ^ k : Nat) : Rat)
  let yl := max 0 (rdn m y)
  let yu := min 1 (rup m y)
  let N := (n + k) / (j + 1) + 2               -- number of Taylor terms
  sqrIter m k (expSeries m yl yu N 0 1 1 0 0)

/-- enclosure of `exp x` for every rational `x` (`exp x = 1 / exp (-x)` for negative `x`).
    Arguments far below `-n` are answered by the crude enclosure `[0, 2^-(n+64)]` (`exp x ≤ 2^x`)
    instead of inverting an astronomically large number. -/
def expEncl (x : Rat) (n : Nat) : Rat × Rat :=
  if 0 ≤ x then expNonneg x n
  else if x < -((16 * n + 4096 : Nat) : Rat) then (0, 1 / ((2 ^ (n + 64) : Nat) : Rat))
  else
    let e := expNonneg (-x) n
    (1 / e.2, if 0 < e.1 then 1 / e.1 else 1)

/-! ### ln -/

/-- terms of `atanh z = Σ z^(2i+1)/(2i+1)` with outward rounding.  State at index `i`:
    `0 ≤ pl ≤ zl^(2i+1)`, `zu^(2i+1) ≤ pu`, `sl ≤ Σ_{j<i} zl^(2j+1)/(2j+1)`, `Σ_{j<i} zu^(2j+1)/(2j+1) ≤ su`;
    `zl2 ≤ zl²`, `zu² ≤ zu2`.  Returns `(sl, su, pu)` at index `i + fuel`. -/
def atanhSeries (m : Nat) (zl2 zu2 : Rat) : (fuel i : Nat) → (pl pu sl su : Rat) → Rat × Rat × Rat
  | 0, _, _, pu, sl, su => (sl, su, pu)
  | f + 1, i, pl, pu, sl, su =>
    atanhSeries m zl2 zu2 f (i + 1) (rdn m (pl * zl2)) (rup m (pu * zu2))
      (sl + rdn m (pl / ((2 * i + 1 : Nat) : Rat))) (su + rup m (pu / ((2 * i + 1 : Nat) : Rat)))

/-- number of bits by which `q ∈ (0, 1]` is below one (heuristic, only used to choose term counts) -/
def bitsBelowOne (q : Rat) : Nat := (q.den.log2 + 1) - (q.num.natAbs.log2 + 1)

/-- enclosure of `log t` for `1 ≤ t`: `log t = 2 atanh z`, `z = (t-1)/(t+1) ∈ [0, 1)`;
    tail of the series after `N` terms `≤ z^(2N+1) / ((2N+1)(1 - z²))`. -/
def lnGe1 (t : Rat) (n : Nat) : Rat × Rat :=
  let m := n + 2 * n.log2 + 8
  let z := (t - 1) / (t + 1)
  let zl := max 0 (rdn m z)
  let zu := rup m z
  let zl2 := rdn m (zl * zl)
  let zu2 := rup m (zu * zu)
  if zu2 < 1 then
    let b := 2 * bitsBelowOne zu              -- bits gained per term (zu² ≈ 2^-b)
    let N := (n + 4) / (if b = 0 then 1 else b) + 2
    let r := atanhSeries m zl2 zu2 N 0 zl zu 0 0
    (2 * r.1, 2 * (r.2.1 + rup m (r.2.2 / (((2 * N + 1 : Nat) : Rat) * (1 - zu2)))))
  else (0, t - 1)

/-- enclosure of `log t` for `0 < t` (`log t = - log (1/t)` below one) -/
def lnPos (t : Rat) (n : Nat) : Rat × Rat :=
  if 1 ≤ t then lnGe1 t n
  else
    let e := lnGe1 (1 / t) n
    (-e.2, -e.1)

/-- `x · 2^(-s)` -/
def scale2 (x : Rat) (s : Int) : Rat :=
  if 0 ≤ s then x / ((2 ^ s.toNat : Nat) : Rat) else x * ((2 ^ (-s).toNat : Nat) : Rat)

/-- binary exponent chosen so that `x / 2^s` is roughly in `[2/3, 4/3]` (any `s` is sound) -/
def lnShift (x : Rat) : Int :=
  let s0 : Int := (x.num.natAbs.log2 : Int) - (x.den.log2 : Int)
  let t := scale2 x s0
  if (4 : Rat) / 3 ≤ t then s0 + 1 else if t < (2 : Rat) / 3 then s0 - 1 else s0

/-- `[s·a, s·b]` for an integer `s` of either sign -/
def scaleInt (s : Int) (e : Rat × Rat) : Rat × Rat :=
  if 0 ≤ s then ((s : Rat) * e.1, (s : Rat) * e.2) else ((s : Rat) * e.2, (s : Rat) * e.1)

/-- enclosure of `log x` for `0 < x`:  `log x = s·log 2 + log (x / 2^s)` -/
def lnEncl (x : Rat) (n : Nat) : Rat × Rat :=
  let s := lnShift x
  let lt := lnPos (scale2 x s) (n + 2)
  if s = 0 then lt
  else
    let l2 := scaleInt s (lnGe1 2 (n + s.natAbs.log2 + 3))
    (l2.1 + lt.1, l2.2 + lt.2)

end Dashu.Model.Trans
