import Dashu.Model.Trans.Cert
/-
  Certificates for operands given as FLOATS `sig · B^ex` whose exponent is too large to write the value
  down as a rational (`(1.5·2^-1048576)^0.75`): `log (sig·B^ex) = log sig + ex·log B` is enclosed without
  ever forming `B^ex`, and the comparison is the scaled one (`x^y / B^e = exp (y·log x − e·log B)`).
-/
namespace Dashu.Model.Trans

/-- enclosure of `log (sig · B^ex)` for `0 < sig` -/
def lnFloatEncl (B : Nat) (sig ex : Int) (n : Nat) : Rat × Rat :=
  let a := lnEncl (sig : Rat) (n + 2)
  let l := scaleInt ex (lnEncl (B : Rat) (n + ex.natAbs.log2 + 3))
  (a.1 + l.1, a.2 + l.2)

/-- enclosure of `(sig·B^ex)^y / B^e` -/
def powfFloatScaledEncl (B : Nat) (sig ex : Int) (y : Rat) (e : Int) (n : Nat) : Rat × Rat :=
  let w := subLogs B (scaleRat y (lnFloatEncl B sig ex (n + magBits y + 3))) e n
  ((expEncl w.1 (n + 2)).1, (expEncl w.2 (n + 2)).2)

/-- claim `rsig · B^e` (precision `p`) about `(sig·B^ex)^y`, `0 < sig` -/
def certPowfFloatScaled (B : Nat) (sig ex : Int) (y : Rat) (rsig e : Int) (p : Nat) (exact : Bool)
    (fuel n0 : Nat) : Verdict × Nat :=
  if tooBig (subLogs B (scaleRat y (lnFloatEncl B sig ex (64 + magBits y + 3))) e 64) (rsig : Rat)
      (ulpScaled B rsig p) then (.violation, 0)
  else refine (powfFloatScaledEncl B sig ex y e) (rsig : Rat) (ulpScaled B rsig p) exact fuel n0

/-- claim about `log (sig·B^ex)` -/
def certLnFloat (B : Nat) (sig ex : Int) (rsig e : Int) (p : Nat) (exact : Bool) (fuel n0 : Nat) : Verdict × Nat :=
  refine (lnFloatEncl B sig ex) (fval B rsig e) (ulp B rsig e p) exact fuel n0

end Dashu.Model.Trans
