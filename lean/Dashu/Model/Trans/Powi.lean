import Dashu.Model.Float.Repr
/-
  Model of the NON-NEGATIVE branch of `Context::powi` (`float/src/exp.rs`), exponent `n ≥ 2`, limited
  precision `p ≥ 1`, built on the C03 model of `Context::sqr` / `Context::mul` / `repr_round`
  (`Dashu/Model/Float/Repr.lean`, core Lean only):

      let guard_digits = exp.bit_len() + self.precision.bit_len();       // heuristic
      let work_context = Context::new(self.precision + guard_digits);
      let mut p = exp.bit_len() - 2;
      let mut res = work_context.sqr(base);
      loop {
          if exp.bit(p) { res = work_context.mul(res, base) }
          if p == 0 { break }
          p -= 1;
          res = work_context.sqr(res);
      }
      res.with_precision(self.precision)

  i.e. starting from `cur = base` (top bit), for every lower bit `b` of the exponent, most significant
  first: `cur := sqr cur; if b then cur := mul cur base`.  Only the VALUE is modelled (the error theorem
  `Proofs/Trans/Powi.lean` is about values); the flags are the subject of the certificate run.
-/
namespace Dashu.Model.Trans
open Dashu.Model.Float

def bitLen (n : Nat) : Nat := if n = 0 then 0 else n.log2 + 1

/-- for a base in `{0, 1, −1}` the power depends only on sign and parity of the exponent: the small exponent with the
    same sign and parity (`|k| ≥ 4`; `Props/C11Powi.unit_base_zpow_reduce`) — used by the driver to decide `powi` of
    such a base for exponents far beyond what an exact power could be computed for (`2^64`, …) -/
def unitExp (k : Int) : Int := (if k < 0 then -1 else 1) * ((k.natAbs % 2 + 2 : Nat) : Int)

/-- the bits of `n` below its top bit, most significant first -/
def lowBits (n : Nat) : List Bool :=
  ((List.range (bitLen n - 1)).reverse).map fun i => n.testBit i

/-- the number whose binary digits are `acc` followed by `bs` -/
def bitsVal : List Bool → Nat → Nat
  | [], acc => acc
  | b :: bs, acc => bitsVal bs (2 * acc + (if b then 1 else 0))

/-- the loop at working precision `q` -/
def powLoop (fixed : Bool) (B : Nat) (m : Mode) (c : Coarse) (q : Nat) (base : FRepr) : List Bool → FRepr → FRepr
  | [], cur => cur
  | b :: bs, cur =>
    let s := (ctxSqr fixed B m c q cur).1
    let t := if b then (ctxMul fixed B m c q s base).1 else s
    powLoop fixed B m c q base bs t

/-- working precision of `powi` for the exponent with low bits `bs` (bit length `bs.length + 1`) -/
def powiWorkPrec (p : Nat) (bs : List Bool) : Nat := p + (bs.length + 1) + bitLen p

/-- `Context::powi(base, n)` for `n = bitsVal bs 1 ≥ 2`: the working value and the rounded result -/
def powiNonneg (fixed : Bool) (B : Nat) (m : Mode) (c : Coarse) (p : Nat) (base : FRepr) (bs : List Bool) :
    FRepr × Rounded FRepr :=
  let y := powLoop fixed B m c (powiWorkPrec p bs) base bs base
  (y, reprRound B m c p y)

end Dashu.Model.Trans
