import Dashu.Model.Trans.Powi
/-
  Model of the NEGATIVE-exponent branch of `Context::powi` (`float/src/exp.rs`), exponent `-n`, `n ≥ 1`,
  limited precision `p ≥ 1`, on the C03 model of `powi` (non-negative), `repr_div`, `repr_round`:

      let guard_bits = self.precision.bit_len() * 2;                                  // heuristic
      let rev_context = Context::<R::Reverse>::new(self.precision + guard_bits);
      let pow = rev_context.powi(base, exp.into());                                    // non-negative branch
      let inv = rev_context.repr_div(Repr::one(), pow.value().repr);
      let repr = inv.and_then(|v| self.repr_round(v));

  `n = 1` runs the `x¹` shortcut of the inner call (`repr_round_ref(base)`), which is `powiNonneg` on the empty
  bit list.  Only the value is modelled.
-/
namespace Dashu.Model.Trans
open Dashu.Model.Float

/-- `Round::Reverse` (`float/src/round.rs`) -/
def revMode : Mode → Mode
  | .zero => .away | .away => .zero | .up => .down | .down => .up
  | .halfEven => .halfEven | .halfAway => .halfAway

/-- precision of the reversed context -/
def powiNegPrec (p : Nat) : Nat := p + 2 * bitLen p

/-- `Context::powi(base, -n)`: the inner power, the reciprocal at the reversed context, the final rounding -/
def powiNeg (fixed : Bool) (B : Nat) (m : Mode) (c : Coarse) (p : Nat) (base : FRepr) (n : Nat) :
    Except FPanic (FRepr × FRepr × Rounded FRepr) :=
  let p' := powiNegPrec p
  let pow := (powiNonneg fixed B (revMode m) c p' base (lowBits n)).2.1
  match reprDiv B (revMode m) p' ⟨1, 0⟩ pow with
  | .error e => .error e
  | .ok inv => .ok (pow, inv.1, reprRound B m c p inv.1)

end Dashu.Model.Trans
