import Dashu.Model.Float.RoundOps
import Dashu.Model.Trans.Powi
/-
  MIRROR of the numerical bodies of `float/src/exp.rs` (`Context::{exp_internal, powi, powf}`) and
  `float/src/log.rs` (`Context::{iacoth, ln2, ln10, ln_base, ln_internal}`), statement by statement, on top
  of the C03 model of the float arithmetic (`Model/Float/Repr.lean`: `reprRound`, `ctxMul`, `ctxSqr`,
  `reprDiv`, `reprAddLargeSmall`, …).  Core Lean only.  The driver of group `trans` runs these definitions
  and compares the result DIGIT FOR DIGIT (significand, exponent, flag) with what the implementation
  printed; the accuracy clause of C11 is still decided by the certificate (`Model/Trans/Cert.lean`).

  An `FBig<R, B>` is an `FBigM` = (`repr`, `prec`): the code carries out the series with plain `FBig`
  operators, whose context is `Context::max` of the operand contexts — and operands such as
  `FBig::from(factorial)` or `FBig::from(IBig::ONE << s)` carry the digit count of the integer as their
  precision, so the precision of `increase`, `sum`, … can GROW beyond the working precision; the mirror
  tracks that (it is visible in `sub_ulp`, hence in the number of terms).

  The `f32` estimates (`log2_est`, `log2_bounds`, `digits_ub/lb`) enter through the oracle record `Est`
  (DESIGN §3): each field is the integer/boolean the code derives from an estimate.  The driver instantiates
  it with the bit-exact `Float32` replica (`Driver/TransEst.lean`); every theorem holds for every oracle.

  The three series loops are `loop { … }` in the source; here they take a `fuel` and return `none` when it
  is used up (`Props/C11Series.lean`: the result does not depend on the fuel once it suffices, and an
  explicit fuel bound under the guard the code checks).
-/
namespace Dashu.Model.Trans
open Dashu.Model.Float

/-- what the code derives from its `f32` estimates, for one base `B` -/
structure Est where
  /-- `Repr::digits_ub` on a significand -/
  dub : Int → Nat
  /-- `Repr::digits_lb` on a significand -/
  dlb : Int → Nat
  /-- `(n.log2_est() / B.log2_est()) as usize` for `n : usize` -/
  logQuot : Nat → Nat
  /-- `(n.bit_len() as f32 * B.log2_est() * 2.) as usize`, argument `n.bit_len()` -/
  powGuard : Nat → Nat
  /-- `n.log2_est() as usize` -/
  log2Floor : Nat → Nat
  /-- `x.log2_est() < -B.log2_est()` -/
  belowInvBase : FRepr → Bool
  /-- `x.log2_est() > isize::BITS as f32 + B.log2_est() + 1.` -/
  tooLarge : FRepr → Bool
  /-- `if x_log2 > 0. { (x_log2 / B.log2_est()) as usize + 1 } else { 0 }` with `x_log2 = x.log2_est()` -/
  intDigits : FRepr → Nat
  /-- `let log2 = x.log2_bounds().0; log2 as isize - (log2 < 0.) as isize` -/
  floorLog2 : FRepr → Int
  /-- `arg_digits` of `Context::powf(base, exp)` -/
  powfArgDigits : FRepr → FRepr → Nat

/-- the context of one evaluation: base, rounding mode, coarse oracle of `round_fract`, estimates -/
structure Env where
  B : Nat
  m : Mode
  c : Coarse
  est : Est

/-! ### `FBig` operators (`float/src/{add,mul,div,shift,convert,fbig,cmp}.rs`) -/

/-- `Context::max(lhs, rhs).precision` -/
def ctxMaxP (a b : Nat) : Nat := if a > b then a else b

/-- `FBig::from(n)` for an integer (`From<IBig>` = `from_parts(n, 0)`; the primitive forms go through it):
    precision = digit count of `n` (at least 1), normalised repr -/
def fOfInt (B : Nat) (n : Int) : FBigM := ⟨FRepr.new B n 0, max (digitsI B n) 1⟩

/-- `Context::convert_int(n)` at precision `p` -/
def fConvertInt (E : Env) (p : Nat) (n : Int) : FBigM := ⟨(reprRound E.B E.m E.c p (FRepr.new E.B n 0)).1, p⟩

/-- `FBig * FBig` (all ownership forms; also `FBig *= &FBig`): exact product rounded at the max context -/
def fMul (E : Env) (x y : FBigM) : FBigM :=
  let p := ctxMaxP x.prec y.prec
  ⟨(opMul E.B E.m E.c p x.repr y.repr).1, p⟩

/-- `FBig::sqr` = `self.context.sqr(&self.repr).value()` -/
def fSqr (E : Env) (x : FBigM) : FBigM := ⟨(ctxSqr false E.B E.m E.c x.prec x.repr).1, x.prec⟩

/-- `FBig + FBig` (`rs = 1`) / `FBig - FBig` (`rs = -1`) (`add_val_val` &c.).  A zero operand: the other one ROUNDED to
    the max context (`context.repr_round(rhs.repr).value()`, /repo 164990d; before that commit it was returned as it
    was, i.e. possibly longer than the result precision) -/
def fAddSub (E : Env) (x y : FBigM) (rs : Int) : FBigM :=
  let p := ctxMaxP x.prec y.prec
  let r : FRepr :=
    if x.repr.isZero then (reprRound E.B E.m E.c p ⟨rs * y.repr.signif, y.repr.exp⟩).1
    else if y.repr.isZero then (reprRound E.B E.m E.c p x.repr).1
    else if x.repr.exp = y.repr.exp then
      (reprRound E.B E.m E.c p (FRepr.new E.B (x.repr.signif + rs * y.repr.signif) x.repr.exp)).1
    else if x.repr.exp > y.repr.exp then (reprAddLargeSmall E.B E.m E.c E.est.dub p x.repr y.repr rs).1
    else (reprAddLargeSmall E.B E.m E.c E.est.dub p ⟨rs * y.repr.signif, y.repr.exp⟩ x.repr 1).1
  ⟨r, p⟩

/-- `FBig / FBig` = `repr_div` at the max context -/
def fDiv (E : Env) (x y : FBigM) : Except String FBigM :=
  let p := ctxMaxP x.prec y.prec
  match reprDiv E.B E.m p x.repr y.repr with
  | .ok r => .ok ⟨r.1, p⟩
  | .error k => .error ("panic " ++ k.name)

/-- `FBig << n` / `FBig >> n` (`n : isize`, `k = ±n`) -/
def fShl (x : FBigM) (k : Int) : FBigM := if x.repr.isZero then x else ⟨⟨x.repr.signif, x.repr.exp + k⟩, x.prec⟩

/-- `FBig::sub_ulp` -/
def fSubUlp (E : Env) (x : FBigM) : FRepr := ⟨1, x.repr.exp + (E.est.dlb x.repr.signif : Int) - (x.prec : Int) - 1⟩

/-- value order of two floats (`Ord for Repr<B>`; C14 proves the code's comparison is the value order) -/
def reprCmp (B : Nat) (a b : FRepr) : Ordering :=
  let e := min a.exp b.exp
  compare (a.signif * ((B ^ (a.exp - e).toNat : Nat) : Int)) (b.signif * ((B ^ (b.exp - e).toNat : Nat) : Int))

/-- `AbsOrd::abs_cmp`; decided by the digit positions when they differ -/
def reprAbsCmp (B : Nat) (a b : FRepr) : Ordering :=
  if a.signif = 0 ∨ b.signif = 0 then compare a.signif.natAbs b.signif.natAbs
  else
    let ta : Int := a.exp + (digitsI B a.signif : Int)
    let tb : Int := b.exp + (digitsI B b.signif : Int)
    if ta < tb then .lt else if ta > tb then .gt
    else reprCmp B ⟨(a.signif.natAbs : Int), a.exp⟩ ⟨(b.signif.natAbs : Int), b.exp⟩

/-- `mark_inexact` (`exp.rs`) -/
def markInexact (f : Option Rounding) : Option Rounding :=
  match f with
  | none => some .NoOp
  | some r => some r

/-! ### `Context::powi` (`exp.rs`), non-negative exponent `≥ 2`, limited precision, WITH the flags -/

/-- the powering loop of `Context::powi` with the `and_then` flag chain; the value component is `powLoop`
    (`Model/Trans/Powi.lean`, subject of `Props/C11Powi.lean`) — `Props/C11Series.lean` `powLoopF_value` -/
def powLoopF (B : Nat) (m : Mode) (c : Coarse) (q : Nat) (base : FRepr) : List Bool → Rounded FRepr → Rounded FRepr
  | [], cur => cur
  | b :: bs, cur =>
    let s := ctxSqr false B m c q cur.1
    let f1 := andThenFlag cur.2 s.2
    let t : Rounded FRepr :=
      if b then
        let t := ctxMul false B m c q s.1 base
        (t.1, andThenFlag f1 t.2)
      else (s.1, f1)
    powLoopF B m c q base bs t

/-- `Context::powi(base, n)` at precision `p ≠ 0` for `n ≥ 2`: `res.and_then(|v| v.with_precision(p))` -/
def powiNonnegF (E : Env) (p : Nat) (base : FRepr) (n : Nat) : Rounded FRepr :=
  let bs := lowBits n
  let y := powLoopF E.B E.m E.c (powiWorkPrec p bs) base bs (base, none)
  let r := reprRound E.B E.m E.c p y.1
  (r.1, andThenFlag y.2 r.2)

/-! ### `iacoth`, `ln2`, `ln10` (`log.rs`) -/

/-- the loop of `Context::iacoth`: `pow *= &inv2; increase = &pow / k; if increase < sum.sub_ulp() { return sum }
    sum += increase; k += 2`.  Returns the sum and the last `k`. -/
def iacothLoop (E : Env) (w : Nat) (inv2 : FBigM) : Nat → FBigM → FBigM → Nat → Except String (Option (FBigM × Nat))
  | 0, _, _, _ => .ok none
  | fuel + 1, pow, sum, k =>
    let pow := fMul E pow inv2
    match fDiv E pow (fConvertInt E w (k : Int)) with
    | .error e => .error e
    | .ok increase =>
      if reprCmp E.B increase.repr (fSubUlp E sum) = .lt then .ok (some (sum, k))
      else iacothLoop E w inv2 fuel pow (fAddSub E sum increase 1) (k + 2)

/-- `guard_digits` of `iacoth` and working precision `self.precision + guard_digits + 2` -/
def iacothWorkPrec (est : Est) (p : Nat) : Nat := p + est.logQuot p + 2

/-- `Context::iacoth(n)` at precision `p` -/
def iacoth (fuel : Nat) (E : Env) (p : Nat) (n : Int) : Except String (FBigM × Nat) := do
  let w := iacothWorkPrec E.est p
  let nf := fConvertInt E w n
  let inv ← fDiv E FBigM.one nf
  let inv2 := fSqr E inv
  match ← iacothLoop E w inv2 fuel inv inv 3 with
  | some r => pure r
  | none => throw "fuel iacoth"

/-- `Context::ln2`: `4 * self.iacoth(6.into()) + 2 * self.iacoth(99.into())` -/
def ln2 (fuel : Nat) (E : Env) (p : Nat) : Except String FBigM := do
  let a ← iacoth fuel E p 6
  let b ← iacoth fuel E p 99
  pure (fAddSub E (fMul E (fOfInt E.B 4) a.1) (fMul E (fOfInt E.B 2) b.1) 1)

/-- `Context::ln10`: `3 * self.ln2() + 2 * self.iacoth(9.into())` -/
def ln10 (fuel : Nat) (E : Env) (p : Nat) : Except String FBigM := do
  let a ← ln2 fuel E p
  let b ← iacoth fuel E p 9
  pure (fAddSub E (fMul E (fOfInt E.B 3) a) (fMul E (fOfInt E.B 2) b.1) 1)

/-! ### `ln_internal` (`log.rs`) -/

/-- the atanh loop of `ln_internal`: `pow *= &z2; increase = &pow / k; if |increase| <= sum.sub_ulp() { break }
    sum += increase; k += 2` -/
def lnLoop (E : Env) (w : Nat) (z2 : FBigM) : Nat → FBigM → FBigM → Nat → Except String (Option (FBigM × Nat))
  | 0, _, _, _ => .ok none
  | fuel + 1, pow, sum, k =>
    let pow := fMul E pow z2
    match fDiv E pow (fConvertInt E w (k : Int)) with
    | .error e => .error e
    | .ok increase =>
      if reprAbsCmp E.B increase.repr (fSubUlp E sum) ≠ .gt then .ok (some (sum, k))
      else lnLoop E w z2 fuel pow (fAddSub E sum increase 1) (k + 2)

/-- `guard_digits` and the first `work_precision` of `ln_internal` -/
def lnWorkPrec (est : Est) (p : Nat) (onePlus : Bool) : Nat := p + (est.logQuot p + 2) + (if onePlus then 1 else 0)

/-- `work_precision += self.precision` of `ln_internal` (when the final addition may cancel) -/
def lnGrowPrec (w0 p : Nat) : Nat := w0 + p

/-- what the mirror reports beside the result: working precision and number of the last series term -/
structure Trace where
  workPrec : Nat
  lastK : Nat
  deriving Repr, Inhabited

/-- `Context::ln_internal(x, one_plus)` behind its entry guards (`x` finite, in the domain, not the exact
    shortcut; `p ≠ 0`) -/
def lnBody (fuel : Nat) (E : Env) (p : Nat) (x : FRepr) (onePlus : Bool) : Except String (Rounded FBigM × Trace) := do
  let w0 := lnWorkPrec E.est p onePlus
  let x0 : FBigM := ⟨(reprRound E.B E.m E.c w0 x).1, w0⟩
  let noScaling := onePlus && E.est.belowInvBase x0.repr
  let (s, xs) ← (if noScaling then pure ((0 : Int), x0) else do
      let x1 := if onePlus then fAddSub E x0 FBigM.one 1 else x0
      if x1.repr.signif ≤ 0 then throw "panic log.rs:subtract_with_overflow-or-debug_assert(x_scaled>=1)"
      let s := E.est.floorLog2 x1.repr
      let xsc ← (if E.B = 2 then pure (fShl x1 (-s))
        else if s > 0 then fDiv E x1 (fOfInt E.B ((2 ^ s.toNat : Nat) : Int))
        else pure (fMul E x1 (fOfInt E.B ((2 ^ (-s).toNat : Nat) : Int))))
      pure (s, xsc) : Except String (Int × FBigM))
  let grow := decide (s < 0) || decide (xs.repr.signif < 0)
  let w := if grow then lnGrowPrec w0 p else w0
  let xs : FBigM := if grow then ⟨xs.repr, w⟩ else xs
  let z ← (if noScaling then
      fDiv E xs (fAddSub E xs (fAddSub E FBigM.one FBigM.one 1) 1)
    else fDiv E (fAddSub E xs FBigM.one (-1)) (fAddSub E xs FBigM.one 1))
  let z2 := fSqr E z
  match ← lnLoop E w z2 fuel z z 3 with
  | none => throw "fuel ln"
  | some (sum, k) =>
    let two := fMul E (fOfInt E.B 2) sum
    let result ← (if noScaling then pure two else do
      let l2 ← ln2 fuel E w
      pure (fAddSub E two (fMul E (fOfInt E.B s) l2) 1))
    let r := fWithPrecision E.B E.m E.c result p
    pure ((r.1, markInexact r.2), ⟨w, k⟩)

/-- `Context::ln_internal` with its entry guards, for a finite operand and `p ≠ 0` -/
def lnFull (fuel : Nat) (E : Env) (p : Nat) (x : FRepr) (onePlus : Bool) : Except String (Rounded FBigM × Trace) :=
  if (onePlus && x.isZero) || (!onePlus && x.signif == 1 && x.exp == 0) then .ok ((FBigM.zero, none), ⟨0, 0⟩)
  else if (if onePlus then decide (x.signif < 0) && reprCmp E.B x ⟨-1, 0⟩ != .gt else decide (x.signif ≤ 0)) then
    .error "panic LogInvalid"
  else lnBody fuel E p x onePlus

/-- `Context::ln_base::<B>()` at precision `p` -/
def lnBase (fuel : Nat) (E : Env) (p : Nat) : Except String FBigM :=
  if E.B = 2 then ln2 fuel E p
  else if E.B = 10 then ln10 fuel E p
  else if isPow2 E.B then do
    let l ← ln2 fuel E p
    pure (fMul E l (fOfInt E.B (E.B.log2 : Int)))
  else do
    let r ← lnFull fuel E p (FRepr.new E.B (E.B : Int) 0) false
    pure r.1.1

/-! ### `exp_internal` (`exp.rs`) -/

/-- the Maclaurin loop of `exp_internal`: `factorial *= k; pow *= &r; increase = &pow / &factorial;
    if |increase| <= sum.sub_ulp() { break }  sum += increase; k += 1` -/
def expLoop (E : Env) (r : FBigM) : Nat → Int → FBigM → FBigM → Nat → Except String (Option (FBigM × Nat))
  | 0, _, _, _, _ => .ok none
  | fuel + 1, factorial, pow, sum, k =>
    let factorial := factorial * (k : Int)
    let pow := fMul E pow r
    match fDiv E pow (fOfInt E.B factorial) with
    | .error e => .error e
    | .ok increase =>
      if reprAbsCmp E.B increase.repr (fSubUlp E sum) ≠ .gt then .ok (some (sum, k))
      else expLoop E r fuel factorial pow (fAddSub E sum increase 1) (k + 1)

/-- `series_guard_digits` -/
def seriesGuardDigits (est : Est) (p : Nat) : Nat := est.logQuot p + 2
/-- `pow_guard_digits` -/
def powGuardDigits (est : Est) (p : Nat) : Nat := est.powGuard (bitLen p)
/-- `n = 1usize << (self.precision.bit_len() / 2)` -/
def expN (p : Nat) : Nat := 2 ^ (bitLen p / 2)
/-- `work_precision` of the unscaled branch (`minus_one && |x| < 1/B`) -/
def expWorkPrecNoScaling (est : Est) (p : Nat) (neg : Bool) : Nat :=
  if neg then p + 2 * seriesGuardDigits est p else p + seriesGuardDigits est p
/-- `work_precision` of the scaled branch -/
def expWorkPrec (est : Est) (p : Nat) (x : FRepr) : Nat :=
  p + seriesGuardDigits est p + max (powGuardDigits est p) (expN p + 2) + est.intDigits x

/-- precision of the powering context of `exp_m1`: `Context::<R>::new(self.precision + self.precision / 8 + 1)` -/
def expm1PowPrec (p : Nat) : Nat := p + p / 8 + 1

/-- `FBig::div_rem_euclid` (`div.rs`): `align_as_int`, Euclidean division of the integers, remainder through
    `convert_int` at the max context, exponent restored -/
def fDivRemEuclid (E : Env) (x y : FBigM) : Int × FBigM :=
  let re := min x.repr.exp y.repr.exp
  let p := ctxMaxP x.prec y.prec
  let ediff := x.repr.exp - y.repr.exp
  let num := if ediff ≥ 0 then shlDigits E.B x.repr.signif ediff.toNat else x.repr.signif
  let den := if ediff ≥ 0 then y.repr.signif else shlDigits E.B y.repr.signif (-ediff).toNat
  let q := Int.ediv num den       -- `IBig::div_rem_euclid`: `0 ≤ r < |den|`
  let r := Int.emod num den
  let rf := fConvertInt E p r
  (q, if rf.repr.signif = 0 then rf else ⟨⟨rf.repr.signif, rf.repr.exp + re⟩, rf.prec⟩)

/-- the argument reduction of `exp_internal`: working precision `w`, `s`, `n` and the remainder `r` of
    `x = s·ln B + r` (before the shift `r >> n`); the unscaled `exp_m1` branch has `s = 0`, `n = 0`, `r = x` -/
def expReduce (fuel : Nat) (E : Env) (p : Nat) (x : FRepr) (minusOne : Bool) : Except String (Nat × Int × Nat × FBigM) :=
  if minusOne && E.est.belowInvBase x then
    let w := expWorkPrecNoScaling E.est p (decide (x.signif < 0))
    pure (w, (0 : Int), 0, (⟨(reprRound E.B E.m E.c w x).1, w⟩ : FBigM))
  else do
    let n := expN p
    if E.est.tooLarge x then throw "panic ExponentOverflow"
    let w := expWorkPrec E.est p x
    let xr : FBigM := ⟨(reprRound E.B E.m E.c w x).1, w⟩
    let logb ← lnBase fuel E w
    let (s, r) := fDivRemEuclid E xr logb
    if s < -(2 ^ 63 : Int) ∨ s ≥ (2 ^ 63 : Int) then throw "panic ExponentOverflow"
    pure (w, s, n, r)

/-- `exp_internal` after the argument reduction `a = (w, s, n, r)`: `r >> n`, Maclaurin loop, powering, `<< s` -/
def expTail (fuel : Nat) (E : Env) (p : Nat) (x : FRepr) (minusOne : Bool) (a : Nat × Int × Nat × FBigM) :
    Except String (Rounded FBigM × Trace) := do
  let noScaling := minusOne && E.est.belowInvBase x
  let (w, s, n, r) := a
  let r := fShl r (-(n : Int))
  let sum0 := if noScaling then r else fAddSub E FBigM.one r 1
  match ← expLoop E r fuel 1 r sum0 2 with
  | none => throw "fuel exp"
  | some (sum, k) =>
    if noScaling then
      let res := fWithPrecision E.B E.m E.c sum p
      pure ((res.1, markInexact res.2), ⟨w, k⟩)
    else if minusOne then
      let q := expm1PowPrec p
      let pw := powiNonnegF E q sum.repr (E.B ^ n)
      let v := fAddSub E (fShl ⟨pw.1, q⟩ s) FBigM.one (-1)
      let res := fWithPrecision E.B E.m E.c v p
      pure ((res.1, markInexact (andThenFlag pw.2 res.2)), ⟨w, k⟩)
    else
      let pw := powiNonnegF E p sum.repr (E.B ^ n)
      pure ((fShl ⟨pw.1, p⟩ s, markInexact pw.2), ⟨w, k⟩)

/-- `Context::exp_internal(x, minus_one)` behind its entry guards (`x` finite, non-zero; `p ≠ 0`) -/
def expBody (fuel : Nat) (E : Env) (p : Nat) (x : FRepr) (minusOne : Bool) : Except String (Rounded FBigM × Trace) := do
  let a ← expReduce fuel E p x minusOne
  expTail fuel E p x minusOne a

/-- `Context::exp_internal` with its entry guards, for a finite operand and `p ≠ 0` -/
def expFull (fuel : Nat) (E : Env) (p : Nat) (x : FRepr) (minusOne : Bool) : Except String (Rounded FBigM × Trace) :=
  if x.isZero then .ok ((if minusOne then FBigM.zero else FBigM.one, none), ⟨0, 0⟩)
  else expBody fuel E p x minusOne

/-! ### `powf` (`exp.rs`) -/

/-- `guard_digits` of `powf` -/
def powfGuardDigits (est : Est) (p : Nat) (base exp : FRepr) : Nat := 10 + est.log2Floor p + est.powfArgDigits base exp

/-- `Context::powf(base, exp)` behind its entry guards (finite operands, `p ≠ 0`, `exp ∉ {0, 1}`, `base > 0`):
    `work_context.ln(base).and_then(|v| work_context.mul(&v.repr, exp)).and_then(|v| work_context.exp(&v.repr))`
    then `with_precision(p)` -/
def powfBody (fuel : Nat) (E : Env) (p : Nat) (base exp : FRepr) : Except String (Rounded FBigM × Trace) := do
  let w := p + powfGuardDigits E.est p base exp
  let l ← lnFull fuel E w base false
  let m := ctxMul false E.B E.m E.c w l.1.1.repr exp
  let f1 := andThenFlag l.1.2 m.2
  let e ← expFull fuel E w m.1 false
  let f2 := andThenFlag f1 e.1.2
  let res := fWithPrecision E.B E.m E.c e.1.1 p
  pure ((res.1, andThenFlag f2 res.2), ⟨w, e.2.lastK⟩)

end Dashu.Model.Trans
