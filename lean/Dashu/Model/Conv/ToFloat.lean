import Dashu.Model.Conv.Exact
import Dashu.Model.Float.Repr
import Dashu.Gen.ConvToFloat
/-
  C06 — `RBig::to_float` / `Relaxed::to_float` (`Repr::to_float`) and `From<RBig | Relaxed> for FBig`
  (`From<Repr> for FBig`), rational/src/third_party/dashu_float.rs.  Core Lean only.  MIRROR of the code as it
  is: statement by statement, on builder-float's mirrored `Context::repr_round`, `Round::round_ratio`,
  `Repr::new` and `Context::repr_div` (`Model/Float/{Round,Repr}.lean`).

  A rational is `(num : Int, den : Nat)` as it is STORED (`RBig`: lowest terms, `Relaxed`: common factors of
  two removed) — the algorithm's digit counts, hence its result, depend on the representation.

  The saturating sum `need_digits = precision.saturating_add(den_digits)` (/repo 43925c0; before it the sum was a
  plain `usize` addition with a debug-build overflow panic), the decision `num_digits >= need_digits`, the shift
  amount and the panic site are the REGENERATED text of the source (`Dashu.Gen.ConvToFloat`, Tie A).
-/
namespace Dashu.Model.Conv
open Dashu.Model Dashu.Model.Float

/-- `UBig::ilog(&base)` / `IBig::ilog(&base)` of a non-zero value: `⌊log_B |v|⌋` = digit count − 1 -/
def ilogB (B : Nat) (v : Int) : Nat := digitsI B v - 1

/-- the quotient stage of `Repr::to_float`: `(shift, q, r)` with `q, r` the truncated quotient and remainder of
    `numerator · B^shift` by `denominator` (`IBig::div_rem(&UBig)`: the remainder has the sign of the numerator).
    `B == 2` shifts, every other base multiplies by `base.pow(shift)`. -/
def toFloatQuot (B : Nat) (num : Int) (den : Nat) (p : Nat) : Nat × Int × Int :=
  let numDigits := ilogB B num
  let denDigits := ilogB B den
  if Dashu.Gen.ConvToFloat.to_float_no_shift numDigits denDigits p then
    (0, Int.tdiv num den, Int.tmod num den)
  else
    let shift := Dashu.Gen.ConvToFloat.to_float_shift numDigits denDigits p
    let n' := if B = 2 then ishl num shift else num * ((B ^ shift : Nat) : Int)
    (shift, Int.tdiv n' den, Int.tmod n' den)

/-- the first rounding of `Repr::to_float`: `if r.is_zero() { Exact(q) } else { adjust = R::round_ratio(&q, r,
    den); Inexact(q + adjust, adjust) }` -/
def toFloatFirst (m : Float.Mode) (den : Nat) (q r : Int) : Float.Rounded Int :=
  if r = 0 then (q, none)
  else
    let adj := roundRatio m q r (den : Int)
    (q + rInt adj, some adj)

/-- `FBig >> (shift as isize)` (float/src/shift.rs): the exponent of a non-zero value is lowered -/
def fbigShr (v : FRepr) (shift : Int) : FRepr := if v.isZero then v else ⟨v.signif, v.exp - shift⟩

/-- `Repr::to_float::<R, B>(&self, precision)` for a FINITE rational `num/den` (`den > 0`), mode `m` = `R`:
    `assert!(precision > 0)`; zero ⇒ `Exact(0)`; quotient stage; first rounding to an integer; then
    `rounded.and_then(|n| context.convert_int(n))` (`Repr::new(n, 0)` + `repr_round` to `precision` digits: a
    SECOND rounding whenever the quotient has `precision + 1` or more digits; the later inexact flag wins) and
    `.map(|f| f >> shift)`.  `precision + den_digits` saturates at `usize::MAX` (inside `toFloatQuot`, regenerated);
    a saturated sum asks for a shift of about `2^64` digits, which the allocator refuses (driver: `AllocTooMuch`). -/
def ratToFloat (B : Nat) (m : Float.Mode) (c : Coarse) (num : Int) (den : Nat) (p : Nat) :
    Except PanicKind (Float.Rounded FRepr) :=
  if p = 0 then .error (.undocumented Dashu.Gen.ConvToFloat.to_float_assert_site)
  else if num = 0 then .ok ((⟨0, 0⟩ : FRepr), none)
  else
    let t := toFloatQuot B num den p
    let f := toFloatFirst m den t.2.1 t.2.2
    let rr := reprRound B m c p (FRepr.new B f.1 0)          -- `Context::<R>::new(precision).convert_int(n)`
    .ok (fbigShr rr.1 (t.1 : Int), andThenFlag f.2 rr.2)

/-- the source text of the body this model mirrors (compared with the regenerated text, `Props.C06.fbig_from_rbig_source_shape`) -/
def fromReprSource : String := "let Repr { numerator, denominator, } = v; FBig::from(numerator) / FBig::from(denominator)"

/-- `From<Repr> for FBig<R, B>`: `FBig::from(numerator) / FBig::from(denominator)` — `FBig::from(n)` =
    `from_parts(n, 0)` carries the digit count of `n` (at least 1) as its precision, the quotient is
    `Context::max(..).repr_div(..).value()`: the flag is DROPPED (an infallible conversion).  Returns the value, the
    precision of the result and the flag the code discards. -/
def fbigFromRat (B : Nat) (m : Float.Mode) (num : Int) (den : Nat) : Except FPanic (FRepr × Nat × Option Rounding) :=
  let pn := max (digitsI B num) 1
  let pd := max (digitsI B (den : Int)) 1
  let p := if pn > pd then pn else pd                       -- `Context::max`
  match reprDiv B m p (FRepr.new B num 0) (FRepr.new B (den : Int) 0) with
  | .ok r => .ok (r.1, p, r.2)
  | .error e => .error e

end Dashu.Model.Conv
