import Dashu.Model.Int.Repr
/-
  C06 — `dashu_base::FloatEncoding` for `f32` / `f64` (base/src/bit.rs) and the IEEE 754
  specification it is measured against.  Core Lean only.

  * `Ieee`            : a binary interchange format (stored mantissa bits, exponent bits).
  * `ieeeRound`       : SPEC. round-to-nearest-even of `m·2^e` to the format, written over integers
                        (`rneDiv` = nearest integer to a quotient, ties to even), with overflow to ±∞,
                        gradual underflow, and the sign of `result − exact`.  Independent of the code.
  * `EncConsts`       : the literal constants of one `impl FloatEncoding` block.
  * `encodeAsIs`      : MODEL of `encode` as it is in the pinned tree, branch by branch, shifts and
                        masks literal, debug-build overflow checks as `Except` errors.
  * `encodeFixed`     : MODEL of `encode` after `proposed_fixes/c06-encode-rounding.diff`.
  * `decode`          : MODEL of `decode`.
  A float is always its bit pattern (`Nat`).
-/
deriving instance DecidableEq for Except

namespace Dashu.Model.Conv
open Dashu.Model

/-- `Exact` / `Inexact(_, Positive)` / `Inexact(_, Negative)`: the sign of `result − exact`. -/
inductive Flag where
  | exact | pos | neg
  deriving DecidableEq, Repr

def Flag.name : Flag → String
  | .exact => "Exact" | .pos => "Inexact:+" | .neg => "Inexact:-"

/-- `Sign * Sign` on an inexact flag: flip for a negative number -/
def Flag.flipIf (f : Flag) (negative : Bool) : Flag :=
  if negative then (match f with | .exact => .exact | .pos => .neg | .neg => .pos) else f

/-! ## Specification -/

/-- IEEE 754 binary interchange format: `MB` stored mantissa bits, `EB` exponent-field bits. -/
structure Ieee where
  MB : Nat
  EB : Nat
  deriving DecidableEq, Repr

namespace Ieee
def binary32 : Ieee := ⟨23, 8⟩
def binary64 : Ieee := ⟨52, 11⟩

variable (F : Ieee)
/-- precision in bits (24 / 53) -/
def prec : Nat := F.MB + 1
def bias : Int := 2 ^ (F.EB - 1) - 1
/-- largest exponent of a finite number: values are `< 2^(emax+1)` -/
def emax : Int := F.bias
/-- exponent of the least normal number `2^emin` -/
def emin : Int := 1 - F.bias
/-- exponent of the least subnormal `2^qmin` — every finite value is an integer multiple of it -/
def qmin : Int := F.emin - F.MB
def infBits : Nat := (2 ^ F.EB - 1) * 2 ^ F.MB
def signBit : Nat := 2 ^ (F.EB + F.MB)
end Ieee

/-- nearest integer to `num / den` (`den > 0`), ties to the even integer -/
def rneDiv (num den : Nat) : Nat :=
  let q := num / den
  let r := num % den
  if 2 * r < den then q
  else if den < 2 * r then q + 1
  else if q % 2 = 0 then q else q + 1

/-- bit length: `bitLen a = k` iff `2^(k-1) ≤ a < 2^k` (for `a > 0`) -/
def bitLen (a : Nat) : Nat := if a = 0 then 0 else Nat.log2 a + 1

/-- The rounded magnitude of `a·2^e` (`a > 0`): the quantum exponent `q`, the integer significand
    `n` (so the result is `n·2^q`), and the two integers whose quotient was rounded. -/
structure Rounded where
  q : Int
  n : Nat
  num : Nat
  den : Nat

def roundMag (F : Ieee) (a : Nat) (e : Int) : Rounded :=
  -- a·2^e lies in [2^(t-1), 2^t)
  let t : Int := (bitLen a : Int) + e
  -- spacing of the format at that magnitude (subnormal spacing below 2^(emin+1))
  let q : Int := max (t - F.prec) F.qmin
  -- a·2^e / 2^q as a quotient of naturals
  let num := if q ≤ e then a * 2 ^ (e - q).toNat else a
  let den := if q ≤ e then 1 else 2 ^ (q - e).toNat
  ⟨q, rneDiv num den, num, den⟩

/-- sign of `n·den − num` as a flag -/
def flagOf (n den num : Nat) : Flag :=
  if n * den = num then .exact else if num < n * den then .pos else .neg

/-- SPEC on magnitudes (`a > 0`): bit pattern (without sign bit) of `RN_even(a·2^e)` and the sign of
    `result − a·2^e`. -/
def ieeeRoundMag (F : Ieee) (a : Nat) (e : Int) : Nat × Flag :=
  let r := roundMag F a e
  -- the result n·2^q in units of the least subnormal 2^qmin
  let units := r.n * 2 ^ (r.q - F.qmin).toNat
  if 2 ^ (F.emax + 1 - F.qmin).toNat ≤ units then
    -- the magnitude rounds to at least 2^(emax+1): infinity, which is above every real
    (F.infBits, .pos)
  else
    -- finite: field encoding of n·2^q; `decode_fieldBits` (Proofs) shows it denotes exactly n·2^q
    ((r.q - F.qmin).toNat * 2 ^ F.MB + r.n, flagOf r.n r.den r.num)

/-- SPEC of `encode`: the bit pattern of `RN_even(m·2^e)` and the sign of `result − m·2^e`.
    Zero maps to `+0` (as `encode` documents: `Exact(0)`). -/
def ieeeRound (F : Ieee) (m e : Int) : Nat × Flag :=
  if m = 0 then (0, .exact) else
  let r := ieeeRoundMag F m.natAbs e
  ((if m < 0 then F.signBit else 0) + r.1, r.2.flipIf (decide (m < 0)))

/-! ## Model of the code -/

/-- literal constants of one `impl FloatEncoding for fNN` block -/
structure EncConsts where
  /-- `uNN::BITS` -/
  N : Nat
  /-- `top_bit > ovf` ⇒ overflow (128 / 1024) -/
  ovf : Int
  /-- `top_bit < unf` ⇒ underflow (`-125 - 23` / `-1022 - 52`) -/
  unf : Int
  /-- `top_bit <= subTop` ⇒ subnormal branch (-125 / -1022) -/
  subTop : Int
  /-- `shift = exponent + subAdd` (126 + 23 / 1022 + 52) -/
  subAdd : Int
  /-- as-is only: `mantissa << (subShl + shift)` (30 / 62) -/
  subShl : Int
  /-- as-is only: `shifted >> subShr & 0b110` (28 / 60) -/
  subShr : Nat
  /-- as-is only: `shifted & subMask != 0` (0xfffffff / 0xfffffffffffffff) -/
  subMask : Nat
  /-- `exponent + bias + BITS` (127 / 1023) -/
  bias : Int
  /-- `mantissa >> mantShr` (9 / 12) -/
  mantShr : Nat
  /-- `(mantissa >> rbShr) & 0b110` (7 / 10) -/
  rbShr : Nat
  /-- `mantissa & stickyMask != 0` (0x7f / 0x3ff as is; 0xff / 0x7ff repaired) -/
  stickyMask : Nat
  /-- `exponent << expShl` (23 / 52) -/
  expShl : Nat
  /-- `sign << signShl` (31 / 63) -/
  signShl : Nat
  /-- bits of `fNN::INFINITY` -/
  inf : Nat
  /-- where the debug build panics on `(BITS - zeros) as i16 + exponent` -/
  siteAdd : String
  /-- where the debug build panics on `mantissa << (subShl + shift) as uNN` -/
  siteShl : String

def f32AsIs : EncConsts :=
  { N := 32, ovf := 128, unf := -125 - 23, subTop := -125, subAdd := 126 + 23, subShl := 30, subShr := 28,
    subMask := 0xfffffff, bias := 127, mantShr := 9, rbShr := 7, stickyMask := 0x7f, expShl := 23,
    signShl := 31, inf := 0x7f800000,
    siteAdd := "base/src/bit.rs:216|attempt_to_add_with_overflow",
    siteShl := "base/src/bit.rs:246|attempt_to_shift_left_with_overflow" }

def f64AsIs : EncConsts :=
  { N := 64, ovf := 1024, unf := -1022 - 52, subTop := -1022, subAdd := 1022 + 52, subShl := 62, subShr := 60,
    subMask := 0xfffffffffffffff, bias := 1023, mantShr := 12, rbShr := 10, stickyMask := 0x3ff,
    expShl := 52, signShl := 63, inf := 0x7ff0000000000000,
    siteAdd := "base/src/bit.rs:337|attempt_to_add_with_overflow",
    siteShl := "base/src/bit.rs:367|attempt_to_shift_left_with_overflow" }

/-- constants after the proposed repair: sticky masks cover every discarded bit, the `f32`
    underflow threshold is `-126 - 23` -/
def f32Fixed : EncConsts := { f32AsIs with unf := -126 - 23, stickyMask := 0xff }
def f64Fixed : EncConsts := { f64AsIs with stickyMask := 0x7ff }

/-- `round_to_even_adjustment(bits)` on (lsb, round bit, sticky) -/
def roundToEvenAdjustment (bits : Nat) : Bool := decide (bits ≥ 0b110) || decide (bits = 0b011)

/-- the common tail of `encode`: `Exact` / `Inexact` from `bits` and `round_bits` -/
def finish (sign bits roundBits : Nat) : Nat × Flag :=
  if roundBits &&& 0b11 = 0 then (bits, .exact)
  else if roundToEvenAdjustment roundBits then (bits + 1, Flag.flipIf .pos (decide (sign > 0)))
  else (bits, Flag.flipIf .neg (decide (sign > 0)))

/-- the normal-float branch (shared by both versions; the sticky mask comes from the constants) -/
def encodeNormal (c : EncConsts) (sign mant zeros : Nat) (exponent : Int) : Nat × Flag :=
  -- `if mantissa == 1 { 0 } else { mantissa <<= zeros + 1 }` (drops the top bit)
  let mant' := if mant = 1 then 0 else (mant <<< (zeros + 1)) % 2 ^ c.N
  -- `(exponent + bias + BITS) as uNN - zeros - 1`
  let expo : Nat := (exponent + c.bias + c.N).toNat - zeros - 1
  let bits := (sign <<< c.signShl) ||| (expo <<< c.expShl) ||| (mant' >>> c.mantShr)
  let roundBits := ((mant' >>> c.rbShr) &&& 0b110) ||| (if mant' &&& c.stickyMask ≠ 0 then 1 else 0)
  finish sign bits roundBits

/-- `encode(mantissa, exponent)` as it is in the tree (debug build: overflow checks panic).
    Arguments are assumed to be in the ranges of their Rust types. -/
def encodeAsIs (c : EncConsts) (mantissa exponent : Int) : Except PanicKind (Nat × Flag) :=
  if mantissa = 0 then .ok (0, .exact) else
  let sign : Nat := if mantissa < 0 then 1 else 0
  let mant : Nat := mantissa.natAbs
  let zeros : Nat := c.N - bitLen mant
  -- `(BITS - zeros) as i16 + exponent`, checked i16 addition
  let topBit : Int := ((c.N - zeros : Nat) : Int) + exponent
  if topBit > 32767 then .error (.undocumented c.siteAdd) else
  if topBit > c.ovf then
    .ok (if sign = 0 then (c.inf, .pos) else ((1 <<< c.signShl) ||| c.inf, .neg))
  else if topBit < c.unf then
    .ok (if sign = 0 then (0, .neg) else (1 <<< c.signShl, .pos))
  else if topBit ≤ c.subTop then
    -- subnormal float
    let shift : Int := exponent + c.subAdd
    if shift ≥ 0 then
      let mant' := mant <<< shift.toNat
      .ok (finish sign ((sign <<< c.signShl) ||| mant') 0)
    else
      let sh : Int := c.subShl + shift
      -- `(30 + shift) as u32` of a negative number is ≥ BITS: checked shl panics
      if sh < 0 then .error (.undocumented c.siteShl) else
      let shifted := (mant <<< sh.toNat) % 2 ^ c.N
      let roundBits := ((shifted >>> c.subShr) &&& 0b110) ||| (if shifted &&& c.subMask ≠ 0 then 1 else 0)
      let mant' := mant >>> (-shift).toNat
      .ok (finish sign ((sign <<< c.signShl) ||| mant') roundBits)
  else
    .ok (encodeNormal c sign mant zeros exponent)

/-- `encode` after the proposed repair: `top_bit` widened to `i32`, round bits of the subnormal
    branch taken from a double-width value, sticky masks complete. -/
def encodeFixed (c : EncConsts) (mantissa exponent : Int) : Except PanicKind (Nat × Flag) :=
  if mantissa = 0 then .ok (0, .exact) else
  let sign : Nat := if mantissa < 0 then 1 else 0
  let mant : Nat := mantissa.natAbs
  let zeros : Nat := c.N - bitLen mant
  -- `(BITS - zeros) as i32 + exponent as i32`: cannot overflow
  let topBit : Int := ((c.N - zeros : Nat) : Int) + exponent
  if topBit > c.ovf then
    .ok (if sign = 0 then (c.inf, .pos) else ((1 <<< c.signShl) ||| c.inf, .neg))
  else if topBit < c.unf then
    .ok (if sign = 0 then (0, .neg) else (1 <<< c.signShl, .pos))
  else if topBit ≤ c.subTop then
    let shift : Int := exponent + c.subAdd
    if shift ≥ 0 then
      let mant' := mant <<< shift.toNat
      .ok (finish sign ((sign <<< c.signShl) ||| mant') 0)
    else
      -- `let k = (-shift) as u32; let wide = (mantissa as u2N) << 2; let q = wide >> k;`
      let k : Nat := (-shift).toNat
      let wide := mant <<< 2
      let q := wide >>> k
      -- `let sticky = (q & 1) != 0 || (wide & ((1 << k) - 1)) != 0;`
      let sticky : Nat := if q &&& 1 ≠ 0 ∨ wide &&& ((1 <<< k) - 1) ≠ 0 then 1 else 0
      let roundBits := (q &&& 0b110) ||| sticky
      let mant' := q >>> 2
      .ok (finish sign ((sign <<< c.signShl) ||| mant') roundBits)
  else
    .ok (encodeNormal c sign mant zeros exponent)

/-! ## decode -/

inductive FpCategory where
  | nan | infinite
  deriving DecidableEq, Repr

def FpCategory.name : FpCategory → String
  | .nan => "Nan" | .infinite => "Infinite"

/-- literal constants of `decode` -/
structure DecConsts where
  signShr : Nat      -- 31 / 63
  mantMask : Nat     -- 0x7fffff / 0xfffffffffffff
  expShr : Nat       -- 23 / 52
  expMask : Nat      -- 0xff / 0x7ff
  subExp : Int       -- -126 - 23 / -1022 - 52
  expBias : Int      -- 127 + 23 / 1023 + 52
  hidden : Nat       -- 0x800000 / 0x10000000000000

def f32Dec : DecConsts := ⟨31, 0x7fffff, 23, 0xff, -126 - 23, 127 + 23, 0x800000⟩
def f64Dec : DecConsts := ⟨63, 0xfffffffffffff, 52, 0x7ff, -1022 - 52, 1023 + 52, 0x10000000000000⟩

/-- `fNN::decode(self)` on the bit pattern -/
def decode (d : DecConsts) (bits : Nat) : Except FpCategory (Int × Int) :=
  let signBit := bits >>> d.signShr
  let mantissaBits := bits &&& d.mantMask
  let exponent : Int := ((bits >>> d.expShr) &&& d.expMask : Nat)
  if exponent = d.expMask then
    if mantissaBits ≠ 0 then .error .nan else .error .infinite
  else
    let (mantissa, exponent) : Nat × Int :=
      if exponent = 0 then (mantissaBits, d.subExp) else (mantissaBits ||| d.hidden, exponent - d.expBias)
    .ok (if signBit > 0 then -(mantissa : Int) else (mantissa : Int), exponent)

end Dashu.Model.Conv
