import Dashu.Model.Conv.Ieee
/-
  C06 — primitive integers ↔ `UBig` / `IBig` (integer/src/convert.rs, integer/src/primitive.rs)
  and big integers ↔ `f32` / `f64` (integer/src/convert.rs `mod repr`, `*_float_conversions!`).
  Core Lean only.  `W` = word bits; a primitive type is its bit width (`usize`/`isize` = 64).
-/
namespace Dashu.Model.Conv
open Dashu.Model

/-- `dashu_base::ConversionError` -/
inductive ConvErr where
  | outOfBounds | lossOfPrecision
  deriving DecidableEq, Repr

def ConvErr.name : ConvErr → String
  | .outOfBounds => "OutOfBounds" | .lossOfPrecision => "LossOfPrecision"

/-! ## primitive → big -/

/-- `Repr::from_unsigned(x)`: `x.try_into::<DoubleWord>()` succeeds ⇒ `from_dword`, otherwise the
    little-endian bytes go through `from_le_bytes_large` (`from_buffer` of the words). -/
def fromUnsigned (W : Nat) (x : Nat) : TRepr :=
  if x < 2 ^ (2 * W) then .small x else fromBuffer W (natWords W x)

/-- `PrimitiveSigned::to_sign_magnitude` on an `iN` given as an integer in range:
    `(self as uN).wrapping_neg()` for negatives -/
def toSignMagnitude (bits : Nat) (x : Int) : Bool × Nat :=
  if x ≥ 0 then (false, x.toNat)
  else (true, (2 ^ bits - (x % 2 ^ bits).toNat) % 2 ^ bits)

/-- `IBig::from_signed` -/
def fromSigned (W bits : Nat) (x : Int) : SRepr :=
  let (neg, mag) := toSignMagnitude bits x
  withSign (fromUnsigned W mag) neg

/-- `UBig::try_from_signed` -/
def ubigTryFromSigned (W bits : Nat) (x : Int) : Except ConvErr TRepr :=
  let (neg, mag) := toSignMagnitude bits x
  if neg then .error .outOfBounds else .ok (fromUnsigned W mag)

/-! ## big → primitive -/

/-- `unsigned_from_words::<T>(words)` (`words.len() >= 2`) -/
def unsignedFromWords (W bits : Nat) (ws : List Nat) : Except ConvErr Nat :=
  let tWords := (bits / 8) / (W / 8)
  if tWords ≤ 1 ∨ ws.length > tWords then .error .outOfBounds
  else .ok (val W ws)

/-- `TypedReprRef::try_to_unsigned::<T>` -/
def tryToUnsigned (W bits : Nat) : TRepr → Except ConvErr Nat
  | .small dw => if dw < 2 ^ bits then .ok dw else .error .outOfBounds
  | .large ws => unsignedFromWords W bits ws

/-- `x as iN` for a `uN` value -/
def asSigned (bits : Nat) (u : Nat) : Int :=
  if u < 2 ^ (bits - 1) then (u : Int) else (u : Int) - 2 ^ bits

/-- `PrimitiveSigned::try_from_sign_magnitude(sign, mag)` with `mag : uN` -/
def tryFromSignMagnitude (bits : Nat) (neg : Bool) (mag : Nat) : Except ConvErr Int :=
  if !neg then
    -- `mag.try_into::<iN>()`
    if mag < 2 ^ (bits - 1) then .ok (mag : Int) else .error .outOfBounds
  else
    let x := asSigned bits ((2 ^ bits - mag) % 2 ^ bits)   -- `mag.wrapping_neg() as Self`
    if x ≤ 0 then .ok x else .error .outOfBounds

/-- `UBig::try_to_signed` -/
def ubigTryToSigned (W bits : Nat) (r : TRepr) : Except ConvErr Int :=
  match tryToUnsigned W bits r with
  | .ok mag => tryFromSignMagnitude bits false mag
  | .error e => .error e

/-- `IBig::try_to_unsigned` -/
def ibigTryToUnsigned (W bits : Nat) (r : SRepr) : Except ConvErr Nat :=
  if r.neg then .error .outOfBounds else tryToUnsigned W bits r.mag

/-- `IBig::try_to_signed` -/
def ibigTryToSigned (W bits : Nat) (r : SRepr) : Except ConvErr Int :=
  match tryToUnsigned W bits r.mag with
  | .ok mag => tryFromSignMagnitude bits r.neg mag
  | .error e => .error e

/-- SPEC of every integer → primitive conversion: the value if the type holds it, else OutOfBounds -/
def intoRangeSpec (lo hi : Int) (v : Int) : Except ConvErr Int :=
  if lo ≤ v ∧ v ≤ hi then .ok v else .error .outOfBounds

/-! ## big integer → float -/

/-- value (as a natural number) and bit pattern of `x as fNN` for an unsigned integer `x`:
    ASSUMPTION (Rust reference, `as` casts): int→float casts round to nearest, ties to even, and
    overflow to +∞.  Returns `(bits, some value)` for a finite result, `(inf bits, none)` otherwise. -/
def castToFloat (F : Ieee) (x : Nat) : Nat × Option Nat :=
  if x = 0 then (0, some 0) else
  let rm := roundMag F x 0
  if 2 ^ (F.emax + 1 - F.qmin).toNat ≤ rm.n * 2 ^ (rm.q - F.qmin).toNat then (F.infBits, none)
  else
    -- n·2^q with q > 0 whenever something was rounded; exact otherwise
    ((rm.q - F.qmin).toNat * 2 ^ F.MB + rm.n, some (if rm.q > 0 then rm.n * 2 ^ rm.q.toNat else x))

def flagOfCompare (back x : Nat) : Flag :=
  if back > x then .pos else if back = x then .exact else .neg

/-- `to_f32_small(dword)`: `dword as f32`, infinity test, then comparison with the saturating
    cast back (`f as DoubleWord`) -/
def toF32Small (W : Nat) (dword : Nat) : Nat × Flag :=
  match castToFloat .binary32 dword with
  | (bits, none) => (bits, .pos)
  | (bits, some v) => (bits, flagOfCompare (min v (2 ^ (2 * W) - 1)) dword)

/-- `to_f64_small(dword)` as it is: no infinity test, saturating cast back -/
def toF64SmallAsIs (W : Nat) (dword : Nat) : Nat × Flag :=
  match castToFloat .binary64 dword with
  | (bits, none) => (bits, .pos)     -- unreachable for W ≤ 64 (`const_assert!`)
  | (bits, some v) => (bits, flagOfCompare (min v (2 ^ (2 * W) - 1)) dword)

/-- `to_f64_small` after `proposed_fixes/c06-to-f64-small-saturation.diff`: a float at or above
    `2^DWORD_BITS` is above every double word -/
def toF64SmallFixed (W : Nat) (dword : Nat) : Nat × Flag :=
  match castToFloat .binary64 dword with
  | (bits, none) => (bits, .pos)
  | (bits, some v) => if v ≥ 2 ^ (2 * W) then (bits, .pos) else (bits, flagOfCompare v dword)

/-- `to_fNN_nontrivial` on the value `x` of a heap integer (`bit_len > 2W`): top `N-1` bits plus a
    sticky bit go to `encode`; `limit` = 128 / 1024; `enc` = the `encode` in force. -/
def toFloatNontrivial (enc : Int → Int → Except PanicKind (Nat × Flag)) (inf : Nat) (limit topBits : Nat)
    (x : Nat) : Except PanicKind (Nat × Flag) :=
  let n := bitLen x
  if n > limit then .ok (inf, .pos)
  else
    let top := x >>> (n - topBits)
    let extra : Nat := if x % 2 ^ (n - topBits) ≠ 0 then 1 else 0   -- `are_low_bits_nonzero`
    enc ((top ||| extra : Nat) : Int) ((n - topBits : Nat) : Int)

/-- `TypedReprRef::to_f64` -/
def toF64 (W : Nat) (fixed : Bool) : TRepr → Except PanicKind (Nat × Flag)
  | .small d => .ok (if fixed then toF64SmallFixed W d else toF64SmallAsIs W d)
  | .large ws =>
    toFloatNontrivial (if fixed then encodeFixed f64Fixed else encodeAsIs f64AsIs) f64AsIs.inf 1024 63 (val W ws)

/-- `TypedReprRef::to_f32` -/
def toF32 (W : Nat) (fixed : Bool) : TRepr → Except PanicKind (Nat × Flag)
  | .small d => .ok (toF32Small W d)
  | .large ws =>
    toFloatNontrivial (if fixed then encodeFixed f32Fixed else encodeAsIs f32AsIs) f32AsIs.inf 128 31 (val W ws)

/-- `IBig::to_f32/to_f64`: `sign * val`, `sign * diff` -/
def signedApx (F : Ieee) (neg : Bool) (r : Nat × Flag) : Nat × Flag :=
  if neg then (F.signBit + r.1, r.2.flipIf true) else r

/-- `TryFrom<UBig> for fNN`: refuses by bit length (`MANTISSA_DIGITS + 1`), then `uNN as fNN` -/
def ubigTryToFloat (F : Ieee) (x : Nat) : Except ConvErr Nat :=
  let maxBitLen := F.prec + 1
  if bitLen x > maxBitLen ∨ (bitLen x = maxBitLen ∧ x ≠ 2 ^ (bitLen x - 1)) then .error .lossOfPrecision
  else .ok (castToFloat F x).1

/-! ## float → big integer -/

/-- `TryFrom<fNN> for UBig` as it is: `man.try_into()?` then `<<=` / `>>=` (the right shift drops
    the fraction silently) -/
def ubigTryFromFloatAsIs (d : DecConsts) (bits : Nat) : Except ConvErr Nat :=
  match decode d bits with
  | .error _ => .error .outOfBounds
  | .ok (man, exp) =>
    if man < 0 then .error .outOfBounds
    else if exp ≥ 0 then .ok (man.toNat <<< exp.toNat) else .ok (man.toNat >>> (-exp).toNat)

/-- `TryFrom<fNN> for IBig` as it is (`>>=` on `IBig` rounds toward −∞) -/
def ibigTryFromFloatAsIs (d : DecConsts) (bits : Nat) : Except ConvErr Int :=
  match decode d bits with
  | .error _ => .error .outOfBounds
  | .ok (man, exp) =>
    if exp ≥ 0 then .ok (man * 2 ^ exp.toNat) else .ok (man / 2 ^ (-exp).toNat)

/-- `TryFrom<fNN> for UBig` in the current tree (fix commit after c06-int-from-float-fraction.diff):
    `result.trailing_zeros().map_or(false, |z| z < -exp)` ⇒ LossOfPrecision, written here as
    "a set bit would be shifted out" (`man % 2^(-exp) ≠ 0`, which is what `trailing_zeros < -exp`
    means for a non-zero mantissa; zero has no trailing_zeros and passes). -/
def ubigTryFromFloat (d : DecConsts) (bits : Nat) : Except ConvErr Nat :=
  match decode d bits with
  | .error _ => .error .outOfBounds
  | .ok (man, exp) =>
    if man < 0 then .error .outOfBounds
    else if exp ≥ 0 then .ok (man.toNat <<< exp.toNat)
    else if man.toNat % 2 ^ (-exp).toNat ≠ 0 then .error .lossOfPrecision
    else .ok (man.toNat >>> (-exp).toNat)

/-- `TryFrom<fNN> for IBig` in the current tree -/
def ibigTryFromFloat (d : DecConsts) (bits : Nat) : Except ConvErr Int :=
  match decode d bits with
  | .error _ => .error .outOfBounds
  | .ok (man, exp) =>
    if exp ≥ 0 then .ok (man * 2 ^ exp.toNat)
    else if man.natAbs % 2 ^ (-exp).toNat ≠ 0 then .error .lossOfPrecision
    else .ok (man / 2 ^ (-exp).toNat)

/-- SPEC (property C06): succeeds only if the float is exactly an integer the target holds -/
def intFromFloatSpec (d : DecConsts) (signed : Bool) (bits : Nat) : Except ConvErr Int :=
  match decode d bits with
  | .error _ => .error .outOfBounds
  | .ok (man, exp) =>
    if !signed ∧ man < 0 then .error .outOfBounds
    else if exp ≥ 0 then .ok (man * 2 ^ exp.toNat)
    else if man % 2 ^ (-exp).toNat = 0 then .ok (man / 2 ^ (-exp).toNat)
    else .error .lossOfPrecision

end Dashu.Model.Conv
