import Dashu.Model.Conv.Prim
/-
  C06 — rationals and floats of any base to `f32`/`f64`, integers and other number types.
  Specifications over integers/`Rat`-free quotients, and mirrored models of
  `rational/src/convert.rs` (`Repr::to_f32/to_f64/to_f32_fast/to_f64_fast`).  Core Lean only.
-/
namespace Dashu.Model.Conv
open Dashu.Model

/-! ## rounding modes (dashu_float::round::mode) -/

inductive Mode where
  | zero | away | up | down | halfEven | halfAway
  deriving DecidableEq, Repr

def Mode.parse : String → Option Mode
  | "Zero" => some .zero | "Away" => some .away | "Up" => some .up | "Down" => some .down
  | "HalfEven" => some .halfEven | "HalfAway" => some .halfAway | _ => none

/-- `dashu_float::round::Rounding` plus `Exact` -/
inductive Adj where
  | exact | noOp | addOne | subOne
  deriving DecidableEq, Repr

def Adj.name : Adj → String
  | .exact => "Exact" | .noOp => "NoOp" | .addOne => "AddOne" | .subOne => "SubOne"

/-- SPEC: round the magnitude `num/den` (`den > 0`) of a number with the given sign to an integer
    magnitude under `mode`; returns (rounded magnitude, rounded up?) -/
def roundMagMode (mode : Mode) (neg : Bool) (num den : Nat) : Nat × Bool :=
  let q := num / den
  let r := num % den
  if r = 0 then (q, false) else
  let upMag : Bool := match mode with
    | .zero => false
    | .away => true
    | .up => !neg
    | .down => neg
    | .halfEven => decide (den < 2 * r) || (decide (2 * r = den) && decide (q % 2 = 1))
    | .halfAway => decide (den ≤ 2 * r)
  (if upMag then q + 1 else q, upMag)

/-- SPEC of rounding an integer quotient `num/den` to an integer under `mode`, with dashu's
    adjustment flag relative to truncation toward zero -/
def roundIntMode (mode : Mode) (num : Int) (den : Nat) : Int × Adj :=
  let neg := decide (num < 0)
  let (m, up) := roundMagMode mode neg num.natAbs den
  let v : Int := if neg then -(m : Int) else m
  if num.natAbs % den = 0 then (v, .exact)
  else (v, if !up then .noOp else if neg then .subOne else .addOne)

/-! ## rationals → IEEE (specification) -/

/-- binade of `a/b` (`a, b > 0`): the `t` with `2^(t-1) ≤ a/b < 2^t` -/
def ratTop (a b : Nat) : Int :=
  let d : Int := (bitLen a : Int) - (bitLen b : Int)
  -- a/b ∈ (2^(d-1), 2^(d+1))
  if b * 2 ^ d.toNat ≤ a * 2 ^ (-d).toNat then d + 1 else d

/-- SPEC: the magnitude `a/b` rounded to format `F` under `mode` (sign only matters for directed
    modes): bit pattern without sign bit and the sign of `result − exact` (for the magnitude).
    Overflow goes to infinity for every mode (as dashu documents: "max f32"). -/
def ieeeRoundRatMag (F : Ieee) (mode : Mode) (neg : Bool) (a b : Nat) : Nat × Flag :=
  let t := ratTop a b
  let q : Int := max (t - F.prec) F.qmin
  let num := a * 2 ^ (-q).toNat
  let den := b * 2 ^ q.toNat
  let n := (roundMagMode mode neg num den).1
  let units := n * 2 ^ (q - F.qmin).toNat
  if 2 ^ (F.emax + 1 - F.qmin).toNat ≤ units then (F.infBits, .pos)
  else ((q - F.qmin).toNat * 2 ^ F.MB + n, flagOf n den num)

/-- SPEC: `num/den` (any sign) rounded to `F`; zero is `+0` -/
def ieeeRoundRat (F : Ieee) (mode : Mode) (num : Int) (den : Nat) : Nat × Flag :=
  if num = 0 then (0, .exact) else
  let neg := decide (num < 0)
  let r := ieeeRoundRatMag F mode neg num.natAbs den
  ((if neg then F.signBit else 0) + r.1, r.2.flipIf neg)

/-! ## `Repr::to_f32 / to_f64` (rational/src/convert.rs) -/

/-- constants of one instantiation -/
structure RatConsts where
  prec : Nat          -- 24 / 53
  infShift : Int      -- 128 / 1024
  zeroShift : Int     -- -149 - 25 / -1074 - 53
  F : Ieee

def rat32 : RatConsts := ⟨24, 128, -149 - 25, .binary32⟩
def rat64 : RatConsts := ⟨53, 1024, -1074 - 53, .binary64⟩

/-- `Approximation::and_then` for sign flags -/
def Flag.andThen (first second : Flag) : Flag :=
  match second with
  | .exact => first
  | f => f

/-- `Repr::to_f32/to_f64` as they are: the quotient (24/25 resp. 53/54 bits) is ROUNDED to an
    integer, then `encode` rounds again (`and_then` keeps the later error sign). -/
def ratToFloatAsIs (c : RatConsts) (enc : Int → Int → Except PanicKind (Nat × Flag))
    (num : Int) (den : Nat) : Except PanicKind (Nat × Flag) :=
  if num = 0 then .ok (0, .exact) else
  let neg := decide (num < 0)
  let shift : Int := (bitLen num.natAbs : Int) - (bitLen den : Int) - c.prec
  let n := if shift ≥ 0 then num.natAbs else num.natAbs * 2 ^ (-shift).toNat
  let d := if shift ≥ 0 then den * 2 ^ shift.toNat else den
  if shift ≥ c.infShift then .ok ((if neg then c.F.signBit else 0) + c.F.infBits, Flag.flipIf .pos neg)
  else if shift < c.zeroShift then .ok ((if neg then c.F.signBit else 0), Flag.flipIf .neg neg)
  else
    let man := n / d
    let r := n % d
    let (man', first) : Nat × Flag :=
      if r = 0 then (man, .exact)
      else if d < 2 * r ∨ (2 * r = d ∧ man % 2 = 1) then (man + 1, Flag.flipIf .pos neg)
      else (man, Flag.flipIf .neg neg)
    match enc (if neg then -(man' : Int) else man') shift with
    | .ok (bits, second) => .ok (bits, Flag.andThen first second)
    | .error e => .error e

/-- proposed repair (`proposed_fixes/c06-rbig-to-float-sticky.diff`): two guard bits and a sticky
    bit instead of a first rounding; `encode` then rounds once. -/
def ratToFloatFixed (c : RatConsts) (enc : Int → Int → Except PanicKind (Nat × Flag))
    (num : Int) (den : Nat) : Except PanicKind (Nat × Flag) :=
  if num = 0 then .ok (0, .exact) else
  let neg := decide (num < 0)
  let shift : Int := (bitLen num.natAbs : Int) - (bitLen den : Int) - (c.prec + 2)
  let n := if shift ≥ 0 then num.natAbs else num.natAbs * 2 ^ (-shift).toNat
  let d := if shift ≥ 0 then den * 2 ^ shift.toNat else den
  if shift ≥ c.infShift then .ok ((if neg then c.F.signBit else 0) + c.F.infBits, Flag.flipIf .pos neg)
  else if shift < c.zeroShift - 3 then .ok ((if neg then c.F.signBit else 0), Flag.flipIf .neg neg)
  else
    let man := (n / d) ||| (if n % d ≠ 0 then 1 else 0)
    enc (if neg then -(man : Int) else man) shift

/-- `Repr::to_f32_fast / to_f64_fast`: a `2p`-by-`p` bit division of truncated operands, rounded,
    then `encode(..).value()`; only a bounded error is promised. -/
def ratToFloatFast (c : RatConsts) (enc : Int → Int → Except PanicKind (Nat × Flag))
    (num : Int) (den : Nat) : Except PanicKind Nat :=
  if num = 0 then .ok 0 else
  let neg := decide (num < 0)
  let a := num.natAbs
  let numShift : Int := (bitLen a : Int) - 2 * c.prec
  -- `(&self.numerator) >> num_shift` on an IBig floors: a negative numerator rounds its magnitude up
  let numT := if numShift ≥ 0 then
      (a >>> numShift.toNat) + (if neg ∧ a % 2 ^ numShift.toNat ≠ 0 then 1 else 0)
    else a <<< (-numShift).toNat
  let denShift : Int := (bitLen den : Int) - c.prec
  let denT := if denShift ≥ 0 then den >>> denShift.toNat else den <<< (-denShift).toNat
  let exponent := numShift - denShift
  if exponent ≥ c.infShift then .ok ((if neg then c.F.signBit else 0) + c.F.infBits)
  else if exponent < c.zeroShift - (if c.prec = 53 then 1 else 0) then .ok (if neg then c.F.signBit else 0)
  else
    let man := numT / denT
    let r := numT % denT
    let man' := if denT < 2 * r ∨ (2 * r = denT ∧ man % 2 = 1) then man + 1 else man
    match enc (if neg then -(man' : Int) else man') exponent with
    | .ok (bits, _) => .ok bits
    | .error e => .error e

/-! ## floats of any base -/

/-- exact value `signif · B^exp` as a quotient (num, den) -/
def floatAsRat (B : Nat) (signif : Int) (exp : Int) : Int × Nat :=
  if exp ≥ 0 then (signif * (B : Int) ^ exp.toNat, 1) else (signif, B ^ (-exp).toNat)

/-- strip factors of `B` from a significand (`Repr::normalize`) -/
def normalizeRepr (B : Nat) (signif : Int) (exp : Int) : Int × Int :=
  if signif = 0 ∨ B < 2 then (0, 0) else
  let rec go (fuel : Nat) (s : Int) (e : Int) : Int × Int :=
    match fuel with
    | 0 => (s, e)
    | fuel + 1 => if s % (B : Int) = 0 then go fuel (s / (B : Int)) (e + 1) else (s, e)
  go (signif.natAbs.log2 + 1) signif exp

end Dashu.Model.Conv
