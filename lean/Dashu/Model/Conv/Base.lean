import Dashu.Model.Conv.Exact
import Dashu.Model.Text.Float
import Dashu.Gen.ConvConsts
/-
  C06 — `FBig::<R, B>::to_f32 / to_f64` and `Repr::<B>::to_f32 / to_f64` for a base `B ≠ 2`
  (float/src/convert.rs): `Context::<R>::new(24 | 53).convert_base::<B, 2>(repr)` followed by
  `and_then(into_f32_internal | into_f64_internal)`.  Core Lean only.

  `Context::convert_base` itself is the mirrored model of builder-text (`Dashu.Model.Text.convertBase`,
  threshold regenerated from the source, every exact-evaluation branch: power-of-two bases, multiplication for
  `exp ≥ 0`, `repr_div` or the long-dividend path for `exp < 0`); its `ln`/`exp` branch is not mirrored and is
  reported as `none` here (those inputs stay certificate/specification-checked).
-/
namespace Dashu.Model.Conv
open Dashu.Model Dashu.Model.Float

/-- the `debug_assert!(self.significand.bit_len() <= 24)` of `Repr::into_f32_internal` (debug builds; in a
    release build the value is rounded a second time inside `encode`) -/
def intoSite32 : String := Dashu.Gen.Conv.into_f32_assert_site      -- regenerated (Tie A): file, line and message
/-- the `debug_assert!(self.significand.bit_len() <= 53)` of `Repr::into_f64_internal` -/
def intoSite64 : String := Dashu.Gen.Conv.into_f64_assert_site

/-- `into_fNN_internal` including its debug assertion on the width of the significand (unreachable after
    `repr_round_ref`, reachable after `convert_base`, whose `repr_div` may return `precision + 1` digits) -/
def intoFloatInternalChecked (k : IntoConsts) (site : String) (v : FRepr) :
    Except PanicKind (Nat × Option Rounding) :=
  if bitLen v.signif.natAbs > k.prec then .error (.undocumented site)
  else intoFloatInternal k v

/-- `FBig::<R, B>::to_f32` (mode `m` of the type), `FBig::<_, B>::to_f64` / `Repr::<B>::to_f32/to_f64`
    (`m = halfEven`) for `B ≠ 2`, finite input: `convert_base::<B, 2>` at precision 24/53, then
    `and_then(into_fNN_internal)` (the later inexact flag wins).  `none`: the conversion goes through
    `ln`/`exp` (|exponent| above the threshold and `B` not a power of two). -/
def fbigToFloatBase (k : IntoConsts) (site : String) (W B : Nat) (m : Float.Mode) (r : FRepr) :
    Option (Except PanicKind (Nat × Option Rounding)) :=
  match Dashu.Model.Text.convertBase W B 2 m k.prec r with
  | .lnExp => none
  | .unlimitedPrecision => some (.error .unlimitedPrecision)
  | .ok rr =>
    match intoFloatInternalChecked k site rr.1 with
    | .error e => some (.error e)
    | .ok (bits, fl) => some (.ok (bits, andThenFlag rr.2 fl))

/-! ## round 6 (/repo 1349a4b): the range test in front of every `to_f32 / to_f64` -/

/-- `Repr::exponent_out_of_range(&self, max_exp, min_exp)` (float/src/convert.rs): `Some(true)` — the magnitude is at
    least `2^max_exp`; `Some(false)` — it is below `2^min_exp`; `None` — undecided.  The decision text is the
    REGENERATED one (`Dashu.Gen.Conv.exponent_out_of_range`, Tie A). -/
def exponentOutOfRange (r : FRepr) (maxExp minExp : Int) : Option Bool :=
  Dashu.Gen.Conv.exponent_out_of_range (decide (r.signif = 0)) r.exp (bitLen r.signif.natAbs) maxExp minExp

/-- the arms of `match self.repr.exponent_out_of_range(128 | 1024, -149 - 24 | -1074 - 53)` in `FBig::to_fNN` /
    `Repr::to_fNN`: `Some(true)` ⇒ `Inexact(±∞, AddOne | SubOne)`, `Some(false)` ⇒ `Inexact(±0, NoOp)`, `None` ⇒ go on.
    (The literal arguments are those of `into_fNN_internal`: `Props.C06.conv_constants_regenerated`.) -/
def rangeExit (k : IntoConsts) (r : FRepr) : Option (Nat × Option Rounding) :=
  match exponentOutOfRange r k.infExp k.zeroExp with
  | some true => some (if r.signif < 0 then (k.F.signBit + k.F.infBits, some .SubOne) else (k.F.infBits, some .AddOne))
  | some false => some ((if r.signif < 0 then k.F.signBit else 0), some .NoOp)
  | none => none

/-- `FBig::<R, 2>::to_f32 / to_f64`, `Repr::<2>::to_f32 / to_f64` AS THEY ARE since 1349a4b: the range test, then the
    general path (`fbigToFloat`: `repr_round_ref` + `into_fNN_internal`).  `Props.C06.fbig_to_float_range_exit_unobservable`:
    equal to the general path for every normalised input — the test only keeps the `isize` arithmetic in range. -/
def fbigToFloatCode (k : IntoConsts) (m : Float.Mode) (c : Coarse) (r : FRepr) : Except PanicKind (Nat × Option Rounding) :=
  match rangeExit k r with
  | some x => .ok x
  | none => fbigToFloat k m c r

/-- the same for a base `B ≠ 2`: the range test comes BEFORE `convert_base`, so an exponent beyond the format never
    reaches the base conversion (neither its exact branches nor `ln`/`exp`) -/
def fbigToFloatBaseCode (k : IntoConsts) (site : String) (W B : Nat) (m : Float.Mode) (r : FRepr) :
    Option (Except PanicKind (Nat × Option Rounding)) :=
  match rangeExit k r with
  | some x => some (.ok x)
  | none => fbigToFloatBase k site W B m r

/-- `TryFrom<FBig<R, 2>> for fNN` / `TryFrom<Repr<2>>` on the code as it is (they call `to_fNN`) -/
def fbigTryToFloatCode (k : IntoConsts) (c : Coarse) (r : FRepr) : Except PanicKind (Except ConvErr Nat) :=
  if FRepr.isInfinite r then .ok (.error .lossOfPrecision)
  else
    match fbigToFloatCode k .halfEven c r with
    | .error e => .error e
    | .ok (bits, none) => .ok (.ok bits)
    | .ok (bits, some _) =>
      if bits % k.F.signBit = k.F.infBits then .ok (.error .outOfBounds) else .ok (.error .lossOfPrecision)

/-! ## `TryFrom<RBig> for f32/f64`: which error a refusal carries -/

/-- SPEC (value level) of `TryFrom<RBig> for fNN` INCLUDING the kind of a refusal, for a rational in lowest terms;
    `N` = width of the signed mantissa type of `encode` (`i32`/`i64`).  `Ok` iff the IEEE rounding of `num/den` is
    exact.  Otherwise: a denominator that is no power of two ⇒ LossOfPrecision; `|num/den| ≥ 2^(emax+1)` ⇒
    OutOfBounds; `|num/den| < 2^(qmin-1)` ⇒ LossOfPrecision; else OutOfBounds exactly when the odd part of an
    integer (resp. the numerator of a proper dyadic fraction) fits the mantissa type AND the value rounds to ±∞,
    LossOfPrecision in every other case. -/
def ratTryToFloatSpec (F : Ieee) (N : Nat) (num : Int) (den : Nat) : Except ConvErr Nat :=
  let r := ieeeRoundRat F .halfEven num den
  if r.2 = .exact then .ok r.1
  else if ¬ (den ≠ 0 ∧ 2 ^ Nat.log2 den = den) then .error .lossOfPrecision
  else
    let topBit : Int := (bitLen num.natAbs : Int) - (Nat.log2 den : Int)
    if topBit > F.emax + 1 then .error .outOfBounds
    else if topBit < F.qmin then .error .lossOfPrecision
    else
      let n' : Int := if den = 1 then Int.tdiv num (2 ^ trailingZeros (bitLen num.natAbs) num.natAbs) else num
      if (-(2 ^ (N - 1) : Int) ≤ n' ∧ n' < 2 ^ (N - 1)) ∧ r.1 % F.signBit = F.infBits then .error .outOfBounds
      else .error .lossOfPrecision

end Dashu.Model.Conv
