import Dashu.Model.Conv.Ratio
import Dashu.Model.Float.Repr
/-
  C06 — the exactness-checked (`TryFrom`) conversions between `RBig`, `FBig`, integers and primitive
  floats, and `FBig/Repr::to_f32/to_f64` for base 2.  Core Lean only.

  A rational is `(num : Int, den : Nat)`; `RBig` keeps it in lowest terms (property C04), the models
  below take the parts as they are stored.  A float is builder-float's `FRepr` (`signif · B^exp`,
  infinities: `signif = 0 ∧ exp ≠ 0`).
-/
namespace Dashu.Model.Conv
open Dashu.Model Dashu.Model.Float

/-! ## `RBig` → integers (rational/src/convert.rs) -/

/-- `TryFrom<Repr> for IBig`: `denominator.is_one()` -/
def ratTryToIBig (num : Int) (den : Nat) : Except ConvErr Int :=
  if den = 1 then .ok num else .error .lossOfPrecision

/-- `TryFrom<Repr> for UBig` (current tree): sign first, then `denominator.is_one()` -/
def ratTryToUBig (num : Int) (den : Nat) : Except ConvErr Nat :=
  if num < 0 then .error .outOfBounds
  else if den = 1 then .ok num.toNat else .error .lossOfPrecision

/-- `TryFrom<Repr> for $t`: `let int: IBig = value.try_into()?; int.try_into()`; the second step is
    `IBig::try_to_signed/unsigned`, refined to `intoRangeSpec` in `Props.C06` -/
def ratTryToPrim (lo hi : Int) (num : Int) (den : Nat) : Except ConvErr Int :=
  match ratTryToIBig num den with
  | .ok v => intoRangeSpec lo hi v
  | .error e => .error e

/-- `RBig::to_int`: `split_at_point` = truncation toward zero and the fractional part (same denominator) -/
def ratToInt (num : Int) (den : Nat) : Int × Option (Int × Nat) :=
  let t := Int.tdiv num den
  let fr := Int.tmod num den
  if fr = 0 then (t, none) else (t, some (fr, den))

/-! ## primitive floats → `RBig` / `FBig` -/

/-- `TryFrom<fNN> for Repr` (rational): zero shortcut, then `man·2^exp` as `man << exp / 1` or
    `man / 2^(-exp)`; NaN and ±∞ are refused.  (`RBig` then removes the common factors of two.) -/
def ratFromFloat (d : DecConsts) (bits : Nat) : Except ConvErr (Int × Nat) :=
  match decode d bits with
  | .error _ => .error .outOfBounds
  | .ok (man, exp) =>
    if man = 0 then .ok (0, 1)
    else if exp ≥ 0 then .ok (man * 2 ^ exp.toNat, 1)
    else .ok (man, 2 ^ (-exp).toNat)

/-- result of `FBig::<_, 2>::try_from(fNN)` -/
inductive FBigFromFloat where
  | finite (r : FRepr) (precision : Nat)
  | infinity (neg : Bool)
  deriving DecidableEq, Repr

/-- `TryFrom<fNN> for FBig<R, 2>`: `Repr::new(man, exp)` with precision `bit_len(|man|)`; infinities map
    to the infinities, NaN is refused -/
def fbigFromFloat (d : DecConsts) (bits : Nat) : Except ConvErr FBigFromFloat :=
  match decode d bits with
  | .error .nan => .error .outOfBounds
  | .error .infinite => .ok (.infinity (decide (bits >>> d.signShr > 0)))
  | .ok (man, exp) => .ok (.finite (FRepr.new 2 man exp) (bitLen man.natAbs))

/-! ## `FBig` → integers (float/src/convert.rs) -/

def FRepr.isInfinite (r : FRepr) : Bool := r.signif == 0 && r.exp != 0

/-- `TryFrom<FBig<R, B>> for IBig`: infinite ⇒ OutOfBounds, `exponent < 0` ⇒ LossOfPrecision,
    else `shl_digits(significand, exponent)` -/
def fbigTryToIBig (B : Nat) (r : FRepr) : Except ConvErr Int :=
  if FRepr.isInfinite r then .error .outOfBounds
  else if r.exp < 0 then .error .lossOfPrecision
  else .ok (r.signif * (B : Int) ^ r.exp.toNat)

/-- `TryFrom<FBig<R, B>> for UBig`: through `IBig`, then the sign -/
def fbigTryToUBig (B : Nat) (r : FRepr) : Except ConvErr Nat :=
  match fbigTryToIBig B r with
  | .ok v => if v < 0 then .error .outOfBounds else .ok v.toNat
  | .error e => .error e

/-- `TryFrom<Repr<B>> for uN` / `TryFrom<FBig<R, B>> for iN`: the `f32` estimate `log2_bounds().0 >= BITS`
    is the oracle `big` (sound when it only fires for `|x| ≥ 2^BITS`); unsigned targets refuse negative
    and infinite values first. -/
def fbigTryToPrim (B : Nat) (unsigned : Bool) (lo hi : Int) (big : Bool) (r : FRepr) : Except ConvErr Int :=
  if (unsigned && decide (r.signif < 0)) || FRepr.isInfinite r then .error .outOfBounds
  else if big then .error .outOfBounds
  else if r.exp < 0 then .error .lossOfPrecision
  else intoRangeSpec lo hi (r.signif * (B : Int) ^ r.exp.toNat)

/-- `TryFrom<FBig<R, B>> for RBig` (rational/src/third_party/dashu_float.rs): exact, infinities refused -/
def fbigToRat (B : Nat) (r : FRepr) : Except ConvErr (Int × Nat) :=
  if FRepr.isInfinite r then .error .outOfBounds
  else if r.exp ≥ 0 then .ok (r.signif * (B : Int) ^ r.exp.toNat, 1)
  else .ok (r.signif, B ^ (-r.exp).toNat)

/-! ## `RBig` → primitive floats, exact or refused (current tree) -/

/-- number of trailing zero bits of a non-zero natural -/
def trailingZeros : Nat → Nat → Nat
  | 0, _ => 0
  | fuel + 1, n => if n % 2 = 0 ∧ n ≠ 0 then 1 + trailingZeros fuel (n / 2) else 0

/-- `TryFrom<RBig> for fNN`; `N` = bits of the signed mantissa type, `lb`/`ub` the literal bounds -/
def ratTryToFloat (c : EncConsts) (lb ub : Int) (num : Int) (den : Nat) : Except PanicKind (Except ConvErr Nat) :=
  if num = 0 then .ok (.ok 0)
  else if den ≠ 0 ∧ 2 ^ Nat.log2 den = den then
    let numBits := bitLen num.natAbs
    let denBits := Nat.log2 den               -- `trailing_zeros` of a power of two
    let topBit : Int := (numBits : Int) - denBits
    if topBit > ub then .ok (.error .outOfBounds)
    else if topBit < lb then .ok (.error .lossOfPrecision)
    else
      let zeros := trailingZeros numBits num.natAbs
      let (n, exp) : Int × Int :=
        if denBits = 0 then (Int.tdiv num (2 ^ zeros), (zeros : Int)) else (num, -(denBits : Int))
      -- `num.try_into::<iN>()`
      if ¬ (-(2 ^ (c.N - 1) : Int) ≤ n ∧ n < 2 ^ (c.N - 1)) then .ok (.error .lossOfPrecision)
      else
        match encodeFixed c n exp with
        | .error e => .error e
        | .ok (bits, .exact) => .ok (.ok bits)
        | .ok (bits, _) =>
          if bits % 2 ^ c.signShl = c.inf then .ok (.error .outOfBounds) else .ok (.error .lossOfPrecision)
  else .ok (.error .lossOfPrecision)

/-! ## `FBig/Repr::to_f32 / to_f64`, base 2 (float/src/convert.rs) -/

/-- constants of `into_f32_internal` / `into_f64_internal` -/
structure IntoConsts where
  prec : Nat         -- 24 / 53
  infExp : Int       -- 128 / 1024
  zeroExp : Int      -- -149 - 24 / -1074 - 53
  enc : EncConsts
  F : Ieee

def into32 : IntoConsts := ⟨24, 128, -149 - 24, f32Fixed, .binary32⟩
def into64 : IntoConsts := ⟨53, 1024, -1074 - 53, f64Fixed, .binary64⟩

/-- `Repr::<2>::into_f32_internal / into_f64_internal` on a repr already rounded to `prec` bits:
    bit pattern and dashu's `Rounding` flag (`none` = `Exact`) -/
def intoFloatInternal (k : IntoConsts) (v : FRepr) : Except PanicKind (Nat × Option Rounding) :=
  let neg := decide (v.signif < 0)
  let s := if neg then k.F.signBit else 0
  if v.exp ≥ k.infExp then .ok (s + k.F.infBits, some (if neg then .SubOne else .AddOne))
  else if v.exp < k.zeroExp then .ok (s, some .NoOp)
  else
    match encodeFixed k.enc v.signif v.exp with
    | .error e => .error e
    | .ok (bits, .exact) => .ok (bits, none)
    | .ok (bits, _) => .ok (bits, some .NoOp)     -- "this branch only happens when the result underflows"

/-- `FBig::<R, 2>::to_f32` (mode `m` of the type), `FBig::to_f64` / `Repr::to_f32/to_f64` (`m = halfEven`):
    `repr_round_ref` to 24/53 bits, then `and_then(into_fNN_internal)` (the later inexact flag wins).
    Finite input. -/
def fbigToFloat (k : IntoConsts) (m : Float.Mode) (c : Coarse) (r : FRepr) : Except PanicKind (Nat × Option Rounding) :=
  let rr := reprRound 2 m c k.prec r
  match intoFloatInternal k rr.1 with
  | .error e => .error e
  | .ok (bits, fl) => .ok (bits, andThenFlag rr.2 fl)

/-- `TryFrom<FBig<R, 2>> for fNN` / `TryFrom<Repr<2>>`: infinite ⇒ LossOfPrecision; exact ⇒ Ok; a result that
    became infinite ⇒ OutOfBounds; else LossOfPrecision -/
def fbigTryToFloat (k : IntoConsts) (c : Coarse) (r : FRepr) : Except PanicKind (Except ConvErr Nat) :=
  if FRepr.isInfinite r then .ok (.error .lossOfPrecision)
  else
    match fbigToFloat k .halfEven c r with
    | .error e => .error e
    | .ok (bits, none) => .ok (.ok bits)
    | .ok (bits, some _) =>
      if bits % k.F.signBit = k.F.infBits then .ok (.error .outOfBounds) else .ok (.error .lossOfPrecision)

end Dashu.Model.Conv
