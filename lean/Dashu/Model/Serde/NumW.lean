import Dashu.Model.Serde.Num
import Dashu.Model.Text.Bytes
import Dashu.Model.Int.Div
import Dashu.Model.NT.Lehmer
/-
  C19 clause (3), word level — the binary (`!is_human_readable`) arms of dashu's serde impls with
  the word size `W` of the build as a parameter: what each build configuration *executes*.  Core
  Lean only.  The `W`-free definitions of `Num.lean` are the specification; `Proofs/Serde/NumW.lean`
  proves the definitions below equal to them for every `W` that is a multiple of 8 (so the byte
  form of UBig / IBig / RBig / Relaxed / Repr<B> / FBig<R,B> is the same in every word size, and the
  decoders return the same value).

  Rust items mirrored:
    integer/src/third_party/serde.rs   `impl Serialize for UBig / IBig`: `is_zero` ⇒ empty byte string, else
        `words_to_le_bytes::<false>(self.as_words())` (`Text.wordsToLeBytes W false`, C07's mirror of
        integer/src/convert.rs) [+ the sign padding byte]; `visit_bytes` = `UBig::from_le_bytes`
        (`Text.fromLeBytes W`: `dword_from_le_bytes_partial` / `from_le_bytes_large`), sign from the parity.
    rational/src/third_party/serde.rs  `serialize_repr` (numerator, denominator); `deserialize_repr` (zero
        denominator ⇒ error) then `Repr::reduce` (rational/src/repr.rs): `gcd` = C12's mirrored
        `NT.gcdReprM W` (binary gcd on primitives, word / double word reduction, Lehmer), `IBig / &UBig` and
        `UBig / UBig` = C02's mirrored `Div.divRepr W` on the magnitudes (the sign is kept: `IBig / UBig`
        truncates) — resp. `Repr::reduce2` (trailing zeros and shifts: at their C09 contract, `qreduce2`).
    float/src/third_party/serde.rs     `impl Serialize for Repr<B> / FBig<R,B>` (significand as IBig, exponent
        as `isize`, precision as `usize` — `usize`/`isize` are 64 bits in every configuration: `force_bits`
        changes `Word`, not the pointer width); `repr_from_fields` / `fbig_from_fields` on the decoded fields
        (normalisation `Repr::new` at its C05 contract `fnew`, as in `Num.lean`).
-/
namespace Dashu.Model.Serde
open Dashu.Model

/-- `self.as_words()` of a non-zero `UBig`: 1 or 2 words for an inline value, the buffer otherwise -/
def asWords (W n : Nat) : List Nat := Text.wordsOf W n

/-- the byte payload of `impl Serialize for UBig` in a build with `W`-bit words -/
def ubigPayloadW (W n : Nat) : Bytes :=
  if n = 0 then [] else Text.wordsToLeBytes W false (asWords W n)

def encUW (W n : Nat) : Bytes := pcBytes (ubigPayloadW W n)

/-- `UBigVisitor::visit_bytes` = `UBig::from_le_bytes` -/
def decUW (W : Nat) (s : Bytes) : Option (Nat × Bytes) :=
  (pcTakeBytes s).map fun (b, r) => (Text.fromLeBytes W b, r)

/-- the byte payload of `impl Serialize for IBig`: `as_sign_words`, `words_to_le_bytes::<false>`, then
    `bytes.push(0)` when the parity of the length does not encode the sign -/
def ibigPayloadW (W : Nat) (z : Int) : Bytes :=
  if z = 0 then []
  else
    let bs := Text.wordsToLeBytes W false (asWords W z.natAbs)
    if (0 < z ∧ bs.length % 2 = 1) ∨ (z < 0 ∧ bs.length % 2 = 0) then bs ++ [0] else bs

def encIW (W : Nat) (z : Int) : Bytes := pcBytes (ibigPayloadW W z)

/-- `IBigVisitor::visit_bytes`: `Sign::from(v.len() & 1 == 1)`, `IBig::from_parts(sign, UBig::from_le_bytes(v))` -/
def ibigOfPayloadW (W : Nat) (b : Bytes) : Int :=
  if b.length % 2 = 1 then -(Text.fromLeBytes W b : Int) else (Text.fromLeBytes W b : Int)

def decIW (W : Nat) (s : Bytes) : Option (Int × Bytes) :=
  (pcTakeBytes s).map fun (b, r) => (ibigOfPayloadW W b, r)

/-- `serialize_repr` of rational/src/third_party/serde.rs -/
def encQW (W : Nat) (q : QVal) : Bytes := encIW W q.num ++ encUW W q.den

/-- `impl Serialize for Repr<B>` -/
def encRW (W : Nat) (v : FVal) : Bytes := encIW W v.signif ++ pcI64 v.exp

/-- `impl Serialize for FBig<R,B>` -/
def encFW (W : Nat) (v : FPVal) : Bytes := encIW W v.signif ++ pcI64 v.exp ++ pcU64 v.prec

/-- `Repr::reduce` (rational/src/repr.rs) on word-level kernels: `none` = a kernel panicked (never for a
    positive denominator: `Proofs/Serde/NumW.lean`) -/
def qreduceW (W : Nat) (n : Int) (d : Nat) : Option QVal :=
  if n = 0 then some ⟨0, 1⟩
  else
    match NT.gcdReprM W n.natAbs d with
    | .error _ => none
    | .ok g =>
      match Div.divRepr W (ofNat W n.natAbs) (ofNat W g), Div.divRepr W (ofNat W d) (ofNat W g) with
      | .ok qn, .ok qd =>
        let m : Int := (qn.value W : Nat)
        some ⟨if n < 0 then -m else m, qd.value W⟩
      | _, _ => none

/-- `impl Deserialize for RBig`, binary -/
def decQW (W : Nat) (s : Bytes) : Option (QVal × Bytes) := do
  let (n, r1) ← decIW W s
  let (d, r2) ← decUW W r1
  if d = 0 then none else
  let q ← qreduceW W n d
  pure (q, r2)

/-- `impl Deserialize for Relaxed`, binary -/
def decXW (W : Nat) (s : Bytes) : Option (QVal × Bytes) := do
  let (n, r1) ← decIW W s
  let (d, r2) ← decUW W r1
  if d = 0 then none else pure (qreduce2 n d, r2)

/-- `impl Deserialize for Repr<B>`, binary: `ReprVisitor::visit_seq` + `repr_from_fields` -/
def decRW (W B : Nat) (s : Bytes) : Option (FVal × Bytes) := do
  let (sig, r1) ← decIW W s
  let (e, r2) ← pcTakeI64 r1
  let v ← fread B sig e
  pure (v, r2)

/-- `impl Deserialize for FBig<R,B>`, binary: `FBigVisitor::visit_seq` + `fbig_from_fields` -/
def decFW (W B : Nat) (s : Bytes) : Option (FPVal × Bytes) := do
  let (sig, r1) ← decIW W s
  let (e, r2) ← pcTakeI64 r1
  let (p, r3) ← pcTakeU64 r2
  let v ← fread B sig e
  if p = 0 ∨ ndigits B v.signif ≤ p then pure (⟨v.signif, v.exp, p⟩, r3) else none

end Dashu.Model.Serde
