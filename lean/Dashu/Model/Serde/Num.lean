import Dashu.Model.Serde.Wire
import Dashu.Model.Text.Spec
import Dashu.Model.Text.Float
/-
  C19 clause (3) — dashu's `Serialize` / `Deserialize` impls on top of the two media of `Wire.lean`
  (core Lean only).  No word size occurs anywhere in this file: every encoding is a function of the
  mathematical value.

  Rust items mirrored:
    integer/src/third_party/serde.rs   UBig / IBig  (binary: LE magnitude bytes, sign of an IBig in
                                       the parity of the byte length; text: `Display` / `from_str_with_radix_prefix`)
    float/src/third_party/serde.rs     Repr<B> / FBig<R,B>  (binary: struct (significand, exponent[, precision]);
                                       text: `Display` without precision / `from_str_native`)
    float/src/fmt.rs `fmt_round` (no precision, no width), float/src/parse.rs `Repr::from_str_native`,
    float/src/repr.rs `Repr::normalize`
    rational/src/third_party/serde.rs  RBig / Relaxed (binary: struct (numerator, denominator);
                                       text: `Display` / `Repr::from_str_with_radix_prefix`), `reduce`, `reduce2`

  Decoders return `none` for "the deserializer returns an error".  Since /repo 78fd274 (rational:
  zero denominator rejected) and 9f519ab (float: `repr_from_fields` / `fbig_from_fields` — infinities
  kept, precision checked against the significand, exponent overflow of the normalisation rejected)
  the binary decoders here mirror the code.  The `…AsIs` variants mirror the code *before* those
  commits and are used only for the counterexample theorems that show the checks are needed.  Still
  open: the same exponent overflow on the text path (`from_str_native`), where the decoder here states
  what C19 requires (`none`) and the finding entry absorbs the input class.
-/
namespace Dashu.Model.Serde
open Dashu.Model.Text (printSpec printSpecInt parseDefaultSpec parseRadixSpec digits)

-- ================================================================ values as stored

/-- `dashu_float::Repr<B>` as stored -/
structure FVal where
  signif : Int
  exp : Int
  deriving DecidableEq, Repr

/-- `dashu_float::FBig<R,B>` as stored (`prec = 0` = unlimited) -/
structure FPVal where
  signif : Int
  exp : Int
  prec : Nat
  deriving DecidableEq, Repr

/-- `dashu_ratio::{RBig, Relaxed}` as stored -/
structure QVal where
  num : Int
  den : Nat
  deriving DecidableEq, Repr

def inIsize (z : Int) : Prop := inI64 z
instance (z : Int) : Decidable (inIsize z) := by unfold inIsize; exact inferInstance

/-- number of base-`B` digits of a significand, `0` for zero (`Repr::digits`) -/
def ndigits (B : Nat) (s : Int) : Nat := if s = 0 then 0 else (digits B s.natAbs).length

/-- multiplicity of `B` in a non-zero magnitude: `(m / B^k, k)` -/
def stripB (B : Nat) (m k : Nat) : Nat × Nat :=
  if h : B < 2 ∨ m = 0 ∨ m % B ≠ 0 then (m, k) else stripB B (m / B) (k + 1)
termination_by m
decreasing_by exact Nat.div_lt_self (by omega) (by omega)

/-- `Repr::new(significand, exponent)` (= `normalize`); `none` iff `exponent + shift` leaves `isize`
    (the code: overflow panic in a debug build, wrap-around in a release build) -/
def fnew (B : Nat) (s e : Int) : Option FVal :=
  if s = 0 then some ⟨0, 0⟩
  else
    let r := stripB B s.natAbs 0
    let e' := e + r.2
    if inIsize e' then some ⟨(if s < 0 then -(r.1 : Int) else (r.1 : Int)), e'⟩ else none

/-- canonical float representation: zero is `(0,0)`, the infinities are `(0,±1)`, a non-zero
    significand is not divisible by the base, the exponent is an `isize` -/
def FCanon (B : Nat) (v : FVal) : Prop :=
  (v.signif = 0 → v.exp = 0 ∨ v.exp = 1 ∨ v.exp = -1) ∧ (v.signif ≠ 0 → v.signif.natAbs % B ≠ 0) ∧ inIsize v.exp

/-- an `FBig` additionally keeps `digits ≤ precision` unless the precision is unlimited
    (`debug_assert!` in `FBig::from_repr`) -/
def FPCanon (B : Nat) (v : FPVal) : Prop :=
  FCanon B ⟨v.signif, v.exp⟩ ∧ (v.prec = 0 ∨ ndigits B v.signif ≤ v.prec)

/-- `RBig` invariant -/
def QReduced (q : QVal) : Prop := 0 < q.den ∧ Nat.gcd q.num.natAbs q.den = 1
/-- `Relaxed` invariant -/
def QRelaxed (q : QVal) : Prop := 0 < q.den ∧ ¬ (q.num % 2 = 0 ∧ q.den % 2 = 0) ∧ (q.num = 0 → q.den = 1)

-- ================================================================ binary medium

/-- `impl Serialize for UBig`, not human readable -/
def encU (n : Nat) : Bytes := pcBytes (leBytes n)

/-- `impl Deserialize for UBig` (`UBigVisitor::visit_bytes` = `UBig::from_le_bytes`) -/
def decU (s : Bytes) : Option (Nat × Bytes) := (pcTakeBytes s).map fun (b, r) => (ofLeBytes b, r)

/-- the IBig payload: magnitude bytes, padded with one zero byte so that the length is even for a
    positive and odd for a negative number -/
def ibigPayload (z : Int) : Bytes :=
  if z = 0 then []
  else
    let bs := leBytes z.natAbs
    if (0 < z ∧ bs.length % 2 = 1) ∨ (z < 0 ∧ bs.length % 2 = 0) then bs ++ [0] else bs

def encI (z : Int) : Bytes := pcBytes (ibigPayload z)

/-- `IBigVisitor::visit_bytes`: sign from the length parity; `from_parts` turns `-0` into `0` -/
def ibigOfPayload (b : Bytes) : Int :=
  if b.length % 2 = 1 then -(ofLeBytes b : Int) else (ofLeBytes b : Int)

def decI (s : Bytes) : Option (Int × Bytes) := (pcTakeBytes s).map fun (b, r) => (ibigOfPayload b, r)

/-- `impl Serialize for Repr<B>` (struct `FBigRepr`) -/
def encR (v : FVal) : Bytes := encI v.signif ++ pcI64 v.exp

/-- what the two fields of a serialized `Repr` denote: `(0, ±1)` are the infinities (that is how
    `Repr::infinity()` is stored and therefore serialized), everything else goes through `Repr::new`.
    The code as it is calls `Repr::new` unconditionally, which turns the infinities into zero. -/
def fread (B : Nat) (sig e : Int) : Option FVal :=
  if sig = 0 ∧ (e = 1 ∨ e = -1) then some ⟨0, e⟩ else fnew B sig e

/-- `ReprVisitor::visit_seq`: two fields, then `Repr::new` -/
def decR (B : Nat) (s : Bytes) : Option (FVal × Bytes) := do
  let (sig, r1) ← decI s
  let (e, r2) ← pcTakeI64 r1
  let v ← fread B sig e
  pure (v, r2)

def decRAsIs (B : Nat) (s : Bytes) : Option (FVal × Bytes) := do
  let (sig, r1) ← decI s
  let (e, r2) ← pcTakeI64 r1
  let v ← fnew B sig e
  pure (v, r2)

/-- `impl Serialize for FBig<R,B>` (struct `FBig`) -/
def encF (v : FPVal) : Bytes := encI v.signif ++ pcI64 v.exp ++ pcU64 v.prec

/-- `FBigVisitor::visit_seq` as C19 requires it: the precision must cover the significand -/
def decF (B : Nat) (s : Bytes) : Option (FPVal × Bytes) := do
  let (sig, r1) ← decI s
  let (e, r2) ← pcTakeI64 r1
  let (p, r3) ← pcTakeU64 r2
  let v ← fread B sig e
  if p = 0 ∨ ndigits B v.signif ≤ p then pure (⟨v.signif, v.exp, p⟩, r3) else none

/-- the code as it is: no check of the precision -/
def decFAsIs (B : Nat) (s : Bytes) : Option (FPVal × Bytes) := do
  let (sig, r1) ← decI s
  let (e, r2) ← pcTakeI64 r1
  let (p, r3) ← pcTakeU64 r2
  let v ← fnew B sig e
  pure (⟨v.signif, v.exp, p⟩, r3)

/-- `serialize_repr` of rational/src/third_party/serde.rs -/
def encQ (q : QVal) : Bytes := encI q.num ++ encU q.den

/-- `Repr::reduce` on a positive denominator -/
def qreduce (n : Int) (d : Nat) : QVal :=
  if n = 0 then ⟨0, 1⟩
  else
    let g := Nat.gcd n.natAbs d
    ⟨n / (g : Int), d / g⟩

/-- number of trailing zero bits (`trailing_zeros`), `0` for `0` -/
def tz (n : Nat) : Nat :=
  if h : n = 0 ∨ n % 2 = 1 then 0 else tz (n / 2) + 1
termination_by n
decreasing_by exact Nat.div_lt_self (by omega) (by omega)

/-- `Repr::reduce2` on a positive denominator -/
def qreduce2 (n : Int) (d : Nat) : QVal :=
  if n = 0 then ⟨0, 1⟩
  else
    let z := min (tz n.natAbs) (tz d)
    ⟨n / ((2 ^ z : Nat) : Int), d / 2 ^ z⟩

/-- `impl Deserialize for RBig`: (numerator, denominator) then `reduce`.  A zero denominator must be
    an error (as it is, `n/0` becomes `±1/0` and `0/0` is read as zero by `reduce`'s first test). -/
def decQ (s : Bytes) : Option (QVal × Bytes) := do
  let (n, r1) ← decI s
  let (d, r2) ← decU r1
  if d = 0 then none else pure (qreduce n d, r2)

/-- the code as it is: `gcd(n, 0) = |n|`, so `n/0` becomes `±1/0` -/
def decQAsIs (s : Bytes) : Option (QVal × Bytes) := do
  let (n, r1) ← decI s
  let (d, r2) ← decU r1
  pure (qreduce n d, r2)

/-- `impl Deserialize for Relaxed`: then `reduce2` (which unwraps `trailing_zeros` of the denominator:
    a panic for `n/0`, required to be an error) -/
def decX (s : Bytes) : Option (QVal × Bytes) := do
  let (n, r1) ← decI s
  let (d, r2) ← decU r1
  if d = 0 then none else pure (qreduce2 n d, r2)

-- ================================================================ human-readable medium

/-- `Display for UBig` / `IBig` -/
def textI (z : Int) : Bytes := printSpecInt 10 false z

def jsonU (n : Nat) : Bytes := jsonQuote (textI n)
def jsonI (z : Int) : Bytes := jsonQuote (textI z)

/-- `UBigVisitor::visit_str` = `UBig::from_str_with_radix_prefix` -/
def parseU (s : Bytes) : Option Nat :=
  match parseDefaultSpec false s 10 with
  | .ok (v, _) => some v.toNat
  | .error _ => none

/-- `IBigVisitor::visit_str` = `IBig::from_str_with_radix_prefix` -/
def parseI (s : Bytes) : Option Int :=
  match parseDefaultSpec true s 10 with
  | .ok (v, _) => some v
  | .error _ => none

def unjsonU (s : Bytes) : Option Nat := (jsonUnquote s).bind parseU
def unjsonI (s : Bytes) : Option Int := (jsonUnquote s).bind parseI

/-- `Display for rational Repr` -/
def textQ (q : QVal) : Bytes := if q.den = 1 then textI q.num else textI q.num ++ [47] ++ textI q.den

/-- split at the first occurrence of a byte -/
def splitAt1 (c : Nat) : Bytes → Option (Bytes × Bytes)
  | [] => none
  | x :: xs => if x = c then some ([], xs) else (splitAt1 c xs).map fun (a, b) => (x :: a, b)

/-- `Repr::from_str_with_radix_prefix` of rational/src/parse.rs: (numerator, denominator) before
    reduction; the denominator inherits the radix of the numerator as its default and must agree -/
def parseQRaw (s : Bytes) : Option (Int × Nat) :=
  match splitAt1 47 s with
  | some (a, b) =>
    match parseDefaultSpec true a 10 with
    | .ok (n, r) =>
      match parseDefaultSpec true b r with
      | .ok (d, r') => if r = r' then some (if d < 0 then -n else n, d.natAbs) else none
      | .error _ => none
    | .error _ => none
  | none =>
    match parseDefaultSpec true s 10 with
    | .ok (n, _) => some (n, 1)
    | .error _ => none

def parseQ (s : Bytes) : Option QVal := do
  let (n, d) ← parseQRaw s
  if d = 0 then none else pure (qreduce n d)
def parseQAsIs (s : Bytes) : Option QVal := (parseQRaw s).map fun (n, d) => qreduce n d
def parseX (s : Bytes) : Option QVal := do
  let (n, d) ← parseQRaw s
  if d = 0 then none else pure (qreduce2 n d)

def jsonQ (q : QVal) : Bytes := jsonQuote (textQ q)
def unjsonQ (s : Bytes) : Option QVal := (jsonUnquote s).bind parseQ
def unjsonX (s : Bytes) : Option QVal := (jsonUnquote s).bind parseX

-- ---------------------------------------------------------------- float text

def zeros (k : Nat) : Bytes := List.replicate k 48

/-- `Repr::fmt_round` with neither precision nor width (what `collect_str` uses): positional
    notation in base `B`, lower-case digits — builder-text's model `Text.fmtRound` (C08; the rounding
    mode is irrelevant without a precision); infinities print `inf` / `-inf` -/
def textF (B : Nat) (v : FVal) : Bytes :=
  if v.signif = 0 ∧ v.exp ≠ 0 then (if v.exp < 0 then [45, 105, 110, 102] else [105, 110, 102])
  else Dashu.Model.Text.fmtRound B .zero {} none ⟨v.signif, v.exp⟩

/-- leading sign as the float parser strips it: `-` or `+`, at most one -/
def stripSign : Bytes → Bool × Bytes
  | 45 :: r => (true, r)
  | 43 :: r => (false, r)
  | s => (false, s)

/-- `ReprVisitor::visit_str` / `FromStr`: `Repr::<B>::from_str_native` — builder-text's model
    `Text.fromStrNativeRaw` (C08; proved independent of the word size and equal to the documented
    literal grammar, `Text.fromStrNative_eq_spec`) followed by `Repr::new`; the normalised exponent is
    required to be an `isize` (the code overflows instead: panic in debug builds, wrap-around in
    release builds).  Returns the representation and the number of digits written. -/
def parseF (B : Nat) (s : Bytes) : Option (FVal × Nat) :=
  match Dashu.Model.Text.fromStrNativeRaw 64 B s with
  | .ok (sig, e, nd) =>
    let r := Dashu.Model.Float.FRepr.new B sig e
    if inIsize r.exp then some (⟨r.signif, r.exp⟩, nd) else none
  | .error _ => none

def jsonR (B : Nat) (v : FVal) : Bytes := jsonQuote (textF B v)
def unjsonR (B : Nat) (s : Bytes) : Option FVal := ((jsonUnquote s).bind (parseF B)).map (·.1)
/-- `FBigVisitor::visit_str`: precision := number of digits written -/
def unjsonF (B : Nat) (s : Bytes) : Option FPVal :=
  ((jsonUnquote s).bind (parseF B)).map fun (v, nd) => ⟨v.signif, v.exp, nd⟩

end Dashu.Model.Serde
